import Pyc.Proofs.Builder
import Pyc.Proofs.Canonical
import Pyc.Model.PackFit

/-! Helper lemmas for the size invariant of token packing (C08 extension `PackFit`).

Part 1: the size of a serialized `Value` is `coin width + bundle size`; the bundle size is a function of the bundle's
CONTENT (insertion order, zero entries and empty policies do not matter) — without any key-length hypothesis, because only
lengths are compared.  Part 2: invariants of the packing loops. -/

set_option linter.unusedSimpArgs false
set_option linter.unusedVariables false

namespace Pyc.PackFit
open Pyc Pyc.Builder Pyc.Cbor Pyc.Dict

/-! ## Part 1 — sizes -/

theorem encodePairs_length (l : List (Item × Item)) :
    (encodePairs l).length = (l.map (fun kv => (encode kv.1).length + (encode kv.2).length)).sum := by
  induction l with
  | nil => simp [encodePairs]
  | cons kv r ih =>
    obtain ⟨k, v⟩ := kv
    simp only [encodePairs, List.length_append, List.map_cons, List.sum_cons, ih]

theorem head_length_eq (major a b : Nat) (h : a = b) : (head major a).length = (head major b).length := by rw [h]

/-- a definite-length map has the same size whatever the order of its entries -/
theorem mapLen_perm (l₁ l₂ : List (Item × Item)) (h : l₁.Perm l₂) :
    (encode (.map l₁)).length = (encode (.map l₂)).length := by
  simp only [encode, List.length_append, encodePairs_length, h.length_eq]
  congr 1
  exact (h.map _).sum_nat

def qItem (q : Bytes × Int) : Item × Item := (.bytes q.1, ofInt q.2)

/-- size of `Asset.to_cbor()` -/
def aLen (a : Asset) : Nat := (encAsset a).length

theorem aLen_eq (a : Asset) : aLen a = (encode (.map ((Asset.normalize a).map qItem))).length := by
  unfold aLen encAsset itemAsset primAsset
  exact mapLen_perm _ _ ((canonSort_perm _).map _)

/-- the size of a serialized asset dict is a function of its content -/
theorem aLen_content (a b : Asset) (ha : Dict.WF a) (hb : Dict.WF b) (h : ∀ n, Asset.qty a n = Asset.qty b n) :
    aLen a = aLen b := by
  rw [aLen_eq, aLen_eq]
  exact mapLen_perm _ _ ((Asset.normalize_perm a b ha hb h).map _)

/-- what one policy contributes to the size: its key and the size of its asset dict -/
def gPair (p : Bytes × Asset) : Bytes × Nat := (p.1, aLen p.2)
def gSize (x : Bytes × Nat) : Nat := (encode (.bytes x.1)).length + x.2

theorem bundleLen_eq (m : MultiAsset) :
    bundleLen m = (head 5 (MultiAsset.normalize m).length).length
      + (((MultiAsset.normalize m).map gPair).map gSize).sum := by
  unfold bundleLen encMultiAsset itemMultiAsset primMultiAsset
  simp only [encode, List.length_append, encodePairs_length, List.length_map, List.map_map]
  have hp := canonSort_perm (MultiAsset.normalize m)
  rw [hp.length_eq]
  congr 1
  have : ((fun kv : Item × Item => (encode kv.1).length + (encode kv.2).length) ∘
            (fun p : Bytes × List (Bytes × Int) => (Item.bytes p.1, itemAsset p.2)) ∘
            (fun p : Bytes × Asset => (p.1, primAsset p.2))) = (gSize ∘ gPair) := by
    funext p
    simp [gSize, gPair, aLen, encAsset]
  rw [this]
  exact (hp.map _).sum_nat

theorem keys_gPair (m : MultiAsset) : keys (m.map gPair) = keys m := by
  simp [keys, gPair, List.map_map, Function.comp_def]

theorem gPair_sub (N₁ N₂ : MultiAsset) (h1 : MultiAsset.WF N₁) (h2 : MultiAsset.WF N₂)
    (n1 : MultiAsset.Normal N₁) (n2 : MultiAsset.Normal N₂)
    (h : ∀ p n, MultiAsset.qty N₁ p n = MultiAsset.qty N₂ p n) :
    ∀ x, x ∈ N₁.map gPair → x ∈ N₂.map gPair := by
  intro x hx
  simp only [List.mem_map] at hx ⊢
  obtain ⟨⟨p, a₁⟩, hm, rfl⟩ := hx
  have hp := MultiAsset.getD_of_mem N₁ p a₁ h1 hm
  have hp2 : has N₂ p = true := by
    rw [MultiAsset.has_iff_qty N₂ p h2 n2]
    obtain ⟨n, hn⟩ := (MultiAsset.has_iff_qty N₁ p h1 n1).1 hp.1
    exact ⟨n, by rw [← h p n]; exact hn⟩
  have hm2 := MultiAsset.mem_getD N₂ p h2 hp2
  refine ⟨(p, getD N₂ p []), hm2, ?_⟩
  simp only [gPair]
  congr 1
  apply aLen_content _ _ (h2.2 _ hm2) (h1.2 _ hm)
  intro n
  have := h p n
  simp only [MultiAsset.qty, hp.2] at this
  exact this.symm

theorem gPair_perm (m₁ m₂ : MultiAsset) (h1 : MultiAsset.WF m₁) (h2 : MultiAsset.WF m₂)
    (h : ∀ p n, MultiAsset.qty m₁ p n = MultiAsset.qty m₂ p n) :
    ((MultiAsset.normalize m₁).map gPair).Perm ((MultiAsset.normalize m₂).map gPair) := by
  have w1 := MultiAsset.wf_normalize m₁ h1
  have w2 := MultiAsset.wf_normalize m₂ h2
  have hq : ∀ p n, MultiAsset.qty (MultiAsset.normalize m₁) p n = MultiAsset.qty (MultiAsset.normalize m₂) p n := by
    intro p n
    rw [MultiAsset.qty_normalize _ _ _ h1, MultiAsset.qty_normalize _ _ _ h2, h p n]
  have d1 : Dict.WF ((MultiAsset.normalize m₁).map gPair) := by unfold Dict.WF; rw [keys_gPair]; exact w1.1
  have d2 : Dict.WF ((MultiAsset.normalize m₂).map gPair) := by unfold Dict.WF; rw [keys_gPair]; exact w2.1
  apply (List.perm_ext_iff_of_nodup (nodup_of_wf _ d1) (nodup_of_wf _ d2)).2
  intro x
  exact ⟨gPair_sub _ _ w1 w2 (MultiAsset.normal_normalize _) (MultiAsset.normal_normalize _) hq x,
         gPair_sub _ _ w2 w1 (MultiAsset.normal_normalize _) (MultiAsset.normal_normalize _)
           (fun p n => (hq p n).symm) x⟩

/-- two bundles are indistinguishable for every size measure of the packing code -/
def SizeEq (m₁ m₂ : MultiAsset) : Prop :=
  (MultiAsset.normalize m₁).isEmpty = (MultiAsset.normalize m₂).isEmpty ∧ bundleLen m₁ = bundleLen m₂

theorem sizeEq_of_content (m₁ m₂ : MultiAsset) (h1 : MultiAsset.WF m₁) (h2 : MultiAsset.WF m₂)
    (h : ∀ p n, MultiAsset.qty m₁ p n = MultiAsset.qty m₂ p n) : SizeEq m₁ m₂ := by
  have hp := gPair_perm m₁ m₂ h1 h2 h
  have hl : (MultiAsset.normalize m₁).length = (MultiAsset.normalize m₂).length := by
    simpa using hp.length_eq
  constructor
  · cases e1 : MultiAsset.normalize m₁ <;> cases e2 : MultiAsset.normalize m₂ <;> simp [e1, e2] at hl ⊢
  · rw [bundleLen_eq, bundleLen_eq, hl]
    congr 1
    exact (hp.map _).sum_nat

/-- `len(Value(c, m).to_cbor())` = width of the coin, plus — when the bundle is not empty — the 1-byte head of the
2-element array and the size of the bundle -/
theorem vlen_split (c : Int) (m : MultiAsset) :
    vlen ⟨c, m⟩ = if (MultiAsset.normalize m).isEmpty then coinLen c else 1 + coinLen c + bundleLen m := by
  unfold vlen encValue itemValue coinLen bundleLen encMultiAsset
  simp only
  split
  · rfl
  · simp only [encode, encodeList, List.length_append, List.length_nil, head]
    simp
    omega

theorem vlen_sizeEq (c : Int) (m₁ m₂ : MultiAsset) (h : SizeEq m₁ m₂) : vlen ⟨c, m₁⟩ = vlen ⟨c, m₂⟩ := by
  rw [vlen_split, vlen_split, h.1, h.2]

theorem vlen_mono_coin (c c' : Int) (m : MultiAsset) (h : coinLen c ≤ coinLen c') : vlen ⟨c, m⟩ ≤ vlen ⟨c', m⟩ := by
  rw [vlen_split, vlen_split]
  split <;> omega

/-- exchanging the coin shifts the size by the difference of the two coin widths -/
theorem vlen_shift (c c' : Int) (m : MultiAsset) : vlen ⟨c, m⟩ + coinLen c' = vlen ⟨c', m⟩ + coinLen c := by
  rw [vlen_split, vlen_split]
  split <;> omega

theorem minAda_vlen (p : Params) (addr : Bytes) (v : Value) :
    minAda p addr v = (160 + ((head 5 2).length + (encode (.uint 0)).length + (encode (.bytes addr)).length
      + (encode (.uint 1)).length + vlen (if v.coin = 0 then ⟨1000000, v.ma⟩ else v) : Nat)) * p.cpb := by
  unfold minAda minLovelace vlen encValue
  simp only [Output.itemMap, Output.datumOption, encode, encodePairs, List.length_append, List.append_nil,
    List.length_cons, List.length_nil, List.cons_append, List.nil_append, Nat.zero_add, Nat.reduceAdd]
  congr 1
  omega

theorem minAda_sizeEq (p : Params) (addr : Bytes) (c : Int) (m₁ m₂ : MultiAsset) (h : SizeEq m₁ m₂) :
    minAda p addr ⟨c, m₁⟩ = minAda p addr ⟨c, m₂⟩ := by
  rw [minAda_vlen, minAda_vlen]
  simp only
  by_cases hc : c = 0
  · simp only [hc, if_true]; rw [vlen_sizeEq _ _ _ h]
  · simp only [hc, if_false]; rw [vlen_sizeEq _ _ _ h]

theorem probeLen_sizeEq (p : Params) (addr : Bytes) (c : Int) (m₁ m₂ : MultiAsset) (h : SizeEq m₁ m₂) :
    probeLen p addr c m₁ = probeLen p addr c m₂ := by
  unfold probeLen probeCoin
  rw [minAda_sizeEq p addr c m₁ m₂ h, vlen_sizeEq _ _ _ h]

theorem fits_sizeEq (p : Params) (addr : Bytes) (c : Int) (m₁ m₂ : MultiAsset) (h : SizeEq m₁ m₂) :
    fits p addr c m₁ = fits p addr c m₂ := by
  unfold fits; rw [probeLen_sizeEq p addr c m₁ m₂ h]


/-! ## Part 2 — the packing loops -/

/-- the probe of `_adding_asset_make_output_overflow` is the measure `fits` of the attempted bundle under the coin of
the output under construction -/
theorem overflow_eq (p : Params) (addr : Bytes) (out : Value) (cur : Asset) (pol n : Bytes) (q : Int) :
    overflow p addr out cur pol n q
      = !fits p addr out.coin (MultiAsset.add [(pol, Asset.add cur [(n, q)])] out.ma) := by
  unfold overflow fits probeLen probeCoin vlen Value.add
  simp only [Int.zero_add]
  by_cases h : (encValue ⟨max (minAda p addr ⟨out.coin, MultiAsset.add [(pol, Asset.add cur [(n, q)])] out.ma⟩) out.coin,
      MultiAsset.add [(pol, Asset.add cur [(n, q)])] out.ma⟩).length ≤ p.maxValSize
  · simp [h]
  · simp [h]; omega

/-- the attempted value of the probe and the value later stored by the flush have the same content -/
theorem sizeEq_attempt_flush (out : Value) (pol : Bytes) (t : Asset) (ho : MultiAsset.WF out.ma) (ht : Dict.WF t) :
    SizeEq (MultiAsset.add [(pol, t)] out.ma) (flush out pol t).ma := by
  apply sizeEq_of_content _ _ (MultiAsset.wf_add _ _ (wf_single pol t ht)) (wf_flush _ _ _ ho)
  intro p n
  rw [MultiAsset.qty_add _ _ _ _ (wf_single pol t ht) ho, qty_flush _ _ _ ho ht, qty_single]
  omega

/-- a chunk is a single asset of the change on its own -/
def IsSingle (ch : MultiAsset) (m : MultiAsset) : Prop := ∃ pa ∈ ch, ∃ a ∈ pa.2, m = single pa.1 a

/-- what is known of a closed chunk (every output is built under the change coin `c`): empty, a single asset never
measured on its own, or measured and found to fit -/
def ChunkOK (p : Params) (addr : Bytes) (ch : MultiAsset) (c : Int) (m : MultiAsset) : Prop :=
  m = [] ∨ IsSingle ch m ∨ fits p addr c m = true

def ArrOK (p : Params) (addr : Bytes) (ch : MultiAsset) (c0 : Int) (arr : List MultiAsset) : Prop :=
  ∀ m ∈ arr, ChunkOK p addr ch c0 m

theorem arrOK_snoc (p : Params) (addr : Bytes) (ch : MultiAsset) (c0 : Int) (arr : List MultiAsset) (m : MultiAsset)
    (h : ArrOK p addr ch c0 arr) (hm : ChunkOK p addr ch c0 m) : ArrOK p addr ch c0 (arr ++ [m]) := by
  intro x hx
  simp only [List.mem_append, List.mem_singleton] at hx
  rcases hx with hx | hx
  · exact h x hx
  · subst hx; exact hm

/-- invariant of the inner loop over the assets of policy `pol` (all of them members of `assetsAll`) -/
structure Inner (p : Params) (addr : Bytes) (ch : MultiAsset) (c0 : Int) (pol : Bytes) (assetsAll : Asset)
    (s : PackState) : Prop where
  wf : StateWF s
  arr : ArrOK p addr ch c0 s.arr
  coin : s.out.coin = c0
  out : s.out.ma = [] ∨ fits p addr c0 s.out.ma = true
  old : (s.old.ma = [] ∨ fits p addr c0 s.old.ma = true) ∧ s.old.coin = c0 ∧ MultiAsset.WF s.old.ma
  temp : s.temp = [] ∨ fits p addr c0 (flush s.out pol s.temp).ma = true ∨
    (s.out = ⟨c0, []⟩ ∧ ∃ a ∈ assetsAll, s.temp = Asset.add [] [a])

theorem packAsset_inner (p : Params) (addr : Bytes) (ch : MultiAsset) (c0 : Int) (pol : Bytes) (assetsAll : Asset)
    (hmem : (pol, assetsAll) ∈ ch) (s : PackState) (a : Bytes × Int) (ha : a ∈ assetsAll)
    (hs : Inner p addr ch c0 pol assetsAll s) : Inner p addr ch c0 pol assetsAll (packAsset p addr c0 pol s a) := by
  have hwf' := packAsset_wf p addr c0 pol s a hs.wf
  obtain ⟨an, aq⟩ := a
  unfold packAsset at hwf' ⊢
  by_cases ho : overflow p addr s.out s.temp pol an aq = true
  · -- the chunk is closed
    simp only [ho, if_true] at hwf' ⊢
    have hchunk : ChunkOK p addr ch c0 (if s.temp.isEmpty = true then s.out else flush s.out pol s.temp).ma := by
      by_cases ht : s.temp.isEmpty = true
      · simp only [ht, if_true]
        rcases hs.out with h | h
        · exact Or.inl h
        · exact Or.inr (Or.inr h)
      · have ht2 : s.temp.isEmpty = false := by simpa using ht
        simp only [ht2, Bool.false_eq_true, if_false]
        rcases hs.temp with h | h | ⟨h1, a0, ha0, h2⟩
        · rw [h] at ht; simp at ht
        · exact Or.inr (Or.inr h)
        · refine Or.inr (Or.inl ⟨(pol, assetsAll), hmem, a0, ha0, ?_⟩)
          rw [h1, h2]; rfl
    exact {
      wf := hwf'
      arr := arrOK_snoc p addr ch c0 s.arr _ hs.arr hchunk
      coin := rfl
      out := Or.inl rfl
      old := ⟨Or.inl rfl, rfl, MultiAsset.wf_nil⟩
      temp := Or.inr (Or.inr ⟨rfl, (an, aq), ha, rfl⟩) }
  · have ho' : overflow p addr s.out s.temp pol an aq = false := by simpa using ho
    simp only [ho', Bool.false_eq_true, if_false] at hwf' ⊢
    refine { wf := hwf', arr := hs.arr, coin := hs.coin, out := hs.out, old := hs.old, temp := Or.inr (Or.inl ?_) }
    rw [overflow_eq, hs.coin] at ho'
    have hf : fits p addr c0 (MultiAsset.add [(pol, Asset.add s.temp [(an, aq)])] s.out.ma) = true := by
      simpa using ho'
    rw [← fits_sizeEq p addr c0 _ _ (sizeEq_attempt_flush s.out pol _ hs.wf.1 hwf'.2)]
    exact hf

theorem foldl_inner (p : Params) (addr : Bytes) (ch : MultiAsset) (c0 : Int) (pol : Bytes) (assetsAll : Asset)
    (hmem : (pol, assetsAll) ∈ ch) (as : Asset) (has : ∀ a ∈ as, a ∈ assetsAll) (s : PackState)
    (hs : Inner p addr ch c0 pol assetsAll s) :
    Inner p addr ch c0 pol assetsAll (as.foldl (packAsset p addr c0 pol) s) := by
  induction as generalizing s with
  | nil => simpa
  | cons a r ih =>
    simp only [List.foldl_cons]
    exact ih (fun x hx => has x (by simp [hx])) _
      (packAsset_inner p addr ch c0 pol assetsAll hmem s a (has a (by simp)) hs)

/-- invariant of the outer loop over the policies -/
structure Outer (p : Params) (addr : Bytes) (ch : MultiAsset) (c0 : Int) (s : PackState) : Prop where
  wf : MultiAsset.WF s.out.ma
  arr : ArrOK p addr ch c0 s.arr
  coin : s.out.coin = c0
  out : s.out.ma = [] ∨ fits p addr c0 s.out.ma = true

/-- the state after the inner loop of one policy -/
def afterPolicy (p : Params) (addr : Bytes) (c0 : Int) (pol : Bytes) (assets : Asset) (s : PackState) : PackState :=
  assets.foldl (packAsset p addr c0 pol) { s with temp := [], old := s.out }

theorem afterPolicy_inner (p : Params) (addr : Bytes) (ch : MultiAsset) (c0 : Int) (pol : Bytes) (assets : Asset)
    (hmem : (pol, assets) ∈ ch) (s : PackState) (hs : Outer p addr ch c0 s) :
    Inner p addr ch c0 pol assets (afterPolicy p addr c0 pol assets s) := by
  apply foldl_inner p addr ch c0 pol assets hmem assets (fun a h => h)
  exact { wf := ⟨hs.wf, Dict.wf_nil⟩, arr := hs.arr, coin := hs.coin, out := hs.out,
          old := ⟨hs.out, hs.coin, hs.wf⟩, temp := Or.inl rfl }

/-- the end-of-policy re-check is the measure `fits` of the flushed output -/
theorem recheck_eq (p : Params) (addr : Bytes) (out2 : Value) :
    decide ((encValue ⟨max (minAda p addr out2) out2.coin, out2.ma⟩).length > p.maxValSize)
      = !fits p addr out2.coin out2.ma := by
  unfold fits probeLen probeCoin vlen
  by_cases h : (encValue ⟨max (minAda p addr out2) out2.coin, out2.ma⟩).length ≤ p.maxValSize
  · simp [h]
  · simp [h]; omega

theorem packPolicies_cons (p : Params) (addr : Bytes) (c0 : Int) (pol : Bytes) (assets : Asset)
    (rest : List (Bytes × Asset)) (s : PackState) :
    packPolicies p addr c0 ((pol, assets) :: rest) s =
      (let s1 := afterPolicy p addr c0 pol assets s
       let out2 := flush s1.out pol s1.temp
       if fits p addr out2.coin out2.ma = true then packPolicies p addr c0 rest { s1 with out := out2, temp := [] }
       else ({ s1 with out := s1.old, temp := [] }, true)) := by
  simp only [packPolicies, afterPolicy]
  have := recheck_eq p addr (flush (assets.foldl (packAsset p addr c0 pol) { s with temp := [], old := s.out }).out pol
    (assets.foldl (packAsset p addr c0 pol) { s with temp := [], old := s.out }).temp)
  by_cases h : fits p addr (flush (assets.foldl (packAsset p addr c0 pol) { s with temp := [], old := s.out }).out pol
      (assets.foldl (packAsset p addr c0 pol) { s with temp := [], old := s.out }).temp).coin
      (flush (assets.foldl (packAsset p addr c0 pol) { s with temp := [], old := s.out }).out pol
      (assets.foldl (packAsset p addr c0 pol) { s with temp := [], old := s.out }).temp).ma = true
  · simp only [h, Bool.not_true, decide_eq_false_iff_not] at this
    simp only [h, if_true, this, if_false]
  · have h' : fits p addr (flush (assets.foldl (packAsset p addr c0 pol) { s with temp := [], old := s.out }).out pol
      (assets.foldl (packAsset p addr c0 pol) { s with temp := [], old := s.out }).temp).coin
      (flush (assets.foldl (packAsset p addr c0 pol) { s with temp := [], old := s.out }).out pol
      (assets.foldl (packAsset p addr c0 pol) { s with temp := [], old := s.out }).temp).ma = false := by simpa using h
    simp only [h', Bool.not_false, decide_eq_true_eq] at this
    simp only [h', Bool.false_eq_true, if_false, this, if_true]

theorem flush_coin (out : Value) (pol : Bytes) (t : Asset) : (flush out pol t).coin = out.coin := by
  simp [flush, Value.add]

theorem packPolicies_outer (p : Params) (addr : Bytes) (ch : MultiAsset) (c0 : Int) (pols : List (Bytes × Asset))
    (hsub : ∀ pa ∈ pols, pa ∈ ch) (s : PackState) (hs : Outer p addr ch c0 s) :
    Outer p addr ch c0 (packPolicies p addr c0 pols s).1 := by
  induction pols generalizing s with
  | nil => simpa [packPolicies]
  | cons pa rest ih =>
    obtain ⟨pol, assets⟩ := pa
    have hin := afterPolicy_inner p addr ch c0 pol assets (hsub _ (by simp)) s hs
    rw [packPolicies_cons]
    simp only
    split
    · rename_i hfit
      rw [flush_coin, hin.coin] at hfit
      apply ih (fun x hx => hsub x (by simp [hx]))
      exact { wf := wf_flush _ _ _ hin.wf.1, arr := hin.arr, coin := by rw [flush_coin]; exact hin.coin,
              out := Or.inr hfit }
    · exact { wf := hin.old.2.2, arr := hin.arr, coin := hin.old.2.1, out := hin.old.1 }

def initState (ch : Value) : PackState := { arr := [], out := ⟨ch.coin, []⟩, temp := [], old := ⟨ch.coin, []⟩ }

theorem packTokens_eq (p : Params) (addr : Bytes) (ch : Value) :
    packTokens p addr ch = ((packPolicies p addr ch.coin ch.ma (initState ch)).1.arr
      ++ [(packPolicies p addr ch.coin ch.ma (initState ch)).1.out.ma],
      (packPolicies p addr ch.coin ch.ma (initState ch)).2) := rfl

theorem outer_init (p : Params) (addr : Bytes) (chm : MultiAsset) (ch : Value) : Outer p addr chm ch.coin (initState ch) :=
  { wf := MultiAsset.wf_nil, arr := by intro m hm; simp [initState] at hm, coin := rfl, out := Or.inl rfl }

/-- **provenance of every chunk** `_pack_tokens_for_change` returns, for all inputs -/
theorem packTokens_arrOK (p : Params) (addr : Bytes) (ch : Value) :
    ArrOK p addr ch.ma ch.coin (packTokens p addr ch).1 := by
  rw [packTokens_eq]
  have h := packPolicies_outer p addr ch.ma ch.coin ch.ma (fun _ h => h) (initState ch) (outer_init p addr ch.ma ch)
  apply arrOK_snoc _ _ _ _ _ _ h.arr
  rcases h.out with h1 | h1
  · exact Or.inl h1
  · exact Or.inr (Or.inr h1)

/-! ## Part 3 — from provenance to the size bound -/

theorem noSingleOver_iff (p : Params) (addr : Bytes) (ch : Value) :
    noSingleOver p addr ch = true ↔ ∀ pa ∈ ch.ma, ∀ a ∈ pa.2, fits p addr ch.coin (single pa.1 a) = true := by
  simp [noSingleOver, List.all_eq_true]

/-- a bundle fits whatever coin is finally written next to it, up to the difference of the coin widths -/
def FitsX (p : Params) (addr : Bytes) (c : Int) (m : MultiAsset) : Prop :=
  m = [] ∨ ∀ c' : Int, vlen ⟨c', m⟩ + coinLen (probeCoin p addr c m) ≤ p.maxValSize + coinLen c'

theorem fitsX_of_fits (p : Params) (addr : Bytes) (c : Int) (m : MultiAsset) (h : fits p addr c m = true) :
    FitsX p addr c m := by
  right
  intro c'
  have h1 : vlen ⟨probeCoin p addr c m, m⟩ ≤ p.maxValSize := by
    simp only [fits, probeLen] at h; exact of_decide_eq_true h
  have := vlen_shift c' (probeCoin p addr c m) m
  omega

def ArrFit (p : Params) (addr : Bytes) (c0 : Int) (l : List MultiAsset) : Prop := ∀ m ∈ l, FitsX p addr c0 m

theorem chunkOK_fitsX (p : Params) (addr : Bytes) (ch : Value) (hs : noSingleOver p addr ch = true)
    (m : MultiAsset) (h : ChunkOK p addr ch.ma ch.coin m) : FitsX p addr ch.coin m := by
  rcases h with h | ⟨pa, hpa, a, ha, rfl⟩ | h
  · exact Or.inl h
  · exact fitsX_of_fits _ _ _ _ ((noSingleOver_iff p addr ch).1 hs pa hpa a ha)
  · exact fitsX_of_fits _ _ _ _ h

theorem packTokens_arrFit (p : Params) (addr : Bytes) (ch : Value) (hs : noSingleOver p addr ch = true) :
    ArrFit p addr ch.coin (packTokens p addr ch).1 :=
  fun m hm => chunkOK_fitsX p addr ch hs m (packTokens_arrOK p addr ch m hm)

/-! ## Part 4 — number of chunks -/

theorem packAsset_arr_len (p : Params) (addr : Bytes) (c0 : Int) (pol : Bytes) (s : PackState) (a : Bytes × Int) :
    (packAsset p addr c0 pol s a).arr.length ≤ s.arr.length + 1 := by
  unfold packAsset
  split <;> simp

theorem foldl_arr_len (p : Params) (addr : Bytes) (c0 : Int) (pol : Bytes) (as : Asset) (s : PackState) :
    (as.foldl (packAsset p addr c0 pol) s).arr.length ≤ s.arr.length + as.length := by
  induction as generalizing s with
  | nil => simp
  | cons a r ih =>
    simp only [List.foldl_cons, List.length_cons]
    have h1 := ih (packAsset p addr c0 pol s a)
    have h2 := packAsset_arr_len p addr c0 pol s a
    omega

theorem packPolicies_arr_len (p : Params) (addr : Bytes) (c0 : Int) (pols : List (Bytes × Asset)) (s : PackState) :
    (packPolicies p addr c0 pols s).1.arr.length ≤ s.arr.length + pairCount pols := by
  induction pols generalizing s with
  | nil => simp [packPolicies, pairCount]
  | cons pa rest ih =>
    obtain ⟨pol, assets⟩ := pa
    rw [packPolicies_cons]
    have h1 : (assets.foldl (packAsset p addr c0 pol) { s with temp := [], old := s.out }).arr.length
        ≤ s.arr.length + assets.length := foldl_arr_len p addr c0 pol assets { s with temp := [], old := s.out }
    simp only [pairCount, List.map_cons, List.sum_cons] at ih ⊢
    split
    · have h2 := ih { afterPolicy p addr c0 pol assets s with
        out := flush (afterPolicy p addr c0 pol assets s).out pol (afterPolicy p addr c0 pol assets s).temp, temp := [] }
      simp only [afterPolicy] at h2 ⊢
      omega
    · simp only [afterPolicy]
      omega

theorem packTokens_length (p : Params) (addr : Bytes) (ch : Value) :
    (packTokens p addr ch).1.length ≤ pairCount ch.ma + 1 := by
  rw [packTokens_eq]
  have := packPolicies_arr_len p addr ch.coin ch.ma (initState ch)
  simp only [initState, List.length_nil, Nat.zero_add] at this
  simp only [List.length_append, List.length_cons, List.length_nil]
  simp only [initState]
  omega


/-! ## Part 5 — no `break`, no empty chunk, when every quantity is positive and no single asset is too big -/

theorem qty_ne_nil (m : MultiAsset) (p n : Bytes) (h : 0 < MultiAsset.qty m p n) : m ≠ [] := by
  intro hm; rw [hm, qty_nil] at h; omega

theorem asset_qty_nil (n : Bytes) : Asset.qty [] n = 0 := by simp [Asset.qty, getD]

/-- second invariant of the inner loop: quantities stay non-negative, closed chunks are non-empty, and an empty buffer
sits on a non-empty output unless nothing has been packed at all -/
structure Inner2 (ch : Value) (s : PackState) : Prop where
  tq : ∀ n, 0 ≤ Asset.qty s.temp n
  oq : ∀ p n, 0 ≤ MultiAsset.qty s.out.ma p n
  ne : ∀ m ∈ s.arr, m ≠ []
  start : (∃ n, 0 < Asset.qty s.temp n) ∨ (s.temp = [] ∧ (s.out.ma ≠ [] ∨ (s.arr = [] ∧ s.out = ⟨ch.coin, []⟩)))

theorem packAsset_inner2 (p : Params) (addr : Bytes) (ch : Value) (pol : Bytes) (s : PackState) (a : Bytes × Int)
    (hw : StateWF s) (h2 : Inner2 ch s) (ha : 0 < a.2) (hfc : fits p addr ch.coin (single pol a) = true) :
    Inner2 ch (packAsset p addr ch.coin pol s a) ∧ ∃ n, 0 < Asset.qty (packAsset p addr ch.coin pol s a).temp n := by
  obtain ⟨an, aq⟩ := a
  simp only at ha
  have hadd : ∀ (t : Asset), Dict.WF t → ∀ n, Asset.qty (Asset.add t [(an, aq)]) n = Asset.qty t n + if an = n then aq else 0 := by
    intro t ht n
    rw [Asset.qty_add _ _ _ ht (asset_wf_single an aq), asset_qty_single]
  unfold packAsset
  by_cases ho : overflow p addr s.out s.temp pol an aq = true
  · simp only [ho, if_true]
    have hq : ∀ n, Asset.qty (Asset.add [] [(an, aq)]) n = if an = n then aq else 0 := by
      intro n; rw [hadd [] Dict.wf_nil n, asset_qty_nil]; omega
    refine ⟨{ tq := ?_, oq := ?_, ne := ?_, start := Or.inl ⟨an, ?_⟩ }, ⟨an, ?_⟩⟩
    · intro n; rw [hq n]; split <;> omega
    · intro p' n; rw [qty_nil]; omega
    · intro m hm
      simp only [List.mem_append, List.mem_singleton] at hm
      rcases hm with hm | hm
      · exact h2.ne m hm
      · subst hm
        by_cases ht : s.temp.isEmpty = true
        · simp only [ht, if_true]
          have ht' : s.temp = [] := by simpa using ht
          rcases h2.start with ⟨n, hn⟩ | ⟨_, h | ⟨h3, h4⟩⟩
          · rw [ht', asset_qty_nil] at hn; omega
          · exact h
          · -- nothing packed yet: the probe of the very first asset is the measure of that asset on its own
            exfalso
            rw [overflow_eq, h4, ht'] at ho
            have hse := sizeEq_attempt_flush ⟨0, []⟩ pol (Asset.add [] [(an, aq)]) MultiAsset.wf_nil
              (Asset.wf_add _ _ Dict.wf_nil)
            have : fits p addr ch.coin (MultiAsset.add [(pol, Asset.add [] [(an, aq)])] []) = true := by
              rw [fits_sizeEq p addr ch.coin _ _ hse]; exact hfc
            simp only at ho
            rw [this] at ho
            simp at ho
        · have ht2 : s.temp.isEmpty = false := by simpa using ht
          simp only [ht2, Bool.false_eq_true, if_false]
          have ht' : s.temp ≠ [] := by intro h; rw [h] at ht; simp at ht
          rcases h2.start with ⟨n, hn⟩ | ⟨h, _⟩
          · apply qty_ne_nil _ pol n
            rw [qty_flush _ _ _ hw.1 hw.2]
            simp only [if_true]
            have := h2.oq pol n
            omega
          · exact absurd h ht'
    · rw [hq an]; simp; exact ha
    · rw [hq an]; simp; exact ha
  · have ho' : overflow p addr s.out s.temp pol an aq = false := by simpa using ho
    simp only [ho', Bool.false_eq_true, if_false]
    have hpos : 0 < Asset.qty (Asset.add s.temp [(an, aq)]) an := by
      rw [hadd _ hw.2 an]; simp only [if_true]; have := h2.tq an; omega
    refine ⟨{ tq := ?_, oq := h2.oq, ne := h2.ne, start := Or.inl ⟨an, hpos⟩ }, ⟨an, hpos⟩⟩
    intro n
    rw [hadd _ hw.2 n]
    have := h2.tq n
    split <;> omega

theorem foldl_inner2 (p : Params) (addr : Bytes) (chm : MultiAsset) (ch : Value) (pol : Bytes) (assetsAll : Asset)
    (hmem : (pol, assetsAll) ∈ chm) (as : Asset) (has : ∀ a ∈ as, a ∈ assetsAll) (hne : as ≠ [])
    (hpos : ∀ a ∈ as, 0 < a.2) (hfc : ∀ a ∈ as, fits p addr ch.coin (single pol a) = true) (s : PackState)
    (hs : Inner p addr chm ch.coin pol assetsAll s) (h2 : Inner2 ch s) :
    Inner2 ch (as.foldl (packAsset p addr ch.coin pol) s) ∧ ∃ n, 0 < Asset.qty (as.foldl (packAsset p addr ch.coin pol) s).temp n := by
  induction as generalizing s with
  | nil => exact absurd rfl hne
  | cons a r ih =>
    simp only [List.foldl_cons]
    have h1 := packAsset_inner p addr chm ch.coin pol assetsAll hmem s a (has a (by simp)) hs
    have h3 := packAsset_inner2 p addr ch pol s a hs.wf h2 (hpos a (by simp)) (hfc a (by simp))
    cases r with
    | nil => simpa using h3
    | cons b r' =>
      exact ih (fun x hx => has x (by simp [hx])) (by simp) (fun x hx => hpos x (by simp [hx]))
        (fun x hx => hfc x (by simp [hx])) _ h1 h3.1

/-- second invariant of the outer loop -/
structure Outer2 (ch : Value) (s : PackState) : Prop where
  oq : ∀ p n, 0 ≤ MultiAsset.qty s.out.ma p n
  ne : ∀ m ∈ s.arr, m ≠ []
  start : s.out.ma ≠ [] ∨ (s.arr = [] ∧ s.out = ⟨ch.coin, []⟩)

theorem packPolicies_outer2 (p : Params) (addr : Bytes) (ch : Value) (pols : List (Bytes × Asset))
    (hsub : ∀ pa ∈ pols, pa ∈ ch.ma) (hpos : MultiAsset.Pos pols)
    (hsingle : ∀ pa ∈ pols, ∀ a ∈ pa.2, fits p addr ch.coin (single pa.1 a) = true)
    (s : PackState) (hs : Outer p addr ch.ma ch.coin s) (h2 : Outer2 ch s) :
    (packPolicies p addr ch.coin pols s).2 = false ∧ Outer2 ch (packPolicies p addr ch.coin pols s).1 ∧
      ((pols ≠ [] ∨ s.out.ma ≠ []) → (packPolicies p addr ch.coin pols s).1.out.ma ≠ []) := by
  induction pols generalizing s with
  | nil =>
    refine ⟨by simp [packPolicies], by simpa [packPolicies] using h2, ?_⟩
    intro h; simpa [packPolicies] using h
  | cons pa rest ih =>
    obtain ⟨pol, assets⟩ := pa
    have hmem : (pol, assets) ∈ ch.ma := hsub _ (by simp)
    have hp := hpos (pol, assets) (by simp)
    have hsg := hsingle (pol, assets) (by simp)
    have hin := afterPolicy_inner p addr ch.ma ch.coin pol assets hmem s hs
    have hin0 : Inner p addr ch.ma ch.coin pol assets { s with temp := [], old := s.out } :=
      { wf := ⟨hs.wf, Dict.wf_nil⟩, arr := hs.arr, coin := hs.coin, out := hs.out,
        old := ⟨hs.out, hs.coin, hs.wf⟩, temp := Or.inl rfl }
    have h20 : Inner2 ch { s with temp := [], old := s.out } :=
      { tq := by intro n; rw [asset_qty_nil]; omega, oq := h2.oq, ne := h2.ne, start := Or.inr ⟨rfl, h2.start⟩ }
    have hin2 := foldl_inner2 p addr ch.ma ch pol assets hmem assets (fun a h => h) hp.1 hp.2
      (fun a ha => hsg a ha) _ hin0 h20
    change Inner2 ch (afterPolicy p addr ch.coin pol assets s) ∧ ∃ n, 0 < Asset.qty (afterPolicy p addr ch.coin pol assets s).temp n at hin2
    obtain ⟨hi2, n0, hn0⟩ := hin2
    rw [packPolicies_cons]
    simp only
    -- the re-check at the end of the policy passes
    have hfit0 : fits p addr ch.coin
        (flush (afterPolicy p addr ch.coin pol assets s).out pol (afterPolicy p addr ch.coin pol assets s).temp).ma = true := by
      rcases hin.temp with h | h | ⟨h1, a0, ha0, h3⟩
      · rw [h, asset_qty_nil] at hn0; omega
      · exact h
      · rw [h1, h3]
        exact hsg a0 ha0
    have hfit : fits p addr (flush (afterPolicy p addr ch.coin pol assets s).out pol (afterPolicy p addr ch.coin pol assets s).temp).coin
        (flush (afterPolicy p addr ch.coin pol assets s).out pol (afterPolicy p addr ch.coin pol assets s).temp).ma = true := by
      rw [flush_coin, hin.coin]; exact hfit0
    simp only [hfit, if_true]
    have hne2 : (flush (afterPolicy p addr ch.coin pol assets s).out pol (afterPolicy p addr ch.coin pol assets s).temp).ma ≠ [] := by
      apply qty_ne_nil _ pol n0
      rw [qty_flush _ _ _ hin.wf.1 hin.wf.2]
      simp only [if_true]
      have := hi2.oq pol n0
      omega
    have hO : Outer p addr ch.ma ch.coin { afterPolicy p addr ch.coin pol assets s with
        out := flush (afterPolicy p addr ch.coin pol assets s).out pol (afterPolicy p addr ch.coin pol assets s).temp, temp := [] } :=
      { wf := wf_flush _ _ _ hin.wf.1, arr := hin.arr, coin := by rw [flush_coin]; exact hin.coin, out := Or.inr hfit0 }
    have hO2 : Outer2 ch { afterPolicy p addr ch.coin pol assets s with
        out := flush (afterPolicy p addr ch.coin pol assets s).out pol (afterPolicy p addr ch.coin pol assets s).temp, temp := [] } :=
      { oq := by
          intro p' n'
          rw [qty_flush _ _ _ hin.wf.1 hin.wf.2]
          have := hi2.oq p' n'
          have := hi2.tq n'
          split <;> omega
        ne := hi2.ne
        start := Or.inl hne2 }
    have := ih (fun x hx => hsub x (by simp [hx])) (fun x hx => hpos x (by simp [hx]))
      (fun x hx => hsingle x (by simp [hx])) _ hO hO2
    exact ⟨this.1, this.2.1, fun _ => this.2.2 (Or.inr hne2)⟩

theorem outer2_init (ch : Value) : Outer2 ch (initState ch) :=
  { oq := by intro p n; simp [initState, qty_nil], ne := by intro m hm; simp [initState] at hm,
    start := Or.inr ⟨rfl, rfl⟩ }

theorem packTokens_nobreak (p : Params) (addr : Bytes) (ch : Value) (hpos : MultiAsset.Pos ch.ma)
    (hs : noSingleOver p addr ch = true) : (packTokens p addr ch).2 = false := by
  rw [packTokens_eq]
  exact (packPolicies_outer2 p addr ch ch.ma (fun _ h => h) hpos ((noSingleOver_iff p addr ch).1 hs) _
    (outer_init p addr ch.ma ch) (outer2_init ch)).1

theorem packTokens_nonempty (p : Params) (addr : Bytes) (ch : Value) (hpos : MultiAsset.Pos ch.ma)
    (hs : noSingleOver p addr ch = true) (hne : ch.ma ≠ []) : ∀ m ∈ (packTokens p addr ch).1, m ≠ [] := by
  rw [packTokens_eq]
  have h := packPolicies_outer2 p addr ch ch.ma (fun _ h => h) hpos ((noSingleOver_iff p addr ch).1 hs) _
    (outer_init p addr ch.ma ch) (outer2_init ch)
  intro m hm
  simp only [List.mem_append, List.mem_singleton] at hm
  rcases hm with hm | hm
  · exact h.2.1.ne m hm
  · subst hm; exact h.2.2 (Or.inl hne)


/-! ## Part 6 — `_calc_change`: what is packed, which coin each output receives -/

theorem mem_set {ν : Type} (m : List (Bytes × ν)) (k : Bytes) (v : ν) (x : Bytes × ν) (h : x ∈ Dict.set m k v) :
    x = (k, v) ∨ x ∈ m := by
  induction m with
  | nil => simp [Dict.set] at h; exact Or.inl h
  | cons y r ih =>
    obtain ⟨k', v'⟩ := y
    simp only [Dict.set] at h
    split at h
    · rename_i hk
      simp only [List.mem_cons] at h ⊢
      rcases h with h | h
      · left; rw [h, hk]
      · right; right; exact h
    · simp only [List.mem_cons] at h ⊢
      rcases h with h | h
      · right; left; exact h
      · rcases ih h with h | h
        · left; exact h
        · right; right; exact h

theorem set_ne_nil {ν : Type} (m : List (Bytes × ν)) (k : Bytes) (v : ν) : Dict.set m k v ≠ [] := by
  cases m with
  | nil => simp [Dict.set]
  | cons y r => obtain ⟨k', v'⟩ := y; simp only [Dict.set]; split <;> simp

theorem getD_pos (acc : MultiAsset) (h : MultiAsset.Pos acc) (p : Bytes) : ∀ q ∈ getD acc p [], 0 < q.2 := by
  induction acc with
  | nil => simp [getD]
  | cons y r ih =>
    obtain ⟨k, a⟩ := y
    simp only [getD]
    split
    · exact (h (k, a) (by simp)).2
    · exact ih (fun x hx => h x (by simp [hx]))

theorem filterInner_pos (p : Bytes) (a : Asset) (acc : MultiAsset) (h : MultiAsset.Pos acc) :
    MultiAsset.Pos (MultiAsset.filterInner (fun _ _ v => decide (v > 0)) p a acc) := by
  unfold MultiAsset.filterInner
  induction a generalizing acc with
  | nil => simpa
  | cons q r ih =>
    simp only [List.foldl_cons]
    apply ih
    split
    · rename_i hv
      have hv' : 0 < q.2 := by simpa using hv
      intro x hx
      rcases mem_set _ _ _ _ hx with rfl | hx
      · refine ⟨set_ne_nil _ _ _, ?_⟩
        intro y hy
        rcases mem_set _ _ _ _ hy with rfl | hy
        · exact hv'
        · exact getD_pos acc h p y hy
      · exact h x hx
    · exact h

/-- what `change.multi_asset.filter(lambda p, n, v: v > 0)` leaves: no empty policy, every quantity positive -/
theorem posFilter_pos (m : MultiAsset) : MultiAsset.Pos (posFilter m) := by
  unfold posFilter MultiAsset.filter
  suffices ∀ acc : MultiAsset, MultiAsset.Pos acc →
      MultiAsset.Pos (m.foldl (fun acc p => MultiAsset.filterInner (fun _ _ v => decide (v > 0)) p.1 p.2 acc) acc) from
    this [] (by intro x hx; simp at hx)
  induction m with
  | nil => intro acc h; simpa
  | cons pa r ih =>
    intro acc h
    simp only [List.foldl_cons]
    exact ih _ (filterInner_pos pa.1 pa.2 acc h)

theorem changeValue_pos (a : ChangeArgs) : MultiAsset.Pos (changeValue a).ma := by
  unfold changeValue
  split
  · rename_i h
    have : (Value.sub (provided a) (requested a)).ma = [] := by simpa using h
    rw [this]; intro x hx; simp at hx
  · exact posFilter_pos _

theorem calcChange_eq (P : Params) (a : ChangeArgs) :
    calcChange P a =
      if !(Value.lt (requested a) (provided a)) then .error .invalidTx
      else if (changeValue a).ma.isEmpty then
        (if a.respect && decide ((changeValue a).coin < minAda P a.addr (changeValue a)) then .error .insufficient
         else .ok [{ addr := a.addr, amount := ⟨(changeValue a).coin, []⟩ }])
      else changeLoop P a.addr a.respect (packTokens P a.addr (changeValue a)).1 (changeValue a) := by
  unfold calcChange changeValue
  rfl

/-- the change outputs carry the packed bundles, in order -/
theorem changeLoop_mas (P : Params) (addr : Bytes) (r : Bool) (ms : List MultiAsset) (ch : Value) (outs : List Output)
    (h : changeLoop P addr r ms ch = .ok outs) : outs.map (fun o => o.amount.ma) = ms := by
  induction ms generalizing ch outs with
  | nil => simp [changeLoop] at h; subst h; rfl
  | cons m rest ih =>
    simp only [changeLoop] at h
    split at h
    · simp at h
    · split at h
      · simp at h
      · rename_i outs' hloop
        simp only [Except.ok.injEq] at h
        subst h
        simp only [List.map_cons, ih _ _ hloop]
        congr 1
        split <;> rfl

/-- every change output but the last holds exactly the minimum ADA of its bundle (priced with coin 0) -/
theorem changeLoop_nonlast_coin (P : Params) (addr : Bytes) (r : Bool) (ms : List MultiAsset) (ch : Value)
    (outs : List Output) (h : changeLoop P addr r ms ch = .ok outs) :
    ∀ o ∈ outs.dropLast, o.amount.coin = minAda P addr ⟨0, o.amount.ma⟩ := by
  induction ms generalizing ch outs with
  | nil => simp [changeLoop] at h; subst h; simp
  | cons m rest ih =>
    simp only [changeLoop] at h
    split at h
    · simp at h
    · split at h
      · simp at h
      · rename_i outs' hloop
        simp only [Except.ok.injEq] at h
        subst h
        have hm := changeLoop_mas P addr r rest _ outs' hloop
        cases hr : rest with
        | nil =>
          rw [hr] at hm
          have : outs' = [] := by simpa using hm
          rw [this]; simp
        | cons m2 r2 =>
          have hne : outs' ≠ [] := by
            intro h0; rw [h0, hr] at hm; simp at hm
          rw [List.dropLast_cons_of_ne_nil hne]
          intro o ho
          simp only [List.mem_cons] at ho
          rcases ho with ho | ho
          · subst ho
            simp [hr]
          · exact ih _ _ hloop o ho

/-! ## Part 7 — coin widths -/

theorem natBytesAux_len_ge (fuel n : Nat) (acc : Bytes) : acc.length ≤ (natBytesAux fuel n acc).length := by
  induction fuel generalizing n acc with
  | zero => simp [natBytesAux]
  | succ f ih =>
    simp only [natBytesAux]
    split
    · exact Nat.le_refl _
    · have := ih (n / 256) (UInt8.ofNat (n % 256) :: acc)
      simp only [List.length_cons] at this
      omega

theorem natBytes_len_ge3 (n : Nat) (h : 65536 ≤ n) : 3 ≤ (natBytes n).length := by
  unfold natBytes
  obtain ⟨k, rfl⟩ : ∃ k, n = k + 2 := ⟨n - 2, by omega⟩
  have h0 : ¬ (k + 2 = 0) := by omega
  have h1 : ¬ ((k + 2) / 256 = 0) := by omega
  have h2 : ¬ ((k + 2) / 256 / 256 = 0) := by omega
  simp only [natBytesAux, h0, h1, h2, if_false]
  have := natBytesAux_len_ge k ((k + 2) / 256 / 256 / 256)
    [UInt8.ofNat ((k + 2) / 256 / 256 % 256), UInt8.ofNat ((k + 2) / 256 % 256), UInt8.ofNat ((k + 2) % 256)]
  simpa using this

theorem head_len_pos (major a : Nat) : 1 ≤ (head major a).length := by
  unfold head; simp only; repeat' split
  all_goals simp

theorem head_len_ge5 (major a : Nat) (h : 65536 ≤ a) : 5 ≤ (head major a).length := by
  unfold head
  have h1 : ¬ a < 24 := by omega
  have h2 : ¬ a < 256 := by omega
  have h3 : ¬ a < 65536 := by omega
  simp only [h1, h2, h3, if_false]
  split <;> simp [beBytes]

theorem head_len_le5 (major a : Nat) (h : a < 4294967296) : (head major a).length ≤ 5 := by
  unfold head
  simp only
  repeat' split
  all_goals simp [beBytes]
  all_goals omega

/-- a coin of at least 65 536 lovelace takes at least 5 bytes (whatever its size: bignums included) -/
theorem coinLen_ge5 (c : Int) (h : 65536 ≤ c) : 5 ≤ coinLen c := by
  unfold coinLen ofInt
  have h0 : 0 ≤ c := by omega
  simp only [h0, if_true]
  split
  · rw [encode]; exact head_len_ge5 _ _ (by omega)
  · simp only [encode, List.length_append]
    have h1 := head_len_pos 6 2
    have h2 := head_len_pos 2 (natBytes c.toNat).length
    have h3 := natBytes_len_ge3 c.toNat (by omega)
    omega

/-- a non-negative coin below 2^32 lovelace (4 294.967296 ADA) takes at most 5 bytes -/
theorem coinLen_le5 (c : Int) (h0 : 0 ≤ c) (h : c < 4294967296) : coinLen c ≤ 5 := by
  unfold coinLen ofInt
  have h1 : c.toNat < 2 ^ 64 := by omega
  simp only [h0, h1, if_true]
  rw [encode]; exact head_len_le5 _ _ (by omega)

/-- the minimum ADA of any output is at least 160 × coins-per-byte -/
theorem minAda_ge (P : Params) (addr : Bytes) (v : Value) (h : 0 ≤ P.cpb) : 160 * P.cpb ≤ minAda P addr v := by
  rw [minAda_vlen]
  apply Int.mul_le_mul_of_nonneg_right _ h
  omega


/-! ## Part 8 — the change outputs of `_calc_change` -/

theorem calcChange_arrFit (P : Params) (a : ChangeArgs) (cs : List Output) (h : calcChange P a = .ok cs)
    (hs : noSingleOver P a.addr (changeValue a) = true) :
    cs ≠ [] ∧ ArrFit P a.addr (changeValue a).coin (cs.map (fun o => o.amount.ma)) ∧
      ∀ o ∈ cs.dropLast, o.amount.coin = minAda P a.addr ⟨0, o.amount.ma⟩ := by
  rw [calcChange_eq] at h
  split at h
  · simp at h
  · split at h
    · split at h
      · simp at h
      · simp only [Except.ok.injEq] at h
        subst h
        refine ⟨by simp, ?_, by simp⟩
        intro m hm
        simp only [List.map_cons, List.map_nil, List.mem_singleton] at hm
        exact Or.inl hm
    · have hm := changeLoop_mas _ _ _ _ _ _ h
      refine ⟨?_, ?_, changeLoop_nonlast_coin _ _ _ _ _ _ h⟩
      · intro h0
        rw [h0] at hm
        exact packTokens_ne_nil P a.addr (changeValue a) (by simpa using hm.symm)
      · rw [hm]; exact packTokens_arrFit P a.addr (changeValue a) hs

theorem calcChange_nobreak (P : Params) (a : ChangeArgs) (hs : noSingleOver P a.addr (changeValue a) = true) :
    (packTokens P a.addr (changeValue a)).2 = false :=
  packTokens_nobreak P a.addr (changeValue a) (changeValue_pos a) hs


theorem changeOf_eq (a : ChangeArgs) : changeOf a = changeValue a := rfl

/-! ## Part 9 — the width of a coin is monotone on the non-negative integers (bignums included) -/

/-- number of base-256 digits the loop of `natBytesAux` emits -/
def nbLen : Nat → Nat → Nat
  | 0, _ => 0
  | fuel+1, n => if n = 0 then 0 else 1 + nbLen fuel (n / 256)

theorem natBytesAux_len (fuel n : Nat) (acc : Bytes) : (natBytesAux fuel n acc).length = acc.length + nbLen fuel n := by
  induction fuel generalizing n acc with
  | zero => simp [natBytesAux, nbLen]
  | succ f ih =>
    simp only [natBytesAux, nbLen]
    split
    · simp
    · rw [ih]; simp only [List.length_cons]; omega

theorem nbLen_mono (f g a b : Nat) (hf : f ≤ g) (hab : a ≤ b) : nbLen f a ≤ nbLen g b := by
  induction f generalizing g a b with
  | zero => simp [nbLen]
  | succ f ih =>
    obtain ⟨g', rfl⟩ : ∃ g', g = g' + 1 := ⟨g - 1, by omega⟩
    simp only [nbLen]
    by_cases ha : a = 0
    · simp [ha]
    · have hb : ¬ b = 0 := by omega
      simp only [ha, hb, if_false]
      have := ih g' (a / 256) (b / 256) (by omega) (Nat.div_le_div_right hab)
      omega

theorem natBytes_len_mono (a b : Nat) (h : a ≤ b) : (natBytes a).length ≤ (natBytes b).length := by
  unfold natBytes
  rw [natBytesAux_len, natBytesAux_len]
  have := nbLen_mono (a + 1) (b + 1) a b (by omega) h
  simpa using this

theorem nbLen_ge (k f n : Nat) (hk : k < f) (hn : 256 ^ k ≤ n) : k + 1 ≤ nbLen f n := by
  induction k generalizing f n with
  | zero =>
    obtain ⟨f', rfl⟩ : ∃ f', f = f' + 1 := ⟨f - 1, by omega⟩
    have : ¬ n = 0 := by simp at hn; omega
    simp only [nbLen, this, if_false]; omega
  | succ k ih =>
    obtain ⟨f', rfl⟩ : ∃ f', f = f' + 1 := ⟨f - 1, by omega⟩
    have hpos : 0 < 256 ^ (k + 1) := Nat.pow_pos (by omega)
    have : ¬ n = 0 := by omega
    simp only [nbLen, this, if_false]
    have h2 : 256 ^ k ≤ n / 256 := by
      rw [Nat.le_div_iff_mul_le (by omega)]
      rw [Nat.pow_succ] at hn; exact hn
    have := ih f' (n / 256) (by omega) h2
    omega

theorem natBytes_len_ge8 (n : Nat) (h : 2 ^ 64 ≤ n) : 8 ≤ (natBytes n).length := by
  unfold natBytes
  rw [natBytesAux_len]
  have h7 : (256 : Nat) ^ 7 ≤ n := Nat.le_trans (by decide) h
  have := nbLen_ge 7 (n + 1) n (by omega) h7
  simp only [List.length_nil]; omega

theorem head_len_mono' (major a b : Nat) (h : a ≤ b) : (head major a).length ≤ (head major b).length := by
  unfold head
  simp only
  repeat' split
  all_goals simp [beBytes]
  all_goals omega

theorem head_len_le9 (major a : Nat) : (head major a).length ≤ 9 := by
  unfold head
  simp only
  repeat' split
  all_goals simp [beBytes]

/-- on the wire a larger non-negative coin is never shorter -/
theorem coinLen_mono (a b : Int) (h0 : 0 ≤ a) (hab : a ≤ b) : coinLen a ≤ coinLen b := by
  unfold coinLen ofInt
  have hb0 : 0 ≤ b := by omega
  simp only [h0, hb0, if_true]
  have hn : a.toNat ≤ b.toNat := by omega
  by_cases hb : b.toNat < 2 ^ 64
  · have ha : a.toNat < 2 ^ 64 := by omega
    simp only [ha, hb, if_true]
    rw [encode, encode]; exact head_len_mono' _ _ _ hn
  · by_cases ha : a.toNat < 2 ^ 64
    · simp only [ha, hb, if_true, if_false]
      simp only [encode, List.length_append]
      have h1 := head_len_le9 0 a.toNat
      have h2 := head_len_pos 6 2
      have h3 := head_len_pos 2 (natBytes b.toNat).length
      have h4 := natBytes_len_ge8 b.toNat (by omega)
      omega
    · simp only [ha, hb, if_false]
      simp only [encode, List.length_append]
      have h1 := natBytes_len_mono _ _ hn
      have h2 := head_len_mono' 2 _ _ h1
      omega

/-! ## Part 10 — every coin `_calc_change` hands out lies between 0 and the change coin -/

theorem minAda_nonneg (P : Params) (addr : Bytes) (v : Value) (h : 0 ≤ P.cpb) : 0 ≤ minAda P addr v := by
  have := minAda_ge P addr v h
  omega

theorem changeLoop_coins (P : Params) (addr : Bytes) (ms : List MultiAsset) (ch : Value) (outs : List Output)
    (h : changeLoop P addr true ms ch = .ok outs) (hcpb : 0 ≤ P.cpb) :
    ∀ o ∈ outs, 0 ≤ o.amount.coin ∧ o.amount.coin ≤ ch.coin := by
  induction ms generalizing ch outs with
  | nil => simp [changeLoop] at h; subst h; simp
  | cons m rest ih =>
    simp only [changeLoop] at h
    split at h
    · simp at h
    · rename_i hchk
      simp only [Bool.true_and, decide_eq_true_eq] at hchk
      have hmin := minAda_nonneg P addr ⟨0, m⟩ hcpb
      split at h
      · simp at h
      · rename_i outs' hloop
        simp only [Except.ok.injEq] at h
        subst h
        intro o ho
        simp only [List.mem_cons] at ho
        rcases ho with ho | ho
        · subst ho
          simp only
          split
          · simp only; omega
          · simp only; omega
        · have := ih _ _ hloop o ho
          refine ⟨this.1, ?_⟩
          have h2 := this.2
          simp only [Value.sub] at h2
          split at h2
          · simp only at h2; omega
          · simp only at h2; omega

/-- a single packed bundle receives the whole change coin, whatever `respect_min_utxo` -/
theorem changeLoop_single (P : Params) (addr : Bytes) (r : Bool) (m : MultiAsset) (ch : Value) (outs : List Output)
    (h : changeLoop P addr r [m] ch = .ok outs) : outs = [{ addr := addr, amount := ⟨ch.coin, m⟩ }] := by
  simp only [changeLoop] at h
  split at h
  · simp at h
  · simp only [List.isEmpty_nil, if_true, Except.ok.injEq] at h
    exact h.symm

theorem fitsX_coin (P : Params) (addr : Bytes) (c0 : Int) (m : MultiAsset) (c : Int) (h : FitsX P addr c0 m)
    (hc0 : 0 ≤ c) (hc : c ≤ c0) : m = [] ∨ vlen ⟨c, m⟩ ≤ P.maxValSize := by
  rcases h with h | h
  · exact Or.inl h
  · right
    have h1 := h c
    have h2 : coinLen c ≤ coinLen (probeCoin P addr c0 m) := by
      apply coinLen_mono _ _ hc0
      unfold probeCoin
      omega
    omega

/-- **every change output fits**: with the minimum-ADA requirement on (or a single change output) -/
theorem calcChange_fit (P : Params) (a : ChangeArgs) (cs : List Output) (h : calcChange P a = .ok cs)
    (hs : noSingleOver P a.addr (changeValue a) = true) (hcpb : 0 ≤ P.cpb) (hr : a.respect = true ∨ cs.length = 1) :
    ∀ o ∈ cs, o.amount.ma = [] ∨ vlen o.amount ≤ P.maxValSize := by
  have hfit := (calcChange_arrFit P a cs h hs).2.1
  have hc0 : 0 ≤ (changeValue a).coin := by
    have := (calcChange_covered P a cs h).1
    have e : (changeValue a).coin = (provided a).coin - (requested a).coin := by
      unfold changeValue; split <;> rfl
    omega
  have hcoins : ∀ o ∈ cs, 0 ≤ o.amount.coin ∧ o.amount.coin ≤ (changeValue a).coin := by
    rw [calcChange_eq] at h
    split at h
    · simp at h
    · split at h
      · split at h
        · simp at h
        · simp only [Except.ok.injEq] at h
          subst h
          intro o ho; simp at ho; subst ho
          exact ⟨hc0, Int.le_refl _⟩
      · rcases hr with hr | hr
        · rw [hr] at h
          exact changeLoop_coins P a.addr _ _ cs h hcpb
        · have hm := changeLoop_mas _ _ _ _ _ _ h
          have hl : (packTokens P a.addr (changeValue a)).1.length = 1 := by rw [← hm]; simpa using hr
          match hpk : (packTokens P a.addr (changeValue a)).1, hl with
          | [m], _ =>
            rw [hpk] at h
            have := changeLoop_single _ _ _ _ _ _ h
            subst this
            intro o ho; simp at ho; subst ho
            exact ⟨hc0, Int.le_refl _⟩
  intro o ho
  exact fitsX_coin P a.addr _ _ o.amount.coin (hfit o.amount.ma (by simp only [List.mem_map]; exact ⟨o, ho, rfl⟩))
    (hcoins o ho).1 (hcoins o ho).2

end Pyc.PackFit
