import Pyc.Proofs.Bech32
import Pyc.Proofs.Convertbits

namespace Pyc.Bech32

/-! ## characters of the data part -/

def chr (d : Nat) : Char := charset.getD d 'q'
def idx (c : Char) : Nat := charset.idxOf c

theorem charset_facts : ∀ c ∈ charset, 33 ≤ c.toNat ∧ c.toNat ≤ 126 ∧ lowerChar c = c ∧ c ≠ '1' ∧
    charset.contains c = true ∧ idx c < 32 ∧ chr (idx c) = c := by decide

theorem chr_facts : ∀ d, d < 32 → charset[d]? = some (chr d) ∧ idx (chr d) = d ∧ chr d ∈ charset := by decide

theorem idx_inj {c c' : Char} (h : c ∈ charset) (h' : c' ∈ charset) (e : idx c = idx c') : c = c' := by
  rw [← (charset_facts c h).2.2.2.2.2.2, ← (charset_facts c' h').2.2.2.2.2.2, e]

theorem mapM_charset : ∀ (l : List Nat), (∀ d ∈ l, d < 32) → l.mapM (fun d => charset[d]?) = some (l.map chr)
  | [], _ => rfl
  | d :: l, h => by
    rw [List.mapM_cons, (chr_facts d (h d (List.mem_cons_self ..))).1,
      mapM_charset l (fun x hx => h x (List.mem_cons_of_mem _ hx))]
    rfl

theorem map_idx_chr : ∀ (l : List Nat), (∀ d ∈ l, d < 32) → (l.map chr).map idx = l
  | [], _ => rfl
  | d :: l, h => by
    simp only [List.map_cons, (chr_facts d (h d (List.mem_cons_self ..))).2.1,
      map_idx_chr l (fun x hx => h x (List.mem_cons_of_mem _ hx))]

/-! ## checksum creation -/

theorem createChecksum_eq (hrp : List Char) (data : List Nat) :
    createChecksum hrp data false =
      (let pm := polymod (hrpExpand hrp ++ data ++ [0, 0, 0, 0, 0, 0]) ^^^ 1
       [pm >>> 25 &&& 31, pm >>> 20 &&& 31, pm >>> 15 &&& 31, pm >>> 10 &&& 31, pm >>> 5 &&& 31, pm >>> 0 &&& 31]) := by
  simp [createChecksum, List.range, List.range.loop]

theorem sel_zero : sel 0 = 0 := by decide

theorem sel_lt (top : Nat) : sel top < 2 ^ 30 := by
  unfold sel
  repeat' apply Nat.xor_lt_two_pow
  all_goals split <;> decide

theorem step_lt (c v : Nat) (hv : v < 2 ^ 30) : step c v < 2 ^ 30 := by
  unfold step
  apply Nat.xor_lt_two_pow _ (sel_lt _)
  apply Nat.xor_lt_two_pow _ hv
  rw [show (0x1FFFFFF : Nat) = 2 ^ 25 - 1 by decide, and_mask, Nat.shiftLeft_eq]
  have := Nat.mod_lt c (Nat.two_pow_pos 25)
  omega

theorem shl5_xor (c v : Nat) (hv : v < 32) : (c <<< 5) ^^^ v = c * 32 + v := by
  have h : (c <<< 5) ^^^ v = (c <<< 5) ||| v := by
    apply Nat.eq_of_testBit_eq
    intro i
    rw [Nat.testBit_xor, Nat.testBit_or, Nat.testBit_shiftLeft]
    by_cases hi : i ≥ 5
    · have : v.testBit i = false := Nat.testBit_lt_two_pow (Nat.lt_of_lt_of_le hv (Nat.pow_le_pow_right (by decide) hi : 2 ^ 5 ≤ 2 ^ i))
      simp [this]
    · simp [hi]
  rw [h, ← Nat.shiftLeft_add_eq_or_of_lt (i := 5) hv, Nat.shiftLeft_eq]

theorem step_small (c v : Nat) (hc : c < 2 ^ 25) (hv : v < 32) : step c v = c * 32 + v := by
  unfold step
  rw [Nat.shiftRight_eq_div_pow, Nat.div_eq_of_lt hc, sel_zero, Nat.xor_zero,
    show (0x1FFFFFF : Nat) = 2 ^ 25 - 1 by decide, and_mask, Nat.mod_eq_of_lt hc, shl5_xor _ _ hv]

theorem and31 (x : Nat) : x &&& 31 = x % 32 := Nat.and_two_pow_sub_one_eq_mod x 5

/-- shifting the six 5-bit groups of a 30-bit number into an empty register rebuilds the number -/
theorem polymodFrom_zero_groups (pm : Nat) (h : pm < 2 ^ 30) :
    polymodFrom 0 [pm >>> 25 &&& 31, pm >>> 20 &&& 31, pm >>> 15 &&& 31, pm >>> 10 &&& 31, pm >>> 5 &&& 31,
      pm >>> 0 &&& 31] = pm := by
  simp only [polymodFrom, polymodStep_eq, and31, Nat.shiftRight_eq_div_pow]
  generalize h0 : pm / 2 ^ 25 % 32 = q0
  generalize h1 : pm / 2 ^ 20 % 32 = q1
  generalize h2 : pm / 2 ^ 15 % 32 = q2
  generalize h3 : pm / 2 ^ 10 % 32 = q3
  generalize h4 : pm / 2 ^ 5 % 32 = q4
  generalize h5 : pm / 2 ^ 0 % 32 = q5
  rw [step_small 0 q0 (by decide) (by omega)]
  rw [step_small (0 * 32 + q0) q1 (by omega) (by omega)]
  rw [step_small ((0 * 32 + q0) * 32 + q1) q2 (by omega) (by omega)]
  rw [step_small (((0 * 32 + q0) * 32 + q1) * 32 + q2) q3 (by omega) (by omega)]
  rw [step_small ((((0 * 32 + q0) * 32 + q1) * 32 + q2) * 32 + q3) q4 (by omega) (by omega)]
  rw [step_small (((((0 * 32 + q0) * 32 + q1) * 32 + q2) * 32 + q3) * 32 + q4) q5 (by omega) (by omega)]
  omega

theorem polymodFrom_zeros6_lt (c : Nat) : polymodFrom c [0, 0, 0, 0, 0, 0] < 2 ^ 30 := by
  simp only [polymodFrom, polymodStep_eq]
  exact step_lt _ _ (by decide)

/-- the checksum written by `bech32_create_checksum` (Bech32 constant) verifies -/
theorem checksum_valid (hrp : List Char) (data : List Nat) :
    polymod (hrpExpand hrp ++ (data ++ createChecksum hrp data false)) = 1 := by
  generalize hc : polymodFrom 1 (hrpExpand hrp ++ data) = c
  have hP' : polymod (hrpExpand hrp ++ data ++ [0, 0, 0, 0, 0, 0]) = polymodFrom c [0, 0, 0, 0, 0, 0] := by
    unfold polymod; rw [polymodFrom_append, hc]
  rw [createChecksum_eq]
  simp only []
  rw [hP', ← List.append_assoc]
  unfold polymod
  rw [polymodFrom_append, hc]
  generalize hP : polymodFrom c [0, 0, 0, 0, 0, 0] = P
  have hPlt : P < 2 ^ 30 := hP ▸ polymodFrom_zeros6_lt c
  have hpm : P ^^^ 1 < 2 ^ 30 := Nat.xor_lt_two_pow hPlt (by decide)
  have lin := polymodFrom_xor [0, 0, 0, 0, 0, 0]
    [(P ^^^ 1) >>> 25 &&& 31, (P ^^^ 1) >>> 20 &&& 31, (P ^^^ 1) >>> 15 &&& 31, (P ^^^ 1) >>> 10 &&& 31,
      (P ^^^ 1) >>> 5 &&& 31, (P ^^^ 1) >>> 0 &&& 31] c 0 rfl
  simp only [List.zipWith_cons_cons, List.zipWith_nil_right, Nat.zero_xor, Nat.xor_zero] at lin
  rw [lin, hP, polymodFrom_zero_groups _ hpm, ← Nat.xor_assoc, Nat.xor_self, Nat.zero_xor]

/-! ## encoding produces `hrp ++ "1" ++ characters` -/

theorem createChecksum_lt (hrp : List Char) (data : List Nat) : ∀ d ∈ createChecksum hrp data false, d < 32 := by
  rw [createChecksum_eq]
  intro d hd
  simp only [List.mem_cons, List.not_mem_nil, or_false] at hd
  rcases hd with h | h | h | h | h | h <;> rw [h, and31] <;> exact Nat.mod_lt _ (by decide)

theorem createChecksum_length (hrp : List Char) (data : List Nat) : (createChecksum hrp data false).length = 6 := by
  rw [createChecksum_eq]; rfl

theorem bech32Encode_eq (hrp : List Char) (data : List Nat) (hd : ∀ d ∈ data, d < 32) :
    bech32Encode hrp data false = some (hrp ++ '1' :: (data ++ createChecksum hrp data false).map chr) := by
  unfold bech32Encode
  have : ∀ d ∈ data ++ createChecksum hrp data false, d < 32 := by
    intro d h
    rcases List.mem_append.mp h with h | h
    · exact hd d h
    · exact createChecksum_lt hrp data d h
  simp only [mapM_charset _ this, List.append_assoc, List.singleton_append]

/-! ## decoding a string of the shape `hrp ++ "1" ++ charset characters` -/

theorem rfind_none : ∀ (d : List Char), (∀ c ∈ d, c ≠ '1') → rfind '1' d = none
  | [], _ => rfl
  | x :: d, h => by
    simp only [rfind, rfind_none d (fun c hc => h c (List.mem_cons_of_mem _ hc)),
      h x (List.mem_cons_self ..), if_false]

theorem rfind_sep : ∀ (hrp d : List Char), (∀ c ∈ d, c ≠ '1') → rfind '1' (hrp ++ '1' :: d) = some hrp.length
  | [], d, h => by simp [rfind, rfind_none d h]
  | x :: hrp, d, h => by simp [rfind, rfind_sep hrp d h]

/-- what `bech32_decode` does after the case test, on lower-cased prefix `hl` and data characters `d` -/
def decodeCore (hl d : List Char) : Option (List Char × List Nat × Encoding) :=
  if hl.length < 1 ∨ d.length < 6 ∨ hl.length + 1 + d.length > 108 then none
  else
    match verifyChecksum hl (d.map idx) with
    | none => none
    | some spec => some (hl, (d.map idx).take (d.length - 6), spec)

theorem map_lower_charset : ∀ (d : List Char), (∀ c ∈ d, c ∈ charset) → d.map lowerChar = d
  | [], _ => rfl
  | x :: d, h => by
    simp only [List.map_cons, (charset_facts x (h x (List.mem_cons_self ..))).2.2.1,
      map_lower_charset d (fun c hc => h c (List.mem_cons_of_mem _ hc))]

/-- shape of `bech32_decode` on `hrp ++ "1" ++ d` when the prefix is printable ASCII and `d` is in the charset -/
theorem bech32Decode_shape (hrp d : List Char) (hA : ∀ c ∈ hrp, 33 ≤ c.toNat ∧ c.toNat ≤ 126)
    (hB : ∀ c ∈ d, c ∈ charset) :
    bech32Decode (hrp ++ '1' :: d) =
      if ((hrp ++ '1' :: d).map lowerChar != (hrp ++ '1' :: d) && (hrp ++ '1' :: d).map upperChar != (hrp ++ '1' :: d))
      then none else decodeCore (hrp.map lowerChar) d := by
  have hrange : (hrp ++ '1' :: d).any (fun x => x.toNat < 33 || x.toNat > 126) = false := by
    rw [List.any_eq_false]
    intro x hx
    have : 33 ≤ x.toNat ∧ x.toNat ≤ 126 := by
      rcases List.mem_append.mp hx with h | h
      · exact hA x h
      · rcases List.mem_cons.mp h with h | h
        · subst h; decide
        · have := charset_facts x (hB x h); omega
    simp; omega
  have hne : ∀ c ∈ d, c ≠ '1' := fun c hc => (charset_facts c (hB c hc)).2.2.2.1
  have hlow : (hrp ++ '1' :: d).map lowerChar = hrp.map lowerChar ++ '1' :: d := by
    rw [List.map_append, List.map_cons, map_lower_charset d hB]; rfl
  unfold bech32Decode
  rw [hrange, Bool.false_or]
  split
  · rfl
  · simp only [hlow, rfind_sep _ _ hne, List.length_map, List.length_append, List.length_cons]
    have hdrop : List.drop (hrp.length + 1) (List.map lowerChar hrp ++ '1' :: d) = d := by
      rw [show hrp.length + 1 = (List.map lowerChar hrp ++ ['1']).length by simp,
        show List.map lowerChar hrp ++ '1' :: d = (List.map lowerChar hrp ++ ['1']) ++ d by simp]
      exact List.drop_left
    have htake : List.take hrp.length (List.map lowerChar hrp ++ '1' :: d) = List.map lowerChar hrp := by
      rw [show hrp.length = (List.map lowerChar hrp).length by simp]
      exact List.take_left
    have hall : (d.all fun x => charset.contains x) = true := by
      rw [List.all_eq_true]
      intro x hx
      exact (charset_facts x (hB x hx)).2.2.2.2.1
    rw [hdrop, htake, hall]
    unfold decodeCore
    simp only [List.length_map, Bool.not_true, Bool.false_eq_true, if_false, Bool.or_eq_true, decide_eq_true_eq]
    have hc : (hrp.length < 1 ∨ hrp.length + 7 > hrp.length + (d.length + 1)) ∨ hrp.length + (d.length + 1) > 108 ↔
        (hrp.length < 1 ∨ d.length < 6 ∨ hrp.length + 1 + d.length > 108) := by omega
    by_cases hcc : hrp.length < 1 ∨ d.length < 6 ∨ hrp.length + 1 + d.length > 108
    · simp only [hc.mpr hcc, hcc, if_true]
    · simp only [mt hc.mp hcc, hcc, if_false]
      rfl

/-! ## round trip -/

/-- hypotheses on the human-readable part: non-empty, printable ASCII, no upper-case letter -/
def HrpOk (hrp : List Char) : Prop := hrp ≠ [] ∧ ∀ c ∈ hrp, 33 ≤ c.toNat ∧ c.toNat ≤ 126 ∧ lowerChar c = c

instance (hrp : List Char) : Decidable (HrpOk hrp) := by unfold HrpOk; infer_instance

theorem map_lower_fixed : ∀ (l : List Char), (∀ c ∈ l, lowerChar c = c) → l.map lowerChar = l
  | [], _ => rfl
  | x :: l, h => by
    simp only [List.map_cons, h x (List.mem_cons_self ..),
      map_lower_fixed l (fun c hc => h c (List.mem_cons_of_mem _ hc))]

theorem verify_of_polymod_one (hrp : List Char) (data : List Nat) (h : polymod (hrpExpand hrp ++ data) = 1) :
    verifyChecksum hrp data = some .bech32 := by
  simp [verifyChecksum, h]

theorem verify_none_iff (hrp : List Char) (data : List Nat) :
    verifyChecksum hrp data = none ↔ ¬ Accepted (polymod (hrpExpand hrp ++ data)) := by
  unfold verifyChecksum Accepted
  simp only []
  split
  · simp [*]
  · split <;> simp [*]

theorem bech32Decode_bech32Encode (hrp : List Char) (data : List Nat) (hh : HrpOk hrp) (hd : ∀ d ∈ data, d < 32)
    (hlen : hrp.length + 1 + data.length + 6 ≤ 108) :
    bech32Decode (hrp ++ '1' :: (data ++ createChecksum hrp data false).map chr) = some (hrp, data, .bech32) := by
  have hall : ∀ d ∈ data ++ createChecksum hrp data false, d < 32 := by
    intro d h
    rcases List.mem_append.mp h with h | h
    · exact hd d h
    · exact createChecksum_lt hrp data d h
  have hB : ∀ c ∈ (data ++ createChecksum hrp data false).map chr, c ∈ charset := by
    intro c hc
    obtain ⟨d, hd', rfl⟩ := List.mem_map.mp hc
    exact (chr_facts d (hall d hd')).2.2
  have hlowh : hrp.map lowerChar = hrp := map_lower_fixed hrp (fun c hc => (hh.2 c hc).2.2)
  rw [bech32Decode_shape hrp _ (fun c hc => ⟨(hh.2 c hc).1, (hh.2 c hc).2.1⟩) hB]
  have hlow : (hrp ++ '1' :: (data ++ createChecksum hrp data false).map chr).map lowerChar
      = hrp ++ '1' :: (data ++ createChecksum hrp data false).map chr := by
    rw [List.map_append, List.map_cons, hlowh, map_lower_charset _ hB]; rfl
  rw [hlow, hlowh]
  simp only [bne_self_eq_false, Bool.false_and, Bool.false_eq_true, if_false]
  unfold decodeCore
  have hne : 0 < hrp.length := List.length_pos_iff.mpr hh.1
  have hl : ((data ++ createChecksum hrp data false).map chr).length = data.length + 6 := by
    simp [createChecksum_length]
  rw [hl, map_idx_chr _ hall, verify_of_polymod_one _ _ (checksum_valid hrp data)]
  rw [if_neg (by omega)]
  simp

/-- a valid string is not accepted after one character of its data part is replaced by another charset character -/
theorem subst_rejected (hrp pre suf : List Char) (c c' : Char) (hA : ∀ x ∈ hrp, 33 ≤ x.toNat ∧ x.toNat ≤ 126)
    (hpre : ∀ x ∈ pre, x ∈ charset) (hsuf : ∀ x ∈ suf, x ∈ charset) (hc : c ∈ charset) (hc' : c' ∈ charset)
    (hne : c ≠ c') (hvalid : bech32Decode (hrp ++ '1' :: (pre ++ c :: suf)) ≠ none) :
    bech32Decode (hrp ++ '1' :: (pre ++ c' :: suf)) = none := by
  have hB : ∀ (y : Char), y ∈ charset → ∀ x ∈ pre ++ y :: suf, x ∈ charset := by
    intro y hy x hx
    rcases List.mem_append.mp hx with h | h
    · exact hpre x h
    · rcases List.mem_cons.mp h with h | h
      · exact h ▸ hy
      · exact hsuf x h
  rw [bech32Decode_shape hrp _ hA (hB c hc)] at hvalid
  rw [bech32Decode_shape hrp _ hA (hB c' hc')]
  split
  · rfl
  · have hcore : decodeCore (hrp.map lowerChar) (pre ++ c :: suf) ≠ none := by
      intro h; apply hvalid; rw [h]; split <;> rfl
    unfold decodeCore at hcore ⊢
    simp only [List.length_append, List.length_cons, List.length_map] at hcore ⊢
    by_cases hl : hrp.length < 1 ∨ pre.length + (suf.length + 1) < 6 ∨
        hrp.length + 1 + (pre.length + (suf.length + 1)) > 108
    · rw [if_pos hl]
    · rw [if_neg hl] at hcore ⊢
      have hacc : Accepted (polymod (hrpExpand (hrp.map lowerChar) ++ (pre ++ c :: suf).map idx)) := by
        apply Classical.byContradiction
        intro hn
        rw [(verify_none_iff _ _).mpr hn] at hcore
        exact hcore rfl
      have hrej : verifyChecksum (hrp.map lowerChar) ((pre ++ c' :: suf).map idx) = none := by
        rw [verify_none_iff]
        simp only [List.map_append, List.map_cons, polymod, ← List.append_assoc] at hacc ⊢
        refine subst_not_accepted 1 _ _ (idx c) (idx c') (charset_facts c hc).2.2.2.2.2.1
          (charset_facts c' hc').2.2.2.2.2.1 (fun e => hne (idx_inj hc hc' e)) ?_ hacc
        rw [List.length_map]; omega
      rw [hrej]

theorem uint8_map_lt (bs : Bytes) : ∀ b ∈ bs.map UInt8.toNat, b < 2 ^ 8 := by
  intro b hb
  obtain ⟨x, _, rfl⟩ := List.mem_map.mp hb
  exact x.toNat_lt

/-- `encode` succeeds whenever the resulting string has at most 108 characters -/
theorem encode_some (hrp : List Char) (bs : Bytes) (hh : HrpOk hrp)
    (hlen : hrp.length + 7 + (8 * bs.length + 4) / 5 ≤ 108) : ∃ s, encode hrp bs = some s := by
  obtain ⟨out, e1, ho, _, hl2, _⟩ := convertbits_roundtrip_nat (bs.map UInt8.toNat) (uint8_map_lt bs)
  rw [List.length_map] at hl2
  unfold encode
  rw [e1]
  simp only [bech32Encode_eq hrp out ho]
  rw [bech32Decode_bech32Encode hrp out hh ho (by omega)]
  simp

/-- `encode` returns `None` when the string would have more than 108 characters -/
theorem encode_none (hrp : List Char) (bs : Bytes) (hh : HrpOk hrp)
    (hlen : hrp.length + 7 + (8 * bs.length + 4) / 5 > 108) : encode hrp bs = none := by
  obtain ⟨out, e1, ho, hl1, _, _⟩ := convertbits_roundtrip_nat (bs.map UInt8.toNat) (uint8_map_lt bs)
  rw [List.length_map] at hl1
  unfold encode
  rw [e1]
  simp only [bech32Encode_eq hrp out ho]
  have hall : ∀ d ∈ out ++ createChecksum hrp out false, d < 32 := by
    intro d h
    rcases List.mem_append.mp h with h | h
    · exact ho d h
    · exact createChecksum_lt hrp out d h
  have hB : ∀ c ∈ (out ++ createChecksum hrp out false).map chr, c ∈ charset := by
    intro c hc
    obtain ⟨d, hd', rfl⟩ := List.mem_map.mp hc
    exact (chr_facts d (hall d hd')).2.2
  have : bech32Decode (hrp ++ '1' :: (out ++ createChecksum hrp out false).map chr) = none := by
    rw [bech32Decode_shape hrp _ (fun c hc => ⟨(hh.2 c hc).1, (hh.2 c hc).2.1⟩) hB]
    split
    · rfl
    · unfold decodeCore
      rw [if_pos]
      simp only [List.length_map, List.length_append, createChecksum_length]
      omega
  rw [this]
  simp

/-- whatever `encode` returns decodes to the bytes that were encoded -/
theorem decode_encode (hrp : List Char) (bs : Bytes) (hh : HrpOk hrp) (h2 : 2 ≤ bs.length) (s : List Char)
    (he : encode hrp bs = some s) : decode s = .ok (bs.map UInt8.toNat) := by
  obtain ⟨out, e1, ho, hl1, hl2, e2⟩ := convertbits_roundtrip_nat (bs.map UInt8.toNat) (uint8_map_lt bs)
  rw [List.length_map] at hl1 hl2
  unfold encode at he
  rw [e1] at he
  simp only [bech32Encode_eq hrp out ho] at he
  split at he
  · exact absurd he (by simp)
  · rename_i hdec
    have hs : hrp ++ '1' :: (out ++ createChecksum hrp out false).map chr = s := by simpa using he
    -- the self-check of `encode` bounds the length
    have hlen : hrp.length + 1 + out.length + 6 ≤ 108 := by
      have hall : ∀ d ∈ out ++ createChecksum hrp out false, d < 32 := by
        intro d h
        rcases List.mem_append.mp h with h | h
        · exact ho d h
        · exact createChecksum_lt hrp out d h
      have hB : ∀ c ∈ (out ++ createChecksum hrp out false).map chr, c ∈ charset := by
        intro c hc
        obtain ⟨d, hd', rfl⟩ := List.mem_map.mp hc
        exact (chr_facts d (hall d hd')).2.2
      rw [bech32Decode_shape hrp _ (fun c hc => ⟨(hh.2 c hc).1, (hh.2 c hc).2.1⟩) hB] at hdec
      apply Classical.byContradiction
      intro hn
      apply hdec
      split
      · rfl
      · unfold decodeCore
        rw [if_pos]
        simp only [List.length_map, List.length_append, createChecksum_length]
        omega
    unfold decode
    rw [← hs, bech32Decode_bech32Encode hrp out hh ho hlen]
    simp only [e2, List.length_map]
    rw [if_neg (by omega)]

end Pyc.Bech32
