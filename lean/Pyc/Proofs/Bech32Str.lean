import Pyc.Proofs.Bech32
import Pyc.Proofs.Convertbits

namespace Pyc.Bech32

/-! ## characters of the data part -/

def chr (d : Nat) : Char := charset.getD d 'q'
def idx (c : Char) : Nat := charset.idxOf c

theorem charset_facts : ∀ c ∈ charset, 33 ≤ c.toNat ∧ c.toNat ≤ 126 ∧ lowerChar c = c ∧ c ≠ '1' ∧
    charset.contains c = true ∧ idx c < 32 ∧ chr (idx c) = c := by decide

theorem chr_facts : ∀ d, d < 32 → charset[d]? = some (chr d) ∧ idx (chr d) = d ∧ chr d ∈ charset := by decide

theorem idx_inj {c c' : Char} (h : c ∈ charset) (h' : c' ∈ charset) (e : idx c = idx c') : c = c' := by
  rw [← (charset_facts c h).2.2.2.2.2.2, ← (charset_facts c' h').2.2.2.2.2.2, e]

theorem mapM_charset : ∀ (l : List Nat), (∀ d ∈ l, d < 32) → l.mapM (fun d => charset[d]?) = some (l.map chr)
  | [], _ => rfl
  | d :: l, h => by
    rw [List.mapM_cons, (chr_facts d (h d (List.mem_cons_self ..))).1,
      mapM_charset l (fun x hx => h x (List.mem_cons_of_mem _ hx))]
    rfl

theorem map_idx_chr : ∀ (l : List Nat), (∀ d ∈ l, d < 32) → (l.map chr).map idx = l
  | [], _ => rfl
  | d :: l, h => by
    simp only [List.map_cons, (chr_facts d (h d (List.mem_cons_self ..))).2.1,
      map_idx_chr l (fun x hx => h x (List.mem_cons_of_mem _ hx))]

/-! ## checksum creation -/

/-- the constant `bech32_create_checksum` xors in: `BECH32M_CONST if spec == Encoding.BECH32M else 1` -/
def constOf (m : Bool) : Nat := if m then bech32mConst else 1

theorem constOf_lt (m : Bool) : constOf m < 2 ^ 30 := by cases m <;> decide

theorem createChecksum_eq (hrp : List Char) (data : List Nat) (m : Bool) :
    createChecksum hrp data m =
      (let pm := polymod (hrpExpand hrp ++ data ++ [0, 0, 0, 0, 0, 0]) ^^^ constOf m
       [pm >>> 25 &&& 31, pm >>> 20 &&& 31, pm >>> 15 &&& 31, pm >>> 10 &&& 31, pm >>> 5 &&& 31, pm >>> 0 &&& 31]) := by
  simp [createChecksum, constOf, List.range, List.range.loop]

theorem shl5_xor (c v : Nat) (hv : v < 32) : (c <<< 5) ^^^ v = c * 32 + v := by
  have h : (c <<< 5) ^^^ v = (c <<< 5) ||| v := by
    apply Nat.eq_of_testBit_eq
    intro i
    rw [Nat.testBit_xor, Nat.testBit_or, Nat.testBit_shiftLeft]
    by_cases hi : i ≥ 5
    · have : v.testBit i = false := Nat.testBit_lt_two_pow (Nat.lt_of_lt_of_le hv (Nat.pow_le_pow_right (by decide) hi : 2 ^ 5 ≤ 2 ^ i))
      simp [this]
    · simp [hi]
  rw [h, ← Nat.shiftLeft_add_eq_or_of_lt (i := 5) hv, Nat.shiftLeft_eq]

theorem step_small (c v : Nat) (hc : c < 2 ^ 25) (hv : v < 32) : step c v = c * 32 + v := by
  unfold step
  rw [Nat.shiftRight_eq_div_pow, Nat.div_eq_of_lt hc, sel_zero, Nat.xor_zero,
    show (0x1FFFFFF : Nat) = 2 ^ 25 - 1 by decide, and_mask, Nat.mod_eq_of_lt hc, shl5_xor _ _ hv]

theorem and31 (x : Nat) : x &&& 31 = x % 32 := Nat.and_two_pow_sub_one_eq_mod x 5

/-- shifting the six 5-bit groups of a 30-bit number into an empty register rebuilds the number -/
theorem polymodFrom_zero_groups (pm : Nat) (h : pm < 2 ^ 30) :
    polymodFrom 0 [pm >>> 25 &&& 31, pm >>> 20 &&& 31, pm >>> 15 &&& 31, pm >>> 10 &&& 31, pm >>> 5 &&& 31,
      pm >>> 0 &&& 31] = pm := by
  simp only [polymodFrom, polymodStep_eq, and31, Nat.shiftRight_eq_div_pow]
  generalize h0 : pm / 2 ^ 25 % 32 = q0
  generalize h1 : pm / 2 ^ 20 % 32 = q1
  generalize h2 : pm / 2 ^ 15 % 32 = q2
  generalize h3 : pm / 2 ^ 10 % 32 = q3
  generalize h4 : pm / 2 ^ 5 % 32 = q4
  generalize h5 : pm / 2 ^ 0 % 32 = q5
  rw [step_small 0 q0 (by decide) (by omega)]
  rw [step_small (0 * 32 + q0) q1 (by omega) (by omega)]
  rw [step_small ((0 * 32 + q0) * 32 + q1) q2 (by omega) (by omega)]
  rw [step_small (((0 * 32 + q0) * 32 + q1) * 32 + q2) q3 (by omega) (by omega)]
  rw [step_small ((((0 * 32 + q0) * 32 + q1) * 32 + q2) * 32 + q3) q4 (by omega) (by omega)]
  rw [step_small (((((0 * 32 + q0) * 32 + q1) * 32 + q2) * 32 + q3) * 32 + q4) q5 (by omega) (by omega)]
  omega

theorem polymodFrom_zeros6_lt (c : Nat) : polymodFrom c [0, 0, 0, 0, 0, 0] < 2 ^ 30 := by
  simp only [polymodFrom, polymodStep_eq]
  exact step_lt _ _ (by decide)

/-- the checksum written by `bech32_create_checksum` leaves exactly the constant it was created with -/
theorem checksum_const (hrp : List Char) (data : List Nat) (m : Bool) :
    polymod (hrpExpand hrp ++ (data ++ createChecksum hrp data m)) = constOf m := by
  generalize hc : polymodFrom 1 (hrpExpand hrp ++ data) = c
  have hP' : polymod (hrpExpand hrp ++ data ++ [0, 0, 0, 0, 0, 0]) = polymodFrom c [0, 0, 0, 0, 0, 0] := by
    unfold polymod; rw [polymodFrom_append, hc]
  rw [createChecksum_eq]
  simp only []
  rw [hP', ← List.append_assoc]
  unfold polymod
  rw [polymodFrom_append, hc]
  generalize hP : polymodFrom c [0, 0, 0, 0, 0, 0] = P
  have hPlt : P < 2 ^ 30 := hP ▸ polymodFrom_zeros6_lt c
  generalize hK : constOf m = K
  have hpm : P ^^^ K < 2 ^ 30 := Nat.xor_lt_two_pow hPlt (hK ▸ constOf_lt m)
  have lin := polymodFrom_xor [0, 0, 0, 0, 0, 0]
    [(P ^^^ K) >>> 25 &&& 31, (P ^^^ K) >>> 20 &&& 31, (P ^^^ K) >>> 15 &&& 31, (P ^^^ K) >>> 10 &&& 31,
      (P ^^^ K) >>> 5 &&& 31, (P ^^^ K) >>> 0 &&& 31] c 0 rfl
  simp only [List.zipWith_cons_cons, List.zipWith_nil_right, Nat.zero_xor, Nat.xor_zero] at lin
  rw [lin, hP, polymodFrom_zero_groups _ hpm, ← Nat.xor_assoc, Nat.xor_self, Nat.zero_xor]

/-- the checksum written by `bech32_create_checksum` (Bech32 constant) verifies -/
theorem checksum_valid (hrp : List Char) (data : List Nat) :
    polymod (hrpExpand hrp ++ (data ++ createChecksum hrp data false)) = 1 :=
  checksum_const hrp data false

/-! ## encoding produces `hrp ++ "1" ++ characters` -/

theorem createChecksum_lt (hrp : List Char) (data : List Nat) (m : Bool) :
    ∀ d ∈ createChecksum hrp data m, d < 32 := by
  rw [createChecksum_eq]
  intro d hd
  simp only [List.mem_cons, List.not_mem_nil, or_false] at hd
  rcases hd with h | h | h | h | h | h <;> rw [h, and31] <;> exact Nat.mod_lt _ (by decide)

theorem createChecksum_length (hrp : List Char) (data : List Nat) (m : Bool) :
    (createChecksum hrp data m).length = 6 := by
  rw [createChecksum_eq]; rfl

theorem bech32Encode_eq (hrp : List Char) (data : List Nat) (hd : ∀ d ∈ data, d < 32) (m : Bool) :
    bech32Encode hrp data m = some (hrp ++ '1' :: (data ++ createChecksum hrp data m).map chr) := by
  unfold bech32Encode
  have : ∀ d ∈ data ++ createChecksum hrp data m, d < 32 := by
    intro d h
    rcases List.mem_append.mp h with h | h
    · exact hd d h
    · exact createChecksum_lt hrp data m d h
  simp only [mapM_charset _ this, List.append_assoc, List.singleton_append]

/-! ## decoding a string of the shape `hrp ++ "1" ++ charset characters` -/

theorem rfind_none : ∀ (d : List Char), (∀ c ∈ d, c ≠ '1') → rfind '1' d = none
  | [], _ => rfl
  | x :: d, h => by
    simp only [rfind, rfind_none d (fun c hc => h c (List.mem_cons_of_mem _ hc)),
      h x (List.mem_cons_self ..), if_false]

theorem rfind_sep : ∀ (hrp d : List Char), (∀ c ∈ d, c ≠ '1') → rfind '1' (hrp ++ '1' :: d) = some hrp.length
  | [], d, h => by simp [rfind, rfind_none d h]
  | x :: hrp, d, h => by simp [rfind, rfind_sep hrp d h]

/-- what `bech32_decode` does after the case test, on lower-cased prefix `hl` and data characters `d`
(no length limit; only a Bech32 checksum is accepted) -/
def decodeCore (hl d : List Char) : Option (List Char × List Nat × Encoding) :=
  if hl.length < 1 ∨ d.length < 6 then none
  else
    match verifyChecksum hl (d.map idx) with
    | some .bech32 => some (hl, (d.map idx).take (d.length - 6), .bech32)
    | _ => none

theorem map_lower_charset : ∀ (d : List Char), (∀ c ∈ d, c ∈ charset) → d.map lowerChar = d
  | [], _ => rfl
  | x :: d, h => by
    simp only [List.map_cons, (charset_facts x (h x (List.mem_cons_self ..))).2.2.1,
      map_lower_charset d (fun c hc => h c (List.mem_cons_of_mem _ hc))]

/-- shape of `bech32_decode` on `hrp ++ "1" ++ d` when the prefix is printable ASCII and `d` is in the charset -/
theorem bech32Decode_shape (hrp d : List Char) (hA : ∀ c ∈ hrp, 33 ≤ c.toNat ∧ c.toNat ≤ 126)
    (hB : ∀ c ∈ d, c ∈ charset) :
    bech32Decode (hrp ++ '1' :: d) =
      if ((hrp ++ '1' :: d).map lowerChar != (hrp ++ '1' :: d) && (hrp ++ '1' :: d).map upperChar != (hrp ++ '1' :: d))
      then none else decodeCore (hrp.map lowerChar) d := by
  have hrange : (hrp ++ '1' :: d).any (fun x => x.toNat < 33 || x.toNat > 126) = false := by
    rw [List.any_eq_false]
    intro x hx
    have : 33 ≤ x.toNat ∧ x.toNat ≤ 126 := by
      rcases List.mem_append.mp hx with h | h
      · exact hA x h
      · rcases List.mem_cons.mp h with h | h
        · subst h; decide
        · have := charset_facts x (hB x h); omega
    simp; omega
  have hne : ∀ c ∈ d, c ≠ '1' := fun c hc => (charset_facts c (hB c hc)).2.2.2.1
  have hlow : (hrp ++ '1' :: d).map lowerChar = hrp.map lowerChar ++ '1' :: d := by
    rw [List.map_append, List.map_cons, map_lower_charset d hB]; rfl
  unfold bech32Decode
  rw [hrange, Bool.false_or]
  split
  · rfl
  · simp only [hlow, rfind_sep _ _ hne, List.length_map, List.length_append, List.length_cons]
    have hdrop : List.drop (hrp.length + 1) (List.map lowerChar hrp ++ '1' :: d) = d := by
      rw [show hrp.length + 1 = (List.map lowerChar hrp ++ ['1']).length by simp,
        show List.map lowerChar hrp ++ '1' :: d = (List.map lowerChar hrp ++ ['1']) ++ d by simp]
      exact List.drop_left
    have htake : List.take hrp.length (List.map lowerChar hrp ++ '1' :: d) = List.map lowerChar hrp := by
      rw [show hrp.length = (List.map lowerChar hrp).length by simp]
      exact List.take_left
    have hall : (d.all fun x => charset.contains x) = true := by
      rw [List.all_eq_true]
      intro x hx
      exact (charset_facts x (hB x hx)).2.2.2.2.1
    rw [hdrop, htake, hall]
    unfold decodeCore
    simp only [List.length_map, Bool.not_true, Bool.false_eq_true, if_false, Bool.or_eq_true, decide_eq_true_eq]
    have hc : (hrp.length < 1 ∨ hrp.length + 7 > hrp.length + (d.length + 1)) ↔
        (hrp.length < 1 ∨ d.length < 6) := by omega
    by_cases hcc : hrp.length < 1 ∨ d.length < 6
    · simp only [hc.mpr hcc, hcc, if_true]
    · simp only [mt hc.mp hcc, hcc, if_false]
      rfl

/-! ## the acceptor takes the Bech32 constant only -/

theorem verify_bech32_iff (hrp : List Char) (data : List Nat) :
    verifyChecksum hrp data = some .bech32 ↔ polymod (hrpExpand hrp ++ data) = 1 := by
  unfold verifyChecksum
  simp only []
  split
  · simp [*]
  · split
    · rename_i h1 h2
      simp only [reduceCtorEq, Option.some.injEq, false_iff]
      exact h1
    · simp [*]

/-- a register value that `bech32_verify_checksum` maps to anything but `BECH32` is rejected by `decodeCore` -/
theorem decodeCore_none_of_not_accepted (hl d : List Char)
    (h : ¬ Accepted (polymod (hrpExpand hl ++ d.map idx))) : decodeCore hl d = none := by
  unfold decodeCore
  split
  · rfl
  · split
    · rename_i hv
      exact absurd ((verify_bech32_iff _ _).mp hv) h
    · rfl

theorem decodeCore_some_iff (hl d : List Char) :
    decodeCore hl d ≠ none ↔ 1 ≤ hl.length ∧ 6 ≤ d.length ∧ polymod (hrpExpand hl ++ d.map idx) = 1 := by
  unfold decodeCore
  split
  · rename_i h; constructor
    · intro h'; exact absurd rfl h'
    · intro h'; omega
  · rename_i h
    split
    · rename_i hv
      constructor
      · intro _; exact ⟨by omega, by omega, (verify_bech32_iff _ _).mp hv⟩
      · intro _; simp
    · rename_i hv
      constructor
      · intro h'; exact absurd rfl h'
      · intro h'; exact absurd ((verify_bech32_iff _ _).mpr h'.2.2) hv

/-- whatever string `bech32_decode` accepts: the reported encoding is Bech32 and the polymod of prefix expansion and
data part (payload + six checksum symbols) is the Bech32 constant 1 -/
theorem bech32Decode_accepts (s hrp : List Char) (data : List Nat) (spec : Encoding)
    (h : bech32Decode s = some (hrp, data, spec)) :
    spec = .bech32 ∧ ∃ full, polymod (hrpExpand hrp ++ full) = 1 ∧ data = full.take (full.length - 6) := by
  unfold bech32Decode at h
  split at h
  · exact absurd h (by simp)
  · simp only [] at h
    split at h
    · exact absurd h (by simp)
    · split at h
      · exact absurd h (by simp)
      · split at h
        · exact absurd h (by simp)
        · split at h
          · rename_i hv
            simp only [Option.some.injEq, Prod.mk.injEq] at h
            obtain ⟨rfl, rfl, rfl⟩ := h
            exact ⟨rfl, _, (verify_bech32_iff _ _).mp hv, rfl⟩
          · exact absurd h (by simp)

/-! ## round trip -/

/-- hypotheses on the human-readable part: non-empty, printable ASCII, no upper-case letter -/
def HrpOk (hrp : List Char) : Prop := hrp ≠ [] ∧ ∀ c ∈ hrp, 33 ≤ c.toNat ∧ c.toNat ≤ 126 ∧ lowerChar c = c

instance (hrp : List Char) : Decidable (HrpOk hrp) := by unfold HrpOk; infer_instance

theorem map_lower_fixed : ∀ (l : List Char), (∀ c ∈ l, lowerChar c = c) → l.map lowerChar = l
  | [], _ => rfl
  | x :: l, h => by
    simp only [List.map_cons, h x (List.mem_cons_self ..),
      map_lower_fixed l (fun c hc => h c (List.mem_cons_of_mem _ hc))]

theorem verify_of_polymod_one (hrp : List Char) (data : List Nat) (h : polymod (hrpExpand hrp ++ data) = 1) :
    verifyChecksum hrp data = some .bech32 := (verify_bech32_iff hrp data).mpr h

theorem all_lt_append (hrp : List Char) (data : List Nat) (m : Bool) (hd : ∀ d ∈ data, d < 32) :
    ∀ d ∈ data ++ createChecksum hrp data m, d < 32 := by
  intro d h
  rcases List.mem_append.mp h with h | h
  · exact hd d h
  · exact createChecksum_lt hrp data m d h

theorem chr_in_charset (l : List Nat) (hl : ∀ d ∈ l, d < 32) : ∀ c ∈ l.map chr, c ∈ charset := by
  intro c hc
  obtain ⟨d, hd', rfl⟩ := List.mem_map.mp hc
  exact (chr_facts d (hl d hd')).2.2

/-- `bech32_decode` of an encoded string, whatever constant the checksum was created with: the case test passes and
the decision is left to the checksum -/
theorem bech32Decode_encoded (hrp : List Char) (data : List Nat) (m : Bool) (hh : HrpOk hrp)
    (hd : ∀ d ∈ data, d < 32) :
    bech32Decode (hrp ++ '1' :: (data ++ createChecksum hrp data m).map chr) =
      decodeCore hrp ((data ++ createChecksum hrp data m).map chr) := by
  have hall := all_lt_append hrp data m hd
  have hB := chr_in_charset _ hall
  have hlowh : hrp.map lowerChar = hrp := map_lower_fixed hrp (fun c hc => (hh.2 c hc).2.2)
  rw [bech32Decode_shape hrp _ (fun c hc => ⟨(hh.2 c hc).1, (hh.2 c hc).2.1⟩) hB]
  have hlow : (hrp ++ '1' :: (data ++ createChecksum hrp data m).map chr).map lowerChar
      = hrp ++ '1' :: (data ++ createChecksum hrp data m).map chr := by
    rw [List.map_append, List.map_cons, hlowh, map_lower_charset _ hB]; rfl
  rw [hlow, hlowh]
  simp only [bne_self_eq_false, Bool.false_and, Bool.false_eq_true, if_false]

/-- every Bech32-encoded string decodes to its prefix and data: no length limit -/
theorem bech32Decode_bech32Encode (hrp : List Char) (data : List Nat) (hh : HrpOk hrp) (hd : ∀ d ∈ data, d < 32) :
    bech32Decode (hrp ++ '1' :: (data ++ createChecksum hrp data false).map chr) = some (hrp, data, .bech32) := by
  rw [bech32Decode_encoded hrp data false hh hd]
  have hall := all_lt_append hrp data false hd
  unfold decodeCore
  have hne : 0 < hrp.length := List.length_pos_iff.mpr hh.1
  have hl : ((data ++ createChecksum hrp data false).map chr).length = data.length + 6 := by
    simp [createChecksum_length]
  rw [hl, map_idx_chr _ hall, verify_of_polymod_one _ _ (checksum_valid hrp data)]
  rw [if_neg (by omega)]
  simp

/-- a string whose checksum was created with the Bech32m constant is rejected -/
theorem bech32Decode_bech32m (hrp : List Char) (data : List Nat) (hh : HrpOk hrp) (hd : ∀ d ∈ data, d < 32) :
    bech32Decode (hrp ++ '1' :: (data ++ createChecksum hrp data true).map chr) = none := by
  rw [bech32Decode_encoded hrp data true hh hd]
  apply decodeCore_none_of_not_accepted
  rw [map_idx_chr _ (all_lt_append hrp data true hd), checksum_const]
  unfold Accepted
  decide

/-- a valid string is not accepted after one character of its data part is replaced by another charset character
(strings of any length) -/
theorem subst_rejected (hrp pre suf : List Char) (c c' : Char) (hA : ∀ x ∈ hrp, 33 ≤ x.toNat ∧ x.toNat ≤ 126)
    (hpre : ∀ x ∈ pre, x ∈ charset) (hsuf : ∀ x ∈ suf, x ∈ charset) (hc : c ∈ charset) (hc' : c' ∈ charset)
    (hne : c ≠ c') (hvalid : bech32Decode (hrp ++ '1' :: (pre ++ c :: suf)) ≠ none) :
    bech32Decode (hrp ++ '1' :: (pre ++ c' :: suf)) = none := by
  have hB : ∀ (y : Char), y ∈ charset → ∀ x ∈ pre ++ y :: suf, x ∈ charset := by
    intro y hy x hx
    rcases List.mem_append.mp hx with h | h
    · exact hpre x h
    · rcases List.mem_cons.mp h with h | h
      · exact h ▸ hy
      · exact hsuf x h
  rw [bech32Decode_shape hrp _ hA (hB c hc)] at hvalid
  rw [bech32Decode_shape hrp _ hA (hB c' hc')]
  split
  · rfl
  · have hcore : decodeCore (hrp.map lowerChar) (pre ++ c :: suf) ≠ none := by
      intro h; apply hvalid; rw [h]; split <;> rfl
    have hacc := ((decodeCore_some_iff _ _).mp hcore).2.2
    apply decodeCore_none_of_not_accepted
    simp only [List.map_append, List.map_cons, polymod, ← List.append_assoc] at hacc ⊢
    exact subst_not_accepted 1 _ _ (idx c) (idx c') (charset_facts c hc).2.2.2.2.2.1
      (charset_facts c' hc').2.2.2.2.2.1 (fun e => hne (idx_inj hc hc' e)) hacc

theorem uint8_map_lt (bs : Bytes) : ∀ b ∈ bs.map UInt8.toNat, b < 2 ^ 8 := by
  intro b hb
  obtain ⟨x, _, rfl⟩ := List.mem_map.mp hb
  exact x.toNat_lt

/-- `encode` succeeds on every payload: the string is prefix, separator, ⌈8n/5⌉ data characters and six checksum
characters, of whatever length -/
theorem encode_eq (hrp : List Char) (bs : Bytes) (hh : HrpOk hrp) :
    ∃ out, convertbits (bs.map UInt8.toNat) 8 5 true = some out ∧ (∀ d ∈ out, d < 32) ∧
      out.length = (8 * bs.length + 4) / 5 ∧
      encode hrp bs = some (hrp ++ '1' :: (out ++ createChecksum hrp out false).map chr) := by
  obtain ⟨out, e1, ho, hl1, hl2, _⟩ := convertbits_roundtrip_nat (bs.map UInt8.toNat) (uint8_map_lt bs)
  rw [List.length_map] at hl1 hl2
  refine ⟨out, e1, ho, by omega, ?_⟩
  unfold encode
  rw [e1]
  simp only [bech32Encode_eq hrp out ho false]
  rw [bech32Decode_bech32Encode hrp out hh ho]
  simp

theorem encode_some (hrp : List Char) (bs : Bytes) (hh : HrpOk hrp) :
    ∃ s, encode hrp bs = some s ∧ s.length = hrp.length + 7 + (8 * bs.length + 4) / 5 := by
  obtain ⟨out, _, _, hl, he⟩ := encode_eq hrp bs hh
  refine ⟨_, he, ?_⟩
  simp only [List.length_append, List.length_cons, List.length_map, createChecksum_length, hl]
  omega

/-- whatever `encode` returns decodes to the bytes that were encoded -/
theorem decode_encode (hrp : List Char) (bs : Bytes) (hh : HrpOk hrp) (h2 : 2 ≤ bs.length) (s : List Char)
    (he : encode hrp bs = some s) : decode s = .ok (bs.map UInt8.toNat) := by
  obtain ⟨out, e1, ho, _, hl2, e2⟩ := convertbits_roundtrip_nat (bs.map UInt8.toNat) (uint8_map_lt bs)
  obtain ⟨out', e1', _, _, he'⟩ := encode_eq hrp bs hh
  rw [e1] at e1'
  obtain rfl : out = out' := Option.some.inj e1'
  rw [he] at he'
  obtain rfl := Option.some.inj he'
  unfold decode
  rw [bech32Decode_bech32Encode hrp out hh ho]
  simp only [e2, List.length_map]
  rw [if_neg (by omega)]

end Pyc.Bech32
