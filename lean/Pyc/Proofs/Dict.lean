import Pyc.Model.Value

/-! Lemmas about the association-list model of Python dicts. -/

namespace Pyc.Dict
variable {ν : Type}

theorem has_iff_mem (m : List (Bytes × ν)) (k : Bytes) : has m k = true ↔ k ∈ keys m := by
  induction m with
  | nil => simp [has, keys]
  | cons p r ih => grind [has, keys]

theorem has_false_getD (m : List (Bytes × ν)) (k : Bytes) (d : ν) (h : has m k = false) : getD m k d = d := by
  induction m with
  | nil => simp [getD]
  | cons p r ih => grind [has, getD]

theorem getD_set (m : List (Bytes × ν)) (k k' : Bytes) (v d : ν) :
    getD (set m k v) k' d = if k = k' then v else getD m k' d := by
  induction m with
  | nil => grind [set, getD]
  | cons p r ih => grind [set, getD]

theorem has_set (m : List (Bytes × ν)) (k k' : Bytes) (v : ν) :
    has (set m k v) k' = (decide (k = k') || has m k') := by
  induction m with
  | nil => grind [set, has]
  | cons p r ih => grind [set, has]

theorem keys_set (m : List (Bytes × ν)) (k : Bytes) (v : ν) :
    keys (set m k v) = if has m k then keys m else keys m ++ [k] := by
  induction m with
  | nil => simp [set, has, keys]
  | cons p r ih => grind [set, has, keys]

theorem wf_nil : WF ([] : List (Bytes × ν)) := by simp [WF, keys]

theorem wf_tail {p : Bytes × ν} {r : List (Bytes × ν)} (h : WF (p :: r)) : WF r := by
  unfold WF keys at *; simp at h; exact h.2

theorem wf_head {p : Bytes × ν} {r : List (Bytes × ν)} (h : WF (p :: r)) : has r p.1 = false := by
  unfold WF keys at h; simp at h
  cases hh : has r p.1 with
  | false => rfl
  | true =>
    have := (has_iff_mem r p.1).1 hh
    simp [keys] at this
    obtain ⟨x, hx⟩ := this
    exact absurd hx (h.1 x)

theorem wf_set (m : List (Bytes × ν)) (k : Bytes) (v : ν) (h : WF m) : WF (set m k v) := by
  unfold WF at *
  rw [keys_set]
  cases hk : has m k with
  | true => simpa using h
  | false =>
    have hn : k ∉ keys m := fun hm => by simp [(has_iff_mem m k).2 hm] at hk
    simp only [Bool.false_eq_true, if_false]
    rw [List.nodup_append]
    refine ⟨h, by simp, ?_⟩
    intro a ha b hb
    simp at hb
    subst hb
    intro hab; subst hab; exact hn ha

theorem wf_ofPairs (ps : List (Bytes × ν)) : WF (ofPairs ps) := by
  unfold ofPairs
  suffices ∀ acc : List (Bytes × ν), WF acc → WF (ps.foldl (fun acc p => set acc p.1 p.2) acc) from this [] wf_nil
  induction ps with
  | nil => intro acc h; simpa
  | cons p r ih => intro acc h; simp only [List.foldl_cons]; exact ih _ (wf_set _ _ _ h)

theorem wf_filter (m : List (Bytes × ν)) (f : Bytes × ν → Bool) (h : WF m) : WF (m.filter f) := by
  unfold WF keys at *
  exact List.Nodup.sublist (List.Sublist.map _ List.filter_sublist) h

theorem has_filter_false (m : List (Bytes × ν)) (f : Bytes × ν → Bool) (k : Bytes) (h : has m k = false) :
    has (m.filter f) k = false := by
  induction m with
  | nil => simp [has]
  | cons p r ih => grind [has, List.filter]

/-- looking a key up after filtering: found and kept, or default -/
theorem getD_filter (m : List (Bytes × ν)) (f : Bytes × ν → Bool) (k : Bytes) (d : ν) (h : WF m) :
    getD (m.filter f) k d = if has m k && f (k, getD m k d) then getD m k d else d := by
  induction m with
  | nil => simp [getD, has]
  | cons p r ih =>
    obtain ⟨a, b⟩ := p
    have hr := wf_tail h
    have hh : has r a = false := wf_head h
    have ih' := ih hr
    by_cases hak : a = k
    · subst hak
      by_cases hf : f (a, b) = true
      · simp [List.filter, hf, getD, has]
      · have hf' : f (a, b) = false := by simpa using hf
        simp [List.filter, hf', getD, has]
        exact has_false_getD _ _ _ (has_filter_false _ _ _ hh)
    · by_cases hf : f (a, b) = true
      · simp [List.filter, hf, getD, has, hak, ih']
      · have hf' : f (a, b) = false := by simpa using hf
        simp [List.filter, hf', getD, has, hak, ih']

theorem has_filter (m : List (Bytes × ν)) (f : Bytes × ν → Bool) (k : Bytes) (d : ν) (h : WF m) :
    has (m.filter f) k = (has m k && f (k, getD m k d)) := by
  induction m with
  | nil => simp [has]
  | cons p r ih =>
    obtain ⟨a, b⟩ := p
    have hr := wf_tail h
    have hh : has r a = false := wf_head h
    have ih' := ih hr
    by_cases hak : a = k
    · subst hak
      by_cases hf : f (a, b) = true
      · simp [List.filter, hf, getD, has]
      · have hf' : f (a, b) = false := by simpa using hf
        simp [List.filter, hf', getD, has]
        exact has_filter_false _ _ _ hh
    · by_cases hf : f (a, b) = true
      · simp [List.filter, hf, getD, has, hak, ih']
      · have hf' : f (a, b) = false := by simpa using hf
        simp [List.filter, hf', getD, has, hak, ih']

/-- membership in a well-formed dict is lookup -/
theorem mem_iff_getD (m : List (Bytes × ν)) (k : Bytes) (v d : ν) (h : WF m) :
    (k, v) ∈ m ↔ has m k = true ∧ getD m k d = v := by
  induction m with
  | nil => simp [has]
  | cons p r ih =>
    obtain ⟨a, b⟩ := p
    have hr := wf_tail h
    have hh : has r a = false := wf_head h
    have ih' := ih hr
    by_cases hak : a = k
    · subst hak
      simp [has, getD]
      constructor
      · rintro (h1 | h1)
        · exact h1.symm
        · have := (ih'.1 h1).1; simp [hh] at this
      · intro h1; exact Or.inl h1.symm
    · simp [has, getD, hak, ih']
      intro h1; exact absurd h1.symm hak

theorem getD_map (m : List (Bytes × ν)) (g : ν → ν) (k : Bytes) (d : ν) :
    getD (m.map (fun p => (p.1, g p.2))) k (g d) = g (getD m k d) := by
  induction m with
  | nil => simp [getD]
  | cons p r ih => grind [getD]

theorem has_map (m : List (Bytes × ν)) (g : ν → ν) (k : Bytes) :
    has (m.map (fun p => (p.1, g p.2))) k = has m k := by
  induction m with
  | nil => simp [has]
  | cons p r ih => grind [has]

theorem keys_map (m : List (Bytes × ν)) (g : ν → ν) : keys (m.map (fun p => (p.1, g p.2))) = keys m := by
  simp [keys, List.map_map, Function.comp_def]

theorem wf_map (m : List (Bytes × ν)) (g : ν → ν) (h : WF m) : WF (m.map (fun p => (p.1, g p.2))) := by
  unfold WF at *; rw [keys_map]; exact h

end Pyc.Dict

namespace Pyc.Dict
variable {ν : Type}

theorem wf_merge (op : ν → ν → ν) (d : ν) (a b : List (Bytes × ν)) (h : WF a) : WF (merge op d a b) := by
  unfold merge
  induction b generalizing a with
  | nil => simpa
  | cons p r ih => simp only [List.foldl_cons]; exact ih _ (wf_set _ _ _ h)

theorem has_merge (op : ν → ν → ν) (d : ν) (a b : List (Bytes × ν)) (k : Bytes) :
    has (merge op d a b) k = (has a k || has b k) := by
  unfold merge
  induction b generalizing a with
  | nil => simp [has]
  | cons p r ih =>
    simp only [List.foldl_cons]
    rw [ih, has_set]
    simp only [has]
    cases has a k <;> cases has r k <;> simp

theorem getD_merge (op : ν → ν → ν) (d : ν) (a b : List (Bytes × ν)) (k : Bytes) (hb : WF b) :
    getD (merge op d a b) k d = if has b k then op (getD a k d) (getD b k d) else getD a k d := by
  unfold merge
  induction b generalizing a with
  | nil => simp [has]
  | cons p r ih =>
    obtain ⟨n, q⟩ := p
    have hr := wf_tail hb
    have hh : has r n = false := wf_head hb
    simp only [List.foldl_cons]
    rw [ih _ hr, getD_set]
    by_cases h : n = k
    · subst h
      simp [hh, has, getD]
    · simp [h, has, getD]

end Pyc.Dict
