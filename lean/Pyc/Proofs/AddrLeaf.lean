import Pyc.Model.AddrLeaf
import Pyc.Proofs.Addr
import Pyc.Proofs.AddrText
import Pyc.Proofs.CustomCodec

/-! Helper lemmas for the address leaf of `TransactionOutput` (`Pyc/Model/AddrLeaf.lean`). -/

namespace Pyc.AddrLeaf
open Pyc Pyc.Cbor Pyc.Codec Pyc.Custom Pyc.Addr

theorem sizedB_iff (p : Part) : sizedB p = true ↔ p.Sized := by
  cases p <;> simp [sizedB, Part.Sized]

theorem mkVkh_ok {p : Bytes} {x : Part} (h : mkVkh p = .ok x) : x = .vkh p ∧ p.length = 28 := by
  unfold mkVkh at h; split at h
  · cases h; exact ⟨rfl, by assumption⟩
  · cases h

theorem mkSh_ok {p : Bytes} {x : Part} (h : mkSh p = .ok x) : x = .sh p ∧ p.length = 28 := by
  unfold mkSh at h; split at h
  · cases h; exact ⟨rfl, by assumption⟩
  · cases h

theorem mkPtr_ok {p : Bytes} {x : Part} (h : mkPtr p = .ok x) : ∃ s t c, x = .ptr s t c := by
  unfold mkPtr at h; split at h
  · cases h; exact ⟨_, _, _, rfl⟩
  · cases h

/-- two-step `do` blocks over `Except` -/
theorem bind2_ok {ε α β γ : Type} {f : Except ε α} {g : Except ε β} {k : α → β → γ} {r : γ}
    (h : (do let p ← f; let s ← g; pure (k p s) : Except ε γ) = .ok r) :
    ∃ p s, f = .ok p ∧ g = .ok s ∧ r = k p s := by
  cases f with
  | error e => cases h
  | ok p =>
    cases g with
    | error e => cases h
    | ok s => cases h; exact ⟨p, s, rfl, rfl, rfl⟩

theorem bind1_ok {ε α γ : Type} {f : Except ε α} {k : α → γ} {r : γ}
    (h : (do let p ← f; pure (k p) : Except ε γ) = .ok r) : ∃ p, f = .ok p ∧ r = k p := by
  cases f with
  | error e => cases h
  | ok p => cases h; exact ⟨p, rfl, rfl⟩

/-- whatever `Address.from_primitive` returns is an address object that exists -/
theorem fromBytes_valid (b : Bytes) (a : Address) (h : fromBytes b = .ok a) : validB a = true := by
  unfold fromBytes at h
  split at h
  · cases h
  · split at h
    · cases h
    · split at h
      · cases h
      · split at h
        all_goals first
          | (obtain ⟨p, s, hp, hs, rfl⟩ := bind2_ok h
             first
              | (obtain ⟨rfl, l1⟩ := mkVkh_ok hp; obtain ⟨rfl, l2⟩ := mkVkh_ok hs; simp [validB, sizedB, toBytes, inferType, l1, l2])
              | (obtain ⟨rfl, l1⟩ := mkVkh_ok hp; obtain ⟨rfl, l2⟩ := mkSh_ok hs; simp [validB, sizedB, toBytes, inferType, l1, l2])
              | (obtain ⟨rfl, l1⟩ := mkSh_ok hp; obtain ⟨rfl, l2⟩ := mkVkh_ok hs; simp [validB, sizedB, toBytes, inferType, l1, l2])
              | (obtain ⟨rfl, l1⟩ := mkSh_ok hp; obtain ⟨rfl, l2⟩ := mkSh_ok hs; simp [validB, sizedB, toBytes, inferType, l1, l2])
              | (obtain ⟨_, _, _, rfl⟩ := mkPtr_ok hp; obtain ⟨rfl, l2⟩ := mkVkh_ok hs; simp [validB, sizedB, toBytes, inferType, l2])
              | (obtain ⟨_, _, _, rfl⟩ := mkPtr_ok hp; obtain ⟨rfl, l2⟩ := mkSh_ok hs; simp [validB, sizedB, toBytes, inferType, l2]))
          | (obtain ⟨p, hp, rfl⟩ := bind1_ok h
             first
              | (obtain ⟨rfl, l1⟩ := mkVkh_ok hp; simp [validB, sizedB, toBytes, inferType, l1])
              | (obtain ⟨rfl, l1⟩ := mkSh_ok hp; simp [validB, sizedB, toBytes, inferType, l1]))
          | cases h

theorem addrDec_valid (i : Item) (a : Address) (h : addrDec i = .ok a) : validB a = true := by
  have key : ∀ r : Except DecErr Address, (∀ a, r = .ok a → validB a = true) → resOf r = .ok a → validB a = true := by
    intro r hr h
    cases r with
    | ok x => simp only [resOf] at h; cases h; exact hr _ rfl
    | error e => cases e <;> simp [resOf] at h
  cases i with
  | bytes b => exact key _ (fun a => fromBytes_valid b a) h
  | text s =>
    refine key _ (fun a ha => ?_) h
    unfold fromBech32 at ha
    split at ha
    · exact fromBytes_valid _ a ha
    · cases ha
  | _ => simp [addrDec] at h

/-- the leaf decoder IS `Address.from_primitive`: the validity test inside `addrLeaf.dec` never fails -/
theorem addrLeaf_dec_faithful (i : Item) :
    (match addrLeaf.dec i with | .ok x => Res.ok x.1 | .deser => .deser | .crash => .crash) = addrDec i := by
  simp only [addrLeaf]
  cases h : addrDec i with
  | ok a => simp [addrDec_valid i a h]
  | deser => rfl
  | crash => rfl

theorem addrLeaf_lawful : addrLeaf.Lawful := by
  refine ⟨fun x => ?_⟩
  obtain ⟨a, hv⟩ := x
  have hv' := hv
  simp only [validB, Bool.and_eq_true, Option.isSome_iff_exists] at hv'
  obtain ⟨⟨hp, hs⟩, bs, hb⟩ := hv'
  have e : addrDec (addrEnc a) = .ok a := by
    simp only [addrEnc, hb, addrDec, fromBytes_toBytes a bs ((sizedB_iff _).1 hp) ((sizedB_iff _).1 hs) hb, resOf]
  simp only [addrLeaf, e, hv, dite_true]

end Pyc.AddrLeaf
