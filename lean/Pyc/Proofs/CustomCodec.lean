import Pyc.Model.CustomCodec
import Pyc.Proofs.Canonical
import Pyc.Proofs.Value
import Pyc.Proofs.Codec
import Pyc.Proofs.CborAll

/-! Round-trip theorems for the hand-written codecs modelled in `Model/CustomCodec.lean`. -/

namespace Pyc.Custom
open Pyc Pyc.Cbor Pyc.Codec Pyc.Schema

/-! ## association-list facts -/

theorem set_of_not_has {ν : Type} (acc : List (Bytes × ν)) (k : Bytes) (v : ν) (h : Dict.has acc k = false) :
    Dict.set acc k v = acc ++ [(k, v)] := by
  induction acc with
  | nil => simp [Dict.set]
  | cons p r ih =>
    obtain ⟨k', v'⟩ := p
    simp only [Dict.has, Bool.or_eq_false_iff, decide_eq_false_iff_not] at h
    simp [Dict.set, h.1, ih h.2]

theorem not_has_of_nodup_append {ν : Type} (acc r : List (Bytes × ν)) (q : Bytes × ν)
    (h : (Dict.keys (acc ++ q :: r)).Nodup) : Dict.has acc q.1 = false := by
  cases hh : Dict.has acc q.1 with
  | false => rfl
  | true =>
    have hm := (Dict.has_iff_mem acc q.1).1 hh
    simp only [Dict.keys, List.map_append, List.map_cons] at h hm
    have := (List.nodup_append.1 h).2.2 _ hm q.1 (by simp)
    exact absurd rfl this

theorem wf_of_perm {ν : Type} {a b : List (Bytes × ν)} (hp : a.Perm b) (h : Dict.WF b) : Dict.WF a := by
  unfold Dict.WF Dict.keys at *
  exact (hp.map _).nodup_iff.2 h

/-- insertion sort leaves a sorted list alone -/
theorem isort_of_sorted {α : Type} (le : α → α → Bool) (l : List α) (h : l.Pairwise (fun a b => le a b = true)) :
    isort le l = l := by
  induction l with
  | nil => rfl
  | cons a l ih =>
    rw [List.pairwise_cons] at h
    simp only [isort, ih h.2]
    cases l with
    | nil => rfl
    | cons b l => simp [insertBy, h.1 b (by simp)]

/-! ## integers of any size (cbor2 writes bignum tags 2 / 3 beyond 64 bits and reads them back) -/

theorem fromBE_append (xs ys : Bytes) (a : Nat) : fromBE (xs ++ ys) a = fromBE ys (fromBE xs a) := by
  induction xs generalizing a with
  | nil => rfl
  | cons x xs ih => simp [fromBE, ih]

theorem natBytesAux_acc (fuel n : Nat) (acc : Bytes) : natBytesAux fuel n acc = natBytesAux fuel n [] ++ acc := by
  induction fuel generalizing n acc with
  | zero => simp [natBytesAux]
  | succ f ih =>
    simp only [natBytesAux]
    split
    · simp
    · rw [ih (n / 256) (UInt8.ofNat (n % 256) :: acc), ih (n / 256) [UInt8.ofNat (n % 256)]]
      simp

theorem fromBE_natBytesAux (fuel n : Nat) (h : n < fuel) : fromBE (natBytesAux fuel n []) 0 = n := by
  induction fuel generalizing n with
  | zero => omega
  | succ f ih =>
    simp only [natBytesAux]
    split
    · rename_i h0; simp [fromBE, h0]
    · rename_i h0
      rw [natBytesAux_acc, fromBE_append, ih (n / 256) (by omega)]
      have : (UInt8.ofNat (n % 256)).toNat = n % 256 := by
        simp [UInt8.toNat_ofNat']
      simp only [fromBE, this]
      omega

theorem fromBE_natBytes (n : Nat) : fromBE (natBytes n) 0 = n := fromBE_natBytesAux (n+1) n (by omega)

/-- **every Python int survives cbor2**: major types 0 / 1 below 2^64 in magnitude, bignum tags 2 / 3 beyond -/
theorem itemInt_ofInt_all (i : Int) : itemInt? (ofInt i) = some i := by
  unfold ofInt
  by_cases h0 : 0 ≤ i
  · simp only [h0, if_true]
    split
    · simp only [itemInt?]; congr 1; omega
    · simp only [itemInt?, fromBE_natBytes]; congr 1; omega
  · simp only [h0, if_false]
    split
    · simp only [itemInt?]; congr 1; omega
    · simp only [itemInt?, fromBE_natBytes]; congr 1; omega

/-! ## `Asset` / `MultiAsset` / `Value` -/

/-- an asset dict as a Python object can hold it: distinct names of at most 32 bytes (quantities: any integer) -/
def AssetOk (a : Asset) : Prop := Dict.WF a ∧ ∀ q ∈ a, q.1.length ≤ 32

def MaOk (m : MultiAsset) : Prop := Dict.WF m ∧ ∀ p ∈ m, p.1.length = 28 ∧ AssetOk p.2

/-- **well-formed value**: policy ids of 28 bytes, asset names of at most 32 bytes, distinct keys at both levels (what a
Python `Value` can hold).  Coin and quantities are arbitrary integers, of either sign and any size. -/
structure ValueOk (v : Value) : Prop where
  ma : MaOk v.ma

/-- executable form of `ValueOk` (run by the driver on the harness's values; used by `decide` on concrete instances) -/
def nodupKeysB {ν : Type} : List (Bytes × ν) → Bool
  | [] => true
  | p :: r => !Dict.has r p.1 && nodupKeysB r

theorem nodupKeysB_sound {ν : Type} (m : List (Bytes × ν)) (h : nodupKeysB m = true) : Dict.WF m := by
  unfold Dict.WF
  induction m with
  | nil => simp [Dict.keys]
  | cons p r ih =>
    simp only [nodupKeysB, Bool.and_eq_true, Bool.not_eq_true'] at h
    simp only [Dict.keys, List.map_cons, List.nodup_cons]
    refine ⟨fun hm => ?_, ih h.2⟩
    have := (Dict.has_iff_mem r p.1).2 hm
    rw [h.1] at this; exact absurd this (by decide)

def assetOkB (a : Asset) : Bool := nodupKeysB a && a.all (fun q => decide (q.1.length ≤ 32))

theorem assetOkB_sound (a : Asset) (h : assetOkB a = true) : AssetOk a := by
  unfold assetOkB at h
  simp only [Bool.and_eq_true, List.all_eq_true, decide_eq_true_eq] at h
  exact ⟨nodupKeysB_sound a h.1, fun q hq => h.2 q hq⟩

def maOkB (m : MultiAsset) : Bool := nodupKeysB m && m.all (fun p => decide (p.1.length = 28) && assetOkB p.2)

theorem maOkB_sound (m : MultiAsset) (h : maOkB m = true) : MaOk m := by
  unfold maOkB at h
  simp only [Bool.and_eq_true, List.all_eq_true, decide_eq_true_eq] at h
  exact ⟨nodupKeysB_sound m h.1, fun p hp => ⟨(h.2 p hp).1, assetOkB_sound _ (h.2 p hp).2⟩⟩

def valueOkB (v : Value) : Bool := maOkB v.ma

theorem valueOkB_sound (v : Value) (h : valueOkB v = true) : ValueOk v := ⟨maOkB_sound _ h⟩

theorem decAssetLoop_items (acc a : Asset) (hw : (Dict.keys (acc ++ a)).Nodup)
    (hk : ∀ q ∈ a, q.1.length ≤ 32) :
    decAssetLoop acc (a.map (fun q => (Item.bytes q.1, ofInt q.2))) = .ok (acc ++ a) := by
  induction a generalizing acc with
  | nil => simp [decAssetLoop]
  | cons q r ih =>
    have hq := hk q (by simp)
    have hnh := not_has_of_nodup_append acc r q hw
    simp only [List.map_cons, decAssetLoop, decCBytes, Nat.zero_le, hq, and_self, if_true,
      itemInt_ofInt_all, set_of_not_has acc q.1 q.2 hnh]
    rw [ih (acc ++ [q]) (by simpa using hw) (fun x hx => hk x (by simp [hx]))]
    simp

theorem decAsset_item (a : Asset) (h : AssetOk a) : decAsset (itemAsset a) = .ok (Asset.normalize a) := by
  unfold decAsset itemAsset
  simp only []
  rw [decAssetLoop_items [] a (by simpa [Dict.WF] using h.1) h.2]
  simp

theorem decMultiAssetLoop_items (acc m : MultiAsset) (hw : (Dict.keys (acc ++ m)).Nodup)
    (hk : ∀ p ∈ m, p.1.length = 28 ∧ AssetOk p.2) :
    decMultiAssetLoop acc (m.map (fun p => (Item.bytes p.1, itemAsset p.2))) =
      .ok (acc ++ m.map (fun p => (p.1, Asset.normalize p.2))) := by
  induction m generalizing acc with
  | nil => simp [decMultiAssetLoop]
  | cons p r ih =>
    have hp := hk p (by simp)
    have hnh := not_has_of_nodup_append acc r p hw
    simp only [List.map_cons, decMultiAssetLoop, decCBytes, hp.1, Nat.le_refl, and_self, if_true,
      decAsset_item p.2 hp.2, set_of_not_has acc p.1 _ hnh]
    rw [ih (acc ++ [(p.1, Asset.normalize p.2)]) (by simpa [Dict.keys] using hw) (fun x hx => hk x (by simp [hx]))]
    simp

theorem decMultiAsset_item (m : MultiAsset) (h : MaOk m) :
    decMultiAsset (itemMultiAsset m) = .ok (MultiAsset.normalize m) := by
  unfold decMultiAsset itemMultiAsset
  simp only []
  rw [decMultiAssetLoop_items [] m (by simpa [Dict.WF] using h.1) h.2]
  simp [MultiAsset.normalize]

/-! ### the canonical form is well-formed, normal, and a fixed point of normalisation and sorting -/

theorem mem_primAsset (a : Asset) (q : Bytes × Int) : q ∈ primAsset a ↔ q ∈ a ∧ q.2 ≠ 0 := by
  unfold primAsset
  rw [(canonSort_perm _).mem_iff]
  simp [Asset.normalize]

theorem primAsset_ok (a : Asset) (h : AssetOk a) : AssetOk (primAsset a) := by
  refine ⟨wf_of_perm (canonSort_perm _) (Asset.wf_normalize a h.1), ?_⟩
  intro q hq
  exact h.2 q ((mem_primAsset a q).1 hq).1

theorem primAsset_normal (a : Asset) : Asset.Normal (primAsset a) :=
  fun q hq => ((mem_primAsset a q).1 hq).2

theorem primAsset_sorted (a : Asset) : (primAsset a).Pairwise (fun x y => keyLe x.1 y.1 = true) :=
  canonSort_sorted _

theorem primAsset_idem (a : Asset) : primAsset (primAsset a) = primAsset a := by
  have h1 : Asset.normalize (primAsset a) = primAsset a := Asset.normalize_of_normal _ (primAsset_normal a)
  have h2 : primAsset (primAsset a) = canonSort (Asset.normalize (primAsset a)) := rfl
  rw [h2, h1]
  exact isort_of_sorted _ _ (primAsset_sorted a)

theorem primAsset_length (a : Asset) : (primAsset a).length = (Asset.normalize a).length :=
  (canonSort_perm _).length_eq

theorem mem_normalize_ma (m : MultiAsset) (p : Bytes × Asset) :
    p ∈ MultiAsset.normalize m ↔ ∃ p0 ∈ m, p = (p0.1, Asset.normalize p0.2) ∧ Asset.normalize p0.2 ≠ [] := by
  unfold MultiAsset.normalize
  simp only [List.mem_filter, List.mem_map, Bool.not_eq_true', List.isEmpty_eq_false_iff]
  constructor
  · rintro ⟨⟨p0, h0, rfl⟩, hne⟩; exact ⟨p0, h0, rfl, hne⟩
  · rintro ⟨p0, h0, rfl, hne⟩; exact ⟨⟨p0, h0, rfl⟩, hne⟩

theorem mem_primMultiAsset (m : MultiAsset) (x : Bytes × Asset) :
    x ∈ primMultiAsset m ↔ ∃ p ∈ MultiAsset.normalize m, x = (p.1, primAsset p.2) := by
  unfold primMultiAsset
  simp only [List.mem_map]
  constructor
  · rintro ⟨p, hp, rfl⟩; exact ⟨p, (canonSort_perm _).mem_iff.1 hp, rfl⟩
  · rintro ⟨p, hp, rfl⟩; exact ⟨p, (canonSort_perm _).mem_iff.2 hp, rfl⟩

theorem keys_primMultiAsset_perm (m : MultiAsset) :
    (Dict.keys (primMultiAsset m)).Perm (Dict.keys (MultiAsset.normalize m)) := by
  unfold primMultiAsset Dict.keys
  simp only [List.map_map, Function.comp_def]
  exact (canonSort_perm (MultiAsset.normalize m)).map (fun p => p.1)

theorem primMultiAsset_normal (m : MultiAsset) : MultiAsset.Normal (primMultiAsset m) := by
  intro x hx
  obtain ⟨p, hp, rfl⟩ := (mem_primMultiAsset m x).1 hx
  obtain ⟨p0, _, rfl, hne⟩ := (mem_normalize_ma m p).1 hp
  refine ⟨?_, primAsset_normal _⟩
  simp only
  intro he
  have hl := primAsset_length (Asset.normalize p0.2)
  rw [he, Asset.normalize_of_normal _ (Asset.normal_normalize _)] at hl
  exact hne (List.eq_nil_of_length_eq_zero hl.symm)

theorem primMultiAsset_ok (m : MultiAsset) (h : MaOk m) : MaOk (primMultiAsset m) := by
  have hwf : MultiAsset.WF m := ⟨h.1, fun p hp => (h.2 p hp).2.1⟩
  refine ⟨?_, ?_⟩
  · unfold Dict.WF
    exact (keys_primMultiAsset_perm m).nodup_iff.2 (MultiAsset.wf_normalize m hwf).1
  · intro x hx
    obtain ⟨p, hp, rfl⟩ := (mem_primMultiAsset m x).1 hx
    obtain ⟨p0, h0, rfl, _⟩ := (mem_normalize_ma m p).1 hp
    have h00 := h.2 p0 h0
    refine ⟨h00.1, primAsset_ok _ ⟨Asset.wf_normalize _ h00.2.1, ?_⟩⟩
    intro q hq
    unfold Asset.normalize at hq
    exact h00.2.2 q (List.mem_filter.1 hq).1

theorem normalize_of_normal_ma (m : MultiAsset) (h : MultiAsset.Normal m) : MultiAsset.normalize m = m := by
  unfold MultiAsset.normalize
  have h1 : m.map (fun p => (p.1, Asset.normalize p.2)) = m := by
    conv => rhs; rw [← List.map_id m]
    apply List.map_congr_left
    intro p hp
    simp [Asset.normalize_of_normal _ (h p hp).2]
  rw [h1, List.filter_eq_self]
  intro p hp
  simpa using (h p hp).1

theorem primMultiAsset_sorted (m : MultiAsset) : (primMultiAsset m).Pairwise (fun x y => keyLe x.1 y.1 = true) := by
  unfold primMultiAsset
  rw [List.pairwise_map]
  exact canonSort_sorted _

/-- **the canonical form is a fixed point**: normalising and sorting it again changes nothing (no hypothesis) -/
theorem primMultiAsset_idem (m : MultiAsset) : primMultiAsset (primMultiAsset m) = primMultiAsset m := by
  have h2 : primMultiAsset (primMultiAsset m) =
      (canonSort (MultiAsset.normalize (primMultiAsset m))).map (fun p => (p.1, primAsset p.2)) := rfl
  rw [h2, normalize_of_normal_ma _ (primMultiAsset_normal m)]
  have hs : canonSort (primMultiAsset m) = primMultiAsset m := isort_of_sorted _ _ (primMultiAsset_sorted m)
  rw [hs]
  conv => rhs; rw [← List.map_id (primMultiAsset m)]
  apply List.map_congr_left
  intro x hx
  obtain ⟨p, _, rfl⟩ := (mem_primMultiAsset m x).1 hx
  simp [primAsset_idem]

theorem primMultiAsset_isEmpty (m : MultiAsset) : (primMultiAsset m).isEmpty = (MultiAsset.normalize m).isEmpty := by
  unfold primMultiAsset
  have hl := (canonSort_perm (MultiAsset.normalize m)).length_eq
  cases h1 : canonSort (MultiAsset.normalize m) <;> cases h2 : MultiAsset.normalize m <;> simp_all

/-! ### round trip of `Value` -/

theorem decValue_array2 (c m : Item) : decValue (.array [c, m]) = (match itemInt? c with
    | Option.none => .deser
    | some coin => (match decMultiAsset m with
        | .ok ma => .ok ⟨coin, ma⟩
        | .deser => .deser
        | .crash => .crash)) := rfl

/-- **decode ∘ encode on values** (item level): the coin, and the bundle normalised in canonical order -/
theorem decValue_itemValue (v : Value) (h : ValueOk v) : decValue (itemValue v) = .ok (normValue v) := by
  unfold itemValue normValue
  by_cases he : (MultiAsset.normalize v.ma).isEmpty = true
  · have hp : primMultiAsset v.ma = [] := by
      have := primMultiAsset_isEmpty v.ma
      rw [he] at this
      exact List.isEmpty_iff.1 this
    simp only [he, if_true, decValue, itemInt_ofInt_all, hp]
  · have hok := primMultiAsset_ok v.ma h.ma
    have he' : (MultiAsset.normalize v.ma).isEmpty = false := by simpa using he
    simp only [he', Bool.false_eq_true, if_false]
    rw [decValue_array2]
    simp only [itemInt_ofInt_all,
      decMultiAsset_item _ hok, normalize_of_normal_ma _ (primMultiAsset_normal v.ma)]

/-- **re-encoding the decoded value gives the same primitive** — for every value, no hypothesis -/
theorem itemValue_normValue (v : Value) : itemValue (normValue v) = itemValue v := by
  unfold itemValue normValue
  simp only [primMultiAsset_idem]
  have h1 : (MultiAsset.normalize (primMultiAsset v.ma)).isEmpty = (MultiAsset.normalize v.ma).isEmpty := by
    rw [normalize_of_normal_ma _ (primMultiAsset_normal v.ma), primMultiAsset_isEmpty]
  rw [h1]

theorem normValue_idem (v : Value) : normValue (normValue v) = normValue v := by
  simp [normValue, primMultiAsset_idem]

/-- byte level: the encoder's bytes are decoded by the CBOR decoder and then restored -/
theorem decValueBytes_enc (v : Value) (h : ValueOk v) (hw : Cbor.WF (itemValue v)) :
    decValueBytes (encValueBytes v) = .ok (normValue v) := by
  unfold decValueBytes encValueBytes
  rw [decodeAll_encode _ hw]
  exact decValue_itemValue v h

/-! ### Python `==` on the result

`Value.__eq__` / `MultiAsset.__eq__` / `Asset.__eq__` compare contents component-wise (an absent name counts as 0, an
absent policy as an empty `Asset`; `Value.eq_iff`, Proofs/Value.lean).  Normalising and sorting do not change the
content of a well-formed bundle, so the decoded value is `==` to the original — stored zeros and empty policies
included. -/

theorem getD_perm {ν : Type} (a b : List (Bytes × ν)) (hp : a.Perm b) (ha : Dict.WF a) (k : Bytes) (d : ν) :
    Dict.getD a k d = Dict.getD b k d := by
  have hb : Dict.WF b := wf_of_perm hp.symm ha
  cases hh : Dict.has a k with
  | true =>
    have hm : (k, Dict.getD a k d) ∈ a := (Dict.mem_iff_getD a k _ d ha).2 ⟨hh, rfl⟩
    exact ((Dict.mem_iff_getD b k _ d hb).1 (hp.mem_iff.1 hm)).2.symm
  | false =>
    have hbk : Dict.has b k = false := by
      cases hb' : Dict.has b k with
      | false => rfl
      | true =>
        have h1 := (Dict.has_iff_mem b k).1 hb'
        have h2 : k ∈ Dict.keys a := by
          unfold Dict.keys at h1 ⊢
          exact ((hp.map (·.1)).mem_iff).2 h1
        have := (Dict.has_iff_mem a k).2 h2
        rw [hh] at this; exact absurd this (by decide)
    rw [Dict.has_false_getD _ _ _ hh, Dict.has_false_getD _ _ _ hbk]

theorem qty_primAsset (a : Asset) (hw : Dict.WF a) (n : Bytes) : Asset.qty (primAsset a) n = Asset.qty a n := by
  unfold primAsset Asset.qty
  rw [getD_perm _ _ (canonSort_perm _) (wf_of_perm (canonSort_perm _) (Asset.wf_normalize a hw))]
  exact Asset.qty_normalize a n hw

/-- the canonical form has the content of the original (for a well-formed bundle: distinct keys at both levels) -/
theorem qty_primMultiAsset (m : MultiAsset) (hw : MultiAsset.WF m) (p n : Bytes) :
    MultiAsset.qty (primMultiAsset m) p n = MultiAsset.qty m p n := by
  have hwn := MultiAsset.wf_normalize m hw
  rw [← MultiAsset.qty_normalize m p n hw, primMultiAsset_eq]
  unfold MultiAsset.qty
  have hX : Dict.WF ((MultiAsset.normalize m).map MultiAsset.canonInner) := by
    unfold Dict.WF; rw [MultiAsset.keys_canonInner]; exact hwn.1
  rw [getD_perm _ _ (canonSort_perm _) (wf_of_perm (canonSort_perm _) hX)]
  have hg : Dict.getD ((MultiAsset.normalize m).map MultiAsset.canonInner) p [] =
      primAsset (Dict.getD (MultiAsset.normalize m) p []) := by
    have h0 : primAsset [] = [] := rfl
    have := Dict.getD_map (MultiAsset.normalize m) primAsset p []
    rw [h0] at this
    exact this
  rw [hg]
  exact qty_primAsset _ (MultiAsset.wf_getD _ p hwn) n

/-- **the decoded value is `==` to the original**, whatever zeros and empty policies the original stores -/
theorem value_eq_original (v : Value) (hw : MultiAsset.WF v.ma) : Value.eq (normValue v) v = true := by
  rw [Value.eq_iff]
  exact ⟨rfl, fun p n => qty_primMultiAsset v.ma hw p n⟩

theorem maOk_wf (m : MultiAsset) (h : MaOk m) : MultiAsset.WF m := ⟨h.1, fun p hp => (h.2 p hp).2.1⟩

/-! ## `TransactionOutput` -/

variable {A D N : Type}

/-- the assumption about the three leaf classes (address, inline datum, native script): each restores what it wrote -/
structure Leaves.Lawful (L : Leaves A D N) : Prop where
  addr : L.addr.Lawful
  datum : L.datum.Lawful
  native : L.native.Lawful

/-- a script a Python object can hold (Plutus versions 1, 2, 3) whose primitive is CBOR-representable -/
def ScriptOk (L : Leaf N) : Script N → Prop
  | .native n => Cbor.WF (L.enc n)
  | .plutus v b => (v = 1 ∨ v = 2 ∨ v = 3) ∧ b.length < 2^64

/-- **well-formed output**: a well-formed amount, a 32-byte datum hash, and embedded datum / script primitives that are
CBOR-representable (they are written as `#6.24(bytes)` and parsed back from those bytes) -/
structure OutputOk (L : Leaves A D N) (o : Output A D N) : Prop where
  amount : ValueOk o.amount
  hash : ∀ h, o.datumHash = some h → h.length = 32
  datum : ∀ d, o.datum = some d → Cbor.WF (L.datum.enc d)
  script : ∀ s, o.script = some s → ScriptOk L.native s

theorem itemInt_uint (n : Nat) : itemInt? (.uint n) = some (n : Int) := rfl

theorem decScriptRef_item (L : Leaf N) (hL : L.Lawful) (s : Script N) (hs : ScriptOk L s) :
    decScriptRef L (itemScriptRef L s) = .ok s := by
  cases s with
  | native n =>
    have hw : Cbor.WF (itemScript L (.native n)) := by
      simp only [itemScript, Cbor.WF, Cbor.WFList, List.length_cons, List.length_nil]
      exact ⟨by omega, by omega, hs, trivial⟩
    simp only [decScriptRef, itemScriptRef, decodeAll_encode _ hw]
    simp [decScript, itemScript, listElems?, itemInt_uint, hL.rt]
  | plutus v b =>
    obtain ⟨hv, hb⟩ := hs
    have hw : Cbor.WF (itemScript L (.plutus v b)) := by
      simp only [itemScript, Cbor.WF, Cbor.WFList, List.length_cons, List.length_nil]
      exact ⟨by omega, by omega, hb, trivial⟩
    simp only [decScriptRef, itemScriptRef, decodeAll_encode _ hw]
    rcases hv with rfl | rfl | rfl <;> simp [decScript, itemScript, listElems?, itemInt_uint]

theorem decDatumOption_item (L : Leaf D) (hL : L.Lawful) (x : Bytes ⊕ D)
    (hh : ∀ h, x = .inl h → h.length = 32) (hd : ∀ d, x = .inr d → Cbor.WF (L.enc d)) :
    decDatumOption L (itemDatumOption L x) = .ok x := by
  cases x with
  | inl h => simp [decDatumOption, itemDatumOption, listElems?, itemInt_uint, hh h rfl]
  | inr d => simp [decDatumOption, itemDatumOption, listElems?, itemInt_uint, decodeAll_encode _ (hd d rfl), hL.rt]

/-- **decode ∘ encode on outputs**, for every well-formed output (both forms, every datum / script combination,
including an output that carries a datum hash AND an inline datum): the result is `decodedOutput o` -/
theorem decOutput_itemOutput (L : Leaves A D N) (hL : L.Lawful) (o : Output A D N) (h : OutputOk L o) :
    decOutput L (itemOutput L o) = .ok (decodedOutput o) := by
  obtain ⟨addr, amt, dh, dat, scr, pa⟩ := o
  have hamt : decAmount (itemValue amt) = .ok (normValue amt) := decValue_itemValue amt h.amount
  have haddr : L.addr.dec (L.addr.enc addr) = .ok addr := hL.addr.rt addr
  have hscr : ∀ s, scr = some s → decScriptRef L.native (itemScriptRef L.native s) = .ok s :=
    fun s hs => decScriptRef_item L.native hL.native s (h.script s hs)
  have hdo : ∀ x, datumOptionOf (⟨addr, amt, dh, dat, scr, pa⟩ : Output A D N) = some x →
      decDatumOption L.datum (itemDatumOption L.datum x) = .ok x := by
    intro x hx
    apply decDatumOption_item L.datum hL.datum x
    · intro hh hxe; subst hxe
      cases dh with
      | none => cases dat <;> simp [datumOptionOf] at hx
      | some h0 => simp only [datumOptionOf, Option.some.injEq, Sum.inl.injEq] at hx; subst hx; exact h.hash _ rfl
    · intro d hxe; subst hxe
      cases dh with
      | none =>
        cases dat with
        | none => simp [datumOptionOf] at hx
        | some d0 => simp only [datumOptionOf, Option.some.injEq, Sum.inr.injEq] at hx; subst hx; exact h.datum _ rfl
      | some h0 => simp [datumOptionOf] at hx
  have hh32 : ∀ h0, dh = some h0 → decOptHash (.bytes h0) = .ok (some h0) := by
    intro h0 e
    simp [decOptHash, decCBytes, h.hash h0 e]
  cases dh with
  | none =>
    cases dat with
    | none =>
      cases scr with
      | none =>
        cases pa <;>
          simp [itemOutput, mapForm, itemOutputLegacy, itemOutputMap, datumOptionOf, decOutput, decOutputLegacy,
            decOutputMapLoop, finishMap, Res.bind, itemInt_uint, haddr, hamt, decodedOutput]
      | some s =>
        have := hscr s rfl
        cases pa <;>
          simp [itemOutput, mapForm, itemOutputMap, datumOptionOf, decOutput,
            decOutputMapLoop, finishMap, Res.bind, itemInt_uint, haddr, hamt, this, decodedOutput]
    | some d =>
      have hd := hdo (.inr d) rfl
      cases scr with
      | none =>
        cases pa <;>
          simp [itemOutput, mapForm, itemOutputMap, datumOptionOf, decOutput,
            decOutputMapLoop, finishMap, Res.bind, itemInt_uint, haddr, hamt, hd, decodedOutput]
      | some s =>
        have := hscr s rfl
        cases pa <;>
          simp [itemOutput, mapForm, itemOutputMap, datumOptionOf, decOutput,
            decOutputMapLoop, finishMap, Res.bind, itemInt_uint, haddr, hamt, hd, this, decodedOutput]
  | some h0 =>
    have hd := hdo (.inl h0) (by cases dat <;> rfl)
    have hl := hh32 h0 rfl
    cases dat with
    | none =>
      cases scr with
      | none =>
        cases pa <;>
          simp [itemOutput, mapForm, itemOutputLegacy, itemOutputMap, datumOptionOf, decOutput, decOutputLegacy,
            decOutputMapLoop, finishMap, Res.bind, itemInt_uint, haddr, hamt, hd, hl, decodedOutput]
      | some s =>
        have := hscr s rfl
        cases pa <;>
          simp [itemOutput, mapForm, itemOutputMap, datumOptionOf, decOutput,
            decOutputMapLoop, finishMap, Res.bind, itemInt_uint, haddr, hamt, hd, this, decodedOutput]
    | some d =>
      cases scr with
      | none =>
        cases pa <;>
          simp [itemOutput, mapForm, itemOutputMap, datumOptionOf, decOutput,
            decOutputMapLoop, finishMap, Res.bind, itemInt_uint, haddr, hamt, hd, decodedOutput]
      | some s =>
        have := hscr s rfl
        cases pa <;>
          simp [itemOutput, mapForm, itemOutputMap, datumOptionOf, decOutput,
            decOutputMapLoop, finishMap, Res.bind, itemInt_uint, haddr, hamt, hd, this, decodedOutput]

/-- an output as the ledger's `datum_option` can express it: not a datum hash AND an inline datum -/
def NotBoth (o : Output A D N) : Prop := ¬ (o.datumHash.isSome = true ∧ o.datum.isSome = true)

instance (o : Output A D N) : Decidable (NotBoth o) := by unfold NotBoth; infer_instance

theorem mapForm_normOutput (o : Output A D N) : mapForm (normOutput o) = mapForm o := by
  obtain ⟨addr, amt, dh, dat, scr, pa⟩ := o
  cases dat <;> cases scr <;> cases pa <;> simp [normOutput, mapForm]

theorem normOutput_idem (o : Output A D N) : normOutput (normOutput o) = normOutput o := by
  obtain ⟨addr, amt, dh, dat, scr, pa⟩ := o
  cases dat <;> cases scr <;> cases pa <;> simp [normOutput, mapForm]

/-- a constructed output: its flag is set whenever it carries an inline datum or a script -/
def Constructed (o : Output A D N) : Prop := normOutput o = o

theorem constructed_normOutput (o : Output A D N) : Constructed (normOutput o) := normOutput_idem o

theorem constructed_flag (o : Output A D N) (h : Constructed o) : mapForm o = o.postAlonzo := by
  unfold Constructed normOutput at h
  have := congrArg Output.postAlonzo h
  simpa using this

/-- decode ∘ encode on a constructed output that is not both: every field is the original's, the amount normalised -/
theorem decodedOutput_constructed (o : Output A D N) (hc : Constructed o) (hnb : NotBoth o) :
    decodedOutput o = { o with amount := normValue o.amount } := by
  have hf := constructed_flag o hc
  obtain ⟨addr, amt, dh, dat, scr, pa⟩ := o
  unfold NotBoth at hnb
  cases dh <;> cases dat <;> simp_all [decodedOutput]

/-- outside `NotBoth`: the hash wins, the inline datum is not written and therefore not restored -/
theorem decodedOutput_both (o : Output A D N) (h : o.datumHash.isSome = true) : (decodedOutput o).datum = Option.none := by
  simp [decodedOutput, h]

/-- **re-encoding the decoded output gives the same primitive** — for EVERY output (either form, any combination of
datum hash / inline datum / script / flag), no hypothesis -/
theorem itemOutput_decodedOutput (L : Leaves A D N) (o : Output A D N) :
    itemOutput L (decodedOutput o) = itemOutput L o := by
  obtain ⟨addr, amt, dh, dat, scr, pa⟩ := o
  cases dh <;> cases dat <;> cases scr <;> cases pa <;>
    simp [decodedOutput, itemOutput, mapForm, itemOutputMap, itemOutputLegacy, datumOptionOf, itemValue_normValue]

theorem decodedOutput_idem (o : Output A D N) : decodedOutput (decodedOutput o) = decodedOutput o := by
  obtain ⟨addr, amt, dh, dat, scr, pa⟩ := o
  cases dh <;> cases dat <;> cases scr <;> cases pa <;> simp [decodedOutput, mapForm, normValue_idem]

theorem outputOk_normOutput (L : Leaves A D N) (o : Output A D N) (h : OutputOk L o) : OutputOk L (normOutput o) :=
  ⟨h.amount, h.hash, h.datum, h.script⟩

theorem notBoth_normOutput (o : Output A D N) (h : NotBoth o) : NotBoth (normOutput o) := h

/-! ## `TransactionBody`: decode-time normalisation -/

/-- the normalisation changes nothing or replaces an untagged ordered set by the list of its elements -/
theorem normField_cases (f : FieldDef) (v : Val) :
    normField f v = v ∨ ∃ xs, v = .oset false xs ∧ normField f v = .list xs := by
  unfold normField
  split
  · exact Or.inr ⟨_, rfl, rfl⟩
  · exact Or.inl rfl

theorem normField_list (f : FieldDef) (xs : List Val) : normField f (.list xs) = .list xs := by
  rcases normField_cases f (.list xs) with h | ⟨ys, h, _⟩
  · exact h
  · cases h

theorem normField_idem (f : FieldDef) (v : Val) : normField f (normField f v) = normField f v := by
  rcases normField_cases f v with h | ⟨xs, rfl, h⟩
  · rw [h, h]
  · rw [h, normField_list]

theorem toPrim_normField (S : List ClassDef) (f : FieldDef) (v : Val) : toPrim S (normField f v) = toPrim S v := by
  rcases normField_cases f v with h | ⟨xs, rfl, h⟩
  · rw [h]
  · rw [h]; simp [toPrim]

theorem skip_normField (f g : FieldDef) (v : Val) : skip g (normField f v) = skip g v := by
  rcases normField_cases f v with h | ⟨xs, rfl, h⟩
  · rw [h]
  · rw [h]; cases ho : g.optional <;> simp [skip, ho]

theorem normFields_idem (fs : List FieldDef) (vs : List Val) :
    normFields fs (normFields fs vs) = normFields fs vs := by
  induction fs generalizing vs with
  | nil => simp [normFields]
  | cons f fs ih =>
    cases vs with
    | nil => simp [normFields]
    | cons v vs => simp [normFields, normField_idem, ih]

theorem mapFields_normFields (S : List ClassDef) (gs fs : List FieldDef) (vs : List Val) :
    mapFields S gs (normFields fs vs) = mapFields S gs vs := by
  induction gs generalizing fs vs with
  | nil => cases vs <;> cases fs <;> simp [mapFields, normFields]
  | cons g gs ih =>
    cases vs with
    | nil => cases fs <;> simp [mapFields, normFields]
    | cons v vs =>
      cases fs with
      | nil => simp [normFields]
      | cons f fs =>
        simp only [normFields, mapFields_cons, skip_normField, toPrim_normField, ih]

theorem arrFields_normFields (S : List ClassDef) (gs fs : List FieldDef) (vs : List Val) :
    arrFields S gs (normFields fs vs) = arrFields S gs vs := by
  induction gs generalizing fs vs with
  | nil => cases vs <;> cases fs <;> simp [arrFields, normFields]
  | cons g gs ih =>
    cases vs with
    | nil => cases fs <;> simp [arrFields, normFields]
    | cons v vs =>
      cases fs with
      | nil => simp [normFields]
      | cons f fs =>
        have hs := skip_normField f g v
        have ht := toPrim_normField S f v
        rcases normField_cases f v with h | ⟨xs, rfl, h⟩
        · simp only [normFields, h]
          cases ho : g.optional <;> cases v <;> simp [arrFields, ho, ih]
        · simp only [normFields, h]
          cases ho : g.optional <;> simp [arrFields, ho, ih, toPrim]

/-- the normalisation is idempotent -/
theorem bodyNorm_idem (S : List ClassDef) (v : Val) : bodyNorm S (bodyNorm S v) = bodyNorm S v := by
  match v with
  | .obj n fs =>
    simp only [bodyNorm]
    cases hl : lookup S n with
    | none => simp [hl]
    | some cd => simp [hl, normFields_idem]
  | .int _ | .bytes _ | .text _ | .bool _ | .none | .frac _ _ | .list _ | .dict _ | .oset _ _ | .cb _ | .enum _
  | .opaque _ => rfl

/-- … and invisible on the wire: a value and its normal form have the same primitive, hence the same bytes -/
theorem toPrim_bodyNorm (S : List ClassDef) (v : Val) : toPrim S (bodyNorm S v) = toPrim S v := by
  match v with
  | .obj n fs =>
    simp only [bodyNorm]
    cases hl : lookup S n with
    | none => rfl
    | some cd =>
      simp only [toPrim, hl]
      cases cd.kind <;> simp [mapFields_normFields, arrFields_normFields]
  | .int _ | .bytes _ | .text _ | .bool _ | .none | .frac _ _ | .list _ | .dict _ | .oset _ _ | .cb _ | .enum _
  | .opaque _ => rfl

/-- **decode ∘ encode on a dataclass value returns its normal form**, whenever the normal form is typed (for
`TransactionBody`: set-valued fields hold a list or a tagged / untagged ordered set; the untagged set of a
`Union[List[T], OrderedSet[T]]` field comes back as the list) -/
theorem decode_encode_bodyNorm (S : List ClassDef) (n : String) (v : Val) (h : HasType S (.cls n) (bodyNorm S v)) :
    Ev (fun fuel => fromPrim S fuel (.cls n) (toPrim S v) = .ok (bodyNorm S v)) := by
  have := rt_all h
  rw [toPrim_bodyNorm] at this
  exact this

end Pyc.Custom
