import Pyc.Model.Cbor

/-! Round trip of the CBOR item model: `decode fuel (encode x ++ rest) = some (x, rest)`. -/

set_option linter.unusedSimpArgs false
set_option linter.unusedVariables false

namespace Pyc.Cbor


@[simp] theorem u8_toNat_ofNat (n : Nat) (h : n < 256) : (UInt8.ofNat n).toNat = n := by
  simp [UInt8.toNat_ofNat, Nat.mod_eq_of_lt h]

theorem decodeHead_head (m a : Nat) (rest : Bytes) (hm : m < 8) (ha : a < 2^64) :
    decodeHead (head m a ++ rest) = some (m, some a, rest) := by
  unfold head
  simp only []
  split
  · -- a < 24
    simp only [List.cons_append, List.nil_append, decodeHead]
    have h1 : m * 32 + a < 256 := by omega
    rw [u8_toNat_ofNat _ h1]
    have : (m * 32 + a) / 32 = m := by omega
    have h2 : (m * 32 + a) % 32 = a := by omega
    simp [this, h2, *]
  · split
    · simp only [List.cons_append, decodeHead, beBytes]
      have h1 : m * 32 + 24 < 256 := by omega
      rw [u8_toNat_ofNat _ h1]
      have : (m * 32 + 24) / 32 = m := by omega
      have h2 : (m * 32 + 24) % 32 = 24 := by omega
      simp [this, h2, fromBE]
      omega
    · split
      · simp only [List.cons_append, decodeHead, beBytes]
        have h1 : m * 32 + 25 < 256 := by omega
        rw [u8_toNat_ofNat _ h1]
        have : (m * 32 + 25) / 32 = m := by omega
        have h2 : (m * 32 + 25) % 32 = 25 := by omega
        simp [this, h2, fromBE]
        omega
      · split
        · simp only [List.cons_append, decodeHead, beBytes]
          have h1 : m * 32 + 26 < 256 := by omega
          rw [u8_toNat_ofNat _ h1]
          have : (m * 32 + 26) / 32 = m := by omega
          have h2 : (m * 32 + 26) % 32 = 26 := by omega
          simp [this, h2, fromBE]
          omega
        · simp only [List.cons_append, decodeHead, beBytes]
          have h1 : m * 32 + 27 < 256 := by omega
          rw [u8_toNat_ofNat _ h1]
          have : (m * 32 + 27) / 32 = m := by omega
          have h2 : (m * 32 + 27) % 32 = 27 := by omega
          simp [this, h2, fromBE]
          omega


mutual
def depth : Item → Nat
  | .uint _ | .nint _ | .bytes _ | .text _ | .simple _ => 1
  | .bytesChunked cs => 2 + cs.length
  | .array xs => 1 + depthList xs
  | .arrayIndef xs => 1 + depthList xs
  | .map kvs => 1 + depthPairs kvs
  | .tag _ x => 1 + depth x
def depthList : List Item → Nat
  | [] => 1
  | x :: xs => 1 + max (depth x) (depthList xs)
def depthPairs : List (Item × Item) → Nat
  | [] => 1
  | (k, v) :: xs => 1 + max (max (depth k) (depth v)) (depthPairs xs)
end

mutual
def WF : Item → Prop
  | .uint n => n < 2^64
  | .nint n => n < 2^64
  | .bytes b => b.length < 2^64
  | .text b => b.length < 2^64
  | .bytesChunked cs => ∀ c ∈ cs, c.length < 2^64
  | .simple n => n < 24
  | .array xs => xs.length < 2^64 ∧ WFList xs
  | .arrayIndef xs => WFList xs
  | .map kvs => kvs.length < 2^64 ∧ WFPairs kvs
  | .tag t x => t < 2^64 ∧ WF x
def WFList : List Item → Prop
  | [] => True
  | x :: xs => WF x ∧ WFList xs
def WFPairs : List (Item × Item) → Prop
  | [] => True
  | (k, v) :: xs => WF k ∧ WF v ∧ WFPairs xs
end

theorem head_first (m a : Nat) (hm : m < 8) (h7 : m = 7 → a < 24) :
    ∃ b t, head m a = b :: t ∧ b ≠ 0xff := by
  have key : ∀ n : Nat, n < 255 → UInt8.ofNat n ≠ 0xff := by
    intro n hn h
    have := congrArg UInt8.toNat h
    rw [u8_toNat_ofNat _ (by omega)] at this
    simp at this
    omega
  unfold head; simp only []
  split
  · exact ⟨_, _, rfl, key _ (by omega)⟩
  · split
    · exact ⟨_, _, rfl, key _ (by omega)⟩
    · split
      · exact ⟨_, _, rfl, key _ (by omega)⟩
      · split
        · exact ⟨_, _, rfl, key _ (by omega)⟩
        · exact ⟨_, _, rfl, key _ (by omega)⟩

theorem encode_first (x : Item) (h : WF x) : ∃ b t, encode x = b :: t ∧ b ≠ 0xff := by
  cases x with
  | uint n => simpa [encode] using head_first 0 n (by omega) (by omega)
  | nint n => simpa [encode] using head_first 1 n (by omega) (by omega)
  | simple n =>
    simp only [WF] at h
    simpa [encode] using head_first 7 n (by omega) (fun _ => h)
  | bytes b =>
    obtain ⟨c, t, hc, hne⟩ := head_first 2 b.length (by omega) (by omega)
    exact ⟨c, t ++ b, by simp [encode, hc], hne⟩
  | array xs =>
    obtain ⟨c, t, hc, hne⟩ := head_first 4 xs.length (by omega) (by omega)
    exact ⟨c, t ++ encodeList xs, by simp [encode, hc], hne⟩
  | map kvs =>
    obtain ⟨c, t, hc, hne⟩ := head_first 5 kvs.length (by omega) (by omega)
    exact ⟨c, t ++ encodePairs kvs, by simp [encode, hc], hne⟩
  | tag tg x =>
    obtain ⟨c, t, hc, hne⟩ := head_first 6 tg (by omega) (by omega)
    exact ⟨c, t ++ encode x, by simp [encode, hc], hne⟩
  | arrayIndef xs => exact ⟨0x9f, encodeList xs ++ [0xff], by simp [encode], by decide⟩
  | bytesChunked cs => exact ⟨0x5f, encodeChunks cs ++ [0xff], by simp [encode], by decide⟩
  | text b =>
    obtain ⟨c, t, hc, hne⟩ := head_first 3 b.length (by omega) (by omega)
    exact ⟨c, t ++ b, by simp [encode, hc], hne⟩

theorem decodeChunks_encodeChunks (cs : List Bytes) (rest : Bytes) (fuel : Nat) (hf : cs.length < fuel)
    (hw : ∀ c ∈ cs, c.length < 2^64) :
    decodeChunks fuel (encodeChunks cs ++ 0xff :: rest) = some (cs, rest) := by
  induction cs generalizing fuel with
  | nil =>
    cases fuel with
    | zero => simp at hf
    | succ fuel => simp [encodeChunks, decodeChunks]
  | cons c cs ih =>
    cases fuel with
    | zero => simp at hf
    | succ fuel =>
      have hc : c.length < 2^64 := hw c (by simp)
      have ih' := ih fuel (by simp at hf; omega) (fun x hx => hw x (by simp [hx]))
      obtain ⟨b, t, hb, hne⟩ := head_first 2 c.length (by omega) (by omega)
      have hd := decodeHead_head 2 c.length (c ++ (encodeChunks cs ++ 0xff :: rest)) (by omega) hc
      simp only [encodeChunks, List.append_assoc]
      rw [hb] at hd ⊢
      simp only [List.cons_append, decodeChunks, hne, if_false]
      simp only [List.cons_append] at hd
      simp [hd, ih']

mutual
theorem decode_encode (x : Item) (rest : Bytes) (fuel : Nat) (hf : depth x ≤ fuel) (hw : WF x) :
    decode fuel (encode x ++ rest) = some (x, rest) := by
  cases fuel with
  | zero => cases x <;> simp [depth] at hf
  | succ fuel =>
    cases x with
    | uint n =>
      simp only [WF] at hw
      simp [encode, decode, decodeHead_head 0 n rest (by omega) hw]
    | nint n =>
      simp only [WF] at hw
      simp [encode, decode, decodeHead_head 1 n rest (by omega) hw]
    | simple n =>
      simp only [WF] at hw
      simp [encode, decode, decodeHead_head 7 n rest (by omega) (by omega)]
    | bytes b =>
      simp only [WF] at hw
      simp [encode, decode, List.append_assoc, decodeHead_head 2 b.length (b ++ rest) (by omega) hw]
    | text b =>
      simp only [WF] at hw
      simp [encode, decode, List.append_assoc, decodeHead_head 3 b.length (b ++ rest) (by omega) hw]
    | bytesChunked cs =>
      simp only [WF] at hw
      simp only [depth] at hf
      have ih := decodeChunks_encodeChunks cs rest fuel (by omega) hw
      have hh : decodeHead ((0x5f : UInt8) :: (encodeChunks cs ++ 0xff :: rest)) = some (2, none, encodeChunks cs ++ 0xff :: rest) := by
        simp [decodeHead]
      simp [encode, decode, List.append_assoc, hh, ih]
    | tag t x =>
      simp only [WF] at hw
      simp only [depth] at hf
      have ih := decode_encode x rest fuel (by omega) hw.2
      simp [encode, decode, List.append_assoc, decodeHead_head 6 t _ (by omega) hw.1, ih]
    | array xs =>
      simp only [WF] at hw
      simp only [depth] at hf
      have ih := decodeN_encodeList xs rest fuel (by omega) hw.2
      simp [encode, decode, List.append_assoc, decodeHead_head 4 xs.length _ (by omega) hw.1, ih]
    | arrayIndef xs =>
      simp only [WF] at hw
      simp only [depth] at hf
      have ih := decodeBreak_encodeList xs rest fuel (by omega) hw
      have hh : decodeHead ((0x9f : UInt8) :: (encodeList xs ++ 0xff :: rest)) = some (4, none, encodeList xs ++ 0xff :: rest) := by
        simp [decodeHead]
      simp [encode, decode, List.append_assoc, hh, ih]
    | map kvs =>
      simp only [WF] at hw
      simp only [depth] at hf
      have ih := decodePairs_encodePairs kvs rest fuel (by omega) hw.2
      simp [encode, decode, List.append_assoc, decodeHead_head 5 kvs.length _ (by omega) hw.1, ih]
theorem decodeN_encodeList (xs : List Item) (rest : Bytes) (fuel : Nat) (hf : depthList xs ≤ fuel) (hw : WFList xs) :
    decodeN fuel xs.length (encodeList xs ++ rest) = some (xs, rest) := by
  cases fuel with
  | zero => cases xs <;> simp [depthList] at hf
  | succ fuel =>
    cases xs with
    | nil => simp [encodeList, decodeN]
    | cons x xs =>
      simp only [WFList] at hw
      simp only [depthList] at hf
      have ih1 := decode_encode x (encodeList xs ++ rest) fuel (by omega) hw.1
      have ih2 := decodeN_encodeList xs rest fuel (by omega) hw.2
      simp [encodeList, decodeN, List.append_assoc, ih1, ih2]
theorem decodeBreak_encodeList (xs : List Item) (rest : Bytes) (fuel : Nat) (hf : depthList xs ≤ fuel) (hw : WFList xs) :
    decodeUntilBreak fuel (encodeList xs ++ 0xff :: rest) = some (xs, rest) := by
  cases fuel with
  | zero => cases xs <;> simp [depthList] at hf
  | succ fuel =>
    cases xs with
    | nil => simp [encodeList, decodeUntilBreak]
    | cons x xs =>
      simp only [WFList] at hw
      simp only [depthList] at hf
      have ih1 := decode_encode x (encodeList xs ++ 0xff :: rest) fuel (by omega) hw.1
      have ih2 := decodeBreak_encodeList xs rest fuel (by omega) hw.2
      obtain ⟨b, t, hb, hne⟩ := encode_first x hw.1
      simp only [encodeList, List.append_assoc]
      rw [hb] at ih1 ⊢
      simp only [List.cons_append, decodeUntilBreak, hne, if_false] 
      simp only [List.cons_append] at ih1
      simp [ih1, ih2]
theorem decodePairs_encodePairs (xs : List (Item × Item)) (rest : Bytes) (fuel : Nat) (hf : depthPairs xs ≤ fuel) (hw : WFPairs xs) :
    decodePairsN fuel xs.length (encodePairs xs ++ rest) = some (xs, rest) := by
  cases fuel with
  | zero => cases xs with
    | nil => simp [depthPairs] at hf
    | cons p xs => obtain ⟨k, v⟩ := p; simp [depthPairs] at hf
  | succ fuel =>
    cases xs with
    | nil => simp [encodePairs, decodePairsN]
    | cons p xs =>
      obtain ⟨k, v⟩ := p
      simp only [WFPairs] at hw
      simp only [depthPairs] at hf
      have ih1 := decode_encode k (encode v ++ encodePairs xs ++ rest) fuel (by omega) hw.1
      have ih2 := decode_encode v (encodePairs xs ++ rest) fuel (by omega) hw.2.1
      have ih3 := decodePairs_encodePairs xs rest fuel (by omega) hw.2.2
      simp [encodePairs, decodePairsN, List.append_assoc] at ih1 ⊢
      simp [ih1, ih2, ih3]
end

end Pyc.Cbor
