import Pyc.Proofs.Witness
import Pyc.Proofs.SizeDomWits

/-! The placeholder witnesses of `_build_fake_vkey_witnesses` in the C10 model (`Pyc/Model/Witness.lean`): pairwise
distinct for every index the code can run (`i.to_bytes(32, "big")` exists for `i < 2^256`), because XOR with a constant
and the 32-byte big-endian rendering are both one-to-one (lemmas of `Proofs/SizeDomWits.lean`). -/

namespace Pyc.Witness
open Pyc Pyc.SizeDom

theorem fakeVkeyConst_eq : fakeVkeyConst = maskVkey := by decide
theorem fakeSigConst_eq : fakeSigConst = maskSig := by decide

theorem fakeWitness_eq (i : Nat) : fakeWitness i = ⟨(fakeKey i).1, (fakeKey i).2⟩ := by
  simp [fakeWitness, fakeKey, Witness.xorBytes, SizeDom.xorBytes, fakeVkeyConst_eq, fakeSigConst_eq]

theorem fakeWitness_inj (i j : Nat) (hi : i < 2 ^ 256) (hj : j < 2 ^ 256) (h : fakeWitness i = fakeWitness j) : i = j := by
  rw [fakeWitness_eq, fakeWitness_eq] at h
  injection h with h1 h2
  exact fakeKey_inj i j hi hj (Prod.ext h1 h2)

/-- the placeholder KEYS alone already tell the indices apart -/
theorem fakeVkey_inj (i j : Nat) (hi : i < 2 ^ 256) (hj : j < 2 ^ 256) (h : (fakeWitness i).vkey = (fakeWitness j).vkey) :
    i = j := by
  rw [fakeWitness_eq, fakeWitness_eq] at h
  have h1 : SizeDom.xorBytes maskVkey (beBytes 32 i) = SizeDom.xorBytes maskVkey (beBytes 32 j) := h
  exact beBytes32_inj i j hi hj
    (xorBytes_inj maskVkey (beBytes 32 i) (beBytes 32 j) (by simp [beBytes_length']) (by simp [beBytes_length', maskVkey]) h1)

theorem length_fakeWitnessesN (n : Nat) (hn : n ≤ 2 ^ 256) : (fakeWitnessesN n).length = n := by
  unfold fakeWitnessesN
  rw [dedup_of_nodup]
  · simp
  · exact nodup_map_range _ _ fun i j hi hj => fakeWitness_inj i j (by omega) (by omega)

end Pyc.Witness
