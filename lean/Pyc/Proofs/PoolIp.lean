import Pyc.Model.Pool

/-! The libc text forms of `Model/Pool.lean`: what `inet_ntoa` writes, `inet_aton` reads back (`aton_ntoa`); what
`inet_ntop(AF_INET6)` writes, `inet_pton(AF_INET6)` reads back (`pton6_ntop6`). -/

namespace Pyc.Pool
open Pyc Pyc.Custom

/-! ## decimal octets -/

theorem digitVal_dot (base : Nat) : digitVal base chDot = none := by
  have : hexByte chDot = none := by decide
  simp [digitVal, this]

/-- value of a digit string read from an accumulator -/
def digitsVal (base : Nat) (ds : Bytes) (acc : Nat) : Nat :=
  ds.foldl (fun a c => a * base + (digitVal base c).getD 0) acc

theorem takeDigits_append (base : Nat) (x : UInt8) (r : Bytes) (hx : digitVal base x = none) :
    ∀ (ds : Bytes) (acc : Nat), (∀ c ∈ ds, (digitVal base c).isSome = true) →
      takeDigits base (ds ++ x :: r) acc = (digitsVal base ds acc, x :: r) := by
  intro ds
  induction ds with
  | nil => intro acc _; simp [takeDigits, hx, digitsVal]
  | cons c cs ih =>
    intro acc hd
    have hc := hd c (by simp)
    obtain ⟨v, hv⟩ := Option.isSome_iff_exists.mp hc
    simp only [List.cons_append, takeDigits, hv]
    rw [ih _ (fun c' hc' => hd c' (by simp [hc']))]
    simp [digitsVal, hv]

theorem takeDigits_all (base : Nat) : ∀ (ds : Bytes) (acc : Nat), (∀ c ∈ ds, (digitVal base c).isSome = true) →
    takeDigits base ds acc = (digitsVal base ds acc, []) := by
  intro ds
  induction ds with
  | nil => intro acc _; simp [takeDigits, digitsVal]
  | cons c cs ih =>
    intro acc hd
    have hc := hd c (by simp)
    obtain ⟨v, hv⟩ := Option.isSome_iff_exists.mp hc
    simp only [takeDigits, hv]
    rw [ih _ (fun c' hc' => hd c' (by simp [hc']))]
    simp [digitsVal, hv]

/-- the facts about `sprintf("%d")` of an octet that the parsers use (a finite table) -/
theorem decDigits_table : ∀ n, n < 256 →
    ((decDigits n).all (fun c => (digitVal 10 c).isSome) = true ∧ digitsVal 10 (decDigits n) 0 = n ∧
      (n ≠ 0 → (decDigits n).head? ≠ some 48) ∧ (decDigits n).head?.map isDigit = some true) := by
  decide +kernel

theorem decDigits_cons (n : Nat) (h : n < 256) : ∃ c t, decDigits n = c :: t ∧ isDigit c = true := by
  have := (decDigits_table n h).2.2.2
  cases hd : decDigits n with
  | nil => simp [hd] at this
  | cons c t => exact ⟨c, t, rfl, by simpa [hd] using this⟩

theorem strtoul0_octet_dot (n : Nat) (h : n < 256) (r : Bytes) :
    strtoul0 (decDigits n ++ chDot :: r) = (n, chDot :: r) := by
  obtain ⟨hall, hval, hhead, _⟩ := decDigits_table n h
  have hall' : ∀ c ∈ decDigits n, (digitVal 10 c).isSome = true := by simpa [List.all_eq_true] using hall
  by_cases h0 : n = 0
  · subst h0
    have e : decDigits 0 = [48] := by decide
    have d8 : digitVal 8 48 = some 0 := by decide
    have x1 : ¬ (chDot = 120 ∨ chDot = 88) := by decide
    rw [e]
    cases r with
    | nil =>
      simp only [strtoul0, List.cons_append, List.nil_append, List.head?_cons, List.tail_cons, if_true]
      simp [takeDigits, d8, digitVal_dot]
    | cons h' r' =>
      simp only [strtoul0, List.cons_append, List.nil_append, List.head?_cons, List.tail_cons, if_true, x1, false_and, if_false]
      simp [takeDigits, d8, digitVal_dot]
  · obtain ⟨c, t, hc, _⟩ := decDigits_cons n h
    have hh : (decDigits n ++ chDot :: r).head? ≠ some 48 := by
      have := hhead h0
      rw [hc] at this ⊢
      simpa using this
    unfold strtoul0
    rw [if_neg hh, takeDigits_append 10 chDot r (digitVal_dot 10) _ _ hall', hval]

theorem strtoul0_octet_end : ∀ n, n < 256 → strtoul0 (decDigits n) = (n, []) := by decide +kernel

/-! ## `inet_aton ∘ inet_ntoa` -/

theorem atonLoop_dot (fuel n : Nat) (parts : List Nat) (r : Bytes) (hn : n < 256) (hp : parts.length ≤ 2) :
    atonLoop (fuel + 1) (decDigits n ++ chDot :: r) parts = atonLoop fuel r (parts ++ [n]) := by
  obtain ⟨c, t, hc, hdig⟩ := decDigits_cons n hn
  have hs := strtoul0_octet_dot n hn r
  rw [hc] at hs
  rw [hc]
  simp only [List.cons_append] at hs ⊢
  have h1 : ¬ n > 0xffffffff := by omega
  have h2 : ¬ (parts.length > 2 ∨ n > 255) := by omega
  simp only [atonLoop, hdig, hs]
  simp [h1, h2]

theorem atonLoop_end (fuel n : Nat) (parts : List Nat) (hn : n < 256) (hp : parts.length = 3) :
    atonLoop (fuel + 1) (decDigits n) parts = some (parts.map UInt8.ofNat ++ [UInt8.ofNat n]) := by
  obtain ⟨c, t, hc, hdig⟩ := decDigits_cons n hn
  have hs := strtoul0_octet_end n hn
  rw [hc] at hs
  rw [hc]
  have h1 : ¬ n > 0xffffffff := by omega
  have hm : atonMax 3 = 255 := by decide
  have h2 : ¬ n > atonMax 3 := by omega
  simp only [atonLoop, hdig, hs]
  simp [h1, hp, h2, beBytes]
  rw [Nat.mod_eq_of_lt hn]

theorem aton_dotted (a b c d : UInt8) : aton (dotted a b c d) = some [a, b, c, d] := by
  unfold aton
  have hl : ∃ k, (dotted a b c d).length + 1 = k + 4 := by
    refine ⟨(dotted a b c d).length - 3, ?_⟩
    have : 3 ≤ (dotted a b c d).length := by
      simp [dotted]; omega
    omega
  obtain ⟨k, hk⟩ := hl
  rw [hk]
  unfold dotted
  rw [atonLoop_dot _ _ _ _ a.toNat_lt (by simp), atonLoop_dot _ _ _ _ b.toNat_lt (by simp),
    atonLoop_dot _ _ _ _ c.toNat_lt (by simp), atonLoop_end _ _ _ d.toNat_lt (by simp)]
  simp

/-- **`inet_aton(inet_ntoa(b)) = b`** for every 4-byte string -/
theorem aton_ntoa (b : Bytes) (h : b.length = 4) : ∃ t, ntoa b = some t ∧ aton t = some b := by
  match b, h with
  | [a, b, c, d], _ => exact ⟨dotted a b c d, rfl, aton_dotted a b c d⟩

theorem ntoa_length (b t : Bytes) (h : ntoa b = some t) : b.length = 4 := by
  unfold ntoa at h
  split at h
  · rfl
  · simp at h

/-! ## `inet_pton(AF_INET6)`: single steps of the loop -/

theorem hexByte_hexChar : ∀ x, x < 16 → hexByte (hexChar x) = some x := by decide
theorem hexChar_ne_colon : ∀ x, x < 16 → hexChar x ≠ chColon := by decide
theorem hexByte_colon : hexByte chColon = none := by decide
theorem hexByte_dot : hexByte chDot = none := by decide
theorem hexByte_decChar : ∀ a, a < 10 → hexByte (decChar a) = some a := by decide
theorem isDigit_decChar : ∀ a, a < 10 → isDigit (decChar a) = true := by decide
theorem decChar_val : ∀ a, a < 10 → (decChar a).toNat - 48 = a := by decide
theorem isDigit_dot : isDigit chDot = false := by decide
theorem chDot_ne_colon : chDot ≠ chColon := by decide

theorem p6_hex (ch : UInt8) (src ct tp : Bytes) (cp : Option Nat) (xd val d : Nat)
    (hd : hexByte ch = some d) (hx : xd < 4) (hv : val * 16 + d ≤ 0xffff) :
    p6Loop (ch :: src) ct ⟨tp, cp, xd, val⟩ = p6Loop src ct ⟨tp, cp, xd + 1, val * 16 + d⟩ := by
  have h1 : ¬ xd = 4 := by omega
  have h2 : ¬ val * 16 + d > 0xffff := by omega
  simp only [p6Loop, hd]
  simp [h1, h2]

theorem p6_colon_group (src ct tp : Bytes) (cp : Option Nat) (xd val : Nat)
    (hx : xd ≠ 0) (hs : src ≠ []) (ht : tp.length + 2 ≤ 16) :
    p6Loop (chColon :: src) ct ⟨tp, cp, xd, val⟩ = p6Loop src src ⟨tp ++ wordBytes val, cp, 0, 0⟩ := by
  have h1 : ¬ tp.length + 2 > 16 := by omega
  have h2 : src.isEmpty = false := by cases src with | nil => exact absurd rfl hs | cons _ _ => rfl
  simp only [p6Loop, hexByte_colon]
  simp [hx, h1, h2]

theorem p6_colon_dbl (src ct tp : Bytes) (val : Nat) :
    p6Loop (chColon :: src) ct ⟨tp, none, 0, val⟩ = p6Loop src src ⟨tp, some tp.length, 0, val⟩ := by
  simp only [p6Loop, hexByte_colon]
  simp

theorem p6_dot (rest ct tp b4 : Bytes) (cp : Option Nat) (xd val : Nat) (ht : tp.length + 4 ≤ 16) (h4 : pton4 ct = some b4) :
    p6Loop (chDot :: rest) ct ⟨tp, cp, xd, val⟩ = some ⟨tp ++ b4, cp, 0, 0⟩ := by
  simp only [p6Loop, hexByte_dot]
  simp [chDot_ne_colon, ht, h4]

theorem wordBytes_eq (w w' : Nat) (h : w = w') : wordBytes w = wordBytes w' := by rw [h]

/-- a hex group followed by a colon and more text: the group is written, the loop goes on after the colon -/
theorem p6_group_colon (w : Nat) (hw : w < 65536) (rest ct tp : Bytes) (cp : Option Nat) (hr : rest ≠ [])
    (ht : tp.length + 2 ≤ 16) :
    p6Loop (hexDigits w ++ chColon :: rest) ct ⟨tp, cp, 0, 0⟩ = p6Loop rest rest ⟨tp ++ wordBytes w, cp, 0, 0⟩ := by
  unfold hexDigits
  split
  · rename_i h
    simp only [List.cons_append, List.nil_append]
    rw [p6_hex _ _ _ _ _ _ _ _ (hexByte_hexChar w h) (by omega) (by omega),
      p6_colon_group _ _ _ _ _ _ (by omega) hr ht]
    rw [wordBytes_eq (0 * 16 + w) w (by omega)]
  · split
    · rename_i h1 h2
      simp only [List.cons_append, List.nil_append]
      rw [p6_hex _ _ _ _ _ _ _ _ (hexByte_hexChar (w / 16) (by omega)) (by omega) (by omega),
        p6_hex _ _ _ _ _ _ _ _ (hexByte_hexChar (w % 16) (by omega)) (by omega) (by omega),
        p6_colon_group _ _ _ _ _ _ (by omega) hr ht]
      rw [wordBytes_eq ((0 * 16 + w / 16) * 16 + w % 16) w (by omega)]
    · split
      · rename_i h1 h2 h3
        simp only [List.cons_append, List.nil_append]
        rw [p6_hex _ _ _ _ _ _ _ _ (hexByte_hexChar (w / 256) (by omega)) (by omega) (by omega),
          p6_hex _ _ _ _ _ _ _ _ (hexByte_hexChar (w / 16 % 16) (by omega)) (by omega) (by omega),
          p6_hex _ _ _ _ _ _ _ _ (hexByte_hexChar (w % 16) (by omega)) (by omega) (by omega),
          p6_colon_group _ _ _ _ _ _ (by omega) hr ht]
        rw [wordBytes_eq (((0 * 16 + w / 256) * 16 + w / 16 % 16) * 16 + w % 16) w (by omega)]
      · rename_i h1 h2 h3
        simp only [List.cons_append, List.nil_append]
        rw [p6_hex _ _ _ _ _ _ _ _ (hexByte_hexChar (w / 4096) (by omega)) (by omega) (by omega),
          p6_hex _ _ _ _ _ _ _ _ (hexByte_hexChar (w / 256 % 16) (by omega)) (by omega) (by omega),
          p6_hex _ _ _ _ _ _ _ _ (hexByte_hexChar (w / 16 % 16) (by omega)) (by omega) (by omega),
          p6_hex _ _ _ _ _ _ _ _ (hexByte_hexChar (w % 16) (by omega)) (by omega) (by omega),
          p6_colon_group _ _ _ _ _ _ (by omega) hr ht]
        rw [wordBytes_eq ((((0 * 16 + w / 4096) * 16 + w / 256 % 16) * 16 + w / 16 % 16) * 16 + w % 16) w (by omega)]

/-- a hex group at the end of the text: it is pending when the loop ends -/
theorem p6_group_end (w : Nat) (hw : w < 65536) (ct tp : Bytes) (cp : Option Nat) :
    ∃ k, 0 < k ∧ p6Loop (hexDigits w) ct ⟨tp, cp, 0, 0⟩ = some ⟨tp, cp, k, w⟩ := by
  unfold hexDigits
  split
  · rename_i h
    refine ⟨1, by omega, ?_⟩
    rw [p6_hex _ _ _ _ _ _ _ _ (hexByte_hexChar w h) (by omega) (by omega)]
    simp [p6Loop]
  · split
    · rename_i h1 h2
      refine ⟨2, by omega, ?_⟩
      rw [p6_hex _ _ _ _ _ _ _ _ (hexByte_hexChar (w / 16) (by omega)) (by omega) (by omega),
        p6_hex _ _ _ _ _ _ _ _ (hexByte_hexChar (w % 16) (by omega)) (by omega) (by omega)]
      simp only [p6Loop, Option.some.injEq, P6.mk.injEq, true_and]
      omega
    · split
      · rename_i h1 h2 h3
        refine ⟨3, by omega, ?_⟩
        rw [p6_hex _ _ _ _ _ _ _ _ (hexByte_hexChar (w / 256) (by omega)) (by omega) (by omega),
          p6_hex _ _ _ _ _ _ _ _ (hexByte_hexChar (w / 16 % 16) (by omega)) (by omega) (by omega),
          p6_hex _ _ _ _ _ _ _ _ (hexByte_hexChar (w % 16) (by omega)) (by omega) (by omega)]
        simp only [p6Loop, Option.some.injEq, P6.mk.injEq, true_and]
        omega
      · rename_i h1 h2 h3
        refine ⟨4, by omega, ?_⟩
        rw [p6_hex _ _ _ _ _ _ _ _ (hexByte_hexChar (w / 4096) (by omega)) (by omega) (by omega),
          p6_hex _ _ _ _ _ _ _ _ (hexByte_hexChar (w / 256 % 16) (by omega)) (by omega) (by omega),
          p6_hex _ _ _ _ _ _ _ _ (hexByte_hexChar (w / 16 % 16) (by omega)) (by omega) (by omega),
          p6_hex _ _ _ _ _ _ _ _ (hexByte_hexChar (w % 16) (by omega)) (by omega) (by omega)]
        simp only [p6Loop, Option.some.injEq, P6.mk.injEq, true_and]
        omega

/-! ## groups joined by colons -/

theorem hexDigits_cons (w : Nat) (hw : w < 65536) : ∃ x tl, x < 16 ∧ hexDigits w = hexChar x :: tl := by
  unfold hexDigits
  split
  · exact ⟨w, [], by omega, rfl⟩
  · split
    · exact ⟨w / 16, _, by omega, rfl⟩
    · split
      · exact ⟨w / 256, _, by omega, rfl⟩
      · exact ⟨w / 4096, _, by omega, rfl⟩

theorem joinGroups_cons (w : Nat) (ws : List Nat) (hw : w < 65536) :
    ∃ x tl, x < 16 ∧ joinGroups (w :: ws) = hexChar x :: tl := by
  obtain ⟨x, tl, hx, e⟩ := hexDigits_cons w hw
  cases ws with
  | nil => exact ⟨x, tl, hx, by simp [joinGroups, e]⟩
  | cons w' ws' => exact ⟨x, tl ++ chColon :: joinGroups (w' :: ws'), hx, by simp [joinGroups, e]⟩

theorem joinGroups_ne_nil (w : Nat) (ws : List Nat) (hw : w < 65536) : joinGroups (w :: ws) ≠ [] := by
  obtain ⟨x, tl, _, e⟩ := joinGroups_cons w ws hw
  rw [e]; simp

theorem wordsBytes_append (a b : List Nat) : wordsBytes (a ++ b) = wordsBytes a ++ wordsBytes b := by
  induction a with
  | nil => rfl
  | cons w ws ih => simp [wordsBytes, ih]

theorem wordsBytes_length (a : List Nat) : (wordsBytes a).length = 2 * a.length := by
  induction a with
  | nil => rfl
  | cons w ws ih => simp [wordsBytes, wordBytes, ih]; omega

/-- groups, a colon, more text: all groups are written -/
theorem p6_groups_colon (R : Bytes) (hR : R ≠ []) (cp : Option Nat) :
    ∀ (pre : List Nat) (ct tp : Bytes), pre ≠ [] → (∀ w ∈ pre, w < 65536) → tp.length + 2 * pre.length ≤ 16 →
      p6Loop (joinGroups pre ++ chColon :: R) ct ⟨tp, cp, 0, 0⟩ = p6Loop R R ⟨tp ++ wordsBytes pre, cp, 0, 0⟩ := by
  intro pre
  induction pre with
  | nil => intro _ _ h; exact absurd rfl h
  | cons w ws ih =>
    intro ct tp _ hlt hlen
    have hw := hlt w (by simp)
    simp only [List.length_cons] at hlen
    cases ws with
    | nil =>
      simp only [joinGroups, wordsBytes, List.append_nil]
      exact p6_group_colon w hw R ct tp cp hR (by omega)
    | cons w' ws' =>
      have hne : joinGroups (w' :: ws') ++ chColon :: R ≠ [] := by simp
      have e : joinGroups (w :: w' :: ws') ++ chColon :: R =
          hexDigits w ++ chColon :: (joinGroups (w' :: ws') ++ chColon :: R) := by simp [joinGroups]
      rw [e, p6_group_colon w hw _ ct tp cp hne (by omega),
        ih _ _ (by simp) (fun x hx => hlt x (by simp [hx])) (by simp [wordBytes]; simp at hlen; omega)]
      simp [wordsBytes]

/-- the second half of `p6Finish`: the expansion of `::` and the length test -/
def fin6 (tp : Bytes) (cp : Option Nat) : Option Bytes :=
  match cp with
  | some c => if tp.length = 16 then none else some (tp.take c ++ List.replicate (16 - tp.length) 0 ++ tp.drop c)
  | none => if tp.length = 16 then some tp else none

/-- the loop followed by the tail of `inet_pton6` -/
def run6 (s ct : Bytes) (st : P6) : Option Bytes :=
  match p6Loop s ct st with
  | some st' => p6Finish st'
  | none => none

theorem p6Finish_pending (tp : Bytes) (cp : Option Nat) (k val : Nat) (hk : 0 < k) (ht : tp.length + 2 ≤ 16) :
    p6Finish ⟨tp, cp, k, val⟩ = fin6 (tp ++ wordBytes val) cp := by
  have h1 : ¬ tp.length + 2 > 16 := by omega
  simp only [p6Finish, hk, h1, if_true, if_false, fin6]
  cases cp <;> rfl

theorem p6Finish_idle (tp : Bytes) (cp : Option Nat) (val : Nat) : p6Finish ⟨tp, cp, 0, val⟩ = fin6 tp cp := by
  simp only [p6Finish, Nat.lt_irrefl, if_false, fin6]
  cases cp <;> rfl

/-- groups up to the end of the text -/
theorem run6_groups (cp : Option Nat) :
    ∀ (ws : List Nat) (ct tp : Bytes), ws ≠ [] → (∀ w ∈ ws, w < 65536) → tp.length + 2 * ws.length ≤ 16 →
      run6 (joinGroups ws) ct ⟨tp, cp, 0, 0⟩ = fin6 (tp ++ wordsBytes ws) cp := by
  intro ws
  induction ws with
  | nil => intro _ _ h; exact absurd rfl h
  | cons w ws ih =>
    intro ct tp _ hlt hlen
    have hw := hlt w (by simp)
    simp only [List.length_cons] at hlen
    cases ws with
    | nil =>
      obtain ⟨k, hk, e⟩ := p6_group_end w hw ct tp cp
      simp only [joinGroups, run6, e, wordsBytes, List.append_nil]
      exact p6Finish_pending tp cp k w hk (by omega)
    | cons w' ws' =>
      have hne : joinGroups (w' :: ws') ≠ [] := joinGroups_ne_nil w' ws' (hlt w' (by simp))
      have e : joinGroups (w :: w' :: ws') = hexDigits w ++ chColon :: joinGroups (w' :: ws') := by simp [joinGroups]
      have := ih (joinGroups (w' :: ws')) (tp ++ wordBytes w) (by simp) (fun x hx => hlt x (by simp [hx]))
        (by simp [wordBytes]; simp at hlen; omega)
      unfold run6 at this ⊢
      rw [e, p6_group_colon w hw _ ct tp cp hne (by omega), this]
      simp [wordsBytes]

/-! ## the strict dotted quad inside an IPv6 text -/

theorem p4_digit (a : Nat) (ha : a < 10) (src : Bytes) (done : List Nat) (cur : Nat) (saw : Bool)
    (h1 : ¬ (saw = true ∧ cur = 0)) (h2 : cur * 10 + a ≤ 255) (h3 : done.length < 4) :
    pton4Loop (decChar a :: src) done cur saw = pton4Loop src done (cur * 10 + a) true := by
  have h2' : ¬ cur * 10 + a > 255 := by omega
  have h3' : ¬ (!saw = true ∧ done.length ≥ 4) := by omega
  simp only [pton4Loop, isDigit_decChar a ha, decChar_val a ha, if_true]
  simp [h1, h2']
  intro _ hc
  omega

theorem p4_dot (src : Bytes) (done : List Nat) (cur : Nat) (h : done.length < 3) :
    pton4Loop (chDot :: src) done cur true = pton4Loop src (done ++ [cur]) 0 false := by
  have h' : ¬ done.length ≥ 3 := by omega
  simp only [pton4Loop, isDigit_dot]
  simp [h']

theorem p4_octet (n : Nat) (hn : n < 256) (rest : Bytes) (done : List Nat) (hd : done.length < 4) :
    pton4Loop (decDigits n ++ rest) done 0 false = pton4Loop rest done n true := by
  unfold decDigits
  split
  · rename_i h
    simp only [List.cons_append, List.nil_append]
    rw [p4_digit n h _ _ _ _ (by simp) (by omega) hd]
    simp
  · split
    · rename_i h1 h2
      simp only [List.cons_append, List.nil_append]
      rw [p4_digit (n / 10) (by omega) _ _ _ _ (by simp) (by omega) hd,
        p4_digit (n % 10) (by omega) _ _ _ _ (by simp; omega) (by omega) hd]
      congr 1; omega
    · rename_i h1 h2
      simp only [List.cons_append, List.nil_append]
      rw [p4_digit (n / 100) (by omega) _ _ _ _ (by simp) (by omega) hd,
        p4_digit (n / 10 % 10) (by omega) _ _ _ _ (by simp; omega) (by omega) hd,
        p4_digit (n % 10) (by omega) _ _ _ _ (by simp; omega) (by omega) hd]
      congr 1; omega

theorem pton4_dotted (a b c d : UInt8) : pton4 (dotted a b c d) = some [a, b, c, d] := by
  unfold pton4 dotted
  rw [p4_octet _ a.toNat_lt _ _ (by simp), p4_dot _ _ _ (by simp),
    p4_octet _ b.toNat_lt _ _ (by simp), p4_dot _ _ _ (by simp),
    p4_octet _ c.toNat_lt _ _ (by simp), p4_dot _ _ _ (by simp)]
  have := p4_octet d.toNat d.toNat_lt [] ([] ++ [a.toNat] ++ [b.toNat] ++ [c.toNat]) (by simp)
  rw [List.append_nil] at this
  rw [this]
  simp [pton4Loop]

/-- the first octet of a dotted quad inside an IPv6 text: its digits are read as hex digits, the dot hands the whole
current token to `inet_pton4` -/
theorem p6_octet_dot (n : Nat) (hn : n < 256) (rest ct tp b4 : Bytes) (cp : Option Nat) (ht : tp.length + 4 ≤ 16)
    (h4 : pton4 ct = some b4) :
    p6Loop (decDigits n ++ chDot :: rest) ct ⟨tp, cp, 0, 0⟩ = some ⟨tp ++ b4, cp, 0, 0⟩ := by
  unfold decDigits
  split
  · rename_i h
    simp only [List.cons_append, List.nil_append]
    rw [p6_hex _ _ _ _ _ _ _ _ (hexByte_decChar n h) (by omega) (by omega), p6_dot _ _ _ _ _ _ _ ht h4]
  · split
    · rename_i h1 h2
      simp only [List.cons_append, List.nil_append]
      rw [p6_hex _ _ _ _ _ _ _ _ (hexByte_decChar (n / 10) (by omega)) (by omega) (by omega),
        p6_hex _ _ _ _ _ _ _ _ (hexByte_decChar (n % 10) (by omega)) (by omega) (by omega), p6_dot _ _ _ _ _ _ _ ht h4]
    · rename_i h1 h2
      simp only [List.cons_append, List.nil_append]
      rw [p6_hex _ _ _ _ _ _ _ _ (hexByte_decChar (n / 100) (by omega)) (by omega) (by omega),
        p6_hex _ _ _ _ _ _ _ _ (hexByte_decChar (n / 10 % 10) (by omega)) (by omega) (by omega),
        p6_hex _ _ _ _ _ _ _ _ (hexByte_decChar (n % 10) (by omega)) (by omega) (by omega), p6_dot _ _ _ _ _ _ _ ht h4]

theorem p6_dotted (a b c d : UInt8) (tp : Bytes) (cp : Option Nat) (ht : tp.length + 4 ≤ 16) :
    p6Loop (dotted a b c d) (dotted a b c d) ⟨tp, cp, 0, 0⟩ = some ⟨tp ++ [a, b, c, d], cp, 0, 0⟩ := by
  have h4 := pton4_dotted a b c d
  have e : dotted a b c d = decDigits a.toNat ++ chDot :: (decDigits b.toNat ++ chDot :: (decDigits c.toNat ++ chDot :: decDigits d.toNat)) := rfl
  rw [e] at h4 ⊢
  exact p6_octet_dot a.toNat a.toNat_lt _ _ tp _ cp ht h4

/-! ## words of a byte string, the run of zero words -/

theorem wordBytes_pair (a b : UInt8) : wordBytes (a.toNat * 256 + b.toNat) = [a, b] := by
  have ha := a.toNat_lt
  have hb := b.toNat_lt
  have e1 : (a.toNat * 256 + b.toNat) / 256 = a.toNat := by omega
  have e2 : (a.toNat * 256 + b.toNat) % 256 = b.toNat := by omega
  simp [wordBytes, e1, e2]

theorem wordsBytes_words16 : ∀ (b : Bytes), b.length % 2 = 0 → wordsBytes (words16 b) = b
  | [], _ => rfl
  | [_], h => by simp at h
  | a :: b :: r, h => by
    have hr : r.length % 2 = 0 := by simp at h; omega
    simp only [words16, wordsBytes, wordBytes_pair, wordsBytes_words16 r hr]
    rfl

theorem words16_lt : ∀ (b : Bytes), ∀ w ∈ words16 b, w < 65536
  | [], w, h => by simp [words16] at h
  | [_], w, h => by simp [words16] at h
  | a :: b :: r, w, h => by
    simp only [words16, List.mem_cons] at h
    rcases h with h | h
    · have ha := a.toNat_lt
      have hb := b.toNat_lt
      omega
    · exact words16_lt r w h

theorem words16_length : ∀ (b : Bytes), (words16 b).length = b.length / 2
  | [] => rfl
  | [_] => by simp [words16]
  | a :: b :: r => by simp [words16, words16_length r]; omega

theorem wordsBytes_zeros (k : Nat) : wordsBytes (List.replicate k 0) = List.replicate (2 * k) 0 := by
  induction k with
  | zero => rfl
  | succ k ih =>
    have : 2 * (k + 1) = (2 * k) + 1 + 1 := by omega
    rw [List.replicate_succ, wordsBytes, ih, this, List.replicate_succ, List.replicate_succ]
    rfl

theorem zeroRun_spec (ws : List Nat) : ∃ post, ws = List.replicate (zeroRun ws) 0 ++ post := by
  induction ws with
  | nil => exact ⟨[], rfl⟩
  | cons w ws ih =>
    by_cases h : w = 0
    · obtain ⟨post, e⟩ := ih
      refine ⟨post, ?_⟩
      subst h
      simp only [zeroRun, if_true, List.replicate_succ, List.cons_append]
      rw [← e]
    · exact ⟨w :: ws, by simp [zeroRun, h]⟩

theorem bestRun_spec : ∀ (ws : List Nat) (i : Nat), 0 < (bestRun ws i).2 →
    ∃ pre post, ws = pre ++ List.replicate (bestRun ws i).2 0 ++ post ∧ (bestRun ws i).1 = i + pre.length := by
  intro ws
  induction ws with
  | nil => intro i h; simp [bestRun] at h
  | cons w ws ih =>
    intro i h
    unfold bestRun at h ⊢
    simp only at h ⊢
    split
    · obtain ⟨post, e⟩ := zeroRun_spec (w :: ws)
      exact ⟨[], post, by simpa using e, by simp⟩
    · rename_i hc
      rw [if_neg hc] at h
      obtain ⟨pre, post, e, hb⟩ := ih (i + 1) h
      refine ⟨w :: pre, post, by simp only [List.cons_append]; exact congrArg (List.cons w) e, ?_⟩
      rw [hb]; simp; omega

/-! ## `inet_pton(AF_INET6) ∘ inet_ntop(AF_INET6)` -/

def st0 : P6 := ⟨[], none, 0, 0⟩

theorem pton6_nocolon (c : UInt8) (tl : Bytes) (hc : c ≠ chColon) : pton6 (c :: tl) = run6 (c :: tl) (c :: tl) st0 := by
  simp only [pton6, hc, if_false, run6, st0]
  rfl

theorem pton6_dblcolon (tl : Bytes) : pton6 (chColon :: chColon :: tl) = run6 tl tl ⟨[], some 0, 0, 0⟩ := by
  simp only [pton6, if_true, run6]
  rw [p6_colon_dbl]
  rfl

/-- after `::` at position `tp.length`: the remaining groups (possibly none) and the expansion -/
theorem run6_after_dbl (post : List Nat) (hlt : ∀ w ∈ post, w < 65536) (tp : Bytes)
    (hlen : tp.length + 2 * post.length < 16) :
    run6 (joinGroups post) (joinGroups post) ⟨tp, some tp.length, 0, 0⟩ =
      some (tp ++ List.replicate (16 - tp.length - 2 * post.length) 0 ++ wordsBytes post) := by
  cases post with
  | nil =>
    simp only [joinGroups, run6, p6Loop, p6Finish_idle, fin6]
    have : ¬ tp.length = 16 := by simp at hlen; omega
    simp [this, wordsBytes]
  | cons w ws =>
    rw [run6_groups _ _ _ _ (by simp) hlt (by omega)]
    have hl : (tp ++ wordsBytes (w :: ws)).length = tp.length + 2 * (w :: ws).length := by
      simp [wordsBytes_length]
    have hne : ¬ (tp ++ wordsBytes (w :: ws)).length = 16 := by omega
    have e16 : 16 - (tp.length + 2 * (w :: ws).length) = 16 - tp.length - 2 * (w :: ws).length := by omega
    simp only [fin6]
    rw [if_neg hne, List.take_left' rfl, List.drop_left' rfl, hl, e16]

theorem pton6_compressed (pre post : List Nat) (hpre : ∀ w ∈ pre, w < 65536) (hpost : ∀ w ∈ post, w < 65536)
    (hlen : pre.length + post.length < 8) :
    pton6 (joinGroups pre ++ chColon :: chColon :: joinGroups post) =
      some (wordsBytes pre ++ List.replicate (16 - 2 * pre.length - 2 * post.length) 0 ++ wordsBytes post) := by
  cases pre with
  | nil =>
    simp only [joinGroups, List.nil_append, wordsBytes]
    rw [pton6_dblcolon]
    have := run6_after_dbl post hpost [] (by simp; omega)
    simpa using this
  | cons w ws =>
    obtain ⟨x, tl, hx, e⟩ := joinGroups_cons w ws (hpre w (by simp))
    have hl := wordsBytes_length (w :: ws)
    have key : run6 (joinGroups (w :: ws) ++ chColon :: chColon :: joinGroups post)
        (joinGroups (w :: ws) ++ chColon :: chColon :: joinGroups post) st0 =
        some (wordsBytes (w :: ws) ++ List.replicate (16 - 2 * (w :: ws).length - 2 * post.length) 0 ++ wordsBytes post) := by
      unfold run6 st0
      rw [p6_groups_colon (chColon :: joinGroups post) (by simp) none (w :: ws) _ [] (by simp) hpre (by simp at hlen ⊢; omega)]
      rw [p6_colon_dbl]
      have := run6_after_dbl post hpost ([] ++ wordsBytes (w :: ws)) (by simp [hl] at hlen ⊢; omega)
      unfold run6 at this
      rw [this]
      simp [hl]
    rw [e] at key ⊢
    simp only [List.cons_append] at key ⊢
    rw [pton6_nocolon _ _ (hexChar_ne_colon x hx)]
    exact key

theorem pton6_full (ws : List Nat) (hlt : ∀ w ∈ ws, w < 65536) (hlen : ws.length = 8) :
    pton6 (joinGroups ws) = some (wordsBytes ws) := by
  cases ws with
  | nil => simp at hlen
  | cons w ws' =>
    obtain ⟨x, tl, hx, e⟩ := joinGroups_cons w ws' (hlt w (by simp))
    have key := run6_groups none (w :: ws') (joinGroups (w :: ws')) [] (by simp) hlt (by simp at hlen ⊢; omega)
    have hl : (wordsBytes (w :: ws')).length = 16 := by rw [wordsBytes_length, hlen]
    simp only [List.nil_append, fin6, hl, if_true] at key
    rw [e] at key ⊢
    rw [pton6_nocolon _ _ (hexChar_ne_colon x hx)]
    exact key

theorem pton6_v4compat (p q r s : UInt8) :
    pton6 (chColon :: chColon :: dotted p q r s) = some (List.replicate 12 0 ++ [p, q, r, s]) := by
  rw [pton6_dblcolon]
  simp only [run6, p6_dotted p q r s [] (some 0) (by simp), p6Finish_idle]
  simp [fin6]

theorem wordBytes_ffff : wordBytes 0xffff = [255, 255] := by decide

theorem pton6_v4mapped (p q r s : UInt8) :
    pton6 (chColon :: chColon :: (hexDigits 0xffff ++ chColon :: dotted p q r s)) =
      some (List.replicate 10 0 ++ [255, 255] ++ [p, q, r, s]) := by
  rw [pton6_dblcolon]
  have hne : dotted p q r s ≠ [] := by
    obtain ⟨c, t, hc, _⟩ := decDigits_cons p.toNat p.toNat_lt
    simp [dotted, hc]
  unfold run6
  rw [p6_group_colon 0xffff (by omega) _ _ [] (some 0) hne (by simp)]
  rw [p6_dotted p q r s ([] ++ wordBytes 0xffff) (some 0) (by simp [wordBytes])]
  simp only [p6Finish_idle, wordBytes_ffff]
  simp [fin6]

theorem list3 (l : List Nat) (h : l.length = 3) : ∃ x y z, l = [x, y, z] := by
  match l, h with
  | [x, y, z], _ => exact ⟨x, y, z, rfl⟩

theorem drop12 (b : Bytes) (h : b.length = 16) : ∃ p q r s, b.drop 12 = [p, q, r, s] := by
  have hl : (b.drop 12).length = 4 := by simp [h]
  match hd : b.drop 12, hl with
  | [p, q, r, s], _ => exact ⟨p, q, r, s, rfl⟩

/-- **`inet_pton(AF_INET6, inet_ntop(AF_INET6, b)) = b`** for every 16-byte string -/
theorem pton6_ntop6 (b : Bytes) (h : b.length = 16) : ∃ t, ntop6 b = some t ∧ pton6 t = some b := by
  have hwb : wordsBytes (words16 b) = b := wordsBytes_words16 b (by omega)
  have hlt := words16_lt b
  have hwl : (words16 b).length = 8 := by rw [words16_length, h]
  obtain ⟨p, q, r, s, hd⟩ := drop12 b h
  have hspec := bestRun_spec (words16 b) 0
  unfold ntop6
  rw [if_neg (by omega)]
  simp only []
  generalize bestRun (words16 b) 0 = br at hspec ⊢
  split
  · -- no run of two zero groups
    exact ⟨_, rfl, by rw [pton6_full _ hlt hwl, hwb]⟩
  · rename_i hrun
    obtain ⟨pre, post, e, hb⟩ := hspec (by omega)
    simp only [Nat.zero_add] at hb
    have hlen : pre.length + br.2 + post.length = 8 := by
      have := congrArg List.length e
      simp at this; omega
    have hpre : ∀ w ∈ pre, w < 65536 := fun w hw => hlt w (by rw [e]; simp [hw])
    have hpost : ∀ w ∈ post, w < 65536 := fun w hw => hlt w (by rw [e]; simp [hw])
    have hbytes : b = wordsBytes pre ++ List.replicate (2 * br.2) 0 ++ wordsBytes post := by
      have := congrArg wordsBytes e
      rw [hwb, wordsBytes_append, wordsBytes_append, wordsBytes_zeros] at this
      exact this
    split
    · -- `::a.b.c.d`
      rename_i hc
      have hp0 : pre = [] := List.eq_nil_of_length_eq_zero (by omega)
      rw [hc.2] at hbytes hlen
      subst hp0
      simp only [wordsBytes, List.nil_append] at hbytes
      have hdp : b.drop 12 = wordsBytes post := by
        rw [hbytes]; simp
      rw [hd]
      refine ⟨_, rfl, ?_⟩
      rw [pton6_v4compat, hbytes, ← hdp, hd]
    · split
      · -- `::ffff:a.b.c.d`
        rename_i _ hc
        have hp0 : pre = [] := List.eq_nil_of_length_eq_zero (by omega)
        rw [hc.2.1] at hbytes hlen e
        subst hp0
        simp only [wordsBytes, List.nil_append] at hbytes e
        obtain ⟨w5, w6, w7, hpost3⟩ := list3 post (by simp at hlen; omega)
        subst hpost3
        have h5 : w5 = 0xffff := by
          have := hc.2.2
          rw [e] at this
          simpa using this
        subst h5
        have hdp : b.drop 12 = wordsBytes [w6, w7] := by
          rw [hbytes]; simp [wordsBytes, wordBytes_ffff]
        rw [hd]
        refine ⟨_, rfl, ?_⟩
        rw [pton6_v4mapped, hbytes, ← hd, hdp]
        simp [wordsBytes, wordBytes_ffff]
      · -- the general `::` form
        refine ⟨_, rfl, ?_⟩
        have ht : (words16 b).take br.1 = pre := by
          rw [hb, e, List.append_assoc, List.take_left' rfl]
        have hdr : (words16 b).drop (br.1 + br.2) = post := by
          rw [hb, e]
          exact List.drop_left' (by simp)
        rw [ht, hdr, pton6_compressed pre post hpre hpost (by omega)]
        have : 16 - 2 * pre.length - 2 * post.length = 2 * br.2 := by omega
        rw [this]
        exact congrArg some hbytes.symm

theorem ntop6_length (b t : Bytes) (h : ntop6 b = some t) : b.length = 16 := by
  unfold ntop6 at h
  split at h
  · simp at h
  · rename_i hl; simpa using hl

/-! ## whatever the readers accept has the right length -/

theorem beBytes_len (k n : Nat) : (beBytes k n).length = k := by
  induction k with
  | zero => rfl
  | succ k ih => simp [beBytes, ih]

theorem atonLoop_length : ∀ (fuel : Nat) (s : Bytes) (parts : List Nat) (b : Bytes), parts.length ≤ 3 →
    atonLoop fuel s parts = some b → b.length = 4 := by
  intro fuel
  induction fuel with
  | zero => intro s parts b _ h; simp [atonLoop] at h
  | succ fuel ih =>
    intro s parts b hp h
    unfold atonLoop at h
    cases s with
    | nil => simp at h
    | cons c tl =>
      simp only at h
      split at h
      · simp at h
      · split at h
        · simp at h
        · split at h
          · split at h
            · simp at h
            · simp only [Option.some.injEq] at h
              subst h
              simp [beBytes_len]; omega
          · split at h
            · split at h
              · simp at h
              · rename_i hg
                exact ih _ _ _ (by simp; omega) h
            · split at h
              · simp at h
              · split at h
                · simp at h
                · simp only [Option.some.injEq] at h
                  subst h
                  simp [beBytes_len]; omega

theorem aton_length (t b : Bytes) (h : aton t = some b) : b.length = 4 :=
  atonLoop_length _ t [] b (by simp) h

theorem pton4Loop_length : ∀ (s : Bytes) (done : List Nat) (cur : Nat) (saw : Bool) (b : Bytes),
    pton4Loop s done cur saw = some b → b.length = 4 := by
  intro s
  induction s with
  | nil =>
    intro done cur saw b h
    simp only [pton4Loop] at h
    split at h
    · rename_i hc
      simp only [Option.some.injEq] at h
      subst h
      simp [hc.2]
    · simp at h
  | cons ch src ih =>
    intro done cur saw b h
    simp only [pton4Loop] at h
    split at h
    · split at h
      · simp at h
      · split at h
        · simp at h
        · split at h
          · simp at h
          · exact ih _ _ _ _ h
    · split at h
      · split at h
        · simp at h
        · exact ih _ _ _ _ h
      · simp at h

/-- the invariant of the `inet_pton6` loop: never more than 16 bytes, `::` inside what is written -/
def P6.Inv (st : P6) : Prop := st.tp.length ≤ 16 ∧ ∀ c, st.colonp = some c → c ≤ st.tp.length

theorem p6Loop_inv : ∀ (s ct : Bytes) (st st' : P6), st.Inv → p6Loop s ct st = some st' → st'.Inv := by
  intro s
  induction s with
  | nil => intro ct st st' hi h; simp only [p6Loop, Option.some.injEq] at h; subst h; exact hi
  | cons ch src ih =>
    intro ct st st' hi h
    simp only [p6Loop] at h
    split at h
    · split at h
      · simp at h
      · split at h
        · simp at h
        · refine ih _ _ _ ?_ h
          exact ⟨hi.1, hi.2⟩
    · split at h
      · split at h
        · split at h
          · simp at h
          · refine ih _ _ _ ?_ h
            refine ⟨hi.1, ?_⟩
            intro c hc
            simp only [Option.some.injEq] at hc
            show c ≤ st.tp.length
            omega
        · split at h
          · simp at h
          · split at h
            · simp at h
            · rename_i hl
              refine ih _ _ _ ?_ h
              refine ⟨?_, ?_⟩
              · simp [wordBytes]; omega
              · intro c hc
                have := hi.2 c hc
                simp; omega
      · split at h
        · rename_i hd
          split at h
          · rename_i b4 h4
            simp only [Option.some.injEq] at h
            subst h
            have hl : b4.length = 4 := pton4Loop_length _ _ _ _ _ h4
            refine ⟨?_, ?_⟩
            · simp [hl]; omega
            · intro c hc
              have := hi.2 c hc
              simp; omega
          · simp at h
        · simp at h

theorem p6Finish_length (st : P6) (hi : st.Inv) (b : Bytes) (h : p6Finish st = some b) : b.length = 16 := by
  unfold p6Finish at h
  simp only at h
  split at h
  · simp at h
  · rename_i tp htp
    have htp' : tp.length ≤ 16 ∧ st.tp.length ≤ tp.length := by
      split at htp
      · split at htp
        · simp at htp
        · simp only [Option.some.injEq] at htp
          subst htp
          simp [wordBytes]; omega
      · simp only [Option.some.injEq] at htp
        subst htp
        exact ⟨hi.1, Nat.le_refl _⟩
    split at h
    · rename_i cp hcp
      split at h
      · simp at h
      · simp only [Option.some.injEq] at h
        subst h
        have := hi.2 cp hcp
        simp
        omega
    · split at h
      · rename_i hl
        simp only [Option.some.injEq] at h
        subst h
        exact hl
      · simp at h

theorem pton6_length (t b : Bytes) (h : pton6 t = some b) : b.length = 16 := by
  unfold pton6 at h
  cases t with
  | nil => simp at h
  | cons c r =>
    simp only at h
    split at h
    · simp at h
    · split at h
      · rename_i st hst
        exact p6Finish_length st (p6Loop_inv _ _ _ st ⟨by simp, by simp⟩ hst) b h
      · simp at h

end Pyc.Pool
