import Mathlib.Data.Rat.Floor
import Mathlib.Tactic.Linarith
import Mathlib.Tactic.Ring
import Mathlib.Tactic.FieldSimp
import Mathlib.Algebra.BigOperators.Group.Finset.Basic
import Pyc.Model.Output

/-! The fee functions of utils.py equal the ledger formula in exact rational arithmetic. -/

namespace Pyc
open Finset

def Rat'.toRat (r : Rat') : ℚ := (r.num : ℚ) / (r.den : ℚ)

theorem ceilMul_eq (n : ℤ) (r : Rat') : ceilMul n r = ⌈(n : ℚ) * r.toRat⌉ := by
  unfold ceilMul Rat'.toRat
  rw [← Rat.ceil_intCast_div_natCast]
  congr 1
  push_cast
  ring

/-- the tiered reference-script price: full tiers of `r` bytes at `b, b·m, b·m², …` and the rest at the next price -/
def tierClosed (b m : ℚ) (r : ℕ) (size : ℤ) (k : ℕ) : ℚ :=
  (∑ i ∈ range k, b * m ^ i * r) + b * m ^ k * ((size : ℚ) - k * r)

theorem tierClosed_succ (b m : ℚ) (r : ℕ) (size : ℤ) (k : ℕ) :
    b * r + tierClosed (b * m) m r (size - r) k = tierClosed b m r size (k + 1) := by
  unfold tierClosed
  rw [sum_range_succ']
  have : ∑ i ∈ range k, b * m * m ^ i * (r : ℚ) = ∑ i ∈ range k, b * m ^ (i + 1) * (r : ℚ) := by
    apply sum_congr rfl; intro i _; ring
  rw [this]
  push_cast
  ring

/-- invariant of the `while scripts_size > r` loop -/
theorem tierLoop_spec (fuel : ℕ) (size : ℤ) (r : ℕ) (b m total : Rat') (k : ℕ)
    (hb : 0 < b.den) (hm : 0 < m.den) (ht : 0 < total.den)
    (hk1 : (k : ℤ) * r < size) (hk2 : size ≤ ((k : ℤ) + 1) * r) (hf : k < fuel) :
    (tierLoop fuel size r b m total).toRat = total.toRat + tierClosed b.toRat m.toRat r size k
    ∧ 0 < (tierLoop fuel size r b m total).den := by
  induction fuel generalizing size b total k with
  | zero => omega
  | succ fuel ih =>
    have hbq : (b.den : ℚ) ≠ 0 := by positivity
    have htq : (total.den : ℚ) ≠ 0 := by positivity
    have hmq : (m.den : ℚ) ≠ 0 := by positivity
    unfold tierLoop
    by_cases hs : size > (r : ℤ)
    · simp only [hs, if_true]
      -- at least one full tier: k ≥ 1
      obtain ⟨k', rfl⟩ : ∃ k', k = k' + 1 := by
        cases k with
        | zero => simp at hk2; omega
        | succ k' => exact ⟨k', rfl⟩
      have h1 : (k' : ℤ) * r < size - r := by push_cast at hk1; linarith
      have h2 : size - r ≤ ((k' : ℤ) + 1) * r := by push_cast at hk2; linarith
      have := ih (size - r) ⟨b.num * m.num, b.den * m.den⟩ ⟨total.num * b.den + b.num * r * total.den, total.den * b.den⟩ k'
        (Nat.mul_pos hb hm) (Nat.mul_pos ht hb) h1 h2 (by omega)
      refine ⟨?_, this.2⟩
      rw [this.1, ← tierClosed_succ]
      have e1 : (Rat'.toRat ⟨b.num * m.num, b.den * m.den⟩) = b.toRat * m.toRat := by
        unfold Rat'.toRat; push_cast; field_simp
      have e2 : (Rat'.toRat ⟨total.num * b.den + b.num * r * total.den, total.den * b.den⟩)
          = total.toRat + b.toRat * r := by
        unfold Rat'.toRat; push_cast; field_simp
      rw [e1, e2]; ring
    · simp only [hs, if_false]
      have hk0 : k = 0 := by
        by_contra hne
        have : 1 ≤ k := Nat.one_le_iff_ne_zero.2 hne
        have : (r : ℤ) ≤ (k : ℤ) * r := by
          have : (1 : ℤ) ≤ (k : ℤ) := by exact_mod_cast this
          nlinarith [Int.natCast_nonneg r]
        omega
      subst hk0
      refine ⟨?_, Nat.mul_pos ht hb⟩
      unfold tierClosed Rat'.toRat
      simp only [range_zero, sum_empty, pow_zero, Nat.cast_zero, zero_mul, sub_zero, mul_one, zero_add]
      push_cast; field_simp

end Pyc
