import Pyc.Model.WitnessCodec
import Pyc.Spec.WitnessCodec
import Pyc.Proofs.CustomCodec
import Pyc.Proofs.Ids
import Pyc.Proofs.Backends

/-! Lemmas for the witness-side codecs of `Model/WitnessCodec.lean` (properties: `Props/C01_WitnessCodec.lean`,
`Props/C02_WitnessCodec.lean`). -/

set_option linter.unusedSimpArgs false
set_option linter.unusedVariables false

namespace Pyc.WitnessCodec
open Pyc Pyc.Cbor Pyc.Codec Pyc.Custom

/-! ## primitives -/

/-- the primitives `Prim.ofItem` produces: `other` holds neither an int nor a byte string -/
def Prim.Canon : Prim → Prop
  | .other x => itemInt? x = Option.none ∧ itemBytes? x = Option.none
  | _ => True

theorem Prim.ofItem_toItem (p : Prim) (h : p.Canon) : Prim.ofItem p.toItem = p := by
  cases p with
  | int i => simp only [Prim.toItem, Prim.ofItem, itemInt_ofInt_all]
  | bytes b => simp only [Prim.toItem, Prim.ofItem, itemInt?, itemBytes?]
  | other x =>
    obtain ⟨h1, h2⟩ := h
    simp only [Prim.toItem, Prim.ofItem, h1, h2]

theorem Prim.canon_ofItem (x : Item) : (Prim.ofItem x).Canon := by
  unfold Prim.ofItem
  split
  · trivial
  · split
    · trivial
    · rename_i h1 _ h2
      exact ⟨h1, h2⟩

/-! ## keys -/

theorem ofHex_toHex (b : Bytes) : ofHex (toHex b) = some b := by
  have h : toHex b = String.ofList (Backends.hexChars b) := rfl
  rw [h, ofHex, String.toList_ofList]
  exact Backends.ofHexList_hexChars b

theorem pyOr_some (s d : String) : pyOr (some s) d = if s = "" then d else s := rfl
theorem pyOr_none (d : String) : pyOr Option.none d = d := rfl

theorem pyOr_pyOr (a : Option String) (d : String) : pyOr (some (pyOr a d)) d = pyOr a d := by
  cases a with
  | none => rw [pyOr_none, pyOr_some]; simp
  | some s =>
    rw [pyOr_some s]
    by_cases h : s = ""
    · rw [if_pos h, pyOr_some]; simp
    · rw [if_neg h, pyOr_some, if_neg h]

theorem mkKey_idem (c : KeyClass) (p : Bytes) (t d : Option String) :
    mkKey c p (some (mkKey c p t d).keyType) (some (mkKey c p t d).description) = mkKey c p t d := by
  simp only [mkKey, pyOr_pyOr]

theorem decKey_keyItem (c : KeyClass) (k : KeyObj) : decKey c (keyItem k) = .ok (mkKey c k.payload) := rfl

theorem jobj_get_type (k : KeyObj) : JObj.get? (toJson k) "type" = some (.str k.keyType) := by
  simp only [toJson, JObj.get?, List.foldl]
  simp

theorem jobj_get_description (k : KeyObj) : JObj.get? (toJson k) "description" = some (.str k.description) := by
  simp only [toJson, JObj.get?, List.foldl]
  simp

theorem jobj_get_cborHex (k : KeyObj) : JObj.get? (toJson k) "cborHex" = some (.str (toHex (keyCbor k))) := by
  simp only [toJson, JObj.get?, List.foldl]
  simp

/-- `from_json` on what `to_json` wrote, for any reading class `c` -/
theorem fromJson_toJson (c : KeyClass) (validate : Bool) (k : KeyObj) (hp : k.payload.length < 2 ^ 64)
    (hv : validate = true → k.keyType = c.keyType) :
    fromJson c validate (toJson k) = .ok (mkKey c k.payload (some k.keyType) (some k.description)) := by
  have hd : decodeAll (keyCbor k) = some (.bytes k.payload) := decodeAll_encode (.bytes k.payload) hp
  cases validate with
  | false =>
    simp only [fromJson, jobj_get_type, jobj_get_description, jobj_get_cborHex, ofHex_toHex, hd, decKey, itemBytes?,
      jArg, mkKey, Bool.false_eq_true, if_false]
  | true =>
    have := hv rfl
    simp only [fromJson, jobj_get_type, jobj_get_description, jobj_get_cborHex, ofHex_toHex, hd, decKey, itemBytes?,
      jArg, mkKey, this, if_true]

theorem fromJson_badType (c : KeyClass) (k : KeyObj) (h : k.keyType ≠ c.keyType) :
    fromJson c true (toJson k) = .badType := by
  have h' : ¬ (JVal.str k.keyType = JVal.str c.keyType) := by
    intro e; injection e with e; exact h e
  simp only [fromJson, jobj_get_type, if_true, h', if_false]

/-! ## vkey witnesses -/

theorem decVKW_vkwItem (w : VKW) (h : w.sig.Canon) : decVKW (vkwItem w) = .ok (decodedVKW w) := by
  simp only [vkwItem, decVKW, decKey_keyItem, Res.bind, Prim.ofItem_toItem _ h, mkVKW, decodedVKW, mkKey,
    KeyClass.isExtVerification]
  simp

theorem vkwItem_decodedVKW (w : VKW) : vkwItem (decodedVKW w) = vkwItem w := rfl

theorem decodedVKW_idem (w : VKW) : decodedVKW (decodedVKW w) = decodedVKW w := rfl

/-! ## execution units, redeemers -/

theorem decTag_code (t : RTag) : decTag (.uint t.code) = .ok t := by
  cases t <;> rfl

theorem decExUnits_exItem (e : ExUnits) : decExUnits (exItem e) = .ok e := by
  simp only [exItem, decExUnits, listElems?, itemInt_ofInt_all]

theorem decOptEx_item (e : Option ExUnits) :
    decOptEx (match e with | some e => exItem e | Option.none => .simple 22) = .ok e := by
  cases e with
  | none => simp [decOptEx, decExUnits, listElems?]
  | some e => simp only [decOptEx, decExUnits_exItem]

theorem decRedeemer_item (L : Leaf R) (hL : L.Lawful) (r : Redeemer R) (t : RTag) (ht : r.tag = some t)
    (hc : r.index.Canon) : decRedeemer L (redeemerItem L r) = .ok r := by
  obtain ⟨tg, ix, d, ex⟩ := r
  simp only at ht hc
  subst ht
  cases ex with
  | none =>
    have he := decOptEx_item Option.none
    simp only at he
    simp only [redeemerItem, decRedeemer, hL.rt, Res.bind, decTag_code, Prim.ofItem_toItem _ hc, he]
  | some e =>
    have he := decOptEx_item (some e)
    simp only at he
    simp only [redeemerItem, decRedeemer, hL.rt, Res.bind, decTag_code, Prim.ofItem_toItem _ hc, he]

theorem decRedeemer_untagged (L : Leaf R) (hL : L.Lawful) (r : Redeemer R) (ht : r.tag = Option.none) :
    decRedeemer L (redeemerItem L r) = .deser := by
  obtain ⟨tg, ix, d, ex⟩ := r
  simp only at ht
  subst ht
  cases ex with
  | none =>
    have he := decOptEx_item Option.none
    simp only at he
    simp only [redeemerItem, decRedeemer, hL.rt, Res.bind, decTag, itemInt?, he]
  | some e =>
    have he := decOptEx_item (some e)
    simp only at he
    simp only [redeemerItem, decRedeemer, hL.rt, Res.bind, decTag, itemInt?, he]

/-- what the list form asks of its elements -/
def RedeemerOk (r : Redeemer R) : Prop := r.tag.isSome = true ∧ r.index.Canon

theorem decList_redeemers (L : Leaf R) (hL : L.Lawful) (rs : List (Redeemer R)) (h : ∀ r ∈ rs, RedeemerOk r) :
    decList (decRedeemer L) (rs.map (redeemerItem L)) = .ok rs := by
  induction rs with
  | nil => rfl
  | cons r rs ih =>
    have hr := h r (by simp)
    obtain ⟨h1, h2⟩ := hr
    obtain ⟨t, ht⟩ := Option.isSome_iff_exists.1 h1
    simp only [List.map_cons, decList, decRedeemer_item L hL r t ht h2,
      ih (fun r' hr' => h r' (List.mem_cons_of_mem _ hr'))]

theorem decRKeyRaw_item (k : RKey) : decRKeyRaw (rkeyItem k) = .ok (k.tag, .int k.index) := by
  simp only [rkeyItem, decRKeyRaw, decTag_code, Res.bind, Prim.ofItem, itemInt_ofInt_all]

theorem decRValue_item (L : Leaf R) (hL : L.Lawful) (v : RValue R) : decRValue L (rvalueItem L v) = .ok v := by
  simp only [rvalueItem, decRValue, hL.rt, Res.bind, decExUnits_exItem]

theorem rmSet_fresh (m : RMap R) (k : RKey) (v : RValue R) (h : k ∉ m.map (·.1)) : rmSet m k v = m ++ [(k, v)] := by
  have : m.any (fun p => decide (p.1 = k)) = false := by
    rw [List.any_eq_false]
    intro p hp
    simp only [decide_eq_true_eq]
    intro e
    exact h (e ▸ List.mem_map_of_mem hp)
  simp only [rmSet, this, Bool.false_eq_true, if_false]

theorem decRMapLoop_items (L : Leaf R) (hL : L.Lawful) (acc m : RMap R) (hn : ((acc ++ m).map (·.1)).Nodup) :
    decRMapLoop L acc (m.map (fun p => (rkeyItem p.1, rvalueItem L p.2))) = .ok (acc ++ m) := by
  induction m generalizing acc with
  | nil => simp [decRMapLoop]
  | cons p m ih =>
    have hfresh : p.1 ∉ acc.map (·.1) := by
      intro hmem
      rw [List.map_append, List.map_cons] at hn
      have := (List.nodup_append.1 hn).2.2 p.1 hmem p.1 (by simp)
      exact this rfl
    have hstep : rmSet acc ⟨p.1.tag, p.1.index⟩ p.2 = acc ++ [p] := rmSet_fresh acc p.1 p.2 hfresh
    have hn' : (((acc ++ [p]) ++ m).map (·.1)).Nodup := by
      rw [List.append_assoc]; exact hn
    have := ih (acc ++ [p]) hn'
    rw [List.append_assoc] at this
    simp only [List.map_cons, decRMapLoop, decRKeyRaw_item, decRValue_item L hL, Res.bind, hstep]
    exact this

theorem sortPairs_rmap (L : Leaf R) (m : RMap R) :
    sortPairs (m.map (fun p => (rkeyItem p.1, rvalueItem L p.2))) =
      (rmapSorted m).map (fun p => (rkeyItem p.1, rvalueItem L p.2)) := by
  unfold sortPairs rmapSorted
  exact (map_isort (fun (a b : RKey × RValue R) => lenLexLe (encode (rkeyItem a.1)) (encode (rkeyItem b.1)))
    (fun (a b : Item × Item) => lenLexLe (encode a.1) (encode b.1))
    (fun p => (rkeyItem p.1, rvalueItem L p.2)) (fun a b => rfl) m).symm

theorem rmapSorted_perm (m : RMap R) : (rmapSorted m).Perm m := isort_perm _ _

theorem rmapSorted_sorted (m : RMap R) :
    (rmapSorted m).Pairwise (fun a b => lenLexLe (encode (rkeyItem a.1)) (encode (rkeyItem b.1)) = true) := by
  exact isort_pairwise (fun (a b : RKey × RValue R) => lenLexLe (encode (rkeyItem a.1)) (encode (rkeyItem b.1)))
    (fun a b c => lenLexLe_trans _ _ _) (fun a b => lenLexLe_total _ _) m

theorem rmapSorted_idem (m : RMap R) : rmapSorted (rmapSorted m) = rmapSorted m := by
  exact isort_of_sorted _ _ (rmapSorted_sorted m)

theorem decRMap_item (L : Leaf R) (hL : L.Lawful) (m : RMap R) (hn : (m.map (·.1)).Nodup) :
    decRMap L (rmapItem L m) = .ok (rmapSorted m) := by
  have hn' : ((([] : RMap R) ++ rmapSorted m).map (·.1)).Nodup := by
    rw [List.nil_append]
    exact ((rmapSorted_perm m).map _).nodup_iff.2 hn
  have := decRMapLoop_items L hL [] (rmapSorted m) hn'
  simp only [rmapItem, sortPairs_rmap, decRMap]
  exact this

theorem rmapItem_sorted (L : Leaf R) (m : RMap R) : rmapItem L (rmapSorted m) = rmapItem L m := by
  simp only [rmapItem, sortPairs_rmap, rmapSorted_idem]

/-- a later entry under a key that is already there replaces the value and keeps the place -/
theorem decRMapLoop_duplicate (L : Leaf R) (hL : L.Lawful) (k : RKey) (v1 v2 : RValue R) :
    decRMapLoop L [] [(rkeyItem k, rvalueItem L v1), (rkeyItem k, rvalueItem L v2)] = .ok [(k, v2)] := by
  simp only [decRMapLoop, decRKeyRaw_item, decRValue_item L hL, Res.bind, rmSet]
  simp

def RedeemersOk : Redeemers R → Prop
  | .list rs => ∀ r ∈ rs, RedeemerOk r
  | .map m => (m.map (·.1)).Nodup

theorem decRedeemersOpt_item (L : Leaf R) (hL : L.Lawful) (rs : Redeemers R) (h : RedeemersOk rs) :
    decRedeemersOpt L (redeemersItem L rs) = .ok (some (decodedRedeemers rs)) := by
  cases rs with
  | list rs =>
    simp only [redeemersItem, decRedeemersOpt, listElems?, decList_redeemers L hL rs h, decodedRedeemers]
  | map m =>
    have h1 : redeemersItem L (.map m) = .map (sortPairs (m.map (fun p => (rkeyItem p.1, rvalueItem L p.2)))) := rfl
    have h2 := decRMap_item L hL m h
    rw [rmapItem] at h2
    rw [h1]
    simp only [decRedeemersOpt, listElems?, h2, decodedRedeemers]

theorem redeemersItem_decoded (L : Leaf R) (rs : Redeemers R) :
    redeemersItem L (decodedRedeemers rs) = redeemersItem L rs := by
  cases rs with
  | list rs => rfl
  | map m => exact rmapItem_sorted L m

/-! ## ordered sets -/

section dedup
variable {α κ : Type} [DecidableEq κ]

theorem dedupAux_keys_nodup (key : α → κ) (seen : List κ) (xs : List α) :
    ((dedupAux key seen xs).map key).Nodup ∧ ∀ x ∈ dedupAux key seen xs, key x ∉ seen := by
  induction xs generalizing seen with
  | nil => simp [dedupAux]
  | cons x xs ih =>
    unfold dedupAux
    by_cases h : key x ∈ seen
    · rw [if_pos h]; exact ih seen
    · rw [if_neg h]
      obtain ⟨h1, h2⟩ := ih (key x :: seen)
      refine ⟨?_, ?_⟩
      · rw [List.map_cons, List.nodup_cons]
        refine ⟨?_, h1⟩
        intro hm
        obtain ⟨y, hy, hk⟩ := List.mem_map.1 hm
        exact h2 y hy (by rw [hk]; exact List.mem_cons_self)
      · intro y hy
        rcases List.mem_cons.1 hy with rfl | hy
        · exact h
        · intro hs
          exact h2 y hy (List.mem_cons_of_mem _ hs)

theorem dedupAux_of_nodup (key : α → κ) (seen : List κ) (xs : List α) (hn : (xs.map key).Nodup)
    (hs : ∀ x ∈ xs, key x ∉ seen) : dedupAux key seen xs = xs := by
  induction xs generalizing seen with
  | nil => rfl
  | cons x xs ih =>
    unfold dedupAux
    rw [List.map_cons, List.nodup_cons] at hn
    rw [if_neg (hs x List.mem_cons_self)]
    congr 1
    apply ih _ hn.2
    intro y hy hm
    rcases List.mem_cons.1 hm with e | hm
    · exact hn.1 (e ▸ List.mem_map_of_mem hy)
    · exact hs y (List.mem_cons_of_mem _ hy) hm

theorem dedupBy_of_nodup (key : α → κ) (xs : List α) (hn : (xs.map key).Nodup) : dedupBy key xs = xs :=
  dedupAux_of_nodup key [] xs hn (by simp)

theorem dedupBy_nodup (key : α → κ) (xs : List α) : ((dedupBy key xs).map key).Nodup :=
  (dedupAux_keys_nodup key [] xs).1

theorem dedupBy_idem (key : α → κ) (xs : List α) : dedupBy key (dedupBy key xs) = dedupBy key xs :=
  dedupBy_of_nodup key _ (dedupBy_nodup key xs)

theorem dedupBy_ne_nil (key : α → κ) (xs : List α) (h : xs ≠ []) : dedupBy key xs ≠ [] := by
  cases xs with
  | nil => exact absurd rfl h
  | cons x xs => simp [dedupBy, dedupAux]

theorem dedupBy_map_of_key_eq (key : α → κ) (f : α → α) (hf : ∀ x, key (f x) = key x) (xs : List α) :
    dedupBy key (xs.map f) = (dedupBy key xs).map f := by
  have aux : ∀ (seen : List κ), dedupAux key seen (xs.map f) = (dedupAux key seen xs).map f := by
    induction xs with
    | nil => intro seen; rfl
    | cons x xs ih =>
      intro seen
      simp only [List.map_cons, dedupAux, hf]
      by_cases h : key x ∈ seen
      · simp only [if_pos h]; exact ih seen
      · simp only [if_neg h, List.map_cons, ih]
  exact aux []

end dedup

/-- an element codec that restores what it wrote, up to a normal form, on the elements that satisfy `P` -/
structure Elem.Lawful {α κ : Type} (E : Elem α κ) (nf : α → α) (P : α → Prop) : Prop where
  list : ∀ x, P x → E.dList (E.enc x) = .ok (nf x)
  set : ∀ x, P x → E.dSet (E.enc x) = .ok (nf x)

theorem decList_map {α : Type} (d : Item → Res α) (enc : α → Item) (nf : α → α) (xs : List α)
    (h : ∀ x ∈ xs, d (enc x) = .ok (nf x)) : decList d (xs.map enc) = .ok (xs.map nf) := by
  induction xs with
  | nil => rfl
  | cons x xs ih =>
    simp only [List.map_cons, decList, h x List.mem_cons_self,
      ih (fun y hy => h y (List.mem_cons_of_mem _ hy))]

def NonemptyIfTagged {α : Type} : Coll α → Prop
  | .oset true xs => xs ≠ []
  | _ => True

/-- what `decSetField` returns for the encoding of a collection: an untagged set comes back as a list, a tagged one is
rebuilt by the `OrderedSet` constructor -/
def restoredColl {α κ : Type} [DecidableEq κ] (key : α → κ) (nf : α → α) : Coll α → Coll α
  | .list xs => .list (xs.map nf)
  | .oset true xs => .oset true (dedupBy key (xs.map nf))
  | .oset false xs => .list (xs.map nf)

theorem decSetField_item {α κ : Type} [DecidableEq κ] (E : Elem α κ) (nf : α → α) (P : α → Prop)
    (hE : E.Lawful nf P) (c : Coll α) (hP : ∀ x ∈ c.elems, P x) (hne : NonemptyIfTagged c) :
    decSetField E (collItem E.enc c) = .ok (restoredColl E.key nf c) := by
  cases c with
  | list xs =>
    have hl := decList_map E.dList E.enc nf xs (fun x hx => hE.list x (hP x hx))
    simp only [collItem, decSetField, listElems?, hl, restoredColl]
  | oset t xs =>
    cases t with
    | false =>
      have hl := decList_map E.dList E.enc nf xs (fun x hx => hE.list x (hP x hx))
      simp only [collItem, decSetField, listElems?, hl, restoredColl, Bool.false_eq_true, if_false]
    | true =>
      have hl := decList_map E.dSet E.enc nf xs (fun x hx => hE.set x (hP x hx))
      have hne' : xs.map nf ≠ [] := by
        intro e; exact hne (List.map_eq_nil_iff.1 e)
      have hd : (dedupBy E.key (xs.map nf)).isEmpty = false := by
        cases hq : dedupBy E.key (xs.map nf) with
        | nil => exact absurd hq (dedupBy_ne_nil _ _ hne')
        | cons a b => rfl
      simp only [collItem, decSetField, listElems?, decNE, iterItems?, hl, restoredColl, if_true, hd,
        Bool.false_eq_true, if_false]

theorem decDatums_item {α κ : Type} [DecidableEq κ] (E : Elem α κ) (nf : α → α) (P : α → Prop)
    (hE : E.Lawful nf P) (c : Coll α) (hP : ∀ x ∈ c.elems, P x) :
    decDatums E (collItem E.enc c) = .ok (restoredColl E.key nf c) := by
  cases c with
  | list xs =>
    have hl := decList_map E.dList E.enc nf xs (fun x hx => hE.list x (hP x hx))
    simp only [collItem, decDatums, iterItems?, hl, restoredColl]
  | oset t xs =>
    cases t with
    | false =>
      have hl := decList_map E.dList E.enc nf xs (fun x hx => hE.list x (hP x hx))
      simp only [collItem, decDatums, iterItems?, hl, restoredColl, Bool.false_eq_true, if_false]
    | true =>
      have hl := decList_map E.dSet E.enc nf xs (fun x hx => hE.set x (hP x hx))
      simp only [collItem, decDatums, iterItems?, hl, restoredColl, if_true]

/-- a field that `__post_init__` rebuilds: restored and rebuilt, whatever the wire form -/
theorem toNE_restoredColl {α κ : Type} [DecidableEq κ] (key : α → κ) (nf : α → α) (c : Coll α) :
    toNE key (restoredColl key nf c) = decodedNE key nf c := by
  cases c with
  | list xs => rfl
  | oset t xs =>
    cases t with
    | false => rfl
    | true => simp only [restoredColl, toNE, decodedNE, Coll.elems, dedupBy_idem]

theorem restoredColl_id {α κ : Type} [DecidableEq κ] (key : α → κ) (c : Coll α) :
    restoredColl key id c = decodedPlain key c := by
  cases c with
  | list xs => simp only [restoredColl, decodedPlain, List.map_id]
  | oset t xs =>
    cases t with
    | false => simp only [restoredColl, decodedPlain, List.map_id]
    | true => simp only [restoredColl, decodedPlain, List.map_id]

theorem vkwElem_lawful : vkwElem.Lawful decodedVKW (fun w => w.sig.Canon) :=
  ⟨fun w h => decVKW_vkwItem w h, fun w h => decVKW_vkwItem w h⟩

theorem scriptElem_lawful : scriptElem.Lawful id (fun _ => True) := ⟨fun _ _ => rfl, fun _ _ => rfl⟩

theorem leafElem_lawful {α : Type} (L : Leaf α) (hL : L.Lawful) : (Elem.ofLeaf L).Lawful id (fun _ => True) :=
  ⟨fun x _ => hL.rt x, fun x _ => hL.rt x⟩


/-! ## the witness set -/

variable {N B D : Type}

structure Leaves.Lawful (L : Leaves N B D R) : Prop where
  native : L.native.Lawful
  bootstrap : L.bootstrap.Lawful
  datum : L.datum.Lawful
  rdata : L.rdata.Lawful

/-- **well-formed witness set**: primitives stored in unchecked fields are what a decoder stores (`Prim.Canon`), a set
that uses the tag is not empty, a redeemer of the list form has its tag, the keys of the map form are distinct -/
structure WSOk (x : WS N B D R) : Prop where
  vkeys : ∀ c, x.vkeys = some c → (∀ w ∈ c.elems, w.sig.Canon) ∧ NonemptyIfTagged c
  native : ∀ c, x.native = some c → NonemptyIfTagged c
  bootstrap : ∀ c, x.bootstrap = some c → NonemptyIfTagged c
  v1 : ∀ c, x.v1 = some c → NonemptyIfTagged c
  redeemers : ∀ r, x.redeemers = some r → RedeemersOk r
  v2 : ∀ c, x.v2 = some c → NonemptyIfTagged c
  v3 : ∀ c, x.v3 = some c → NonemptyIfTagged c

def wsPairs (L : Leaves N B D R) (x : WS N B D R) : List (Item × Item) :=
  optPair 0 (collItem vkwItem) x.vkeys ++ optPair 1 (collItem L.native.enc) x.native ++
    optPair 2 (collItem L.bootstrap.enc) x.bootstrap ++ optPair 3 (collItem (fun b => Item.bytes b)) x.v1 ++
    optPair 4 (collItem L.datum.enc) x.datums ++ optPair 5 (redeemersItem L.rdata) x.redeemers ++
    optPair 6 (collItem (fun b => Item.bytes b)) x.v2 ++ optPair 7 (collItem (fun b => Item.bytes b)) x.v3

theorem wsItem_eq (L : Leaves N B D R) (x : WS N B D R) : wsItem L x = .map (wsPairs L x) := rfl

/-- the keyword arguments the decoding loop collects from the encoding of `x` -/
def restoredWS (L : Leaves N B D R) (x : WS N B D R) : WS N B D R :=
  { vkeys := x.vkeys.map (restoredColl vkwKey decodedVKW)
    native := x.native.map (restoredColl (leafKey L.native) id)
    bootstrap := x.bootstrap.map (restoredColl (leafKey L.bootstrap) id)
    v1 := x.v1.map (restoredColl id id)
    datums := x.datums.map (restoredColl (leafKey L.datum) id)
    redeemers := x.redeemers.map decodedRedeemers
    v2 := x.v2.map (restoredColl id id)
    v3 := x.v3.map (restoredColl id id) }

theorem map_toNE_restoredColl {α κ : Type} [DecidableEq κ] (key : α → κ) (nf : α → α) (o : Option (Coll α)) :
    (o.map (restoredColl key nf)).map (toNE key) = o.map (decodedNE key nf) := by
  cases o with
  | none => rfl
  | some c => simp only [Option.map, toNE_restoredColl]

theorem map_restoredColl_id {α κ : Type} [DecidableEq κ] (key : α → κ) (o : Option (Coll α)) :
    o.map (restoredColl key id) = o.map (decodedPlain key) := by
  cases o with
  | none => rfl
  | some c => simp only [Option.map, restoredColl_id]

theorem mkWS_restoredWS (L : Leaves N B D R) (x : WS N B D R) : mkWS L (restoredWS L x) = decodedWS L x := by
  simp only [mkWS, restoredWS, decodedWS, map_toNE_restoredColl, map_restoredColl_id (leafKey L.bootstrap),
    map_restoredColl_id (leafKey L.datum)]

theorem decWSLoop_step0 (L : Leaves N B D R) (acc : WS N B D R) (o : Option (Coll VKW)) (g : Coll VKW → Coll VKW)
    (rest : List (Item × Item)) (hacc : acc.vkeys = Option.none)
    (hdec : ∀ c, o = some c → decSetField vkwElem (collItem vkwItem c) = .ok (g c)) :
    decWSLoop L acc (optPair 0 (collItem vkwItem) o ++ rest) = decWSLoop L { acc with vkeys := o.map g } rest := by
  cases o with
  | none =>
    cases acc
    simp only at hacc
    subst hacc
    rfl
  | some c =>
    simp only [optPair, List.cons_append, List.nil_append, decWSLoop, itemInt?, hdec c rfl, Res.bind, Option.map]
    simp

theorem decWSLoop_step1 (L : Leaves N B D R) (acc : WS N B D R) (o : Option (Coll N)) (g : Coll N → Coll N)
    (rest : List (Item × Item)) (hacc : acc.native = Option.none)
    (hdec : ∀ c, o = some c → decSetField (Elem.ofLeaf L.native) (collItem L.native.enc c) = .ok (g c)) :
    decWSLoop L acc (optPair 1 (collItem L.native.enc) o ++ rest) = decWSLoop L { acc with native := o.map g } rest := by
  cases o with
  | none =>
    cases acc
    simp only at hacc
    subst hacc
    rfl
  | some c =>
    simp only [optPair, List.cons_append, List.nil_append, decWSLoop, itemInt?, hdec c rfl, Res.bind, Option.map]
    simp

theorem decWSLoop_step2 (L : Leaves N B D R) (acc : WS N B D R) (o : Option (Coll B)) (g : Coll B → Coll B)
    (rest : List (Item × Item)) (hacc : acc.bootstrap = Option.none)
    (hdec : ∀ c, o = some c → decSetField (Elem.ofLeaf L.bootstrap) (collItem L.bootstrap.enc c) = .ok (g c)) :
    decWSLoop L acc (optPair 2 (collItem L.bootstrap.enc) o ++ rest) = decWSLoop L { acc with bootstrap := o.map g } rest := by
  cases o with
  | none =>
    cases acc
    simp only at hacc
    subst hacc
    rfl
  | some c =>
    simp only [optPair, List.cons_append, List.nil_append, decWSLoop, itemInt?, hdec c rfl, Res.bind, Option.map]
    simp

theorem decWSLoop_step3 (L : Leaves N B D R) (acc : WS N B D R) (o : Option (Coll Bytes)) (g : Coll Bytes → Coll Bytes)
    (rest : List (Item × Item)) (hacc : acc.v1 = Option.none)
    (hdec : ∀ c, o = some c → decSetField scriptElem (collItem (fun b => Item.bytes b) c) = .ok (g c)) :
    decWSLoop L acc (optPair 3 (collItem (fun b => Item.bytes b)) o ++ rest) = decWSLoop L { acc with v1 := o.map g } rest := by
  cases o with
  | none =>
    cases acc
    simp only at hacc
    subst hacc
    rfl
  | some c =>
    simp only [optPair, List.cons_append, List.nil_append, decWSLoop, itemInt?, hdec c rfl, Res.bind, Option.map]
    simp

theorem decWSLoop_step4 (L : Leaves N B D R) (acc : WS N B D R) (o : Option (Coll D)) (g : Coll D → Coll D)
    (rest : List (Item × Item)) (hacc : acc.datums = Option.none)
    (hdec : ∀ c, o = some c → decDatums (Elem.ofLeaf L.datum) (collItem L.datum.enc c) = .ok (g c)) :
    decWSLoop L acc (optPair 4 (collItem L.datum.enc) o ++ rest) = decWSLoop L { acc with datums := o.map g } rest := by
  cases o with
  | none =>
    cases acc
    simp only at hacc
    subst hacc
    rfl
  | some c =>
    simp only [optPair, List.cons_append, List.nil_append, decWSLoop, itemInt?, hdec c rfl, Res.bind, Option.map]
    simp

theorem decWSLoop_step5 (L : Leaves N B D R) (acc : WS N B D R) (o : Option (Redeemers R)) (g : Redeemers R → Redeemers R)
    (rest : List (Item × Item)) (hacc : acc.redeemers = Option.none)
    (hdec : ∀ c, o = some c → decRedeemersOpt L.rdata (redeemersItem L.rdata c) = .ok (some (g c))) :
    decWSLoop L acc (optPair 5 (redeemersItem L.rdata) o ++ rest) = decWSLoop L { acc with redeemers := o.map g } rest := by
  cases o with
  | none =>
    cases acc
    simp only at hacc
    subst hacc
    rfl
  | some c =>
    simp only [optPair, List.cons_append, List.nil_append, decWSLoop, itemInt?, hdec c rfl, Res.bind, Option.map]
    simp

theorem decWSLoop_step6 (L : Leaves N B D R) (acc : WS N B D R) (o : Option (Coll Bytes)) (g : Coll Bytes → Coll Bytes)
    (rest : List (Item × Item)) (hacc : acc.v2 = Option.none)
    (hdec : ∀ c, o = some c → decSetField scriptElem (collItem (fun b => Item.bytes b) c) = .ok (g c)) :
    decWSLoop L acc (optPair 6 (collItem (fun b => Item.bytes b)) o ++ rest) = decWSLoop L { acc with v2 := o.map g } rest := by
  cases o with
  | none =>
    cases acc
    simp only at hacc
    subst hacc
    rfl
  | some c =>
    simp only [optPair, List.cons_append, List.nil_append, decWSLoop, itemInt?, hdec c rfl, Res.bind, Option.map]
    simp

theorem decWSLoop_step7 (L : Leaves N B D R) (acc : WS N B D R) (o : Option (Coll Bytes)) (g : Coll Bytes → Coll Bytes)
    (rest : List (Item × Item)) (hacc : acc.v3 = Option.none)
    (hdec : ∀ c, o = some c → decSetField scriptElem (collItem (fun b => Item.bytes b) c) = .ok (g c)) :
    decWSLoop L acc (optPair 7 (collItem (fun b => Item.bytes b)) o ++ rest) = decWSLoop L { acc with v3 := o.map g } rest := by
  cases o with
  | none =>
    cases acc
    simp only at hacc
    subst hacc
    rfl
  | some c =>
    simp only [optPair, List.cons_append, List.nil_append, decWSLoop, itemInt?, hdec c rfl, Res.bind, Option.map]
    simp

theorem decWSLoop_wsPairs (L : Leaves N B D R) (hL : L.Lawful) (x : WS N B D R) (h : WSOk x) :
    decWSLoop L {} (wsPairs L x) = .ok (restoredWS L x) := by
  have e0 : ∀ c, x.vkeys = some c → decSetField vkwElem (collItem vkwItem c) = .ok (restoredColl vkwKey decodedVKW c) :=
    fun c hc => decSetField_item vkwElem decodedVKW _ vkwElem_lawful c (h.vkeys c hc).1 (h.vkeys c hc).2
  have e1 : ∀ c, x.native = some c → decSetField (Elem.ofLeaf L.native) (collItem L.native.enc c) =
      .ok (restoredColl (leafKey L.native) id c) :=
    fun c hc => decSetField_item (Elem.ofLeaf L.native) id _ (leafElem_lawful _ hL.native) c (fun _ _ => trivial)
      (h.native c hc)
  have e2 : ∀ c, x.bootstrap = some c → decSetField (Elem.ofLeaf L.bootstrap) (collItem L.bootstrap.enc c) =
      .ok (restoredColl (leafKey L.bootstrap) id c) :=
    fun c hc => decSetField_item (Elem.ofLeaf L.bootstrap) id _ (leafElem_lawful _ hL.bootstrap) c (fun _ _ => trivial)
      (h.bootstrap c hc)
  have e3 : ∀ c, x.v1 = some c → decSetField scriptElem (collItem (fun b => Item.bytes b) c) =
      .ok (restoredColl id id c) :=
    fun c hc => decSetField_item scriptElem id _ scriptElem_lawful c (fun _ _ => trivial) (h.v1 c hc)
  have e4 : ∀ c, x.datums = some c → decDatums (Elem.ofLeaf L.datum) (collItem L.datum.enc c) =
      .ok (restoredColl (leafKey L.datum) id c) :=
    fun c hc => decDatums_item (Elem.ofLeaf L.datum) id _ (leafElem_lawful _ hL.datum) c (fun _ _ => trivial)
  have e5 : ∀ r, x.redeemers = some r → decRedeemersOpt L.rdata (redeemersItem L.rdata r) =
      .ok (some (decodedRedeemers r)) :=
    fun r hr => decRedeemersOpt_item L.rdata hL.rdata r (h.redeemers r hr)
  have e6 : ∀ c, x.v2 = some c → decSetField scriptElem (collItem (fun b => Item.bytes b) c) =
      .ok (restoredColl id id c) :=
    fun c hc => decSetField_item scriptElem id _ scriptElem_lawful c (fun _ _ => trivial) (h.v2 c hc)
  have e7 : ∀ c, x.v3 = some c → decSetField scriptElem (collItem (fun b => Item.bytes b) c) =
      .ok (restoredColl id id c) :=
    fun c hc => decSetField_item scriptElem id _ scriptElem_lawful c (fun _ _ => trivial) (h.v3 c hc)
  simp only [wsPairs, List.append_assoc]
  rw [← List.append_nil (optPair 7 (collItem (fun b => Item.bytes b)) x.v3)]
  rw [decWSLoop_step0 L _ _ _ _ rfl e0, decWSLoop_step1 L _ _ _ _ rfl e1, decWSLoop_step2 L _ _ _ _ rfl e2,
    decWSLoop_step3 L _ _ _ _ rfl e3, decWSLoop_step4 L _ _ _ _ rfl e4, decWSLoop_step5 L _ _ _ _ rfl e5,
    decWSLoop_step6 L _ _ _ _ rfl e6, decWSLoop_step7 L _ _ _ _ rfl e7]
  rfl

theorem decWS_wsItem (L : Leaves N B D R) (hL : L.Lawful) (x : WS N B D R) (h : WSOk x) :
    decWS L (wsItem L x) = .ok (decodedWS L x) := by
  simp only [wsItem_eq, decWS, decWSLoop_wsPairs L hL x h, Res.bind, mkWS_restoredWS]

/-- the five fields `__post_init__` rebuilds hold tagged sets -/
def Tagged5 (x : WS N B D R) : Prop :=
  (∀ c, x.vkeys = some c → ∃ xs, c = .oset true xs) ∧ (∀ c, x.native = some c → ∃ xs, c = .oset true xs) ∧
  (∀ c, x.v1 = some c → ∃ xs, c = .oset true xs) ∧ (∀ c, x.v2 = some c → ∃ xs, c = .oset true xs) ∧
  (∀ c, x.v3 = some c → ∃ xs, c = .oset true xs)

def CollDistinct {α κ : Type} (key : α → κ) (c : Coll α) : Prop := (c.elems.map key).Nodup

/-- no set holds two elements that are written alike (an `OrderedSet` never does, except two vkey witnesses that
differ in the type / description of their key only) -/
structure WSDistinct (L : Leaves N B D R) (x : WS N B D R) : Prop where
  vkeys : ∀ c, x.vkeys = some c → CollDistinct (fun w => vkwKey (decodedVKW w)) c
  native : ∀ c, x.native = some c → CollDistinct (leafKey L.native) c
  bootstrap : ∀ t xs, x.bootstrap = some (.oset t xs) → CollDistinct (leafKey L.bootstrap) (.oset t xs)
  v1 : ∀ c, x.v1 = some c → CollDistinct id c
  datums : ∀ t xs, x.datums = some (.oset t xs) → CollDistinct (leafKey L.datum) (.oset t xs)
  v2 : ∀ c, x.v2 = some c → CollDistinct id c
  v3 : ∀ c, x.v3 = some c → CollDistinct id c

theorem optPair_map_congr {α : Type} (k : Nat) (f : α → Item) (g : α → α) (o : Option α)
    (h : ∀ c, o = some c → f (g c) = f c) : optPair k f (o.map g) = optPair k f o := by
  cases o with
  | none => rfl
  | some c => simp only [Option.map, optPair, h c rfl]

theorem collItem_decodedNE {α κ : Type} [DecidableEq κ] (enc : α → Item) (key : α → κ) (nf : α → α) (c : Coll α)
    (ht : ∃ xs, c = .oset true xs) (hd : CollDistinct (fun w => key (nf w)) c) (he : ∀ x, enc (nf x) = enc x) :
    collItem enc (decodedNE key nf c) = collItem enc c := by
  obtain ⟨xs, rfl⟩ := ht
  have hn : ((xs.map nf).map key).Nodup := by
    rw [List.map_map]; exact hd
  have hm : (xs.map nf).map enc = xs.map enc := by
    rw [List.map_map]; exact List.map_congr_left (fun x _ => he x)
  simp only [decodedNE, Coll.elems, dedupBy_of_nodup key _ hn, collItem, if_true, hm]

theorem collItem_decodedPlain {α κ : Type} [DecidableEq κ] (enc : α → Item) (key : α → κ) (c : Coll α)
    (hd : ∀ t xs, c = .oset t xs → CollDistinct key (.oset t xs)) :
    collItem enc (decodedPlain key c) = collItem enc c := by
  cases c with
  | list xs => rfl
  | oset t xs =>
    cases t with
    | false => simp [decodedPlain, collItem]
    | true =>
      have hn : (xs.map key).Nodup := hd true xs rfl
      simp only [decodedPlain, dedupBy_of_nodup key _ hn]

theorem wsItem_decodedWS (L : Leaves N B D R) (x : WS N B D R) (ht : Tagged5 x) (hd : WSDistinct L x) :
    wsItem L (decodedWS L x) = wsItem L x := by
  obtain ⟨t0, t1, t3, t6, t7⟩ := ht
  have e0 := optPair_map_congr 0 (collItem vkwItem) (decodedNE vkwKey decodedVKW) x.vkeys
    (fun c hc => collItem_decodedNE vkwItem vkwKey decodedVKW c (t0 c hc) (hd.vkeys c hc) (fun _ => rfl))
  have e1 := optPair_map_congr 1 (collItem L.native.enc) (decodedNE (leafKey L.native) id) x.native
    (fun c hc => collItem_decodedNE L.native.enc (leafKey L.native) id c (t1 c hc) (hd.native c hc) (fun _ => rfl))
  have e2 := optPair_map_congr 2 (collItem L.bootstrap.enc) (decodedPlain (leafKey L.bootstrap)) x.bootstrap
    (fun c hc => collItem_decodedPlain L.bootstrap.enc (leafKey L.bootstrap) c
      (fun t xs e => hd.bootstrap t xs (e ▸ hc)))
  have e3 := optPair_map_congr 3 (collItem (fun b => Item.bytes b)) (decodedNE id id) x.v1
    (fun c hc => collItem_decodedNE (fun b => Item.bytes b) id id c (t3 c hc) (hd.v1 c hc) (fun _ => rfl))
  have e4 := optPair_map_congr 4 (collItem L.datum.enc) (decodedPlain (leafKey L.datum)) x.datums
    (fun c hc => collItem_decodedPlain L.datum.enc (leafKey L.datum) c
      (fun t xs e => hd.datums t xs (e ▸ hc)))
  have e5 := optPair_map_congr 5 (redeemersItem L.rdata) decodedRedeemers x.redeemers
    (fun r _ => redeemersItem_decoded L.rdata r)
  have e6 := optPair_map_congr 6 (collItem (fun b => Item.bytes b)) (decodedNE id id) x.v2
    (fun c hc => collItem_decodedNE (fun b => Item.bytes b) id id c (t6 c hc) (hd.v2 c hc) (fun _ => rfl))
  have e7 := optPair_map_congr 7 (collItem (fun b => Item.bytes b)) (decodedNE id id) x.v3
    (fun c hc => collItem_decodedNE (fun b => Item.bytes b) id id c (t7 c hc) (hd.v3 c hc) (fun _ => rfl))
  simp only [wsItem, decodedWS, e0, e1, e2, e3, e4, e5, e6, e7]

theorem map_toNE_tagged {α κ : Type} [DecidableEq κ] (key : α → κ) (o : Option (Coll α)) (c : Coll α)
    (h : o.map (toNE key) = some c) : ∃ xs, c = .oset true xs := by
  cases o with
  | none => simp at h
  | some c' =>
    simp only [Option.map, Option.some.injEq] at h
    exact ⟨_, h.symm⟩

theorem toNE_idem {α κ : Type} [DecidableEq κ] (key : α → κ) (c : Coll α) : toNE key (toNE key c) = toNE key c := by
  simp only [toNE, Coll.elems, dedupBy_idem]

theorem map_toNE_idem {α κ : Type} [DecidableEq κ] (key : α → κ) (o : Option (Coll α)) :
    (o.map (toNE key)).map (toNE key) = o.map (toNE key) := by
  cases o with
  | none => rfl
  | some c => simp only [Option.map, toNE_idem]

theorem map_toNE_decodedNE {α κ : Type} [DecidableEq κ] (key : α → κ) (nf : α → α) (o : Option (Coll α)) :
    (o.map (decodedNE key nf)).map (toNE key) = o.map (decodedNE key nf) := by
  cases o with
  | none => rfl
  | some c => simp only [Option.map, toNE, decodedNE, Coll.elems, dedupBy_idem]

theorem mkWS_tagged5 (L : Leaves N B D R) (a : WS N B D R) : Tagged5 (mkWS L a) := by
  exact ⟨fun c h => map_toNE_tagged _ _ c h, fun c h => map_toNE_tagged _ _ c h, fun c h => map_toNE_tagged _ _ c h,
    fun c h => map_toNE_tagged _ _ c h, fun c h => map_toNE_tagged _ _ c h⟩

theorem mkWS_idem (L : Leaves N B D R) (a : WS N B D R) : mkWS L (mkWS L a) = mkWS L a := by
  simp only [mkWS, map_toNE_idem]

theorem mkWS_decodedWS (L : Leaves N B D R) (x : WS N B D R) : mkWS L (decodedWS L x) = decodedWS L x := by
  simp only [mkWS, decodedWS, map_toNE_decodedNE]

/-! ## constructed witnesses hold the plain key: the round trip returns the object itself -/

/-- the key is what the decoder builds: a `VerificationKey` with the default envelope -/
def VKW.Plain (w : VKW) : Prop := w.vkey = mkKey .verification w.vkey.payload

theorem decodedVKW_of_plain (w : VKW) (h : w.Plain) : decodedVKW w = w := by
  cases w with
  | mk vkey sig =>
    simp only [VKW.Plain] at h
    simp only [decodedVKW]
    rw [← h]

/-- **every constructed witness that `validate` accepts holds the plain key** — whatever class (`VerificationKey`,
payment / stake / pool, extended or not) and envelope the key was handed over with -/
theorem mkVKW_plain (k : KeyObj) (s : Prim) (h : vkwValid (mkVKW k s) = true) : (mkVKW k s).Plain := by
  unfold VKW.Plain
  by_cases h1 : k.cls.isExtVerification = true
  · simp only [mkVKW, h1, if_true]; rfl
  · by_cases h2 : k.cls.isVerification = true
    · simp only [mkVKW, h1, h2, if_true, if_false]; rfl
    · simp only [vkwValid, mkVKW, h1, h2, if_false, Bool.and_eq_true, Bool.or_eq_true] at h
      rcases h.1 with h | h
      · exact absurd h h2
      · exact absurd h h1

theorem valid_canon (w : VKW) (h : vkwValid w = true) : w.sig.Canon := by
  simp only [vkwValid, Bool.and_eq_true] at h
  cases hs : w.sig with
  | int i => trivial
  | bytes b => trivial
  | other x => rw [hs] at h; simp [Prim.isBytes] at h

theorem decVKW_constructed (k : KeyObj) (s : Prim) (h : vkwValid (mkVKW k s) = true) :
    decVKW (vkwItem (mkVKW k s)) = .ok (mkVKW k s) := by
  rw [decVKW_vkwItem _ (valid_canon _ h), decodedVKW_of_plain _ (mkVKW_plain k s h)]

theorem pyEq_refl (w : VKW) : VKW.pyEq w w = true := by
  simp [VKW.pyEq, KeyObj.pyEq]

/-- the keys of two plain witnesses differ only where the wire differs -/
theorem vkwKey_decodedVKW_of_plain (w : VKW) (h : w.Plain) : vkwKey (decodedVKW w) = vkwKey w := by
  rw [decodedVKW_of_plain w h]

/-- `list == OrderedSet` / `OrderedSet.__eq__`: the same elements in the same order -/
def Coll.sameElems {α : Type} (a b : Coll α) : Prop := a.elems = b.elems

/-- `==` of the `redeemer` field: lists element by element, `RedeemerMap`s as dicts (same entries, keys distinct) -/
def Redeemers.pyEq : Redeemers R → Redeemers R → Prop
  | .list a, .list b => a = b
  | .map a, .map b => a.Perm b
  | _, _ => False

def optRel {α : Type} (r : α → α → Prop) : Option α → Option α → Prop
  | Option.none, Option.none => True
  | some a, some b => r a b
  | _, _ => False

/-- `dataclass.__eq__` of two witness sets, field by field (the five rebuilt fields: the very same sets) -/
structure WS.PyEq (y x : WS N B D R) : Prop where
  vkeys : y.vkeys = x.vkeys
  native : y.native = x.native
  bootstrap : optRel Coll.sameElems y.bootstrap x.bootstrap
  v1 : y.v1 = x.v1
  datums : optRel Coll.sameElems y.datums x.datums
  redeemers : optRel Redeemers.pyEq y.redeemers x.redeemers
  v2 : y.v2 = x.v2
  v3 : y.v3 = x.v3

/-- a tagged set in `bootstrap_witness` / `plutus_data` holds no element twice (it is an `OrderedSet`) -/
def PlainSetsDistinct (L : Leaves N B D R) (x : WS N B D R) : Prop :=
  (∀ xs, x.bootstrap = some (.oset true xs) → (xs.map (leafKey L.bootstrap)).Nodup) ∧
  (∀ xs, x.datums = some (.oset true xs) → (xs.map (leafKey L.datum)).Nodup)

theorem map_decodedNE_toNE {α κ : Type} [DecidableEq κ] (key : α → κ) (nf : α → α) (o : Option (Coll α))
    (h : ∀ c, o = some c → ∀ x ∈ dedupBy key c.elems, nf x = x) :
    (o.map (toNE key)).map (decodedNE key nf) = o.map (toNE key) := by
  cases o with
  | none => rfl
  | some c =>
    have hm : (dedupBy key c.elems).map nf = dedupBy key c.elems := by
      conv => rhs; rw [← List.map_id (dedupBy key c.elems)]
      exact List.map_congr_left (fun x hx => h c rfl x hx)
    show some (Coll.oset true (dedupBy key ((dedupBy key c.elems).map nf))) = some (Coll.oset true (dedupBy key c.elems))
    rw [hm, dedupBy_idem]

theorem optRel_decodedPlain {α κ : Type} [DecidableEq κ] (key : α → κ) (o : Option (Coll α))
    (h : ∀ xs, o = some (.oset true xs) → (xs.map key).Nodup) :
    optRel Coll.sameElems (o.map (decodedPlain key)) o := by
  cases o with
  | none => trivial
  | some c =>
    cases c with
    | list xs => simp [Option.map, optRel, decodedPlain, Coll.sameElems]
    | oset t xs =>
      cases t with
      | false => simp [Option.map, optRel, decodedPlain, Coll.sameElems, Coll.elems]
      | true => simp [Option.map, optRel, decodedPlain, Coll.sameElems, Coll.elems, dedupBy_of_nodup key xs (h xs rfl)]

theorem optRel_decodedRedeemers (o : Option (Redeemers R)) : optRel Redeemers.pyEq (o.map decodedRedeemers) o := by
  cases o with
  | none => trivial
  | some r =>
    cases r with
    | list rs => simp [Option.map, optRel, decodedRedeemers, Redeemers.pyEq]
    | map m => simp only [Option.map, optRel, decodedRedeemers, Redeemers.pyEq]; exact rmapSorted_perm m

/-- what decoding the encoding of a CONSTRUCTED witness set returns is `==` the witness set -/
theorem decodedWS_pyEq (L : Leaves N B D R) (a : WS N B D R)
    (hv : ∀ c, (mkWS L a).vkeys = some c → ∀ w ∈ c.elems, w.Plain) (hd : PlainSetsDistinct L (mkWS L a)) :
    WS.PyEq (decodedWS L (mkWS L a)) (mkWS L a) := by
  refine ⟨?_, ?_, ?_, ?_, ?_, ?_, ?_, ?_⟩
  · show ((a.vkeys.map (toNE vkwKey)).map (decodedNE vkwKey decodedVKW)) = a.vkeys.map (toNE vkwKey)
    apply map_decodedNE_toNE
    intro c hc x hx
    refine decodedVKW_of_plain x (hv (toNE vkwKey c) (by simp [mkWS, hc]) x ?_)
    simpa [toNE, Coll.elems] using hx
  · show ((a.native.map (toNE (leafKey L.native))).map (decodedNE (leafKey L.native) id)) = _
    exact map_decodedNE_toNE _ _ _ (fun _ _ _ _ => rfl)
  · exact optRel_decodedPlain _ _ hd.1
  · show ((a.v1.map (toNE id)).map (decodedNE id id)) = _
    exact map_decodedNE_toNE _ _ _ (fun _ _ _ _ => rfl)
  · exact optRel_decodedPlain _ _ hd.2
  · exact optRel_decodedRedeemers _
  · show ((a.v2.map (toNE id)).map (decodedNE id id)) = _
    exact map_decodedNE_toNE _ _ _ (fun _ _ _ _ => rfl)
  · show ((a.v3.map (toNE id)).map (decodedNE id id)) = _
    exact map_decodedNE_toNE _ _ _ (fun _ _ _ _ => rfl)

/-- … and it is written as the witness set was: no hypothesis on the vkey witnesses beyond their being constructed -/
theorem wsItem_decodedWS_constructed (L : Leaves N B D R) (a : WS N B D R)
    (hv : ∀ c, (mkWS L a).vkeys = some c → ∀ w ∈ c.elems, w.Plain) (hd : PlainSetsDistinct L (mkWS L a)) :
    wsItem L (decodedWS L (mkWS L a)) = wsItem L (mkWS L a) := by
  obtain ⟨e0, e1, _, e3, _, _, e6, e7⟩ := decodedWS_pyEq L a hv hd
  have hb := optPair_map_congr 2 (collItem L.bootstrap.enc) (decodedPlain (leafKey L.bootstrap)) (mkWS L a).bootstrap
    (fun c hc => by
      cases c with
      | list xs => rfl
      | oset t xs =>
        cases t with
        | false => rfl
        | true => simp only [decodedPlain, dedupBy_of_nodup _ xs (hd.1 xs hc)])
  have hdm := optPair_map_congr 4 (collItem L.datum.enc) (decodedPlain (leafKey L.datum)) (mkWS L a).datums
    (fun c hc => by
      cases c with
      | list xs => rfl
      | oset t xs =>
        cases t with
        | false => rfl
        | true => simp only [decodedPlain, dedupBy_of_nodup _ xs (hd.2 xs hc)])
  have hr := optPair_map_congr 5 (redeemersItem L.rdata) decodedRedeemers (mkWS L a).redeemers
    (fun r _ => redeemersItem_decoded L.rdata r)
  have h0 : (decodedWS L (mkWS L a)).vkeys = (mkWS L a).vkeys := e0
  have h1 : (decodedWS L (mkWS L a)).native = (mkWS L a).native := e1
  have h3 : (decodedWS L (mkWS L a)).v1 = (mkWS L a).v1 := e3
  have h6 : (decodedWS L (mkWS L a)).v2 = (mkWS L a).v2 := e6
  have h7 : (decodedWS L (mkWS L a)).v3 = (mkWS L a).v3 := e7
  have h2 : (decodedWS L (mkWS L a)).bootstrap = (mkWS L a).bootstrap.map (decodedPlain (leafKey L.bootstrap)) := rfl
  have h4 : (decodedWS L (mkWS L a)).datums = (mkWS L a).datums.map (decodedPlain (leafKey L.datum)) := rfl
  have h5 : (decodedWS L (mkWS L a)).redeemers = (mkWS L a).redeemers.map decodedRedeemers := rfl
  simp only [wsItem, h0, h1, h2, h3, h4, h5, h6, h7, hb, hdm, hr]

/-! ## conformance to the CDDL (`Spec/WitnessCodec.lean`) -/

namespace Conf
open Pyc.Spec.WitnessCodec

def specTag : RTag → RedeemerTag
  | .spend => .spend | .mint => .mint | .cert => .cert | .reward => .reward | .voting => .voting | .proposing => .proposing

def absColl {α β : Type} (f : α → β) : Coll α → SetForm × List β
  | .list xs => (.bare, xs.map f)
  | .oset t xs => (if t then .tagged else .bare, xs.map f)

def absVKW (w : VKW) : VKeyWitness := ⟨w.vkey.payload, match w.sig with | .bytes b => b | _ => []⟩

def absEntry (L : Leaf R) (t : RTag) (i : Int) (d : R) (e : ExUnits) : RedeemerEntry :=
  ⟨specTag t, i.toNat, L.enc d, ⟨e.mem.toNat, e.steps.toNat⟩⟩

def absRedeemer (L : Leaf R) (r : Redeemer R) : RedeemerEntry :=
  absEntry L (r.tag.getD .spend) (match r.index with | .int i => i | _ => 0) r.data (r.exUnits.getD ⟨0, 0⟩)

def absRedeemers (L : Leaf R) : Redeemers R → RedeemersForm × List RedeemerEntry
  | .list rs => (.array, rs.map (absRedeemer L))
  | .map m => (.map, (rmapSorted m).map (fun p => absEntry L p.1.tag p.1.index p.2.data p.2.exUnits))

def absWS (L : Leaves N B D R) (x : WS N B D R) : WitnessSet :=
  { vkeys := x.vkeys.map (absColl absVKW)
    native := x.native.map (absColl L.native.enc)
    bootstrap := x.bootstrap.map (absColl L.bootstrap.enc)
    v1 := x.v1.map (absColl id)
    data := x.datums.map (absColl L.datum.enc)
    redeemers := x.redeemers.map (absRedeemers L.rdata)
    v2 := x.v2.map (absColl id)
    v3 := x.v3.map (absColl id) }

def ExCddl (e : ExUnits) : Prop := 0 ≤ e.mem ∧ e.mem < 2 ^ 64 ∧ 0 ≤ e.steps ∧ e.steps < 2 ^ 64

/-- a redeemer of the list form with the content the CDDL names: a tag, `index : uint .size 4`, execution units in
`uint` -/
def RedeemerCddl (r : Redeemer R) : Prop :=
  r.tag.isSome = true ∧ (∃ i : Int, r.index = .int i ∧ 0 ≤ i ∧ i < 2 ^ 32) ∧ ∃ e, r.exUnits = some e ∧ ExCddl e

def RedeemersCddl : Redeemers R → Prop
  | .list rs => rs ≠ [] ∧ ∀ r ∈ rs, RedeemerCddl r
  | .map m => m ≠ [] ∧ ∀ p ∈ m, (0 ≤ p.1.index ∧ p.1.index < 2 ^ 32) ∧ ExCddl p.2.exUnits

/-- the content is within the CDDL: sets not empty, 32-byte keys, 64-byte signatures, indices and execution units in
range -/
structure WSCddl (x : WS N B D R) : Prop where
  vkeys : ∀ c, x.vkeys = some c → c.elems ≠ [] ∧ ∀ w ∈ c.elems, w.vkey.payload.length = 32 ∧ ∃ s, w.sig = .bytes s ∧ s.length = 64
  native : ∀ c, x.native = some c → c.elems ≠ []
  bootstrap : ∀ c, x.bootstrap = some c → c.elems ≠ []
  v1 : ∀ c, x.v1 = some c → c.elems ≠ []
  datums : ∀ c, x.datums = some c → c.elems ≠ []
  redeemers : ∀ r, x.redeemers = some r → RedeemersCddl r
  v2 : ∀ c, x.v2 = some c → c.elems ≠ []
  v3 : ∀ c, x.v3 = some c → c.elems ≠ []

theorem vkwItem_spec (w : VKW) (s : Bytes) (h : w.sig = .bytes s) : vkwItem w = vkeywitness (absVKW w) := by
  obtain ⟨k, sg⟩ := w
  simp only at h
  subst h
  rfl

theorem exItem_spec (e : ExUnits) (h : ExCddl e) : exItem e = exUnits ⟨e.mem.toNat, e.steps.toNat⟩ := by
  obtain ⟨h1, h2, h3, h4⟩ := h
  simp only [exItem, exUnits, Ids.ofInt_nonneg _ h1 h2, Ids.ofInt_nonneg _ h3 h4]

theorem tag_spec (t : RTag) : Item.uint t.code = redeemerTag (specTag t) := by
  cases t <;> rfl

theorem two32_lt : (2 : Int) ^ 32 < 2 ^ 64 := by decide

theorem redeemerItem_spec (L : Leaf R) (r : Redeemer R) (h : RedeemerCddl r) :
    redeemerItem L r = redeemerArrayEntry (absRedeemer L r) := by
  obtain ⟨tg, ix, d, ex⟩ := r
  obtain ⟨h1, ⟨i, hi, hi0, hi1⟩, ⟨e, he, hex⟩⟩ := h
  simp only at h1 hi he
  obtain ⟨t, ht⟩ := Option.isSome_iff_exists.1 h1
  subst ht hi he
  have hi2 : i < 2 ^ 64 := Int.lt_trans hi1 two32_lt
  simp only [redeemerItem, redeemerArrayEntry, absRedeemer, absEntry, Option.getD, Prim.toItem, tag_spec,
    Ids.ofInt_nonneg i hi0 hi2, exItem_spec e hex]

theorem redeemersItem_spec (L : Leaf R) (rs : Redeemers R) (h : RedeemersCddl rs) :
    redeemersItem L rs = redeemers (absRedeemers L rs).1 (absRedeemers L rs).2 := by
  cases rs with
  | list rs =>
    obtain ⟨_, h2⟩ := h
    simp only [redeemersItem, absRedeemers, redeemers, List.map_map]
    congr 1
    exact List.map_congr_left (fun r hr => redeemerItem_spec L r (h2 r hr))
  | map m =>
    obtain ⟨_, h2⟩ := h
    have h1 : redeemersItem L (.map m) = .map (sortPairs (m.map (fun p => (rkeyItem p.1, rvalueItem L p.2)))) := rfl
    rw [h1, sortPairs_rmap]
    simp only [absRedeemers, redeemers, List.map_map]
    congr 1
    apply List.map_congr_left
    intro p hp
    have hp' : p ∈ m := (rmapSorted_perm m).mem_iff.1 hp
    obtain ⟨⟨hi0, hi1⟩, hex⟩ := h2 p hp'
    have hi2 : p.1.index < 2 ^ 64 := Int.lt_trans hi1 two32_lt
    simp only [Function.comp, rkeyItem, rvalueItem, redeemerMapEntry, absEntry, tag_spec,
      Ids.ofInt_nonneg _ hi0 hi2, exItem_spec _ hex]

theorem collItem_spec {α β : Type} (enc : α → Item) (f : α → β) (g : β → Item) (c : Coll α)
    (h : ∀ x ∈ c.elems, enc x = g (f x)) :
    collItem enc c = nonemptySet (absColl f c).1 ((absColl f c).2.map g) := by
  cases c with
  | list xs =>
    simp only [collItem, absColl, nonemptySet, List.map_map]
    congr 1
    exact List.map_congr_left (fun x hx => h x hx)
  | oset t xs =>
    cases t with
    | false =>
      simp only [collItem, absColl, nonemptySet, List.map_map, Bool.false_eq_true, if_false]
      congr 1
      exact List.map_congr_left (fun x hx => h x hx)
    | true =>
      simp only [collItem, absColl, nonemptySet, List.map_map, if_true]
      congr 2
      exact List.map_congr_left (fun x hx => h x hx)

theorem filterMap_struct_cons (k : Nat) (v : Option Item) (t : List (Nat × Option Item)) :
    ((k, v) :: t).filterMap (fun e => e.2.map (fun v => (Item.uint e.1, v))) =
      optPair k id v ++ t.filterMap (fun e => e.2.map (fun v => (Item.uint e.1, v))) := by
  cases v with
  | none => rfl
  | some v => rfl

theorem optPair_setOf {α β : Type} (k : Nat) (enc : α → Item) (f : α → β) (g : β → Item) (o : Option (Coll α))
    (h : ∀ c, o = some c → ∀ x ∈ c.elems, enc x = g (f x)) :
    optPair k id (setOf g (o.map (absColl f))) = optPair k (collItem enc) o := by
  cases o with
  | none => rfl
  | some c => simp only [Option.map, setOf, optPair, id, collItem_spec enc f g c (h c rfl)]

theorem optPair_redeemers (L : Leaf R) (k : Nat) (o : Option (Redeemers R)) (h : ∀ r, o = some r → RedeemersCddl r) :
    optPair k id ((o.map (absRedeemers L)).map (fun p => redeemers p.1 p.2)) = optPair k (redeemersItem L) o := by
  cases o with
  | none => rfl
  | some r => simp only [Option.map, optPair, id, redeemersItem_spec L r (h r rfl)]

theorem wsItem_spec (L : Leaves N B D R) (x : WS N B D R) (h : WSCddl x) :
    wsItem L x = transactionWitnessSet (absWS L x) := by
  have e0 := optPair_setOf 0 vkwItem absVKW vkeywitness x.vkeys (fun c hc w hw => by
    obtain ⟨_, s, hs, _⟩ := (h.vkeys c hc).2 w hw
    exact vkwItem_spec w s hs)
  have e1 := optPair_setOf 1 L.native.enc L.native.enc id x.native (fun _ _ _ _ => rfl)
  have e2 := optPair_setOf 2 L.bootstrap.enc L.bootstrap.enc id x.bootstrap (fun _ _ _ _ => rfl)
  have e3 := optPair_setOf 3 (fun b => Item.bytes b) id Item.bytes x.v1 (fun _ _ _ _ => rfl)
  have e4 := optPair_setOf 4 L.datum.enc L.datum.enc id x.datums (fun _ _ _ _ => rfl)
  have e5 := optPair_redeemers L.rdata 5 x.redeemers h.redeemers
  have e6 := optPair_setOf 6 (fun b => Item.bytes b) id Item.bytes x.v2 (fun _ _ _ _ => rfl)
  have e7 := optPair_setOf 7 (fun b => Item.bytes b) id Item.bytes x.v3 (fun _ _ _ _ => rfl)
  simp only [transactionWitnessSet, structMap, absWS, filterMap_struct_cons, List.filterMap_nil, List.append_nil,
    e0, e1, e2, e3, e4, e5, e6, e7, wsItem, List.append_assoc]

theorem absColl_snd {α β : Type} (f : α → β) (c : Coll α) : (absColl f c).2 = c.elems.map f := by
  cases c <;> rfl

theorem absColl_ne_nil {α β : Type} (f : α → β) (o : Option (Coll α)) (h : ∀ c, o = some c → c.elems ≠ [])
    (p : SetForm × List β) (hp : o.map (absColl f) = some p) : p.2 ≠ [] := by
  cases o with
  | none => simp at hp
  | some c =>
    simp only [Option.map, Option.some.injEq] at hp
    subst hp
    rw [absColl_snd]
    intro e
    exact h c rfl (List.map_eq_nil_iff.1 e)

theorem exUnits_ok (e : ExUnits) (h : ExCddl e) : e.mem.toNat < 2 ^ 64 ∧ e.steps.toNat < 2 ^ 64 := by
  obtain ⟨h1, h2, h3, h4⟩ := h
  constructor <;> omega

theorem toNat_lt32 (i : Int) (h0 : 0 ≤ i) (h1 : i < 2 ^ 32) : i.toNat < 2 ^ 32 := by omega

theorem absWS_ok (L : Leaves N B D R) (x : WS N B D R) (h : WSCddl x) : (absWS L x).Ok := by
  refine ⟨?_, absColl_ne_nil _ _ h.native, absColl_ne_nil _ _ h.bootstrap, absColl_ne_nil _ _ h.v1,
    absColl_ne_nil _ _ h.datums, ?_, absColl_ne_nil _ _ h.v2, absColl_ne_nil _ _ h.v3⟩
  · intro p hp
    refine ⟨absColl_ne_nil _ _ (fun c hc => (h.vkeys c hc).1) p hp, ?_⟩
    simp only [absWS] at hp
    cases hv : x.vkeys with
    | none => rw [hv] at hp; simp at hp
    | some c =>
      rw [hv] at hp
      simp only [Option.map, Option.some.injEq] at hp
      subst hp
      rw [absColl_snd]
      intro w hw
      obtain ⟨v, hv', rfl⟩ := List.mem_map.1 hw
      obtain ⟨hl, s, hs, hsl⟩ := (h.vkeys c hv).2 v hv'
      refine ⟨hl, ?_⟩
      simp only [absVKW, hs]
      exact hsl
  · intro p hp
    simp only [absWS] at hp
    cases hv : x.redeemers with
    | none => rw [hv] at hp; simp at hp
    | some r =>
      rw [hv] at hp
      simp only [Option.map, Option.some.injEq] at hp
      subst hp
      have hr := h.redeemers r hv
      cases r with
      | list rs =>
        obtain ⟨hne, hall⟩ := hr
        refine ⟨fun e => hne (List.map_eq_nil_iff.1 e), ?_⟩
        intro q hq
        obtain ⟨r, hr, rfl⟩ := List.mem_map.1 hq
        obtain ⟨_, ⟨i, hi, hi0, hi1⟩, ⟨e, he, hex⟩⟩ := hall r hr
        obtain ⟨tg, ix, d, ex⟩ := r
        simp only at hi he
        subst hi he
        exact ⟨toNat_lt32 i hi0 hi1, exUnits_ok e hex⟩
      | map m =>
        obtain ⟨hne, hall⟩ := hr
        refine ⟨?_, ?_⟩
        · intro e
          have e' := List.map_eq_nil_iff.1 e
          have hl := (rmapSorted_perm m).length_eq
          rw [e'] at hl
          exact hne (List.length_eq_zero_iff.1 hl.symm)
        · intro q hq
          obtain ⟨p, hp, rfl⟩ := List.mem_map.1 hq
          have hp' : p ∈ m := (rmapSorted_perm m).mem_iff.1 hp
          obtain ⟨⟨hi0, hi1⟩, hex⟩ := hall p hp'
          exact ⟨toNat_lt32 _ hi0 hi1, exUnits_ok _ hex⟩

def optKey {α : Type} (k : Nat) (o : Option α) : List Nat := if o.isSome then [k] else []

theorem optPair_keys {α : Type} (k : Nat) (f : α → Item) (o : Option α) :
    (optPair k f o).map (·.1) = (optKey k o).map Item.uint := by
  cases o <;> rfl

theorem optKey_sublist {α : Type} (k : Nat) (o : Option α) : (optKey k o).Sublist [k] := by
  cases o with
  | none => exact List.nil_sublist _
  | some _ => exact List.Sublist.refl _

/-- the keys of the struct map are written in strictly ascending order -/
theorem wsPairs_ascending (L : Leaves N B D R) (x : WS N B D R) :
    ∃ ks : List Nat, (wsPairs L x).map (·.1) = ks.map Item.uint ∧ ks.Pairwise (· < ·) := by
  refine ⟨optKey 0 x.vkeys ++ optKey 1 x.native ++ optKey 2 x.bootstrap ++ optKey 3 x.v1 ++ optKey 4 x.datums ++
    optKey 5 x.redeemers ++ optKey 6 x.v2 ++ optKey 7 x.v3, ?_, ?_⟩
  · simp only [wsPairs, List.map_append, optPair_keys]
  · have hs : (optKey 0 x.vkeys ++ optKey 1 x.native ++ optKey 2 x.bootstrap ++ optKey 3 x.v1 ++ optKey 4 x.datums ++
        optKey 5 x.redeemers ++ optKey 6 x.v2 ++ optKey 7 x.v3).Sublist ([0] ++ [1] ++ [2] ++ [3] ++ [4] ++ [5] ++ [6] ++ [7]) :=
      ((((((((optKey_sublist 0 x.vkeys).append (optKey_sublist 1 x.native)).append (optKey_sublist 2 x.bootstrap)).append
        (optKey_sublist 3 x.v1)).append (optKey_sublist 4 x.datums)).append (optKey_sublist 5 x.redeemers)).append
        (optKey_sublist 6 x.v2)).append (optKey_sublist 7 x.v3))
    exact List.Pairwise.sublist hs (by decide)

end Conf

end Pyc.WitnessCodec
