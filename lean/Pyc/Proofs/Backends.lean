import Pyc.Proofs.Value
import Pyc.Model.Backends

/-! Lemmas for C20: hex / decimal text round trips, `str.split`, rebuilding a bundle from its entries, and the
asset loops of the five adapters run on rendered entries. -/

namespace Pyc.Backends
open Pyc Pyc.Dict

/-! ### hex -/
theorem hexVal_hexDigit : ∀ k, k < 16 → hexVal (hexDigit k) = some k := by decide

theorem uint8_split (b : UInt8) : UInt8.ofNat (b.toNat / 16 * 16 + b.toNat % 16) = b := by
  have : b.toNat / 16 * 16 + b.toNat % 16 = b.toNat := by omega
  rw [this]; simp

theorem ofHexList_hexChars_append (b : Bytes) (r : List Char) (t : Bytes) (h : ofHexList r = some t) :
    ofHexList (hexChars b ++ r) = some (b ++ t) := by
  induction b with
  | nil => simpa [hexChars]
  | cons x xs ih =>
    have hx : x.toNat < 256 := x.toNat_lt
    have h1 : hexVal (hexDigit (x.toNat / 16)) = some (x.toNat / 16) := hexVal_hexDigit _ (by omega)
    have h2 : hexVal (hexDigit (x.toNat % 16)) = some (x.toNat % 16) := hexVal_hexDigit _ (by omega)
    have ih' : ofHexList (hexChars xs ++ r) = some (xs ++ t) := ih
    simp only [hexChars, List.flatMap_cons, List.cons_append, List.nil_append] at ih' ⊢
    simp only [ofHexList, h1, h2, ih', uint8_split]

theorem ofHexList_hexChars (b : Bytes) : ofHexList (hexChars b) = some b := by
  have := ofHexList_hexChars_append b [] [] rfl
  simpa using this
theorem hexDigit_ne : ∀ k, k < 16 → hexDigit k ≠ '.' ∧ hexDigit k ≠ '#' := by decide

theorem hexChars_not_sep (b : Bytes) : ∀ c ∈ hexChars b, c ≠ '.' ∧ c ≠ '#' := by
  intro c hc
  simp only [hexChars, List.mem_flatMap] at hc
  obtain ⟨x, _, hx⟩ := hc
  have hlt : x.toNat < 256 := x.toNat_lt
  simp at hx
  rcases hx with rfl | rfl
  · exact hexDigit_ne _ (by omega)
  · exact hexDigit_ne _ (by omega)

theorem hexChars_length (b : Bytes) : (hexChars b).length = 2 * b.length := by
  induction b with
  | nil => simp [hexChars]
  | cons x xs ih => simp only [hexChars, List.flatMap_cons] at ih ⊢; simp [ih]; omega

theorem hexChars_append (a b : Bytes) : hexChars (a ++ b) = hexChars a ++ hexChars b := by
  simp [hexChars, List.flatMap_append]

/-! ### decimal -/

theorem digitVal_digitChar : ∀ k, k < 10 → digitVal (digitChar k) = some k := by decide

theorem parseNatAux_append (l1 l2 : List Char) (acc : Nat) :
    parseNatAux (l1 ++ l2) acc = (parseNatAux l1 acc).bind (parseNatAux l2) := by
  induction l1 generalizing acc with
  | nil => simp [parseNatAux]
  | cons c r ih =>
    simp only [List.cons_append, parseNatAux]
    cases digitVal c with
    | none => simp
    | some d => simp [ih]

theorem parseNatAux_natDigits (n : Nat) : parseNatAux (natDigits n) 0 = some n := by
  induction n using Nat.strongRecOn with
  | _ n ih =>
    rw [natDigits]
    split
    · rename_i h
      simp [parseNatAux, digitVal_digitChar n h]
    · rename_i h
      rw [parseNatAux_append, ih (n / 10) (by omega)]
      simp [parseNatAux, digitVal_digitChar (n % 10) (by omega)]
      omega

theorem natDigits_ne_nil (n : Nat) : natDigits n ≠ [] := by
  rw [natDigits]; split <;> simp

theorem parseNat_natDigits (n : Nat) : parseNat (natDigits n) = some n := by
  have h := natDigits_ne_nil n
  cases hd : natDigits n with
  | nil => exact absurd hd h
  | cons c r => simp only [parseNat]; rw [← hd]; exact parseNatAux_natDigits n

/-- every character of a decimal rendering is a digit -/
theorem natDigits_digits (n : Nat) : ∀ c ∈ natDigits n, (digitVal c).isSome := by
  induction n using Nat.strongRecOn with
  | _ n ih =>
    rw [natDigits]
    split
    · rename_i h
      intro c hc; simp at hc; subst hc; simp [digitVal_digitChar n h]
    · rename_i h
      intro c hc
      simp at hc
      rcases hc with hc | hc
      · exact ih (n / 10) (by omega) c hc
      · subst hc; simp [digitVal_digitChar (n % 10) (by omega)]

theorem parseInt_digits (cs : List Char) (h : ∀ c ∈ cs, (digitVal c).isSome) :
    parseInt cs = (parseNat cs).map Int.ofNat := by
  cases cs with
  | nil => simp [parseInt]
  | cons c r =>
    have hc := h c (by simp)
    by_cases h1 : c = '-'
    · subst h1; exact absurd hc (by decide)
    · by_cases h2 : c = '+'
      · subst h2; exact absurd hc (by decide)
      · unfold parseInt
        split
        · rename_i heq; simp at heq; exact absurd heq.1 h1
        · rename_i heq; simp at heq; exact absurd heq.1 h2
        · rfl

theorem parseInt_natDigits (n : Nat) : parseInt (natDigits n) = some (n : Int) := by
  rw [parseInt_digits _ (natDigits_digits n), parseNat_natDigits]; rfl

theorem parseInt_intStr (i : Int) : parseInt (intStr i).toList = some i := by
  cases i with
  | ofNat n => simp [intStr, parseInt_natDigits]
  | negSucc n =>
    simp only [intStr, String.toList_ofList, parseInt, parseNat_natDigits]
    simp [Int.negSucc_eq]

theorem pyInt_intStr (i : Int) : pyInt (.str (intStr i)) = .ok i := by
  simp [pyInt, parseInt_intStr]
/-! ### `str.split` -/

theorem splitOn_ne_nil (sep : Char) (l : List Char) : splitOn sep l ≠ [] := by
  induction l with
  | nil => simp [splitOn]
  | cons c r ih =>
    simp only [splitOn]
    split
    · simp
    · split <;> simp

theorem splitOn_none (sep : Char) (l : List Char) (h : ∀ c ∈ l, c ≠ sep) : splitOn sep l = [l] := by
  induction l with
  | nil => simp [splitOn]
  | cons c r ih =>
    have hc : c ≠ sep := h c (by simp)
    have ih' := ih (fun x hx => h x (by simp [hx]))
    simp [splitOn, hc, ih']

theorem splitOn_append (sep : Char) (l1 l2 : List Char) (h : ∀ c ∈ l1, c ≠ sep) :
    splitOn sep (l1 ++ sep :: l2) = l1 :: splitOn sep l2 := by
  induction l1 with
  | nil => simp [splitOn]
  | cons c r ih =>
    have hc : c ≠ sep := h c (by simp)
    have ih' := ih (fun x hx => h x (by simp [hx]))
    simp [splitOn, hc, ih']
/-! ### rebuilding a bundle from its entries -/

section
variable {ν : Type}

theorem set_new (m : List (Bytes × ν)) (k : Bytes) (v : ν) (h : has m k = false) : set m k v = m ++ [(k, v)] := by
  induction m with
  | nil => simp [Dict.set]
  | cons p r ih => grind [Dict.set, has]

theorem set_last (m : List (Bytes × ν)) (k : Bytes) (v v' : ν) (h : has m k = false) :
    set (m ++ [(k, v)]) k v' = m ++ [(k, v')] := by
  induction m with
  | nil => simp [Dict.set]
  | cons p r ih => grind [Dict.set, has]

theorem getD_last (m : List (Bytes × ν)) (k : Bytes) (v d : ν) (h : has m k = false) :
    Dict.getD (m ++ [(k, v)]) k d = v := by
  induction m with
  | nil => simp [Dict.getD]
  | cons p r ih => grind [Dict.getD, has]

end

theorem has_append {ν : Type} (a b : List (Bytes × ν)) (k : Bytes) : has (a ++ b) k = (has a k || has b k) := by
  induction a with
  | nil => simp [has]
  | cons p r ih => simp [has, ih, Bool.or_assoc]

/-- inserting further names under the policy that was inserted last -/
theorem putAll_inner (acc : MultiAsset) (p : Bytes) (cur rest : Asset)
    (hp : has acc p = false) (hn : Dict.WF (cur ++ rest)) :
    putAll (rest.map fun nq => (p, nq.1, nq.2)) (acc ++ [(p, cur)]) = acc ++ [(p, cur ++ rest)] := by
  induction rest generalizing cur with
  | nil => simp [putAll]
  | cons nq r ih =>
    obtain ⟨n, q⟩ := nq
    have hnc : has cur n = false := by
      unfold Dict.WF keys at hn
      cases hh : has cur n with
      | false => rfl
      | true =>
        have := (has_iff_mem cur n).1 hh
        simp [keys] at this
        obtain ⟨x, hx⟩ := this
        simp [List.nodup_append] at hn
        exact absurd rfl (hn.2.2 n x hx).1
    have step : put (acc ++ [(p, cur)]) p n q = acc ++ [(p, cur ++ [(n, q)])] := by
      unfold put
      rw [getD_last _ _ _ _ hp, set_new cur n q hnc, set_last _ _ _ _ hp]
    simp only [putAll, List.map_cons, List.foldl_cons] at ih ⊢
    rw [step]
    have := ih (cur ++ [(n, q)]) (by simpa using hn)
    simpa using this

theorem putAll_policy (acc : MultiAsset) (p : Bytes) (a : Asset)
    (hp : has acc p = false) (hw : Dict.WF a) (hne : a ≠ []) :
    putAll (a.map fun nq => (p, nq.1, nq.2)) acc = acc ++ [(p, a)] := by
  cases a with
  | nil => exact absurd rfl hne
  | cons nq r =>
    obtain ⟨n, q⟩ := nq
    have step : put acc p n q = acc ++ [(p, [(n, q)])] := by
      unfold put
      rw [has_false_getD _ _ _ hp]
      simp [Dict.set, set_new acc p _ hp]
    have := putAll_inner acc p [(n, q)] r hp (by simpa using hw)
    simp only [putAll, List.map_cons, List.foldl_cons] at this ⊢
    rw [step]
    simpa using this

theorem putAll_append (e1 e2 : List (Bytes × Bytes × Int)) (acc : MultiAsset) :
    putAll (e1 ++ e2) acc = putAll e2 (putAll e1 acc) := by simp [putAll]

/-- re-inserting the entries of a bundle in iteration order rebuilds the bundle -/
theorem putAll_flatten_acc (m acc : MultiAsset) (hk : Dict.WF (acc ++ m))
    (hm : ∀ pa ∈ m, Dict.WF pa.2 ∧ pa.2 ≠ []) : putAll (flatten m) acc = acc ++ m := by
  induction m generalizing acc with
  | nil => simp [flatten, putAll]
  | cons pa r ih =>
    obtain ⟨p, a⟩ := pa
    have hp : has acc p = false := by
      cases hh : has acc p with
      | false => rfl
      | true =>
        have := (has_iff_mem acc p).1 hh
        unfold Dict.WF keys at hk
        simp [keys] at this
        obtain ⟨x, hx⟩ := this
        simp [List.nodup_append] at hk
        exact absurd rfl (hk.2.2 p x hx).1
    have h1 := hm (p, a) (by simp)
    simp only [flatten, List.flatMap_cons] at ih ⊢
    rw [putAll_append, putAll_policy acc p a hp h1.1 h1.2]
    have := ih (acc ++ [(p, a)]) (by simpa using hk) (fun pa h => hm pa (by simp [h]))
    simpa using this

theorem putAll_flatten (m : MultiAsset) (hw : MultiAsset.WF m) (hne : ∀ pa ∈ m, pa.2 ≠ []) :
    putAll (flatten m) [] = m := by
  have := putAll_flatten_acc m [] (by simpa using hw.1) (fun pa h => ⟨hw.2 pa h, hne pa h⟩)
  simpa using this
/-! ### the `Except` monad -/

section
variable {α β : Type}
@[simp] theorem ok_bind (a : α) (f : α → Res β) : (Except.ok a >>= f) = f a := rfl
@[simp] theorem err_bind (e : Err) (f : α → Res β) : ((Except.error e : Res α) >>= f) = Except.error e := rfl
@[simp] theorem map_ok (f : α → β) (a : α) : f <$> (Except.ok a : Res α) = Except.ok (f a) := rfl
@[simp] theorem map_err (f : α → β) (e : Err) : f <$> (Except.error e : Res α) = Except.error e := rfl
@[simp] theorem pure_eq (a : α) : (pure a : Res α) = Except.ok a := rfl
@[simp] theorem throw_eq (e : Err) : (throw e : Res α) = Except.error e := rfl
end

theorem fromHex_hexStr (b : Bytes) : fromHex (hexStr b) = .ok b := by
  simp [fromHex, hexStr, ofHexList_hexChars]

theorem constrained_hexStr (lo hi : Nat) (b : Bytes) (h : lo ≤ b.length ∧ b.length ≤ hi) :
    constrained lo hi (hexStr b) = .ok b := by
  simp [constrained, fromHex_hexStr, h]

theorem hexStr_length (b : Bytes) : (hexStr b).length = 2 * b.length := by
  simp [hexStr, hexChars_length]

theorem hexStr_ne_of_length (b : Bytes) (s : String) (h : s.length ≠ 2 * b.length) : hexStr b ≠ s := by
  intro he; apply h; rw [← he, hexStr_length]

theorem bfUnit_ne_lovelace (p n : Bytes) (hp : p.length = 28) : bfUnit p n ≠ "lovelace" := by
  intro he
  have h1 : (bfUnit p n).length = 2 * p.length + 2 * n.length := by
    simp [bfUnit, hexChars_length]
  have h2 : ("lovelace" : String).length = 8 := by decide
  rw [he, h2] at h1; omega

theorem bfItem_entry (e : Bytes × Bytes × Int) (st : Int × MultiAsset)
    (hp : e.1.length = 28) (hn : e.2.1.length ≤ 32) :
    bfItem (bfEntry e) st = .ok (st.1, put st.2 e.1 e.2.1 e.2.2) := by
  obtain ⟨p, n, q⟩ := e
  simp only at hp hn
  have hu : fromHex (bfUnit p n) = .ok (p ++ n) := by
    simp [fromHex, bfUnit, ofHexList_hexChars_append p (hexChars n) n (ofHexList_hexChars n)]
  simp [bfItem, bfEntry, J.field, J.lookup, J.asStr, bfUnit_ne_lovelace p n hp, hu, pyInt_intStr, hp, hn]
  omega

/-- sizes every asset identifier of the ledger has -/
def EntryOK (e : Bytes × Bytes × Int) : Prop := e.1.length = 28 ∧ e.2.1.length ≤ 32

theorem bfAmount_entries (es : List (Bytes × Bytes × Int)) (st : Int × MultiAsset) (h : ∀ e ∈ es, EntryOK e) :
    bfAmount (es.map bfEntry) st = .ok (st.1, putAll es st.2) := by
  induction es generalizing st with
  | nil => simp [bfAmount, putAll]
  | cons e r ih =>
    have he := h e (by simp)
    simp only [List.map_cons, bfAmount, bfItem_entry e st he.1 he.2, ok_bind]
    rw [ih _ (fun x hx => h x (by simp [hx]))]
    simp [putAll]

/-! ### `policy.name` identifiers -/

theorem extractAssetInfo_dotKey (p n : Bytes) (hp : p.length = 28) (hn : n.length ≤ 32) :
    extractAssetInfo (dotKey p n) = .ok (p, n) := by
  have hps : scriptHashOf (String.ofList (hexChars p)) = .ok p :=
    constrained_hexStr 28 28 p (by omega)
  by_cases h : n = []
  · subst h
    have : splitOn '.' (hexChars p) = [hexChars p] := splitOn_none _ _ (fun c hc => (hexChars_not_sep p c hc).1)
    simp [extractAssetInfo, dotKey, hexStr, this, hps, assetNameOf, constrained, fromHex, ofHexList]
  · have hs : splitOn '.' (hexChars p ++ '.' :: hexChars n) = [hexChars p, hexChars n] := by
      rw [splitOn_append _ _ _ (fun c hc => (hexChars_not_sep p c hc).1),
        splitOn_none _ _ (fun c hc => (hexChars_not_sep n c hc).1)]
    have hns : assetNameOf (String.ofList (hexChars n)) = .ok n := constrained_hexStr 0 32 n (by omega)
    simp [extractAssetInfo, dotKey, h, hs, hps, hns]

theorem dotAssets_entries (es : List (Bytes × Bytes × Int)) (ma : MultiAsset) (h : ∀ e ∈ es, EntryOK e) :
    dotAssets (es.map dotEntry) ma = .ok (putAll es ma) := by
  induction es generalizing ma with
  | nil => simp [dotAssets, putAll]
  | cons e r ih =>
    have he := h e (by simp)
    simp only [List.map_cons, dotEntry, dotAssets, extractAssetInfo_dotKey e.1 e.2.1 he.1 he.2, ok_bind, J.asInt]
    rw [ih _ (fun x hx => h x (by simp [hx]))]
    simp [putAll]

theorem flatten_entryOK (m : MultiAsset)
    (h : ∀ pa ∈ m, pa.1.length = 28 ∧ ∀ nq ∈ pa.2, nq.1.length ≤ 32) : ∀ e ∈ flatten m, EntryOK e := by
  intro e he
  simp only [flatten, List.mem_flatMap, List.mem_map] at he
  obtain ⟨pa, hpa, nq, hnq, rfl⟩ := he
  exact ⟨(h pa hpa).1, (h pa hpa).2 nq hnq⟩

/-! ### nested maps -/

theorem v6Inner_names (p : Bytes) (a : Asset) (ma : MultiAsset) (hp : p.length = 28)
    (hn : ∀ nq ∈ a, nq.1.length ≤ 32) :
    v6Inner (hexStr p) (a.map nestedName) ma = .ok (putAll (a.map fun nq => (p, nq.1, nq.2)) ma) := by
  induction a generalizing ma with
  | nil => simp [v6Inner, putAll]
  | cons nq r ih =>
    have h1 : scriptHashOf (hexStr p) = .ok p := constrained_hexStr 28 28 p (by omega)
    have h2 : assetNameOf (hexStr nq.1) = .ok nq.1 := constrained_hexStr 0 32 nq.1 (by have := hn nq (by simp); omega)
    simp only [List.map_cons, nestedName, v6Inner, h1, h2, ok_bind, J.asInt]
    rw [ih _ (fun x hx => hn x (by simp [hx]))]
    simp [putAll]

/-- the hypothesis on the asset identifiers of a bundle -/
def SizesOK (m : MultiAsset) : Prop := ∀ pa ∈ m, pa.1.length = 28 ∧ ∀ nq ∈ pa.2, nq.1.length ≤ 32

theorem hexStr_ne_ada (p : Bytes) (hp : p.length = 28) : hexStr p ≠ "ada" :=
  hexStr_ne_of_length p _ (by have : ("ada" : String).length = 3 := by decide
                              omega)

theorem hexStr_ne_lovelace (p : Bytes) (hp : p.length = 28) : hexStr p ≠ "lovelace" :=
  hexStr_ne_of_length p _ (by have : ("lovelace" : String).length = 8 := by decide
                              omega)

theorem v6Outer_policies (m : MultiAsset) (ma : MultiAsset) (h : SizesOK m) :
    v6Outer (m.map nestedPolicy) ma = .ok (putAll (flatten m) ma) := by
  induction m generalizing ma with
  | nil => simp [v6Outer, putAll, flatten]
  | cons pa r ih =>
    have h1 := h pa (by simp)
    simp only [List.map_cons, nestedPolicy, v6Outer, hexStr_ne_ada pa.1 h1.1, if_false, J.asObj, ok_bind,
      v6Inner_names pa.1 pa.2 ma h1.1 h1.2]
    rw [ih _ (fun x hx => h x (by simp [hx]))]
    simp [flatten, putAll_append]

theorem onlyAda_render (c : J) (m : MultiAsset) (h : SizesOK m) :
    onlyAda (("ada", c) :: m.map nestedPolicy) = m.isEmpty := by
  cases m with
  | nil => simp [onlyAda]
  | cons pa r =>
    have h1 := h pa (by simp)
    simp [onlyAda, nestedPolicy, hexStr_ne_ada pa.1 h1.1]

theorem cliInner_names (p : Bytes) (a : Asset) (ma : MultiAsset) (hn : ∀ nq ∈ a, nq.1.length ≤ 32) :
    cliInner p (a.map nestedName) ma = .ok (putAll (a.map fun nq => (p, nq.1, nq.2)) ma) := by
  induction a generalizing ma with
  | nil => simp [cliInner, putAll]
  | cons nq r ih =>
    have h2 : assetNameOf (hexStr nq.1) = .ok nq.1 := constrained_hexStr 0 32 nq.1 (by have := hn nq (by simp); omega)
    simp only [List.map_cons, nestedName, cliInner, h2, ok_bind, J.asInt]
    rw [ih _ (fun x hx => hn x (by simp [hx]))]
    simp [putAll]

theorem cliOuter_policies (m : MultiAsset) (c : J) (st : J × MultiAsset) (h : SizesOK m) :
    cliOuter (m.map nestedPolicy ++ [("lovelace", c)]) st = .ok (c, putAll (flatten m) st.2) := by
  induction m generalizing st with
  | nil => simp [cliOuter, putAll, flatten]
  | cons pa r ih =>
    have h1 := h pa (by simp)
    have hs : scriptHashOf (hexStr pa.1) = .ok pa.1 := constrained_hexStr 28 28 pa.1 (by omega)
    simp only [List.map_cons, List.cons_append, nestedPolicy, cliOuter, hexStr_ne_lovelace pa.1 h1.1, if_false,
      J.asObj, ok_bind, hs, cliInner_names pa.1 pa.2 st.2 h1.2]
    rw [ih _ (fun x hx => h x (by simp [hx]))]
    simp [flatten, putAll_append]

/-! ### well-formed UTxOs and the components of the adapters -/

/-- an inline datum, if any, is a non-empty byte string (every service but cardano-cli reports CBOR bytes) -/
def bytesPayload (d : Option Payload) : Bool :=
  match d with
  | some (.json _) => false
  | some (.bytes b) => !b.isEmpty
  | none => true

/-- a native-script JSON whose `type` is one of the six tags `NativeScript.from_dict` knows -/
def nativeOK (j : J) : Bool :=
  match j.field "type" with
  | .ok (.str t) => nativeTags.contains t
  | _ => false

theorem nativeJson_ok (j : J) (h : nativeOK j = true) : nativeJson j = .ok (.json j) := by
  unfold nativeOK at h
  unfold nativeJson
  cases hf : j.field "type" with
  | error e => simp [hf] at h
  | ok v =>
    cases v <;> simp [hf] at h
    simp [J.asStr, h]

/-- reference script absent, or of a language in `langs` with the matching payload kind
(`0` = native, JSON form; `1..3` = Plutus, bytes) -/
def scriptOK (langs : List Nat) (s : Option ScriptM) : Bool :=
  match s with
  | none => true
  | some s => langs.contains s.lang && (match s.body with
      | .bytes _ => s.lang != 0
      | .json j => s.lang == 0 && nativeOK j)

/-- a UTxO of the ledger: 32-byte transaction id, 28-byte policies, names of at most 32 bytes, unique
(policy, name) pairs, no empty policy, positive quantities, non-negative ADA, at most one of datum hash /
inline datum, 32-byte datum hash -/
def WellFormed (u : UTxOModel) : Prop :=
  u.txId.length = 32 ∧ 0 ≤ u.index ∧ 0 ≤ u.coin ∧ MultiAsset.WF u.ma ∧
  (∀ pa ∈ u.ma, pa.1.length = 28 ∧ pa.2 ≠ [] ∧ ∀ nq ∈ pa.2, nq.1.length ≤ 32 ∧ 0 < nq.2) ∧
  (∀ h ∈ u.datumHash, h.length = 32) ∧ (u.datumHash.isNone ∨ u.datum.isNone)

instance (u : UTxOModel) : Decidable (WellFormed u) := by unfold WellFormed; infer_instance

theorem WellFormed.sizes {u : UTxOModel} (h : WellFormed u) : SizesOK u.ma :=
  fun pa hpa => ⟨(h.2.2.2.2.1 pa hpa).1, fun nq hnq => ((h.2.2.2.2.1 pa hpa).2.2 nq hnq).1⟩

theorem WellFormed.rebuild {u : UTxOModel} (h : WellFormed u) : putAll (flatten u.ma) [] = u.ma :=
  putAll_flatten u.ma h.2.2.2.1 (fun pa hpa => (h.2.2.2.2.1 pa hpa).2.1)

theorem txIn_render (t : Bytes) (i : Int) (h : t.length = 32) : txIn (.str (hexStr t)) (.num i) = .ok (t, i) := by
  simp [txIn, constrainedJ, J.asStr, J.asInt, constrained_hexStr 32 32 t (by omega)]

theorem flatten_eq_nil {m : MultiAsset} (h : ∀ pa ∈ m, pa.2 ≠ []) (hf : flatten m = []) : m = [] := by
  cases m with
  | nil => rfl
  | cons pa r =>
    have := h pa (by simp)
    simp [flatten] at hf
    exact absurd hf.1 this

theorem dotParseValue_render (u : UTxOModel) (h : WellFormed u) : dotParseValue (dotValue u) = .ok (u.coin, u.ma) := by
  have hr := h.rebuild
  have hs := flatten_entryOK u.ma h.sizes
  by_cases hf : flatten u.ma = []
  · have : u.ma = [] := flatten_eq_nil (fun pa hpa => (h.2.2.2.2.1 pa hpa).2.1) hf
    simp [dotParseValue, dotValue, J.field, J.lookup, J.truthy, J.asInt, this, flatten]
  · have hne : ((flatten u.ma).map dotEntry).isEmpty = false := by
      cases hfl : flatten u.ma with
      | nil => exact absurd hfl hf
      | cons e r => simp
    simp [dotParseValue, dotValue, J.field, J.lookup, J.truthy, hne, J.asObj, dotAssets_entries _ _ hs, hr, J.asInt]

theorem hexStr_ne_empty (x : Bytes) (h : x ≠ []) : hexStr x ≠ "" := by
  apply hexStr_ne_of_length
  have : ("" : String).length = 0 := by decide
  have : 0 < x.length := List.length_pos_iff.2 h
  omega

theorem hashIfTruthy_optStr (o : Option Bytes) (h : ∀ x ∈ o, x.length = 32) : hashIfTruthy (optStr o) = .ok o := by
  cases o with
  | none => simp [hashIfTruthy, optStr, J.truthy]
  | some x =>
    have hx : x.length = 32 := h x rfl
    have hne : hexStr x ≠ "" := hexStr_ne_empty x (by intro h0; simp [h0] at hx)
    simp [hashIfTruthy, optStr, J.truthy, hne, constrainedJ, J.asStr, constrained_hexStr 32 32 x (by omega)]

theorem v5Script_render (s : Option ScriptM) (h : scriptOK [1, 2] s = true) : v5Script (v5ScriptJ s) = .ok s := by
  cases s with
  | none => simp [v5Script, v5ScriptJ, J.truthy]
  | some s =>
    obtain ⟨lang, body⟩ := s
    cases body with
    | json j => simp [scriptOK] at h; omega
    | bytes b =>
      simp [scriptOK] at h
      rcases h.1 with rfl | rfl
      · simp [v5Script, v5ScriptJ, J.truthy, plutusLang, J.hasKey, J.lookup, J.field, payloadJ, J.asStr, fromHex_hexStr]
      · simp [v5Script, v5ScriptJ, J.truthy, plutusLang, J.hasKey, J.lookup, J.field, payloadJ, J.asStr, fromHex_hexStr]

theorem datumHexJ_cases (d : Option Payload) (hb : bytesPayload d = true) :
    (d = none ∧ datumHexJ d = .null) ∨ (∃ b, b ≠ [] ∧ d = some (.bytes b) ∧ datumHexJ d = .str (hexStr b)) := by
  cases d with
  | none => left; simp [datumHexJ]
  | some p =>
    cases p with
    | json j => simp [bytesPayload] at hb
    | bytes b => right; exact ⟨b, by simpa [bytesPayload] using hb, rfl, rfl⟩

theorem v5Datum_render (kvs : List (String × J)) (d : Option Payload) (dh : Option Bytes)
    (h1 : J.lookup kvs "datum" = some (datumHexJ d)) (h2 : J.lookup kvs "datumHash" = some (optStr dh))
    (hb : bytesPayload d = true) (hx : dh.isNone ∨ d.isNone) : v5Datum (.obj kvs) = .ok d := by
  rcases datumHexJ_cases d hb with ⟨rfl, hj⟩ | ⟨b, hne, rfl, hj⟩
  · simp [v5Datum, J.field, h1, hj, J.truthy]
  · have hdh : dh = none := by simpa using hx
    subst hdh
    simp [v5Datum, J.field, h1, h2, hj, J.truthy, hexStr_ne_empty b hne, optStr, J.eqPrim, J.asStr, fromHex_hexStr]

/-! ### Ogmios v6 -/

theorem plutusLang_facts (n : Nat) (h : n = 1 ∨ n = 2 ∨ n = 3) :
    plutusVersion (plutusLang n) = .ok (n : Int) ∧ startsPlutusV (plutusLang n) = true := by
  rcases h with rfl | rfl | rfl <;> exact ⟨by rfl, by decide⟩

/-- reference script absent, or of a language in `langs` and reported as bytes: Ogmios v6 reports every script —
Plutus (`1..3`) and native (`0`) — by its serialised form `cbor` -/
def scriptBytesOK (langs : List Nat) (s : Option ScriptM) : Bool :=
  match s with
  | none => true
  | some s => langs.contains s.lang && (match s.body with
      | .bytes _ => true
      | .json _ => false)

theorem v6Script_render (aux : Aux) (s : ScriptM) (h : scriptBytesOK [0, 1, 2, 3] (some s) = true) :
    v6Script (v6ScriptJ aux s) = .ok (some s) := by
  obtain ⟨lang, body⟩ := s
  cases body with
  | json j => simp [scriptBytesOK] at h
  | bytes b =>
    simp [scriptBytesOK] at h
    have hn : startsPlutusV "native" = false := by decide
    rcases h with rfl | h
    · simp [v6Script, v6ScriptJ, J.truthy, J.field, J.lookup, J.asStr, hn, payloadJ, fromHex_hexStr]
    · obtain ⟨hv, hp⟩ := plutusLang_facts lang h
      have hr : (1 : Int) ≤ lang ∧ (lang : Int) ≤ 3 := by omega
      have h0 : lang ≠ 0 := by omega
      simp [v6Script, v6ScriptJ, J.truthy, J.field, J.lookup, J.asStr, h0, hp, hv, fromHex_hexStr, hr]

theorem v6Outer_ada (c : J) (rest : List (String × J)) (ma : MultiAsset) :
    v6Outer (("ada", c) :: rest) ma = v6Outer rest ma := by simp [v6Outer]

theorem v6Value_render (u : UTxOModel) (h : WellFormed u) : v6Value (v6ValueJ u) = .ok (u.coin, u.ma) := by
  have hr := h.rebuild
  have ho := onlyAda_render (.obj [("lovelace", .num u.coin)]) u.ma h.sizes
  have hv := v6Outer_policies u.ma [] h.sizes
  by_cases hm : u.ma = []
  · simp only [hm, List.isEmpty_nil, List.map_nil] at ho
    simp [v6Value, v6ValueJ, J.getN, J.getD, J.lookup, J.asObj, ho, J.asInt, hm]
  · have he : u.ma.isEmpty = false := by simpa using hm
    rw [he] at ho
    simp [v6Value, v6ValueJ, J.getN, J.getD, J.lookup, J.asObj, ho, J.asInt, v6Outer_ada, hv, hr]


theorem optStr_eq (o : Option Bytes) : (o.map fun h => J.str (hexStr h)).getD .null = optStr o := by
  cases o <;> rfl

theorem v6Datum_render (d : Option Payload) (dh : Option Bytes) (hb : bytesPayload d = true)
    (hx : dh.isNone ∨ d.isNone) : v6Datum ((d.map payloadJ).getD .null) (optStr dh) = .ok d := by
  rcases datumHexJ_cases d hb with ⟨rfl, _⟩ | ⟨b, hne, rfl, _⟩
  · simp [v6Datum, J.truthy]
  · have hdh : dh = none := by simpa using hx
    subst hdh
    simp [v6Datum, J.truthy, payloadJ, hexStr_ne_empty b hne, J.eqPrim, J.asStr, fromHex_hexStr, optStr]

theorem v6Script_opt (aux : Aux) (s : Option ScriptM) (h : scriptBytesOK [0, 1, 2, 3] s = true) :
    v6Script ((s.map (v6ScriptJ aux)).getD .null) = .ok s := by
  cases s with
  | none => simp [v6Script, J.truthy]
  | some s => simpa using v6Script_render aux s h

theorem lookup_append (a b : List (String × J)) (k : String) :
    J.lookup (a ++ b) k = (J.lookup a k).orElse fun _ => J.lookup b k := by
  induction a with
  | nil => simp [J.lookup]
  | cons p r ih =>
    simp only [List.cons_append, J.lookup]
    split <;> simp [ih]

theorem lookup_optMember (k k' : String) (o : Option J) :
    J.lookup (optMember k o) k' = if k = k' then o else none := by
  cases o <;> simp [optMember, J.lookup]

/-! ### cardano-cli -/

/-- an inline datum, if any, is in JSON form (cardano-cli) -/
def jsonPayload (d : Option Payload) : Bool :=
  match d with
  | some (.bytes _) => false
  | _ => true

theorem digit_ne_hash (c : Char) (h : (digitVal c).isSome) : c ≠ '#' := by
  intro hc; subst hc; revert h; decide

theorem intStr_no_hash (i : Int) : ∀ c ∈ (intStr i).toList, c ≠ '#' := by
  intro c hc
  cases i with
  | ofNat n =>
    simp [intStr] at hc
    exact digit_ne_hash c (natDigits_digits n c hc)
  | negSucc n =>
    simp [intStr] at hc
    rcases hc with rfl | hc
    · decide
    · exact digit_ne_hash c (natDigits_digits _ c hc)

theorem cliTxIn_render (u : UTxOModel) (h : u.txId.length = 32) : cliTxIn (cliKey u) = .ok (u.txId, u.index) := by
  have hs : splitOn '#' (hexChars u.txId ++ '#' :: (intStr u.index).toList) = [hexChars u.txId, (intStr u.index).toList] := by
    rw [splitOn_append _ _ _ (fun c hc => (hexChars_not_sep u.txId c hc).2), splitOn_none _ _ (intStr_no_hash u.index)]
  have ht : txIdOf (String.ofList (hexChars u.txId)) = .ok u.txId := constrained_hexStr 32 32 u.txId (by omega)
  simp [cliTxIn, cliKey, hs, parseInt_intStr, ht]

theorem cliDatumHash_render (kvs : List (String × J)) (dh : Option Bytes)
    (h1 : J.lookup kvs "datumhash" = some (optStr dh)) (h : ∀ x ∈ dh, x.length = 32) :
    cliDatumHash (.obj kvs) = .ok dh := by
  cases dh with
  | none => simp [cliDatumHash, J.getN, J.getD, h1, optStr, J.isNull]
  | some x =>
    have hx : x.length = 32 := h x rfl
    simp [cliDatumHash, J.getN, J.getD, h1, optStr, J.isNull, constrainedJ, J.asStr, constrained_hexStr 32 32 x (by omega)]

theorem cliDatum_render (kvs : List (String × J)) (aux : Aux) (d : Option Payload)
    (h1 : J.lookup kvs "datum" = some .null)
    (h2 : J.lookup kvs "inlineDatumhash" = some (cliInlineHashJ aux d))
    (h3 : J.lookup kvs "inlineDatum" = some (cliInlineJ d))
    (hj : jsonPayload d = true) (ha : aux.inlineHash.length = 32) : cliDatum (.obj kvs) = .ok d := by
  cases d with
  | none => simp [cliDatum, J.getN, J.getD, h1, h2, J.truthy, cliInlineHashJ]
  | some p =>
    cases p with
    | bytes b => simp [jsonPayload] at hj
    | json j =>
      have hne : hexStr aux.inlineHash ≠ "" := hexStr_ne_empty _ (by intro h0; simp [h0] at ha)
      simp [cliDatum, J.getN, J.getD, h1, h2, h3, J.truthy, hne, J.field, payloadJ, cliInlineHashJ, cliInlineJ]

theorem cliScriptRef_render (kvs : List (String × J)) (s : Option ScriptM)
    (h1 : J.lookup kvs "referenceScript" = some (cliScriptJ s)) (hs : scriptOK [1, 2, 3] s = true) :
    cliScriptRef (.obj kvs) = .ok s := by
  cases s with
  | none => simp [cliScriptRef, J.getN, J.getD, h1, cliScriptJ, J.truthy]
  | some s =>
    obtain ⟨lang, body⟩ := s
    cases body with
    | json j => simp [scriptOK] at hs; omega
    | bytes b =>
      simp [scriptOK] at hs
      rcases hs.1 with rfl | rfl | rfl
      · simp [cliScriptRef, J.getN, J.getD, h1, cliScriptJ, J.truthy, cliScript, J.field, J.lookup, J.asStr,
          cliScriptType, fromHex_hexStr]
      · simp [cliScriptRef, J.getN, J.getD, h1, cliScriptJ, J.truthy, cliScript, J.field, J.lookup, J.asStr,
          cliScriptType, fromHex_hexStr]
      · simp [cliScriptRef, J.getN, J.getD, h1, cliScriptJ, J.truthy, cliScript, J.field, J.lookup, J.asStr,
          cliScriptType, fromHex_hexStr]

/-! ### Blockfrost -/

theorem bfItem_lovelace (c : Int) (st : Int × MultiAsset) :
    bfItem (.obj [("unit", .str "lovelace"), ("quantity", .str (intStr c))]) st = .ok (c, st.2) := by
  simp [bfItem, J.field, J.lookup, J.asStr, pyInt_intStr]

theorem bfAmount_render (u : UTxOModel) (h : WellFormed u) :
    bfAmount (.obj [("unit", .str "lovelace"), ("quantity", .str (intStr u.coin))] :: (flatten u.ma).map bfEntry) (0, [])
      = .ok (u.coin, u.ma) := by
  simp only [bfAmount, bfItem_lovelace, ok_bind]
  rw [bfAmount_entries _ _ (flatten_entryOK u.ma h.sizes), h.rebuild]

theorem shownHash_cases (aux : Aux) (u : UTxOModel) (hx : u.datumHash.isNone ∨ u.datum.isNone) :
    (u.datumHash = none ∧ u.datum = none ∧ shownHash aux u = none) ∨
    (∃ h, u.datumHash = some h ∧ u.datum = none ∧ shownHash aux u = some h) ∨
    (∃ p, u.datumHash = none ∧ u.datum = some p ∧ shownHash aux u = some aux.inlineHash) := by
  cases hh : u.datumHash with
  | some h =>
    have : u.datum = none := by simpa [hh] using hx
    right; left; exact ⟨h, rfl, this, by simp [shownHash, hh]⟩
  | none =>
    cases hd : u.datum with
    | none => left; exact ⟨rfl, rfl, by simp [shownHash, hh, hd]⟩
    | some p => right; right; exact ⟨p, rfl, rfl, by simp [shownHash, hh, hd]⟩

theorem bfDatumHash_render (aux : Aux) (u : UTxOModel) (hw : WellFormed u) (hb : bytesPayload u.datum = true) :
    bfDatumHash (.obj (bfMembers aux u)) = .ok u.datumHash := by
  have l1 : J.lookup (bfMembers aux u) "data_hash" = some (optStr (shownHash aux u)) := by simp [bfMembers, J.lookup]
  have l2 : J.lookup (bfMembers aux u) "inline_datum" = some (datumHexJ u.datum) := by simp [bfMembers, J.lookup]
  rcases shownHash_cases aux u hw.2.2.2.2.2.2 with ⟨h1, h2, h3⟩ | ⟨h, h1, h2, h3⟩ | ⟨p, h1, h2, h3⟩
  · simp [bfDatumHash, J.field, l1, h3, h1, optStr, J.truthy]
  · have hl : h.length = 32 := hw.2.2.2.2.2.1 h (by simp [h1])
    have hne : hexStr h ≠ "" := hexStr_ne_empty h (by intro h0; simp [h0] at hl)
    simp [bfDatumHash, J.field, l1, l2, h3, h1, h2, optStr, J.truthy, hne, datumHexJ, J.isNull, constrainedJ, J.asStr,
      constrained_hexStr 32 32 h (by omega)]
  · rw [h2] at hb
    rcases datumHexJ_cases (some p) hb with ⟨hc, _⟩ | ⟨b, hne, hp, hj⟩
    · simp at hc
    · simp only [bfDatumHash, J.field, l1, l2, h3, h1, h2, hj, optStr, J.truthy, J.isNull, ok_bind]
      split <;> simp

theorem bfDatum_render (aux : Aux) (u : UTxOModel) (hb : bytesPayload u.datum = true) :
    bfDatum (.obj (bfMembers aux u)) = .ok u.datum := by
  have l2 : J.lookup (bfMembers aux u) "inline_datum" = some (datumHexJ u.datum) := by simp [bfMembers, J.lookup]
  rcases datumHexJ_cases u.datum hb with ⟨hc, hj⟩ | ⟨b, hne, hp, hj⟩
  · simp [bfDatum, J.hasKey, J.field, l2, datumHexJ, J.isNull, hc]
  · simp [bfDatum, J.hasKey, J.field, l2, datumHexJ, J.isNull, hp, J.asStr, fromHex_hexStr]

theorem bfScript_render (aux : Aux) (s : ScriptM) (h : scriptOK [0, 1, 2, 3] (some s) = true) :
    bfScript (bfSide aux (some s)) (hexStr aux.scriptHash) = .ok s := by
  obtain ⟨lang, body⟩ := s
  have t0 : isPlutusType "timelock" = false := by decide
  have t1 : isPlutusType "plutusV1" = true ∧ lastDigit "plutusV1" = .ok 1 := ⟨by decide, by rfl⟩
  have t2 : isPlutusType "plutusV2" = true ∧ lastDigit "plutusV2" = .ok 2 := ⟨by decide, by rfl⟩
  have t3 : isPlutusType "plutusV3" = true ∧ lastDigit "plutusV3" = .ok 3 := ⟨by decide, by rfl⟩
  cases body with
  | json j =>
    simp [scriptOK] at h
    obtain ⟨_, rfl, hn⟩ := h
    simp [bfScript, bfSide, J.lookup, bfScriptInfo, J.field, J.asStr, bfScriptType, t0, nativeJson_ok j hn]
  | bytes b =>
    simp [scriptOK] at h
    rcases h.1 with rfl | rfl | rfl | rfl
    · exact absurd rfl h.2
    · simp [bfScript, bfSide, J.lookup, bfScriptInfo, J.field, J.asStr, bfScriptType, t1, fromHex_hexStr]
    · simp [bfScript, bfSide, J.lookup, bfScriptInfo, J.field, J.asStr, bfScriptType, t2, fromHex_hexStr]
    · simp [bfScript, bfSide, J.lookup, bfScriptInfo, J.field, J.asStr, bfScriptType, t3, fromHex_hexStr]

theorem bfScriptRef_render (aux : Aux) (u : UTxOModel) (hs : scriptOK [0, 1, 2, 3] u.script = true)
    (ha : aux.scriptHash.length = 28) :
    bfScriptRef (bfSide aux u.script) (.obj (bfMembers aux u)) = .ok u.script := by
  have l : J.lookup (bfMembers aux u) "reference_script_hash" = some (scriptHashJ aux u.script) := by
    simp [bfMembers, J.lookup]
  cases hsc : u.script with
  | none => simp [bfScriptRef, J.hasKey, J.field, l, hsc, scriptHashJ, J.truthy]
  | some s =>
    have hne : hexStr aux.scriptHash ≠ "" := hexStr_ne_empty _ (by intro h0; simp [h0] at ha)
    rw [hsc] at hs
    simp [bfScriptRef, J.hasKey, J.field, l, hsc, scriptHashJ, J.truthy, hne, J.asStr, bfScript_render aux s hs]

/-! ### Kupo -/

theorem hexStr_inj (a b : Bytes) (h : hexStr a = hexStr b) : a = b := by
  have := congrArg fromHex h
  simpa [fromHex_hexStr] using this

/-- what the Kupo path returns for `u`: an inline datum keeps the hash under which Kupo lists it -/
def kupoImage (aux : Aux) (u : UTxOModel) : UTxOModel := { u with datumHash := shownHash aux u }

theorem kupoScript_render (aux : Aux) (u : UTxOModel) (hs : scriptOK [1, 2, 3] u.script = true)
    (ha : aux.scriptHash.length = 28) : kupoScript (kupoSide aux u) (scriptHashJ aux u.script) = .ok u.script := by
  cases hsc : u.script with
  | none => simp [kupoScript, scriptHashJ, J.truthy]
  | some s =>
    rw [hsc] at hs
    obtain ⟨lang, body⟩ := s
    have hne : hexStr aux.scriptHash ≠ "" := hexStr_ne_empty _ (by intro h0; simp [h0] at ha)
    cases body with
    | json j => simp [scriptOK] at hs; omega
    | bytes b =>
      simp [scriptOK] at hs
      obtain ⟨hv, _⟩ := plutusLang_facts lang hs.1
      have hr : (1 : Int) ≤ lang ∧ (lang : Int) ≤ 3 := by omega
      simp [kupoScript, scriptHashJ, J.truthy, hne, J.asStr, kupoSide, hsc, J.lookup, kupoScriptInfo, J.field, hs.2, hv,
        hr, payloadJ, fromHex_hexStr]

theorem hashIfTruthy_str (h : Bytes) (hl : h.length = 32) : hashIfTruthy (.str (hexStr h)) = .ok (some h) := by
  simpa [optStr] using hashIfTruthy_optStr (some h) (by simpa using hl)

theorem kupoDatums_render (aux : Aux) (u : UTxOModel) (hw : WellFormed u) (hb : bytesPayload u.datum = true)
    (ha : u.datum.isSome → aux.inlineHash.length = 32)
    (hne : u.datum ≠ some (.bytes aux.inlineHash)) :
    kupoDatums (kupoSide aux u) (optStr (shownHash aux u)) (kupoDatumTypeJ aux u) = .ok (shownHash aux u, u.datum) := by
  rcases shownHash_cases aux u hw.2.2.2.2.2.2 with ⟨h1, h2, h3⟩ | ⟨h, h1, h2, h3⟩ | ⟨p, h1, h2, h3⟩
  · simp [kupoDatums, h3, optStr, hashIfTruthy, J.truthy, h2]
  · have hl : h.length = 32 := hw.2.2.2.2.2.1 h (by simp [h1])
    simp [kupoDatums, h3, hashIfTruthy_str h hl, kupoDatumTypeJ, h2, J.truthy, kupoDatum, optStr, J.asStr, kupoSide,
      J.lookup]
  · rw [h2] at hb
    rcases datumHexJ_cases (some p) hb with ⟨hc, _⟩ | ⟨b, hbne, hp, hj⟩
    · simp at hc
    · have hl : aux.inlineHash.length = 32 := ha (by simp [h2])
      have hp' : p = .bytes b := by simpa using hp
      subst hp'
      have hdiff : hexStr b ≠ hexStr aux.inlineHash := by
        intro he; apply hne; rw [h2, hexStr_inj _ _ he]
      simp [kupoDatums, h3, hashIfTruthy_str _ hl, kupoDatumTypeJ, h2, J.truthy, kupoDatum, optStr, J.asStr, kupoSide,
        J.lookup, J.field, J.eqPrim, hdiff, hexStr_ne_empty b hbne, fromHex_hexStr]

/-! ### whole responses -/

theorem parseList_map {α : Type} (f : J → Res α) (r : α → J) (us : List α) (h : ∀ u ∈ us, f (r u) = .ok u) :
    parseList f (us.map r) = .ok us := by
  induction us with
  | nil => simp [parseList]
  | cons u rest ih =>
    simp [parseList, h u (by simp), ih (fun x hx => h x (by simp [hx]))]

/-- the same for responses whose entries are rendered from richer descriptions (`g` extracts the UTxO) -/
theorem parseList_map' {α β : Type} (f : J → Res α) (r : β → J) (g : β → α) (xs : List β)
    (h : ∀ x ∈ xs, f (r x) = .ok (g x)) : parseList f (xs.map r) = .ok (xs.map g) := by
  induction xs with
  | nil => simp [parseList]
  | cons x rest ih =>
    simp [parseList, h x (by simp), ih (fun y hy => h y (by simp [hy]))]

/-! ### entries in any order -/

theorem qty_put (ma : MultiAsset) (p n : Bytes) (q : Int) (p' n' : Bytes) :
    MultiAsset.qty (put ma p n q) p' n' = if p = p' ∧ n = n' then q else MultiAsset.qty ma p' n' := by
  unfold MultiAsset.qty put Asset.qty
  rw [getD_set]
  by_cases hp : p = p'
  · subst hp
    rw [if_pos rfl, getD_set]
    by_cases hn : n = n' <;> simp [hn]
  · simp [hp]

/-- the key of an entry -/
def entryKey (e : Bytes × Bytes × Int) : Bytes × Bytes := (e.1, e.2.1)

theorem qty_putAll_absent (es : List (Bytes × Bytes × Int)) (ma : MultiAsset) (p n : Bytes)
    (h : (p, n) ∉ es.map entryKey) : MultiAsset.qty (putAll es ma) p n = MultiAsset.qty ma p n := by
  induction es generalizing ma with
  | nil => simp [putAll]
  | cons e r ih =>
    simp only [List.map_cons, List.mem_cons, not_or] at h
    simp only [putAll, List.foldl_cons] at ih ⊢
    rw [ih _ h.2, qty_put]
    have : ¬ (e.1 = p ∧ e.2.1 = n) := by
      rintro ⟨rfl, rfl⟩; exact h.1 rfl
    simp [this]

/-- entries with pairwise distinct (policy, name), inserted in ANY order (not necessarily grouped by policy),
each keep their own quantity -/
theorem qty_putAll_mem (es : List (Bytes × Bytes × Int)) (ma : MultiAsset) (p n : Bytes) (q : Int)
    (hd : (es.map entryKey).Nodup) (hm : (p, n, q) ∈ es) : MultiAsset.qty (putAll es ma) p n = q := by
  induction es generalizing ma with
  | nil => simp at hm
  | cons e r ih =>
    simp only [List.map_cons, List.nodup_cons] at hd
    simp only [putAll, List.foldl_cons] at ih ⊢
    rcases List.mem_cons.1 hm with rfl | hr
    · have := qty_putAll_absent r (put ma p n q) p n hd.1
      simp only [putAll] at this
      rw [this, qty_put]; simp
    · exact ih _ hd.2 hr

end Pyc.Backends
