import Pyc.Proofs.Dict

/-! Refinement of the Python-faithful `Asset` / `MultiAsset` / `Value` operations to functions
`name → Int`, `policy → name → Int`. -/

namespace Pyc

theorem subset_of_nodup_length {α} [DecidableEq α] {l₁ l₂ : List α}
    (h₁ : l₁.Nodup) (hsub : l₁ ⊆ l₂) (hlen : l₂.length ≤ l₁.length) : l₂ ⊆ l₁ := by
  induction l₁ generalizing l₂ with
  | nil =>
    have : l₂ = [] := List.eq_nil_of_length_eq_zero (by simpa using hlen)
    simp [this]
  | cons a t ih =>
    rw [List.nodup_cons] at h₁
    have ha : a ∈ l₂ := hsub List.mem_cons_self
    have htsub : t ⊆ l₂.erase a := by
      intro x hx
      have hxa : x ≠ a := fun h => h₁.1 (h ▸ hx)
      exact (List.mem_erase_of_ne hxa).2 (hsub (List.mem_cons_of_mem _ hx))
    have hlen' : (l₂.erase a).length ≤ t.length := by
      rw [List.length_erase]; simp [ha]; simp at hlen; omega
    have := ih h₁.2 htsub hlen'
    intro x hx
    by_cases hxa : x = a
    · simp [hxa]
    · exact List.mem_cons_of_mem _ (this ((List.mem_erase_of_ne hxa).2 hx))

namespace Asset
open Dict

/-- no zero quantity is stored -/
def Normal (a : Asset) : Prop := ∀ p ∈ a, p.2 ≠ 0

theorem normal_normalize (a : Asset) : Normal (normalize a) := by
  intro p hp; simp [normalize] at hp; exact hp.2

theorem wf_normalize (a : Asset) (h : WF a) : WF (normalize a) := wf_filter _ _ h

theorem qty_normalize (a : Asset) (n : Bytes) (h : WF a) : qty (normalize a) n = qty a n := by
  unfold qty normalize
  rw [getD_filter _ _ _ _ h]
  cases hh : has a n with
  | false => simp [has_false_getD _ _ _ hh]
  | true =>
    by_cases hz : getD a n 0 = 0
    · simp [hz]
    · simp [hz]

theorem has_normalize (a : Asset) (n : Bytes) (h : WF a) : has (normalize a) n = (has a n && qty a n != 0) := by
  unfold normalize qty
  rw [has_filter _ _ _ 0 h]

theorem normalize_of_normal (a : Asset) (h : Normal a) : normalize a = a := by
  unfold normalize
  rw [List.filter_eq_self]
  intro p hp; simpa using h p hp

theorem qty_add (a b : Asset) (n : Bytes) (ha : WF a) (hb : WF b) : qty (add a b) n = qty a n + qty b n := by
  unfold add addRaw
  rw [qty_normalize _ _ (wf_merge _ _ _ _ ha)]
  unfold qty
  rw [getD_merge _ _ _ _ _ hb]
  cases hh : has b n with
  | false => simp [has_false_getD _ _ _ hh]
  | true => simp

theorem qty_sub (a b : Asset) (n : Bytes) (ha : WF a) (hb : WF b) : qty (sub a b) n = qty a n - qty b n := by
  unfold sub subRaw
  rw [qty_normalize _ _ (wf_merge _ _ _ _ ha)]
  unfold qty
  rw [getD_merge _ _ _ _ _ hb]
  cases hh : has b n with
  | false => simp [has_false_getD _ _ _ hh]
  | true => simp

theorem wf_add (a b : Asset) (ha : WF a) : WF (add a b) := wf_normalize _ (wf_merge _ _ _ _ ha)
theorem wf_sub (a b : Asset) (ha : WF a) : WF (sub a b) := wf_normalize _ (wf_merge _ _ _ _ ha)
theorem normal_add (a b : Asset) : Normal (add a b) := normal_normalize _
theorem normal_sub (a b : Asset) : Normal (sub a b) := normal_normalize _

theorem has_of_qty_ne (a : Asset) (n : Bytes) (h : qty a n ≠ 0) : has a n = true := by
  cases hh : has a n with
  | true => rfl
  | false => exact absurd (has_false_getD _ _ _ hh) h

theorem qty_ne_of_has (a : Asset) (n : Bytes) (hw : WF a) (hn : Normal a) (h : has a n = true) : qty a n ≠ 0 :=
  hn (n, getD a n 0) ((mem_iff_getD a n _ 0 hw).2 ⟨h, rfl⟩)

/-- for normal dicts, the key set is the support of `qty` -/
theorem has_iff_qty (a : Asset) (n : Bytes) (hw : WF a) (hn : Normal a) : has a n = true ↔ qty a n ≠ 0 :=
  ⟨qty_ne_of_has a n hw hn, has_of_qty_ne a n⟩

theorem getD_of_not_mem_keys (a : Asset) (n : Bytes) (h : n ∉ keys a) : getD a n 0 = 0 := by
  apply has_false_getD
  cases hh : has a n with
  | false => rfl
  | true => exact absurd ((has_iff_mem a n).1 hh) h

/-- `__eq__` is component-wise equality (absent = 0) — for all association lists, repeated keys, stored zeros and
negative quantities included -/
theorem eq_iff (a b : Asset) : eq a b = true ↔ ∀ n, qty a n = qty b n := by
  unfold eq qty
  simp only [List.all_eq_true, List.mem_append, beq_iff_eq]
  constructor
  · intro h n
    by_cases hk : n ∈ keys a ∨ n ∈ keys b
    · exact h n hk
    · rw [getD_of_not_mem_keys a n (fun hc => hk (Or.inl hc)), getD_of_not_mem_keys b n (fun hc => hk (Or.inr hc))]
  · intro h n _; exact h n

/-- the enumeration of `set(self) | set(other)` is irrelevant for `==` as well -/
theorem eq_enumeration (a b : Asset) (ks : List Bytes) (h : ∀ k, k ∈ ks ↔ k ∈ keys a ∨ k ∈ keys b) :
    ks.all (fun n => getD a n 0 == getD b n 0) = eq a b := by
  unfold eq
  rw [Bool.eq_iff_iff]
  simp only [List.all_eq_true, List.mem_append]
  exact ⟨fun hh n hn => hh n ((h n).2 hn), fun hh n hn => hh n ((h n).1 hn)⟩

/-- `__le__` is the component-wise order (absent = 0) — for all association lists, repeated keys, stored zeros
and negative quantities included -/
theorem le_iff (a b : Asset) : le a b = true ↔ ∀ n, qty a n ≤ qty b n := by
  unfold le qty
  simp only [List.all_eq_true, List.mem_append, Bool.not_eq_eq_eq_not, Bool.not_true, decide_eq_false_iff_not,
    Int.not_lt, gt_iff_lt]
  constructor
  · intro h n
    by_cases hk : n ∈ keys a ∨ n ∈ keys b
    · exact h n hk
    · have h1 : has a n = false := by
        cases hh : has a n with
        | false => rfl
        | true => exact absurd (Or.inl ((has_iff_mem a n).1 hh)) hk
      have h2 : has b n = false := by
        cases hh : has b n with
        | false => rfl
        | true => exact absurd (Or.inr ((has_iff_mem b n).1 hh)) hk
      rw [has_false_getD _ _ _ h1, has_false_getD _ _ _ h2]
      exact Int.le_refl 0
  · intro h n _; exact h n

/-- the order (and multiplicity) in which the union of the key sets is enumerated is irrelevant: what Python's
`set(self) | set(other)` iterates over, in whatever order, gives the answer of the model -/
theorem le_enumeration (a b : Asset) (ks : List Bytes) (h : ∀ k, k ∈ ks ↔ k ∈ keys a ∨ k ∈ keys b) :
    ks.all (fun n => !decide (getD a n 0 > getD b n 0)) = le a b := by
  unfold le
  rw [Bool.eq_iff_iff]
  simp only [List.all_eq_true, List.mem_append]
  exact ⟨fun hh n hn => hh n ((h n).2 hn), fun hh n hn => hh n ((h n).1 hn)⟩

end Asset

namespace MultiAsset
open Dict

/-- representation invariant: unique policies, each inner dict with unique names -/
def WF (m : MultiAsset) : Prop := Dict.WF m ∧ ∀ p ∈ m, Dict.WF p.2

/-- no empty policy and no zero quantity is stored -/
def Normal (m : MultiAsset) : Prop := ∀ p ∈ m, p.2 ≠ [] ∧ Asset.Normal p.2

instance (m : List (Bytes × Int)) : Decidable (Dict.WF m) := by unfold Dict.WF; infer_instance
instance (m : MultiAsset) : Decidable (WF m) := by unfold WF Dict.WF; infer_instance

theorem wf_nil : WF [] := ⟨Dict.wf_nil, by simp⟩

theorem wf_getD (m : MultiAsset) (p : Bytes) (h : WF m) : Dict.WF (getD m p []) := by
  cases hh : has m p with
  | false => rw [has_false_getD _ _ _ hh]; exact Dict.wf_nil
  | true => exact h.2 (p, getD m p []) ((mem_iff_getD m p _ [] h.1).2 ⟨hh, rfl⟩)

theorem normal_normalize (m : MultiAsset) : Normal (normalize m) := by
  intro p hp
  simp [normalize] at hp
  obtain ⟨⟨a, b, hab, rfl⟩, hne⟩ := hp
  exact ⟨by simpa using hne, Asset.normal_normalize _⟩

theorem wf_normalize (m : MultiAsset) (h : WF m) : WF (normalize m) := by
  constructor
  · exact wf_filter _ _ (wf_map m Asset.normalize h.1)
  · intro p hp
    simp [normalize] at hp
    obtain ⟨⟨a, b, hab, rfl⟩, _⟩ := hp
    exact Asset.wf_normalize _ (h.2 _ hab)

theorem qty_normalize (m : MultiAsset) (p n : Bytes) (h : WF m) : qty (normalize m) p n = qty m p n := by
  unfold qty normalize
  have hw := wf_map m Asset.normalize h.1
  rw [getD_filter _ _ _ _ hw]
  have hg : getD (m.map fun p => (p.1, Asset.normalize p.2)) p [] = Asset.normalize (getD m p []) := by
    have := getD_map m Asset.normalize p []
    simpa [Asset.normalize] using this
  rw [hg, has_map]
  cases hh : has m p with
  | false => simp [has_false_getD _ _ _ hh, Asset.normalize]
  | true =>
    by_cases he : (Asset.normalize (getD m p [])).isEmpty = true
    · simp only [he, Bool.not_true, Bool.and_false, Bool.false_eq_true, if_false]
      have e1 : Asset.normalize (getD m p []) = [] := by simpa using he
      have := Asset.qty_normalize (getD m p []) n (wf_getD m p h)
      rw [e1] at this
      exact this
    · simp only [he, Bool.not_false, Bool.and_true, if_true]
      exact Asset.qty_normalize _ _ (wf_getD m p h)

theorem wf_merge' (op : Asset → Asset → Asset) (hop : ∀ x y, Dict.WF x → Dict.WF (op x y))
    (a b : MultiAsset) (ha : WF a) : WF (merge op [] a b) := by
  unfold merge
  induction b generalizing a with
  | nil => simpa
  | cons p r ih =>
    simp only [List.foldl_cons]
    apply ih
    constructor
    · exact wf_set _ _ _ ha.1
    · intro q hq
      obtain ⟨k, v⟩ := q
      have hw := wf_set a p.1 (op (getD a p.1 []) p.2) ha.1
      have := (mem_iff_getD _ k v [] hw).1 hq
      rw [getD_set] at this
      by_cases hk : p.1 = k
      · simp [hk] at this
        rw [← this.2, ← hk]
        exact hop _ _ (wf_getD a p.1 ha)
      · simp [hk] at this
        rw [has_set] at this
        simp [hk] at this
        exact ha.2 (k, v) ((mem_iff_getD a k v [] ha.1).2 this)

theorem wf_add (a b : MultiAsset) (ha : WF a) : WF (add a b) :=
  wf_normalize _ (wf_merge' _ (fun x y hx => Asset.wf_add x y hx) a b ha)
theorem wf_sub (a b : MultiAsset) (ha : WF a) : WF (sub a b) :=
  wf_normalize _ (wf_merge' _ (fun x y hx => Asset.wf_sub x y hx) a b ha)
theorem normal_add (a b : MultiAsset) : Normal (add a b) := normal_normalize _
theorem normal_sub (a b : MultiAsset) : Normal (sub a b) := normal_normalize _

theorem qty_add (a b : MultiAsset) (p n : Bytes) (ha : WF a) (hb : WF b) :
    qty (add a b) p n = qty a p n + qty b p n := by
  unfold add addRaw
  rw [qty_normalize _ _ _ (wf_merge' _ (fun x y hx => Asset.wf_add x y hx) a b ha)]
  unfold qty
  rw [getD_merge _ _ _ _ _ hb.1]
  cases hh : has b p with
  | false => simp [has_false_getD _ _ _ hh, Asset.qty, getD]
  | true => simp only [if_true]; exact Asset.qty_add _ _ _ (wf_getD a p ha) (wf_getD b p hb)

theorem qty_sub (a b : MultiAsset) (p n : Bytes) (ha : WF a) (hb : WF b) :
    qty (sub a b) p n = qty a p n - qty b p n := by
  unfold sub subRaw
  rw [qty_normalize _ _ _ (wf_merge' _ (fun x y hx => Asset.wf_sub x y hx) a b ha)]
  unfold qty
  rw [getD_merge _ _ _ _ _ hb.1]
  cases hh : has b p with
  | false => simp [has_false_getD _ _ _ hh, Asset.qty, getD]
  | true => simp only [if_true]; exact Asset.qty_sub _ _ _ (wf_getD a p ha) (wf_getD b p hb)

end MultiAsset

end Pyc

namespace Pyc
namespace MultiAsset
open Dict

theorem mem_getD (m : MultiAsset) (p : Bytes) (hw : WF m) (hh : has m p = true) : (p, getD m p []) ∈ m :=
  (mem_iff_getD m p _ [] hw.1).2 ⟨hh, rfl⟩

theorem getD_of_mem (m : MultiAsset) (p : Bytes) (x : Asset) (hw : WF m) (h : (p, x) ∈ m) :
    has m p = true ∧ getD m p [] = x := (mem_iff_getD m p x [] hw.1).1 h

theorem qty_of_not_has (m : MultiAsset) (p n : Bytes) (hh : has m p = false) : qty m p n = 0 := by
  simp [qty, has_false_getD _ _ _ hh, Asset.qty, getD]

/-- for normal bundles the policy set is the support of `qty` -/
theorem has_iff_qty (m : MultiAsset) (p : Bytes) (hw : WF m) (hn : Normal m) :
    has m p = true ↔ ∃ n, qty m p n ≠ 0 := by
  constructor
  · intro hh
    have hm := mem_getD m p hw hh
    have := hn _ hm
    obtain ⟨hne, hnorm⟩ := this
    simp only at hne hnorm
    cases hx : getD m p [] with
    | nil => exact absurd hx hne
    | cons q r =>
      refine ⟨q.1, ?_⟩
      have : qty m p q.1 = q.2 := by simp [qty, hx, Asset.qty, getD]
      rw [this]
      exact hnorm q (by rw [hx]; simp)
  · rintro ⟨n, hn'⟩
    cases hh : has m p with
    | true => rfl
    | false => exact absurd (qty_of_not_has m p n hh) hn'

/-- all stored quantities non-negative -/
def NonNeg (m : MultiAsset) : Prop := ∀ p ∈ m, ∀ q ∈ p.2, 0 ≤ q.2

theorem qty_of_not_mem (m : MultiAsset) (p n : Bytes) (h : p ∉ keys m) : qty m p n = 0 := by
  apply qty_of_not_has
  cases hh : has m p with
  | false => rfl
  | true => exact absurd ((has_iff_mem m p).1 hh) h

/-- `__le__` is the component-wise order (absent = 0) — for all association lists, repeated keys, empty policies,
stored zeros and negative quantities included -/
theorem le_iff (a b : MultiAsset) : le a b = true ↔ ∀ p n, qty a p n ≤ qty b p n := by
  unfold le
  simp only [List.all_eq_true, List.mem_append, Asset.le_iff]
  constructor
  · intro h p n
    by_cases hk : p ∈ keys a ∨ p ∈ keys b
    · exact h p hk n
    · rw [qty_of_not_mem a p n (fun hc => hk (Or.inl hc)), qty_of_not_mem b p n (fun hc => hk (Or.inr hc))]
      exact Int.le_refl 0
  · intro h p _ n; exact h p n

/-- the enumeration of the union of the policy sets is irrelevant (see `Asset.le_enumeration`) -/
theorem le_enumeration (a b : MultiAsset) (ks : List Bytes) (h : ∀ k, k ∈ ks ↔ k ∈ keys a ∨ k ∈ keys b) :
    ks.all (fun p => Asset.le (getD a p []) (getD b p [])) = le a b := by
  unfold le
  rw [Bool.eq_iff_iff]
  simp only [List.all_eq_true, List.mem_append]
  exact ⟨fun hh n hn => hh n ((h n).2 hn), fun hh n hn => hh n ((h n).1 hn)⟩

/-- `__eq__` is component-wise equality (absent = 0) — for all association lists, repeated keys, empty policies,
stored zeros and negative quantities included -/
theorem eq_iff (a b : MultiAsset) : eq a b = true ↔ ∀ p n, qty a p n = qty b p n := by
  unfold eq
  simp only [List.all_eq_true, List.mem_append, Asset.eq_iff]
  constructor
  · intro h p n
    by_cases hk : p ∈ keys a ∨ p ∈ keys b
    · exact h p hk n
    · rw [qty_of_not_mem a p n (fun hc => hk (Or.inl hc)), qty_of_not_mem b p n (fun hc => hk (Or.inr hc))]
  · intro h p _ n; exact h p n

theorem eq_enumeration (a b : MultiAsset) (ks : List Bytes) (h : ∀ k, k ∈ ks ↔ k ∈ keys a ∨ k ∈ keys b) :
    ks.all (fun p => Asset.eq (getD a p []) (getD b p [])) = eq a b := by
  unfold eq
  rw [Bool.eq_iff_iff]
  simp only [List.all_eq_true, List.mem_append]
  exact ⟨fun hh n hn => hh n ((h n).2 hn), fun hh n hn => hh n ((h n).1 hn)⟩

end MultiAsset
end Pyc

namespace Pyc
namespace Value

def WF (v : Value) : Prop := MultiAsset.WF v.ma
def Normal (v : Value) : Prop := MultiAsset.Normal v.ma
instance (v : Value) : Decidable (WF v) := by unfold WF; infer_instance
/-- the abstraction of a value: its ADA and the quantity of every asset -/
def qty (v : Value) (p n : Bytes) : Int := MultiAsset.qty v.ma p n

/-- component-wise equality of contents -/
def Same (a b : Value) : Prop := a.coin = b.coin ∧ ∀ p n, qty a p n = qty b p n

/-- `==` is component-wise equality of contents, for all operands -/
theorem eq_iff (a b : Value) : eq a b = true ↔ Same a b := by
  unfold eq Same qty
  simp only [Bool.and_eq_true, beq_iff_eq]
  rw [MultiAsset.eq_iff]

/-- `<=` is the component-wise order on contents, for all operands -/
theorem le_iff (a b : Value) : le a b = true ↔ a.coin ≤ b.coin ∧ ∀ p n, qty a p n ≤ qty b p n := by
  unfold le qty
  simp only [Bool.and_eq_true, decide_eq_true_eq]
  rw [MultiAsset.le_iff]

/-- `<` is `<=` and not `==`, for all operands (`Value.__lt__` is that composition) -/
theorem lt_iff_le_ne (a b : Value) :
    lt a b = true ↔ (a.coin ≤ b.coin ∧ ∀ p n, qty a p n ≤ qty b p n) ∧ eq a b = false := by
  unfold lt
  simp only [Bool.and_eq_true, Bool.not_eq_true']
  rw [le_iff]

/-- `<` is the strict component-wise order, for all operands -/
theorem lt_iff (a b : Value) :
    lt a b = true ↔ (a.coin ≤ b.coin ∧ ∀ p n, qty a p n ≤ qty b p n) ∧ ¬ Same a b := by
  rw [lt_iff_le_ne, ← eq_iff a b]
  simp

end Value
end Pyc

set_option linter.unusedSimpArgs false

namespace Pyc
namespace MultiAsset
open Dict

/-- `m[p][n] = v` (creating the policy when absent) overwrites exactly one cell -/
theorem qty_set_inner (m : MultiAsset) (p k : Bytes) (v : Int) (p' n' : Bytes) :
    qty (set m p (set (getD m p []) k v)) p' n' = if p = p' ∧ k = n' then v else qty m p' n' := by
  unfold qty Asset.qty
  rw [getD_set]
  by_cases hp : p = p'
  · subst hp
    simp only [if_true, true_and]
    rw [getD_set]
  · simp [hp]

theorem wf_set_inner (m : MultiAsset) (p k : Bytes) (v : Int) (h : WF m) :
    WF (set m p (set (getD m p []) k v)) := by
  have hw := wf_set m p (set (getD m p []) k v) h.1
  refine ⟨hw, ?_⟩
  intro q hq
  obtain ⟨kk, x⟩ := q
  have := (mem_iff_getD _ kk x [] hw).1 hq
  rw [getD_set, has_set] at this
  by_cases hk : p = kk
  · subst hk
    simp at this
    rw [← this]
    exact wf_set _ _ _ (wf_getD m p h)
  · simp [hk] at this
    exact h.2 (kk, x) ((mem_iff_getD m kk x [] h.1).2 this)

theorem filterInner_spec (c : Bytes → Bytes → Int → Bool) (p : Bytes) (a : Asset) (acc : MultiAsset)
    (ha : Dict.WF a) (p' n' : Bytes) :
    qty (filterInner c p a acc) p' n'
      = if p = p' ∧ has a n' = true ∧ c p n' (Asset.qty a n') = true then Asset.qty a n' else qty acc p' n' := by
  unfold filterInner
  induction a generalizing acc with
  | nil => simp [has]
  | cons kv r ih =>
    obtain ⟨k, v⟩ := kv
    have hr := wf_tail ha
    have hh : has r k = false := wf_head ha
    simp only [List.foldl_cons]
    rw [ih _ hr]
    by_cases hk : k = n'
    · subst hk
      have q1 : Asset.qty ((k, v) :: r) k = v := by simp [Asset.qty, getD]
      simp only [hh, has, q1, Bool.false_eq_true, false_and, and_false, if_false, beq_self_eq_true, Bool.true_or,
        true_and, decide_true]
      by_cases hc : c p k v = true
      · simp only [hc, if_true, and_true]
        rw [qty_set_inner]
        simp
      · simp [hc]
    · have q1 : Asset.qty ((k, v) :: r) n' = Asset.qty r n' := by simp [Asset.qty, getD, hk]
      have h1 : has ((k, v) :: r) n' = has r n' := by simp [has, hk]
      rw [q1, h1]
      by_cases hc : c p k v = true
      · simp only [hc, if_true]
        rw [qty_set_inner]
        simp [hk]
      · simp [hc]

theorem filterInner_wf (c : Bytes → Bytes → Int → Bool) (p : Bytes) (a : Asset) (acc : MultiAsset) (h : WF acc) :
    WF (filterInner c p a acc) := by
  unfold filterInner
  induction a generalizing acc with
  | nil => simpa
  | cons kv r ih =>
    simp only [List.foldl_cons]
    apply ih
    split
    · exact wf_set_inner _ _ _ _ h
    · exact h

/-- `MultiAsset.filter` keeps exactly the cells satisfying the criterion -/
theorem filter_spec_aux (c : Bytes → Bytes → Int → Bool) (m acc : MultiAsset) (hm : WF m) (p' n' : Bytes) :
    qty (m.foldl (fun acc p => filterInner c p.1 p.2 acc) acc) p' n'
      = if has m p' = true ∧ has (getD m p' []) n' = true ∧ c p' n' (qty m p' n') = true then qty m p' n'
        else qty acc p' n' := by
  induction m generalizing acc with
  | nil => simp [has]
  | cons pa r ih =>
    obtain ⟨pol, a⟩ := pa
    have hr : WF r := ⟨wf_tail hm.1, fun q hq => hm.2 q (by simp [hq])⟩
    have ha : Dict.WF a := hm.2 (pol, a) (by simp)
    have hh : has r pol = false := wf_head hm.1
    simp only [List.foldl_cons]
    rw [ih _ hr, filterInner_spec c pol a acc ha]
    by_cases hp : pol = p'
    · subst hp
      have q1 : qty ((pol, a) :: r) pol n' = Asset.qty a n' := by simp [qty, getD]
      have g1 : getD ((pol, a) :: r) pol [] = a := by simp [getD]
      simp only [hh, has, q1, g1, Bool.false_eq_true, false_and, if_false, beq_self_eq_true, Bool.true_or, true_and,
        decide_true]
    · have q1 : qty ((pol, a) :: r) p' n' = qty r p' n' := by simp [qty, getD, hp]
      have g1 : getD ((pol, a) :: r) p' [] = getD r p' [] := by simp [getD, hp]
      have h1 : has ((pol, a) :: r) p' = has r p' := by simp [has, hp]
      rw [q1, g1, h1]
      simp [hp]

theorem filter_spec (c : Bytes → Bytes → Int → Bool) (m : MultiAsset) (hm : WF m) (p n : Bytes) :
    qty (filter m c) p n
      = if has m p = true ∧ has (getD m p []) n = true ∧ c p n (qty m p n) = true then qty m p n else 0 := by
  unfold filter
  rw [filter_spec_aux c m [] hm]
  have : qty [] p n = 0 := by simp [qty, getD, Asset.qty]
  rw [this]

theorem filter_wf (c : Bytes → Bytes → Int → Bool) (m : MultiAsset) : WF (filter m c) := by
  unfold filter
  suffices ∀ acc, WF acc → WF (m.foldl (fun acc p => filterInner c p.1 p.2 acc) acc) from this [] wf_nil
  induction m with
  | nil => intro acc h; simpa
  | cons pa r ih => intro acc h; simp only [List.foldl_cons]; exact ih _ (filterInner_wf c _ _ _ h)

/-- the filter used throughout the builder: keep strictly positive quantities -/
theorem filter_pos_spec (m : MultiAsset) (hm : WF m) (p n : Bytes) :
    qty (filter m (fun _ _ v => decide (v > 0))) p n = if qty m p n > 0 then qty m p n else 0 := by
  rw [filter_spec _ m hm]
  by_cases hq : qty m p n > 0
  · have h1 : has m p = true := by
      cases hh : has m p with
      | true => rfl
      | false => rw [qty_of_not_has _ _ _ hh] at hq; omega
    have h2 : has (getD m p []) n = true := by
      cases hh : has (getD m p []) n with
      | true => rfl
      | false =>
        have : qty m p n = 0 := by simp [qty, Asset.qty, has_false_getD _ _ _ hh]
        omega
    simp [h1, h2, hq]
  · simp [hq]

end MultiAsset
end Pyc

/-! ## the repair of KF-C05-le-negative changes no answer on the operands pycardano produces

`leOld` is `__le__` as it was before the repair (keys of the left operand only; a key missing on the right is
"not <=").  On well-formed operands of which the left stores only positive quantities (and no empty policy) and the
right only non-negative ones — every value of the ledger, every request and selected amount of the selectors on valid
inputs — the repaired `le` returns exactly what `leOld` returned. -/

namespace Pyc
namespace Asset
open Dict

/-- `Asset.__le__` before the repair -/
def leOld (a b : Asset) : Bool := a.all (fun p => has b p.1 && decide (p.2 ≤ getD b p.1 0))

/-- the key-directed `__le__` was the component-wise order when the left operand stores only positive and the right
only non-negative quantities (the region in which pycardano uses it) -/
theorem leOld_iff (a b : Asset) (ha : WF a) (hb : WF b)
    (pa : ∀ p ∈ a, 0 < p.2) (pb : ∀ p ∈ b, 0 ≤ p.2) :
    leOld a b = true ↔ ∀ n, qty a n ≤ qty b n := by
  unfold leOld
  simp only [List.all_eq_true, Bool.and_eq_true, decide_eq_true_eq]
  have nonneg_b : ∀ n, 0 ≤ qty b n := by
    intro n
    cases hh : has b n with
    | false => simp [qty, has_false_getD _ _ _ hh]
    | true => exact pb (n, getD b n 0) ((mem_iff_getD b n _ 0 hb).2 ⟨hh, rfl⟩)
  constructor
  · intro hall n
    cases hh : has a n with
    | true =>
      have hm : (n, getD a n 0) ∈ a := (mem_iff_getD a n _ 0 ha).2 ⟨hh, rfl⟩
      exact (hall _ hm).2
    | false =>
      simp only [qty, has_false_getD _ _ _ hh]
      exact nonneg_b n
  · intro h p hp
    obtain ⟨k, v⟩ := p
    have hq : qty a k = v := ((mem_iff_getD a k v 0 ha).1 hp).2
    have hv : 0 < v := pa _ hp
    have hk := h k
    rw [hq] at hk
    refine ⟨has_of_qty_ne b k (by omega), ?_⟩
    simpa [qty] using hk

end Asset

namespace MultiAsset
open Dict

/-- `MultiAsset.__le__` before the repair -/
def leOld (a b : MultiAsset) : Bool := a.all (fun p => has b p.1 && Asset.leOld p.2 (getD b p.1 []))

/-- all stored quantities positive, no empty policy -/
def Pos (m : MultiAsset) : Prop := ∀ p ∈ m, p.2 ≠ [] ∧ ∀ q ∈ p.2, 0 < q.2

theorem leOld_iff (a b : MultiAsset) (ha : WF a) (hb : WF b) (pa : Pos a) (pb : NonNeg b) :
    leOld a b = true ↔ ∀ p n, qty a p n ≤ qty b p n := by
  unfold leOld
  simp only [List.all_eq_true, Bool.and_eq_true]
  have nonneg_b : ∀ p n, 0 ≤ qty b p n := by
    intro p n
    cases hh : has b p with
    | false => simp [qty_of_not_has _ _ _ hh]
    | true =>
      have hm := mem_getD b p hb hh
      cases hn : has (getD b p []) n with
      | false => simp [qty, Asset.qty, has_false_getD _ _ _ hn]
      | true =>
        exact pb _ hm (n, getD (getD b p []) n 0) ((mem_iff_getD _ n _ 0 (hb.2 _ hm)).2 ⟨hn, rfl⟩)
  constructor
  · intro hall p n
    cases hh : has a p with
    | true =>
      have hm := mem_getD a p ha hh
      have h2 := hall _ hm
      have hbm := mem_getD b p hb h2.1
      exact (Asset.leOld_iff _ _ (ha.2 _ hm) (hb.2 _ hbm) (pa _ hm).2 (pb _ hbm)).1 h2.2 n
    | false =>
      rw [qty_of_not_has _ _ _ hh]; exact nonneg_b p n
  · intro h q hq
    obtain ⟨k, x⟩ := q
    have hk := getD_of_mem a k x ha hq
    have hpos := pa _ hq
    simp only at hpos
    have hbk : has b k = true := by
      cases hx : x with
      | nil => exact absurd hx hpos.1
      | cons q0 r =>
        have h1 : qty a k q0.1 = q0.2 := by simp [qty, hk.2, hx, Asset.qty, getD]
        have h2 : 0 < q0.2 := hpos.2 q0 (by rw [hx]; simp)
        have h3 := h k q0.1
        cases hf : has b k with
        | true => rfl
        | false => rw [qty_of_not_has _ _ _ hf] at h3; omega
    refine ⟨hbk, ?_⟩
    have hbm := mem_getD b k hb hbk
    apply (Asset.leOld_iff _ _ (ha.2 _ hq) (hb.2 _ hbm) hpos.2 (pb _ hbm)).2
    intro n
    have := h k n
    simp only [qty, hk.2] at this
    exact this

end MultiAsset

namespace Value

/-- `Value.__le__` before the repair -/
def leOld (a b : Value) : Bool := decide (a.coin ≤ b.coin) && MultiAsset.leOld a.ma b.ma

theorem le_eq_leOld (a b : Value) (ha : WF a) (hb : WF b) (pa : MultiAsset.Pos a.ma) (pb : MultiAsset.NonNeg b.ma) :
    le a b = leOld a b := by
  rw [Bool.eq_iff_iff, le_iff]
  unfold leOld qty
  simp only [Bool.and_eq_true, decide_eq_true_eq]
  rw [MultiAsset.leOld_iff _ _ ha hb pa pb]

end Value
end Pyc
