import Pyc.Model.Plutus
import Pyc.Proofs.Cbor

/-! Lemmas for C18: chunking, bignum payloads, and the structural lemmas that relate the routes by which a datum
reaches `cbor2.dumps` (plain lists, explicit `IndefiniteList`s, typed instances, the JSON form, decoding) to the
specification `specItem`. -/

set_option linter.unusedSimpArgs false
set_option linter.unusedVariables false

namespace Pyc.Plutus
open Pyc Pyc.Cbor

/-! ## chunking -/

theorem joinChunks_specChunksAux (fuel : Nat) (b : Bytes) : joinChunks (specChunksAux fuel b) = b := by
  induction fuel generalizing b with
  | zero => simp [specChunksAux, joinChunks]
  | succ fuel ih =>
    unfold specChunksAux
    split
    · simp [joinChunks]
    · simp [joinChunks, ih]

/-- the shape of a chunk list of a string longer than 64 bytes: all chunks 64 bytes, the last one 1..64 -/
def ChunkShape : List Bytes → Prop
  | [] => False
  | [c] => 0 < c.length ∧ c.length ≤ 64
  | c :: c' :: r => c.length = 64 ∧ ChunkShape (c' :: r)

theorem chunkShape_aux (fuel : Nat) (b : Bytes) (hb : 0 < b.length) (hf : b.length ≤ fuel) :
    ChunkShape (specChunksAux fuel b) := by
  induction fuel generalizing b with
  | zero => omega
  | succ fuel ih =>
    unfold specChunksAux
    split
    · exact ⟨hb, by assumption⟩
    · rename_i hlen
      have hd : (b.drop 64).length = b.length - 64 := by simp
      have ih' := ih (b.drop 64) (by omega) (by omega)
      have ht : (b.take 64).length = 64 := by simp; omega
      generalize specChunksAux fuel (b.drop 64) = r at ih'
      cases r with
      | nil => exact ih'.elim
      | cons c r => exact ⟨ht, ih'⟩

theorem pyChunksFrom_eq (b : Bytes) (n i fuel : Nat) (hpos : 0 < (b.drop i).length)
    (hn : n = ((b.drop i).length + 63) / 64) (hf : (b.drop i).length ≤ fuel) :
    pyChunksFrom b n i = specChunksAux fuel (b.drop i) := by
  induction n generalizing i fuel with
  | zero => omega
  | succ n ih =>
    cases fuel with
    | zero => omega
    | succ fuel =>
      unfold pyChunksFrom specChunksAux
      have hdd : (b.drop i).drop 64 = b.drop (i + 64) := by simp [List.drop_drop]
      have hl : (b.drop (i + 64)).length = (b.drop i).length - 64 := by simp; omega
      split
      · rename_i hle
        have : n = 0 := by omega
        subst this
        simp [pyChunksFrom, List.take_of_length_le hle]
      · rename_i hgt
        rw [hdd, ih (i + 64) fuel (by omega) (by omega) (by omega)]

theorem pyChunks_eq (b : Bytes) (h : 64 < b.length) : pyChunks b = specChunks b := by
  unfold pyChunks specChunks
  have := pyChunksFrom_eq b ((b.length + 63) / 64) 0 b.length (by simp; omega) (by simp) (by simp)
  simpa using this

theorem encByteString_eq (b : Bytes) : encByteString b = specBytes b := by
  unfold encByteString specBytes
  by_cases h : b.length ≤ 64
  · rw [if_neg (by omega), if_pos h]
  · rw [if_pos (by omega), if_neg h, pyChunks_eq b (by omega)]

/-! ## bignum payloads -/

theorem fromBE_acc (bs : Bytes) (a : Nat) : fromBE bs a = a * 256 ^ bs.length + fromBE bs 0 := by
  induction bs generalizing a with
  | nil => simp [fromBE]
  | cons x xs ih =>
    simp only [fromBE, List.length_cons]
    rw [ih (a * 256 + x.toNat), ih (0 * 256 + x.toNat)]
    rw [Nat.pow_succ]
    simp only [Nat.zero_mul, Nat.zero_add]
    rw [Nat.add_mul, Nat.mul_assoc, Nat.mul_comm 256, Nat.add_assoc]

theorem fromBE_natBytesAux (fuel n : Nat) (acc : Bytes) (h : n ≤ fuel) :
    fromBE (natBytesAux fuel n acc) 0 = n * 256 ^ acc.length + fromBE acc 0 := by
  induction fuel generalizing n acc with
  | zero =>
    have : n = 0 := by omega
    subst this
    simp [natBytesAux]
  | succ fuel ih =>
    unfold natBytesAux
    split
    · rename_i h0; subst h0; simp
    · rename_i hne
      rw [ih (n / 256) _ (by omega)]
      simp only [List.length_cons, fromBE, Nat.zero_mul, Nat.zero_add]
      rw [fromBE_acc acc]
      have hb : (UInt8.ofNat (n % 256)).toNat = n % 256 := by
        simp [UInt8.toNat_ofNat, Nat.mod_eq_of_lt (Nat.mod_lt n (by omega : 256 > 0))]
      rw [hb, Nat.pow_succ]
      have := Nat.div_add_mod n 256
      have e : n / 256 * (256 ^ acc.length * 256) + n % 256 * 256 ^ acc.length = n * 256 ^ acc.length := by
        conv => rhs; rw [← this]
        rw [Nat.add_mul, Nat.mul_comm 256 (n / 256), Nat.mul_assoc, Nat.mul_comm 256 (256 ^ acc.length)]
      omega

theorem fromBE_natBytes (n : Nat) : fromBE (natBytes n) 0 = n := by
  unfold natBytes
  rw [fromBE_natBytesAux (n + 1) n [] (by omega)]
  simp [fromBE]

/-! ## integers -/

theorem specInt_eq_ofInt (i : Int) (h : intFits i = true) : specInt i = ofInt i := by
  unfold intFits bignumPayload at h
  unfold specInt ofInt
  by_cases h0 : 0 ≤ i
  · simp only [h0, if_true] at h ⊢
    split
    · rfl
    · have : specBytes (natBytes i.toNat) = .bytes (natBytes i.toNat) := by
        unfold specBytes; rw [if_pos (by simpa using h)]
      rw [this]
  · simp only [h0, if_false] at h ⊢
    split
    · rfl
    · have : specBytes (natBytes (-1 - i).toNat) = .bytes (natBytes (-1 - i).toNat) := by
        unfold specBytes; rw [if_pos (by simpa using h)]
      rw [this]

theorem decodeItem_ofInt (cext : Bool) (i : Int) : decodeItem cext (ofInt i) = some (.int i) := by
  unfold ofInt
  by_cases h0 : 0 ≤ i
  · simp only [h0, if_true]
    split
    · simp only [decodeItem]; congr 2; omega
    · simp only [decodeItem, decodeBignum, bignumOf, fromBE_natBytes]
      simp; omega
  · simp only [h0, if_false]
    split
    · simp only [decodeItem]; congr 2; omega
    · simp only [decodeItem, decodeBignum, bignumOf, fromBE_natBytes]
      simp; omega

/-! ## constructor tags -/

theorem getTag_nat (c : Nat) :
    getTag c = if c < 7 then some (121 + c) else if c < 128 then some (1280 + (c - 7)) else none := by
  unfold getTag
  by_cases h1 : c < 7
  · have e : (121 + (c : Int)).toNat = 121 + c := by omega
    have g : (0 : Int) ≤ c ∧ (c : Int) < 7 := by omega
    rw [if_pos g, if_pos h1, e]
  · by_cases h2 : c < 128
    · have e : (1280 + ((c : Int) - 7)).toNat = 1280 + (c - 7) := by omega
      have g : ¬ ((0 : Int) ≤ c ∧ (c : Int) < 7) := by omega
      have g2 : (7 : Int) ≤ c ∧ (c : Int) < 128 := by omega
      rw [if_neg g, if_pos g2, if_neg h1, if_pos h2, e]
    · have g : ¬ ((0 : Int) ≤ c ∧ (c : Int) < 7) := by omega
      have g2 : ¬ ((7 : Int) ≤ c ∧ (c : Int) < 128) := by omega
      rw [if_neg g, if_neg g2, if_neg h1, if_neg h2]

theorem constrOfTag_getTag (c t : Nat) (h : getTag c = some t) : constrOfTag t = some (c : Int) := by
  rw [getTag_nat] at h
  unfold constrOfTag
  by_cases h1 : c < 7
  · rw [if_pos h1] at h; injection h with h; subst h
    have g : 121 ≤ 121 + c ∧ 121 + c < 128 := by omega
    have e : ((121 + c : Nat) : Int) - 121 = c := by omega
    rw [if_pos g, e]
  · by_cases h2 : c < 128
    · rw [if_neg h1, if_pos h2] at h; injection h with h; subst h
      have g : ¬ (121 ≤ 1280 + (c - 7) ∧ 1280 + (c - 7) < 128) := by omega
      have g2 : 1280 ≤ 1280 + (c - 7) ∧ 1280 + (c - 7) < 1536 := by omega
      have e : ((1280 + (c - 7) : Nat) : Int) - 1280 + 7 = c := by omega
      rw [if_neg g, if_pos g2, e]
    · rw [if_neg h1, if_neg h2] at h; cases h

/-- a compact tag is never 2, 3 (bignums) or 102 (general form) -/
theorem getTag_range (c t : Nat) (h : getTag c = some t) : t ≠ 2 ∧ t ≠ 3 ∧ t ≠ 102 := by
  rw [getTag_nat] at h
  by_cases h1 : c < 7
  · rw [if_pos h1] at h; injection h with h; omega
  · by_cases h2 : c < 128
    · rw [if_neg h1, if_pos h2] at h; injection h with h; omega
    · rw [if_neg h1, if_neg h2] at h; cases h

theorem getTag_none (c : Nat) (h : getTag c = none) : 128 ≤ c := by
  rw [getTag_nat] at h
  by_cases h1 : c < 7
  · rw [if_pos h1] at h; cases h
  · by_cases h2 : c < 128
    · rw [if_neg h1, if_pos h2] at h; cases h
    · omega

/-- the specification's constructor rule, phrased with `getTag` -/
theorem specConstr_eq (c : Nat) (x : Item) :
    specConstr c x = match getTag c with
      | some t => .tag t x
      | none => .tag 102 (.array [ofInt c, x]) := by
  rw [getTag_nat]; unfold specConstr
  by_cases h1 : c < 7
  · simp [h1]
  · by_cases h2 : c < 128
    · simp [h1, h2]
    · simp [h1, h2]

/-! ## sequences and constructors on the Python side -/

theorem primSeq_true (xs : List Prim) : primSeq true xs = if xs.isEmpty then .list xs else .ilist xs := by
  unfold primSeq; cases xs <;> simp

theorem primSeq_false (xs : List Prim) : primSeq false xs = .list xs := by
  unfold primSeq; simp

theorem rawDfs_primConstr_list (c : Nat) (ps : List Prim) :
    rawDfs (primConstr c (.list ps)) = primConstr c (rawDfs (.list ps)) := by
  unfold primConstr
  cases h : getTag c with
  | some t =>
    have ht := getTag_range c t h
    cases ps with
    | nil => simp [rawDfsTag, rawDfs]
    | cons p ps => simp [rawDfsTag, rawDfs, ht.2.2]
  | none => simp [rawDfs, rawDfsTag, rawDfsList]

theorem rawDfs_primConstr_ilist (c : Nat) (ps : List Prim) :
    rawDfs (primConstr c (.ilist ps)) = primConstr c (.ilist ps) := by
  unfold primConstr
  cases h : getTag c with
  | some t => simp [rawDfsTag, rawDfs]
  | none => simp [rawDfs, rawDfsTag, rawDfsList]

mutual
theorem rawDfs_plain (d : PData) : rawDfs (primOf false d) = primOf true d := by
  cases d with
  | constr c fs =>
    have ih := rawDfs_plain_list fs
    simp only [primOf, primSeq_false, primSeq_true, rawDfs_primConstr_list]
    cases fs with
    | nil => simp [primOfList, rawDfs]
    | cons f fs =>
      simp only [primOfList] at ih ⊢
      simp [rawDfs, ih]
  | list xs =>
    have ih := rawDfs_plain_list xs
    simp only [primOf, primSeq_false, primSeq_true]
    cases xs with
    | nil => simp [primOfList, rawDfs]
    | cons f fs =>
      simp only [primOfList] at ih ⊢
      simp [rawDfs, ih]
  | map kvs => simp only [primOf, rawDfs, rawDfs_plain_pairs kvs]
  | int i => simp [primOf, rawDfs]
  | bytes b => simp only [primOf, primBytes]; split <;> simp [rawDfs]
theorem rawDfs_plain_list (xs : List PData) : rawDfsList (primOfList false xs) = primOfList true xs := by
  cases xs with
  | nil => simp [primOfList, rawDfsList]
  | cons x xs => simp [primOfList, rawDfsList, rawDfs_plain x, rawDfs_plain_list xs]
theorem rawDfs_plain_pairs (kvs : List (PData × PData)) :
    rawDfsPairs (primOfPairs false kvs) = primOfPairs true kvs := by
  cases kvs with
  | nil => simp [primOfPairs, rawDfsPairs]
  | cons p kvs =>
    obtain ⟨k, v⟩ := p
    simp [primOfPairs, rawDfsPairs, rawDfs_plain k, rawDfs_plain v, rawDfs_plain_pairs kvs]
end

mutual
theorem rawDfs_explicit (d : PData) : rawDfs (primOf true d) = primOf true d := by
  cases d with
  | constr c fs =>
    simp only [primOf, primSeq_true]
    cases fs with
    | nil => simp [primOfList, rawDfs_primConstr_list, rawDfs]
    | cons f fs => simp [primOfList, rawDfs_primConstr_ilist]
  | list xs =>
    simp only [primOf, primSeq_true]
    cases xs with
    | nil => simp [primOfList, rawDfs]
    | cons f fs => simp [primOfList, rawDfs]
  | map kvs => simp only [primOf, rawDfs, rawDfs_explicit_pairs kvs]
  | int i => simp [primOf, rawDfs]
  | bytes b => simp only [primOf, primBytes]; split <;> simp [rawDfs]
theorem rawDfs_explicit_pairs (kvs : List (PData × PData)) :
    rawDfsPairs (primOfPairs true kvs) = primOfPairs true kvs := by
  cases kvs with
  | nil => simp [primOfPairs, rawDfsPairs]
  | cons p kvs =>
    obtain ⟨k, v⟩ := p
    simp [primOfPairs, rawDfsPairs, rawDfs_explicit k, rawDfs_explicit v, rawDfs_explicit_pairs kvs]
end

/-! ## encoding the explicit style gives the specification -/

theorem encodePrim_primConstr (c : Nat) (x : Prim) :
    encodePrim (primConstr c x) = specConstr c (encodePrim x) := by
  rw [specConstr_eq]; unfold primConstr
  cases h : getTag c with
  | some t => simp [encodePrim]
  | none => simp [encodePrim, encodePrimList]

theorem encodePrim_primBytes (b : Bytes) : encodePrim (primBytes b) = specBytes b := by
  unfold primBytes
  split
  · simp [encodePrim, encByteString_eq]
  · rename_i h; simp only [encodePrim]; unfold specBytes; rw [if_pos (by omega)]

mutual
theorem encode_explicit (d : PData) (h : small d = true) : encodePrim (primOf true d) = specItem d := by
  cases d with
  | constr c fs =>
    simp only [small] at h
    have ih := encode_explicit_list fs h
    simp only [primOf, specItem, encodePrim_primConstr, primSeq_true]
    cases fs with
    | nil => simp [primOfList, specList, specSeq, encodePrim, encodePrimList]
    | cons f fs =>
      simp only [primOfList, specList] at ih ⊢
      simp [specSeq, encodePrim, ih]
  | list xs =>
    simp only [small] at h
    have ih := encode_explicit_list xs h
    simp only [primOf, specItem, primSeq_true]
    cases xs with
    | nil => simp [primOfList, specList, specSeq, encodePrim, encodePrimList]
    | cons f fs =>
      simp only [primOfList, specList] at ih ⊢
      simp [specSeq, encodePrim, ih]
  | map kvs =>
    simp only [small] at h
    simp only [primOf, specItem, encodePrim, encode_explicit_pairs kvs h]
  | int i =>
    simp only [small] at h
    simp only [primOf, specItem, encodePrim, specInt_eq_ofInt i h]
  | bytes b => simp only [primOf, specItem, encodePrim_primBytes]
theorem encode_explicit_list (xs : List PData) (h : smallList xs = true) :
    encodePrimList (primOfList true xs) = specList xs := by
  cases xs with
  | nil => simp [primOfList, specList, encodePrimList]
  | cons x xs =>
    simp only [smallList, Bool.and_eq_true] at h
    simp [primOfList, specList, encodePrimList, encode_explicit x h.1, encode_explicit_list xs h.2]
theorem encode_explicit_pairs (kvs : List (PData × PData)) (h : smallPairs kvs = true) :
    encodePrimPairs (primOfPairs true kvs) = specPairs kvs := by
  cases kvs with
  | nil => simp [primOfPairs, specPairs, encodePrimPairs]
  | cons p kvs =>
    obtain ⟨k, v⟩ := p
    simp only [smallPairs, Bool.and_eq_true] at h
    simp [primOfPairs, specPairs, encodePrimPairs, encode_explicit k h.1.1, encode_explicit v h.1.2,
      encode_explicit_pairs kvs h.2]
end

/-! ## typed instances: `to_primitive` of the canonical typed embedding is the explicit style -/

mutual
theorem typedPrim_typedOf (d : PData) : typedPrim (typedOf d) = primOf true d := by
  cases d with
  | constr c fs =>
    have ih := typedPrim_typedOf_list fs
    simp only [typedOf, typedPrim, primOf, primSeq_true, primConstr, ih]
    cases fs with
    | nil => simp [primOfList]
    | cons f fs => simp [primOfList]
  | list xs =>
    have ih := typedPrim_typedOf_list xs
    simp only [typedOf, primOf, primSeq_true]
    cases xs with
    | nil => simp [typedPrim, typedPrimList, primOfList]
    | cons f fs =>
      simp only [typedOfList, primOfList] at ih ⊢
      simp [typedPrim, ih]
  | map kvs => simp only [typedOf, typedPrim, primOf, typedPrim_typedOf_pairs kvs]
  | int i => simp [typedOf, typedPrim, primOf]
  | bytes b => simp only [typedOf, primOf, primBytes]; split <;> simp [typedPrim]
theorem typedPrim_typedOf_list (xs : List PData) : typedPrimList (typedOfList xs) = primOfList true xs := by
  cases xs with
  | nil => simp [typedOfList, typedPrimList, primOfList]
  | cons x xs => simp [typedOfList, typedPrimList, primOfList, typedPrim_typedOf x, typedPrim_typedOf_list xs]
theorem typedPrim_typedOf_pairs (kvs : List (PData × PData)) :
    typedPrimPairs (typedOfPairs kvs) = primOfPairs true kvs := by
  cases kvs with
  | nil => simp [typedOfPairs, typedPrimPairs, primOfPairs]
  | cons p kvs =>
    obtain ⟨k, v⟩ := p
    simp [typedOfPairs, typedPrimPairs, primOfPairs, typedPrim_typedOf k, typedPrim_typedOf v,
      typedPrim_typedOf_pairs kvs]
end

/-! ## Python dicts with distinct keys -/

theorem dictInsert_fresh (acc : List (Prim × Prim)) (k v : Prim)
    (h : (acc.map (fun p => keyOf p.1)).contains (keyOf k) = false) :
    dictInsert acc k v = acc ++ [(k, v)] := by
  induction acc with
  | nil => simp [dictInsert]
  | cons p r ih =>
    obtain ⟨k', v'⟩ := p
    simp only [List.map_cons, List.contains_cons, Bool.or_eq_false_iff] at h
    have hne : ¬ keyOf k' = keyOf k := by
      have := h.1
      intro e; rw [e] at this; simp at this
    simp [dictInsert, hne, ih h.2]

theorem dictBuild_distinct (acc l : List (Prim × Prim))
    (h : distinctFrom (acc.map (fun p => keyOf p.1)) (l.map (fun p => keyOf p.1)) = true) :
    dictBuild acc l = some (acc ++ l) := by
  induction l generalizing acc with
  | nil => simp [dictBuild]
  | cons p r ih =>
    obtain ⟨k, v⟩ := p
    simp only [List.map_cons, distinctFrom, Bool.and_eq_true, Bool.not_eq_true'] at h
    obtain ⟨⟨hs, hc⟩, hr⟩ := h
    have := ih (acc ++ [(k, v)]) (by simpa using hr)
    simp [dictBuild, hs, dictInsert_fresh acc k v hc, this]

theorem keyOf_primOf (e : Bool) (k : PData) : keyOf (primOf e k) = atomOf k := by
  cases k with
  | constr c fs =>
    simp only [primOf, primConstr, atomOf]
    cases getTag c <;> simp [keyOf]
  | list xs => simp only [primOf, primSeq, atomOf]; split <;> simp [keyOf]
  | map kvs => simp [primOf, keyOf, atomOf]
  | int i => simp [primOf, keyOf, atomOf]
  | bytes b => simp only [primOf, primBytes, atomOf]; split <;> simp [keyOf]

theorem keys_primOfPairs (e : Bool) (kvs : List (PData × PData)) :
    (primOfPairs e kvs).map (fun p => keyOf p.1) = pairKeys kvs := by
  induction kvs with
  | nil => simp [primOfPairs, pairKeys]
  | cons p r ih => obtain ⟨k, v⟩ := p; simp [primOfPairs, pairKeys, keyOf_primOf, ih]

/-! ## decoding the specification's item -/

theorem decodeItem_specSeq (cext : Bool) (xs : List Item) (ps : List Prim)
    (h : decodeItemList cext xs = some ps) : decodeItem cext (specSeq xs) = some (primSeq (!cext) ps) := by
  cases xs with
  | nil =>
    simp only [decodeItemList, Option.some.injEq] at h
    subst h
    simp [specSeq, decodeItem, decodeItemList, primSeq]
  | cons x xs =>
    have hne : ∃ p ps', ps = p :: ps' := by
      simp only [decodeItemList] at h
      split at h
      · simp only [Option.some.injEq] at h; exact ⟨_, _, h.symm⟩
      · cases h
    obtain ⟨p, ps', rfl⟩ := hne
    simp only [specSeq, List.isEmpty_cons, Bool.false_eq_true, if_false, decodeItem, h, Option.map_some]
    cases cext <;> simp [primSeq]

theorem decodeItem_specConstr (cext : Bool) (c : Nat) (x : Item) (p : Prim) (h : decodeItem cext x = some p) :
    decodeItem cext (specConstr c x) = some (primConstr c p) := by
  rw [specConstr_eq]; unfold primConstr
  cases hg : getTag c with
  | some t =>
    have ht := getTag_range c t hg
    simp [decodeItem, ht.1, ht.2.1, h]
  | none =>
    simp [decodeItem, decodeItemList, decodeItem_ofInt, h]

mutual
theorem decode_spec (cext : Bool) (d : PData) (hc : chunkFree d = true) (hk : keysOk d = true) :
    decodeItem cext (specItem d) = some (primOf (!cext) d) := by
  cases d with
  | constr c fs =>
    simp only [chunkFree] at hc; simp only [keysOk] at hk
    have ih := decode_spec_list cext fs hc hk
    simp only [specItem, primOf]
    exact decodeItem_specConstr cext c _ _ (decodeItem_specSeq cext _ _ ih)
  | list xs =>
    simp only [chunkFree] at hc; simp only [keysOk] at hk
    have ih := decode_spec_list cext xs hc hk
    simp only [specItem, primOf]
    exact decodeItem_specSeq cext _ _ ih
  | map kvs =>
    simp only [chunkFree] at hc; simp only [keysOk, Bool.and_eq_true] at hk
    have ih := decode_spec_pairs cext kvs hc hk.2
    have hd := dictBuild_distinct [] (primOfPairs (!cext) kvs) (by simpa [keys_primOfPairs] using hk.1)
    simp only [List.nil_append] at hd
    simp [specItem, primOf, decodeItem, ih, hd]
  | int i =>
    simp only [chunkFree] at hc
    simp only [specItem, primOf, specInt_eq_ofInt i hc, decodeItem_ofInt]
  | bytes b =>
    simp only [chunkFree, decide_eq_true_eq] at hc
    have h1 : ¬ b.length > 64 := by omega
    simp [specItem, specBytes, hc, decodeItem, primOf, primBytes, h1]
theorem decode_spec_list (cext : Bool) (xs : List PData) (hc : chunkFreeList xs = true) (hk : keysOkList xs = true) :
    decodeItemList cext (specList xs) = some (primOfList (!cext) xs) := by
  cases xs with
  | nil => simp [specList, decodeItemList, primOfList]
  | cons x xs =>
    simp only [chunkFreeList, Bool.and_eq_true] at hc
    simp only [keysOkList, Bool.and_eq_true] at hk
    simp [specList, decodeItemList, primOfList, decode_spec cext x hc.1 hk.1, decode_spec_list cext xs hc.2 hk.2]
theorem decode_spec_pairs (cext : Bool) (kvs : List (PData × PData)) (hc : chunkFreePairs kvs = true)
    (hk : keysOkPairs kvs = true) :
    decodeItemPairs cext (specPairs kvs) = some (primOfPairs (!cext) kvs) := by
  cases kvs with
  | nil => simp [specPairs, decodeItemPairs, primOfPairs]
  | cons p kvs =>
    obtain ⟨k, v⟩ := p
    simp only [chunkFreePairs, Bool.and_eq_true] at hc
    simp only [keysOkPairs, Bool.and_eq_true] at hk
    simp [specPairs, decodeItemPairs, primOfPairs, decode_spec cext k hc.1.1 hk.1.1, decode_spec cext v hc.1.2 hk.1.2,
      decode_spec_pairs cext kvs hc.2 hk.2]
end

/-! ## the JSON form -/

theorem toDict_primConstr (c : Nat) (x : Prim) (js : List PJson) (h : toDictFields x = some js) :
    toDict (primConstr c x) = some (.constr c js) := by
  unfold primConstr
  cases hg : getTag c with
  | some t =>
    have ht := getTag_range c t hg
    simp [toDict, ht.2.2, constrOfTag_getTag c t hg, h]
  | none => simp [toDict, toDict102, toDict102Seq, h]

theorem toDictFields_primSeq (e : Bool) (ps : List Prim) : toDictFields (primSeq e ps) = toDictList ps := by
  unfold primSeq; split <;> simp [toDictFields]

mutual
theorem toDict_primOf (e : Bool) (d : PData) : toDict (primOf e d) = some (jsonOf d) := by
  cases d with
  | constr c fs =>
    have ih := toDict_primOf_list e fs
    simp only [primOf, jsonOf]
    exact toDict_primConstr c _ _ (by rw [toDictFields_primSeq, ih])
  | list xs =>
    have ih := toDict_primOf_list e xs
    simp only [primOf, jsonOf, primSeq]
    split <;> simp [toDict, ih]
  | map kvs => simp [primOf, jsonOf, toDict, toDict_primOf_pairs e kvs]
  | int i => simp [primOf, jsonOf, toDict]
  | bytes b => simp only [primOf, jsonOf, primBytes]; split <;> simp [toDict]
theorem toDict_primOf_list (e : Bool) (xs : List PData) : toDictList (primOfList e xs) = some (jsonOfList xs) := by
  cases xs with
  | nil => simp [primOfList, jsonOfList, toDictList]
  | cons x xs => simp [primOfList, jsonOfList, toDictList, toDict_primOf e x, toDict_primOf_list e xs]
theorem toDict_primOf_pairs (e : Bool) (kvs : List (PData × PData)) :
    toDictPairs (primOfPairs e kvs) = some (jsonOfPairs kvs) := by
  cases kvs with
  | nil => simp [primOfPairs, jsonOfPairs, toDictPairs]
  | cons p kvs =>
    obtain ⟨k, v⟩ := p
    simp [primOfPairs, jsonOfPairs, toDictPairs, toDict_primOf e k, toDict_primOf e v, toDict_primOf_pairs e kvs]
end

/-- what `RawPlutusData.from_dict` builds from the JSON form of a datum: compact-tag constructors over a plain field
list, general constructors over `[id, IndefiniteList(fields)]`, every list an `IndefiniteList`, `ByteString` beyond
32 bytes -/
def jprimBytes (b : Bytes) : Prim := if 2 * b.length > 64 then .bstr b else .bytes b

mutual
def jprimOf : PData → Prim
  | .constr c fs =>
    match getTag c with
    | none => .tag 102 (.list [.int c, .ilist (jprimOfList fs)])
    | some t => .tag t (.list (jprimOfList fs))
  | .list xs => .ilist (jprimOfList xs)
  | .map kvs => .dict (jprimOfPairs kvs)
  | .int i => .int i
  | .bytes b => jprimBytes b
def jprimOfList : List PData → List Prim
  | [] => []
  | x :: xs => jprimOf x :: jprimOfList xs
def jprimOfPairs : List (PData × PData) → List (Prim × Prim)
  | [] => []
  | (k, v) :: r => (jprimOf k, jprimOf v) :: jprimOfPairs r
end

theorem keyOf_jprimOf (k : PData) : keyOf (jprimOf k) = atomOf k := by
  cases k with
  | constr c fs =>
    simp only [jprimOf, atomOf]
    cases getTag c <;> simp [keyOf]
  | list xs => simp [jprimOf, keyOf, atomOf]
  | map kvs => simp [jprimOf, keyOf, atomOf]
  | int i => simp [jprimOf, keyOf, atomOf]
  | bytes b => simp only [jprimOf, jprimBytes, atomOf]; split <;> simp [keyOf]

theorem keys_jprimOfPairs (kvs : List (PData × PData)) :
    (jprimOfPairs kvs).map (fun p => keyOf p.1) = pairKeys kvs := by
  induction kvs with
  | nil => simp [jprimOfPairs, pairKeys]
  | cons p r ih => obtain ⟨k, v⟩ := p; simp [jprimOfPairs, pairKeys, keyOf_jprimOf, ih]

mutual
theorem fromDict_jsonOf (d : PData) (hk : keysOk d = true) : fromDict (jsonOf d) = some (jprimOf d) := by
  cases d with
  | constr c fs =>
    simp only [keysOk] at hk
    have ih := fromDict_jsonOf_list fs hk
    simp only [jsonOf, fromDict, ih, jprimOf]
    cases getTag c <;> rfl
  | list xs =>
    simp only [keysOk] at hk
    simp [jsonOf, fromDict, fromDict_jsonOf_list xs hk, jprimOf]
  | map kvs =>
    simp only [keysOk, Bool.and_eq_true] at hk
    have ih := fromDict_jsonOf_pairs kvs hk.2
    have hd := dictBuild_distinct [] (jprimOfPairs kvs) (by simpa [keys_jprimOfPairs] using hk.1)
    simp only [List.nil_append] at hd
    simp [jsonOf, fromDict, ih, hd, jprimOf]
  | int i => simp [jsonOf, fromDict, jprimOf]
  | bytes b => simp only [jsonOf, fromDict, jprimOf, jprimBytes]; split <;> rfl
theorem fromDict_jsonOf_list (xs : List PData) (hk : keysOkList xs = true) :
    fromDictList (jsonOfList xs) = some (jprimOfList xs) := by
  cases xs with
  | nil => simp [jsonOfList, fromDictList, jprimOfList]
  | cons x xs =>
    simp only [keysOkList, Bool.and_eq_true] at hk
    simp [jsonOfList, fromDictList, jprimOfList, fromDict_jsonOf x hk.1, fromDict_jsonOf_list xs hk.2]
theorem fromDict_jsonOf_pairs (kvs : List (PData × PData)) (hk : keysOkPairs kvs = true) :
    fromDictPairs (jsonOfPairs kvs) = some (jprimOfPairs kvs) := by
  cases kvs with
  | nil => simp [jsonOfPairs, fromDictPairs, jprimOfPairs]
  | cons p kvs =>
    obtain ⟨k, v⟩ := p
    simp only [keysOkPairs, Bool.and_eq_true] at hk
    simp [jsonOfPairs, fromDictPairs, jprimOfPairs, fromDict_jsonOf k hk.1.1, fromDict_jsonOf v hk.1.2,
      fromDict_jsonOf_pairs kvs hk.2]
end

theorem encodePrim_jprimBytes (b : Bytes) : encodePrim (jprimBytes b) = specBytes b := by
  unfold jprimBytes
  split
  · simp [encodePrim, encByteString_eq]
  · rename_i h; simp only [encodePrim]; unfold specBytes; rw [if_pos (by omega)]

theorem rawDfs_jprimBytes (b : Bytes) : rawDfs (jprimBytes b) = jprimBytes b := by
  unfold jprimBytes; split <;> simp [rawDfs]

/- (a) below an `IndefiniteList` (`blocked`): the object is encoded as built -/
mutual
theorem json_blocked (d : PData) (hs : small d = true) (hj : jsonOk true d = true) :
    encodePrim (jprimOf d) = specItem d := by
  cases d with
  | constr c fs =>
    simp only [small] at hs
    simp only [jsonOk] at hj
    simp only [jprimOf, specItem, specConstr_eq]
    cases hg : getTag c with
    | some t =>
      have hc : c < 128 := by
        rcases Nat.lt_or_ge c 128 with h | h
        · exact h
        · rw [getTag_nat, if_neg (by omega), if_neg (by omega)] at hg; cases hg
      simp only [hc, if_true, Bool.not_true, Bool.false_and, Bool.or_false, List.isEmpty_iff] at hj
      subst hj
      simp [jprimOfList, specList, specSeq, encodePrim, encodePrimList]
    | none =>
      have hc := getTag_none c hg
      have hc' : ¬ c < 128 := by omega
      simp only [hc', if_false, Bool.and_eq_true, Bool.not_eq_true', List.isEmpty_eq_false_iff] at hj
      have ih := json_blocked_list fs hs hj.2
      cases fs with
      | nil => exact absurd rfl hj.1
      | cons f fs =>
        simp only [jprimOfList, specList, encodePrimList, List.cons.injEq] at ih ⊢
        simp [specSeq, encodePrim, encodePrimList, ih.1, ih.2]
  | list xs =>
    simp only [small] at hs
    simp only [jsonOk, Bool.and_eq_true, Bool.not_eq_true', List.isEmpty_eq_false_iff] at hj
    have ih := json_blocked_list xs hs hj.2
    cases xs with
    | nil => exact absurd rfl hj.1
    | cons f fs =>
      simp only [jprimOfList, specList] at ih ⊢
      simp [jprimOf, jprimOfList, specItem, specList, specSeq, encodePrim, ih]
  | map kvs =>
    simp only [small] at hs
    simp only [jsonOk] at hj
    simp only [jprimOf, specItem, encodePrim, json_blocked_pairs kvs hs hj]
  | int i =>
    simp only [small] at hs
    simp only [jprimOf, specItem, encodePrim, specInt_eq_ofInt i hs]
  | bytes b => simp only [jprimOf, specItem, encodePrim_jprimBytes]
theorem json_blocked_list (xs : List PData) (hs : smallList xs = true) (hj : jsonOkList true xs = true) :
    encodePrimList (jprimOfList xs) = specList xs := by
  cases xs with
  | nil => simp [jprimOfList, specList, encodePrimList]
  | cons x xs =>
    simp only [smallList, Bool.and_eq_true] at hs
    simp only [jsonOkList, Bool.and_eq_true] at hj
    simp [jprimOfList, specList, encodePrimList, json_blocked x hs.1 hj.1, json_blocked_list xs hs.2 hj.2]
theorem json_blocked_pairs (kvs : List (PData × PData)) (hs : smallPairs kvs = true)
    (hj : jsonOkPairs true kvs = true) : encodePrimPairs (jprimOfPairs kvs) = specPairs kvs := by
  cases kvs with
  | nil => simp [jprimOfPairs, specPairs, encodePrimPairs]
  | cons p kvs =>
    obtain ⟨k, v⟩ := p
    simp only [smallPairs, Bool.and_eq_true] at hs
    simp only [jsonOkPairs, Bool.and_eq_true] at hj
    simp [jprimOfPairs, specPairs, encodePrimPairs, json_blocked k hs.1.1 hj.1.1, json_blocked v hs.1.2 hj.1.2,
      json_blocked_pairs kvs hs.2 hj.2]
end

/- (b) reachable by `to_primitive` (not blocked): `_dfs` normalises compact-tag constructors on the way -/
mutual
theorem json_open (d : PData) (hs : small d = true) (hj : jsonOk false d = true) :
    encodePrim (rawDfs (jprimOf d)) = specItem d := by
  cases d with
  | constr c fs =>
    simp only [small] at hs
    simp only [jsonOk] at hj
    simp only [jprimOf, specItem, specConstr_eq]
    cases hg : getTag c with
    | some t =>
      have ht := getTag_range c t hg
      have hc : c < 128 := by
        rcases Nat.lt_or_ge c 128 with h | h
        · exact h
        · rw [getTag_nat, if_neg (by omega), if_neg (by omega)] at hg; cases hg
      simp only [hc, if_true, Bool.not_false, Bool.true_and, Bool.or_eq_true, List.isEmpty_iff] at hj
      cases fs with
      | nil => simp [jprimOfList, specList, specSeq, rawDfs, rawDfsTag, encodePrim, encodePrimList]
      | cons f fs =>
        have hj' : jsonOkList false (f :: fs) = true := by
          rcases hj with h | h
          · cases h
          · exact h
        have ih := json_open_list (f :: fs) hs hj'
        simp only [jprimOfList, specList] at ih ⊢
        simp [specSeq, rawDfs, rawDfsTag, ht.2.2, encodePrim, ih]
    | none =>
      have hc := getTag_none c hg
      have hc' : ¬ c < 128 := by omega
      simp only [hc', if_false, Bool.and_eq_true, Bool.not_eq_true', List.isEmpty_eq_false_iff] at hj
      have ih := json_blocked_list fs hs hj.2
      cases fs with
      | nil => exact absurd rfl hj.1
      | cons f fs =>
        simp only [jprimOfList, specList, encodePrimList, List.cons.injEq] at ih ⊢
        simp [specSeq, rawDfs, rawDfsTag, rawDfsList, encodePrim, encodePrimList, ih.1, ih.2]
  | list xs =>
    simp only [small] at hs
    simp only [jsonOk, Bool.and_eq_true, Bool.not_eq_true', List.isEmpty_eq_false_iff] at hj
    have ih := json_blocked_list xs hs hj.2
    cases xs with
    | nil => exact absurd rfl hj.1
    | cons f fs =>
      simp only [jprimOfList, specList] at ih ⊢
      simp [jprimOf, jprimOfList, specItem, specList, specSeq, rawDfs, encodePrim, ih]
  | map kvs =>
    simp only [small] at hs
    simp only [jsonOk] at hj
    simp only [jprimOf, specItem, rawDfs, encodePrim, json_open_pairs kvs hs hj]
  | int i =>
    simp only [small] at hs
    simp only [jprimOf, specItem, rawDfs, encodePrim, specInt_eq_ofInt i hs]
  | bytes b => simp only [jprimOf, specItem, rawDfs_jprimBytes, encodePrim_jprimBytes]
theorem json_open_list (xs : List PData) (hs : smallList xs = true) (hj : jsonOkList false xs = true) :
    encodePrimList (rawDfsList (jprimOfList xs)) = specList xs := by
  cases xs with
  | nil => simp [jprimOfList, specList, rawDfsList, encodePrimList]
  | cons x xs =>
    simp only [smallList, Bool.and_eq_true] at hs
    simp only [jsonOkList, Bool.and_eq_true] at hj
    simp [jprimOfList, specList, rawDfsList, encodePrimList, json_open x hs.1 hj.1, json_open_list xs hs.2 hj.2]
theorem json_open_pairs (kvs : List (PData × PData)) (hs : smallPairs kvs = true)
    (hj : jsonOkPairs false kvs = true) : encodePrimPairs (rawDfsPairs (jprimOfPairs kvs)) = specPairs kvs := by
  cases kvs with
  | nil => simp [jprimOfPairs, specPairs, rawDfsPairs, encodePrimPairs]
  | cons p kvs =>
    obtain ⟨k, v⟩ := p
    simp only [smallPairs, Bool.and_eq_true] at hs
    simp only [jsonOkPairs, Bool.and_eq_true] at hj
    simp [jprimOfPairs, specPairs, rawDfsPairs, encodePrimPairs, json_open k hs.1.1 hj.1.1, json_open v hs.1.2 hj.1.2,
      json_open_pairs kvs hs.2 hj.2]
end

/-! ## the specification's item is well-formed CBOR (so that `decode_encode` applies) -/

theorem wf_ofInt_nat (c : Nat) (h : c < 2^64) : WF (ofInt c) := by
  unfold ofInt
  have h0 : (0 : Int) ≤ c := by omega
  have e : (c : Int).toNat = c := by omega
  simp only [h0, if_true, e, h]
  simpa [WF] using h

theorem wf_specInt (i : Int) (h : intFits i = true) : WF (specInt i) := by
  rw [specInt_eq_ofInt i h]
  unfold intFits bignumPayload at h
  unfold ofInt
  by_cases h0 : 0 ≤ i
  · simp only [h0, if_true] at h ⊢
    split
    · rename_i hlt; simp only [WF]; exact hlt
    · have : (natBytes i.toNat).length ≤ 64 := by simpa using h
      simp only [WF]; omega
  · simp only [h0, if_false] at h ⊢
    split
    · rename_i hlt; simp only [WF]; exact hlt
    · have : (natBytes (-1 - i).toNat).length ≤ 64 := by simpa using h
      simp only [WF]; omega

theorem wf_specSeq (xs : List Item) (h : WFList xs) : WF (specSeq xs) := by
  unfold specSeq
  cases xs with
  | nil => simp [WF, WFList]
  | cons x xs => simpa [WF] using h

theorem wf_specConstr (c : Nat) (x : Item) (hc : c < 2^64) (h : WF x) : WF (specConstr c x) := by
  rw [specConstr_eq]
  cases hg : getTag c with
  | some t =>
    have : t < 2^64 := by
      rw [getTag_nat] at hg
      by_cases h1 : c < 7
      · rw [if_pos h1] at hg; injection hg with hg; omega
      · by_cases h2 : c < 128
        · rw [if_neg h1, if_pos h2] at hg; injection hg with hg; omega
        · rw [if_neg h1, if_neg h2] at hg; cases hg
    simp only [WF]; exact ⟨this, h⟩
  | none =>
    simp only [WF, WFList, List.length_cons, List.length_nil]
    exact ⟨by omega, by omega, wf_ofInt_nat c hc, h, trivial⟩

theorem length_specPairs (kvs : List (PData × PData)) : (specPairs kvs).length = kvs.length := by
  induction kvs with
  | nil => simp [specPairs]
  | cons p r ih => obtain ⟨k, v⟩ := p; simp [specPairs, ih]

mutual
theorem wf_spec (d : PData) (hc : chunkFree d = true) (hz : sized d = true) : WF (specItem d) := by
  cases d with
  | constr c fs =>
    simp only [chunkFree] at hc
    simp only [sized, Bool.and_eq_true, decide_eq_true_eq] at hz
    simp only [specItem]
    exact wf_specConstr c _ hz.1 (wf_specSeq _ (wf_spec_list fs hc hz.2))
  | list xs =>
    simp only [chunkFree] at hc
    simp only [sized] at hz
    simp only [specItem]
    exact wf_specSeq _ (wf_spec_list xs hc hz)
  | map kvs =>
    simp only [chunkFree] at hc
    simp only [sized, Bool.and_eq_true, decide_eq_true_eq] at hz
    simp only [specItem, WF, length_specPairs]
    exact ⟨hz.1, wf_spec_pairs kvs hc hz.2⟩
  | int i =>
    simp only [chunkFree] at hc
    simp only [specItem]
    exact wf_specInt i hc
  | bytes b =>
    simp only [chunkFree, decide_eq_true_eq] at hc
    simp only [specItem, specBytes, hc, if_true, WF]
    omega
theorem wf_spec_list (xs : List PData) (hc : chunkFreeList xs = true) (hz : sizedList xs = true) :
    WFList (specList xs) := by
  cases xs with
  | nil => simp [specList, WFList]
  | cons x xs =>
    simp only [chunkFreeList, Bool.and_eq_true] at hc
    simp only [sizedList, Bool.and_eq_true] at hz
    simp only [specList, WFList]
    exact ⟨wf_spec x hc.1 hz.1, wf_spec_list xs hc.2 hz.2⟩
theorem wf_spec_pairs (kvs : List (PData × PData)) (hc : chunkFreePairs kvs = true) (hz : sizedPairs kvs = true) :
    WFPairs (specPairs kvs) := by
  cases kvs with
  | nil => simp [specPairs, WFPairs]
  | cons p kvs =>
    obtain ⟨k, v⟩ := p
    simp only [chunkFreePairs, Bool.and_eq_true] at hc
    simp only [sizedPairs, Bool.and_eq_true] at hz
    simp only [specPairs, WFPairs]
    exact ⟨wf_spec k hc.1.1 hz.1.1, wf_spec v hc.1.2 hz.1.2, wf_spec_pairs kvs hc.2 hz.2⟩
end

mutual
theorem small_of_chunkFree (d : PData) (h : chunkFree d = true) : small d = true := by
  cases d with
  | constr c fs => simp only [chunkFree] at h; simp only [small]; exact small_of_chunkFree_list fs h
  | list xs => simp only [chunkFree] at h; simp only [small]; exact small_of_chunkFree_list xs h
  | map kvs => simp only [chunkFree] at h; simp only [small]; exact small_of_chunkFree_pairs kvs h
  | int i => simpa [chunkFree, small] using h
  | bytes b => simp [small]
theorem small_of_chunkFree_list (xs : List PData) (h : chunkFreeList xs = true) : smallList xs = true := by
  cases xs with
  | nil => rfl
  | cons x xs =>
    simp only [chunkFreeList, Bool.and_eq_true] at h
    simp only [smallList, Bool.and_eq_true]
    exact ⟨small_of_chunkFree x h.1, small_of_chunkFree_list xs h.2⟩
theorem small_of_chunkFree_pairs (kvs : List (PData × PData)) (h : chunkFreePairs kvs = true) :
    smallPairs kvs = true := by
  cases kvs with
  | nil => rfl
  | cons p kvs =>
    obtain ⟨k, v⟩ := p
    simp only [chunkFreePairs, Bool.and_eq_true] at h
    simp only [smallPairs, Bool.and_eq_true]
    exact ⟨⟨small_of_chunkFree k h.1.1, small_of_chunkFree v h.1.2⟩, small_of_chunkFree_pairs kvs h.2⟩
end

/-! ## `from_primitive` accepts the decoded top-level object -/

theorem rawFromPrimitive_primOf (cext : Bool) (d : PData) (hc : chunkFree d = true) (ht : topOk cext d = true) :
    rawFromPrimitive (primOf (!cext) d) = some (primOf (!cext) d) := by
  cases d with
  | constr c fs =>
    simp only [primOf, primConstr]
    cases getTag c <;> rfl
  | list xs =>
    simp only [topOk, Bool.and_eq_true, Bool.not_eq_true'] at ht
    obtain ⟨h1, h2⟩ := ht
    subst h1
    cases xs with
    | nil => simp at h2
    | cons x xs => simp [primOf, primOfList, primSeq, rawFromPrimitive]
  | map kvs => rfl
  | int i => rfl
  | bytes b =>
    simp only [chunkFree, decide_eq_true_eq] at hc
    have : ¬ b.length > 64 := by omega
    simp [primOf, primBytes, this, rawFromPrimitive]


end Pyc.Plutus
