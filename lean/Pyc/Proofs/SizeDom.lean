import Pyc.Model.SizeDom

/-! Helper lemmas for `Props/C07_SizeDom.lean`: heads are monotone, structural dominance bounds the encoded size
(mutual structural induction over `Item` / `List Item` / `List (Item × Item)`), reflexivity. Core Lean only. -/

namespace Pyc.SizeDom
open Pyc Pyc.Cbor

theorem head_len_mono (major a b : Nat) (h : a ≤ b) : (head major a).length ≤ (head major b).length := by
  unfold head
  simp only
  repeat' split
  all_goals simp [beBytes]
  all_goals omega

theorem headDom_le (major a b : Nat) (h : headDom major a b = true) : (head major b).length ≤ (head major a).length := by
  simpa [headDom] using h

theorem headDom_of_le (major a b : Nat) (h : b ≤ a) : headDom major a b = true := by
  simpa [headDom] using head_len_mono major b a h

theorem encodeChunks_length (cs : List Bytes) : (encodeChunks cs).length = chunksLen cs := by
  induction cs with
  | nil => simp [encodeChunks, chunksLen]
  | cons c cs ih => simp only [encodeChunks, chunksLen, List.length_append, ih]

/-- a byte / text string whose payload is not longer is not longer on the wire -/
theorem str_len_mono (major : Nat) (a b : Bytes) (h : b.length ≤ a.length) :
    (head major b.length ++ b).length ≤ (head major a.length ++ a).length := by
  have := head_len_mono major b.length a.length h
  simp only [List.length_append]; omega

-- structural dominance bounds the encoded size (items, arrays, maps)
mutual
theorem domB_size (f r : Item) (h : domB f r = true) : (encode r).length ≤ (encode f).length := by
  cases f with
  | uint a =>
    cases r with
    | uint b => simp only [domB] at h; simpa [encode] using headDom_le 0 a b h
    | _ => simp [domB] at h
  | nint a =>
    cases r with
    | nint b => simp only [domB] at h; simpa [encode] using headDom_le 1 a b h
    | _ => simp [domB] at h
  | simple a =>
    cases r with
    | simple b => simp only [domB] at h; simpa [encode] using headDom_le 7 a b h
    | _ => simp [domB] at h
  | bytes a =>
    cases r with
    | bytes b =>
      simp only [domB, decide_eq_true_eq] at h
      simpa [encode] using str_len_mono 2 a b h
    | _ => simp [domB] at h
  | text a =>
    cases r with
    | text b =>
      simp only [domB, decide_eq_true_eq] at h
      simpa [encode] using str_len_mono 3 a b h
    | _ => simp [domB] at h
  | bytesChunked a =>
    cases r with
    | bytesChunked b =>
      simp only [domB, decide_eq_true_eq] at h
      simp only [encode, List.length_cons, List.length_append, List.length_nil, encodeChunks_length]
      omega
    | _ => simp [domB] at h
  | tag t x =>
    cases r with
    | tag u y =>
      simp only [domB, Bool.and_eq_true, beq_iff_eq] at h
      obtain ⟨htu, hxy⟩ := h
      subst htu
      have ih := domB_size x y hxy
      simp only [encode, List.length_append]; omega
    | _ => simp [domB] at h
  | array fs =>
    cases r with
    | array rs =>
      simp only [domB] at h
      have ih := domList_size fs rs h
      have := head_len_mono 4 rs.length fs.length ih.1
      simp only [encode, List.length_append]; omega
    | _ => simp [domB] at h
  | arrayIndef fs =>
    cases r with
    | arrayIndef rs =>
      simp only [domB] at h
      have ih := domList_size fs rs h
      simp only [encode, List.length_cons, List.length_append, List.length_nil]; omega
    | _ => simp [domB] at h
  | map fs =>
    cases r with
    | map rs =>
      simp only [domB] at h
      have ih := domPairs_size fs rs h
      have := head_len_mono 5 rs.length fs.length ih.1
      simp only [encode, List.length_append]; omega
    | _ => simp [domB] at h
theorem domList_size (fs rs : List Item) (h : domList fs rs = true) :
    rs.length ≤ fs.length ∧ (encodeList rs).length ≤ (encodeList fs).length := by
  cases fs with
  | nil =>
    cases rs with
    | nil => simp [encodeList]
    | cons r rs => simp [domList] at h
  | cons f fs =>
    cases rs with
    | nil => simp [encodeList]
    | cons r rs =>
      simp only [domList] at h
      by_cases hd : domB f r = true
      · rw [if_pos hd] at h
        have h1 := domB_size f r hd
        have h2 := domList_size fs rs h
        simp only [encodeList, List.length_append, List.length_cons]; omega
      · rw [if_neg hd] at h
        have h2 := domList_size fs (r :: rs) h
        simp only [encodeList, List.length_append, List.length_cons] at h2 ⊢; omega
theorem domPairs_size (fs rs : List (Item × Item)) (h : domPairs fs rs = true) :
    rs.length ≤ fs.length ∧ (encodePairs rs).length ≤ (encodePairs fs).length := by
  cases fs with
  | nil =>
    cases rs with
    | nil => simp [encodePairs]
    | cons r rs => simp [domPairs] at h
  | cons f fs =>
    obtain ⟨kf, vf⟩ := f
    cases rs with
    | nil => simp [encodePairs]
    | cons r rs =>
      obtain ⟨kr, vr⟩ := r
      simp only [domPairs] at h
      by_cases hd : (encode kf == encode kr && domB vf vr) = true
      · rw [if_pos hd] at h
        simp only [Bool.and_eq_true, beq_iff_eq] at hd
        have h1 := domB_size vf vr hd.2
        have h2 := domPairs_size fs rs h
        have hk : (encode kr).length = (encode kf).length := by rw [hd.1]
        simp only [encodePairs, List.length_append, List.length_cons]; omega
      · rw [if_neg hd] at h
        have h2 := domPairs_size fs ((kr, vr) :: rs) h
        simp only [encodePairs, List.length_append, List.length_cons] at h2 ⊢; omega
end

-- every item dominates itself
mutual
theorem domB_refl (x : Item) : domB x x = true := by
  cases x with
  | uint a => simp [domB, headDom]
  | nint a => simp [domB, headDom]
  | simple a => simp [domB, headDom]
  | bytes a => simp [domB]
  | text a => simp [domB]
  | bytesChunked a => simp [domB]
  | tag t x => simp [domB, domB_refl x]
  | array xs => simp [domB, domList_refl xs]
  | arrayIndef xs => simp [domB, domList_refl xs]
  | map kvs => simp [domB, domPairs_refl kvs]
theorem domList_refl (xs : List Item) : domList xs xs = true := by
  cases xs with
  | nil => simp [domList]
  | cons x xs => simp [domList, domB_refl x, domList_refl xs]
theorem domPairs_refl (kvs : List (Item × Item)) : domPairs kvs kvs = true := by
  cases kvs with
  | nil => simp [domPairs]
  | cons p kvs =>
    obtain ⟨k, v⟩ := p
    simp [domPairs, domB_refl v, domPairs_refl kvs]
end

/-- an extra fake element in front never hurts, and a real element may always be dropped -/
theorem domList_weaken (fs : List Item) :
    (∀ f rs, domList fs rs = true → domList (f :: fs) rs = true) ∧
    (∀ r rs, domList fs (r :: rs) = true → domList fs rs = true) := by
  induction fs with
  | nil =>
    have hB : ∀ r rs, domList [] (r :: rs) = true → domList [] rs = true := by
      intro r rs h; simp [domList] at h
    refine ⟨?_, hB⟩
    intro f rs h
    cases rs with
    | nil => simp [domList]
    | cons r rs' => simp [domList] at h
  | cons f' fs' ih =>
    have hB : ∀ r rs, domList (f' :: fs') (r :: rs) = true → domList (f' :: fs') rs = true := by
      intro r rs h
      simp only [domList] at h
      by_cases hd : domB f' r = true
      · rw [if_pos hd] at h; exact ih.1 f' rs h
      · rw [if_neg hd] at h; exact ih.1 f' rs (ih.2 r rs h)
    refine ⟨?_, hB⟩
    intro f rs h
    cases rs with
    | nil => simp [domList]
    | cons r rs' =>
      simp only [domList]
      by_cases hd : domB f r = true
      · rw [if_pos hd]; exact hB r rs' h
      · rw [if_neg hd]; exact h

/-- every order-preserving sub-list of the fake list is dominated -/
theorem domList_of_sublist (fs rs : List Item) (h : rs.Sublist fs) : domList fs rs = true := by
  induction h with
  | slnil => simp [domList]
  | cons a _ ih => exact (domList_weaken _).1 a _ ih
  | cons_cons a _ ih => simp only [domList, domB_refl a, if_true]; exact ih

/-- element-wise dominance of lists of the same or a shorter length -/
theorem domList_of_pointwise (fs rs : List Item) (hl : rs.length ≤ fs.length)
    (h : ∀ i (hi : i < rs.length), domB (fs[i]'(by omega)) (rs[i]) = true) : domList fs rs = true := by
  induction fs generalizing rs with
  | nil =>
    cases rs with
    | nil => simp [domList]
    | cons r rs => simp at hl
  | cons f fs ih =>
    cases rs with
    | nil => simp [domList]
    | cons r rs =>
      have h0 := h 0 (by simp)
      simp only [List.getElem_cons_zero] at h0
      simp only [domList, h0, if_true]
      apply ih rs (by simpa using hl)
      intro i hi
      have := h (i + 1) (by simpa using hi)
      simpa using this

/-- maps: an extra fake entry in front never hurts, and a real entry may always be dropped -/
theorem domPairs_weaken (fs : List (Item × Item)) :
    (∀ f rs, domPairs fs rs = true → domPairs (f :: fs) rs = true) ∧
    (∀ r rs, domPairs fs (r :: rs) = true → domPairs fs rs = true) := by
  induction fs with
  | nil =>
    have hB : ∀ r rs, domPairs [] (r :: rs) = true → domPairs [] rs = true := by
      intro r rs h; simp [domPairs] at h
    refine ⟨?_, hB⟩
    intro f rs h
    cases rs with
    | nil => simp [domPairs]
    | cons r rs' => simp [domPairs] at h
  | cons f' fs' ih =>
    obtain ⟨kf', vf'⟩ := f'
    have hB : ∀ r rs, domPairs ((kf', vf') :: fs') (r :: rs) = true → domPairs ((kf', vf') :: fs') rs = true := by
      intro r rs h
      obtain ⟨kr, vr⟩ := r
      simp only [domPairs] at h
      by_cases hd : (encode kf' == encode kr && domB vf' vr) = true
      · rw [if_pos hd] at h; exact ih.1 _ rs h
      · rw [if_neg hd] at h; exact ih.1 _ rs (ih.2 _ rs h)
    refine ⟨?_, hB⟩
    intro f rs h
    obtain ⟨kf, vf⟩ := f
    cases rs with
    | nil => simp [domPairs]
    | cons r rs' =>
      obtain ⟨kr, vr⟩ := r
      simp only [domPairs]
      by_cases hd : (encode kf == encode kr && domB vf vr) = true
      · rw [if_pos hd]; exact hB _ rs' h
      · rw [if_neg hd]; exact h

/-- every order-preserving sub-list of the entries of the fake map is dominated -/
theorem domPairs_of_sublist (fs rs : List (Item × Item)) (h : rs.Sublist fs) : domPairs fs rs = true := by
  induction h with
  | slnil => simp [domPairs]
  | cons a _ ih => exact (domPairs_weaken _).1 a _ ih
  | cons_cons a _ ih =>
    obtain ⟨k, v⟩ := a
    simp only [domPairs, domB_refl v, beq_self_eq_true, Bool.and_self, if_true]; exact ih

end Pyc.SizeDom
