import Pyc.Proofs.Cbor
import Pyc.Spec.Ids

/-! Lemmas for C17: injectivity of the CBOR encoder on well-formed items (from the round trip), the native-script
serializer against the CDDL bytes of the specification, well-formedness and injectivity of the native-script
primitive form, and the candidate search of `add_script_input`. -/

set_option linter.unusedSimpArgs false
set_option linter.unusedVariables false

namespace Pyc.Ids
open Pyc Pyc.Cbor Pyc.Spec.Ids

/-! ## the encoder is injective on well-formed items -/

theorem encode_injective (x y : Item) (hx : WF x) (hy : WF y) (h : encode x = encode y) : x = y := by
  have h1 := decode_encode x [] (max (depth x) (depth y)) (Nat.le_max_left _ _) hx
  have h2 := decode_encode y [] (max (depth x) (depth y)) (Nat.le_max_right _ _) hy
  rw [h, h2] at h1
  injection h1 with h1
  exact ((Prod.mk.inj h1).1).symm

/-- even as a prefix: two encodings that agree up to trailing bytes are encodings of the same item -/
theorem encode_prefix_injective (x y : Item) (r s : Bytes) (hx : WF x) (hy : WF y)
    (h : encode x ++ r = encode y ++ s) : x = y ∧ r = s := by
  have h1 := decode_encode x r (max (depth x) (depth y)) (Nat.le_max_left _ _) hx
  have h2 := decode_encode y s (max (depth x) (depth y)) (Nat.le_max_right _ _) hy
  rw [h, h2] at h1
  injection h1 with h1
  exact ⟨((Prod.mk.inj h1).1).symm, ((Prod.mk.inj h1).2).symm⟩

/-! ## integers in the CDDL ranges -/

theorem ofInt_nonneg (i : Int) (h0 : 0 ≤ i) (h1 : i < 2^64) : ofInt i = .uint i.toNat := by
  unfold ofInt
  have : i.toNat < 2^64 := by omega
  simp [h0, this]

theorem ofInt_neg (i : Int) (h0 : i < 0) (h1 : -(2^64 : Int) ≤ i) : ofInt i = .nint (-1 - i).toNat := by
  unfold ofInt
  have h : ¬ (0 ≤ i) := by omega
  have : (-1 - i).toNat < 2^64 := by omega
  simp [h, this]

theorem ofInt_wf (i : Int) (h0 : -(2^64 : Int) ≤ i) (h1 : i < 2^64) : WF (ofInt i) := by
  by_cases h : 0 ≤ i
  · rw [ofInt_nonneg i h h1]; simp only [WF]; omega
  · rw [ofInt_neg i (by omega) h0]; simp only [WF]; omega

theorem ofInt_inj (i j : Int) (hi0 : -(2^64 : Int) ≤ i) (hi1 : i < 2^64) (hj0 : -(2^64 : Int) ≤ j) (hj1 : j < 2^64)
    (h : ofInt i = ofInt j) : i = j := by
  by_cases h1 : 0 ≤ i <;> by_cases h2 : 0 ≤ j
  · rw [ofInt_nonneg i h1 hi1, ofInt_nonneg j h2 hj1] at h; injection h with h; omega
  · rw [ofInt_nonneg i h1 hi1, ofInt_neg j (by omega) hj0] at h; cases h
  · rw [ofInt_neg i (by omega) hi0, ofInt_nonneg j h2 hj1] at h; cases h
  · rw [ofInt_neg i (by omega) hi0, ofInt_neg j (by omega) hj0] at h; injection h with h; omega

theorem encode_ofInt (i : Int) (h0 : -(2^64 : Int) ≤ i) (h1 : i < 2^64) : encode (ofInt i) = intBytes i := by
  unfold intBytes
  by_cases h : 0 ≤ i
  · rw [ofInt_nonneg i h h1]; simp [encode, h]
  · rw [ofInt_neg i (by omega) h0]
    have : (-1 - i) = -(i + 1) := by omega
    simp [encode, h, this]

/-! ## native scripts: primitive form against the CDDL bytes -/

theorem items_length (xs : List NScript) : (NScript.items xs).length = xs.length := by
  induction xs with
  | nil => simp [NScript.items]
  | cons x xs ih => simp [NScript.items, ih]

mutual
theorem native_cbor_spec (s : NScript) (h : ValidNative s) : encode s.item = nativeBytes s := by
  cases s with
  | pubkey kh => simp [NScript.item, nativeBytes, encode, encodeList]
  | all xs =>
    simp only [ValidNative] at h
    simp [NScript.item, nativeBytes, encode, encodeList, items_length, native_seq_spec xs h.2]
  | any xs =>
    simp only [ValidNative] at h
    simp [NScript.item, nativeBytes, encode, encodeList, items_length, native_seq_spec xs h.2]
  | nofk n xs =>
    simp only [ValidNative] at h
    have hn := encode_ofInt n (by omega) (by omega)
    simp [NScript.item, nativeBytes, encode, encodeList, items_length, native_seq_spec xs h.2.2, hn]
  | before t =>
    simp only [ValidNative] at h
    have hn := encode_ofInt t (by omega) (by omega)
    simp [NScript.item, nativeBytes, encode, encodeList, hn]
  | hereafter t =>
    simp only [ValidNative] at h
    have hn := encode_ofInt t (by omega) (by omega)
    simp [NScript.item, nativeBytes, encode, encodeList, hn]
theorem native_seq_spec (xs : List NScript) (h : ValidNatives xs) : encodeList (NScript.items xs) = nativeSeq xs := by
  cases xs with
  | nil => simp [NScript.items, nativeSeq, encodeList]
  | cons x xs =>
    simp only [ValidNatives] at h
    simp [NScript.items, nativeSeq, encodeList, native_cbor_spec x h.1, native_seq_spec xs h.2]
end

mutual
theorem item_wf (s : NScript) (h : ValidNative s) : WF s.item := by
  cases s with
  | pubkey kh =>
    simp only [ValidNative] at h
    simp [NScript.item, WF, WFList, h]
  | all xs =>
    simp only [ValidNative] at h
    simp [NScript.item, WF, WFList, items_length, h.1, items_wf xs h.2]
  | any xs =>
    simp only [ValidNative] at h
    simp [NScript.item, WF, WFList, items_length, h.1, items_wf xs h.2]
  | nofk n xs =>
    simp only [ValidNative] at h
    have hn := ofInt_wf n (by omega) (by omega)
    simp [NScript.item, WF, WFList, items_length, h.2.1, items_wf xs h.2.2, hn]
  | before t =>
    simp only [ValidNative] at h
    have hn := ofInt_wf t (by omega) (by omega)
    simp [NScript.item, WF, WFList, hn]
  | hereafter t =>
    simp only [ValidNative] at h
    have hn := ofInt_wf t (by omega) (by omega)
    simp [NScript.item, WF, WFList, hn]
theorem items_wf (xs : List NScript) (h : ValidNatives xs) : WFList (NScript.items xs) := by
  cases xs with
  | nil => simp [NScript.items, WFList]
  | cons x xs =>
    simp only [ValidNatives] at h
    simp [NScript.items, WFList, item_wf x h.1, items_wf xs h.2]
end

mutual
/-- the primitive form determines the script tree -/
theorem item_inj (s t : NScript) (hs : ValidNative s) (ht : ValidNative t) (h : s.item = t.item) : s = t := by
  cases s with
  | pubkey kh => cases t <;> simp [NScript.item] at h ⊢ <;> exact h
  | all xs =>
    cases t with
    | all ys =>
      simp only [ValidNative] at hs ht
      simp [NScript.item] at h ⊢
      exact items_inj xs ys hs.2 ht.2 h
    | _ => simp [NScript.item] at h
  | any xs =>
    cases t with
    | any ys =>
      simp only [ValidNative] at hs ht
      simp [NScript.item] at h ⊢
      exact items_inj xs ys hs.2 ht.2 h
    | _ => simp [NScript.item] at h
  | nofk n xs =>
    cases t with
    | nofk m ys =>
      simp only [ValidNative] at hs ht
      simp [NScript.item] at h ⊢
      exact ⟨ofInt_inj n m (by omega) (by omega) (by omega) (by omega) h.1, items_inj xs ys hs.2.2 ht.2.2 h.2⟩
    | _ => simp [NScript.item] at h
  | before a =>
    cases t with
    | before b =>
      simp only [ValidNative] at hs ht
      simp [NScript.item] at h ⊢
      exact ofInt_inj a b (by omega) (by omega) (by omega) (by omega) h
    | _ => simp [NScript.item] at h
  | hereafter a =>
    cases t with
    | hereafter b =>
      simp only [ValidNative] at hs ht
      simp [NScript.item] at h ⊢
      exact ofInt_inj a b (by omega) (by omega) (by omega) (by omega) h
    | _ => simp [NScript.item] at h
theorem items_inj (xs ys : List NScript) (hs : ValidNatives xs) (ht : ValidNatives ys)
    (h : NScript.items xs = NScript.items ys) : xs = ys := by
  cases xs with
  | nil => cases ys with
    | nil => rfl
    | cons y ys => simp [NScript.items] at h
  | cons x xs => cases ys with
    | nil => simp [NScript.items] at h
    | cons y ys =>
      simp only [ValidNatives] at hs ht
      simp [NScript.items] at h ⊢
      exact ⟨item_inj x y hs.1 ht.1 h.1, items_inj xs ys hs.2 ht.2 h.2⟩
end

/-! ## candidate search -/

theorem firstMatch_some {σ : Type} (hash : σ → Bytes) (cred : Bytes) (cs : List (σ × Src)) (c : σ × Src)
    (h : firstMatch hash cred cs = some c) :
    ∃ pre post, cs = pre ++ c :: post ∧ hash c.1 = cred ∧ ∀ d ∈ pre, hash d.1 ≠ cred := by
  induction cs with
  | nil => simp [firstMatch] at h
  | cons a r ih =>
    simp only [firstMatch] at h
    by_cases ha : acceptsScript (hash a.1) cred = true
    · simp only [ha, if_true] at h
      injection h with h
      subst h
      exact ⟨[], r, rfl, by simpa [acceptsScript] using ha, by simp⟩
    · simp only [ha, Bool.false_eq_true, if_false] at h
      obtain ⟨pre, post, h1, h2, h3⟩ := ih h
      refine ⟨a :: pre, post, by simp [h1], h2, ?_⟩
      intro d hd
      simp only [List.mem_cons] at hd
      rcases hd with rfl | hd
      · simpa [acceptsScript] using ha
      · exact h3 d hd

theorem firstMatch_none {σ : Type} (hash : σ → Bytes) (cred : Bytes) (cs : List (σ × Src)) :
    firstMatch hash cred cs = none ↔ ∀ d ∈ cs, hash d.1 ≠ cred := by
  induction cs with
  | nil => simp [firstMatch]
  | cons a r ih =>
    simp only [firstMatch]
    by_cases ha : acceptsScript (hash a.1) cred = true
    · simp only [ha, if_true]
      constructor
      · intro h; cases h
      · intro h; exact absurd (by simpa [acceptsScript] using ha) (h a (by simp))
    · simp only [ha, Bool.false_eq_true, if_false]
      rw [ih]
      constructor
      · intro h d hd
        simp only [List.mem_cons] at hd
        rcases hd with rfl | hd
        · simpa [acceptsScript] using ha
        · exact h d hd
      · intro h d hd; exact h d (by simp [hd])

theorem lookupKey_append (k : Nat) (a b : List (Item × Item)) :
    lookupKey k (a ++ b) = match lookupKey k a with
      | some v => some v
      | none => lookupKey k b := by
  induction a with
  | nil => simp [lookupKey]
  | cons p r ih =>
    obtain ⟨key, v⟩ := p
    cases key <;> simp only [List.cons_append, lookupKey, ih]
    split <;> simp

end Pyc.Ids
