import Mathlib.Data.List.Nodup
import Mathlib.Data.List.Perm.Subperm
import Pyc.Proofs.SizeDom

/-! The placeholder witnesses of `_build_fake_vkey_witnesses`: how many survive the `OrderedSet`, and that each of them
dominates a real `[vkey, signature]` (for `Props/C07_SizeDom.lean`). -/

namespace Pyc.SizeDom
open Pyc Pyc.Cbor

theorem beBytes_length' (k n : Nat) : (beBytes k n).length = k := by
  induction k with
  | zero => simp [beBytes]
  | succ k ih => simp [beBytes, ih]

theorem fakeKey_lengths (i : Nat) : (fakeKey i).1.length = 32 ∧ (fakeKey i).2.length = 64 := by
  simp [fakeKey, andBytes, maskVkey, maskSig, beBytes_length']

/-- what `OrderedSet.extend` keeps: no repetition, nothing new, nothing already seen -/
theorem dedupAux_spec (seen xs : List (Bytes × Bytes)) :
    (dedupAux seen xs).Nodup ∧ ∀ x ∈ dedupAux seen xs, x ∈ xs ∧ x ∉ seen := by
  induction xs generalizing seen with
  | nil => simp [dedupAux]
  | cons x xs ih =>
    simp only [dedupAux]
    by_cases hc : seen.contains x = true
    · rw [if_pos hc]
      obtain ⟨h1, h2⟩ := ih seen
      exact ⟨h1, fun y hy => ⟨List.mem_cons_of_mem _ (h2 y hy).1, (h2 y hy).2⟩⟩
    · rw [if_neg hc]
      obtain ⟨h1, h2⟩ := ih (x :: seen)
      have hx : x ∉ seen := by simpa using hc
      refine ⟨List.nodup_cons.mpr ⟨?_, h1⟩, ?_⟩
      · intro hmem
        exact (h2 x hmem).2 (List.mem_cons_self)
      · intro y hy
        rcases List.mem_cons.mp hy with rfl | hy'
        · exact ⟨List.mem_cons_self, hx⟩
        · have := h2 y hy'
          exact ⟨List.mem_cons_of_mem _ this.1, fun hs => this.2 (List.mem_cons_of_mem _ hs)⟩

/-- a list without repetition and disjoint from what was seen goes through unchanged -/
theorem dedupAux_id (seen xs : List (Bytes × Bytes)) (hn : xs.Nodup) (hd : ∀ x ∈ xs, x ∉ seen) : dedupAux seen xs = xs := by
  induction xs generalizing seen with
  | nil => simp [dedupAux]
  | cons x xs ih =>
    have hx : x ∉ seen := hd x List.mem_cons_self
    have hc : ¬ seen.contains x = true := by simpa using hx
    obtain ⟨hxs, hn'⟩ := List.nodup_cons.mp hn
    simp only [dedupAux, if_neg hc]
    congr 1
    apply ih (x :: seen) hn'
    intro y hy hmem
    rcases List.mem_cons.mp hmem with rfl | hm
    · exact hxs hy
    · exact hd y (List.mem_cons_of_mem _ hy) hm

/-- the index is recoverable from the last byte of the key and bytes 31, 63 of the signature (`f9 | 5d | 03 = ff`) -/
def recover (w : Bytes × Bytes) : Nat := ((w.1.getD 31 0) ||| (w.2.getD 31 0) ||| (w.2.getD 63 0)).toNat

set_option maxRecDepth 100000 in
theorem recover_fakeKey : ∀ i, i < 256 → recover (fakeKey i) = i := by decide +kernel

theorem fakeKey_inj (i j : Nat) (hi : i < 256) (hj : j < 256) (h : fakeKey i = fakeKey j) : i = j := by
  have := congrArg recover h
  rwa [recover_fakeKey i hi, recover_fakeKey j hj] at this

theorem fakeKey_256 : fakeKey 256 = fakeKey 0 := by decide +kernel

theorem fakeKeys_length (n : Nat) (h : n ≤ 256) : (fakeKeys n).length = n := by
  unfold fakeKeys
  rw [dedupAux_id]
  · simp
  · apply List.Nodup.map_on _ List.nodup_range
    intro x hx y hy hxy
    exact fakeKey_inj x y (by have := List.mem_range.mp hx; omega) (by have := List.mem_range.mp hy; omega) hxy
  · intro x _; simp

theorem fakeKeys_257 : (fakeKeys 257).length ≤ 256 := by
  have hs := dedupAux_spec [] ((List.range 257).map fakeKey)
  have hsub : fakeKeys 257 ⊆ (List.range 256).map fakeKey := by
    intro x hx
    have hm := (hs.2 x hx).1
    obtain ⟨i, hi, rfl⟩ := List.mem_map.mp hm
    have hi' := List.mem_range.mp hi
    by_cases h : i < 256
    · exact List.mem_map.mpr ⟨i, List.mem_range.mpr h, rfl⟩
    · have : i = 256 := by omega
      subst this
      rw [fakeKey_256]
      exact List.mem_map.mpr ⟨0, List.mem_range.mpr (by omega), rfl⟩
  have := (List.subperm_of_subset hs.1 hsub).length_le
  simpa [fakeKeys] using this

/-- every placeholder is `fakeKey i` for some `i` below the count -/
theorem mem_fakeKeys (n : Nat) (w : Bytes × Bytes) (h : w ∈ fakeKeys n) : ∃ i, i < n ∧ w = fakeKey i := by
  have hm := ((dedupAux_spec [] ((List.range n).map fakeKey)).2 w h).1
  obtain ⟨i, hi, rfl⟩ := List.mem_map.mp hm
  exact ⟨i, List.mem_range.mp hi, rfl⟩

/-- a placeholder dominates any `[vkey, signature]` with a key of at most 32 and a signature of at most 64 bytes -/
theorem witItem_dom (f r : Bytes × Bytes) (hf : f.1.length = 32 ∧ f.2.length = 64) (hr : r.1.length ≤ 32 ∧ r.2.length ≤ 64) :
    domB (witItem f) (witItem r) = true := by
  simp [witItem, domB, domList, hf.1, hf.2, hr.1, hr.2]

theorem witList_dom (fs rs : List (Bytes × Bytes)) (hl : rs.length ≤ fs.length)
    (hf : ∀ f ∈ fs, f.1.length = 32 ∧ f.2.length = 64) (hr : ∀ r ∈ rs, r.1.length ≤ 32 ∧ r.2.length ≤ 64) :
    domList (fs.map witItem) (rs.map witItem) = true := by
  induction fs generalizing rs with
  | nil =>
    cases rs with
    | nil => simp [domList]
    | cons r rs => simp at hl
  | cons f fs ih =>
    cases rs with
    | nil => simp [domList]
    | cons r rs =>
      have h0 := witItem_dom f r (hf f List.mem_cons_self) (hr r List.mem_cons_self)
      simp only [List.map_cons, domList, h0, if_true]
      exact ih rs (by simpa using hl) (fun x hx => hf x (List.mem_cons_of_mem _ hx)) (fun x hx => hr x (List.mem_cons_of_mem _ hx))

end Pyc.SizeDom
