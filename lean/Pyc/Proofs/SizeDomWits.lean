import Mathlib.Data.List.Nodup
import Mathlib.Tactic.Ring
import Pyc.Proofs.SizeDom

/-! The placeholder witnesses of `_build_fake_vkey_witnesses`: how many survive the `OrderedSet`, and that each of them
dominates a real `[vkey, signature]` (for `Props/C07_SizeDom.lean`). -/

namespace Pyc.SizeDom
open Pyc Pyc.Cbor

theorem beBytes_length' (k n : Nat) : (beBytes k n).length = k := by
  induction k with
  | zero => simp [beBytes]
  | succ k ih => simp [beBytes, ih]

theorem fakeKey_lengths (i : Nat) : (fakeKey i).1.length = 32 ∧ (fakeKey i).2.length = 64 := by
  simp [fakeKey, xorBytes, maskVkey, maskSig, beBytes_length']

/-- what `OrderedSet.extend` keeps: no repetition, nothing new, nothing already seen -/
theorem dedupAux_spec (seen xs : List (Bytes × Bytes)) :
    (dedupAux seen xs).Nodup ∧ ∀ x ∈ dedupAux seen xs, x ∈ xs ∧ x ∉ seen := by
  induction xs generalizing seen with
  | nil => simp [dedupAux]
  | cons x xs ih =>
    simp only [dedupAux]
    by_cases hc : seen.contains x = true
    · rw [if_pos hc]
      obtain ⟨h1, h2⟩ := ih seen
      exact ⟨h1, fun y hy => ⟨List.mem_cons_of_mem _ (h2 y hy).1, (h2 y hy).2⟩⟩
    · rw [if_neg hc]
      obtain ⟨h1, h2⟩ := ih (x :: seen)
      have hx : x ∉ seen := by simpa using hc
      refine ⟨List.nodup_cons.mpr ⟨?_, h1⟩, ?_⟩
      · intro hmem
        exact (h2 x hmem).2 (List.mem_cons_self)
      · intro y hy
        rcases List.mem_cons.mp hy with rfl | hy'
        · exact ⟨List.mem_cons_self, hx⟩
        · have := h2 y hy'
          exact ⟨List.mem_cons_of_mem _ this.1, fun hs => this.2 (List.mem_cons_of_mem _ hs)⟩

/-- a list without repetition and disjoint from what was seen goes through unchanged -/
theorem dedupAux_id (seen xs : List (Bytes × Bytes)) (hn : xs.Nodup) (hd : ∀ x ∈ xs, x ∉ seen) : dedupAux seen xs = xs := by
  induction xs generalizing seen with
  | nil => simp [dedupAux]
  | cons x xs ih =>
    have hx : x ∉ seen := hd x List.mem_cons_self
    have hc : ¬ seen.contains x = true := by simpa using hx
    obtain ⟨hxs, hn'⟩ := List.nodup_cons.mp hn
    simp only [dedupAux, if_neg hc]
    congr 1
    apply ih (x :: seen) hn'
    intro y hy hmem
    rcases List.mem_cons.mp hmem with rfl | hm
    · exact hxs hy
    · exact hd y (List.mem_cons_of_mem _ hy) hm

/-- big-endian bytes read back: the value modulo `256^k` -/
theorem fromBE_beBytes (k n acc : Nat) : fromBE (beBytes k n) acc = acc * 256 ^ k + n % 256 ^ k := by
  induction k generalizing acc with
  | zero => simp [beBytes, fromBE, Nat.mod_one]
  | succ k ih =>
    have hb : (UInt8.ofNat (n / 256 ^ k % 256)).toNat = n / 256 ^ k % 256 := by
      simp [Nat.mod_eq_of_lt (Nat.mod_lt _ (by decide : 0 < 256))]
    simp only [beBytes, fromBE, ih, hb]
    have hm : n % 256 ^ (k + 1) = n % 256 ^ k + 256 ^ k * (n / 256 ^ k % 256) := by
      rw [Nat.pow_succ, Nat.mod_mul]
    rw [hm, Nat.pow_succ]
    ring

/-- the 32-byte big-endian encoding is injective below `2^256` (`256^32`) -/
theorem beBytes32_inj (i j : Nat) (hi : i < 2 ^ 256) (hj : j < 2 ^ 256) (h : beBytes 32 i = beBytes 32 j) : i = j := by
  have h1 := fromBE_beBytes 32 i 0
  have h2 := fromBE_beBytes 32 j 0
  rw [h] at h1
  have e : (256 : Nat) ^ 32 = 2 ^ 256 := by decide
  rw [e, Nat.mod_eq_of_lt hi] at h1
  rw [e, Nat.mod_eq_of_lt hj] at h2
  omega

theorem uint8_xor_cancel (a b c : UInt8) (h : a ^^^ b = a ^^^ c) : b = c := by
  have hb : a ^^^ (a ^^^ b) = b := by rw [← UInt8.xor_assoc, UInt8.xor_self, UInt8.zero_xor]
  have hc : a ^^^ (a ^^^ c) = c := by rw [← UInt8.xor_assoc, UInt8.xor_self, UInt8.zero_xor]
  rw [← hb, h, hc]

/-- XOR with a constant mask that is at least as long is one-to-one on strings of equal length -/
theorem xorBytes_inj (m x y : Bytes) (hl : x.length = y.length) (hm : x.length ≤ m.length)
    (h : xorBytes m x = xorBytes m y) : x = y := by
  induction m generalizing x y with
  | nil =>
    have : x.length = 0 := by simpa using hm
    have hx : x = [] := List.length_eq_zero_iff.mp this
    have hy : y = [] := List.length_eq_zero_iff.mp (by omega)
    rw [hx, hy]
  | cons a m ih =>
    cases x with
    | nil =>
      have hy : y = [] := List.length_eq_zero_iff.mp (by simpa using hl.symm)
      rw [hy]
    | cons b x =>
      cases y with
      | nil => simp at hl
      | cons c y =>
        simp only [xorBytes, List.zipWith_cons_cons, List.cons.injEq] at h
        have hbc := uint8_xor_cancel a b c h.1
        have := ih x y (by simpa using hl) (by simpa using hm) h.2
        rw [hbc, this]

/-- placeholders of different indices below `2^256` differ (already in the key) -/
theorem fakeKey_inj (i j : Nat) (hi : i < 2 ^ 256) (hj : j < 2 ^ 256) (h : fakeKey i = fakeKey j) : i = j := by
  have h1 : xorBytes maskVkey (beBytes 32 i) = xorBytes maskVkey (beBytes 32 j) := congrArg Prod.fst h
  have := xorBytes_inj maskVkey (beBytes 32 i) (beBytes 32 j) (by simp [beBytes_length'])
    (by simp [beBytes_length', maskVkey]) h1
  exact beBytes32_inj i j hi hj this

/-- up to `2^256` the `OrderedSet` drops nothing: the placeholders are `fakeKey 0, …, fakeKey (n-1)` -/
theorem fakeKeys_eq (n : Nat) (h : n ≤ 2 ^ 256) : fakeKeys n = (List.range n).map fakeKey ∧ ((List.range n).map fakeKey).Nodup := by
  have hnd : ((List.range n).map fakeKey).Nodup := by
    apply List.Nodup.map_on _ List.nodup_range
    intro x hx y hy hxy
    exact fakeKey_inj x y (by have := List.mem_range.mp hx; omega) (by have := List.mem_range.mp hy; omega) hxy
  refine ⟨?_, hnd⟩
  unfold fakeKeys
  exact dedupAux_id [] _ hnd (by intro x _; simp)

theorem fakeKeys_length (n : Nat) (h : n ≤ 2 ^ 256) : (fakeKeys n).length = n := by
  rw [(fakeKeys_eq n h).1]; simp

/-- the deviation of the model at the bound: index `2^256` wraps to index 0 (Python: `OverflowError`) -/
theorem fakeKey_wraps : fakeKey (2 ^ 256) = fakeKey 0 := by decide +kernel

/-- every placeholder is `fakeKey i` for some `i` below the count -/
theorem mem_fakeKeys (n : Nat) (w : Bytes × Bytes) (h : w ∈ fakeKeys n) : ∃ i, i < n ∧ w = fakeKey i := by
  have hm := ((dedupAux_spec [] ((List.range n).map fakeKey)).2 w h).1
  obtain ⟨i, hi, rfl⟩ := List.mem_map.mp hm
  exact ⟨i, List.mem_range.mp hi, rfl⟩

/-- a placeholder dominates any `[vkey, signature]` with a key of at most 32 and a signature of at most 64 bytes -/
theorem witItem_dom (f r : Bytes × Bytes) (hf : f.1.length = 32 ∧ f.2.length = 64) (hr : r.1.length ≤ 32 ∧ r.2.length ≤ 64) :
    domB (witItem f) (witItem r) = true := by
  simp [witItem, domB, domList, hf.1, hf.2, hr.1, hr.2]

theorem witList_dom (fs rs : List (Bytes × Bytes)) (hl : rs.length ≤ fs.length)
    (hf : ∀ f ∈ fs, f.1.length = 32 ∧ f.2.length = 64) (hr : ∀ r ∈ rs, r.1.length ≤ 32 ∧ r.2.length ≤ 64) :
    domList (fs.map witItem) (rs.map witItem) = true := by
  induction fs generalizing rs with
  | nil =>
    cases rs with
    | nil => simp [domList]
    | cons r rs => simp at hl
  | cons f fs ih =>
    cases rs with
    | nil => simp [domList]
    | cons r rs =>
      have h0 := witItem_dom f r (hf f List.mem_cons_self) (hr r List.mem_cons_self)
      simp only [List.map_cons, domList, h0, if_true]
      exact ih rs (by simpa using hl) (fun x hx => hf x (List.mem_cons_of_mem _ hx)) (fun x hx => hr x (List.mem_cons_of_mem _ hx))

end Pyc.SizeDom
