import Pyc.Model.Witness

/-! Helper lemmas for C10 (core Lean only). -/

namespace Pyc.Witness

/-! ## `dedup` -/

theorem mem_dedup {α} [DecidableEq α] (a : α) (l : List α) : a ∈ dedup l ↔ a ∈ l := by
  induction l with
  | nil => simp [dedup]
  | cons x xs ih =>
    simp only [dedup]
    split
    · rename_i hx
      rw [ih, List.mem_cons]
      constructor
      · exact Or.inr
      · rintro (rfl | h)
        · exact ih.1 hx
        · exact h
    · simp [ih]

theorem nodup_dedup {α} [DecidableEq α] (l : List α) : (dedup l).Nodup := by
  induction l with
  | nil => simp [dedup]
  | cons x xs ih =>
    simp only [dedup]
    split
    · exact ih
    · rename_i hx
      exact List.nodup_cons.2 ⟨hx, ih⟩

theorem dedup_of_nodup {α} [DecidableEq α] (l : List α) (h : l.Nodup) : dedup l = l := by
  induction l with
  | nil => rfl
  | cons x xs ih =>
    have h' := List.nodup_cons.1 h
    simp only [dedup]
    rw [ih h'.2, if_neg h'.1]

theorem length_dedup_le {α} [DecidableEq α] (l : List α) : (dedup l).length ≤ l.length := by
  induction l with
  | nil => simp [dedup]
  | cons x xs ih =>
    simp only [dedup]
    split
    · simp; omega
    · simp; omega

/-- a list with a repeated element loses length under `dedup` -/
theorem length_dedup_lt {α} [DecidableEq α] (l : List α) (h : ¬ l.Nodup) : (dedup l).length < l.length := by
  induction l with
  | nil => simp at h
  | cons x xs ih =>
    simp only [dedup]
    split
    · have := length_dedup_le xs; simp; omega
    · rename_i hx
      have hxs : ¬ xs.Nodup := by
        intro hn
        exact h (List.nodup_cons.2 ⟨fun hm => hx ((mem_dedup x xs).2 hm), hn⟩)
      have := ih hxs
      simp; omega

/-! ## native scripts -/

/-- `h` occurs as a `ScriptPubkey` leaf of the script, at any depth, below any combinator -/
inductive HasKey (h : Bytes) : NScript → Prop
  | pubkey : HasKey h (.pubkey h)
  | all {l s} : s ∈ l → HasKey h s → HasKey h (.all l)
  | any {l s} : s ∈ l → HasKey h s → HasKey h (.any l)
  | nofk {n l s} : s ∈ l → HasKey h s → HasKey h (.nofk n l)

theorem mem_keysList_of_mem (h : Bytes) (l : List NScript) (s : NScript) (hs : s ∈ l) (hk : h ∈ s.keys) :
    h ∈ NScript.keysList l := by
  induction l with
  | nil => simp at hs
  | cons x xs ih =>
    simp only [NScript.keysList, List.mem_append]
    rcases List.mem_cons.1 hs with rfl | h'
    · exact Or.inl hk
    · exact Or.inr (ih h')

theorem mem_keys_of_hasKey (h : Bytes) (s : NScript) (hk : HasKey h s) : h ∈ s.keys := by
  induction hk with
  | pubkey => simp [NScript.keys]
  | all hs _ ih => simp only [NScript.keys]; exact mem_keysList_of_mem h _ _ hs ih
  | any hs _ ih => simp only [NScript.keys]; exact mem_keysList_of_mem h _ _ hs ih
  | nofk hs _ ih => simp only [NScript.keys]; exact mem_keysList_of_mem h _ _ hs ih

mutual
theorem hasKey_of_mem_keys (h : Bytes) (s : NScript) (hm : h ∈ s.keys) : HasKey h s := by
  cases s with
  | pubkey k =>
    simp only [NScript.keys, List.mem_singleton] at hm
    subst hm; exact .pubkey
  | all l =>
    simp only [NScript.keys] at hm
    obtain ⟨s', hs', hk⟩ := hasKey_of_mem_keysList h l hm
    exact .all hs' hk
  | any l =>
    simp only [NScript.keys] at hm
    obtain ⟨s', hs', hk⟩ := hasKey_of_mem_keysList h l hm
    exact .any hs' hk
  | nofk n l =>
    simp only [NScript.keys] at hm
    obtain ⟨s', hs', hk⟩ := hasKey_of_mem_keysList h l hm
    exact .nofk hs' hk
  | before _ => simp [NScript.keys] at hm
  | after _ => simp [NScript.keys] at hm
theorem hasKey_of_mem_keysList (h : Bytes) (l : List NScript) (hm : h ∈ NScript.keysList l) :
    ∃ s, s ∈ l ∧ HasKey h s := by
  cases l with
  | nil => simp [NScript.keysList] at hm
  | cons x xs =>
    simp only [NScript.keysList, List.mem_append] at hm
    rcases hm with hm | hm
    · exact ⟨x, by simp, hasKey_of_mem_keys h x hm⟩
    · obtain ⟨s, hs, hk⟩ := hasKey_of_mem_keysList h xs hm
      exact ⟨s, by simp [hs], hk⟩
end

theorem mem_keys_iff (h : Bytes) (s : NScript) : h ∈ s.keys ↔ HasKey h s :=
  ⟨hasKey_of_mem_keys h s, mem_keys_of_hasKey h s⟩

theorem mem_keysList_iff (h : Bytes) (l : List NScript) : h ∈ NScript.keysList l ↔ ∃ s, s ∈ l ∧ HasKey h s :=
  ⟨hasKey_of_mem_keysList h l, fun ⟨s, hs, hk⟩ => mem_keysList_of_mem h l s hs (mem_keys_of_hasKey h s hk)⟩

/-! ## credentials -/

theorem mem_keyCreds (h : Bytes) (l : List Cred) : h ∈ keyCreds l ↔ (⟨true, h⟩ : Cred) ∈ l := by
  simp only [keyCreds, List.mem_map, List.mem_filter]
  constructor
  · rintro ⟨c, ⟨hc, hk⟩, rfl⟩
    obtain ⟨k, x⟩ := c
    simp only at hk; subst hk; exact hc
  · intro hm; exact ⟨_, ⟨hm, rfl⟩, rfl⟩

theorem mem_rewardKeyHash (h b : Bytes) :
    h ∈ rewardKeyHash b ↔ ∃ hd, b = hd :: h ∧ hd.toNat / 16 = 14 := by
  cases b with
  | nil => simp [rewardKeyHash]
  | cons x p =>
    simp only [rewardKeyHash]
    split
    · rename_i hx
      simp only [List.mem_singleton]
      constructor
      · rintro rfl; exact ⟨x, rfl, hx⟩
      · rintro ⟨hd, he, _⟩; injection he with _ h2; exact h2.symm
    · rename_i hx
      simp only [List.not_mem_nil, false_iff]
      rintro ⟨hd, he, h14⟩; injection he with h1 _; subst h1; exact hx h14

/-- `certVkeys` collects the key credential of every certificate kind — the pool operator / retiring pool hash
unconditionally (always key hashes) — and the owners of a pool registration; nothing else -/
theorem mem_certVkeys (h : Bytes) (c : Cert) :
    h ∈ certVkeys c ↔ ((h = c.cred.hash ∧ (c.cred.isKey = true ∨ c.kind = .poolReg ∨ c.kind = .poolRetire))
      ∨ (c.kind = .poolReg ∧ h ∈ c.owners)) := by
  obtain ⟨k, ⟨ik, ch⟩, ow⟩ := c
  cases k <;> cases ik <;>
    simp [certVkeys, credKey, CertKind.isStakeKind, CertKind.isDRepKind, CertKind.isCommitteeKind]

/-- the code's collection contains everything the property text asks for -/
theorem certVkeysFull_subset (h : Bytes) (c : Cert) (hm : h ∈ certVkeysFull c) : h ∈ certVkeys c := by
  rw [mem_certVkeys]
  unfold certVkeysFull credKey at hm
  rw [List.mem_append] at hm
  rcases hm with hm | hm
  · by_cases hk : c.cred.isKey = true
    · simp [hk] at hm; exact Or.inl ⟨hm, Or.inl hk⟩
    · simp [hk] at hm
  · by_cases hp : c.kind = .poolReg
    · simp [hp] at hm; exact Or.inr ⟨hp, hm⟩
    · simp [hp] at hm

theorem mem_allNativeScripts (s : NScript) (st : State) :
    s ∈ allNativeScripts st ↔ (s ∈ st.nativeScripts ∨ s ∈ st.inputScripts ∨ s ∈ st.mintScripts
      ∨ s ∈ st.withdrawalScripts ∨ s ∈ st.certScripts) := by
  simp [allNativeScripts]

/-! ## placeholder witnesses -/

theorem nodup_map_range {α} (f : Nat → α) (n : Nat) (hinj : ∀ i j, i < n → j < n → f i = f j → i = j) :
    ((List.range n).map f).Nodup := by
  rw [List.Nodup, List.pairwise_map]
  have hr : (List.range n).Pairwise (· < ·) := List.pairwise_lt_range
  have hm : ∀ a, a ∈ List.range n → a < n := fun a ha => List.mem_range.1 ha
  revert hr hm
  generalize List.range n = l
  intro hr hm
  induction hr with
  | nil => exact .nil
  | @cons a l' hlt _ ih =>
    refine .cons ?_ (ih fun b hb => hm b (by simp [hb]))
    intro b hb heq
    have := hinj a b (hm a (by simp)) (hm b (by simp [hb])) heq
    have := hlt b hb
    omega

/-! ## the signing loop -/

theorem mem_signLoop {κ} [DecidableEq κ] (ops : KeyOps κ) (H28 : Bytes → Bytes) (force : Bool)
    (required : List Bytes) (msg : Bytes) (keys : List κ) (w : Witness) :
    w ∈ signLoop ops H28 force required msg keys ↔
      ∃ k, k ∈ keys ∧ signs ops H28 force required k = true ∧ w = ⟨vkey32 ops k, ops.sign k msg⟩ := by
  unfold signLoop
  rw [mem_dedup, List.mem_map]
  constructor
  · rintro ⟨k, hk, rfl⟩
    rw [List.mem_filter, mem_dedup] at hk
    exact ⟨k, hk.1, hk.2, rfl⟩
  · rintro ⟨k, hk, hs, rfl⟩
    exact ⟨k, by rw [List.mem_filter, mem_dedup]; exact ⟨hk, hs⟩, rfl⟩

end Pyc.Witness
