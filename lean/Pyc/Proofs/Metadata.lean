import Pyc.Model.Metadata
import Pyc.Spec.Metadata
import Pyc.Proofs.CustomCodec
import Pyc.Proofs.Ids

/-! Helper lemmas for `Props/C01_Metadata.lean`, `Props/C02_Metadata.lean`, `Props/C17_Metadata.lean`. -/

set_option linter.unusedSimpArgs false
set_option linter.unusedVariables false

namespace Pyc.Metadata
open Pyc Pyc.Cbor Pyc.Codec Pyc.Custom

/-! ## metadatum values: cbor2 reads back what it wrote -/

theorem mdOfItem_ofInt (i : Int) : mdOfItem (ofInt i) = .int i := by
  unfold ofInt
  by_cases h0 : 0 ≤ i
  · simp only [h0, if_true]
    split
    · simp only [mdOfItem]; congr 1; omega
    · simp only [mdOfItem, tagMd, if_true, fromBE_natBytes]; congr 1; omega
  · simp only [h0, if_false]
    split
    · simp only [mdOfItem]; congr 1; omega
    · have h32 : ¬ ((3 : Nat) = 2) := by decide
      simp only [mdOfItem, tagMd, h32, if_false, if_true, fromBE_natBytes]; congr 1; omega

mutual
theorem mdOfItem_itemMd (v : Md) (h : plainV v = true) : mdOfItem (itemMd v) = v := by
  cases v with
  | int i => simp only [itemMd, mdOfItem_ofInt]
  | bool b => cases b <;> simp [itemMd, mdOfItem, simpleMd]
  | bytes b => simp only [itemMd, mdOfItem]
  | text b => simp only [itemMd, mdOfItem]
  | list xs =>
    simp only [plainV] at h
    simp only [itemMd, mdOfItem, mdOfItems_itemMdList xs h]
  | map kvs =>
    simp only [plainV] at h
    simp only [itemMd, mdOfItem, mdOfPairs_itemMdPairs kvs h]
  | raw i => simp [plainV] at h
theorem mdOfItems_itemMdList (xs : List Md) (h : plainL xs = true) : mdOfItems (itemMdList xs) = xs := by
  cases xs with
  | nil => simp only [itemMdList, mdOfItems]
  | cons x xs =>
    simp only [plainL, Bool.and_eq_true] at h
    simp only [itemMdList, mdOfItems, mdOfItem_itemMd x h.1, mdOfItems_itemMdList xs h.2]
theorem mdOfPairs_itemMdPairs (kvs : List (Md × Md)) (h : plainP kvs = true) : mdOfPairs (itemMdPairs kvs) = kvs := by
  cases kvs with
  | nil => simp only [itemMdPairs, mdOfPairs]
  | cons p r =>
    obtain ⟨k, v⟩ := p
    simp only [plainP, Bool.and_eq_true] at h
    simp only [itemMdPairs, mdOfPairs, mdOfItem_itemMd k h.1.1, mdOfItem_itemMd v h.1.2, mdOfPairs_itemMdPairs r h.2]
end

/-- re-encoding what was read reproduces the item, for EVERY value (`raw` leaves are carried as they are) -/
theorem itemMd_mdOfItem_itemMd_plain (v : Md) (h : plainV v = true) : itemMd (mdOfItem (itemMd v)) = itemMd v := by
  rw [mdOfItem_itemMd v h]

/-! ## validation: the declarative predicate -/

/-- what `_validate_type_and_size` accepts: a tree whose leaves REACHED THROUGH LIST ITEMS AND MAP VALUES are integers
(booleans included) or strings of at most 64 bytes; map keys are not constrained -/
inductive Accepted : Md → Prop where
  | int (i : Int) : Accepted (.int i)
  | bool (b : Bool) : Accepted (.bool b)
  | bytes (b : Bytes) (h : b.length ≤ 64) : Accepted (.bytes b)
  | text (b : Bytes) (h : b.length ≤ 64) : Accepted (.text b)
  | list (xs : List Md) (h : ∀ x ∈ xs, Accepted x) : Accepted (.list xs)
  | map (kvs : List (Md × Md)) (h : ∀ p ∈ kvs, Accepted p.2) : Accepted (.map kvs)

mutual
theorem validV_sound (v : Md) (h : validV v = true) : Accepted v := by
  cases v with
  | int i => exact .int i
  | bool b => exact .bool b
  | bytes b => simp only [validV, MAX_ITEM_SIZE] at h; exact .bytes b (of_decide_eq_true h)
  | text b => simp only [validV, MAX_ITEM_SIZE] at h; exact .text b (of_decide_eq_true h)
  | list xs => simp only [validV] at h; exact .list xs (validL_sound xs h)
  | map kvs => simp only [validV] at h; exact .map kvs (validP_sound kvs h)
  | raw i => simp [validV] at h
theorem validL_sound (xs : List Md) (h : validL xs = true) : ∀ x ∈ xs, Accepted x := by
  cases xs with
  | nil => intro x hx; cases hx
  | cons y ys =>
    simp only [validL, Bool.and_eq_true] at h
    intro x hx
    rcases List.mem_cons.1 hx with e | hx
    · rw [e]; exact validV_sound y h.1
    · exact validL_sound ys h.2 x hx
theorem validP_sound (kvs : List (Md × Md)) (h : validP kvs = true) : ∀ p ∈ kvs, Accepted p.2 := by
  cases kvs with
  | nil => intro x hx; cases hx
  | cons q r =>
    obtain ⟨k, v⟩ := q
    simp only [validP, Bool.and_eq_true] at h
    intro p hp
    rcases List.mem_cons.1 hp with e | hp
    · rw [e]; exact validV_sound v h.1
    · exact validP_sound r h.2 p hp
end

mutual
theorem validV_complete (v : Md) (h : Accepted v) : validV v = true := by
  cases v with
  | int i => rfl
  | bool b => rfl
  | bytes b => cases h with | bytes _ hb => simp [validV, MAX_ITEM_SIZE, hb]
  | text b => cases h with | text _ hb => simp [validV, MAX_ITEM_SIZE, hb]
  | list xs => cases h with | list _ hx => simp only [validV]; exact validL_complete xs hx
  | map kvs => cases h with | map _ hx => simp only [validV]; exact validP_complete kvs hx
  | raw i => cases h
theorem validL_complete (xs : List Md) (h : ∀ x ∈ xs, Accepted x) : validL xs = true := by
  cases xs with
  | nil => rfl
  | cons y ys =>
    simp only [validL, Bool.and_eq_true]
    exact ⟨validV_complete y (h y (by simp)), validL_complete ys (fun x hx => h x (by simp [hx]))⟩
theorem validP_complete (kvs : List (Md × Md)) (h : ∀ p ∈ kvs, Accepted p.2) : validP kvs = true := by
  cases kvs with
  | nil => rfl
  | cons q r =>
    obtain ⟨k, v⟩ := q
    simp only [validP, Bool.and_eq_true]
    exact ⟨validV_complete v (h (k, v) (by simp)), validP_complete r (fun p hp => h p (by simp [hp]))⟩
end

theorem validateArgs_iff (kvs : List (Md × Md)) :
    validateArgs kvs = true ↔ ∀ p ∈ kvs, (∃ l, p.1 = .int l) ∧ Accepted p.2 := by
  induction kvs with
  | nil => simp [validateArgs]
  | cons q r ih =>
    obtain ⟨k, v⟩ := q
    simp only [validateArgs, Bool.and_eq_true, ih, List.mem_cons, forall_eq_or_imp]
    constructor
    · rintro ⟨⟨hk, hv⟩, hr⟩
      refine ⟨⟨?_, validV_sound v hv⟩, hr⟩
      cases k <;> simp [isLabel] at hk
      exact ⟨_, rfl⟩
    · rintro ⟨⟨⟨l, hl⟩, hv⟩, hr⟩
      subst hl
      exact ⟨⟨rfl, validV_complete v hv⟩, hr⟩

theorem mkMetadata_some_iff (kvs : List (Md × Md)) : (mkMetadata kvs).isSome = validateArgs kvs := by
  induction kvs with
  | nil => rfl
  | cons q r ih =>
    obtain ⟨k, v⟩ := q
    cases k <;> simp [mkMetadata, validateArgs, isLabel]
    rename_i l
    cases hv : validV v <;> simp [← ih]

/-! ## label maps -/

def labels (m : Metadata) : List Int := m.map (·.1)

theorem distinctLabels_sound (m : Metadata) (h : distinctLabels m = true) : (labels m).Nodup := by
  induction m with
  | nil => simp [labels]
  | cons p r ih =>
    simp only [distinctLabels, Bool.and_eq_true, Bool.not_eq_true', List.any_eq_false, beq_iff_eq] at h
    simp only [labels, List.map_cons, List.nodup_cons, List.mem_map, not_exists, not_and]
    exact ⟨fun q hq e => h.1 q hq e, ih h.2⟩

theorem setLabel_fresh (acc : Metadata) (l : Int) (v : Md) (h : l ∉ labels acc) : setLabel acc l v = acc ++ [(l, v)] := by
  induction acc with
  | nil => rfl
  | cons p r ih =>
    obtain ⟨l', v'⟩ := p
    simp only [labels, List.map_cons, List.mem_cons, not_or] at h
    have hne : ¬ (l' = l) := fun e => h.1 e.symm
    simp only [setLabel, hne, if_false, List.cons_append]
    rw [ih h.2]

/-- the decode loop on the image of a label map whose labels are new and distinct: the map itself, appended -/
theorem decMetadataLoop_image (l : Metadata) (acc : Metadata) (hn : (labels (acc ++ l)).Nodup)
    (hp : ∀ p ∈ l, plainV p.2 = true) :
    decMetadataLoop acc (l.map (fun p => (ofInt p.1, itemMd p.2))) = .ok (acc ++ l) := by
  induction l generalizing acc with
  | nil => simp [decMetadataLoop]
  | cons p r ih =>
    obtain ⟨k, v⟩ := p
    have hfresh : k ∉ labels acc := by
      simp only [labels, List.map_append, List.map_cons] at hn
      have := (List.nodup_append.1 hn).2.2
      intro hk
      exact this k hk k (by simp) rfl
    simp only [List.map_cons, decMetadataLoop, itemInt_ofInt_all, mdOfItem_itemMd v (hp (k, v) (by simp)),
      setLabel_fresh acc k v hfresh]
    have := ih (acc ++ [(k, v)]) (by simpa [List.append_assoc] using hn) (fun q hq => hp q (by simp [hq]))
    simpa [List.append_assoc] using this

def labelLe (a b : Int × Md) : Bool := lenLexLe (sortKeyInt a.1) (sortKeyInt b.1)

theorem canonSortInt_eq (m : Metadata) : canonSortInt m = isort labelLe m := rfl

theorem canonSortInt_perm (m : Metadata) : (canonSortInt m).Perm m := isort_perm _ _

theorem canonSortInt_sorted (m : Metadata) : (canonSortInt m).Pairwise (fun a b => labelLe a b = true) :=
  isort_pairwise labelLe (fun a b c h1 h2 => lenLexLe_trans _ _ _ h1 h2) (fun a b => lenLexLe_total _ _) m

theorem canonSortInt_idem (m : Metadata) : canonSortInt (canonSortInt m) = canonSortInt m :=
  isort_of_sorted labelLe _ (canonSortInt_sorted m)

theorem labels_nodup_canon (m : Metadata) (h : (labels m).Nodup) : (labels (canonSortInt m)).Nodup := by
  unfold labels at *
  exact ((canonSortInt_perm m).map _).nodup_iff.2 h

theorem decMetadata_itemMetadata (m : Metadata) (hd : (labels m).Nodup) (hp : ∀ p ∈ m, plainV p.2 = true) :
    decMetadata (itemMetadata m) = .ok (canonSortInt m) := by
  simp only [itemMetadata, decMetadata]
  have := decMetadataLoop_image (canonSortInt m) [] (by simpa using labels_nodup_canon m hd)
    (fun p hp' => hp p ((canonSortInt_perm m).subset hp'))
  simpa using this

theorem itemMetadata_canon (m : Metadata) : itemMetadata (canonSortInt m) = itemMetadata m := by
  simp only [itemMetadata, canonSortInt_idem]

/-- the sort key of a label determines the label (for labels cbor2 can write at all) -/
theorem sortKeyInt_inj (a b : Int) (ha : WF (ofInt a)) (hb : WF (ofInt b)) (h : sortKeyInt a = sortKeyInt b) : a = b := by
  unfold sortKeyInt at h
  have := Pyc.Ids.encode_injective (ofInt a) (ofInt b) ha hb h
  have h1 := itemInt_ofInt_all a
  rw [this, itemInt_ofInt_all b] at h1
  exact (Option.some.inj h1).symm

theorem eq_of_label_eq (m : Metadata) (h : (labels m).Nodup) (a b : Int × Md) (ha : a ∈ m) (hb : b ∈ m)
    (e : a.1 = b.1) : a = b := by
  induction m with
  | nil => cases ha
  | cons p r ih =>
    simp only [labels, List.map_cons, List.nodup_cons, List.mem_map, not_exists, not_and] at h
    rcases List.mem_cons.1 ha with rfl | ha' <;> rcases List.mem_cons.1 hb with rfl | hb'
    · rfl
    · exact absurd e.symm (h.1 b hb')
    · exact absurd e (h.1 a ha')
    · exact ih h.2 ha' hb'

/-- labels whose CBOR head fits (all labels below 2^(8·2^64) in magnitude: every label a machine can hold) -/
def LabelsWF (m : Metadata) : Prop := ∀ p ∈ m, WF (ofInt p.1)

theorem canonSortInt_unique (m₁ m₂ : Metadata) (hd : (labels m₁).Nodup) (hw : LabelsWF m₁) (hp : m₁.Perm m₂) :
    canonSortInt m₁ = canonSortInt m₂ := by
  have p1 := canonSortInt_perm m₁
  have p2 := canonSortInt_perm m₂
  apply List.Perm.eq_of_pairwise (le := fun a b => labelLe a b = true) _ (canonSortInt_sorted m₁) (canonSortInt_sorted m₂)
    (p1.trans (hp.trans p2.symm))
  intro a b ha hb h1 h2
  have ha' : a ∈ m₁ := p1.subset ha
  have hb' : b ∈ m₁ := hp.symm.subset (p2.subset hb)
  have hkey : a.1 = b.1 := sortKeyInt_inj _ _ (hw a ha') (hw b hb') (lenLexLe_antisymm _ _ h1 h2)
  exact eq_of_label_eq m₁ hd a b ha' hb' hkey

theorem labelsWF_of_64 (m : Metadata) (h : ∀ p ∈ m, -(2^64 : Int) ≤ p.1 ∧ p.1 < 2^64) : LabelsWF m :=
  fun p hp => Pyc.Ids.ofInt_wf p.1 (h p hp).1 (h p hp).2

/-! ## script lists -/

variable {N : Type}

theorem decEach_enc (L : Leaf N) (hL : L.Lawful) (ns : List N) : decEach L (ns.map L.enc) = .ok ns := by
  induction ns with
  | nil => rfl
  | cons n r ih => simp [decEach, hL.rt, Res.bind, ih]

theorem decScripts_itemScripts (L : Leaf N) (hL : L.Lawful) (ns : List N) : decScripts L (itemScripts L ns) = .ok ns := by
  simp [itemScripts, decScripts, decEach_enc L hL]

theorem decPlutusEach_bytes (bs : List Bytes) : decPlutusEach (bs.map Item.bytes) = .ok bs := by
  induction bs with
  | nil => rfl
  | cons b r ih => simp [decPlutusEach, Res.bind, ih]

theorem decOptPlutus_itemPlutusList (bs : List Bytes) : decOptPlutus (itemPlutusList bs) = .ok (some bs) := by
  simp [itemPlutusList, decOptPlutus, listElems?, decPlutusEach_bytes, Res.bind]

/-- a label map with distinct labels and no `raw` leaves (what a constructed `Metadata` is, as far as its values go) -/
def MetaOk (m : Metadata) : Prop := (labels m).Nodup ∧ ∀ p ∈ m, plainV p.2 = true

theorem okM_sound (m : Metadata) (h : okM m = true) : MetaOk m := by
  simp only [okM, Bool.and_eq_true, plainM, List.all_eq_true] at h
  exact ⟨distinctLabels_sound m h.1, h.2⟩

theorem decOptMetadata_itemMetadata (m : Metadata) (h : MetaOk m) :
    decOptMetadata (itemMetadata m) = .ok (some (canonSortInt m)) := by
  simp [decOptMetadata, decMetadata_itemMetadata m h.1 h.2]

/-! ## `ShelleyMarryMetadata` -/

theorem decShelleyMa_item_some (L : Leaf N) (hL : L.Lawful) (m : Metadata) (ns : List N) (h : MetaOk m) :
    decShelleyMa L (itemShelleyMa L ⟨m, some ns⟩) = .ok ⟨canonSortInt m, some ns⟩ := by
  simp [itemShelleyMa, decShelleyMa, listElems?, decMetadata_itemMetadata m h.1 h.2, decScripts_itemScripts L hL, Res.bind]

/-- a `None` script list is written as `null`, which the hook cannot iterate -/
theorem decShelleyMa_item_none (L : Leaf N) (m : Metadata) (h : MetaOk m) :
    decShelleyMa L (itemShelleyMa L ⟨m, Option.none⟩) = .crash := by
  simp [itemShelleyMa, decShelleyMa, listElems?, decMetadata_itemMetadata m h.1 h.2, decScripts, Res.bind]

/-! ## `AlonzoMetadata`: one step of the loop per field that is present -/

theorem loop_md (L : Leaf N) (acc : Alonzo N) (m : Metadata) (h : MetaOk m) (r : List (Item × Item)) :
    decAlonzoLoop L acc ((.uint 0, itemMetadata m) :: r) = decAlonzoLoop L { acc with metadata := some (canonSortInt m) } r := by
  simp [decAlonzoLoop, itemInt?, decOptMetadata_itemMetadata m h, Res.bind]

theorem loop_native (L : Leaf N) (hL : L.Lawful) (acc : Alonzo N) (ns : List N) (r : List (Item × Item)) :
    decAlonzoLoop L acc ((.uint 1, itemScripts L ns) :: r) = decAlonzoLoop L { acc with native := some ns } r := by
  simp [decAlonzoLoop, itemInt?, decScripts_itemScripts L hL, Res.bind]

theorem loop_v1 (L : Leaf N) (acc : Alonzo N) (bs : List Bytes) (r : List (Item × Item)) :
    decAlonzoLoop L acc ((.uint 2, itemPlutusList bs) :: r) = decAlonzoLoop L { acc with v1 := some bs } r := by
  simp [decAlonzoLoop, itemInt?, decOptPlutus_itemPlutusList, Res.bind]

theorem loop_v2 (L : Leaf N) (acc : Alonzo N) (bs : List Bytes) (r : List (Item × Item)) :
    decAlonzoLoop L acc ((.uint 3, itemPlutusList bs) :: r) = decAlonzoLoop L { acc with v2 := some bs } r := by
  simp [decAlonzoLoop, itemInt?, decOptPlutus_itemPlutusList, Res.bind]

theorem loop_v3 (L : Leaf N) (acc : Alonzo N) (bs : List Bytes) (r : List (Item × Item)) :
    decAlonzoLoop L acc ((.uint 4, itemPlutusList bs) :: r) = decAlonzoLoop L { acc with v3 := some bs } r := by
  simp [decAlonzoLoop, itemInt?, decOptPlutus_itemPlutusList, Res.bind]

theorem loop_nil (L : Leaf N) (acc : Alonzo N) : decAlonzoLoop L acc [] = .ok acc := rfl

def AlonzoOk (a : Alonzo N) : Prop := ∀ m, a.metadata = some m → MetaOk m

def canonAlonzo (a : Alonzo N) : Alonzo N := { a with metadata := a.metadata.map canonSortInt }

theorem decAlonzo_itemAlonzo (L : Leaf N) (hL : L.Lawful) (a : Alonzo N) (h : AlonzoOk a) :
    decAlonzo L (itemAlonzo L a) = .ok (canonAlonzo a) := by
  obtain ⟨md, nat, v1, v2, v3⟩ := a
  have hm : ∀ m, md = some m → MetaOk m := h
  simp only [itemAlonzo, decAlonzo, if_true, alonzoFields, canonAlonzo]
  cases md with
  | none =>
    cases nat <;> cases v1 <;> cases v2 <;> cases v3 <;>
      simp [optField, loop_native L hL, loop_v1, loop_v2, loop_v3, loop_nil]
  | some m =>
    have hmm := hm m rfl
    cases nat <;> cases v1 <;> cases v2 <;> cases v3 <;>
      simp [optField, loop_md L _ m hmm, loop_native L hL, loop_v1, loop_v2, loop_v3, loop_nil]

/-! ## `AuxiliaryData`: the three forms exclude each other on the encoder's image -/

theorem decAlonzo_itemMetadata (L : Leaf N) (m : Metadata) : decAlonzo L (itemMetadata m) = .deser := rfl
theorem decAlonzo_itemShelleyMa (L : Leaf N) (s : ShelleyMa N) : decAlonzo L (itemShelleyMa L s) = .deser := rfl
theorem decShelleyMa_itemMetadata (L : Leaf N) (m : Metadata) : decShelleyMa L (itemMetadata m) = .deser := rfl
theorem decShelleyMa_itemAlonzo (L : Leaf N) (a : Alonzo N) : decShelleyMa L (itemAlonzo L a) = .deser := rfl
theorem decMetadata_itemShelleyMa (L : Leaf N) (s : ShelleyMa N) : decMetadata (itemShelleyMa L s) = .deser := rfl
theorem decMetadata_itemAlonzo (L : Leaf N) (a : Alonzo N) : decMetadata (itemAlonzo L a) = .deser := rfl

/-- the side conditions of the round trip -/
def AuxOk : Aux N → Prop
  | .shelley m => MetaOk m
  | .shelleyMa s => MetaOk s.metadata
  | .alonzo a => AlonzoOk a

/-- the object is one a constructor or the decoder can have produced: the Shelley-MA form holds a script list
(`__post_init__` replaces `None`) -/
def Constructed (a : Aux N) : Prop := constructedB a = true

theorem constructed_normAux (a : Aux N) : Constructed (normAux a) := by
  cases a <;> rfl

theorem normAux_idem (a : Aux N) : normAux (normAux a) = normAux a := by
  cases a <;> rfl

theorem normAux_of_constructed (a : Aux N) (h : Constructed a) : normAux a = a := by
  cases a with
  | shelley m => rfl
  | alonzo b => rfl
  | shelleyMa s =>
    obtain ⟨m, ns⟩ := s
    cases ns with
    | none => simp [Constructed, constructedB] at h
    | some ns => rfl

theorem constructed_canonAux (a : Aux N) (h : Constructed a) : Constructed (canonAux a) := by
  cases a with
  | shelley m => rfl
  | alonzo b => rfl
  | shelleyMa s => exact h

theorem auxOkB_sound (a : Aux N) (h : auxOkB a = true) : AuxOk a := by
  cases a with
  | shelley m => exact okM_sound m h
  | shelleyMa s => exact okM_sound _ h
  | alonzo a =>
    intro m hm
    simp only [auxOkB, hm] at h
    exact okM_sound m h

theorem auxOk_normAux (a : Aux N) (h : AuxOk a) : AuxOk (normAux a) := by
  cases a <;> exact h

theorem decAux_itemAux (L : Leaf N) (hL : L.Lawful) (a : Aux N) (h : AuxOk a) (hs : Constructed a) :
    decAux L (itemAux L a) = .ok (canonAux a) := by
  cases a with
  | shelley m =>
    simp only [itemAux, decAux, decAlonzo_itemMetadata, decShelleyMa_itemMetadata, decMetadata_itemMetadata m h.1 h.2, canonAux]
  | shelleyMa s =>
    obtain ⟨m, ns⟩ := s
    cases ns with
    | none => simp [Constructed, constructedB] at hs
    | some ns =>
      simp only [itemAux, decAux, decAlonzo_itemShelleyMa, decShelleyMa_item_some L hL m ns h, canonAux]
  | alonzo a =>
    simp only [itemAux, decAux, decAlonzo_itemAlonzo L hL a h, canonAux, canonAlonzo]

/-- the FULL round trip: whatever the constructors are given -/
theorem decAux_itemAux_norm (L : Leaf N) (hL : L.Lawful) (a : Aux N) (h : AuxOk a) :
    decAux L (itemAux L (normAux a)) = .ok (canonAux (normAux a)) :=
  decAux_itemAux L hL (normAux a) (auxOk_normAux a h) (constructed_normAux a)

/-- the one-item array `[metadata]`: the constructor fills in the empty script list -/
theorem decShelleyMa_one_item (L : Leaf N) (m : Metadata) (h : MetaOk m) :
    decShelleyMa L (.array [itemMetadata m]) = .ok ⟨canonSortInt m, some []⟩ := by
  simp [decShelleyMa, listElems?, decMetadata_itemMetadata m h.1 h.2, Res.bind, normShelleyMa]

theorem decAux_shelleyMa_none (L : Leaf N) (m : Metadata) (h : MetaOk m) :
    decAux L (itemAux L (.shelleyMa ⟨m, Option.none⟩)) = .crash := by
  simp only [itemAux, decAux, decAlonzo_itemShelleyMa, decShelleyMa_item_none L m h]

theorem itemAux_canonAux (L : Leaf N) (a : Aux N) : itemAux L (canonAux a) = itemAux L a := by
  cases a with
  | shelley m => simp only [canonAux, itemAux, itemMetadata_canon]
  | shelleyMa s => simp only [canonAux, itemAux, itemShelleyMa, itemMetadata_canon]
  | alonzo a =>
    obtain ⟨md, nat, v1, v2, v3⟩ := a
    cases md <;> simp [canonAux, itemAux, itemAlonzo, alonzoFields, itemMetadata_canon]

theorem isNullItem_itemAux (L : Leaf N) (a : Aux N) : isNullItem (itemAux L a) = false := by
  cases a <;> rfl

/-- insertion order of the labels is not on the wire -/
def PermAux : Aux N → Aux N → Prop
  | .shelley m₁, .shelley m₂ => m₁.Perm m₂
  | .shelleyMa s₁, .shelleyMa s₂ => s₁.metadata.Perm s₂.metadata ∧ s₁.native = s₂.native
  | .alonzo a₁, .alonzo a₂ =>
    (match a₁.metadata, a₂.metadata with
      | some m₁, some m₂ => m₁.Perm m₂
      | Option.none, Option.none => True
      | _, _ => False) ∧ a₁.native = a₂.native ∧ a₁.v1 = a₂.v1 ∧ a₁.v2 = a₂.v2 ∧ a₁.v3 = a₂.v3
  | _, _ => False

def AuxLabelsWF : Aux N → Prop
  | .shelley m => LabelsWF m
  | .shelleyMa s => LabelsWF s.metadata
  | .alonzo a => ∀ m, a.metadata = some m → LabelsWF m

theorem itemMetadata_perm (m₁ m₂ : Metadata) (hd : (labels m₁).Nodup) (hw : LabelsWF m₁) (hp : m₁.Perm m₂) :
    itemMetadata m₁ = itemMetadata m₂ := by
  simp only [itemMetadata, canonSortInt_unique m₁ m₂ hd hw hp]

theorem itemAux_perm (L : Leaf N) (a₁ a₂ : Aux N) (h : AuxOk a₁) (hw : AuxLabelsWF a₁) (hp : PermAux a₁ a₂) :
    itemAux L a₁ = itemAux L a₂ := by
  cases a₁ with
  | shelley m₁ =>
    cases a₂ with
    | shelley m₂ => exact itemMetadata_perm m₁ m₂ h.1 hw hp
    | shelleyMa s => exact absurd hp id
    | alonzo a => exact absurd hp id
  | shelleyMa s₁ =>
    cases a₂ with
    | shelley m₂ => exact absurd hp id
    | shelleyMa s₂ =>
      obtain ⟨m₁, n₁⟩ := s₁
      obtain ⟨m₂, n₂⟩ := s₂
      obtain ⟨hp1, hp2⟩ := hp
      simp only at hp1 hp2
      subst hp2
      simp only [itemAux, itemShelleyMa, itemMetadata_perm m₁ m₂ h.1 hw hp1]
    | alonzo a => exact absurd hp id
  | alonzo b₁ =>
    cases a₂ with
    | shelley m₂ => exact absurd hp id
    | shelleyMa s => exact absurd hp id
    | alonzo b₂ =>
      obtain ⟨md₁, n₁, x₁, y₁, z₁⟩ := b₁
      obtain ⟨md₂, n₂, x₂, y₂, z₂⟩ := b₂
      obtain ⟨hm, e1, e2, e3, e4⟩ := hp
      simp only at hm e1 e2 e3 e4
      subst e1 e2 e3 e4
      cases md₁ with
      | none =>
        cases md₂ with
        | none => rfl
        | some m₂ => exact absurd hm id
      | some m₁ =>
        cases md₂ with
        | none => exact absurd hm id
        | some m₂ =>
          have hk : MetaOk m₁ := h m₁ rfl
          have := itemMetadata_perm m₁ m₂ hk.1 (hw m₁ rfl) hm
          simp only [itemAux, itemAlonzo, alonzoFields, Option.map, this]

/-! ## conformance to the CDDL (`Spec/Metadata.lean`) -/

theorem two64 : (2 : Int) ^ 64 = 18446744073709551616 := by decide

theorem ofInt_nonneg' (i : Int) (h0 : 0 ≤ i) (h1 : i < 18446744073709551616) : ofInt i = .uint i.toNat :=
  Pyc.Ids.ofInt_nonneg i h0 (by rw [two64]; exact h1)

theorem ofInt_neg' (i : Int) (h0 : i < 0) (h1 : -(18446744073709551616 : Int) ≤ i) : ofInt i = .nint (-1 - i).toNat :=
  Pyc.Ids.ofInt_neg i h0 (by rw [two64]; exact h1)

open Pyc.Spec.Metadata in
theorem metadatum_ofInt (i : Int) (h0 : -(18446744073709551616 : Int) ≤ i) (h1 : i < 18446744073709551616) :
    metadatum (ofInt i) = true := by
  by_cases h : 0 ≤ i
  · rw [ofInt_nonneg' i h (by omega)]; simp only [metadatum, U64]; exact decide_eq_true (by omega)
  · rw [ofInt_neg' i (by omega) (by omega)]; simp only [metadatum, U64]; exact decide_eq_true (by omega)

open Pyc.Spec.Metadata in
mutual
theorem metadatum_itemMd (v : Md) (h : specOkV v = true) : metadatum (itemMd v) = true := by
  cases v with
  | int i =>
    simp only [specOkV, Bool.and_eq_true, decide_eq_true_eq] at h
    simp only [itemMd]; exact metadatum_ofInt i h.1 h.2
  | bool b => simp [specOkV] at h
  | bytes b => simpa [specOkV, itemMd, metadatum] using h
  | text b => simpa [specOkV, itemMd, metadatum] using h
  | list xs => simp only [specOkV] at h; simp only [itemMd, metadatum]; exact metadatumList_itemMdList xs h
  | map kvs => simp only [specOkV] at h; simp only [itemMd, metadatum]; exact metadatumPairs_itemMdPairs kvs h
  | raw i => simp [specOkV] at h
theorem metadatumList_itemMdList (xs : List Md) (h : specOkL xs = true) : metadatumList (itemMdList xs) = true := by
  cases xs with
  | nil => rfl
  | cons x xs =>
    simp only [specOkL, Bool.and_eq_true] at h
    simp only [itemMdList, metadatumList, Bool.and_eq_true]
    exact ⟨metadatum_itemMd x h.1, metadatumList_itemMdList xs h.2⟩
theorem metadatumPairs_itemMdPairs (kvs : List (Md × Md)) (h : specOkP kvs = true) :
    metadatumPairs (itemMdPairs kvs) = true := by
  cases kvs with
  | nil => rfl
  | cons p r =>
    obtain ⟨k, v⟩ := p
    simp only [specOkP, Bool.and_eq_true] at h
    simp only [itemMdPairs, metadatumPairs, Bool.and_eq_true]
    exact ⟨⟨metadatum_itemMd k h.1.1, metadatum_itemMd v h.1.2⟩, metadatumPairs_itemMdPairs r h.2⟩
end

open Pyc.Spec.Metadata in
theorem metadataPairs_image (l : Metadata) (h : specOkM l = true) :
    metadataPairs (l.map (fun p => (ofInt p.1, itemMd p.2))) = true := by
  induction l with
  | nil => rfl
  | cons p r ih =>
    obtain ⟨k, v⟩ := p
    simp only [specOkM, List.all_cons, Bool.and_eq_true, decide_eq_true_eq] at h
    have hr : specOkM r = true := h.2
    simp only [List.map_cons, metadataPairs, Bool.and_eq_true]
    refine ⟨⟨?_, metadatum_itemMd v h.1.2⟩, ih hr⟩
    rw [ofInt_nonneg' k h.1.1.1 (by omega)]
    simp only [label, U64]; exact decide_eq_true (by omega)

theorem specOkM_canon (m : Metadata) (h : specOkM m = true) : specOkM (canonSortInt m) = true := by
  simp only [specOkM, List.all_eq_true] at h ⊢
  exact fun p hp => h p ((canonSortInt_perm m).subset hp)

open Pyc.Spec.Metadata in
theorem metadata_itemMetadata (m : Metadata) (h : specOkM m = true) : metadata (itemMetadata m) = true := by
  simp only [itemMetadata, metadata]
  exact metadataPairs_image _ (specOkM_canon m h)

open Pyc.Spec.Metadata in
theorem listOf_itemScripts (L : Leaf N) (native : Item → Bool) (hn : ∀ n, native (L.enc n) = true) (ns : List N) :
    listOf native (itemScripts L ns) = true := by
  simp only [itemScripts, listOf, List.all_eq_true, List.mem_map]
  rintro x ⟨n, _, rfl⟩
  exact hn n

open Pyc.Spec.Metadata in
theorem listOf_itemPlutusList (bs : List Bytes) : listOf isBytes (itemPlutusList bs) = true := by
  simp only [itemPlutusList, listOf, List.all_eq_true, List.mem_map]
  rintro x ⟨b, _, rfl⟩
  rfl

def AuxSpecOk : Aux N → Prop
  | .shelley m => specOkM m = true
  | .shelleyMa s => specOkM s.metadata = true ∧ s.native.isSome = true
  | .alonzo a => ∀ m, a.metadata = some m → specOkM m = true

/-- the metadata of the object is in the CDDL ranges -/
def AuxMdSpecOk : Aux N → Prop
  | .shelley m => specOkM m = true
  | .shelleyMa s => specOkM s.metadata = true
  | .alonzo a => ∀ m, a.metadata = some m → specOkM m = true

theorem auxSpecOk_normAux (a : Aux N) (h : AuxMdSpecOk a) : AuxSpecOk (normAux a) := by
  cases a with
  | shelley m => exact h
  | shelleyMa s => exact ⟨h, rfl⟩
  | alonzo b => exact h

theorem auxSpecOkB_sound (a : Aux N) (h : auxSpecOkB a = true) : AuxSpecOk a := by
  cases a with
  | shelley m => exact h
  | shelleyMa s => simpa [auxSpecOkB, AuxSpecOk] using h
  | alonzo a =>
    intro m hm
    simpa [auxSpecOkB, hm] using h

open Pyc.Spec.Metadata in
theorem auxiliary_data_itemAux (L : Leaf N) (native : Item → Bool) (hn : ∀ n, native (L.enc n) = true) (a : Aux N)
    (h : AuxSpecOk a) : auxiliary_data native (itemAux L a) = true := by
  cases a with
  | shelley m =>
    have := metadata_itemMetadata m h
    simpa [itemAux, itemMetadata, auxiliary_data, metadata] using this
  | shelleyMa s =>
    obtain ⟨m, ns⟩ := s
    obtain ⟨h1, h2⟩ := h
    cases ns with
    | none => simp at h2
    | some ns =>
      simp only [itemAux, itemShelleyMa, auxiliary_data, shelleyMa, Bool.and_eq_true]
      exact ⟨metadata_itemMetadata m h1, listOf_itemScripts L native hn ns⟩
  | alonzo a =>
    obtain ⟨md, nat, v1, v2, v3⟩ := a
    have hm : ∀ m, md = some m → specOkM m = true := h
    simp only [itemAux, itemAlonzo, ALONZO_TAG, auxiliary_data, if_true, alonzoMap, alonzoFields]
    cases md with
    | none =>
      cases nat <;> cases v1 <;> cases v2 <;> cases v3 <;>
        simp [optField, alonzoEntry, keyNat, nodupNat, listOf_itemScripts L native hn, listOf_itemPlutusList]
    | some m =>
      have := metadata_itemMetadata m (hm m rfl)
      cases nat <;> cases v1 <;> cases v2 <;> cases v3 <;>
        simp [optField, alonzoEntry, keyNat, nodupNat, listOf_itemScripts L native hn, listOf_itemPlutusList, this]

/-! ## the function form: the model writes a metadatum exactly as the CDDL encoder does -/

mutual
def ofSpec : Spec.Metadata.TxMd → Md
  | .map kvs => .map (ofSpecPairs kvs)
  | .list xs => .list (ofSpecList xs)
  | .int i => .int i
  | .bytes b => .bytes b
  | .text b => .text b
def ofSpecList : List Spec.Metadata.TxMd → List Md
  | [] => []
  | x :: xs => ofSpec x :: ofSpecList xs
def ofSpecPairs : List (Spec.Metadata.TxMd × Spec.Metadata.TxMd) → List (Md × Md)
  | [] => []
  | (k, v) :: r => (ofSpec k, ofSpec v) :: ofSpecPairs r
end

theorem ofInt_eq_encInt (i : Int) (h0 : -(18446744073709551616 : Int) ≤ i) (h1 : i < 18446744073709551616) :
    ofInt i = Spec.Metadata.encInt i := by
  unfold Spec.Metadata.encInt
  by_cases h : 0 ≤ i
  · rw [ofInt_nonneg' i h (by omega)]; simp [h]
  · rw [ofInt_neg' i (by omega) (by omega)]; simp only [h, if_false]; congr 1; omega

open Pyc.Spec.Metadata in
mutual
theorem itemMd_ofSpec (s : TxMd) (h : s.ok = true) : itemMd (ofSpec s) = encMd s := by
  cases s with
  | map kvs => simp only [TxMd.ok] at h; simp only [ofSpec, itemMd, encMd, itemMdPairs_ofSpec kvs h]
  | list xs => simp only [TxMd.ok] at h; simp only [ofSpec, itemMd, encMd, itemMdList_ofSpec xs h]
  | int i =>
    simp only [TxMd.ok, Bool.and_eq_true, decide_eq_true_eq] at h
    simp only [ofSpec, itemMd, encMd, ofInt_eq_encInt i h.1 h.2]
  | bytes b => rfl
  | text b => rfl
theorem itemMdList_ofSpec (xs : List TxMd) (h : TxMd.okList xs = true) : itemMdList (ofSpecList xs) = encMdList xs := by
  cases xs with
  | nil => rfl
  | cons x xs =>
    simp only [TxMd.okList, Bool.and_eq_true] at h
    simp only [ofSpecList, itemMdList, encMdList, itemMd_ofSpec x h.1, itemMdList_ofSpec xs h.2]
theorem itemMdPairs_ofSpec (kvs : List (TxMd × TxMd)) (h : TxMd.okPairs kvs = true) :
    itemMdPairs (ofSpecPairs kvs) = encMdPairs kvs := by
  cases kvs with
  | nil => rfl
  | cons p r =>
    obtain ⟨k, v⟩ := p
    simp only [TxMd.okPairs, Bool.and_eq_true] at h
    simp only [ofSpecPairs, itemMdPairs, encMdPairs, itemMd_ofSpec k h.1.1, itemMd_ofSpec v h.1.2, itemMdPairs_ofSpec r h.2]
end

open Pyc.Spec.Metadata in
mutual
theorem specOkV_ofSpec (s : TxMd) (h : s.ok = true) : specOkV (ofSpec s) = true := by
  cases s with
  | map kvs => simp only [TxMd.ok] at h; simp only [ofSpec, specOkV, specOkP_ofSpec kvs h]
  | list xs => simp only [TxMd.ok] at h; simp only [ofSpec, specOkV, specOkL_ofSpec xs h]
  | int i => simpa [TxMd.ok, ofSpec, specOkV] using h
  | bytes b => simpa [TxMd.ok, ofSpec, specOkV] using h
  | text b => simpa [TxMd.ok, ofSpec, specOkV] using h
theorem specOkL_ofSpec (xs : List TxMd) (h : TxMd.okList xs = true) : specOkL (ofSpecList xs) = true := by
  cases xs with
  | nil => rfl
  | cons x xs =>
    simp only [TxMd.okList, Bool.and_eq_true] at h
    simp only [ofSpecList, specOkL, specOkV_ofSpec x h.1, specOkL_ofSpec xs h.2, Bool.and_self]
theorem specOkP_ofSpec (kvs : List (TxMd × TxMd)) (h : TxMd.okPairs kvs = true) : specOkP (ofSpecPairs kvs) = true := by
  cases kvs with
  | nil => rfl
  | cons p r =>
    obtain ⟨k, v⟩ := p
    simp only [TxMd.okPairs, Bool.and_eq_true] at h
    simp only [ofSpecPairs, specOkP, specOkV_ofSpec k h.1.1, specOkV_ofSpec v h.1.2, specOkP_ofSpec r h.2, Bool.and_self]
end

mutual
-- every model value in the CDDL ranges is the image of a specification value
def toSpec : Md → Spec.Metadata.TxMd
  | .int i => .int i
  | .bool _ => .int 0
  | .bytes b => .bytes b
  | .text b => .text b
  | .list xs => .list (toSpecList xs)
  | .map kvs => .map (toSpecPairs kvs)
  | .raw _ => .int 0
def toSpecList : List Md → List Spec.Metadata.TxMd
  | [] => []
  | x :: xs => toSpec x :: toSpecList xs
def toSpecPairs : List (Md × Md) → List (Spec.Metadata.TxMd × Spec.Metadata.TxMd)
  | [] => []
  | (k, v) :: r => (toSpec k, toSpec v) :: toSpecPairs r
end

open Pyc.Spec.Metadata in
mutual
theorem toSpec_spec (v : Md) (h : specOkV v = true) : (toSpec v).ok = true ∧ ofSpec (toSpec v) = v := by
  cases v with
  | int i => exact ⟨by simpa [specOkV, toSpec, TxMd.ok] using h, rfl⟩
  | bool b => simp [specOkV] at h
  | bytes b => exact ⟨by simpa [specOkV, toSpec, TxMd.ok] using h, rfl⟩
  | text b => exact ⟨by simpa [specOkV, toSpec, TxMd.ok] using h, rfl⟩
  | list xs =>
    simp only [specOkV] at h
    have := toSpecList_spec xs h
    exact ⟨by simp only [toSpec, TxMd.ok, this.1], by simp only [toSpec, ofSpec, this.2]⟩
  | map kvs =>
    simp only [specOkV] at h
    have := toSpecPairs_spec kvs h
    exact ⟨by simp only [toSpec, TxMd.ok, this.1], by simp only [toSpec, ofSpec, this.2]⟩
  | raw i => simp [specOkV] at h
theorem toSpecList_spec (xs : List Md) (h : specOkL xs = true) :
    TxMd.okList (toSpecList xs) = true ∧ ofSpecList (toSpecList xs) = xs := by
  cases xs with
  | nil => exact ⟨rfl, rfl⟩
  | cons x xs =>
    simp only [specOkL, Bool.and_eq_true] at h
    have h1 := toSpec_spec x h.1
    have h2 := toSpecList_spec xs h.2
    exact ⟨by simp only [toSpecList, TxMd.okList, h1.1, h2.1, Bool.and_self],
      by simp only [toSpecList, ofSpecList, h1.2, h2.2]⟩
theorem toSpecPairs_spec (kvs : List (Md × Md)) (h : specOkP kvs = true) :
    TxMd.okPairs (toSpecPairs kvs) = true ∧ ofSpecPairs (toSpecPairs kvs) = kvs := by
  cases kvs with
  | nil => exact ⟨rfl, rfl⟩
  | cons p r =>
    obtain ⟨k, v⟩ := p
    simp only [specOkP, Bool.and_eq_true] at h
    have h1 := toSpec_spec k h.1.1
    have h2 := toSpec_spec v h.1.2
    have h3 := toSpecPairs_spec r h.2
    exact ⟨by simp only [toSpecPairs, TxMd.okPairs, h1.1, h2.1, h3.1, Bool.and_self],
      by simp only [toSpecPairs, ofSpecPairs, h1.2, h2.2, h3.2]⟩
end

/-- the label map as content for the specification's encoder, in the order given -/
def specContent (m : Metadata) : List (Nat × Spec.Metadata.TxMd) := m.map (fun p => (p.1.toNat, toSpec p.2))

theorem itemMetadata_spec (m : Metadata) (h : specOkM m = true) :
    itemMetadata m = Spec.Metadata.encMetadata (specContent (canonSortInt m)) := by
  have hc := specOkM_canon m h
  simp only [itemMetadata, Spec.Metadata.encMetadata, specContent, List.map_map]
  congr 1
  apply List.map_congr_left
  intro p hp
  simp only [specOkM, List.all_eq_true, Bool.and_eq_true, decide_eq_true_eq] at hc
  have hpp := hc p hp
  have hs := toSpec_spec p.2 hpp.2
  simp only [Function.comp]
  rw [ofInt_nonneg' p.1 hpp.1.1 (by omega), ← itemMd_ofSpec _ hs.1, hs.2]

/-! ## everything in the CDDL ranges passes `_validate` -/

mutual
theorem validV_of_spec (v : Md) (h : specOkV v = true) : validV v = true := by
  cases v with
  | int i => rfl
  | bool b => rfl
  | bytes b => simp only [specOkV] at h; simp only [validV, MAX_ITEM_SIZE]; exact decide_eq_true (of_decide_eq_true h)
  | text b => simp only [specOkV] at h; simp only [validV, MAX_ITEM_SIZE]; exact decide_eq_true (of_decide_eq_true h)
  | list xs => simp only [specOkV] at h; simp only [validV]; exact validL_of_spec xs h
  | map kvs => simp only [specOkV] at h; simp only [validV]; exact validP_of_spec kvs h
  | raw i => simp [specOkV] at h
theorem validL_of_spec (xs : List Md) (h : specOkL xs = true) : validL xs = true := by
  cases xs with
  | nil => rfl
  | cons x xs =>
    simp only [specOkL, Bool.and_eq_true] at h
    simp only [validL, validV_of_spec x h.1, validL_of_spec xs h.2, Bool.and_self]
theorem validP_of_spec (kvs : List (Md × Md)) (h : specOkP kvs = true) : validP kvs = true := by
  cases kvs with
  | nil => rfl
  | cons p r =>
    obtain ⟨k, v⟩ := p
    simp only [specOkP, Bool.and_eq_true] at h
    simp only [validP, validV_of_spec v h.1.2, validP_of_spec r h.2, Bool.and_self]
end

/-! ## … and what `_validate` accepts is in the CDDL ranges once the unchecked parts are -/

mutual
theorem specOkV_of_valid (v : Md) (h : validV v = true) (he : extraV v = true) : specOkV v = true := by
  cases v with
  | int i => simpa [extraV, specOkV] using he
  | bool b => simp [extraV] at he
  | bytes b => simp only [validV, MAX_ITEM_SIZE] at h; simp only [specOkV]; exact decide_eq_true (of_decide_eq_true h)
  | text b => simp only [validV, MAX_ITEM_SIZE] at h; simp only [specOkV]; exact decide_eq_true (of_decide_eq_true h)
  | list xs => simp only [validV] at h; simp only [extraV] at he; simp only [specOkV]; exact specOkL_of_valid xs h he
  | map kvs => simp only [validV] at h; simp only [extraV] at he; simp only [specOkV]; exact specOkP_of_valid kvs h he
  | raw i => simp [validV] at h
theorem specOkL_of_valid (xs : List Md) (h : validL xs = true) (he : extraL xs = true) : specOkL xs = true := by
  cases xs with
  | nil => rfl
  | cons x xs =>
    simp only [validL, Bool.and_eq_true] at h
    simp only [extraL, Bool.and_eq_true] at he
    simp only [specOkL, specOkV_of_valid x h.1 he.1, specOkL_of_valid xs h.2 he.2, Bool.and_self]
theorem specOkP_of_valid (kvs : List (Md × Md)) (h : validP kvs = true) (he : extraP kvs = true) : specOkP kvs = true := by
  cases kvs with
  | nil => rfl
  | cons p r =>
    obtain ⟨k, v⟩ := p
    simp only [validP, Bool.and_eq_true] at h
    simp only [extraP, Bool.and_eq_true] at he
    simp only [specOkP, he.1.1, specOkV_of_valid v h.1 he.1.2, specOkP_of_valid r h.2 he.2, Bool.and_self]
end

end Pyc.Metadata
