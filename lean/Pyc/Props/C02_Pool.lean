import Pyc.Proofs.PoolSpec

/-! # C02 (extension `Pool`) — pool registration / retirement certificates are written as the Conway CDDL prescribes

`Pyc/Spec/Pool.lean` is a hand transliteration of the CDDL rules `pool_registration`, `pool_params`, `relay`,
`pool_metadata`, `unit_interval`, `pool_retirement`, independent of the model, in two formulations: an encoder of
spec-level content (`enc…`) and a recogniser of items (`is…`).  `absParams` / `absRelay` (`Proofs/PoolSpec.lean`) give
the spec-level content of a model object — address TEXTS become the bytes they stand for — and are undefined exactly
where the Python annotations allow what the CDDL has no rule for.

Result: `registration_conforms_partial` (`toItem x = spec x`, and the item is in the grammar) for every object with
spec content within the value ranges; `registration_content_defined` shows that the ONLY obstacles for a constructed
registration are the two structural ones, each with a counterexample to the full statement: a `dns_name=None` is written
as `null`, a set `id` is appended as a tenth item (both recorded observations: content outside the reference model).
The third one of the first version — `relays=None`, the dataclass DEFAULT, written as `null` — was repaired in /repo
(daec0e4: `__post_init__` makes it `[]`); `registration_default_relays_conforms` is the former counterexample as a theorem. -/

namespace Pyc.C02.Pool
open Pyc Pyc.Cbor Pyc.Codec Pyc.Pool

/-! ## the specification against itself -/

/-- what the spec encoder writes for content within the sizes and ranges of the CDDL, the spec recogniser accepts -/
theorem spec_relay_recognised (r : Spec.Pool.Relay) (h : Spec.Pool.relayOk r = true) :
    Spec.Pool.isRelay (Spec.Pool.encRelay r) = true := isRelay_enc r h

theorem spec_registration_recognised (c : Spec.Pool.PoolParams) (h : Spec.Pool.paramsOk c = true) :
    Spec.Pool.isPoolRegistration (Spec.Pool.encPoolRegistration c) = true := isPoolRegistration_enc c h

theorem spec_retirement_recognised (kh : Bytes) (epoch : Nat) (hk : kh.length = 28) (he : epoch < 2^64) :
    Spec.Pool.isPoolRetirement (Spec.Pool.encPoolRetirement kh epoch) = true := by
  simp [Spec.Pool.isPoolRetirement, Spec.Pool.encPoolRetirement, Spec.Pool.isBytesOf, Spec.Pool.isUint, hk]
  omega

/-! ## relays -/

/-- **`toItem r = spec (content r)`** for every relay with spec content and a port within `uint .le 65535`, a DNS name
within 128 bytes; the content has the sizes the CDDL fixes (4 / 16 address bytes), and the item is a `relay` -/
theorem relay_conforms (r : Relay) (c : Spec.Pool.Relay) (ha : absRelay r = some c) (hr : Spec.Pool.relayRanges c = true) :
    encRelay r = some (Spec.Pool.encRelay c) ∧ Spec.Pool.relayOk c = true ∧ Spec.Pool.isRelay (Spec.Pool.encRelay c) = true := by
  have hok : Spec.Pool.relayOk c = true := by simp [Spec.Pool.relayOk, absRelay_sizes r c ha, hr]
  exact ⟨encRelay_abs r c ha hr, hok, isRelay_enc c hok⟩

/-- `SingleHostAddr(port, ipv4=<4 bytes>, ipv6=<16 bytes>)` is written as `[0, port, ipv4, ipv6]` with exactly those bytes -/
theorem relay_from_bytes_conforms (port : Nat) (hp : port ≤ 65535) (b4 b6 : Bytes) (h4 : b4.length = 4) (h6 : b6.length = 16) :
    ∃ r, mkAddr (.int port) (.bytes b4) (.bytes b6) = some r ∧
      encRelay r = some (Spec.Pool.encRelay (.singleHostAddr (some port) (some b4) (some b6))) := by
  obtain ⟨r, pi, h1, _, h3, h4'⟩ := mkAddr_bytes (.int port) rfl b4 b6 h4 h6
  refine ⟨r, h1, ?_⟩
  have : pi = .uint port := by
    simp only [itemPort, Option.some.injEq] at h3
    rw [← h3, ofInt_uint (port : Int) (by omega) (by simp; omega)]
    simp
  rw [h4', this]
  rfl

/-! ## the registration certificate -/

/-- **`toItem x = spec x`**: for every registration that holds its class invariants (`paramsOkW`), has spec content `c`
and is within the value ranges of the CDDL, the flattened array is exactly `[3, operator, vrf_keyhash, pledge, cost,
#6.30([n, d]), reward_account, set<addr_keyhash>, [* relay], pool_metadata / null]` of that content — the owner set
tagged iff it is an `OrderedSet` with the tag — the content has the fixed sizes, and the item is a `pool_registration` -/
theorem registration_conforms_partial (p : PoolParams) (c : Spec.Pool.PoolParams) (hw : paramsOkW p = true)
    (ha : absParams p = some c) (hr : Spec.Pool.rangesOk c = true) :
    Spec.Pool.paramsOk c = true ∧ encRegistration p = some (Spec.Pool.encPoolRegistration c) ∧
      Spec.Pool.isPoolRegistration (Spec.Pool.encPoolRegistration c) = true := by
  have hok : Spec.Pool.paramsOk c = true := by simp [Spec.Pool.paramsOk, absParams_sizes p c hw ha, hr]
  refine ⟨hok, ?_, isPoolRegistration_enc c hok⟩
  simp [encRegistration, itemsParams_abs p c ha hr, Spec.Pool.encPoolRegistration]

/-- which objects that is: every constructed, well-typed registration (`paramsOk`) within the value ranges whose relays of
the name kinds have a name, and whose `id` is unset -/
theorem registration_content_defined (p : PoolParams) (hok : paramsOk p = true) (hv : valuesIn p = true)
    (hs : structIn p = true) : ∃ c, absParams p = some c ∧ Spec.Pool.rangesOk c = true :=
  absParams_defined p hok hv hs

/-- the full statement: every well-formed registration within the value ranges is written as a `pool_registration` -/
def registration_conforms_goal : Prop :=
  ∀ p, paramsOk p = true → valuesIn p = true → ∃ i, encRegistration p = some i ∧ Spec.Pool.isPoolRegistration i = true

def h28 (x : Nat) : Bytes := List.replicate 28 (UInt8.ofNat x)
def asc (s : String) : Bytes := s.toList.map fun c => UInt8.ofNat c.toNat

/-- `PoolParams(operator, vrf_keyhash, pledge, cost, margin, reward_account, pool_owners)`: `relays` left at its default —
the constructed object (`__post_init__`) -/
def exDefaultRelays : PoolParams :=
  postInit ⟨h28 1, List.replicate 32 2, 100, 200, ⟨1, 2⟩, 0xe1 :: h28 3, .list [h28 4], Option.none, Option.none, Option.none⟩

/-- a `SingleHostName` without a name -/
def exNoDns : PoolParams := { exDefaultRelays with relays := some [.name (.int 3001) .none] }

/-- the pool id (text of the key hash `01…01`) set -/
def exWithId : PoolParams :=
  { exDefaultRelays with relays := some [], id := some (asc "pool1qyqszqgpqyqszqgpqyqszqgpqyqszqgpqyqszqgpqyqszp9s8mq") }

private theorem not_goal_of (p : PoolParams) (h1 : paramsOk p = true) (h2 : valuesIn p = true)
    (h3 : (match encRegistration p with | some i => Spec.Pool.isPoolRegistration i | Option.none => false) = false) :
    ¬ registration_conforms_goal := by
  intro hg
  obtain ⟨i, hi, hc⟩ := hg p h1 h2
  rw [hi] at h3
  simp only at h3
  rw [hc] at h3
  exact absurd h3 (by simp)

/-- **the constructor call with `relays` omitted or `None` conforms**: for all parameters holding `None` for the relays and no
`id`, the constructed object (`postInit`), if well typed and within the value ranges, has spec content, is written as
`[3, …, [], metadata / null]` of that content, and the item is a `pool_registration` (before daec0e4 this was the
counterexample: `null` in the relays position) -/
theorem registration_default_relays_conforms (p : PoolParams) (hn : p.relays = Option.none) (hid : p.id = Option.none)
    (hok : paramsOk (postInit p) = true) (hv : valuesIn (postInit p) = true) :
    ∃ c, absParams (postInit p) = some c ∧ Spec.Pool.paramsOk c = true ∧
      encRegistration (postInit p) = some (Spec.Pool.encPoolRegistration c) ∧
      Spec.Pool.isPoolRegistration (Spec.Pool.encPoolRegistration c) = true := by
  have hs : structIn (postInit p) = true := by simp [structIn, postInit, hn, hid]
  obtain ⟨c, hc, hr⟩ := absParams_defined (postInit p) hok hv hs
  have hw : paramsOkW (postInit p) = true := by
    simp only [paramsOk, Bool.and_eq_true] at hok
    exact hok.1
  exact ⟨c, hc, registration_conforms_partial (postInit p) c hw hc hr⟩

example : paramsOk exDefaultRelays = true ∧ valuesIn exDefaultRelays = true ∧
    (match encRegistration exDefaultRelays with | some i => Spec.Pool.isPoolRegistration i | Option.none => false) = true := by
  decide +kernel

-- `registration_conforms_goal` is FALSE, two ways (recorded observations: the Python annotations allow what the CDDL has no
-- rule for).

/-- (1) `dns_name=None` (allowed by `Optional[str]`) is written as `null` where the CDDL requires a text -/
theorem registration_conforms_counterexample_dns : ¬ registration_conforms_goal :=
  not_goal_of exNoDns (by decide +kernel) (by decide +kernel) (by decide +kernel)

/-- (2) a set `PoolParams.id` is appended to the certificate as a tenth item; the group `pool_params` has nine -/
theorem registration_conforms_counterexample_id : ¬ registration_conforms_goal :=
  not_goal_of exWithId (by decide +kernel) (by decide +kernel) (by decide +kernel)

-- the bytes of the default-relays object end in `80 f6`: relays `[]`, metadata `null`
example : ((encRegistration exDefaultRelays).map fun i => (encode i).drop ((encode i).length - 2)) = some [0x80, 0xf6] := by
  decide +kernel
-- the tenth item of the `id` witness
example : (match encRegistration exWithId with | some (.array xs) => xs.length == 11 | _ => false) = true := by decide +kernel

/-! ## the retirement certificate -/

/-- `(4, pool_keyhash, epoch)` for every retirement with an epoch in `uint` -/
theorem retirement_conforms (r : Retirement) (h : retirementOk r = true) (h0 : 0 ≤ r.epoch) (h1 : r.epoch.toNat < 2^64) :
    itemRetirement r = Spec.Pool.encPoolRetirement r.poolKeyHash r.epoch.toNat ∧
      Spec.Pool.isPoolRetirement (itemRetirement r) = true := by
  have e : itemRetirement r = Spec.Pool.encPoolRetirement r.poolKeyHash r.epoch.toNat := by
    simp [itemRetirement, Spec.Pool.encPoolRetirement, ofInt_uint r.epoch h0 h1]
  refine ⟨e, ?_⟩
  rw [e]
  exact spec_retirement_recognised _ _ (by simpa [retirementOk] using h) h1

/-! ## non-vacuity -/

def exRelays : List Relay :=
  [.addr (.int 3001) (some (asc "192.168.0.1")) (some (asc "2001:db8::ff00:42:8329")),
   .addr .none Option.none (some (asc "::ffff:1.2.3.4")),
   .name (.int 65535) (.text (asc "relay.example.com")),
   .multi (.text (asc "pool.example"))]

def exParams : PoolParams :=
  ⟨h28 1, List.replicate 32 2, 500000000, 340000000, ⟨3, 100⟩, 0xe1 :: h28 3, .oset true [h28 4, h28 5],
    some exRelays, some ⟨asc "https://pool.example/m.json", List.replicate 32 7⟩, Option.none⟩

theorem exParams_in : paramsOk exParams = true ∧ valuesIn exParams = true ∧ structIn exParams = true := by decide +kernel

-- the hypotheses of `registration_conforms_partial` are met, and the kernel evaluates both sides and the recogniser
example : (match absParams exParams with
    | some c => Spec.Pool.rangesOk c && Spec.Pool.paramsOk c &&
        ((encRegistration exParams).map encode == some (encode (Spec.Pool.encPoolRegistration c))) &&
        Spec.Pool.isPoolRegistration (Spec.Pool.encPoolRegistration c) &&
        (c.relays.head? == some (.singleHostAddr (some 3001) (some [192, 168, 0, 1])
          (some [0x20, 0x01, 0x0d, 0xb8, 0, 0, 0, 0, 0, 0, 0xff, 0, 0, 0x42, 0x83, 0x29])))
    | Option.none => false) = true := by decide +kernel

-- the recogniser is not trivially true: pledge and cost exchanged is still a registration, a relay code 3, an IPv4 of 3
-- bytes, a port 65536, an untagged rational are not
example : Spec.Pool.isRelay (.array [.uint 3, .text [97]]) = false ∧
    Spec.Pool.isRelay (.array [.uint 0, .uint 1, .bytes [1, 2, 3], .simple 22]) = false ∧
    Spec.Pool.isRelay (.array [.uint 0, .uint 65536, .simple 22, .simple 22]) = false ∧
    Spec.Pool.isRelay (.array [.uint 1, .simple 22, .simple 22]) = false ∧
    Spec.Pool.isUnitInterval (.array [.uint 1, .uint 2]) = false := by decide

end Pyc.C02.Pool

#print axioms Pyc.C02.Pool.spec_relay_recognised
#print axioms Pyc.C02.Pool.spec_registration_recognised
#print axioms Pyc.C02.Pool.spec_retirement_recognised
#print axioms Pyc.C02.Pool.relay_conforms
#print axioms Pyc.C02.Pool.relay_from_bytes_conforms
#print axioms Pyc.C02.Pool.registration_conforms_partial
#print axioms Pyc.C02.Pool.registration_content_defined
#print axioms Pyc.C02.Pool.registration_default_relays_conforms
#print axioms Pyc.C02.Pool.registration_conforms_counterexample_dns
#print axioms Pyc.C02.Pool.registration_conforms_counterexample_id
#print axioms Pyc.C02.Pool.retirement_conforms
#print axioms Pyc.C02.Pool.exParams_in
