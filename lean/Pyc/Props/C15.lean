import Pyc.Proofs.AddrText

/-! # C15 — addresses encode and decode bijectively per CIP-19 and CIP-5

Property theorems only.  The models (`Pyc/Model/Addr.lean`, `Pyc/Model/Bech32.lean`) transliterate
`pycardano/address.py` and `pycardano/crypto/bech32.py`; `Pyc/Spec/Cip19.lean` is the independent statement of the
CIP-19 layout.  Every theorem is for all inputs (naturals, byte strings and character strings of any size); the only
finite table is the single-error table of the checksum (`error_table`, `decide +kernel` in `Proofs/Bech32.lean`).

Modelled on purpose, as the code does it: the checksum acceptor takes the Bech32 **and** the Bech32m constant (the
error table excludes both); strings are limited to 108 characters (`addr_text_total_counterexample`);
`PointerAddress.decode` accepts non-minimal digits (no theorem claims otherwise).

Not proved here (covered by the exhaustive substitution stream of `harness/checks/c15.py` only): rejection after a
substitution *inside the human-readable prefix*, *by the separator character* or by a character outside the charset. -/

namespace Pyc.C15
open Pyc Pyc.Addr Pyc.Bech32 Pyc.Spec

/-! ## pointers: base-128 naturals -/

/-- the decoder loop, positioned before `_encode_int n`, consumes exactly those bytes and yields `n` -/
theorem varnat_roundtrip (n : Nat) (rest : Bytes) (ints : List Nat) :
    decLoop (encodeInt n ++ rest) 0 ints = decLoop rest 0 (ints ++ [n]) :=
  decLoop_encodeInt n rest ints

/-- no leading zero group, and the length is the least number of base-128 digits that can hold `n` -/
theorem varnat_minimal (n : Nat) :
    (encodeInt n).head? ≠ some 0x80 ∧ n < 128 ^ (encodeInt n).length ∧
      (128 ≤ n → 128 ^ ((encodeInt n).length - 1) ≤ n) := by
  refine ⟨encodeInt_head n, ?_, ?_⟩
  · rw [encodeInt_length, Nat.pow_succ]
    have := (encTail_length_bounds (n / 128)).1
    omega
  · intro h
    rw [encodeInt_length, Nat.add_sub_cancel]
    have hq : n / 128 ≠ 0 := by omega
    have h2 := (encTail_length_bounds (n / 128)).2 hq
    have hk : (encTail (n / 128)).length ≠ 0 := by rw [encTail_pos _ hq]; simp
    have e : (encTail (n / 128)).length = ((encTail (n / 128)).length - 1) + 1 := by omega
    rw [e, Nat.pow_succ]
    omega

/-- `_encode_int n` is the CIP-19 variable-length natural `n` (flags, value, minimality) -/
theorem varnat_spec (n : Nat) : Cip19.IsVarnat n ((encodeInt n).map UInt8.toNat) := encodeInt_isVarnat n

/-- a pointer is three variable-length naturals, and decodes to itself -/
theorem pointer_roundtrip (slot tx cert : Nat) :
    ptrEncode slot tx cert = encodeInt slot ++ encodeInt tx ++ encodeInt cert ∧
      ptrDecode (ptrEncode slot tx cert) = some (slot, tx, cert) :=
  ⟨rfl, ptr_roundtrip slot tx cert⟩

/-! ## binary form -/

/-- header = kind in the high nibble, network in the low nibble; the decoder's masks recover both -/
theorem header_spec (t : AddressType) (n : Network) :
    (headerByte t n).toNat = Cip19.header t.value n.value ∧
      AddressType.ofValue (((headerByte t n).toNat &&& 0xF0) >>> 4) = some t ∧
      Network.ofValue ((headerByte t n).toNat &&& 0x0F) = some n :=
  ⟨headerByte_toNat t n, header_kind t n, header_network t n⟩

/-- kind inference is the CIP-19 type table; exactly the ten Shelley combinations are constructible -/
theorem kind_table_spec (p s : Part) : (inferType p s).map AddressType.value = specType p s :=
  inferType_spec p s

/-- binary form = header byte, payment credential, delegation part -/
theorem addr_bytes_layout (a : Address) (bs : Bytes) (h : toBytes a = some bs) :
    ∃ t, inferType a.payment a.staking = some t ∧
      bs = headerByte t a.network :: (a.payment.bytes ++ a.staking.bytes) := by
  unfold toBytes at h
  split at h
  · exact absurd h (by simp)
  · rename_i t ht
    exact ⟨t, ht, by simpa using h.symm⟩

/-- decoding the binary form of any constructible address (all ten kinds, both networks, any 28-byte credentials, any
pointer) returns that address; the constructors `Part.vkh` / `Part.sh` / `Part.ptr` are the credential kinds -/
theorem addr_bytes_roundtrip (a : Address) (bs : Bytes) (hp : a.payment.Sized) (hs : a.staking.Sized)
    (h : toBytes a = some bs) : fromBytes bs = .ok a :=
  fromBytes_toBytes a bs hp hs h

/-- no two different addresses share a binary form -/
theorem addr_bytes_injective (a b : Address) (bs : Bytes) (ha : a.payment.Sized ∧ a.staking.Sized)
    (hb : b.payment.Sized ∧ b.staking.Sized) (h1 : toBytes a = some bs) (h2 : toBytes b = some bs) : a = b := by
  have e1 := fromBytes_toBytes a bs ha.1 ha.2 h1
  have e2 := fromBytes_toBytes b bs hb.1 hb.2 h2
  rw [e1] at e2
  exact Except.ok.inj e2

/-! ## text form -/

/-- CIP-5 prefix: `stake` for the reward types, `addr` otherwise, `_test` off mainnet -/
theorem hrp_spec (t : AddressType) (n : Network) :
    Addr.hrp t n = (Cip19.prefixOf (decide (14 ≤ t.value)) n.value).toList :=
  Addr.hrp_spec t n

/-- 8→5 bits with padding, then 5→8 without, is the identity on byte strings of any length -/
theorem convertbits_roundtrip (bs : Bytes) :
    ∃ out, convertbits (bs.map UInt8.toNat) 8 5 true = some out ∧ (∀ d ∈ out, d < 32) ∧
      convertbits out 5 8 false = some (bs.map UInt8.toNat) := by
  obtain ⟨out, e1, ho, _, _, e2⟩ := convertbits_roundtrip_nat (bs.map UInt8.toNat) (uint8_map_lt bs)
  exact ⟨out, e1, ho, e2⟩

/-- the six checksum symbols written by `bech32_create_checksum` make the string verify -/
theorem checksum_valid (hrp : List Char) (data : List Nat) :
    verifyChecksum hrp (data ++ createChecksum hrp data false) = some .bech32 :=
  verify_of_polymod_one _ _ (Bech32.checksum_valid hrp data)

/-- `decode (encode hrp bs) = bs` for every non-empty printable lower-case prefix and every payload of at least two
bytes whose string fits the 108-character limit of the code -/
theorem bech32_roundtrip (hrp : List Char) (bs : Bytes) (hh : HrpOk hrp) (h2 : 2 ≤ bs.length)
    (hlen : hrp.length + 7 + (8 * bs.length + 4) / 5 ≤ 108) :
    ∃ s, encode hrp bs = some s ∧ decode s = .ok (bs.map UInt8.toNat) := by
  obtain ⟨s, hs⟩ := encode_some hrp bs hh hlen
  exact ⟨s, hs, decode_encode hrp bs hh h2 s hs⟩

/-- beyond 108 characters `encode` returns `None` -/
theorem bech32_encode_limit (hrp : List Char) (bs : Bytes) (hh : HrpOk hrp)
    (hlen : hrp.length + 7 + (8 * bs.length + 4) / 5 > 108) : encode hrp bs = none :=
  encode_none hrp bs hh hlen

/-- whatever string `Address.encode()` returns, `Address.decode` maps it back to the address -/
theorem addr_text_roundtrip (a : Address) (s : List Char) (hp : a.payment.Sized) (hs : a.staking.Sized)
    (h : toBech32 a = some (some s)) : fromBech32 s = .ok a :=
  fromBech32_toBech32 a s hp hs h

/-- GOAL (full strength): every constructible address has a text form. -/
def addr_text_total_goal : Prop :=
  ∀ a : Address, a.payment.Sized → a.staking.Sized → toBytes a ≠ none → ∃ s, toBech32 a = some (some s)

/-- proved part: it has one whenever prefix + separator + data + checksum fit in 108 characters (every address without
a pointer, every mainnet address with pointer components below 2^64, testnet pointers of at most 28 bytes) -/
theorem addr_text_total_partial (a : Address) (bs : Bytes) (t : AddressType)
    (ht : inferType a.payment a.staking = some t) (hb : toBytes a = some bs)
    (hlen : (Addr.hrp t a.network).length + 7 + (8 * bs.length + 4) / 5 ≤ 108) : ∃ s, toBech32 a = some (some s) :=
  toBech32_some a bs t ht hb hlen

/-- the full-strength goal is false of the model (and of the pinned code): a testnet pointer address with three
10-byte components has a 111-character text form, and `Address.encode()` returns `None` -/
theorem addr_text_total_counterexample : ¬ addr_text_total_goal := by
  intro h
  let a : Address := ⟨.vkh (List.replicate 28 0), .ptr (2 ^ 63) (2 ^ 63) (2 ^ 63), .testnet⟩
  obtain ⟨s, hs⟩ := h a (by simp [a, Part.Sized]) (by simp [a, Part.Sized]) (by simp [a, toBytes, inferType])
  have hb : toBytes a = some (headerByte .keyPointer .testnet ::
      (List.replicate 28 0 ++ ptrEncode (2 ^ 63) (2 ^ 63) (2 ^ 63))) := rfl
  have hl := encodeInt_2_63_length
  have := toBech32_none a _ .keyPointer rfl hb (by
    have : (Addr.hrp .keyPointer a.network).length = 9 := by decide
    rw [this]
    simp only [List.length_cons, List.length_append, List.length_replicate, ptrEncode]
    omega)
  rw [this] at hs
  exact absurd hs (by simp)

/-! ## error detection of the checksum -/

/-- one checksum step is GF(2)-linear in (register, symbol) -/
theorem polymod_step_linear (c1 c2 v1 v2 : Nat) :
    polymodStep (c1 ^^^ c2) (v1 ^^^ v2) = polymodStep c1 v1 ^^^ polymodStep c2 v2 :=
  polymodStep_xor c1 c2 v1 v2

/-- … and so is the whole register over equal-length symbol sequences -/
theorem polymod_linear (v1 v2 : List Nat) (c1 c2 : Nat) (h : v1.length = v2.length) :
    polymodFrom (c1 ^^^ c2) (List.zipWith (· ^^^ ·) v1 v2) = polymodFrom c1 v1 ^^^ polymodFrom c2 v2 :=
  polymodFrom_xor v1 v2 c1 c2 h

/-- the whole single-error table: an error `e ∈ [1, 31]` in one symbol, `k < 130` symbols before the end, changes the
residue by something that maps neither accepted constant (1, 0x2BC830A3) to an accepted constant -/
theorem error_table (e k : Nat) (he1 : 1 ≤ e) (he : e < 32) (hk : k < 130) :
    errRes e k ≠ 0 ∧ errRes e k ≠ 1 ^^^ bech32mConst := by
  have := errRes_ok e k he1 he hk
  simpa [okRes] using this

/-- a string that `bech32_decode` accepts is rejected after one character of its data part (payload or checksum) is
replaced by a different charset character -/
theorem single_subst_rejected (hrp pre suf : List Char) (c c' : Char)
    (hA : ∀ x ∈ hrp, 33 ≤ x.toNat ∧ x.toNat ≤ 126)
    (hpre : ∀ x ∈ pre, x ∈ charset) (hsuf : ∀ x ∈ suf, x ∈ charset) (hc : c ∈ charset) (hc' : c' ∈ charset)
    (hne : c ≠ c') (hvalid : bech32Decode (hrp ++ '1' :: (pre ++ c :: suf)) ≠ none) :
    bech32Decode (hrp ++ '1' :: (pre ++ c' :: suf)) = none :=
  subst_rejected hrp pre suf c c' hA hpre hsuf hc hc' hne hvalid

/-- hence `Address.decode` raises on it instead of returning some other address -/
theorem addr_single_subst_rejected (hrp pre suf : List Char) (c c' : Char)
    (hA : ∀ x ∈ hrp, 33 ≤ x.toNat ∧ x.toNat ≤ 126)
    (hpre : ∀ x ∈ pre, x ∈ charset) (hsuf : ∀ x ∈ suf, x ∈ charset) (hc : c ∈ charset) (hc' : c' ∈ charset)
    (hne : c ≠ c') (a : Address) (hvalid : fromBech32 (hrp ++ '1' :: (pre ++ c :: suf)) = .ok a) :
    fromBech32 (hrp ++ '1' :: (pre ++ c' :: suf)) = .error .bech32 :=
  fromBech32_subst hrp pre suf c c' hA hpre hsuf hc hc' hne a hvalid

/-! ## non-vacuity: the hypotheses above are satisfiable by concrete inputs -/

example : HrpOk "addr_test".toList ∧ HrpOk "stake".toList := by decide

/-- BIP-173 test vector `a12uel5l`: accepted, so `single_subst_rejected` applies to it with `pre = []`, `c = '2'` -/
example : bech32Decode ("a".toList ++ '1' :: ([] ++ '2' :: "uel5l".toList)) = some (['a'], [], .bech32) := by decide

example : fromBytes (headerByte .keyNone .mainnet :: List.replicate 28 7)
    = .ok ⟨.vkh (List.replicate 28 7), .none, .mainnet⟩ := by rfl

example : toBytes ⟨.none, .sh (List.replicate 28 9), .testnet⟩ = some (0xF0 :: List.replicate 28 9) := by decide

end Pyc.C15

#print axioms Pyc.C15.varnat_roundtrip
#print axioms Pyc.C15.varnat_minimal
#print axioms Pyc.C15.varnat_spec
#print axioms Pyc.C15.pointer_roundtrip
#print axioms Pyc.C15.header_spec
#print axioms Pyc.C15.kind_table_spec
#print axioms Pyc.C15.addr_bytes_layout
#print axioms Pyc.C15.addr_bytes_roundtrip
#print axioms Pyc.C15.addr_bytes_injective
#print axioms Pyc.C15.hrp_spec
#print axioms Pyc.C15.convertbits_roundtrip
#print axioms Pyc.C15.checksum_valid
#print axioms Pyc.C15.bech32_roundtrip
#print axioms Pyc.C15.bech32_encode_limit
#print axioms Pyc.C15.addr_text_roundtrip
#print axioms Pyc.C15.addr_text_total_partial
#print axioms Pyc.C15.addr_text_total_counterexample
#print axioms Pyc.C15.polymod_step_linear
#print axioms Pyc.C15.polymod_linear
#print axioms Pyc.C15.error_table
#print axioms Pyc.C15.single_subst_rejected
#print axioms Pyc.C15.addr_single_subst_rejected
