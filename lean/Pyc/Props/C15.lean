import Pyc.Model.Addr

namespace Pyc.C15
open Pyc Pyc.Addr

theorem placeholder : Network.ofValue 1 = some .mainnet := by decide

end Pyc.C15

#print axioms Pyc.C15.placeholder
