import Pyc.Proofs.AddrText

/-! # C15 — addresses encode and decode bijectively per CIP-19 and CIP-5

Property theorems only.  The models (`Pyc/Model/Addr.lean`, `Pyc/Model/Bech32.lean`) transliterate
`pycardano/address.py` and `pycardano/crypto/bech32.py`; `Pyc/Spec/Cip19.lean` is the independent statement of the
CIP-19 layout.  Every theorem is for all inputs (naturals, byte strings and character strings of any size).  Detection
of a single substituted symbol holds at every distance from the end of the string (`single_error_detected`: one
checksum step is injective on 30-bit registers); the finite table `error_table` (`decide +kernel` in
`Proofs/Bech32.lean`) is kept as an additional fact about the two constants.

The code as repaired: `bech32_decode` accepts the Bech32 constant only (`decode_only_bech32`, `bech32m_rejected`) and
applies no length limit (`bech32_roundtrip`, `addr_text_total` hold for payloads and pointers of every size, e.g.
`addr_text_long_pointer`).  Modelled on purpose, as the code does it: `PointerAddress.decode` accepts non-minimal
digits (no theorem claims otherwise).

Not proved here (covered by the exhaustive substitution stream of `harness/checks/c15.py` only): rejection after a
substitution *inside the human-readable prefix*, *by the separator character* or by a character outside the charset. -/

namespace Pyc.C15
open Pyc Pyc.Addr Pyc.Bech32 Pyc.Spec

/-! ## pointers: base-128 naturals -/

/-- the decoder loop, positioned before `_encode_int n`, consumes exactly those bytes and yields `n` -/
theorem varnat_roundtrip (n : Nat) (rest : Bytes) (ints : List Nat) :
    decLoop (encodeInt n ++ rest) 0 ints = decLoop rest 0 (ints ++ [n]) :=
  decLoop_encodeInt n rest ints

/-- no leading zero group, and the length is the least number of base-128 digits that can hold `n` -/
theorem varnat_minimal (n : Nat) :
    (encodeInt n).head? ≠ some 0x80 ∧ n < 128 ^ (encodeInt n).length ∧
      (128 ≤ n → 128 ^ ((encodeInt n).length - 1) ≤ n) := by
  refine ⟨encodeInt_head n, ?_, ?_⟩
  · rw [encodeInt_length, Nat.pow_succ]
    have := (encTail_length_bounds (n / 128)).1
    omega
  · intro h
    rw [encodeInt_length, Nat.add_sub_cancel]
    have hq : n / 128 ≠ 0 := by omega
    have h2 := (encTail_length_bounds (n / 128)).2 hq
    have hk : (encTail (n / 128)).length ≠ 0 := by rw [encTail_pos _ hq]; simp
    have e : (encTail (n / 128)).length = ((encTail (n / 128)).length - 1) + 1 := by omega
    rw [e, Nat.pow_succ]
    omega

/-- `_encode_int n` is the CIP-19 variable-length natural `n` (flags, value, minimality) -/
theorem varnat_spec (n : Nat) : Cip19.IsVarnat n ((encodeInt n).map UInt8.toNat) := encodeInt_isVarnat n

/-- a pointer is three variable-length naturals, and decodes to itself -/
theorem pointer_roundtrip (slot tx cert : Nat) :
    ptrEncode slot tx cert = encodeInt slot ++ encodeInt tx ++ encodeInt cert ∧
      ptrDecode (ptrEncode slot tx cert) = some (slot, tx, cert) :=
  ⟨rfl, ptr_roundtrip slot tx cert⟩

/-! ## binary form -/

/-- header = kind in the high nibble, network in the low nibble; the decoder's masks recover both -/
theorem header_spec (t : AddressType) (n : Network) :
    (headerByte t n).toNat = Cip19.header t.value n.value ∧
      AddressType.ofValue (((headerByte t n).toNat &&& 0xF0) >>> 4) = some t ∧
      Network.ofValue ((headerByte t n).toNat &&& 0x0F) = some n :=
  ⟨headerByte_toNat t n, header_kind t n, header_network t n⟩

/-- kind inference is the CIP-19 type table; exactly the ten Shelley combinations are constructible -/
theorem kind_table_spec (p s : Part) : (inferType p s).map AddressType.value = specType p s :=
  inferType_spec p s

/-- binary form = header byte, payment credential, delegation part -/
theorem addr_bytes_layout (a : Address) (bs : Bytes) (h : toBytes a = some bs) :
    ∃ t, inferType a.payment a.staking = some t ∧
      bs = headerByte t a.network :: (a.payment.bytes ++ a.staking.bytes) := by
  unfold toBytes at h
  split at h
  · exact absurd h (by simp)
  · rename_i t ht
    exact ⟨t, ht, by simpa using h.symm⟩

/-- decoding the binary form of any constructible address (all ten kinds, both networks, any 28-byte credentials, any
pointer) returns that address; the constructors `Part.vkh` / `Part.sh` / `Part.ptr` are the credential kinds -/
theorem addr_bytes_roundtrip (a : Address) (bs : Bytes) (hp : a.payment.Sized) (hs : a.staking.Sized)
    (h : toBytes a = some bs) : fromBytes bs = .ok a :=
  fromBytes_toBytes a bs hp hs h

/-- no two different addresses share a binary form -/
theorem addr_bytes_injective (a b : Address) (bs : Bytes) (ha : a.payment.Sized ∧ a.staking.Sized)
    (hb : b.payment.Sized ∧ b.staking.Sized) (h1 : toBytes a = some bs) (h2 : toBytes b = some bs) : a = b := by
  have e1 := fromBytes_toBytes a bs ha.1 ha.2 h1
  have e2 := fromBytes_toBytes b bs hb.1 hb.2 h2
  rw [e1] at e2
  exact Except.ok.inj e2

/-! ## text form -/

/-- CIP-5 prefix: `stake` for the reward types, `addr` otherwise, `_test` off mainnet -/
theorem hrp_spec (t : AddressType) (n : Network) :
    Addr.hrp t n = (Cip19.prefixOf (decide (14 ≤ t.value)) n.value).toList :=
  Addr.hrp_spec t n

/-- 8→5 bits with padding, then 5→8 without, is the identity on byte strings of any length -/
theorem convertbits_roundtrip (bs : Bytes) :
    ∃ out, convertbits (bs.map UInt8.toNat) 8 5 true = some out ∧ (∀ d ∈ out, d < 32) ∧
      convertbits out 5 8 false = some (bs.map UInt8.toNat) := by
  obtain ⟨out, e1, ho, _, _, e2⟩ := convertbits_roundtrip_nat (bs.map UInt8.toNat) (uint8_map_lt bs)
  exact ⟨out, e1, ho, e2⟩

/-- the six checksum symbols written by `bech32_create_checksum` make the string verify -/
theorem checksum_valid (hrp : List Char) (data : List Nat) :
    verifyChecksum hrp (data ++ createChecksum hrp data false) = some .bech32 :=
  verify_of_polymod_one _ _ (Bech32.checksum_valid hrp data)

/-- `decode (encode hrp bs) = bs` for every non-empty printable lower-case prefix and every payload of at least two
bytes, of whatever length -/
theorem bech32_roundtrip (hrp : List Char) (bs : Bytes) (hh : HrpOk hrp) (h2 : 2 ≤ bs.length) :
    ∃ s, encode hrp bs = some s ∧ decode s = .ok (bs.map UInt8.toNat) := by
  obtain ⟨s, hs, _⟩ := encode_some hrp bs hh
  exact ⟨s, hs, decode_encode hrp bs hh h2 s hs⟩

/-- `encode` never returns `None` on such a prefix: the string is the prefix, the separator, ⌈8n/5⌉ data characters and
the six checksum characters of `bech32_create_checksum`, and `bech32_decode` returns prefix and data (Bech32) -/
theorem bech32_encode_total (hrp : List Char) (bs : Bytes) (hh : HrpOk hrp) :
    ∃ data, convertbits (bs.map UInt8.toNat) 8 5 true = some data ∧ data.length = (8 * bs.length + 4) / 5 ∧
      encode hrp bs = some (hrp ++ '1' :: (data ++ createChecksum hrp data false).map chr) ∧
      bech32Decode (hrp ++ '1' :: (data ++ createChecksum hrp data false).map chr) = some (hrp, data, .bech32) := by
  obtain ⟨data, e1, ho, hl, he⟩ := encode_eq hrp bs hh
  exact ⟨data, e1, hl, he, bech32Decode_bech32Encode hrp data hh ho⟩

/-- whatever string `Address.encode()` returns, `Address.decode` maps it back to the address -/
theorem addr_text_roundtrip (a : Address) (s : List Char) (hp : a.payment.Sized) (hs : a.staking.Sized)
    (h : toBech32 a = some (some s)) : fromBech32 s = .ok a :=
  fromBech32_toBech32 a s hp hs h

/-- every constructible address (all ten kinds, both networks, pointer components of any size) has a text form, and
`Address.decode` maps that text back to the address: decode ∘ encode = id without exception -/
theorem addr_text_total (a : Address) (hp : a.payment.Sized) (hs : a.staking.Sized) (hc : toBytes a ≠ none) :
    ∃ s, toBech32 a = some (some s) ∧ fromBech32 s = .ok a :=
  toBech32_total a hp hs hc

/-- the text form is the Bech32 encoding of the binary form under the CIP-5 prefix; its length is prefix + separator +
⌈8n/5⌉ + 6 characters for `n` bytes, with no upper limit -/
theorem addr_text_layout (a : Address) (bs : Bytes) (t : AddressType)
    (ht : inferType a.payment a.staking = some t) (hb : toBytes a = some bs) :
    ∃ s, toBech32 a = some (some s) ∧ encode (Addr.hrp t a.network) bs = some s ∧
      s.length = (Addr.hrp t a.network).length + 7 + (8 * bs.length + 4) / 5 := by
  obtain ⟨s, h, hl⟩ := toBech32_some a bs t ht hb
  refine ⟨s, h, ?_, hl⟩
  simpa [toBech32, ht, hb] using h

/-- no two different addresses share a text form -/
theorem addr_text_injective (a b : Address) (s : List Char) (ha : a.payment.Sized ∧ a.staking.Sized)
    (hb : b.payment.Sized ∧ b.staking.Sized) (h1 : toBech32 a = some (some s)) (h2 : toBech32 b = some (some s)) :
    a = b := by
  have e1 := fromBech32_toBech32 a s ha.1 ha.2 h1
  have e2 := fromBech32_toBech32 b s hb.1 hb.2 h2
  rw [e1] at e2
  exact Except.ok.inj e2

/-- the former counterexample to totality: the testnet pointer address with three 10-byte components now has a text
form (of 111 > 108 characters) which decodes to it -/
theorem addr_text_long_pointer :
    ∃ s, toBech32 ⟨.vkh (List.replicate 28 0), .ptr (2 ^ 63) (2 ^ 63) (2 ^ 63), .testnet⟩ = some (some s) ∧
      108 < s.length ∧
      fromBech32 s = .ok ⟨.vkh (List.replicate 28 0), .ptr (2 ^ 63) (2 ^ 63) (2 ^ 63), .testnet⟩ := by
  let a : Address := ⟨.vkh (List.replicate 28 0), .ptr (2 ^ 63) (2 ^ 63) (2 ^ 63), .testnet⟩
  have hb : toBytes a = some (headerByte .keyPointer .testnet ::
      (List.replicate 28 0 ++ ptrEncode (2 ^ 63) (2 ^ 63) (2 ^ 63))) := rfl
  obtain ⟨s, h, hl⟩ := toBech32_some a _ .keyPointer rfl hb
  refine ⟨s, h, ?_, fromBech32_toBech32 a s (by simp [a, Part.Sized]) (by simp [a, Part.Sized]) h⟩
  have h63 := encodeInt_2_63_length
  have hh : (Addr.hrp .keyPointer a.network).length = 9 := by decide
  rw [hl, hh]
  simp only [List.length_cons, List.length_append, List.length_replicate, ptrEncode]
  omega

/-! ## the acceptor takes Bech32 checksums only -/

/-- whatever string `bech32_decode` accepts, the reported encoding is Bech32 and the checksum register over prefix
expansion ‖ data ‖ checksum is the Bech32 constant 1 (never the Bech32m constant) -/
theorem decode_only_bech32 (s hrp : List Char) (data : List Nat) (spec : Encoding)
    (h : bech32Decode s = some (hrp, data, spec)) :
    spec = .bech32 ∧ ∃ full, polymod (hrpExpand hrp ++ full) = 1 ∧ data = full.take (full.length - 6) :=
  bech32Decode_accepts s hrp data spec h

/-- exact acceptance condition on strings `hrp ‖ "1" ‖ d` with a printable prefix and charset data: not mixed-case,
non-empty prefix, at least six data characters, and checksum register equal to 1; nothing about the length -/
theorem bech32_accept_iff (hrp d : List Char) (hA : ∀ x ∈ hrp, 33 ≤ x.toNat ∧ x.toNat ≤ 126)
    (hB : ∀ x ∈ d, x ∈ charset) :
    bech32Decode (hrp ++ '1' :: d) ≠ none ↔
      ¬ ((hrp ++ '1' :: d).map lowerChar ≠ hrp ++ '1' :: d ∧ (hrp ++ '1' :: d).map upperChar ≠ hrp ++ '1' :: d) ∧
      1 ≤ hrp.length ∧ 6 ≤ d.length ∧ polymod (hrpExpand (hrp.map lowerChar) ++ d.map idx) = 1 := by
  rw [bech32Decode_shape hrp d hA hB]
  split
  · rename_i hm
    simp only [Bool.and_eq_true, bne_iff_ne, ne_eq] at hm
    constructor
    · intro h; exact absurd rfl h
    · intro h; exact absurd hm h.1
  · rename_i hm
    simp only [Bool.and_eq_true, bne_iff_ne, ne_eq] at hm
    rw [decodeCore_some_iff, List.length_map]
    exact ⟨fun h => ⟨hm, h⟩, fun h => h.2⟩

/-- a string whose checksum is computed with the Bech32m constant (`bech32_encode(hrp, data, Encoding.BECH32M)`) is
rejected by `bech32_decode`; `decode` and `Address.decode` raise -/
theorem bech32m_rejected (hrp : List Char) (data : List Nat) (hh : HrpOk hrp) (hd : ∀ d ∈ data, d < 32) :
    ∃ s, bech32Encode hrp data true = some s ∧ bech32Decode s = none ∧ decode s = .raised ∧
      fromBech32 s = .error .bech32 :=
  fromBech32_bech32m hrp data hh hd

/-- `Address.decode` returns an address only for strings with a Bech32 checksum -/
theorem addr_decode_only_bech32 (s : List Char) (a : Address) (h : fromBech32 s = .ok a) :
    ∃ hrp data, bech32Decode s = some (hrp, data, .bech32) :=
  fromBech32_ok_bech32 s a h

/-! ## error detection of the checksum -/

/-- one checksum step is GF(2)-linear in (register, symbol) -/
theorem polymod_step_linear (c1 c2 v1 v2 : Nat) :
    polymodStep (c1 ^^^ c2) (v1 ^^^ v2) = polymodStep c1 v1 ^^^ polymodStep c2 v2 :=
  polymodStep_xor c1 c2 v1 v2

/-- … and so is the whole register over equal-length symbol sequences -/
theorem polymod_linear (v1 v2 : List Nat) (c1 c2 : Nat) (h : v1.length = v2.length) :
    polymodFrom (c1 ^^^ c2) (List.zipWith (· ^^^ ·) v1 v2) = polymodFrom c1 v1 ^^^ polymodFrom c2 v2 :=
  polymodFrom_xor v1 v2 c1 c2 h

/-- an error `e ∈ [1, 31]` in one symbol changes the residue by a non-zero amount at EVERY distance `k` from the end
(multiplication by `x` modulo g(x) is injective: the constant coefficient of g(x) is non-zero) -/
theorem single_error_detected (e k : Nat) (he1 : 1 ≤ e) (he : e < 32) : errRes e k ≠ 0 :=
  errRes_ne_zero e k he1 (by omega)

/-- the whole single-error table: an error `e ∈ [1, 31]` in one symbol, `k < 130` symbols before the end, changes the
residue by something that maps neither of the constants 1 (Bech32), 0x2BC830A3 (Bech32m) to one of them: one
substitution cannot turn a Bech32 string into a Bech32m string either (not needed by the acceptor any more) -/
theorem error_table (e k : Nat) (he1 : 1 ≤ e) (he : e < 32) (hk : k < 130) :
    errRes e k ≠ 0 ∧ errRes e k ≠ 1 ^^^ bech32mConst := by
  have := errRes_ok e k he1 he hk
  simpa [okRes] using this

/-- a string of any length that `bech32_decode` accepts is rejected after one character of its data part (payload or
checksum) is replaced by a different charset character -/
theorem single_subst_rejected (hrp pre suf : List Char) (c c' : Char)
    (hA : ∀ x ∈ hrp, 33 ≤ x.toNat ∧ x.toNat ≤ 126)
    (hpre : ∀ x ∈ pre, x ∈ charset) (hsuf : ∀ x ∈ suf, x ∈ charset) (hc : c ∈ charset) (hc' : c' ∈ charset)
    (hne : c ≠ c') (hvalid : bech32Decode (hrp ++ '1' :: (pre ++ c :: suf)) ≠ none) :
    bech32Decode (hrp ++ '1' :: (pre ++ c' :: suf)) = none :=
  subst_rejected hrp pre suf c c' hA hpre hsuf hc hc' hne hvalid

/-- hence `Address.decode` raises on it instead of returning some other address -/
theorem addr_single_subst_rejected (hrp pre suf : List Char) (c c' : Char)
    (hA : ∀ x ∈ hrp, 33 ≤ x.toNat ∧ x.toNat ≤ 126)
    (hpre : ∀ x ∈ pre, x ∈ charset) (hsuf : ∀ x ∈ suf, x ∈ charset) (hc : c ∈ charset) (hc' : c' ∈ charset)
    (hne : c ≠ c') (a : Address) (hvalid : fromBech32 (hrp ++ '1' :: (pre ++ c :: suf)) = .ok a) :
    fromBech32 (hrp ++ '1' :: (pre ++ c' :: suf)) = .error .bech32 :=
  fromBech32_subst hrp pre suf c c' hA hpre hsuf hc hc' hne a hvalid

/-! ## non-vacuity: the hypotheses above are satisfiable by concrete inputs -/

example : HrpOk "addr_test".toList ∧ HrpOk "stake".toList := by decide

/-- BIP-173 test vector `a12uel5l`: accepted, so `single_subst_rejected` applies to it with `pre = []`, `c = '2'` -/
example : bech32Decode ("a".toList ++ '1' :: ([] ++ '2' :: "uel5l".toList)) = some (['a'], [], .bech32) := by decide

/-- BIP-350 test vector `a1lqfn3a` (valid Bech32m): rejected -/
example : bech32Decode "a1lqfn3a".toList = none := by decide

/-- `bech32m_rejected` is not vacuous: the mainnet enterprise address of key hash `00 01 … 1b` with a Bech32m checksum
(the recorded witness of the former finding) is rejected by `bech32_decode`, so `Address.decode` raises -/
example : bech32Decode "addr1vyqqzqsrqszsvpcgpy9qkrqdpc83qygjzv2p29shrqv35xc8lu3x2".toList = none ∧
    (fromBech32 "addr1vyqqzqsrqszsvpcgpy9qkrqdpc83qygjzv2p29shrqv35xc8lu3x2".toList).toOption = none := by
  decide +kernel

/-- … while the same payload with the Bech32 checksum decodes -/
example : (fromBech32 "addr1vyqqzqsrqszsvpcgpy9qkrqdpc83qygjzv2p29shrqv35xcjrvarg".toList).toOption
    = some ⟨.vkh ((List.range 28).map UInt8.ofNat), .none, .mainnet⟩ := by decide +kernel

example : fromBytes (headerByte .keyNone .mainnet :: List.replicate 28 7)
    = .ok ⟨.vkh (List.replicate 28 7), .none, .mainnet⟩ := by rfl

example : toBytes ⟨.none, .sh (List.replicate 28 9), .testnet⟩ = some (0xF0 :: List.replicate 28 9) := by decide

end Pyc.C15

#print axioms Pyc.C15.varnat_roundtrip
#print axioms Pyc.C15.varnat_minimal
#print axioms Pyc.C15.varnat_spec
#print axioms Pyc.C15.pointer_roundtrip
#print axioms Pyc.C15.header_spec
#print axioms Pyc.C15.kind_table_spec
#print axioms Pyc.C15.addr_bytes_layout
#print axioms Pyc.C15.addr_bytes_roundtrip
#print axioms Pyc.C15.addr_bytes_injective
#print axioms Pyc.C15.hrp_spec
#print axioms Pyc.C15.convertbits_roundtrip
#print axioms Pyc.C15.checksum_valid
#print axioms Pyc.C15.bech32_roundtrip
#print axioms Pyc.C15.bech32_encode_total
#print axioms Pyc.C15.addr_text_roundtrip
#print axioms Pyc.C15.addr_text_total
#print axioms Pyc.C15.addr_text_layout
#print axioms Pyc.C15.addr_text_injective
#print axioms Pyc.C15.addr_text_long_pointer
#print axioms Pyc.C15.decode_only_bech32
#print axioms Pyc.C15.bech32_accept_iff
#print axioms Pyc.C15.bech32m_rejected
#print axioms Pyc.C15.addr_decode_only_bech32
#print axioms Pyc.C15.polymod_step_linear
#print axioms Pyc.C15.polymod_linear
#print axioms Pyc.C15.single_error_detected
#print axioms Pyc.C15.error_table
#print axioms Pyc.C15.single_subst_rejected
#print axioms Pyc.C15.addr_single_subst_rejected
