import Pyc.Proofs.Cip8

/-! # C19 — CIP-8 signed messages verify iff untampered and bound to the signer

Model: `Pyc/Model/Cip8.lean` (`signModel`, `plan`, `judge`, `verifyModel` = `cip8.sign` / `cip8.verify` with the
`cose` package modelled).  The signature scheme and the key hash are a *parameter* `S : SigScheme SK`; what is
assumed about them is written out as hypotheses of each theorem (never as axioms):

* completeness needs `correct : ∀ sk m, S.verify (S.pk sk) m (S.sign sk m) = true`;
* soundness is relative to an idealised scheme for one honest key (`Ideal`): the only (message, signature) pair that
  verifies under the honest public key is the one the signer produced, and no other key has the honest key's hash.

Byte strings are bounded by 2^64 (CBOR cannot carry longer definite strings; Python's are bounded by 2^63). -/

namespace Pyc.C19
open Pyc Pyc.Cbor Pyc.Cip8

variable {SK : Type}

/-- a key object is well formed: the primitive's public key has 32 bytes and, for an extended key, the public key
*stored* in the object (which is what `sign` publishes) is the one belonging to the private part -/
structure KeyOk (S : SigScheme SK) (k : Key SK) : Prop where
  pkLen : (S.pk k.sk).length = 32
  stored : k.extended = true → k.stored.take 32 = S.pk k.sk

theorem vk32_eq (S : SigScheme SK) (k : Key SK) (hk : KeyOk S k) : vk32 S k = S.pk k.sk := by
  unfold vk32
  cases h : k.extended with
  | false => simp
  | true => simp [hk.stored h]

/-! ## the pieces of an honestly signed message -/

def honestAddr (S : SigScheme SK) (k : Key SK) (net : Addr.Network) : Bytes :=
  addressBytes (signerAddress k.role net (S.H28 (vk32 S k)))

def honestHdr (S : SigScheme SK) (k : Key SK) (attach : Bool) (net : Addr.Network) : List HdrEntry :=
  honestEntries (honestAddr S k net) (vk32 S k) attach

def honestTbs (S : SigScheme SK) (m : Bytes) (k : Key SK) (attach : Bool) (net : Addr.Network) : Bytes :=
  toBeSigned (encodeHeader (honestHdr S k attach net)) m

def honestSig (S : SigScheme SK) (m : Bytes) (k : Key SK) (attach : Bool) (net : Addr.Network) : Bytes :=
  S.sign k.sk (honestTbs S m k attach net)

def honestKey (S : SigScheme SK) (k : Key SK) (attach : Bool) : Option Bytes :=
  if attach then some (encode (coseKeyItem (vk32 S k))) else none

theorem signModel_eq (S : SigScheme SK) (m : Bytes) (k : Key SK) (attach : Bool) (net : Addr.Network) :
    signModel S m k attach net =
      ⟨render (honestHdr S k attach net) m (honestSig S m k attach net), honestKey S k attach⟩ := rfl

/-- what `verify` extracts from an honestly signed message -/
def honestPlan (S : SigScheme SK) (m : Bytes) (k : Key SK) (attach : Bool) (net : Addr.Network) : Plan :=
  ⟨honestHdr S k attach net, m, honestSig S m k attach net, vk32 S k, honestAddr S k net,
    signerAddress k.role net (S.H28 (vk32 S k))⟩

/-- parse ∘ render on the honest object with an arbitrary payload and signature in place of the signed ones
(completeness substitutes nothing; `cip8_sound_payload_signature` substitutes altered ones) -/
theorem plan_substituted (S : SigScheme SK) (k : Key SK) (attach : Bool) (net : Addr.Network)
    (hk : KeyOk S k) (hashLen : ∀ x, (S.H28 x).length = 28)
    (m' s' : Bytes) (hm : m'.length < 2^64) (hu : utf8Valid m' = true) (hs : s'.length < 2^64) :
    plan ⟨render (honestHdr S k attach net) m' s', honestKey S k attach⟩ =
      some ⟨honestHdr S k attach net, m', s', vk32 S k, honestAddr S k net,
        signerAddress k.role net (S.H28 (vk32 S k))⟩ := by
  have hvk : (vk32 S k).length = 32 := by rw [vk32_eq S k hk]; exact hk.pkLen
  have hal : (honestAddr S k net).length = 29 := addressBytes_length _ _ _ (hashLen _)
  have hp := honestEntries_props (honestAddr S k net) (vk32 S k) attach (by omega) (by omega)
  apply plan_render (hs := hp.1) (hl := hp.2.1) (hd := hp.2.2.1)
    (hph := encodeHeader_honest_length _ _ _ (by omega) (by omega)) (hp := hm) (hsg := hs) (hu := hu)
    (ha := hp.2.2.2.1) (haddr := fromBytes_signer _ _ _ (hashLen _)) (hlen := Or.inr ⟨hp.2.2.2.2.1, hvk⟩)
  cases attach with
  | false => simpa [honestKey] using hp.2.2.2.2.2 rfl
  | true =>
    simp only [honestKey, if_true]
    exact coseKeyX_encode _ (by omega) (by intro h; rw [h] at hvk; simp at hvk)

theorem plan_signModel (S : SigScheme SK) (m : Bytes) (k : Key SK) (attach : Bool) (net : Addr.Network)
    (hk : KeyOk S k) (hashLen : ∀ x, (S.H28 x).length = 28) (hm : m.length < 2^64) (hu : utf8Valid m = true)
    (sigLen : (honestSig S m k attach net).length < 2^64) :
    plan (signModel S m k attach net) = some (honestPlan S m k attach net) := by
  rw [signModel_eq]
  exact plan_substituted S k attach net hk hashLen m _ hm hu sigLen

/-! ## completeness -/

/-- `verify(sign(m, k, attach, net))` reports success, returns the original text and the address derived from the
signing key — for payment and stake keys, ordinary and extended, key in the header or attached, either network -/
theorem cip8_complete (S : SigScheme SK)
    (correct : ∀ sk x, S.verify (S.pk sk) x (S.sign sk x) = true)
    (hashLen : ∀ x, (S.H28 x).length = 28)
    (m : Bytes) (k : Key SK) (attach : Bool) (net : Addr.Network)
    (hk : KeyOk S k) (hm : m.length < 2^64) (hu : utf8Valid m = true)
    (sigLen : (honestSig S m k attach net).length < 2^64) :
    verifyModel S (signModel S m k attach net) =
      some { verified := true, message := m, address := signerAddress k.role net (S.H28 (vk32 S k)) } := by
  have hvk : (vk32 S k).length = 32 := by rw [vk32_eq S k hk]; exact hk.pkLen
  unfold verifyModel
  rw [plan_signModel S m k attach net hk hashLen hm hu sigLen]
  have hb : (honestPlan S m k attach net).bip32 = false := by simp [Plan.bip32, honestPlan, hvk]
  have hs : sigCheck S (honestPlan S m k attach net) = true := by
    simp only [sigCheck, Plan.sigKey, Plan.sigMsg, Plan.sigSig, hb, Bool.false_eq_true, if_false]
    have : (honestPlan S m k attach net).tbs = honestTbs S m k attach net := rfl
    rw [this]
    simp only [honestPlan, honestSig]
    rw [vk32_eq S k hk]
    exact correct _ _
  have ha : addressMatch S (honestPlan S m k attach net) = true := by
    simp [addressMatch, Plan.cred, honestPlan, credentialOf_signer]
  simp only [judge, hb, hs, ha, Bool.false_and, Bool.and_self, Bool.false_eq_true, if_false]
  simp [honestPlan]

/-! ## the decision -/

/-- the verdict is the *conjunction* of the signature check over the plan's bytes and the equality of the
address credential (payment part when present, else staking part) with the hash of the key; message and address
are the ones extracted from the signed object -/
theorem cip8_decision (S : SigScheme SK) (w : Signed) (p : Plan) (r : Result)
    (hp : plan w = some p) (hr : verifyModel S w = some r) :
    (r.verified = true ↔
        S.verify p.sigKey p.sigMsg p.sigSig = true ∧ credentialOf p.address = some (S.H28 p.vk)) ∧
    r.message = p.payload ∧ r.address = p.address := by
  unfold verifyModel at hr
  rw [hp] at hr
  simp only [judge] at hr
  split at hr
  · simp at hr
  · simp only [Option.some.injEq] at hr
    subst hr
    simp only [sigCheck, addressMatch, Plan.cred, Bool.and_eq_true, and_self, and_true]
    constructor
    · rintro ⟨a, b⟩; exact ⟨a, of_decide_eq_true b⟩
    · rintro ⟨a, b⟩; exact ⟨a, decide_eq_true b⟩

/-- success is reported exactly when a plan exists and both checks hold (an exception is not a success) -/
theorem cip8_accept_iff (S : SigScheme SK) (w : Signed) :
    (∃ r, verifyModel S w = some r ∧ r.verified = true) ↔
    ∃ p, plan w = some p ∧ S.verify p.sigKey p.sigMsg p.sigSig = true ∧
      credentialOf p.address = some (S.H28 p.vk) := by
  constructor
  · rintro ⟨r, hr, hv⟩
    cases hp : plan w with
    | none => simp [verifyModel, hp] at hr
    | some p => exact ⟨p, rfl, ((cip8_decision S w p r hp hr).1).1 hv⟩
  · rintro ⟨p, hp, hs, hc⟩
    refine ⟨⟨true, p.payload, p.address⟩, ?_, rfl⟩
    have h1 : sigCheck S p = true := hs
    have h2 : addressMatch S p = true := by simp [addressMatch, Plan.cred, hc]
    simp [verifyModel, hp, judge, h1, h2]

/-- for a key of at most 32 bytes (every key `sign` publishes) the bytes checked are exactly
`Sig_structure = ["Signature1", protected, h'', payload]` over the plan's header and payload, under the plan's key,
against the received signature -/
theorem cip8_checked_bytes (p : Plan) (h : p.vk.length ≤ 32) :
    p.sigKey = p.vk ∧ p.sigMsg = encode (sigStructure (encodeHeader p.entries) p.payload) ∧ p.sigSig = p.sig := by
  have hb : p.bip32 = false := by simp [Plan.bip32]; omega
  simp [Plan.sigKey, Plan.sigMsg, Plan.sigSig, hb, Plan.tbs, Plan.phdrEnc, toBeSigned]

/-- different payload or different protected header ⇒ different `Sig_structure` bytes -/
theorem sig_structure_injective (ph m ph' m' : Bytes) (h1 : ph.length < 2^64) (h2 : m.length < 2^64)
    (h1' : ph'.length < 2^64) (h2' : m'.length < 2^64) (hne : ph ≠ ph' ∨ m ≠ m') :
    toBeSigned ph m ≠ toBeSigned ph' m' := by
  intro h
  have := toBeSigned_inj ph m ph' m' h1 h2 h1' h2' h
  rcases hne with hne | hne
  · exact hne this.1
  · exact hne this.2

/-- different decoded protected headers ⇒ different re-encoded protected bytes -/
theorem header_injective (xs ys : List HdrEntry) (hx : EntriesSized xs) (hy : EntriesSized ys)
    (lx : xs.length ≤ 5) (ly : ys.length ≤ 5) (hne : xs ≠ ys) : encodeHeader xs ≠ encodeHeader ys :=
  fun h => hne (encodeHeader_inj xs ys hx hy lx ly h)

/-! ## soundness relative to an ideal scheme -/

/-- idealised scheme, for one honest key `vk0` that produced one signature `sig0` over `tbs0`: existential
unforgeability in its strong form (no other message and no other signature verifies under `vk0`) and second-preimage
resistance of the key hash at `vk0` -/
structure Ideal (S : SigScheme SK) (vk0 tbs0 sig0 : Bytes) : Prop where
  unforgeable : ∀ msg s, S.verify vk0 msg s = true → msg = tbs0 ∧ s = sig0
  hashInj : ∀ x, S.H28 x = S.H28 vk0 → x = vk0

/-- the byte strings `verify` extracted are shorter than 2^64 -/
structure PlanSized (p : Plan) : Prop where
  entries : EntriesSized p.entries
  header : (encodeHeader p.entries).length < 2^64
  payload : p.payload.length < 2^64

/-- **Soundness.**  Let `k` have signed `m` once.  Whatever object `w'` is presented to `verify` — any bytes at all —
if verification reports success and the object is attributed to the honest signer (it carries the honest key, or
the address it reports has the honest key's credential), then what `verify` extracted is exactly what was signed:
protected header, payload, signature and key; it returns the original text and the signer's address. -/
theorem cip8_sound (S : SigScheme SK) (m : Bytes) (k : Key SK) (attach : Bool) (net : Addr.Network)
    (hk : KeyOk S k) (hashLen : ∀ x, (S.H28 x).length = 28) (hm : m.length < 2^64)
    (ideal : Ideal S (vk32 S k) (honestTbs S m k attach net) (honestSig S m k attach net))
    (w' : Signed) (p : Plan) (r : Result) (hp : plan w' = some p) (hsz : PlanSized p)
    (hr : verifyModel S w' = some r) (hv : r.verified = true)
    (attributed : p.vk = vk32 S k ∨ credentialOf p.address = some (S.H28 (vk32 S k))) :
    p.entries = honestHdr S k attach net ∧ p.payload = m ∧ p.sig = honestSig S m k attach net ∧
    p.vk = vk32 S k ∧ r.message = m ∧ r.address = signerAddress k.role net (S.H28 (vk32 S k)) := by
  have hvk0 : (vk32 S k).length = 32 := by rw [vk32_eq S k hk]; exact hk.pkLen
  have hal : (honestAddr S k net).length = 29 := addressBytes_length _ _ _ (hashLen _)
  obtain ⟨hdec, hmsg, haddr⟩ := cip8_decision S w' p r hp hr
  obtain ⟨hsig, hcred⟩ := hdec.1 hv
  -- the key is the honest key
  have hvk : p.vk = vk32 S k := by
    rcases attributed with h | h
    · exact h
    · rw [hcred] at h
      exact ideal.hashInj _ (by simpa using h)
  -- hence the ordinary path, over Sig_structure
  obtain ⟨hK, hM, hS⟩ := cip8_checked_bytes p (by rw [hvk]; omega)
  rw [hK, hM, hS, hvk] at hsig
  obtain ⟨htbs, hsg⟩ := ideal.unforgeable _ _ hsig
  -- Sig_structure is injective in header bytes and payload
  have hp0 := honestEntries_props (honestAddr S k net) (vk32 S k) attach (by omega) (by omega)
  have hlen0 : (encodeHeader (honestHdr S k attach net)).length < 2^64 :=
    encodeHeader_honest_length _ _ _ (by omega) (by omega)
  obtain ⟨hhdr, hpay⟩ := toBeSigned_inj _ _ _ _ hsz.header hsz.payload hlen0 hm htbs
  -- the re-encoding is injective in the decoded header
  obtain ⟨⟨pb, u, _, hph⟩, hfa, hfb, _, _, _⟩ := plan_spec w' p hp
  have hle : p.entries.length ≤ 5 := by
    have := distinct_length_le _ (parseHeader_distinct pb _ hph); omega
  have hes : p.entries = honestHdr S k attach net :=
    encodeHeader_inj _ _ hsz.entries hp0.1 hle hp0.2.1 hhdr
  -- the address is read from that header
  have hab : p.addrBytes = honestAddr S k net := by
    rw [hes] at hfa
    have := hp0.2.2.2.1
    unfold honestHdr at hfa
    rw [this] at hfa
    exact (Option.some.inj hfa).symm
  have hA : p.address = signerAddress k.role net (S.H28 (vk32 S k)) := by
    rw [hab] at hfb
    have := fromBytes_signer k.role net (S.H28 (vk32 S k)) (hashLen _)
    unfold honestAddr at hfb
    rw [this] at hfb
    exact (Except.ok.inj hfb).symm
  exact ⟨hes, hpay, hsg, hvk, by rw [hmsg, hpay], by rw [haddr, hA]⟩

/-- contrapositive: an object attributed to the honest signer whose payload, protected header, signature or key
differs from what was signed is never reported as verified (`verify` returns `False` or raises) -/
theorem cip8_sound_altered (S : SigScheme SK) (m : Bytes) (k : Key SK) (attach : Bool) (net : Addr.Network)
    (hk : KeyOk S k) (hashLen : ∀ x, (S.H28 x).length = 28) (hm : m.length < 2^64)
    (ideal : Ideal S (vk32 S k) (honestTbs S m k attach net) (honestSig S m k attach net))
    (w' : Signed) (p : Plan) (hp : plan w' = some p) (hsz : PlanSized p)
    (attributed : p.vk = vk32 S k ∨ credentialOf p.address = some (S.H28 (vk32 S k)))
    (altered : p.payload ≠ m ∨ p.entries ≠ honestHdr S k attach net ∨ p.sig ≠ honestSig S m k attach net ∨
      p.vk ≠ vk32 S k) :
    ∀ r, verifyModel S w' = some r → r.verified = false := by
  intro r hr
  cases hv : r.verified with
  | false => rfl
  | true =>
    exfalso
    obtain ⟨h1, h2, h3, h4, _, _⟩ := cip8_sound S m k attach net hk hashLen hm ideal w' p r hp hsz hr hv attributed
    rcases altered with h | h | h | h
    · exact h h2
    · exact h h1
    · exact h h3
    · exact h h4

/-- tampering at the wire: the honestly signed object with its payload and / or signature replaced -/
theorem cip8_sound_payload_signature (S : SigScheme SK) (m : Bytes) (k : Key SK) (attach : Bool) (net : Addr.Network)
    (hk : KeyOk S k) (hashLen : ∀ x, (S.H28 x).length = 28) (hm : m.length < 2^64)
    (ideal : Ideal S (vk32 S k) (honestTbs S m k attach net) (honestSig S m k attach net))
    (m' s' : Bytes) (hm' : m'.length < 2^64) (hu : utf8Valid m' = true) (hs' : s'.length < 2^64)
    (altered : m' ≠ m ∨ s' ≠ honestSig S m k attach net) :
    ∀ r, verifyModel S ⟨render (honestHdr S k attach net) m' s', honestKey S k attach⟩ = some r →
      r.verified = false := by
  have hvk0 : (vk32 S k).length = 32 := by rw [vk32_eq S k hk]; exact hk.pkLen
  have hal : (honestAddr S k net).length = 29 := addressBytes_length _ _ _ (hashLen _)
  have hp := plan_substituted S k attach net hk hashLen m' s' hm' hu hs'
  have hp0 := honestEntries_props (honestAddr S k net) (vk32 S k) attach (by omega) (by omega)
  apply cip8_sound_altered S m k attach net hk hashLen hm ideal _ _ hp
    ⟨hp0.1, encodeHeader_honest_length _ _ _ (by omega) (by omega), hm'⟩ (Or.inl rfl)
  rcases altered with h | h
  · exact Or.inl h
  · exact Or.inr (Or.inr (Or.inl h))

/-- tampering at the wire: the address in the protected header replaced by another address (any address bytes that
`Address.from_primitive` accepts), everything else as signed -/
theorem cip8_sound_address (S : SigScheme SK) (m : Bytes) (k : Key SK) (attach : Bool) (net : Addr.Network)
    (hk : KeyOk S k) (hashLen : ∀ x, (S.H28 x).length = 28)
    (hm : m.length < 2^64) (hu : utf8Valid m = true) (sigLen : (honestSig S m k attach net).length < 2^64)
    (ideal : Ideal S (vk32 S k) (honestTbs S m k attach net) (honestSig S m k attach net))
    (a' : Bytes) (addr' : Addr.Address) (ha' : a'.length < 2^32) (hdec : Addr.fromBytes a' = .ok addr')
    (altered : a' ≠ honestAddr S k net) :
    ∀ r, verifyModel S ⟨render (honestEntries a' (vk32 S k) attach) m (honestSig S m k attach net),
        honestKey S k attach⟩ = some r → r.verified = false := by
  have hvk0 : (vk32 S k).length = 32 := by rw [vk32_eq S k hk]; exact hk.pkLen
  have hp' := honestEntries_props a' (vk32 S k) attach (by omega) (by omega)
  have hlen' := encodeHeader_honest_length a' (vk32 S k) attach ha' (by omega)
  have hplan : plan ⟨render (honestEntries a' (vk32 S k) attach) m (honestSig S m k attach net),
      honestKey S k attach⟩ =
      some ⟨honestEntries a' (vk32 S k) attach, m, honestSig S m k attach net, vk32 S k, a', addr'⟩ := by
    apply plan_render (hs := hp'.1) (hl := hp'.2.1) (hd := hp'.2.2.1) (hph := hlen') (hp := hm)
      (hsg := sigLen) (hu := hu) (ha := hp'.2.2.2.1) (haddr := hdec) (hlen := Or.inr ⟨hp'.2.2.2.2.1, hvk0⟩)
    cases attach with
    | false => simpa [honestKey] using hp'.2.2.2.2.2 rfl
    | true =>
      simp only [honestKey, if_true]
      exact coseKeyX_encode _ (by omega) (by intro h; rw [h] at hvk0; simp at hvk0)
  apply cip8_sound_altered S m k attach net hk hashLen hm ideal _ _ hplan ⟨hp'.1, hlen', hm⟩ (Or.inl rfl)
  refine Or.inr (Or.inl ?_)
  intro h
  apply altered
  have h1 := hp'.2.2.2.1
  have hal : (honestAddr S k net).length = 29 := addressBytes_length _ _ _ (hashLen _)
  have h2 := (honestEntries_props (honestAddr S k net) (vk32 S k) attach (by omega) (by omega)).2.2.2.1
  simp only [honestHdr] at h
  rw [h, h2] at h1
  exact (Option.some.inj h1).symm

/-- tampering at the wire: another key attached (COSE key swapped) or carried in the header (KID swapped), the
address left as signed -/
theorem cip8_sound_key (S : SigScheme SK) (m : Bytes) (k : Key SK) (attach : Bool) (net : Addr.Network)
    (hk : KeyOk S k) (hashLen : ∀ x, (S.H28 x).length = 28)
    (hm : m.length < 2^64) (hu : utf8Valid m = true) (sigLen : (honestSig S m k attach net).length < 2^64)
    (ideal : Ideal S (vk32 S k) (honestTbs S m k attach net) (honestSig S m k attach net))
    (vk' : Bytes) (hvk' : vk'.length = 32) (altered : vk' ≠ vk32 S k) :
    ∀ r, verifyModel S ⟨render (honestEntries (honestAddr S k net) vk' attach) m (honestSig S m k attach net),
        if attach then some (encode (coseKeyItem vk')) else none⟩ = some r → r.verified = false := by
  have hal : (honestAddr S k net).length = 29 := addressBytes_length _ _ _ (hashLen _)
  have hp' := honestEntries_props (honestAddr S k net) vk' attach (by omega) (by omega)
  have hlen' := encodeHeader_honest_length (honestAddr S k net) vk' attach (by omega) (by omega)
  have hplan : plan ⟨render (honestEntries (honestAddr S k net) vk' attach) m (honestSig S m k attach net),
      if attach then some (encode (coseKeyItem vk')) else none⟩ =
      some ⟨honestEntries (honestAddr S k net) vk' attach, m, honestSig S m k attach net, vk', honestAddr S k net,
        signerAddress k.role net (S.H28 (vk32 S k))⟩ := by
    apply plan_render (hs := hp'.1) (hl := hp'.2.1) (hd := hp'.2.2.1) (hph := hlen') (hp := hm)
      (hsg := sigLen) (hu := hu) (ha := hp'.2.2.2.1) (haddr := fromBytes_signer _ _ _ (hashLen _))
      (hlen := Or.inr ⟨hp'.2.2.2.2.1, hvk'⟩)
    cases attach with
    | false => simpa using hp'.2.2.2.2.2 rfl
    | true =>
      simp only [if_true]
      exact coseKeyX_encode _ (by omega) (by intro h; rw [h] at hvk'; simp at hvk')
  apply cip8_sound_altered S m k attach net hk hashLen hm ideal _ _ hplan ⟨hp'.1, hlen', hm⟩
    (Or.inr (credentialOf_signer _ _ _))
  exact Or.inr (Or.inr (Or.inr altered))

/-! ## noted, not asserted: the envelope is malleable

`cose` verifies over the *re-encoded* protected header and `cbor2.loads` ignores trailing bytes, so the bytes of a
signed object can be changed without changing what is verified (same header, payload, signature, key — hence the
same verdict, text and address).  The soundness theorems above are therefore about the decoded content, and the
byte-level statement below is false of the code; its witness is replayed on the implementation by the harness. -/

/-- GOAL (false): two objects with different `signature` strings never yield the same plan -/
def wire_determines_plan_goal : Prop :=
  ∀ (w w' : Signed) (p : Plan), plan w = some p → w'.key = w.key → w'.signature ≠ w.signature → plan w' ≠ some p

/-- the toy scheme of the non-vacuity examples: the "signature" is key ‖ message -/
def toyScheme : SigScheme Bytes :=
  { pk := fun sk => sk, sign := fun sk x => sk ++ x, verify := fun pk x s => decide (s = pk ++ x),
    H28 := fun x => (x ++ List.replicate 28 0).take 28 }

def toyKey : Key Bytes := ⟨.stake, false, List.replicate 32 5, []⟩

theorem toy_correct : ∀ sk x, toyScheme.verify (toyScheme.pk sk) x (toyScheme.sign sk x) = true := by
  intro sk x; simp [toyScheme]

theorem toy_hashLen : ∀ x, (toyScheme.H28 x).length = 28 := by intro x; simp [toyScheme]

theorem toy_keyOk : KeyOk toyScheme toyKey := ⟨by simp [toyScheme, toyKey], by simp [toyKey]⟩

theorem toy_sigLen (m : Bytes) (attach : Bool) (net : Addr.Network) (hm : m.length < 2^32) :
    (honestSig toyScheme m toyKey attach net).length < 2^64 := by
  have hvk : (vk32 toyScheme toyKey).length = 32 := by rw [vk32_eq _ _ toy_keyOk]; exact toy_keyOk.pkLen
  have hal : (honestAddr toyScheme toyKey net).length = 29 := addressBytes_length _ _ _ (toy_hashLen _)
  have hl := encodeHeader_honest_length (honestAddr toyScheme toyKey net) (vk32 toyScheme toyKey) attach
    (by omega) (by omega)
  have h1 := head_length_le 4 4
  have h2 := head_length_le 3 10
  have h3 := head_length_le 2 (encodeHeader (honestHdr toyScheme toyKey attach net)).length
  have h4 := head_length_le 2 0
  have h5 := head_length_le 2 m.length
  have h6 : (encodeHeader (honestHdr toyScheme toyKey attach net)).length < 2^64 := hl
  have hlen : (encodeHeader (honestHdr toyScheme toyKey attach net)).length ≤ 200 := by
    have g1 := head_length_le 5 2
    have g2 := head_length_le 5 3
    have g3 := head_length_le 0 1
    have g4 := head_length_le 1 7
    have g5 := head_length_le 3 7
    have g6 := head_length_le 2 (honestAddr toyScheme toyKey net).length
    have g7 := head_length_le 0 4
    have g8 := head_length_le 2 (vk32 toyScheme toyKey).length
    cases attach <;>
      simp [honestHdr, encodeHeader, honestEntries, HdrEntry.toItem, encode, encodePairs, lblAddress] <;> omega
  simp [honestSig, honestTbs, toyScheme, toyKey, toBeSigned, sigStructure, encode, encodeList, ctxSignature1]
  simp [toyScheme, toyKey] at h3 hlen
  omega

/-- a trailing byte after the COSE_Sign1 array is ignored: same plan, hence same verdict, text and address -/
theorem wire_determines_plan_counterexample : ¬ wire_determines_plan_goal := by
  intro h
  have hs := toy_sigLen [0x68, 0x69] false .mainnet (by simp)
  have hp := plan_signModel toyScheme [0x68, 0x69] toyKey false .mainnet toy_keyOk toy_hashLen (by simp) (by decide) hs
  have hvk : (vk32 toyScheme toyKey).length = 32 := by rw [vk32_eq _ _ toy_keyOk]; exact toy_keyOk.pkLen
  have hal : (honestAddr toyScheme toyKey .mainnet).length = 29 := addressBytes_length _ _ _ (toy_hashLen _)
  have hl := encodeHeader_honest_length (honestAddr toyScheme toyKey .mainnet) (vk32 toyScheme toyKey) false
    (by omega) (by omega)
  have ht := plan_trailing (honestHdr toyScheme toyKey false .mainnet) [0x68, 0x69]
    (honestSig toyScheme [0x68, 0x69] toyKey false .mainnet) [0] (honestKey toyScheme toyKey false) hl (by simp) hs
  rw [signModel_eq] at hp
  have key : ∀ (R : Bytes) (K : Option Bytes) (P : Plan), plan ⟨R, K⟩ = some P →
      plan ⟨R ++ [0], K⟩ = plan ⟨R, K⟩ → False := by
    intro R K P h1 h2
    refine h ⟨R, K⟩ ⟨R ++ [0], K⟩ P h1 rfl ?_ (h2.trans h1)
    intro hc
    have := congrArg List.length hc
    simp at this
  exact key _ _ _ hp ht

/-! ## non-vacuity -/

/-- the hypotheses of `cip8_complete` are satisfiable: the toy scheme with a 32-byte stake key, COSE key attached -/
example :
    verifyModel toyScheme (signModel toyScheme [0x68, 0x69] toyKey true .testnet) =
      some ⟨true, [0x68, 0x69], signerAddress .stake .testnet (toyScheme.H28 (vk32 toyScheme toyKey))⟩ :=
  cip8_complete toyScheme toy_correct toy_hashLen [0x68, 0x69] toyKey true .testnet toy_keyOk (by simp) (by decide)
    (toy_sigLen _ _ _ (by simp))

/-- the hypotheses of `cip8_sound` (`KeyOk`, `hashLen`, `Ideal`) are satisfiable together: a scheme that accepts
exactly the one signature the honest key made, with a hash that separates the honest key from all others -/
example :
    let vk0 : Bytes := List.replicate 32 5
    let h28 : Bytes → Bytes := fun x => if x = vk0 then List.replicate 28 0 else List.replicate 28 1
    let m : Bytes := [0x68, 0x69]
    let T : Bytes := toBeSigned (encodeHeader (honestEntries
      (addressBytes (signerAddress .payment .mainnet (h28 vk0))) vk0 false)) m
    let S : SigScheme Bytes :=
      { pk := fun sk => sk, sign := fun _ _ => [9], verify := fun pk x s => decide (pk = vk0 ∧ x = T ∧ s = [9]),
        H28 := h28 }
    let k : Key Bytes := ⟨.payment, false, vk0, []⟩
    KeyOk S k ∧ (∀ x, (S.H28 x).length = 28) ∧
      Ideal S (vk32 S k) (honestTbs S m k false .mainnet) (honestSig S m k false .mainnet) ∧
      S.verify (S.pk k.sk) (honestTbs S m k false .mainnet) (honestSig S m k false .mainnet) = true := by
  intro vk0 h28 m T S k
  have hT : honestTbs S m k false .mainnet = T := rfl
  have hv : vk32 S k = vk0 := rfl
  have hsg : honestSig S m k false .mainnet = [9] := rfl
  refine ⟨⟨by simp [S, k, vk0], by simp [k]⟩, ?_, ⟨?_, ?_⟩, ?_⟩
  · intro x; simp only [S, h28]; split <;> simp
  · intro msg s hh
    rw [hT, hsg]
    simp only [S, decide_eq_true_eq] at hh
    exact ⟨hh.2.1, hh.2.2⟩
  · intro x hx
    rw [hv] at hx ⊢
    simp only [S, h28, if_true] at hx
    by_cases hxe : x = vk0
    · exact hxe
    · simp [hxe] at hx
  · rw [hT, hsg]; simp [S, k]

end Pyc.C19

#print axioms Pyc.C19.vk32_eq
#print axioms Pyc.C19.signModel_eq
#print axioms Pyc.C19.plan_substituted
#print axioms Pyc.C19.plan_signModel
#print axioms Pyc.C19.cip8_complete
#print axioms Pyc.C19.cip8_decision
#print axioms Pyc.C19.cip8_accept_iff
#print axioms Pyc.C19.cip8_checked_bytes
#print axioms Pyc.C19.sig_structure_injective
#print axioms Pyc.C19.header_injective
#print axioms Pyc.C19.cip8_sound
#print axioms Pyc.C19.cip8_sound_altered
#print axioms Pyc.C19.cip8_sound_payload_signature
#print axioms Pyc.C19.cip8_sound_address
#print axioms Pyc.C19.cip8_sound_key
#print axioms Pyc.C19.toy_correct
#print axioms Pyc.C19.toy_hashLen
#print axioms Pyc.C19.toy_keyOk
#print axioms Pyc.C19.toy_sigLen
#print axioms Pyc.C19.wire_determines_plan_counterexample
