import Pyc.Proofs.Plutus

/-! # C18 — Plutus data is encoded the way the ledger's Plutus codec encodes it

Specification: `Pyc/Spec/PlutusData.lean` (`specItem`, the ledger's `encodeData`).  Model: `Pyc/Model/Plutus.lean`
(`getTag`, `rawDfs` = `RawPlutusData.to_primitive`, `encodePrim` = `cbor2.dumps` with `default_encoder`, `typedPrim` =
`PlutusData.to_primitive`, `decodeItem` = `cbor2.loads` for both back ends, `toDict` / `fromDict`).
Routes from an abstract datum `d : PData`: `primOf false d` (plain Python lists), `primOf true d` (explicit
`IndefiniteList` / `ByteString`), `typedOf d` (dataclass instances), `jsonOf d` (the JSON form).

Regions (Boolean functions of the datum, also evaluated by the harness): `small` (no bignum payload above 64 bytes),
`chunkFree` (`small` and no byte string above 64 bytes), `keysOk` (map keys are distinct ints / byte strings — what a
Python dict holds faithfully), `topOk` (the top-level object passes `from_primitive`), `jsonOk` (see the model). -/

namespace Pyc.C18
open Pyc Pyc.Cbor Pyc.Plutus

/-! ## constructor id ↔ tag -/

/-- `get_tag`: alternatives 0-6 ↦ 121-127, 7-127 ↦ 1280-1400, everything else has no compact tag (general form 102) -/
theorem tag_of_constr (c : Nat) :
    getTag c = if c < 7 then some (121 + c) else if c < 128 then some (1280 + (c - 7)) else none :=
  getTag_nat c

/-- `get_constructor_id_and_fields` inverts `get_tag` on its image -/
theorem constr_of_tag (c t : Nat) (h : getTag c = some t) : constrOfTag t = some (c : Int) :=
  constrOfTag_getTag c t h

/-- the image is exactly 121..127 and 1280..1400, and on it the two maps are mutually inverse -/
theorem tag_image (t : Nat) :
    (∃ c : Nat, getTag c = some t) ↔ (121 ≤ t ∧ t < 128) ∨ (1280 ≤ t ∧ t < 1401) := by
  constructor
  · rintro ⟨c, h⟩
    rw [getTag_nat] at h
    by_cases h1 : c < 7
    · rw [if_pos h1] at h; injection h with h; omega
    · by_cases h2 : c < 128
      · rw [if_neg h1, if_pos h2] at h; injection h with h; omega
      · rw [if_neg h1, if_neg h2] at h; cases h
  · intro h
    rcases h with h | h
    · refine ⟨t - 121, ?_⟩
      have g : t - 121 < 7 := by omega
      have e : 121 + (t - 121) = t := by omega
      rw [getTag_nat, if_pos g, e]
    · refine ⟨t - 1280 + 7, ?_⟩
      have g : ¬ (t - 1280 + 7 < 7) := by omega
      have g2 : t - 1280 + 7 < 128 := by omega
      have e : 1280 + (t - 1280 + 7 - 7) = t := by omega
      rw [getTag_nat, if_neg g, if_pos g2, e]

/-- distinct alternatives never share a tag -/
theorem tag_injective (c c' t : Nat) (h : getTag c = some t) (h' : getTag c' = some t) : c = c' := by
  have a := constrOfTag_getTag c t h
  have b := constrOfTag_getTag c' t h'
  rw [a] at b
  injection b with b
  omega

/-- the model's tag choice is the specification's (`specConstr` is written with explicit bounds, `getTag` is the code) -/
theorem tag_rule_is_spec (c : Nat) (x : Item) :
    specConstr c x = match getTag c with
      | some t => .tag t x
      | none => .tag 102 (.array [ofInt c, x]) :=
  specConstr_eq c x

/-- decoding is laxer than encoding: tags 1401..1535 are accepted although no alternative is ever written with them -/
theorem tag_decode_outside_image : constrOfTag 1401 = some 128 ∧ getTag 128 = none := by decide

/-! ## chunking -/

/-- the chunks concatenate to the string; beyond 64 bytes every chunk has 64 bytes except the last, which has 1..64,
and pycardano's slicing loop produces exactly these chunks; up to 64 bytes the string is written as is -/
theorem chunks_spec (b : Bytes) :
    joinChunks (specChunks b) = b ∧
    (64 < b.length → ChunkShape (specChunks b) ∧ pyChunks b = specChunks b) ∧
    (b.length ≤ 64 → specBytes b = .bytes b ∧ encByteString b = .bytes b) := by
  refine ⟨joinChunks_specChunksAux _ b, ?_, ?_⟩
  · intro h
    exact ⟨chunkShape_aux b.length b (by omega) (Nat.le_refl _), pyChunks_eq b h⟩
  · intro h
    have : specBytes b = .bytes b := by unfold specBytes; rw [if_pos h]
    exact ⟨this, by rw [encByteString_eq, this]⟩

/-- `default_encoder` on a `ByteString` is the specification's byte-string rule, at every length -/
theorem bytestring_conforms (b : Bytes) : encByteString b = specBytes b := encByteString_eq b

/-! ## the encoders conform to the specification -/

/-- GOAL: all three construction routes give the canonical bytes -/
def plutus_conforms_goal : Prop :=
  ∀ d : PData, rawToCbor (primOf false d) = specBytesOf d ∧ rawToCbor (primOf true d) = specBytesOf d ∧
    typedToCbor (typedOf d) = specBytesOf d

/-- for every datum without a bignum payload above 64 bytes: `RawPlutusData` over plain lists, `RawPlutusData` over
explicit `IndefiniteList` / `ByteString` primitives, and typed dataclass instances all produce the specification's item
(compact / general constructor tags, non-empty sequences indefinite, empty ones definite, 64-byte chunks, maps in
insertion order, bignums) -/
theorem plutus_conforms_partial (d : PData) (h : small d = true) :
    encodePrim (rawDfs (primOf false d)) = specItem d ∧ encodePrim (rawDfs (primOf true d)) = specItem d ∧
    encodePrim (typedPrim (typedOf d)) = specItem d := by
  refine ⟨?_, ?_, ?_⟩
  · rw [rawDfs_plain, encode_explicit d h]
  · rw [rawDfs_explicit, encode_explicit d h]
  · rw [typedPrim_typedOf, encode_explicit d h]

theorem plutus_conforms_bytes (d : PData) (h : small d = true) :
    rawToCbor (primOf false d) = specBytesOf d ∧ rawToCbor (primOf true d) = specBytesOf d ∧
    typedToCbor (typedOf d) = specBytesOf d := by
  obtain ⟨a, b, c⟩ := plutus_conforms_partial d h
  unfold rawToCbor typedToCbor specBytesOf
  rw [a, b, c]; exact ⟨rfl, rfl, rfl⟩

/-- 2^512 needs a 65-byte bignum payload: the ledger chunks it, cbor2 does not -/
theorem plutus_conforms_counterexample : ¬ plutus_conforms_goal := by
  intro h
  have := (h (.int (2^512))).1
  revert this
  decide +kernel

/-- GOAL: a typed `List[T]` field may hold a plain Python list -/
def typed_plain_list_goal : Prop :=
  ∀ (c : Nat) (xs : List PData), typedToCbor (.obj c [.list (typedOfList xs)]) = specBytesOf (.constr c [.list xs])

/-- a non-empty plain list in a typed field is written as a definite array (`d8799f820102ff`, canonical
`d8799f9f0102ffff`) -/
theorem typed_plain_list_counterexample : ¬ typed_plain_list_goal := by
  intro h
  have := h 0 [.int 1, .int 2]
  revert this
  decide

/-! ## decoding the canonical bytes and encoding them again -/

/-- `RawPlutusData.from_cbor(bs).to_cbor()` -/
def reencode (cext : Bool) (fuel : Nat) (bs : Bytes) : Option Bytes :=
  (rawFromCbor cext fuel bs).map rawToCbor

/-- decoding the canonical item gives back exactly the object tree of the matching construction style: explicit
`IndefiniteList`s with the patched pure-Python decoder, plain lists with the C extension -/
theorem decode_spec_item (cext : Bool) (d : PData) (hc : chunkFree d = true) (hk : keysOk d = true) :
    decodeItem cext (specItem d) = some (primOf (!cext) d) :=
  decode_spec cext d hc hk

/-- for data free of chunked strings, with dict-representable map keys and an accepted top-level object, decoding the
canonical bytes and encoding again is the identity on bytes — for the patched pure-Python decoder and, because
`to_primitive` re-normalises plain lists, for the C extension as well -/
theorem decode_spec_roundtrip_partial (cext : Bool) (d : PData) (fuel : Nat)
    (hf : depth (specItem d) ≤ fuel) (hz : sized d = true)
    (hc : chunkFree d = true) (hk : keysOk d = true) (ht : topOk cext d = true) :
    reencode cext fuel (specBytesOf d) = some (specBytesOf d) := by
  have hs : small d = true := small_of_chunkFree d hc
  have hw : WF (specItem d) := wf_spec d hc hz
  unfold reencode rawFromCbor specBytesOf
  have hdec := decode_encode (specItem d) [] fuel hf hw
  rw [List.append_nil] at hdec
  rw [hdec]
  simp only [decode_spec cext d hc hk, Option.bind_some, rawFromPrimitive_primOf cext d hc ht, Option.map_some]
  have hp := plutus_conforms_partial d hs
  unfold rawToCbor
  cases cext
  · simp only [Bool.not_false]; rw [hp.2.1]
  · simp only [Bool.not_true]; rw [hp.1]

/-- GOAL: the same without the `chunkFree` hypothesis -/
def decode_spec_roundtrip_goal : Prop :=
  ∀ (d : PData) (fuel : Nat), depth (specItem d) ≤ fuel → sized d = true → keysOk d = true → topOk false d = true →
    reencode false fuel (specBytesOf d) = some (specBytesOf d)

/-- a 65-byte string: canonical `5f 5840 … 41 00 ff`, decoded to plain `bytes`, re-emitted `5841 …` -/
theorem decode_spec_roundtrip_counterexample : ¬ decode_spec_roundtrip_goal := by
  intro h
  have := h (.bytes (List.replicate 65 0)) 8 (by decide) (by decide) (by decide) (by decide)
  revert this
  decide

/-- GOAL: the same for maps with a repeated key (Plutus maps are association lists) -/
def decode_dupkey_goal : Prop :=
  ∀ (d : PData) (fuel : Nat), depth (specItem d) ≤ fuel → sized d = true → chunkFree d = true →
    reencode false fuel (specBytesOf d) = some (specBytesOf d)

/-- `a2 01 02 01 03` comes back as `a1 01 03` -/
theorem decode_dupkey_counterexample : ¬ decode_dupkey_goal := by
  intro h
  have := h (.map [(.int 1, .int 2), (.int 1, .int 3)]) 8 (by decide) (by decide) (by decide)
  revert this
  decide

/-- the top-level object: `from_primitive` refuses a plain list, so the canonical empty list `80` cannot be decoded,
and with the C extension (where every list arrives plain) no top-level list can -/
theorem toplevel_list_refused :
    reencode false 8 (specBytesOf (.list [])) = none ∧
    reencode true 8 (specBytesOf (.list [.int 1])) = none ∧
    reencode false 8 (specBytesOf (.list [.int 1])) = some (specBytesOf (.list [.int 1])) := by
  decide

/-! ## the JSON route -/

/-- `to_dict` is faithful: whichever way the datum was built, its JSON form comes out -/
theorem to_dict_faithful (explicit : Bool) (d : PData) : rawToDict (primOf explicit d) = some (jsonOf d) := by
  unfold rawToDict
  cases explicit
  · rw [rawDfs_plain, toDict_primOf]
  · rw [rawDfs_explicit, toDict_primOf]

/-- `RawPlutusData.from_dict(j).to_cbor()` -/
def jsonRoute (d : PData) : Option Bytes := (fromDict (jsonOf d)).map rawToCbor

/-- GOAL: the JSON form encodes to the canonical bytes -/
def json_roundtrip_goal : Prop :=
  ∀ d : PData, small d = true → keysOk d = true → jsonRoute d = some (specBytesOf d)

/-- inside the region `jsonOk` (no empty list, no field-less constructor ≥ 128, no constructor < 128 with fields below
a list or below a constructor ≥ 128) the JSON route gives the canonical bytes -/
theorem json_roundtrip_partial (d : PData) (hs : small d = true) (hk : keysOk d = true)
    (hj : jsonOk false d = true) : jsonRoute d = some (specBytesOf d) := by
  unfold jsonRoute rawToCbor specBytesOf
  rw [fromDict_jsonOf d hk, Option.map_some, json_open d hs hj]

/-- the constructor nested in a list: `d8799f9fd87a9f0102ffffff` ↦ `d8799f9fd87a820102ffff` -/
theorem json_roundtrip_counterexample : ¬ json_roundtrip_goal := by
  intro h
  have := h (.constr 0 [.list [.constr 1 [.int 1, .int 2]]]) (by decide) (by decide)
  revert this
  decide

/-- the empty list: `80` ↦ `9fff` (also outside `jsonOk`) -/
theorem json_empty_list_counterexample :
    jsonRoute (.constr 0 [.list []]) ≠ some (specBytesOf (.constr 0 [.list []])) ∧
    jsonRoute (.constr 128 []) ≠ some (specBytesOf (.constr 128 [])) := by
  decide

/-- bytes → decode → `to_dict` → `from_dict` → bytes, inside the intersection of the regions -/
theorem json_from_bytes_partial (cext : Bool) (d : PData) (fuel : Nat)
    (hf : depth (specItem d) ≤ fuel) (hz : sized d = true)
    (hc : chunkFree d = true) (hk : keysOk d = true) (ht : topOk cext d = true) (hj : jsonOk false d = true) :
    ((rawFromCbor cext fuel (specBytesOf d)).bind rawToDict).bind (fun j => (fromDict j).map rawToCbor)
      = some (specBytesOf d) := by
  have hs : small d = true := small_of_chunkFree d hc
  have hw : WF (specItem d) := wf_spec d hc hz
  unfold rawFromCbor specBytesOf
  have hdec := decode_encode (specItem d) [] fuel hf hw
  rw [List.append_nil] at hdec
  rw [hdec]
  simp only [decode_spec cext d hc hk, Option.bind_some, rawFromPrimitive_primOf cext d hc ht, to_dict_faithful]
  exact json_roundtrip_partial d hs hk hj

/-! ## datum hash (any hash function: equal bytes, equal hash) -/

theorem datum_hash_preserved {α : Type} (H : Bytes → α) (d : PData) (hs : small d = true) :
    H (rawToCbor (primOf false d)) = H (specBytesOf d) ∧ H (rawToCbor (primOf true d)) = H (specBytesOf d) ∧
    H (typedToCbor (typedOf d)) = H (specBytesOf d) := by
  obtain ⟨a, b, c⟩ := plutus_conforms_bytes d hs
  rw [a, b, c]; exact ⟨rfl, rfl, rfl⟩

theorem datum_hash_reencode {α : Type} (H : Bytes → α) (cext : Bool) (d : PData) (fuel : Nat)
    (hf : depth (specItem d) ≤ fuel) (hz : sized d = true)
    (hc : chunkFree d = true) (hk : keysOk d = true) (ht : topOk cext d = true) :
    (reencode cext fuel (specBytesOf d)).map H = some (H (specBytesOf d)) := by
  rw [decode_spec_roundtrip_partial cext d fuel hf hz hc hk ht]; rfl

theorem datum_hash_json {α : Type} (H : Bytes → α) (d : PData) (hs : small d = true) (hk : keysOk d = true)
    (hj : jsonOk false d = true) : (jsonRoute d).map H = some (H (specBytesOf d)) := by
  rw [json_roundtrip_partial d hs hk hj]; rfl

/-! ## the long-bytes guard -/

/-- construction of a typed instance is refused exactly when some field value is a `bytes` longer than 64 -/
theorem long_bytes_guard (c : Nat) (fs : List TObj) :
    mkObj c fs = none ↔ ∃ f ∈ fs, ∃ b, f = .bytes b ∧ 64 < b.length := by
  unfold mkObj
  constructor
  · intro h
    split at h
    · rename_i ha
      rw [List.any_eq_true] at ha
      obtain ⟨f, hf, hl⟩ := ha
      refine ⟨f, hf, ?_⟩
      cases f <;> simp [longBytesField] at hl
      exact ⟨_, rfl, hl⟩
    · cases h
  · rintro ⟨f, hf, b, rfl, hb⟩
    have : fs.any longBytesField = true := by
      rw [List.any_eq_true]; exact ⟨_, hf, by simp [longBytesField, hb]⟩
    rw [if_pos this]

/-! ## non-vacuity -/

/-- a datum with all node kinds, every tag class, a 64-bit-boundary integer, a bignum and nested sequences lies in all
regions at once, and its specification item is well-formed with small depth -/
example :
    let d : PData := .constr 5 [.constr 130 [.int (2^64)], .list [.int (-1), .bytes [1, 2, 3]],
      .map [(.int 1, .bytes []), (.bytes [7], .constr 127 [])]]
    small d = true ∧ chunkFree d = true ∧ keysOk d = true ∧ topOk false d = true ∧ topOk true d = true ∧
      jsonOk false d = true ∧ sized d = true ∧ depth (specItem d) ≤ 12 := by
  decide +kernel

/-- the chunk-free roundtrip theorem applies to it, for both back ends -/
example (cext : Bool) :
    reencode cext 12 (specBytesOf (.constr 5 [.list [.int (-1), .bytes [1, 2, 3]], .map [(.int 1, .constr 127 [])]]))
      = some (specBytesOf (.constr 5 [.list [.int (-1), .bytes [1, 2, 3]], .map [(.int 1, .constr 127 [])]])) := by
  cases cext <;> decide

/-- a chunked string is in `small` (so the encoders conform on it) but not in `chunkFree` -/
example : small (.bytes (List.replicate 129 7)) = true ∧ chunkFree (.bytes (List.replicate 129 7)) = false ∧
    specChunks (List.replicate 129 7) = [List.replicate 64 7, List.replicate 64 7, [7]] := by
  decide +kernel

end Pyc.C18

#print axioms Pyc.C18.tag_of_constr
#print axioms Pyc.C18.constr_of_tag
#print axioms Pyc.C18.tag_image
#print axioms Pyc.C18.tag_injective
#print axioms Pyc.C18.tag_rule_is_spec
#print axioms Pyc.C18.tag_decode_outside_image
#print axioms Pyc.C18.chunks_spec
#print axioms Pyc.C18.bytestring_conforms
#print axioms Pyc.C18.plutus_conforms_partial
#print axioms Pyc.C18.plutus_conforms_bytes
#print axioms Pyc.C18.plutus_conforms_counterexample
#print axioms Pyc.C18.typed_plain_list_counterexample
#print axioms Pyc.C18.decode_spec_item
#print axioms Pyc.C18.decode_spec_roundtrip_partial
#print axioms Pyc.C18.decode_spec_roundtrip_counterexample
#print axioms Pyc.C18.decode_dupkey_counterexample
#print axioms Pyc.C18.toplevel_list_refused
#print axioms Pyc.C18.to_dict_faithful
#print axioms Pyc.C18.json_roundtrip_partial
#print axioms Pyc.C18.json_roundtrip_counterexample
#print axioms Pyc.C18.json_empty_list_counterexample
#print axioms Pyc.C18.json_from_bytes_partial
#print axioms Pyc.C18.datum_hash_preserved
#print axioms Pyc.C18.datum_hash_reencode
#print axioms Pyc.C18.datum_hash_json
#print axioms Pyc.C18.long_bytes_guard
