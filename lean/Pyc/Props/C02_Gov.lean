import Pyc.Proofs.Gov

/-! # C02 (extension `Gov`) — credentials and governance items are written as the Conway CDDL prescribes

`Spec/Gov.lean` is a hand transliteration of the CDDL rules `credential`, `drep`, `voter`, `anchor`, `vote`,
`voting_procedure`, `gov_action_id`, `voting_procedures`, `hard_fork_initiation_action`, written independently of the
model (`Model/Gov.lean`, which transliterates the Python): each rule as an encoder from the rule's abstract syntax and as
a recogniser of items.  For every class `X`:

* `X_conforms`      `x.toItem = (abs x).enc` and `(abs x).ok`: the item the code writes for a well-formed object is the
                    one the rule denotes for the object's content, and that content is within the rule's size limits
* `X_valid`         the recogniser accepts what the code writes
* `X_accepts_cddl`  the decoder accepts EVERY item the rule admits, returns a well-formed object, and that object is
                    written back as the same item (no conforming item is refused or altered)
* `spec_X_iff`      the two renderings of the rule in the specification agree (recogniser = image of the encoder)

Where the library enforces less than the CDDL, the unrestricted statement is false of the code and is kept as a
`…_goal` with a counterexample: `DRep` (kind and credential unrelated), `Anchor` (`url = text .size (0 .. 128)` is not
checked), `VotingProcedures` (`{+ …}`: the library writes empty maps). -/

namespace Pyc.C02.Gov
open Pyc Pyc.Cbor Pyc.Codec Pyc.Gov

/-! ## credential = [0, addr_keyhash // 1, script_hash] -/

theorem cred_conforms (c : Cred) (h : c.wf = true) : c.toItem = (Cred.abs c).enc ∧ (Cred.abs c).ok = true := cred_abs c h

theorem cred_valid (c : Cred) (h : c.wf = true) : Spec.Gov.isCredential c.toItem = true := by
  obtain ⟨h1, h2⟩ := cred_abs c h
  rw [h1]; exact Spec.Gov.credential_enc_valid _ h2

theorem cred_accepts_cddl (i : Item) (h : Spec.Gov.isCredential i = true) :
    ∃ c : Cred, c.wf = true ∧ Cred.fromItem i = .ok c ∧ c.toItem = i := cred_complete i h

theorem spec_credential_iff (i : Item) :
    Spec.Gov.isCredential i = true ↔ ∃ x : Spec.Gov.Credential, x.ok = true ∧ x.enc = i :=
  ⟨Spec.Gov.credential_valid_enc i, fun ⟨x, hx, he⟩ => he ▸ Spec.Gov.credential_enc_valid x hx⟩

/-- the decoder is more lenient than the rule (a boolean for the kind, extra items): accepted, not conforming -/
theorem cred_decoder_lenient :
    (∃ c, Cred.fromItem (.array [.simple 20, .bytes (List.replicate 28 0)]) = .ok c) ∧
    Spec.Gov.isCredential (.array [.simple 20, .bytes (List.replicate 28 0)]) = false ∧
    (∃ c, Cred.fromItem (.array [.uint 1, .bytes (List.replicate 28 0), .uint 9]) = .ok c) ∧
    Spec.Gov.isCredential (.array [.uint 1, .bytes (List.replicate 28 0), .uint 9]) = false := by
  refine ⟨⟨⟨true, .bytes (List.replicate 28 0)⟩, ?_⟩, by decide, ⟨⟨false, .bytes (List.replicate 28 0)⟩, ?_⟩, by decide⟩ <;>
    simp [Cred.fromItem, Cred.fromList, seqElems?, pyNum?, itemInt?]

/-! ## drep = [0, addr_keyhash // 1, script_hash // 2 // 3] -/

/-- the full statement: whatever `DRep` the constructor accepts is written as a `drep` -/
def drep_conformance_goal : Prop := ∀ d : DRep, d.typed = true → Spec.Gov.isDRep d.toItem = true

/-- … it is when the kind decides whether there is a credential (its class is not on the wire) -/
theorem drep_conforms (d : DRep) (ht : d.typed = true) (ha : d.arityOk = true) :
    d.toItem = (DRep.abs d).enc ∧ (DRep.abs d).ok = true := drep_abs d ht ha

theorem drep_valid_partial (d : DRep) (ht : d.typed = true) (ha : d.arityOk = true) : Spec.Gov.isDRep d.toItem = true := by
  obtain ⟨h1, h2⟩ := drep_abs d ht ha
  rw [h1]; exact Spec.Gov.drep_enc_valid _ h2

/-- `DRep(ALWAYS_ABSTAIN, VerificationKeyHash(…))` is written `[2, h]`, `DRep(VERIFICATION_KEY_HASH)` is written `[0]` -/
theorem drep_conformance_counterexample : ¬ drep_conformance_goal := by
  intro h
  have := h ⟨.alwaysAbstain, some (true, .bytes (List.replicate 28 0))⟩ rfl
  simp [DRep.toItem, DRepKind.code, Spec.Gov.isDRep] at this

theorem drep_conformance_counterexample_short :
    (⟨.keyHash, Option.none⟩ : DRep).typed = true ∧ Spec.Gov.isDRep (⟨.keyHash, Option.none⟩ : DRep).toItem = false := by
  decide

/-- exactly the arity condition: a typed `DRep` is written as a `drep` iff kind and arity agree -/
theorem drep_valid_iff (d : DRep) (ht : d.typed = true) : Spec.Gov.isDRep d.toItem = true ↔ d.arityOk = true := by
  constructor
  · intro h
    obtain ⟨k, c⟩ := d
    cases c with
    | none => cases k <;> simp_all [DRep.toItem, DRepKind.code, Spec.Gov.isDRep, DRep.arityOk]
    | some q =>
      obtain ⟨key, p⟩ := q
      cases k <;> simp_all [DRep.toItem, DRepKind.code, Spec.Gov.isDRep, DRep.arityOk]
  · exact drep_valid_partial d ht

theorem drep_accepts_cddl (i : Item) (h : Spec.Gov.isDRep i = true) :
    ∃ d : DRep, d.typed = true ∧ d.coherent = true ∧ DRep.fromItem i = .ok d ∧ d.toItem = i := drep_complete i h

theorem spec_drep_iff (i : Item) : Spec.Gov.isDRep i = true ↔ ∃ x : Spec.Gov.DRep, x.ok = true ∧ x.enc = i :=
  ⟨Spec.Gov.drep_valid_enc i, fun ⟨x, hx, he⟩ => he ▸ Spec.Gov.drep_enc_valid x hx⟩

/-! ## voter = [0 / 1 committee key / script, 2 / 3 drep key / script, 4 stake pool key; hash28] -/

theorem voter_conforms (v : Voter) (h : v.wf = true) : v.toItem = (Voter.abs v).enc ∧ (Voter.abs v).ok = true := voter_abs v h

theorem voter_valid (v : Voter) (h : v.wf = true) : Spec.Gov.isVoter v.toItem = true := by
  obtain ⟨h1, h2⟩ := voter_abs v h
  rw [h1]; exact Spec.Gov.voter_enc_valid _ h2

theorem voter_accepts_cddl (i : Item) (h : Spec.Gov.isVoter i = true) :
    ∃ v : Voter, v.wf = true ∧ Voter.fromItem i = .ok v ∧ v.toItem = i := voter_complete i h

theorem spec_voter_iff (i : Item) : Spec.Gov.isVoter i = true ↔ ∃ x : Spec.Gov.Voter, x.ok = true ∧ x.enc = i :=
  ⟨Spec.Gov.voter_valid_enc i, fun ⟨x, hx, he⟩ => he ▸ Spec.Gov.voter_enc_valid x hx⟩

/-! ## anchor = [url, hash32], voting_procedure = [vote, anchor / nil] -/

/-- the full statement: every anchor the library serializes is an `anchor` -/
def anchor_conformance_goal : Prop := ∀ a : Anchor, a.wf = true → Spec.Gov.isAnchor a.toItem = true

theorem anchor_conforms (a : Anchor) (h : a.wf = true) (hu : a.urlOk = true) :
    a.toItem = (Anchor.abs a).enc ∧ (Anchor.abs a).ok = true := anchor_abs a h hu

theorem anchor_valid_partial (a : Anchor) (h : a.wf = true) (hu : a.urlOk = true) : Spec.Gov.isAnchor a.toItem = true := by
  obtain ⟨h1, h2⟩ := anchor_abs a h hu
  rw [h1]; exact Spec.Gov.anchor_enc_valid _ h2

/-- `url = text .size (0 .. 128)`: a url of 129 bytes is accepted by the constructor, `validate` and the encoder -/
theorem anchor_conformance_counterexample : ¬ anchor_conformance_goal := by
  intro h
  have := h ⟨List.replicate 129 120, List.replicate 32 0⟩ (by simp [Anchor.wf])
  simp [Anchor.toItem, Spec.Gov.isAnchor] at this

theorem anchor_accepts_cddl (i : Item) (h : Spec.Gov.isAnchor i = true) :
    ∃ a : Anchor, a.wf = true ∧ Anchor.fromItem i = .ok a ∧ a.toItem = i := anchor_complete i h

theorem spec_anchor_iff (i : Item) : Spec.Gov.isAnchor i = true ↔ ∃ x : Spec.Gov.Anchor, x.ok = true ∧ x.enc = i :=
  ⟨Spec.Gov.anchor_valid_enc i, fun ⟨x, hx, he⟩ => he ▸ Spec.Gov.anchor_enc_valid x hx⟩

theorem vp_conforms (p : VotingProcedure) (h : p.wf = true) (hu : p.urlOk = true) :
    p.toItem = (VotingProcedure.abs p).enc ∧ (VotingProcedure.abs p).ok = true := vp_abs p h hu

theorem vp_valid (p : VotingProcedure) (h : p.wf = true) (hu : p.urlOk = true) : Spec.Gov.isVotingProcedure p.toItem = true := by
  obtain ⟨h1, h2⟩ := vp_abs p h hu
  rw [h1]; exact Spec.Gov.vp_enc_valid _ h2

theorem vp_accepts_cddl (i : Item) (h : Spec.Gov.isVotingProcedure i = true) :
    ∃ p : VotingProcedure, p.wf = true ∧ VotingProcedure.fromItem i = .ok p ∧ p.toItem = i := vp_complete i h

theorem spec_vp_iff (i : Item) :
    Spec.Gov.isVotingProcedure i = true ↔ ∃ x : Spec.Gov.VotingProcedure, x.ok = true ∧ x.enc = i :=
  ⟨Spec.Gov.vp_valid_enc i, fun ⟨x, hx, he⟩ => he ▸ Spec.Gov.vp_enc_valid x hx⟩

/-! ## gov_action_id = [transaction_id, uint .size 2] -/

theorem gaid_conforms (g : GovActionId) (h : g.wf = true) : g.toItem = (GovActionId.abs g).enc ∧ (GovActionId.abs g).ok = true :=
  gaid_abs g h

theorem gaid_valid (g : GovActionId) (h : g.wf = true) : Spec.Gov.isGovActionId g.toItem = true := by
  obtain ⟨h1, h2⟩ := gaid_abs g h
  rw [h1]; exact Spec.Gov.gaid_enc_valid _ h2

theorem gaid_accepts_cddl (i : Item) (h : Spec.Gov.isGovActionId i = true) :
    ∃ g : GovActionId, g.wf = true ∧ GovActionId.fromItem i = .ok g ∧ g.toItem = i := gaid_complete i h

theorem spec_gaid_iff (i : Item) :
    Spec.Gov.isGovActionId i = true ↔ ∃ x : Spec.Gov.GovActionId, x.ok = true ∧ x.enc = i :=
  ⟨Spec.Gov.gaid_valid_enc i, fun ⟨x, hx, he⟩ => he ▸ Spec.Gov.gaid_enc_valid x hx⟩

/-- the index is written in full: two ids that differ in the index are written differently, up to 65535 -/
theorem gaid_index_not_truncated (t : Item) (i j : Nat) (h : (⟨t, .uint i⟩ : GovActionId).toItem = (⟨t, .uint j⟩ : GovActionId).toItem) :
    i = j := by
  simpa [GovActionId.toItem] using h

/-! ## hard_fork_initiation_action = (1, gov_action_id / nil, [major, uint]) -/

theorem hardfork_conforms (x : HardFork) (h : x.wf = true) : x.toItem = (HardFork.abs x).enc ∧ (HardFork.abs x).ok = true :=
  hardfork_abs x h

theorem hardfork_valid (x : HardFork) (h : x.wf = true) : Spec.Gov.isHardFork x.toItem = true := by
  obtain ⟨h1, h2⟩ := hardfork_abs x h
  rw [h1]; exact Spec.Gov.hardfork_enc_valid _ h2

/-- every conforming item whose major version is in the range the library supports (1..10) is accepted -/
theorem hardfork_accepts_cddl (i : Item) (h : Spec.Gov.isHardFork i = true)
    (hm : ∀ c p ma mi, i = .array [c, p, .array [.uint ma, mi]] → 1 ≤ ma ∧ ma ≤ 10) :
    ∃ x : HardFork, x.wf = true ∧ HardFork.fromItem i = .ok x ∧ x.toItem = i := hardfork_complete i h hm

theorem spec_hardfork_iff (i : Item) : Spec.Gov.isHardFork i = true ↔ ∃ x : Spec.Gov.HardFork, x.ok = true ∧ x.enc = i :=
  ⟨Spec.Gov.hardfork_valid_enc i, fun ⟨x, hx, he⟩ => he ▸ Spec.Gov.hardfork_enc_valid x hx⟩

/-! ## voting_procedures = {+ voter => {+ gov_action_id => voting_procedure}} -/

/-- the full statement: every well-formed dict of dicts is written as `voting_procedures` -/
def vps_conformance_goal : Prop :=
  ∀ m : VotingProcedures, VotingProcedures.wf m = true → VotingProcedures.Distinct m →
    Spec.Gov.isVotingProcedures (VotingProcedures.toItem m) = true

/-- … it is when neither level is empty and the urls respect the size limit: a map without repeated keys, every key
a `voter` / `gov_action_id`, every value a `voting_procedure` -/
theorem vps_valid_partial (m : VotingProcedures) (hw : VotingProcedures.wf m = true) (hd : VotingProcedures.Distinct m)
    (hne : m ≠ []) (hne' : ∀ p ∈ m, p.2 ≠ []) (hu : ∀ p ∈ m, ∀ q ∈ p.2, q.2.urlOk = true) :
    Spec.Gov.isVotingProcedures (VotingProcedures.toItem m) = true := by
  unfold Spec.Gov.isVotingProcedures VotingProcedures.toItem
  apply table_valid _ _ _ _ m hne hd.1
  intro p hp
  have hwp := vps_wf_mem m hw p hp
  refine ⟨voter_valid p.1 hwp.1, ?_⟩
  unfold GovVotes.toItem
  apply table_valid _ _ _ _ p.2 (hne' p hp) (hd.2 p hp)
  intro q hq
  have hwq := votes_wf_mem p.2 hwp.2 q hq
  exact ⟨gaid_valid q.1 hwq.1, vp_valid q.2 hwq.2 (hu p hp q hq)⟩

/-- the library writes an empty `VotingProcedures` as the empty map, which `{+ …}` does not admit -/
theorem vps_conformance_counterexample : ¬ vps_conformance_goal := by
  intro h
  have := h [] rfl ⟨by unfold DistinctKeys; decide, fun p hp => by cases hp⟩
  revert this
  decide

/-! ## non-vacuity -/

example : (⟨true, .bytes (List.replicate 28 7)⟩ : Cred).wf = true := by decide
example : Spec.Gov.isCredential (.array [.uint 1, .bytes (List.replicate 28 7)]) = true := by decide
example : Spec.Gov.isCredential (.array [.uint 2, .bytes (List.replicate 28 7)]) = false := by decide
example : Spec.Gov.isDRep (.array [.uint 3]) = true ∧ Spec.Gov.isDRep (.array [.uint 3, .bytes (List.replicate 28 7)]) = false := by decide
example : Spec.Gov.isVoter (.array [.uint 4, .bytes (List.replicate 28 7)]) = true ∧
    Spec.Gov.isVoter (.array [.uint 5, .bytes (List.replicate 28 7)]) = false := by decide
example : Spec.Gov.isGovActionId (.array [.bytes (List.replicate 32 1), .uint 65535]) = true ∧
    Spec.Gov.isGovActionId (.array [.bytes (List.replicate 32 1), .uint 65536]) = false := by decide
def exVPs : VotingProcedures :=
  [(⟨.drep, false, .bytes (List.replicate 28 7)⟩, [(⟨.bytes (List.replicate 32 1), .uint 300⟩, ⟨.yes, Option.none⟩)])]

example : Spec.Gov.isVotingProcedures (VotingProcedures.toItem exVPs) = true :=
  vps_valid_partial exVPs (by decide)
    ⟨by unfold DistinctKeys; decide, fun p hp => by
      simp only [exVPs, List.mem_cons, List.mem_nil_iff, or_false] at hp; subst hp; unfold DistinctKeys; decide⟩
    (by simp [exVPs]) (by simp [exVPs]) (by simp [exVPs, VotingProcedure.urlOk])

end Pyc.C02.Gov

#print axioms Pyc.C02.Gov.cred_conforms
#print axioms Pyc.C02.Gov.cred_valid
#print axioms Pyc.C02.Gov.cred_accepts_cddl
#print axioms Pyc.C02.Gov.spec_credential_iff
#print axioms Pyc.C02.Gov.cred_decoder_lenient
#print axioms Pyc.C02.Gov.drep_conforms
#print axioms Pyc.C02.Gov.drep_valid_partial
#print axioms Pyc.C02.Gov.drep_conformance_counterexample
#print axioms Pyc.C02.Gov.drep_conformance_counterexample_short
#print axioms Pyc.C02.Gov.drep_valid_iff
#print axioms Pyc.C02.Gov.drep_accepts_cddl
#print axioms Pyc.C02.Gov.spec_drep_iff
#print axioms Pyc.C02.Gov.voter_conforms
#print axioms Pyc.C02.Gov.voter_valid
#print axioms Pyc.C02.Gov.voter_accepts_cddl
#print axioms Pyc.C02.Gov.spec_voter_iff
#print axioms Pyc.C02.Gov.anchor_conforms
#print axioms Pyc.C02.Gov.anchor_valid_partial
#print axioms Pyc.C02.Gov.anchor_conformance_counterexample
#print axioms Pyc.C02.Gov.anchor_accepts_cddl
#print axioms Pyc.C02.Gov.spec_anchor_iff
#print axioms Pyc.C02.Gov.vp_conforms
#print axioms Pyc.C02.Gov.vp_valid
#print axioms Pyc.C02.Gov.vp_accepts_cddl
#print axioms Pyc.C02.Gov.spec_vp_iff
#print axioms Pyc.C02.Gov.gaid_conforms
#print axioms Pyc.C02.Gov.gaid_valid
#print axioms Pyc.C02.Gov.gaid_accepts_cddl
#print axioms Pyc.C02.Gov.spec_gaid_iff
#print axioms Pyc.C02.Gov.gaid_index_not_truncated
#print axioms Pyc.C02.Gov.hardfork_conforms
#print axioms Pyc.C02.Gov.hardfork_valid
#print axioms Pyc.C02.Gov.hardfork_accepts_cddl
#print axioms Pyc.C02.Gov.spec_hardfork_iff
#print axioms Pyc.C02.Gov.vps_valid_partial
#print axioms Pyc.C02.Gov.vps_conformance_counterexample
