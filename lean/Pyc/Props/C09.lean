import Pyc.Model.Selection
import Pyc.Proofs.Sort
import Pyc.Props.C11

/-! # C09 — inputs are selected only from permitted UTxOs, each at most once

Model: `Pyc/Model/Selection.lean`.  The selectors are universally quantified functions; what the theorems need of
them is what C14 proves of the two shipped strategies: a selection is a duplicate-free sub-list of the pool. -/

namespace Pyc.C09
open Pyc Pyc.Sel

/-- what C14 establishes for `LargestFirstSelector` and `RandomImproveMultiAsset` -/
def SelectorOk (s : List U → Option (List U)) : Prop :=
  ∀ pool sel, s pool = some sel → (∀ u ∈ sel, u ∈ pool) ∧ (pool.Nodup → sel.Nodup)

/-- invariant of the gathering loops -/
theorem gather_inv (excluded : List U) (l : List U) (acc : List U × List U) (explicit : List U)
    (hseen : acc.2 = explicit ++ acc.1) (hnd : acc.1.Nodup) (hdis : ∀ u ∈ acc.1, u ∉ explicit ∧ u ∉ excluded) :
    let r := l.foldl (gatherStep excluded) acc
    r.2 = explicit ++ r.1 ∧ r.1.Nodup ∧ (∀ u ∈ r.1, u ∉ explicit ∧ u ∉ excluded) ∧
    (∀ u, u ∈ r.1 ↔ u ∈ acc.1 ∨ (u ∈ l ∧ u ∉ explicit ∧ u ∉ excluded)) := by
  induction l generalizing acc with
  | nil => exact ⟨hseen, hnd, hdis, fun u => by simp⟩
  | cons x r ih =>
    simp only [List.foldl_cons]
    by_cases hc : (acc.2.contains x || excluded.contains x) = true
    · have hstep : gatherStep excluded acc x = acc := by unfold gatherStep; rw [if_pos hc]
      rw [hstep]
      have := ih acc hseen hnd hdis
      refine ⟨this.1, this.2.1, this.2.2.1, ?_⟩
      intro u
      rw [this.2.2.2 u]
      simp only [List.mem_cons]
      constructor
      · rintro (h | ⟨h1, h2⟩)
        · exact Or.inl h
        · exact Or.inr ⟨Or.inr h1, h2⟩
      · rintro (h | ⟨h1 | h1, h2⟩)
        · exact Or.inl h
        · subst h1
          -- x is already seen or excluded
          simp only [Bool.or_eq_true, List.contains_iff_mem] at hc
          rcases hc with hc | hc
          · rw [hseen] at hc
            simp only [List.mem_append] at hc
            rcases hc with hc | hc
            · exact absurd hc h2.1
            · exact Or.inl hc
          · exact absurd hc h2.2
        · exact Or.inr ⟨h1, h2⟩
    · have hc' : (acc.2.contains x || excluded.contains x) = false := by simpa using hc
      have hstep : gatherStep excluded acc x = (acc.1 ++ [x], acc.2 ++ [x]) := by unfold gatherStep; rw [if_neg hc]
      rw [hstep]
      simp only [Bool.or_eq_false_iff] at hc'
      have hx1 : x ∉ acc.2 := by
        intro h; have h' : acc.2.contains x = true := List.contains_iff_mem.2 h; rw [hc'.1] at h'; exact absurd h' (by decide)
      have hx2 : x ∉ excluded := by
        intro h; have h' : excluded.contains x = true := List.contains_iff_mem.2 h; rw [hc'.2] at h'; exact absurd h' (by decide)
      rw [hseen] at hx1
      simp only [List.mem_append, not_or] at hx1
      have := ih (acc.1 ++ [x], acc.2 ++ [x]) (by simp [hseen]) (by
          rw [List.nodup_append]; refine ⟨hnd, by simp, ?_⟩
          intro a ha b hb; simp at hb; subst hb; intro hab; subst hab; exact hx1.2 ha)
        (by intro u hu; simp only [List.mem_append, List.mem_singleton] at hu
            rcases hu with hu | hu
            · exact hdis u hu
            · subst hu; exact ⟨hx1.1, hx2⟩)
      refine ⟨this.1, this.2.1, this.2.2.1, ?_⟩
      intro u
      rw [this.2.2.2 u]
      simp only [List.mem_append, List.mem_cons, List.not_mem_nil, or_false]
      constructor
      · rintro ((h | h) | ⟨h1, h2⟩)
        · exact Or.inl h
        · subst h; exact Or.inr ⟨Or.inl rfl, hx1.1, hx2⟩
        · exact Or.inr ⟨Or.inr h1, h2⟩
      · rintro (h | ⟨h1 | h1, h2⟩)
        · exact Or.inl (Or.inl h)
        · exact Or.inl (Or.inr h1)
        · exact Or.inr ⟨h1, h2⟩

/-- **the additional pool**: exactly the potential inputs and address UTxOs that are neither explicit inputs nor
excluded, each once -/
theorem pool_spec (explicit potential : List U) (addrUtxos : List (List U)) (excluded : List U) :
    (gatherPool explicit potential addrUtxos excluded).Nodup ∧
    ∀ u, u ∈ gatherPool explicit potential addrUtxos excluded ↔
      (u ∈ potential ∨ u ∈ addrUtxos.flatten) ∧ u ∉ explicit ∧ u ∉ excluded := by
  unfold gatherPool
  have h1 := gather_inv excluded potential ([], explicit) explicit (by simp) (by simp) (by simp)
  have h2 := gather_inv excluded addrUtxos.flatten (potential.foldl (gatherStep excluded) ([], explicit)) explicit
    h1.1 h1.2.1 h1.2.2.1
  refine ⟨h2.2.1, ?_⟩
  intro u
  rw [h2.2.2.2 u, h1.2.2.2 u]
  simp only [List.not_mem_nil, false_or]
  constructor
  · rintro (⟨h, hh⟩ | ⟨h, hh⟩)
    · exact ⟨Or.inl h, hh⟩
    · exact ⟨Or.inr h, hh⟩
  · rintro ⟨h | h, hh⟩
    · exact Or.inl ⟨h, hh⟩
    · exact Or.inr ⟨h, hh⟩

/-- **selector fallback order**: the result is that of the first selector that succeeds; failure only if all fail -/
theorem chain_spec (ss : List (List U → Option (List U))) (pool sel : List U) (h : chain ss pool = some sel) :
    ss = [] ∧ sel = [] ∨ ∃ pre s post, ss = pre ++ s :: post ∧ (∀ t ∈ pre, t pool = none) ∧ s pool = some sel := by
  induction ss with
  | nil => simp [chain] at h; exact Or.inl ⟨rfl, h⟩
  | cons s rest ih =>
    right
    cases rest with
    | nil => exact ⟨[], s, [], rfl, by simp, by simpa [chain] using h⟩
    | cons s2 rest2 =>
      simp only [chain] at h
      cases hs : s pool with
      | some x => rw [hs] at h; simp at h; subst h; exact ⟨[], s, s2 :: rest2, rfl, by simp, hs⟩
      | none =>
        rw [hs] at h
        rcases ih h with ⟨h1, _⟩ | ⟨pre, t, post, e, hp, ht⟩
        · simp at h1
        · exact ⟨s :: pre, t, post, by simp [e], by
            intro x hx; simp at hx; rcases hx with rfl | hx
            · exact hs
            · exact hp x hx, ht⟩

theorem chain_fails_iff (ss : List (List U → Option (List U))) (pool : List U) :
    chain ss pool = none ↔ ss ≠ [] ∧ ∀ s ∈ ss, s pool = none := by
  induction ss with
  | nil => simp [chain]
  | cons s rest ih =>
    cases rest with
    | nil => simp [chain]
    | cons s2 rest2 =>
      simp only [chain]
      cases hs : s pool with
      | some x => simp [hs]
      | none =>
        rw [ih]
        simp [hs]

theorem chain_ok (ss : List (List U → Option (List U))) (hs : ∀ s ∈ ss, SelectorOk s) (pool sel : List U)
    (h : chain ss pool = some sel) : (∀ u ∈ sel, u ∈ pool) ∧ (pool.Nodup → sel.Nodup) := by
  rcases chain_spec ss pool sel h with ⟨_, h2⟩ | ⟨pre, s, post, e, _, hsel⟩
  · subst h2; simp
  · exact hs s (by rw [e]; simp) pool sel hsel

theorem mem_sortU (l : List U) (u : U) : u ∈ sortU l ↔ u ∈ l := mem_isort _ u l

variable (explicit potential : List U) (addrUtxos : List (List U)) (excluded : List U) (needMore : Bool)
  (selectors : List (List U → Option (List U))) (ins : List U)

/-- **provenance**: every input of the body was added explicitly, listed as potential input, or reported by the
chain context at a registered input address -/
theorem inputs_subset (hs : ∀ s ∈ selectors, SelectorOk s)
    (h : selectInputs explicit potential addrUtxos excluded needMore selectors = .ok ins) :
    ∀ u ∈ ins, u ∈ explicit ∨ u ∈ potential ∨ u ∈ addrUtxos.flatten := by
  unfold selectInputs at h
  split at h
  · simp at h
  · split at h
    · simp only [Except.ok.injEq] at h; subst h
      intro u hu; exact Or.inl ((mem_sortU _ _).1 hu)
    · split at h
      · simp at h
      · rename_i sel hc
        simp only [Except.ok.injEq] at h; subst h
        intro u hu
        have := (mem_sortU _ _).1 hu
        simp only [List.mem_append] at this
        rcases this with h1 | h1
        · exact Or.inl h1
        · have hp := (chain_ok selectors hs _ sel hc).1 u h1
          have := ((pool_spec explicit potential addrUtxos excluded).2 u).1 hp
          exact Or.inr this.1

/-- every explicitly added input is present -/
theorem explicit_kept
    (h : selectInputs explicit potential addrUtxos excluded needMore selectors = .ok ins) :
    ∀ u ∈ explicit, u ∈ ins := by
  unfold selectInputs at h
  split at h
  · simp at h
  · split at h
    · simp only [Except.ok.injEq] at h; subst h
      intro u hu; exact (mem_sortU _ _).2 hu
    · split at h
      · simp at h
      · simp only [Except.ok.injEq] at h; subst h
        intro u hu; exact (mem_sortU _ _).2 (by simp [hu])

/-- **no excluded UTxO is ever used** -/
theorem excluded_unused (hs : ∀ s ∈ selectors, SelectorOk s)
    (h : selectInputs explicit potential addrUtxos excluded needMore selectors = .ok ins) :
    ∀ u ∈ ins, u ∉ excluded := by
  unfold selectInputs at h
  split at h
  · simp at h
  · rename_i hconf
    have hex : ∀ u ∈ explicit, u ∉ excluded := by
      intro u hu hx
      apply hconf
      simp only [List.any_eq_true]
      exact ⟨u, hu, List.contains_iff_mem.2 hx⟩
    split at h
    · simp only [Except.ok.injEq] at h; subst h
      intro u hu; exact hex u ((mem_sortU _ _).1 hu)
    · split at h
      · simp at h
      · rename_i sel hc
        simp only [Except.ok.injEq] at h; subst h
        intro u hu
        have := (mem_sortU _ _).1 hu
        simp only [List.mem_append] at this
        rcases this with h1 | h1
        · exact hex u h1
        · have hp := (chain_ok selectors hs _ sel hc).1 u h1
          exact (((pool_spec explicit potential addrUtxos excluded).2 u).1 hp).2.2

/-- a conflict between explicit inputs and the exclusion list is refused, never resolved silently -/
theorem conflict_refused (u : U) (h1 : u ∈ explicit) (h2 : u ∈ excluded) :
    selectInputs explicit potential addrUtxos excluded needMore selectors = .error .conflict := by
  unfold selectInputs
  have : explicit.any (fun u => excluded.contains u) = true := by
    simp only [List.any_eq_true]; exact ⟨u, h1, List.contains_iff_mem.2 h2⟩
  rw [if_pos this]

/-- **each at most once**: distinct explicit inputs give a duplicate-free input list -/
theorem inputs_nodup (hs : ∀ s ∈ selectors, SelectorOk s) (hn : explicit.Nodup)
    (h : selectInputs explicit potential addrUtxos excluded needMore selectors = .ok ins) : ins.Nodup := by
  unfold selectInputs at h
  split at h
  · simp at h
  · split at h
    · simp only [Except.ok.injEq] at h; subst h
      exact (isort_perm _ _).symm.nodup hn
    · split at h
      · simp at h
      · rename_i sel hc
        simp only [Except.ok.injEq] at h; subst h
        apply (isort_perm _ _).symm.nodup
        have hp := pool_spec explicit potential addrUtxos excluded
        have hok := chain_ok selectors hs _ sel hc
        rw [List.nodup_append]
        refine ⟨hn, hok.2 hp.1, ?_⟩
        intro a ha b hb hab
        subst hab
        exact ((hp.2 a).1 (hok.1 a hb)).2.1 ha

/-- **canonical order**: the inputs are emitted sorted by (transaction id bytes, index), the ledger's order -/
theorem inputs_sorted
    (h : selectInputs explicit potential addrUtxos excluded needMore selectors = .ok ins) :
    (ins.map (·.1)).Pairwise (fun a b => Pyc.Spec.Ranks.inLt b.toPair a.toPair = false) := by
  have key : ∀ l : List U, ((sortU l).map (·.1)) = Rd.sortInputs (l.map (·.1)) := by
    intro l
    exact map_isort (fun (a b : U) => Rd.keyLe a.1 b.1) Rd.keyLe (·.1) (fun a b => rfl) l
  unfold selectInputs at h
  split at h
  · simp at h
  · split at h
    · simp only [Except.ok.injEq] at h; subst h
      rw [key]; exact C11.sortInputs_sorted _
    · split at h
      · simp at h
      · simp only [Except.ok.injEq] at h; subst h
        rw [key]; exact C11.sortInputs_sorted _

/-- non-vacuity: a wallet in which one UTxO is explicit, potential and at the address, and another is excluded -/
example :
    let a : U := (⟨[1], 0⟩, ⟨5, []⟩)
    let b : U := (⟨[2], 1⟩, ⟨7, []⟩)
    let c : U := (⟨[0], 9⟩, ⟨9, []⟩)
    gatherPool [a] [a, b] [[a, b, c], [c]] [b] = [c] := by decide

end Pyc.C09

#print axioms Pyc.C09.gather_inv
#print axioms Pyc.C09.pool_spec
#print axioms Pyc.C09.chain_spec
#print axioms Pyc.C09.chain_fails_iff
#print axioms Pyc.C09.chain_ok
#print axioms Pyc.C09.mem_sortU
#print axioms Pyc.C09.inputs_subset
#print axioms Pyc.C09.explicit_kept
#print axioms Pyc.C09.excluded_unused
#print axioms Pyc.C09.conflict_refused
#print axioms Pyc.C09.inputs_nodup
#print axioms Pyc.C09.inputs_sorted
