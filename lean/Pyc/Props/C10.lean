import Mathlib.Data.ZMod.Basic
import Pyc.Proofs.SigScheme
import Pyc.Proofs.Witness
import Pyc.Proofs.WitnessFake

/-! # C10 — witnesses authorise exactly this transaction

Model: `Pyc/Model/Witness.lean` (required key-hash collection, `_witness_count`, `_build_fake_vkey_witnesses`, the
signing loop of `build_and_sign`, `VerificationKeyWitness.__post_init__`), `Pyc/Proofs/SigScheme.lean` (RFC 8032 and
BIP32-Ed25519 signing over an abstract group).  Not proved: that edwards25519 / SHA-512 / BLAKE2b instantiate the
group, `Hs`, `H28`, `H32` (trusted; checked differentially against an independent RFC 8032 verifier). -/

namespace Pyc.C10
open Pyc Pyc.Witness Pyc.Sig

/-! ## signatures -/

/-- standard Ed25519 signing satisfies the verification equation `[S]B = R + [h]A`, every key, every message -/
theorem std_sign_correct {G : Type} [AddCommGroup G] (B : G) (L : ℕ) (Hs : Bytes → ℕ) (enc : G → Bytes)
    (hL : L • B = 0) (sk : Expanded) (m : Bytes) :
    VerifyEq B Hs enc (commit B Hs sk m) (pubPoint B sk) (stdS B L Hs enc sk m) m :=
  Sig.std_sign_correct B L Hs enc hL sk m

/-- BIP32-Ed25519 extended signing as bip32.py computes it (`r = H(kR‖m) mod L`, `S = (h·kL + r) mod L`)
satisfies the same equation under `A = [kL]B` -/
theorem ext_sign_correct {G : Type} [AddCommGroup G] (B : G) (L : ℕ) (Hs : Bytes → ℕ) (enc : G → Bytes)
    (hL : L • B = 0) (sk : Expanded) (m : Bytes) :
    VerifyEq B Hs enc (commit B Hs sk m) (pubPoint B sk) (extS B L Hs enc sk m) m :=
  Sig.ext_sign_correct B L Hs enc hL sk m

/-! ## required key hashes -/

/-- membership characterisation of `_build_required_vkeys`: exactly the payment key hashes of inputs and
collateral, the required signers, the pubkey leaves — at any depth, n-of-k included — of every native script the
builder holds (`native_scripts`, scripts bound to inputs incl. reference scripts, minting / withdrawal /
certificate scripts), the key credential of every certificate (pool operator / retiring pool unconditionally) and
the owners of pool registrations, the key reward accounts withdrawn from, and the key voters -/
theorem required_vkeys_spec (st : State) (h : Bytes) :
    h ∈ requiredVkeys st ↔
      ((⟨true, h⟩ : Cred) ∈ st.inputs ∨ (⟨true, h⟩ : Cred) ∈ st.collaterals
      ∨ h ∈ st.requiredSigners
      ∨ (∃ s, (s ∈ st.nativeScripts ∨ s ∈ st.inputScripts ∨ s ∈ st.mintScripts ∨ s ∈ st.withdrawalScripts
              ∨ s ∈ st.certScripts) ∧ HasKey h s)
      ∨ (∃ c, c ∈ st.certificates ∧
            ((h = c.cred.hash ∧ (c.cred.isKey = true ∨ c.kind = .poolReg ∨ c.kind = .poolRetire))
              ∨ (c.kind = .poolReg ∧ h ∈ c.owners)))
      ∨ (∃ hd, hd :: h ∈ st.withdrawals ∧ hd.toNat / 16 = 14)
      ∨ (⟨true, h⟩ : Cred) ∈ st.voters) := by
  unfold requiredVkeys
  rw [mem_dedup]
  simp only [List.mem_append, inputVkeys, nativeVkeys, certificateVkeys, withdrawalVkeys, voteVkeys, mem_keyCreds,
    mem_keysList_iff, List.mem_flatMap, mem_certVkeys, mem_rewardKeyHash, mem_allNativeScripts]
  constructor
  · rintro (((((h1 | h1) | h1) | h1) | h1) | h1)
    · exact h1.elim Or.inl (fun x => Or.inr (Or.inl x))
    · exact Or.inr (Or.inr (Or.inl h1))
    · exact Or.inr (Or.inr (Or.inr (Or.inl h1)))
    · exact Or.inr (Or.inr (Or.inr (Or.inr (Or.inl h1))))
    · obtain ⟨b, hb, hd, rfl, h14⟩ := h1
      exact Or.inr (Or.inr (Or.inr (Or.inr (Or.inr (Or.inl ⟨hd, hb, h14⟩)))))
    · exact Or.inr (Or.inr (Or.inr (Or.inr (Or.inr (Or.inr h1)))))
  · rintro (h1 | h1 | h1 | h1 | h1 | h1 | h1)
    · exact Or.inl (Or.inl (Or.inl (Or.inl (Or.inl (Or.inl h1)))))
    · exact Or.inl (Or.inl (Or.inl (Or.inl (Or.inl (Or.inr h1)))))
    · exact Or.inl (Or.inl (Or.inl (Or.inl (Or.inr h1))))
    · exact Or.inl (Or.inl (Or.inl (Or.inr h1)))
    · exact Or.inl (Or.inl (Or.inr h1))
    · obtain ⟨hd, hb, h14⟩ := h1
      exact Or.inl (Or.inr ⟨_, hb, hd, rfl, h14⟩)
    · exact Or.inr h1

/-- the required key hashes are a set: no duplicates, whatever overlaps the sources have -/
theorem required_nodup (st : State) : (requiredVkeys st).Nodup := nodup_dedup _

/-- every `ScriptPubkey` leaf of a native script the builder holds — in `native_scripts` or attached to an input,
a mint, a withdrawal or a certificate — at any nesting depth and below any combinator (`all`, `any`, n-of-k), is a
required key hash (induction over the script tree) -/
theorem native_keys_complete (st : State) (s : NScript) (hs : s ∈ allNativeScripts st) (h : Bytes)
    (hk : HasKey h s) : h ∈ requiredVkeys st :=
  (required_vkeys_spec st h).2
    (Or.inr (Or.inr (Or.inr (Or.inl ⟨s, (mem_allNativeScripts s st).1 hs, hk⟩))))

/-- … and nothing else is collected from a script -/
theorem native_keys_exact (s : NScript) (h : Bytes) : h ∈ s.keys ↔ HasKey h s := mem_keys_iff h s

/-- GOAL as the pinned tree implemented `_dfs` (`ScriptAll`, `ScriptAny` only) -/
def native_keys_pinned_goal : Prop := ∀ (s : NScript) (h : Bytes), HasKey h s → h ∈ s.keysPinned

/-- the pinned `_dfs` loses the keys below an n-of-k script (repaired in /repo by `fix:` commit 27bcd91;
`NScript.keys` models the repaired code) -/
theorem native_keys_pinned_counterexample : ¬ native_keys_pinned_goal := by
  intro h
  have := h (.nofk 1 [.pubkey [1], .pubkey [2]]) [1] (.nofk (s := .pubkey [1]) (by simp) .pubkey)
  simp [NScript.keysPinned] at this

/-- GOAL as the pinned tree collected native-script keys: from `self.native_scripts` only -/
def attached_native_pinned_goal : Prop :=
  ∀ (st : State) (s : NScript), s ∈ allNativeScripts st → ∀ h, HasKey h s → h ∈ nativeVkeysPinned st

/-- the pinned collection loses the keys of a native script attached to an input (repaired in /repo by `fix:`
commit 31135c8; `nativeVkeys` models the repaired code) -/
theorem attached_native_pinned_counterexample : ¬ attached_native_pinned_goal := by
  intro h
  have := h ⟨[], [], [], [], [.pubkey [1]], [], [], [], [], [], [], none⟩ (.pubkey [1])
    (by simp [allNativeScripts]) [1] .pubkey
  simp [nativeVkeysPinned, NScript.keysList] at this

/-- property text, "certificate … credentials", at full strength: the key credential of every certificate — all
17 kinds of pycardano/certificate.py — and every owner of a pool registration is a required key hash -/
theorem cert_coverage (st : State) (c : Cert) (hc : c ∈ st.certificates) (h : Bytes) (hm : h ∈ certVkeysFull c) :
    h ∈ requiredVkeys st := by
  have := (mem_certVkeys h c).1 (certVkeysFull_subset h c hm)
  exact (required_vkeys_spec st h).2 (Or.inr (Or.inr (Or.inr (Or.inr (Or.inl ⟨c, hc, this⟩)))))

/-- … and a certificate contributes nothing beyond that, except that the operator of a pool registration and the
hash of a retiring pool are taken as they are (they are key hashes by type) -/
theorem cert_exact (c : Cert) (h : Bytes) (hm : h ∈ certVkeys c) :
    h ∈ certVkeysFull c ∨ (h = c.cred.hash ∧ (c.kind = .poolReg ∨ c.kind = .poolRetire)) := by
  rcases (mem_certVkeys h c).1 hm with ⟨he, hk | hk | hk⟩ | ⟨hp, ho⟩
  · left; simp [certVkeysFull, credKey, hk, he]
  · exact Or.inr ⟨he, Or.inl hk⟩
  · exact Or.inr ⟨he, Or.inr hk⟩
  · left; simp [certVkeysFull, hp, ho]

/-- GOAL as the pinned tree collected certificate credentials -/
def cert_coverage_pinned_goal : Prop :=
  ∀ (c : Cert) (h : Bytes), h ∈ certVkeysFull c → h ∈ certVkeysPinned c

/-- the pinned loop misses DRep deregistration (also: DRep update, committee hot-key authorisation and cold-key
resignation, pool owners other than the operator) — repaired in /repo by `fix:` commit e281a78; `certVkeys`
models the repaired code -/
theorem cert_coverage_pinned_counterexample : ¬ cert_coverage_pinned_goal := by
  intro h
  have := h ⟨.unregDRep, ⟨true, [7]⟩, []⟩ [7] (by simp [certVkeysFull, credKey])
  revert this; decide

/-! ## the signing loop -/

section loop
variable {κ : Type} [DecidableEq κ] (ops : KeyOps κ) (H28 H32 : Bytes → Bytes)

/-- every supplied key whose hash is required yields a witness carrying its 32-byte key and its signature of the
transaction id -/
theorem witnesses_cover (st : State) (force : Bool) (body : Bytes) (keys : List κ) (k : κ) (hk : k ∈ keys)
    (hreq : keyHash ops H28 k ∈ requiredVkeys st) :
    (⟨vkey32 ops k, ops.sign k (H32 body)⟩ : Witness) ∈ buildAndSign ops H28 H32 st force body keys := by
  unfold buildAndSign
  rw [mem_signLoop]
  exact ⟨k, hk, by simp [signs, hreq], rfl⟩

/-- without `force_skeys`, every witness comes from a supplied key whose hash is required: keys the transaction
does not need are left out -/
theorem witnesses_minimal (st : State) (body : Bytes) (keys : List κ) (w : Witness)
    (hw : w ∈ buildAndSign ops H28 H32 st false body keys) :
    ∃ k, k ∈ keys ∧ w.vkey = vkey32 ops k ∧ H28 w.vkey ∈ requiredVkeys st := by
  unfold buildAndSign at hw
  rw [mem_signLoop] at hw
  obtain ⟨k, hk, hs, rfl⟩ := hw
  refine ⟨k, hk, rfl, ?_⟩
  simpa [signs, keyHash] using hs

/-- with `force_skeys`, every supplied key signs -/
theorem witnesses_forced (st : State) (body : Bytes) (keys : List κ) (k : κ) (hk : k ∈ keys) :
    (⟨vkey32 ops k, ops.sign k (H32 body)⟩ : Witness) ∈ buildAndSign ops H28 H32 st true body keys := by
  unfold buildAndSign
  rw [mem_signLoop]
  exact ⟨k, hk, by simp [signs], rfl⟩

/-- the witness set depends on the *set* of supplied keys only (order, duplicates irrelevant): `set(signing_keys)` -/
theorem witnesses_order_free (st : State) (force : Bool) (body : Bytes) (keys keys' : List κ)
    (hset : ∀ k, k ∈ keys ↔ k ∈ keys') (w : Witness) :
    w ∈ buildAndSign ops H28 H32 st force body keys ↔ w ∈ buildAndSign ops H28 H32 st force body keys' := by
  unfold buildAndSign
  rw [mem_signLoop, mem_signLoop]
  constructor <;> rintro ⟨k, hk, h⟩
  · exact ⟨k, (hset k).1 hk, h⟩
  · exact ⟨k, (hset k).2 hk, h⟩

omit [DecidableEq κ] in
/-- the witness key is 32 bytes for an ordinary (32-byte) and for an extended (64-byte: key ‖ chain code)
verification key alike -/
theorem vkey_trim (k : κ)
    (hwf : (ops.ext k = false ∧ (ops.vk k).length = 32) ∨ (ops.ext k = true ∧ (ops.vk k).length = 64)) :
    (vkey32 ops k).length = 32 ∧ (ops.ext k = true → vkey32 ops k = (ops.vk k).take 32) := by
  unfold vkey32
  rcases hwf with ⟨h1, h2⟩ | ⟨h1, h2⟩ <;> simp [h1, h2]

/-- under a correct signature scheme whose keys are the supplied ones (witness key = public key, `sign` = the
scheme's signing), every produced witness verifies against `H32 (body bytes)` — the transaction id — and carries a
32-byte key -/
theorem witnesses_valid (S : SigScheme) (sec : κ → S.SK) (hpk : ∀ k, vkey32 ops k = S.pk (sec k))
    (hsig : ∀ k m, ops.sign k m = S.sign (sec k) m)
    (hwf : ∀ k, (ops.ext k = false ∧ (ops.vk k).length = 32) ∨ (ops.ext k = true ∧ (ops.vk k).length = 64))
    (st : State) (force : Bool) (body : Bytes) (keys : List κ) (w : Witness)
    (hw : w ∈ buildAndSign ops H28 H32 st force body keys) :
    S.verify w.vkey (H32 body) w.sig ∧ w.vkey.length = 32 := by
  unfold buildAndSign at hw
  rw [mem_signLoop] at hw
  obtain ⟨k, _, _, rfl⟩ := hw
  refine ⟨?_, (vkey_trim ops k (hwf k)).1⟩
  simp only [hpk, hsig]
  exact S.correct _ _

end loop

/-- key objects over the abstract group: `inl` an ordinary key, `inr` an extended key with its chain code -/
abbrev GKey := Expanded ⊕ (Expanded × Bytes)

instance : DecidableEq Expanded := fun a b => by
  cases a; cases b; simp only [Expanded.mk.injEq]; exact inferInstance

/-- `to_verification_key()` / `sign` of pycardano's two key classes over the abstract group -/
def groupOps {G : Type} [AddCommGroup G] (B : G) (L : ℕ) (Hs : Bytes → ℕ) (enc : G → Bytes) (encS : ℕ → Bytes) :
    KeyOps GKey where
  ext k := k.isRight
  vk k := match k with
    | .inl s => enc (pubPoint B s)
    | .inr (s, cc) => enc (pubPoint B s) ++ cc
  sign k m := match k with
    | .inl s => enc (commit B Hs s m) ++ encS (stdS B L Hs enc s m)
    | .inr (s, _) => enc (extCommit B L Hs s m) ++ encS (extS B L Hs enc s m)

/-- `witnesses_valid` instantiated: for ordinary and extended keys over any group with `L • B = 0` and 32-byte
point encodings, every witness `build_and_sign` produces passes RFC 8032 verification of the transaction id -/
theorem witnesses_valid_ed25519 {G : Type} [AddCommGroup G] (B : G) (L : ℕ) (Hs : Bytes → ℕ) (enc : G → Bytes)
    (encS : ℕ → Bytes) (hL : L • B = 0) (henc : ∀ P, (enc P).length = 32) (H28 H32 : Bytes → Bytes)
    (st : State) (force : Bool) (body : Bytes) (keys : List GKey)
    (w : Witness) (hw : w ∈ buildAndSign (groupOps B L Hs enc encS) H28 H32 st force body keys) :
    verifyBytes B Hs enc encS w.vkey (H32 body) w.sig ∧ w.vkey.length = 32 := by
  unfold buildAndSign at hw
  rw [mem_signLoop] at hw
  obtain ⟨k, _, _, rfl⟩ := hw
  cases k with
  | inl s =>
    refine ⟨?_, by simp [vkey32, groupOps, henc]⟩
    simp only [vkey32, groupOps, Sum.isRight_inl, Bool.false_eq_true, if_false]
    exact (stdScheme B L Hs enc encS hL).correct s (H32 body)
  | inr p =>
    obtain ⟨s, cc⟩ := p
    have ht : (enc (pubPoint B s) ++ cc).take 32 = enc (pubPoint B s) := by
      rw [List.take_append_of_le_length (by simp [henc]), List.take_of_length_le (by simp [henc])]
    refine ⟨?_, by simp [vkey32, groupOps, ht, henc]⟩
    simp only [vkey32, groupOps, Sum.isRight_inr, if_true, ht]
    exact (extScheme B L Hs enc encS hL).correct s (H32 body)

/-! ## placeholder witnesses -/

/-- `witness_override or len(required)`: `None` and `0` both mean "count the required key hashes" -/
theorem witness_count_spec (st : State) :
    witnessCount st = (match st.witnessOverride with
      | some n => if n = 0 then (requiredVkeys st).length else n
      | none => (requiredVkeys st).length) := by
  unfold witnessCount
  cases st.witnessOverride with
  | none => rfl
  | some n => by_cases h : n = 0 <;> simp [h]

/-- placeholder witnesses (key, signature) are pairwise distinct for every index the code can run: `i.to_bytes(32, "big")`
exists exactly for `i < 2^256` (XOR with a constant and the big-endian rendering are one-to-one; since repair 504b48a —
the AND of the pinned tree made placeholder 256 equal placeholder 0, the former `placeholder_count_counterexample`) -/
theorem fake_witnesses_distinct (i j : Nat) (hi : i < 2 ^ 256) (hj : j < 2 ^ 256) (h : fakeWitness i = fakeWitness j) :
    i = j := fakeWitness_inj i j hi hj h

/-- the placeholder KEYS alone are pairwise distinct too (under the AND of the pinned tree indices 0 and 2 shared a key) -/
theorem fake_vkeys_distinct (i j : Nat) (hi : i < 2 ^ 256) (hj : j < 2 ^ 256)
    (h : (fakeWitness i).vkey = (fakeWitness j).vkey) : i = j := fakeVkey_inj i j hi hj h

/-- what the MODEL does at the bound, where Python raises `OverflowError`: the index wraps (nothing is claimed beyond) -/
theorem fake_witness_model_wraps : fakeWitness (2 ^ 256) = fakeWitness 0 := by decide +kernel

/-- **without an override the number of placeholder witnesses is the number of distinct required key hashes**, for
every state the code can run (full statement since repair 504b48a) -/
theorem placeholder_count (st : State) (ho : st.witnessOverride = none ∨ st.witnessOverride = some 0)
    (hn : (requiredVkeys st).length ≤ 2 ^ 256) :
    (fakeWitnesses st).length = (requiredVkeys st).length ∧ (requiredVkeys st).Nodup := by
  refine ⟨?_, required_nodup st⟩
  have hc : witnessCount st = (requiredVkeys st).length := by
    rcases ho with h | h <;> simp [witnessCount, h]
  unfold fakeWitnesses
  rw [hc]
  exact length_fakeWitnessesN _ hn

/-- with an override `n` there are exactly `n` placeholder witnesses -/
theorem placeholder_count_override (st : State) (n : Nat) (ho : st.witnessOverride = some n) (h0 : n ≠ 0)
    (hn : n ≤ 2 ^ 256) : (fakeWitnesses st).length = n := by
  have hc : witnessCount st = n := by simp [witnessCount, ho, h0]
  unfold fakeWitnesses
  rw [hc]
  exact length_fakeWitnessesN _ hn

/-- non-vacuity beyond the former limit: 300 placeholders are 300 -/
example : (fakeWitnessesN 300).length = 300 := length_fakeWitnessesN 300 (by decide)

/-! ## non-vacuity -/

/-- a group with a base point of order `L` exists (the hypotheses `hL` of the signature theorems are satisfiable
non-trivially): `ZMod 13`, `B = 1`, `L = 13` -/
example : (13 : ℕ) • (1 : ZMod 13) = 0 := by decide

/-- a state drawing required key hashes from every source (input, collateral, required signer, n-of-k script nested
in `all`, scripts attached to an input / a mint / a withdrawal / a certificate, certificates incl. DRep
deregistration, committee resignation and a pool registration with a second owner, key withdrawal, voter) with
overlaps; script credentials contribute nothing -/
example :
    requiredVkeys ⟨[⟨true, [1]⟩, ⟨false, [9]⟩], [⟨true, [2]⟩, ⟨true, [1]⟩], [[3], [1]],
      [.all [.nofk 1 [.pubkey [4], .any [.pubkey [5], .before 7]], .pubkey [3]]],
      [.nofk 2 [.pubkey [16], .pubkey [4]]], [.pubkey [17]], [.any [.pubkey [18]]], [.all [.pubkey [19], .after 3]],
      [⟨.stakeDeleg, ⟨true, [6]⟩, []⟩, ⟨.stakeDereg, ⟨false, [10]⟩, []⟩, ⟨.unregDRep, ⟨true, [11]⟩, []⟩,
       ⟨.resignCold, ⟨true, [20]⟩, []⟩, ⟨.authHot, ⟨false, [21]⟩, []⟩, ⟨.poolReg, ⟨true, [12]⟩, [[12], [13]]⟩],
      [[0xe0, 7], [0xf0, 14]], [⟨true, [8]⟩, ⟨false, [15]⟩], none⟩
      = [[2], [1], [5], [3], [16], [4], [17], [18], [19], [6], [11], [20], [12], [13], [7], [8]] := by decide

/-- the signing loop on a mixed key set: ordinary key required, extended key required (64-byte verification key
trimmed to its first 32 bytes), the ordinary key supplied twice, and an unrelated key; not forced -/
example :
    (signLoop slotOps (fun b => b.take 1) false [[1], [2]] [] [⟨false, List.replicate 32 1, 0⟩,
      ⟨true, List.replicate 32 2 ++ List.replicate 32 9, 1⟩, ⟨false, List.replicate 32 1, 0⟩,
      ⟨false, List.replicate 32 3, 2⟩]).map (·.vkey) = [List.replicate 32 2, List.replicate 32 1] := by decide

end Pyc.C10

#print axioms Pyc.C10.std_sign_correct
#print axioms Pyc.C10.ext_sign_correct
#print axioms Pyc.C10.required_vkeys_spec
#print axioms Pyc.C10.required_nodup
#print axioms Pyc.C10.native_keys_complete
#print axioms Pyc.C10.native_keys_exact
#print axioms Pyc.C10.native_keys_pinned_counterexample
#print axioms Pyc.C10.attached_native_pinned_counterexample
#print axioms Pyc.C10.cert_coverage
#print axioms Pyc.C10.cert_exact
#print axioms Pyc.C10.cert_coverage_pinned_counterexample
#print axioms Pyc.C10.witnesses_cover
#print axioms Pyc.C10.witnesses_minimal
#print axioms Pyc.C10.witnesses_forced
#print axioms Pyc.C10.witnesses_order_free
#print axioms Pyc.C10.vkey_trim
#print axioms Pyc.C10.witnesses_valid
#print axioms Pyc.C10.witnesses_valid_ed25519
#print axioms Pyc.C10.witness_count_spec
#print axioms Pyc.C10.fake_witnesses_distinct
#print axioms Pyc.C10.fake_vkeys_distinct
#print axioms Pyc.C10.fake_witness_model_wraps
#print axioms Pyc.C10.placeholder_count
#print axioms Pyc.C10.placeholder_count_override
