import Pyc.Proofs.Collateral

/-! # C13 — collateral is adequate, key-locked and balanced

Property theorems only.  The model (`Pyc/Model/Collateral.lean`) transliterates `_should_add_collateral_return`,
`_set_collateral_return` and the collateral field of `_build_tx_body` of pycardano/txbuilder.py, as repaired by
f40c521 (a candidate already in `self.collaterals` is not taken again), 81c8cba (`max_collateral_inputs` enforced)
and 3308efc (the collateral amount is rounded up).
`run p st = .ok r`: the call returned; `r.collaterals` is `builder.collaterals` (a list, WITH multiplicity),
`bodyCollateral r.collaterals` is what the transaction body names (the ordered set drops repeats: what the ledger
sees), `r.ret` / `r.total` are `_collateral_return` / `_total_collateral`.  `coinSum` / `qtySum` are Σ over a list.
`st.explicit = []` = the collateral is chosen automatically.

Hypotheses that remain, and why:
* `RefConsistent (inputs ++ potential ++ addrUtxos)` (distinctness, the ledger's balance): the membership test of the
  repaired loop is `UTxO.__eq__` (input AND output), so two entries that share a `TransactionInput` but show different
  outputs — inconsistent views of the ledger, where a reference identifies one output — are both taken
  (`inconsistent_view_taken_twice`).  The same UTxO (object) reachable through several lists satisfies it.
* collateral supplied by the caller (`st.explicit ≠ []`) is passed through: a caller who lists one UTxO twice still
  gets it summed twice (`explicit_duplicate_counted_twice`); `collat_total_distinct_explicit` asks for distinct
  references.  The limit, the total, adequacy and the return theorems hold for explicit collateral as well.
* `0 < amt` for "at least one collateral input" (a collateral percentage of 0 requires none).
The fee of the transaction is not part of the model: adequacy quantifies over every `fee ≤ max_tx_fee + fee_buffer`
(every fee estimate of the builder is a `fee(...)` value, bounded by `max_tx_fee`, plus `builder.fee_buffer`; since the
repair of KF-C13-fee-buffer the collateral is sized from that bound). -/

namespace Pyc.C13
open Pyc Pyc.Collateral

/-- automatic selection: either nothing was selected (early return) or the collateral is `selectAuto` -/
theorem auto_collaterals (p : Params) (st : State) (r : Result) (ha : st.explicit = []) (h : run p st = .ok r) :
    r.collaterals = [] ∨
    ∃ addr amt, st.retAddr = some addr ∧ collateralAmount p st.refScriptSize st.feeBuffer = some amt ∧
      r.collaterals = selectAuto p.cpb amt st.threshold addr st := by
  rcases run_ok p st r h with ⟨_, rfl⟩ | ⟨addr, amt, _, h2, h3, h4⟩
  · exact Or.inl ha
  · right
    rw [colsOf_auto p st addr amt ha] at h4
    exact ⟨addr, amt, h2, h3, (finish_ok _ _ _ _ _ _ _ h4).1⟩

/-- automatically chosen collateral inputs are never at script addresses and hold more than 2 ADA -/
theorem collat_key_locked (p : Params) (st : State) (r : Result) (ha : st.explicit = []) (h : run p st = .ok r) :
    ∀ u ∈ r.collaterals, scriptLocked u.out.addr = false ∧ u.out.amount.coin > 2000000 := by
  intro u hu
  rcases auto_collaterals p st r ha h with h0 | ⟨addr, amt, _, _, hc⟩
  · rw [h0] at hu; cases hu
  · rw [hc] at hu
    have := selectAuto_eligible _ _ _ _ _ u hu
    simpa [eligible] using this

/-- each automatically chosen collateral input comes from one of the three candidate lists -/
theorem collat_from_candidates (p : Params) (st : State) (r : Result) (ha : st.explicit = []) (h : run p st = .ok r) :
    ∀ u ∈ r.collaterals, u ∈ st.inputs ∨ u ∈ st.potential ∨ u ∈ st.addrUtxos := by
  intro u hu
  rcases auto_collaterals p st r ha h with h0 | ⟨addr, amt, _, _, hc⟩
  · rw [h0] at hu; cases hu
  · rw [hc] at hu
    have := (selectAuto_sublist _ _ _ _ _).subset hu
    simp only [List.mem_append, mem_popOrder] at this
    rcases this with (h | h) | h
    · exact Or.inl h
    · exact Or.inr (Or.inl h)
    · exact Or.inr (Or.inr h)

/-- a return output and a declared total come together -/
theorem ret_iff_total (p : Params) (st : State) (r : Result) (h : run p st = .ok r) :
    r.ret.isSome = r.total.isSome := by
  rcases run_ok p st r h with ⟨_, rfl⟩ | ⟨addr, amt, _, _, _, h4⟩
  · rfl
  · rcases (finish_ok _ _ _ _ _ _ _ h4).2.2.2 with ⟨h1, h2, _⟩ | ⟨h1, h2, _⟩ <;> simp [h1, h2]

/-- when a total collateral is declared: a return output exists, it goes to the return address,
Σ collateral inputs (as the LIST the builder holds, with multiplicity) − return = total in ADA, and the return
carries exactly Σ of every native asset -/
theorem collat_total (p : Params) (st : State) (r : Result) (t : Int) (h : run p st = .ok r)
    (ht : r.total = some t) :
    ∃ o, r.ret = some o ∧ st.retAddr = some o.addr ∧ coinSum r.collaterals - o.amount.coin = t ∧
      ((∀ u ∈ r.collaterals, Value.WF u.out.amount) → ∀ pol n, Value.qty o.amount pol n = qtySum r.collaterals pol n) := by
  rcases run_ok p st r h with ⟨_, rfl⟩ | ⟨addr, amt, _, h2, _, h4⟩
  · cases ht
  · generalize colsOf p st addr amt = cols at h4
    obtain ⟨hc, _, _, hr⟩ := finish_ok _ _ _ _ _ _ _ h4
    rcases hr with ⟨_, h', _⟩ | ⟨hret, htot, _, _⟩
    · rw [h'] at ht; cases ht
    · rw [htot] at ht; cases ht
      rw [hc]
      refine ⟨_, hret, h2, ?_, ?_⟩
      · simp only [retOutput, subInt_coin, sumAmounts_coin]; omega
      · intro hw pol n
        obtain ⟨w, q⟩ := sumAmounts_qty cols hw
        simp only [retOutput]
        rw [subInt_qty _ _ w, q]

/-- the collateral amount is covered by Σ collateral inputs (all of it is forfeitable when nothing is returned) -/
theorem collat_covers (p : Params) (st : State) (r : Result) (addr : Bytes) (amt : Int) (h : run p st = .ok r)
    (hs : st.hasScripts = true) (hr : st.retAddr = some addr) (hc : collateralAmount p st.refScriptSize st.feeBuffer = some amt) :
    amt ≤ coinSum r.collaterals := by
  rcases run_ok p st r h with ⟨h0 | h0, _⟩ | ⟨addr', amt', _, _, h3, h4⟩
  · rw [hs] at h0; cases h0
  · rw [hr] at h0; cases h0
  · rw [hc] at h3; cases h3
    obtain ⟨hcols, _, hle, _⟩ := finish_ok _ _ _ _ _ _ _ h4
    rw [hcols]; exact hle

/-! ## distinctness -/

/-- the automatically chosen collateral inputs are pairwise distinct UTxOs (distinct `TransactionInput`s), whenever
the three candidate lists are views of one ledger state — in particular when the same UTxO is reachable as input,
potential input and address UTxO -/
theorem collat_distinct (p : Params) (st : State) (r : Result) (ha : st.explicit = [])
    (hcons : RefConsistent (st.inputs ++ st.potential ++ st.addrUtxos)) (h : run p st = .ok r) :
    (r.collaterals.map Utxo.ref).Nodup := by
  rcases auto_collaterals p st r ha h with h0 | ⟨addr, amt, _, _, hc⟩
  · rw [h0]; simp
  · rw [hc]; exact selectAuto_nodup _ _ _ _ _ hcons

/-- hence the body names exactly the builder's list -/
theorem body_is_list (p : Params) (st : State) (r : Result) (ha : st.explicit = [])
    (hcons : RefConsistent (st.inputs ++ st.potential ++ st.addrUtxos)) (h : run p st = .ok r) :
    bodyCollateral r.collaterals = r.collaterals :=
  bodyCollateral_of_nodup _ (collat_distinct p st r ha hcons h)

/-- the balance the ledger computes — Σ over the DISTINCT collateral inputs of the body − return — equals the
declared total collateral, and the return carries exactly the assets of the distinct inputs -/
theorem collat_total_distinct (p : Params) (st : State) (r : Result) (t : Int) (o : Output)
    (ha : st.explicit = []) (hcons : RefConsistent (st.inputs ++ st.potential ++ st.addrUtxos))
    (h : run p st = .ok r) (ht : r.total = some t) (ho : r.ret = some o) :
    coinSum (bodyCollateral r.collaterals) - o.amount.coin = t ∧
    ((∀ u ∈ r.collaterals, Value.WF u.out.amount) →
      ∀ pol n, Value.qty o.amount pol n = qtySum (bodyCollateral r.collaterals) pol n) := by
  obtain ⟨o', h1, _, h3, h4⟩ := collat_total p st r t h ht
  rw [ho] at h1; cases h1
  rw [body_is_list p st r ha hcons h]
  exact ⟨h3, h4⟩

/-- the same for collateral supplied by the caller, provided the caller listed pairwise distinct references -/
theorem collat_total_distinct_explicit (p : Params) (st : State) (r : Result) (t : Int) (o : Output)
    (hd : (st.explicit.map Utxo.ref).Nodup) (hne : st.explicit ≠ [])
    (h : run p st = .ok r) (ht : r.total = some t) (ho : r.ret = some o) :
    r.collaterals = st.explicit ∧ coinSum (bodyCollateral r.collaterals) - o.amount.coin = t := by
  have hc : r.collaterals = st.explicit := by
    rcases run_ok p st r h with ⟨_, rfl⟩ | ⟨addr, amt, _, _, _, h4⟩
    · rfl
    · have : colsOf p st addr amt = st.explicit := by
        cases he : st.explicit with
        | nil => exact absurd he hne
        | cons a l => simp [colsOf, he]
      rw [this] at h4
      exact (finish_ok _ _ _ _ _ _ _ h4).1
  obtain ⟨o', h1, _, h3, _⟩ := collat_total p st r t h ht
  rw [ho] at h1; cases h1
  refine ⟨hc, ?_⟩
  rw [bodyCollateral_of_nodup _ (hc ▸ hd)]
  exact h3

/-- the ledger's view of adequacy: Σ over the distinct collateral inputs covers the collateral amount -/
theorem collat_covers_distinct (p : Params) (st : State) (r : Result) (addr : Bytes) (amt : Int)
    (ha : st.explicit = []) (hcons : RefConsistent (st.inputs ++ st.potential ++ st.addrUtxos))
    (h : run p st = .ok r) (hs : st.hasScripts = true) (hr : st.retAddr = some addr)
    (hc : collateralAmount p st.refScriptSize st.feeBuffer = some amt) : amt ≤ coinSum (bodyCollateral r.collaterals) := by
  rw [body_is_list p st r ha hcons h]
  exact collat_covers p st r addr amt h hs hr hc

/-- whatever the lists, the body itself names pairwise distinct inputs, each of them one of the builder's, and
every UTxO of the builder's list is named -/
theorem body_distinct (cols : List Utxo) :
    ((bodyCollateral cols).map Utxo.ref).Nodup ∧ (bodyCollateral cols).Sublist cols ∧
    ∀ u ∈ cols, ∃ v ∈ bodyCollateral cols, v.ref = u.ref :=
  ⟨(dedupRef_nodup cols []).1, dedupRef_sublist cols [], fun u hu => dedupRef_mem cols [] u hu (by simp)⟩

/-! concrete witnesses: fee parameters with `max_tx_fee = 2 000 000` (constant term only), 150 %:
collateral amount 3 000 000; `uA` (2.5 ADA) and `uC` (2.6 ADA) sit at an enterprise key address -/

def cxFee (b : Int) : FeeParams :=
  { a := ⟨0, 1⟩, b := ⟨b, 1⟩, priceStep := ⟨0, 1⟩, priceMem := ⟨0, 1⟩, maxTxSize := 16384, maxTxExSteps := 0,
    maxTxExMem := 0 }
def cxParams (mx : Nat) : Params := { fee := cxFee 2000000, percent := 150, cpb := 4310, maxCollateralInputs := mx }
def keyAddr : Bytes := [0x60, 1, 2, 3]
def uA : Utxo := { txid := [0xaa], ix := 0, out := { addr := keyAddr, amount := ⟨2500000, []⟩ } }
/-- the reference of `uA` shown with a different output (a stale view) -/
def uA' : Utxo := { txid := [0xaa], ix := 0, out := { addr := keyAddr, amount := ⟨2600000, []⟩ } }
def uC : Utxo := { txid := [0xcc], ix := 1, out := { addr := keyAddr, amount := ⟨2600000, [([7], [([1], 5)])]⟩ } }
def uBig : Utxo := { txid := [0xbb], ix := 0, out := { addr := keyAddr, amount := ⟨10000000, []⟩ } }

def stBase : State :=
  { inputs := [], potential := [], addrUtxos := [], explicit := [], hasScripts := true, retAddr := some keyAddr,
    threshold := 1000000, refScriptSize := 0 }

/-- regression witness of f40c521: `uA` is a transaction input and also one of the UTxOs the chain index lists at
the return address (with `uBig`); it is taken once, then `uBig` -/
example : RefConsistent ([uA] ++ [] ++ [uBig, uA]) ∧
    okResult (run (cxParams 3) { stBase with inputs := [uA], addrUtxos := [uBig, uA] }) =
      some ⟨[uA, uBig], some { addr := keyAddr, amount := ⟨9500000, []⟩ }, some 3000000⟩ := by
  refine ⟨?_, by decide +kernel⟩
  intro u hu v hv
  simp only [List.append_nil, List.cons_append, List.nil_append, List.mem_cons, List.not_mem_nil, or_false] at hu hv
  rcases hu with rfl | rfl | rfl <;> rcases hv with rfl | rfl | rfl <;> decide +kernel

/-- alone, the doubly reachable `uA` is now insufficient instead of being counted twice -/
example : errOf (run (cxParams 3) { stBase with inputs := [uA], addrUtxos := [uA] }) = some .insufficient := by
  decide +kernel

/-- `RefConsistent` cannot be dropped from `collat_distinct`: two entries sharing the reference `(aa, 0)` with
different outputs are unequal for `UTxO.__eq__`, and both are taken -/
theorem inconsistent_view_taken_twice :
    ¬ ∀ (p : Params) (st : State) (r : Result), st.explicit = [] → run p st = .ok r →
        (r.collaterals.map Utxo.ref).Nodup := by
  intro h
  have hr : run (cxParams 3) { stBase with inputs := [uA], addrUtxos := [uA'] } =
      .ok ⟨[uA, uA'], some { addr := keyAddr, amount := ⟨2100000, []⟩ }, some 3000000⟩ :=
    eq_ok_of_okResult (by decide +kernel)
  have := h _ _ _ rfl hr
  revert this; decide +kernel

/-- collateral listed twice by the caller is still summed twice while the body names it once: the distinctness of
explicit collateral is the caller's obligation (hypothesis `hd` of `collat_total_distinct_explicit`) -/
theorem explicit_duplicate_counted_twice :
    ¬ ∀ (p : Params) (st : State) (r : Result) (t : Int) (o : Output), run p st = .ok r → r.total = some t →
        r.ret = some o → coinSum (bodyCollateral r.collaterals) - o.amount.coin = t := by
  intro h
  have hr : run (cxParams 3) { stBase with explicit := [uA, uA] } =
      .ok ⟨[uA, uA], some { addr := keyAddr, amount := ⟨2000000, []⟩ }, some 3000000⟩ :=
    eq_ok_of_okResult (by decide +kernel)
  have := h _ _ _ 3000000 _ hr rfl rfl
  revert this; decide +kernel

/-! ## adequacy -/

/-- the declared total collateral is `⌈max_tx_fee · percent / 100⌉`, hence at least `percent` % of every fee up to
the maximum fee: the ledger's `collateral · 100 ≥ fee · percent` -/
theorem collat_percent (p : Params) (st : State) (r : Result) (t mf : Int) (h : run p st = .ok r)
    (ht : r.total = some t) (hm : maxTxFee p.fee st.refScriptSize = some mf) :
    t = ((mf + st.feeBuffer) * p.percent + 99) / 100 ∧ (mf + st.feeBuffer) * p.percent ≤ t * 100 ∧
    t * 100 ≤ (mf + st.feeBuffer) * p.percent + 99 ∧
    ∀ fee : Int, 0 ≤ p.percent → fee ≤ mf + st.feeBuffer → fee * p.percent ≤ t * 100 := by
  rcases run_ok p st r h with ⟨_, rfl⟩ | ⟨addr, amt, _, _, h3, h4⟩
  · cases ht
  · obtain ⟨mf', hm', ha⟩ := collateralAmount_eq _ _ _ _ h3
    rw [hm] at hm'; cases hm'
    obtain ⟨_, _, _, hr⟩ := finish_ok _ _ _ _ _ _ _ h4
    rcases hr with ⟨_, h', _⟩ | ⟨_, htot, _, _⟩
    · rw [h'] at ht; cases ht
    · rw [htot] at ht; cases ht
      subst ha
      refine ⟨rfl, by omega, by omega, ?_⟩
      intro fee hp hf
      have := Int.mul_le_mul_of_nonneg_right hf hp
      omega

/-- with or without a declared total: what is forfeitable (Σ collateral inputs − return, nothing returned when no
total is declared) is at least `percent` % of every fee up to the maximum fee -/
theorem collat_adequate (p : Params) (st : State) (r : Result) (addr : Bytes) (mf fee : Int) (h : run p st = .ok r)
    (hs : st.hasScripts = true) (hr : st.retAddr = some addr) (hm : maxTxFee p.fee st.refScriptSize = some mf)
    (hp : 0 ≤ p.percent) (hf : fee ≤ mf + st.feeBuffer) :
    fee * p.percent ≤ (coinSum r.collaterals - (match r.ret with | some o => o.amount.coin | none => 0)) * 100 := by
  have hc : collateralAmount p st.refScriptSize st.feeBuffer = some (((mf + st.feeBuffer) * p.percent + 99) / 100) := by
    simp [collateralAmount, hm]
  have hcov := collat_covers p st r addr _ h hs hr hc
  have hmul := Int.mul_le_mul_of_nonneg_right hf hp
  cases ht : r.total with
  | none =>
    have : r.ret = none := by
      have := ret_iff_total p st r h
      rw [ht] at this
      cases hret : r.ret with
      | none => rfl
      | some o => rw [hret] at this; cases this
    rw [this]
    simp only []
    omega
  | some t =>
    obtain ⟨o, ho, _, heq, _⟩ := collat_total p st r t h ht
    obtain ⟨_, h1, _, _⟩ := collat_percent p st r t mf h ht hm
    rw [ho]
    simp only []
    omega

/-! ## number of collateral inputs -/

/-- the limit holds for the builder's list itself, for automatic and for explicit collateral -/
theorem collat_limit (p : Params) (st : State) (r : Result) (h : run p st = .ok r) (hs : st.hasScripts = true)
    (hr : st.retAddr.isSome) : r.collaterals.length ≤ p.maxCollateralInputs := by
  rcases run_ok p st r h with ⟨h0 | h0, _⟩ | ⟨addr, amt, _, _, _, h4⟩
  · rw [hs] at h0; cases h0
  · rw [h0] at hr; cases hr
  · obtain ⟨hc, hl, _⟩ := finish_ok _ _ _ _ _ _ _ h4
    rw [hc]; exact hl

/-- a transaction that runs scripts, built with a return address and a positive collateral amount, names at least
one and at most `max_collateral_inputs` distinct collateral inputs -/
theorem collat_count (p : Params) (st : State) (r : Result) (amt : Int) (hs : st.hasScripts = true)
    (hr : st.retAddr.isSome) (hc : collateralAmount p st.refScriptSize st.feeBuffer = some amt) (hpos : 0 < amt)
    (h : run p st = .ok r) :
    1 ≤ (bodyCollateral r.collaterals).length ∧ (bodyCollateral r.collaterals).length ≤ p.maxCollateralInputs := by
  obtain ⟨addr, hr'⟩ := Option.isSome_iff_exists.1 hr
  have hcov := collat_covers p st r addr amt h hs hr' hc
  constructor
  · have hne : r.collaterals ≠ [] := by
      intro he; rw [he] at hcov; simp at hcov; omega
    have := bodyCollateral_ne_nil _ hne
    cases hb : bodyCollateral r.collaterals with
    | nil => exact absurd hb this
    | cons _ _ => simp
  · have h1 : (bodyCollateral r.collaterals).length ≤ r.collaterals.length := (dedupRef_sublist _ _).length_le
    have h2 := collat_limit p st r h hs hr
    omega

/-- regression witness of 81c8cba: inputs `uA` (2.5 ADA) and `uC` (2.6 ADA, one token) are both needed; with limit 1
the call is refused, with limit 2 it succeeds -/
example :
    errOf (run (cxParams 1) { stBase with inputs := [uA], potential := [uC] }) = some .tooMany ∧
    okResult (run (cxParams 2) { stBase with inputs := [uA], potential := [uC] }) =
      some ⟨[uA, uC], some { addr := keyAddr, amount := ⟨2100000, [([7], [([1], 5)])]⟩ }, some 3000000⟩ := by
  decide +kernel

/-- the selection is minimal along its walk — no input is appended once the running total is adequate.  For every
chosen input `u`, the inputs chosen before it (`pre`) left the loop condition true: their Σ was short of the
collateral amount, or a return was due for it (`shouldAdd`) that would not reach its minimum ADA (`needMore`, the
`while` condition of the code) -/
theorem collat_needed (p : Params) (st : State) (r : Result) (pre post : List Utxo) (u : Utxo)
    (ha : st.explicit = []) (h : run p st = .ok r) (hsplit : r.collaterals = pre ++ u :: post) :
    ∃ addr amt, st.retAddr = some addr ∧ collateralAmount p st.refScriptSize st.feeBuffer = some amt ∧
      needMore p.cpb amt st.threshold addr (sumAmounts pre) (subInt (sumAmounts pre) amt) = true := by
  rcases auto_collaterals p st r ha h with h0 | ⟨addr, amt, h1, h2, hc⟩
  · rw [h0] at hsplit; simp at hsplit
  · refine ⟨addr, amt, h1, h2, ?_⟩
    have hn := selectAuto_needed p.cpb amt st.threshold addr st
    rw [← hc, hsplit, neededChain_append] at hn
    exact hn.2.1

/-! ## the return output -/

/-- a collateral return output holds at least its minimum ADA -/
theorem return_min_ada (p : Params) (st : State) (r : Result) (o : Output) (h : run p st = .ok r)
    (ho : r.ret = some o) : minLovelace p.cpb o ≤ o.amount.coin := by
  rcases run_ok p st r h with ⟨_, rfl⟩ | ⟨addr, amt, _, _, _, h4⟩
  · cases ho
  · obtain ⟨_, _, _, hr⟩ := finish_ok _ _ _ _ _ _ _ h4
    rcases hr with ⟨h', _, _⟩ | ⟨hret, _, _, hm⟩
    · rw [h'] at ho; cases ho
    · rw [hret] at ho; cases ho
      exact hm

/-- a return output is only produced for more than max(threshold, 1 ADA), or when native assets have to go back -/
theorem return_threshold (p : Params) (st : State) (r : Result) (o : Output) (h : run p st = .ok r)
    (ho : r.ret = some o) :
    o.amount.coin > max st.threshold 1000000 ∨ MultiAsset.count o.amount.ma (fun _ _ q => decide (q > 0)) > 0 := by
  rcases run_ok p st r h with ⟨_, rfl⟩ | ⟨addr, amt, _, _, _, h4⟩
  · cases ho
  · obtain ⟨_, _, _, hr⟩ := finish_ok _ _ _ _ _ _ _ h4
    rcases hr with ⟨h', _, _⟩ | ⟨hret, _, hs, _⟩
    · rw [h'] at ho; cases ho
    · rw [hret] at ho; cases ho
      simpa [shouldAdd, retOutput] using hs

/-- conversely, no return means nothing worth returning: at most max(threshold, 1 ADA) is forfeited beyond the
collateral amount -/
theorem no_return_small (p : Params) (st : State) (r : Result) (addr : Bytes) (amt : Int) (h : run p st = .ok r)
    (hs : st.hasScripts = true) (hr : st.retAddr = some addr) (hc : collateralAmount p st.refScriptSize st.feeBuffer = some amt)
    (hn : r.ret = none) :
    coinSum r.collaterals - amt ≤ max st.threshold 1000000 := by
  rcases run_ok p st r h with ⟨h0 | h0, _⟩ | ⟨addr', amt', _, _, h3, h4⟩
  · rw [hs] at h0; cases h0
  · rw [hr] at h0; cases h0
  · rw [hc] at h3; cases h3
    obtain ⟨hcols, _, _, hr'⟩ := finish_ok _ _ _ _ _ _ _ h4
    rcases hr' with ⟨_, _, hsa⟩ | ⟨hret, _, _, _⟩
    · rw [hcols]
      simp only [shouldAdd, Bool.or_eq_false_iff, decide_eq_false_iff_not, subInt_coin, sumAmounts_coin] at hsa
      omega
    · rw [hret] at hn; cases hn

/-- the selection loop terminates: `walk` is structurally recursive on the candidate list (every iteration pops
one candidate; no fuel), and it appends at most one collateral input per candidate -/
theorem loop_terminates (cpb amt thr : Int) (addr : Bytes) (cs : List Utxo) (total ret : Value) (chosen : List Utxo) :
    (walk cpb amt thr addr cs total ret chosen).2.length ≤ chosen.length + cs.length := by
  obtain ⟨ys, h1, h2, _, _⟩ := walk_spec cpb amt thr addr cs total ret chosen
  rw [h1, List.length_append]
  have := h2.length_le
  omega

/-- the candidates are handed out from the end of the key-sorted list, and sorting loses or invents nothing -/
theorem pop_order (l : List Utxo) :
    popOrder l = (sortCands l).reverse ∧ (sortCands l).Pairwise (fun a b => Collateral.keyLe a b = true) ∧
    (sortCands l).Perm l :=
  ⟨rfl, sortCands_sorted l, sortCands_perm l⟩

/-! ## non-vacuity -/

/-- a wallet with candidates in all three lists, a script-locked candidate and one of exactly 2 ADA: the run
succeeds with a return and a declared total, the script-locked and the 2-ADA candidates are passed over, and the
equations of `collat_total` / `collat_percent` are the concrete numbers -/
example :
    let uS : Utxo := { txid := [0xdd], ix := 0, out := { addr := [0x70, 9], amount := ⟨50000000, []⟩ } }
    let u2 : Utxo := { txid := [0xee], ix := 0, out := { addr := keyAddr, amount := ⟨2000000, []⟩ } }
    let st : State := { stBase with inputs := [uS, u2], potential := [uA], addrUtxos := [uC, uBig] }
    collateralAmount (cxParams 3) st.refScriptSize = some 3000000 ∧
    okResult (run (cxParams 3) st) =
      some ⟨[uA, uC], some { addr := keyAddr, amount := ⟨2100000, [([7], [([1], 5)])]⟩ }, some 3000000⟩ ∧
    coinSum [uA, uC] - 2100000 = 3000000 ∧ qtySum [uA, uC] [7] [1] = 5 := by
  decide +kernel

/-- rounding up: max fee 2 000 001 at 150 % requires 3 000 001.5, the declared total is 3 000 002 -/
example :
    okResult (run { fee := cxFee 2000001, percent := 150, cpb := 4310, maxCollateralInputs := 3 }
      { stBase with inputs := [uBig] }) =
      some ⟨[uBig], some { addr := keyAddr, amount := ⟨6999998, []⟩ }, some 3000002⟩ := by
  decide +kernel

/-- explicit collateral skips the selection; an insufficient one is refused, too many are refused -/
example :
    okResult (run (cxParams 3) { stBase with inputs := [uA], explicit := [uBig] }) =
      some ⟨[uBig], some { addr := keyAddr, amount := ⟨7000000, []⟩ }, some 3000000⟩ ∧
    errOf (run (cxParams 3) { stBase with explicit := [uA] }) = some .insufficient ∧
    errOf (run (cxParams 1) { stBase with explicit := [uA, uBig] }) = some .tooMany ∧
    errOf (run (cxParams 3) { stBase with addrUtxos := [uC] }) = some .insufficient ∧
    okResult (run (cxParams 3) { stBase with inputs := [uBig], hasScripts := false }) = some ⟨[], none, none⟩ := by
  decide +kernel

end Pyc.C13

#print axioms Pyc.C13.auto_collaterals
#print axioms Pyc.C13.collat_key_locked
#print axioms Pyc.C13.collat_from_candidates
#print axioms Pyc.C13.ret_iff_total
#print axioms Pyc.C13.collat_total
#print axioms Pyc.C13.collat_covers
#print axioms Pyc.C13.collat_distinct
#print axioms Pyc.C13.body_is_list
#print axioms Pyc.C13.collat_total_distinct
#print axioms Pyc.C13.collat_total_distinct_explicit
#print axioms Pyc.C13.collat_covers_distinct
#print axioms Pyc.C13.body_distinct
#print axioms Pyc.C13.inconsistent_view_taken_twice
#print axioms Pyc.C13.explicit_duplicate_counted_twice
#print axioms Pyc.C13.collat_percent
#print axioms Pyc.C13.collat_adequate
#print axioms Pyc.C13.collat_limit
#print axioms Pyc.C13.collat_count
#print axioms Pyc.C13.collat_needed
#print axioms Pyc.C13.return_min_ada
#print axioms Pyc.C13.return_threshold
#print axioms Pyc.C13.no_return_small
#print axioms Pyc.C13.loop_terminates
#print axioms Pyc.C13.pop_order
