import Pyc.Proofs.Collateral

/-! # C13 — collateral is adequate, key-locked and balanced

Property theorems only.  The model (`Pyc/Model/Collateral.lean`) transliterates `_should_add_collateral_return`,
`_set_collateral_return` and the collateral field of `_build_tx_body` of pycardano/txbuilder.py.
`run p st = .ok r`: the call returned; `r.collaterals` is `builder.collaterals` (a list, WITH multiplicity),
`bodyCollateral r.collaterals` is what the transaction body names (the ordered set drops repeats: what the ledger
sees), `r.ret` / `r.total` are `_collateral_return` / `_total_collateral`.  `coinSum` / `qtySum` are Σ over a list.
`st.explicit = []` = the collateral is chosen automatically.

Four statements of the property are FALSE of the code as it is; they are kept as `_goal`, with the proved
`_partial` under an explicit extra hypothesis and a machine-checked `_counterexample`:
* `collat_distinct` / `collat_total_distinct`: the three candidate lists are walked without a seen-set;
* `collat_count`: `max_collateral_inputs` is never read;
* `collat_percent`: `* percent // 100` floors where the ledger's `collateral * 100 ≥ fee * percent` needs the ceiling
  (off by less than one lovelace, only when the fee equals `max_tx_fee`).
The fee of the transaction is not part of the model: the adequacy theorems quantify over every `fee ≤ max_tx_fee`.
(`builder.fee_buffer` can push the fee of a built transaction above `max_tx_fee`: finding KF-C13-fee-buffer of the
harness, outside this hypothesis.)  Collateral supplied by the caller (`st.explicit ≠ []`) is passed through
unchecked; `collat_total`, `collat_covers`, `collat_percent`, `return_*` hold for it as well. -/

namespace Pyc.C13
open Pyc Pyc.Collateral

/-- automatic selection: either nothing was selected (early return) or the collateral is `selectAuto` -/
theorem auto_collaterals (p : Params) (st : State) (r : Result) (ha : st.explicit = []) (h : run p st = .ok r) :
    r.collaterals = [] ∨
    ∃ addr amt, st.retAddr = some addr ∧ collateralAmount p st.refScriptSize = some amt ∧
      r.collaterals = selectAuto p.cpb amt st.threshold addr st := by
  rcases run_ok p st r h with ⟨_, rfl⟩ | ⟨addr, amt, _, h2, h3, h4⟩
  · exact Or.inl ha
  · right
    rw [colsOf_auto p st addr amt ha] at h4
    exact ⟨addr, amt, h2, h3, (finish_ok _ _ _ _ _ _ h4).1⟩

/-- automatically chosen collateral inputs are never at script addresses and hold more than 2 ADA -/
theorem collat_key_locked (p : Params) (st : State) (r : Result) (ha : st.explicit = []) (h : run p st = .ok r) :
    ∀ u ∈ r.collaterals, scriptLocked u.out.addr = false ∧ u.out.amount.coin > 2000000 := by
  intro u hu
  rcases auto_collaterals p st r ha h with h0 | ⟨addr, amt, _, _, hc⟩
  · rw [h0] at hu; cases hu
  · rw [hc] at hu
    have := selectAuto_eligible _ _ _ _ _ u hu
    simpa [eligible] using this

/-- each automatically chosen collateral input comes from one of the three candidate lists -/
theorem collat_from_candidates (p : Params) (st : State) (r : Result) (ha : st.explicit = []) (h : run p st = .ok r) :
    ∀ u ∈ r.collaterals, u ∈ st.inputs ∨ u ∈ st.potential ∨ u ∈ st.addrUtxos := by
  intro u hu
  rcases auto_collaterals p st r ha h with h0 | ⟨addr, amt, _, _, hc⟩
  · rw [h0] at hu; cases hu
  · rw [hc] at hu
    have := (selectAuto_sublist _ _ _ _ _).subset hu
    simp only [List.mem_append, mem_popOrder] at this
    rcases this with (h | h) | h
    · exact Or.inl h
    · exact Or.inr (Or.inl h)
    · exact Or.inr (Or.inr h)

/-- a return output and a declared total come together -/
theorem ret_iff_total (p : Params) (st : State) (r : Result) (h : run p st = .ok r) :
    r.ret.isSome = r.total.isSome := by
  rcases run_ok p st r h with ⟨_, rfl⟩ | ⟨addr, amt, _, _, _, h4⟩
  · rfl
  · rcases (finish_ok _ _ _ _ _ _ h4).2.2 with ⟨h1, h2, _⟩ | ⟨h1, h2, _⟩ <;> simp [h1, h2]

/-- when a total collateral is declared: a return output exists, it goes to the return address,
Σ collateral inputs (as the LIST the builder holds, with multiplicity) − return = total in ADA, and the return
carries exactly Σ of every native asset -/
theorem collat_total (p : Params) (st : State) (r : Result) (t : Int) (h : run p st = .ok r)
    (ht : r.total = some t) :
    ∃ o, r.ret = some o ∧ st.retAddr = some o.addr ∧ coinSum r.collaterals - o.amount.coin = t ∧
      ((∀ u ∈ r.collaterals, Value.WF u.out.amount) → ∀ pol n, Value.qty o.amount pol n = qtySum r.collaterals pol n) := by
  rcases run_ok p st r h with ⟨_, rfl⟩ | ⟨addr, amt, _, h2, _, h4⟩
  · cases ht
  · generalize colsOf p st addr amt = cols at h4
    obtain ⟨hc, _, hr⟩ := finish_ok _ _ _ _ _ _ h4
    rcases hr with ⟨_, h', _⟩ | ⟨hret, htot, _, _⟩
    · rw [h'] at ht; cases ht
    · rw [htot] at ht; cases ht
      rw [hc]
      refine ⟨_, hret, h2, ?_, ?_⟩
      · simp only [retOutput, subInt_coin, sumAmounts_coin]; omega
      · intro hw pol n
        obtain ⟨w, q⟩ := sumAmounts_qty cols hw
        simp only [retOutput]
        rw [subInt_qty _ _ w, q]

/-- without a declared total nothing is returned: the whole Σ is forfeitable, and it covers the collateral amount -/
theorem collat_covers (p : Params) (st : State) (r : Result) (addr : Bytes) (amt : Int) (h : run p st = .ok r)
    (hs : st.hasScripts = true) (hr : st.retAddr = some addr) (hc : collateralAmount p st.refScriptSize = some amt) :
    amt ≤ coinSum r.collaterals := by
  rcases run_ok p st r h with ⟨h0 | h0, _⟩ | ⟨addr', amt', _, _, h3, h4⟩
  · rw [hs] at h0; cases h0
  · rw [hr] at h0; cases h0
  · rw [hc] at h3; cases h3
    obtain ⟨hcols, hle, _⟩ := finish_ok _ _ _ _ _ _ h4
    rw [hcols]; exact hle

/-! ## distinctness -/

/-- GOAL: the automatically chosen collateral inputs are pairwise distinct UTxOs. -/
def collat_distinct_goal : Prop :=
  ∀ (p : Params) (st : State) (r : Result), st.explicit = [] → run p st = .ok r → (r.collaterals.map Utxo.ref).Nodup

/-- proved part: when no UTxO is reachable twice through the candidate lists (pairwise disjoint, each without
repeats), the chosen collateral inputs are pairwise distinct -/
theorem collat_distinct_partial (p : Params) (st : State) (r : Result) (ha : st.explicit = [])
    (hd : ((st.inputs ++ st.potential ++ st.addrUtxos).map Utxo.ref).Nodup) (h : run p st = .ok r) :
    (r.collaterals.map Utxo.ref).Nodup := by
  rcases auto_collaterals p st r ha h with h0 | ⟨addr, amt, _, _, hc⟩
  · rw [h0]; simp
  · rw [hc]
    have hs := (selectAuto_sublist p.cpb amt st.threshold addr st).map Utxo.ref
    have hp := (popOrders_perm st).map Utxo.ref
    exact (hp.symm.nodup hd).sublist hs

/-! concrete witnesses: fee parameters with `max_tx_fee = 2 000 000` (constant term only), 150 %:
collateral amount 3 000 000; `uA` (2.5 ADA) and `uC` (2.6 ADA) sit at an enterprise key address -/

def cxFee (b : Int) : FeeParams :=
  { a := ⟨0, 1⟩, b := ⟨b, 1⟩, priceStep := ⟨0, 1⟩, priceMem := ⟨0, 1⟩, maxTxSize := 16384, maxTxExSteps := 0,
    maxTxExMem := 0 }
def cxParams : Params := { fee := cxFee 2000000, percent := 150, cpb := 4310, maxCollateralInputs := 1 }
def keyAddr : Bytes := [0x60, 1, 2, 3]
def uA : Utxo := { txid := [0xaa], ix := 0, out := { addr := keyAddr, amount := ⟨2500000, []⟩ } }
def uC : Utxo := { txid := [0xcc], ix := 1, out := { addr := keyAddr, amount := ⟨2600000, [([7], [([1], 5)])]⟩ } }
def uBig : Utxo := { txid := [0xbb], ix := 0, out := { addr := keyAddr, amount := ⟨10000000, []⟩ } }

/-- `uA` is a transaction input and also one of the UTxOs the chain index lists at the return address -/
def stDup : State :=
  { inputs := [uA], potential := [], addrUtxos := [uA], explicit := [], hasScripts := true, retAddr := some keyAddr,
    threshold := 1000000, refScriptSize := 0 }

/-- `builder.collaterals = [uA, uA]`, return 2 000 000, declared total 3 000 000 — from one UTxO of 2 500 000 -/
theorem stDup_run : run cxParams stDup =
    .ok ⟨[uA, uA], some { addr := keyAddr, amount := ⟨2000000, []⟩ }, some 3000000⟩ :=
  eq_ok_of_okResult (by decide +kernel)

theorem collat_distinct_counterexample : ¬ collat_distinct_goal := by
  intro h
  have := h cxParams stDup _ rfl stDup_run
  revert this; decide +kernel

/-- GOAL: the balance the ledger computes — Σ over the DISTINCT collateral inputs of the body − return — equals the
declared total collateral. -/
def collat_total_distinct_goal : Prop :=
  ∀ (p : Params) (st : State) (r : Result) (t : Int) (o : Output), st.explicit = [] → run p st = .ok r →
    r.total = some t → r.ret = some o → coinSum (bodyCollateral r.collaterals) - o.amount.coin = t

/-- proved part: under disjoint candidate lists the body names exactly the builder's list, and the ledger's balance
is the declared total; the return carries exactly the assets of the distinct inputs -/
theorem collat_total_distinct_partial (p : Params) (st : State) (r : Result) (t : Int) (o : Output)
    (ha : st.explicit = []) (hd : ((st.inputs ++ st.potential ++ st.addrUtxos).map Utxo.ref).Nodup)
    (h : run p st = .ok r) (ht : r.total = some t) (ho : r.ret = some o) :
    bodyCollateral r.collaterals = r.collaterals ∧
    coinSum (bodyCollateral r.collaterals) - o.amount.coin = t ∧
    ((∀ u ∈ r.collaterals, Value.WF u.out.amount) →
      ∀ pol n, Value.qty o.amount pol n = qtySum (bodyCollateral r.collaterals) pol n) := by
  have hb := bodyCollateral_of_nodup _ (collat_distinct_partial p st r ha hd h)
  obtain ⟨o', h1, _, h3, h4⟩ := collat_total p st r t h ht
  rw [ho] at h1; cases h1
  rw [hb]
  exact ⟨rfl, h3, h4⟩

theorem collat_total_distinct_counterexample : ¬ collat_total_distinct_goal := by
  intro h
  have := h cxParams stDup _ 3000000 { addr := keyAddr, amount := ⟨2000000, []⟩ } rfl stDup_run rfl rfl
  revert this; decide +kernel

/-- whatever the lists, the body itself names pairwise distinct inputs, each of them one of the builder's, and
every UTxO of the builder's list is named -/
theorem body_distinct (cols : List Utxo) :
    ((bodyCollateral cols).map Utxo.ref).Nodup ∧ (bodyCollateral cols).Sublist cols ∧
    ∀ u ∈ cols, ∃ v ∈ bodyCollateral cols, v.ref = u.ref :=
  ⟨(dedupRef_nodup cols []).1, dedupRef_sublist cols [], fun u hu => dedupRef_mem cols [] u hu (by simp)⟩

/-! ## adequacy -/

/-- what is exactly true of the declared total with the floor division of the code: it is
`max_tx_fee * percent // 100`, i.e. within 99/100 of a lovelace below `max_tx_fee * percent / 100`; hence for every
fee up to the maximum fee `fee * percent < total * 100 + 100` (the ledger's inequality can fail by less than one
lovelace, see `collat_percent_counterexample`) -/
theorem collat_percent (p : Params) (st : State) (r : Result) (t mf : Int) (h : run p st = .ok r)
    (ht : r.total = some t) (hm : maxTxFee p.fee st.refScriptSize = some mf) :
    t = mf * p.percent / 100 ∧ mf * p.percent - 99 ≤ t * 100 ∧ t * 100 ≤ mf * p.percent ∧
    ∀ fee : Int, 0 ≤ p.percent → fee ≤ mf → fee * p.percent < t * 100 + 100 := by
  rcases run_ok p st r h with ⟨_, rfl⟩ | ⟨addr, amt, _, _, h3, h4⟩
  · cases ht
  · obtain ⟨mf', hm', ha⟩ := collateralAmount_eq _ _ _ h3
    rw [hm] at hm'; cases hm'
    obtain ⟨_, _, hr⟩ := finish_ok _ _ _ _ _ _ h4
    rcases hr with ⟨_, h', _⟩ | ⟨_, htot, _, _⟩
    · rw [h'] at ht; cases ht
    · rw [htot] at ht; cases ht
      subst ha
      refine ⟨rfl, by omega, by omega, ?_⟩
      intro fee hp hf
      have := Int.mul_le_mul_of_nonneg_right hf hp
      omega

/-- GOAL: the declared total collateral is at least `percent` % of every fee up to the maximum fee. -/
def collat_percent_goal : Prop :=
  ∀ (p : Params) (st : State) (r : Result) (t mf fee : Int), run p st = .ok r → r.total = some t →
    maxTxFee p.fee st.refScriptSize = some mf → 0 ≤ p.percent → fee ≤ mf → fee * p.percent ≤ t * 100

/-- proved part: it holds when `max_tx_fee * percent` is a multiple of 100, and for every fee strictly below the
maximum fee as soon as `percent ≥ 99` (every real transaction: the fee reaches `max_tx_fee` only for a transaction
of maximal size using all execution units) -/
theorem collat_percent_partial (p : Params) (st : State) (r : Result) (t mf fee : Int) (h : run p st = .ok r)
    (ht : r.total = some t) (hm : maxTxFee p.fee st.refScriptSize = some mf) (hp : 0 ≤ p.percent) (hf : fee ≤ mf)
    (hx : (mf * p.percent) % 100 = 0 ∨ (fee < mf ∧ 99 ≤ p.percent)) : fee * p.percent ≤ t * 100 := by
  obtain ⟨h1, h2, h3, _⟩ := collat_percent p st r t mf h ht hm
  have hmul := Int.mul_le_mul_of_nonneg_right hf hp
  rcases hx with hx | ⟨hlt, h99⟩
  · omega
  · have : (fee + 1) * p.percent ≤ mf * p.percent := Int.mul_le_mul_of_nonneg_right (by omega) hp
    have e : (fee + 1) * p.percent = fee * p.percent + p.percent := by rw [Int.add_mul]; omega
    omega

def stBig (b : Int) : Params × State :=
  ({ fee := cxFee b, percent := 150, cpb := 4310, maxCollateralInputs := 3 },
   { inputs := [uBig], potential := [], addrUtxos := [], explicit := [], hasScripts := true, retAddr := some keyAddr,
     threshold := 1000000, refScriptSize := 0 })

/-- max fee 2 000 001, 150 %: total 3 000 001 where 3 000 001.5 is required of a fee equal to the maximum fee -/
theorem collat_percent_counterexample : ¬ collat_percent_goal := by
  intro h
  have hr : run (stBig 2000001).1 (stBig 2000001).2 =
      .ok ⟨[uBig], some { addr := keyAddr, amount := ⟨6999999, []⟩ }, some 3000001⟩ :=
    eq_ok_of_okResult (by decide +kernel)
  have := h _ _ _ 3000001 2000001 2000001 hr rfl (by decide +kernel) (by decide) (by decide)
  revert this; decide

/-! ## number of collateral inputs -/

/-- GOAL: a transaction that runs scripts, built with a return address and a positive collateral amount, names at
least one and at most `max_collateral_inputs` distinct collateral inputs. -/
def collat_count_goal : Prop :=
  ∀ (p : Params) (st : State) (r : Result) (amt : Int), st.explicit = [] → st.hasScripts = true → st.retAddr.isSome →
    collateralAmount p st.refScriptSize = some amt → 0 < amt → run p st = .ok r →
    1 ≤ (bodyCollateral r.collaterals).length ∧ (bodyCollateral r.collaterals).length ≤ p.maxCollateralInputs

/-- proved part: at least one collateral input always; at most `max_collateral_inputs` when the candidate lists
hold no more than that many eligible UTxOs (key-locked, more than 2 ADA) — the code itself never stops at the limit -/
theorem collat_count_partial (p : Params) (st : State) (r : Result) (amt : Int) (ha : st.explicit = [])
    (hs : st.hasScripts = true) (hr : st.retAddr.isSome) (hc : collateralAmount p st.refScriptSize = some amt)
    (hpos : 0 < amt) (h : run p st = .ok r) :
    1 ≤ (bodyCollateral r.collaterals).length ∧
    ((st.inputs ++ st.potential ++ st.addrUtxos).countP eligible ≤ p.maxCollateralInputs →
      (bodyCollateral r.collaterals).length ≤ p.maxCollateralInputs) := by
  obtain ⟨addr, hr'⟩ := Option.isSome_iff_exists.1 hr
  have hcov := collat_covers p st r addr amt h hs hr' hc
  constructor
  · have hne : r.collaterals ≠ [] := by
      intro he; rw [he] at hcov; simp at hcov; omega
    have := bodyCollateral_ne_nil _ hne
    cases hb : bodyCollateral r.collaterals with
    | nil => exact absurd hb this
    | cons _ _ => simp
  · intro hle
    have h1 : (bodyCollateral r.collaterals).length ≤ r.collaterals.length := (dedupRef_sublist _ _).length_le
    rcases auto_collaterals p st r ha h with h0 | ⟨addr', amt', _, _, hcols⟩
    · rw [h0]; simp [bodyCollateral, dedupRef]
    · have hsub := selectAuto_sublist p.cpb amt' st.threshold addr' st
      have hel := selectAuto_eligible p.cpb amt' st.threshold addr' st
      have h2 : (selectAuto p.cpb amt' st.threshold addr' st).length
          ≤ (popOrder st.inputs ++ popOrder st.potential ++ popOrder st.addrUtxos).countP eligible := by
        have := hsub.countP_le (p := eligible)
        rw [List.countP_eq_length.2 (by simpa using hel)] at this
        exact this
      rw [(popOrders_perm st).countP_eq] at h2
      rw [hcols] at h1 ⊢
      omega

/-- what the selection does guarantee about the number of inputs: it is minimal along its walk — no input is
appended once the running total is adequate.  For every chosen input `u`, the inputs chosen before it (`pre`) left
the loop condition true: their Σ was short of the collateral amount, or a return was due for it
(`shouldAdd`) that would not reach its minimum ADA (`needMore`, the `while` condition of the code) -/
theorem collat_needed (p : Params) (st : State) (r : Result) (pre post : List Utxo) (u : Utxo)
    (ha : st.explicit = []) (h : run p st = .ok r) (hsplit : r.collaterals = pre ++ u :: post) :
    ∃ addr amt, st.retAddr = some addr ∧ collateralAmount p st.refScriptSize = some amt ∧
      needMore p.cpb amt st.threshold addr (sumAmounts pre) (subInt (sumAmounts pre) amt) = true := by
  rcases auto_collaterals p st r ha h with h0 | ⟨addr, amt, h1, h2, hc⟩
  · rw [h0] at hsplit; simp at hsplit
  · refine ⟨addr, amt, h1, h2, ?_⟩
    have hn := selectAuto_needed p.cpb amt st.threshold addr st
    rw [← hc, hsplit, neededChain_append] at hn
    exact hn.2.1

/-- inputs `uA` (2.5 ADA) and `uC` (2.6 ADA, one token), limit 1: both are chosen -/
def stTwo : State :=
  { inputs := [uA], potential := [uC], addrUtxos := [], explicit := [], hasScripts := true, retAddr := some keyAddr,
    threshold := 1000000, refScriptSize := 0 }

theorem collat_count_counterexample : ¬ collat_count_goal := by
  intro h
  have hr : run cxParams stTwo =
      .ok ⟨[uA, uC], some { addr := keyAddr, amount := ⟨2100000, [([7], [([1], 5)])]⟩ }, some 3000000⟩ :=
    eq_ok_of_okResult (by decide +kernel)
  have := (h cxParams stTwo _ 3000000 rfl rfl rfl (by decide +kernel) (by decide) hr).2
  revert this; decide +kernel

/-! ## the return output -/

/-- a collateral return output holds at least its minimum ADA -/
theorem return_min_ada (p : Params) (st : State) (r : Result) (o : Output) (h : run p st = .ok r)
    (ho : r.ret = some o) : minLovelace p.cpb o ≤ o.amount.coin := by
  rcases run_ok p st r h with ⟨_, rfl⟩ | ⟨addr, amt, _, _, _, h4⟩
  · cases ho
  · obtain ⟨_, _, hr⟩ := finish_ok _ _ _ _ _ _ h4
    rcases hr with ⟨h', _, _⟩ | ⟨hret, _, _, hm⟩
    · rw [h'] at ho; cases ho
    · rw [hret] at ho; cases ho
      exact hm

/-- a return output is only produced for more than max(threshold, 1 ADA), or when native assets have to go back -/
theorem return_threshold (p : Params) (st : State) (r : Result) (o : Output) (h : run p st = .ok r)
    (ho : r.ret = some o) :
    o.amount.coin > max st.threshold 1000000 ∨ MultiAsset.count o.amount.ma (fun _ _ q => decide (q > 0)) > 0 := by
  rcases run_ok p st r h with ⟨_, rfl⟩ | ⟨addr, amt, _, _, _, h4⟩
  · cases ho
  · obtain ⟨_, _, hr⟩ := finish_ok _ _ _ _ _ _ h4
    rcases hr with ⟨h', _, _⟩ | ⟨hret, _, hs, _⟩
    · rw [h'] at ho; cases ho
    · rw [hret] at ho; cases ho
      simpa [shouldAdd, retOutput] using hs

/-- conversely, no return means nothing worth returning: at most max(threshold, 1 ADA) is forfeited beyond the
collateral amount and no native asset is burnt (all collateral inputs well-formed) -/
theorem no_return_small (p : Params) (st : State) (r : Result) (addr : Bytes) (amt : Int) (h : run p st = .ok r)
    (hs : st.hasScripts = true) (hr : st.retAddr = some addr) (hc : collateralAmount p st.refScriptSize = some amt)
    (hn : r.ret = none) :
    coinSum r.collaterals - amt ≤ max st.threshold 1000000 := by
  rcases run_ok p st r h with ⟨h0 | h0, _⟩ | ⟨addr', amt', _, _, h3, h4⟩
  · rw [hs] at h0; cases h0
  · rw [hr] at h0; cases h0
  · rw [hc] at h3; cases h3
    obtain ⟨hcols, _, hr'⟩ := finish_ok _ _ _ _ _ _ h4
    rcases hr' with ⟨_, _, hsa⟩ | ⟨hret, _, _, _⟩
    · rw [hcols]
      simp only [shouldAdd, Bool.or_eq_false_iff, decide_eq_false_iff_not, subInt_coin, sumAmounts_coin] at hsa
      omega
    · rw [hret] at hn; cases hn

/-- the selection loop terminates: `walk` is structurally recursive on the candidate list (every iteration pops
one candidate; no fuel), and it appends at most one collateral input per candidate -/
theorem loop_terminates (cpb amt thr : Int) (addr : Bytes) (cs : List Utxo) (total ret : Value) (chosen : List Utxo) :
    (walk cpb amt thr addr cs total ret chosen).2.length ≤ chosen.length + cs.length := by
  obtain ⟨ys, h1, h2, _, _⟩ := walk_spec cpb amt thr addr cs total ret chosen
  rw [h1, List.length_append]
  have := h2.length_le
  omega

/-- the candidates are handed out from the end of the key-sorted list, and sorting loses or invents nothing -/
theorem pop_order (l : List Utxo) :
    popOrder l = (sortCands l).reverse ∧ (sortCands l).Pairwise (fun a b => Collateral.keyLe a b = true) ∧
    (sortCands l).Perm l :=
  ⟨rfl, sortCands_sorted l, sortCands_perm l⟩

/-! ## non-vacuity -/

/-- a wallet with pairwise distinct candidates in all three lists, a script-locked candidate and one of exactly
2 ADA: the hypotheses of every `_partial` theorem hold, the run succeeds with a return and a declared total, the
script-locked and the 2-ADA candidates are passed over, and the equations of `collat_total` are the concrete numbers -/
example :
    let uS : Utxo := { txid := [0xdd], ix := 0, out := { addr := [0x70, 9], amount := ⟨50000000, []⟩ } }
    let u2 : Utxo := { txid := [0xee], ix := 0, out := { addr := keyAddr, amount := ⟨2000000, []⟩ } }
    let st : State := { inputs := [uS, u2], potential := [uA], addrUtxos := [uC, uBig], explicit := [], hasScripts := true,
                        retAddr := some keyAddr, threshold := 1000000, refScriptSize := 0 }
    ((st.inputs ++ st.potential ++ st.addrUtxos).map Utxo.ref).Nodup ∧
    (st.inputs ++ st.potential ++ st.addrUtxos).countP eligible ≤ 3 ∧
    collateralAmount cxParams st.refScriptSize = some 3000000 ∧
    okResult (run cxParams st) =
      some ⟨[uA, uC], some { addr := keyAddr, amount := ⟨2100000, [([7], [([1], 5)])]⟩ }, some 3000000⟩ ∧
    coinSum [uA, uC] - 2100000 = 3000000 ∧ qtySum [uA, uC] [7] [1] = 5 := by
  decide +kernel

/-- explicit collateral skips the selection; an insufficient one is refused -/
example :
    okResult (run cxParams { stDup with explicit := [uBig] }) =
      some ⟨[uBig], some { addr := keyAddr, amount := ⟨7000000, []⟩ }, some 3000000⟩ ∧
    errOf (run cxParams { stDup with explicit := [uA] }) = some .insufficient ∧
    errOf (run cxParams { stDup with inputs := [], addrUtxos := [uC] }) = some .insufficient ∧
    okResult (run cxParams { stDup with hasScripts := false }) = some ⟨[], none, none⟩ := by
  decide +kernel

end Pyc.C13

#print axioms Pyc.C13.auto_collaterals
#print axioms Pyc.C13.collat_key_locked
#print axioms Pyc.C13.collat_from_candidates
#print axioms Pyc.C13.ret_iff_total
#print axioms Pyc.C13.collat_total
#print axioms Pyc.C13.collat_covers
#print axioms Pyc.C13.collat_distinct_partial
#print axioms Pyc.C13.stDup_run
#print axioms Pyc.C13.collat_distinct_counterexample
#print axioms Pyc.C13.collat_total_distinct_partial
#print axioms Pyc.C13.collat_total_distinct_counterexample
#print axioms Pyc.C13.body_distinct
#print axioms Pyc.C13.collat_percent
#print axioms Pyc.C13.collat_percent_partial
#print axioms Pyc.C13.collat_percent_counterexample
#print axioms Pyc.C13.collat_count_partial
#print axioms Pyc.C13.collat_count_counterexample
#print axioms Pyc.C13.collat_needed
#print axioms Pyc.C13.return_min_ada
#print axioms Pyc.C13.return_threshold
#print axioms Pyc.C13.no_return_small
#print axioms Pyc.C13.loop_terminates
#print axioms Pyc.C13.pop_order
