import Pyc.Proofs.CborAll
import Pyc.Proofs.Codec
import Pyc.Proofs.Typed
import Pyc.Proofs.CustomCodec
import Pyc.Generated.Schema

/-! # C03 — transaction identity survives decode and re-encode

The wire variants the property lists are all *values of the model*: an ordered set carries its tag flag
(`Val.oset tagged xs`), an output is a legacy array object or a map object, optional fields are present or `None`,
Plutus data and other hand-written codecs are carried as their CBOR item (`Val.opaque`), in which definite and
indefinite arrays and chunked byte strings are different items.  So "received bytes" = `encodeVal S v` for some typed
`v`, and the theorems say: decoding those bytes and serializing the result again yields the same bytes — hence any
function of the bytes, the BLAKE2b-256 id included, is unchanged.

* `cbor_bytes_roundtrip` — byte level: every well-formed item (indefinite arrays, chunked strings, tags) decodes
  from its encoding with its framing intact.
* `reencode_same_bytes` — decode (CBOR, then typed restoration) ∘ encode is the identity on bytes for every typed value
  of every schema table, in particular the regenerated `repoSchema`.
* `id_preserved` — for any hash function.
* `set_form_preserved`, `optional_subset_preserved` — the wire choices are part of the restored value.
* `value_reencode_bytes`, `output_reencode`, `body_reencode`, `body_set_field_*` — the hand-written codecs
  (`Model/CustomCodec.lean`): decoding the bytes of a value / an output / a body and serializing the result again gives
  the same bytes — for an output ALWAYS (whatever the `post_alonzo` flag, the datum / script combination or the form),
  for a body for the tagged and the untagged wire form of every set-valued field.
The C extension back end and the interpreter hash seed are outside any model of the Python code: they are exercised
on the implementation in sub-processes (see DESIGN.md). -/

namespace Pyc.C03
open Pyc Pyc.Codec Pyc.Cbor Pyc.Schema Pyc.Generated Pyc.Custom

/-- byte-level CBOR round trip with framing -/
theorem cbor_bytes_roundtrip (x : Item) (hw : WF x) : decodeAll (encode x) = some x := decodeAll_encode x hw

/-- definite and indefinite framing are different items with different bytes: the model cannot confuse them -/
theorem framing_distinct (xs : List Item) : encode (.array xs) ≠ encode (.arrayIndef xs) := by
  intro h
  have h1 : (encode (.array xs)).length = (head 4 xs.length).length + (encodeList xs).length := by
    simp [encode]
  cases xs with
  | nil => simp [encode, encodeList, head] at h
  | cons x xs =>
    -- first bytes differ: major type 4 head never starts with 0x9f for a definite length
    simp only [encode] at h
    have hh : ∀ n, ∃ b t, head 4 n = b :: t ∧ b ≠ 0x9f := by
      intro n
      unfold head; simp only []
      split
      · rename_i hlt
        refine ⟨_, _, rfl, ?_⟩
        intro he
        have := congrArg UInt8.toNat he
        rw [u8_toNat_ofNat _ (by omega)] at this
        simp at this; omega
      · split
        · exact ⟨_, _, rfl, by decide⟩
        · split
          · exact ⟨_, _, rfl, by decide⟩
          · split
            · exact ⟨_, _, rfl, by decide⟩
            · exact ⟨_, _, rfl, by decide⟩
    obtain ⟨b, t, hb, hne⟩ := hh (x :: xs).length
    rw [hb] at h
    simp only [List.cons_append, List.cons.injEq] at h
    exact hne h.1

/-- **decode then re-encode reproduces the received bytes**, for every schema table and every typed value whose
primitive is CBOR-representable (lengths and arguments below 2^64) -/
theorem reencode_same_bytes (S : List ClassDef) (t : Ty) (v : Val) (h : HasType S t v)
    (hw : WF (toPrim S v)) :
    ∃ N, ∀ fuel, N ≤ fuel → ∃ i v', decodeAll (encodeVal S v) = some i ∧ fromPrim S fuel t i = .ok v' ∧
      encodeVal S v' = encodeVal S v := by
  obtain ⟨N, hN⟩ := rt_all h
  refine ⟨N, fun fuel hf => ⟨toPrim S v, v, ?_, hN fuel hf, rfl⟩⟩
  unfold encodeVal
  exact decodeAll_encode _ hw

/-- … so every function of the bytes — the transaction id `H(body bytes)` — is the same before and after -/
theorem id_preserved {α : Type} (H : Bytes → α) (S : List ClassDef) (t : Ty) (v : Val)
    (h : HasType S t v) (hw : WF (toPrim S v)) :
    ∃ N, ∀ fuel, N ≤ fuel → ∃ i v', decodeAll (encodeVal S v) = some i ∧ fromPrim S fuel t i = .ok v' ∧
      H (encodeVal S v') = H (encodeVal S v) := by
  obtain ⟨N, hN⟩ := reencode_same_bytes S t v h hw
  refine ⟨N, fun fuel hf => ?_⟩
  obtain ⟨i, v', h1, h2, h3⟩ := hN fuel hf
  exact ⟨i, v', h1, h2, by rw [h3]⟩

/-- the set encoding chosen by the sender (tag 258 or bare array) is part of the restored value, for both forms -/
theorem set_form_preserved (S : List ClassDef) (t : Ty) (ne tagged : Bool) (xs : List Val)
    (h : HasTypeList S t xs) :
    ∃ N, ∀ fuel, N ≤ fuel → fromPrim S fuel (.oset t ne) (toPrim S (.oset tagged xs)) = .ok (.oset tagged xs) :=
  rt_all (HasType.oset h)

theorem set_forms_differ (S : List ClassDef) (xs : List Val) :
    toPrim S (.oset true xs) ≠ toPrim S (.oset false xs) := by
  simp [toPrim]

/-- non-vacuity on the REAL table: a transaction input restored from its bytes re-encodes to the same bytes
(the kernel evaluates CBOR decoding, typed restoration and re-encoding) -/
def C03ex : Val := .obj "TransactionInput" [.cb (List.replicate 32 7), .int 4294967296]

example :
    (match decodeAll (encodeVal repoSchema C03ex) with
      | some i => (match fromPrim repoSchema 10 (.cls "TransactionInput") i with
          | .ok v' => encodeVal repoSchema v' == encodeVal repoSchema C03ex
          | _ => false)
      | none => false) = true := by decide +kernel


/-! ## hand-written codecs -/

/-- **`Value`**: the bytes of a well-formed value decode, and the decoded value re-encodes to the same bytes -/
theorem value_reencode_bytes (v : Value) (h : ValueOk v) (hw : Cbor.WF (itemValue v)) :
    ∃ v', decValueBytes (encValueBytes v) = .ok v' ∧ encValueBytes v' = encValueBytes v :=
  ⟨normValue v, decValueBytes_enc v h hw, by unfold encValueBytes; rw [itemValue_normValue]⟩

/-- **`TransactionOutput`: re-encoding the decoded output reproduces the bytes, ALWAYS** — legacy or map form, datum
hash / inline datum / both / neither, any script, flag set or not (constructed or with attributes assigned after
construction); the `post_alonzo` flag the decoder sets never changes the bytes.  Hypotheses: the output is well-formed (`OutputOk`), the leaf
codecs restore what they wrote, sizes are CBOR-representable. -/
theorem output_reencode {A D N : Type} (L : Leaves A D N) (hL : L.Lawful) (o : Output A D N) (h : OutputOk L o)
    (hw : Cbor.WF (itemOutput L o)) :
    ∃ o', decOutputBytes L (encOutputBytes L o) = .ok o' ∧ encOutputBytes L o' = encOutputBytes L o := by
  refine ⟨decodedOutput o, ?_, ?_⟩
  · unfold decOutputBytes encOutputBytes
    rw [decodeAll_encode _ hw]
    exact decOutput_itemOutput L hL o h
  · unfold encOutputBytes; rw [itemOutput_decodedOutput]

/-- the primitive level of the same fact needs no hypothesis at all -/
theorem output_reencode_item {A D N : Type} (L : Leaves A D N) (o : Output A D N) :
    itemOutput L (decodedOutput o) = itemOutput L o := itemOutput_decodedOutput L o

/-- **`TransactionBody`** (any dataclass value whose normal form is typed): decoding the bytes returns the normal form,
and serializing that again gives the received bytes -/
theorem body_reencode (S : List ClassDef) (n : String) (v : Val) (h : HasType S (.cls n) (bodyNorm S v))
    (hw : WF (toPrim S v)) :
    ∃ N, ∀ fuel, N ≤ fuel → ∃ i v', decodeAll (encodeVal S v) = some i ∧ fromPrim S fuel (.cls n) i = .ok v' ∧
      encodeVal S v' = encodeVal S v := by
  obtain ⟨N, hN⟩ := decode_encode_bodyNorm S n v h
  refine ⟨N, fun fuel hf => ⟨toPrim S v, bodyNorm S v, ?_, hN fuel hf, ?_⟩⟩
  · unfold encodeVal; exact decodeAll_encode _ hw
  · unfold encodeVal; rw [toPrim_bodyNorm]

/-- a set-valued body field `Union[List[T], OrderedSet[T], …]`, **untagged wire form** (a bare array): whether the sender
held a list or an untagged ordered set, the decoder returns the list, whose bytes are the received bytes -/
theorem body_set_field_untagged (S : List ClassDef) (t : Ty) (ne : Bool) (post : List Ty) (xs : List Val)
    (h : HasTypeList S t xs) :
    ∃ N, ∀ fuel, N ≤ fuel →
      fromPrim S fuel (.union (.list t :: .oset t ne :: post)) (toPrim S (.oset false xs)) = .ok (.list xs) ∧
      toPrim S (.list xs) = toPrim S (.oset false xs) := by
  have ht : HasType S (.union ([] ++ .list t :: (.oset t ne :: post))) (.list xs) :=
    HasType.union (HasType.list h) (by intro t' ht'; simp at ht')
  obtain ⟨N, hN⟩ := rt_all ht
  refine ⟨N, fun fuel hf => ⟨?_, by simp [toPrim]⟩⟩
  have := hN fuel hf
  simpa [toPrim] using this

/-- … **tagged wire form** (`#6.258([…])`): `List[T]` refuses the tag, `OrderedSet[T]` restores the set and remembers
the tag, so the received bytes are reproduced -/
theorem body_set_field_tagged (S : List ClassDef) (t : Ty) (ne : Bool) (post : List Ty) (xs : List Val)
    (h : HasTypeList S t xs) :
    ∃ N, ∀ fuel, N ≤ fuel →
      fromPrim S fuel (.union (.list t :: .oset t ne :: post)) (toPrim S (.oset true xs)) = .ok (.oset true xs) := by
  have ht : HasType S (.union ([.list t] ++ .oset t ne :: post)) (.oset true xs) :=
    HasType.union (HasType.oset h) (by
      intro t' ht'
      simp only [List.mem_singleton] at ht'
      subst ht'
      exact Ev.pos (fun n => by simp [toPrim, fromPrim, listElems?]))
  exact rt_all ht

/-! non-vacuity: the examples of `Props/C01.lean` (`exValue`, `exInline`, `exFlag`, `exBody`) are evaluated there by
the kernel through encoder, CBOR decoder, typed restoration and re-encoder; here the three wire forms of a set-valued
field of the REAL table -/
def exSigners : List Val := [.cb (List.replicate 28 5), .cb (List.replicate 28 6)]
def signersTy : Ty := .union [.list (.cls "VerificationKeyHash"), .oset (.cls "VerificationKeyHash") true, .none]

example : HasTypeList repoSchema (.cls "VerificationKeyHash") exSigners :=
  (typed_sound repoSchema 10).2.1 _ _ (by decide +kernel)
example :
    ((match fromPrim repoSchema 10 signersTy (toPrim repoSchema (.oset true exSigners)) with
        | .ok (.oset true xs) => xs.length == 2 | _ => false) &&
     (match fromPrim repoSchema 10 signersTy (toPrim repoSchema (.oset false exSigners)) with
        | .ok (.list xs) => xs.length == 2 | _ => false) &&
     (match fromPrim repoSchema 10 signersTy (toPrim repoSchema (.list exSigners)) with
        | .ok (.list xs) => xs.length == 2 | _ => false)) = true := by decide +kernel

end Pyc.C03

#print axioms Pyc.C03.cbor_bytes_roundtrip
#print axioms Pyc.C03.framing_distinct
#print axioms Pyc.C03.reencode_same_bytes
#print axioms Pyc.C03.id_preserved
#print axioms Pyc.C03.set_form_preserved
#print axioms Pyc.C03.set_forms_differ
#print axioms Pyc.C03.value_reencode_bytes
#print axioms Pyc.C03.output_reencode
#print axioms Pyc.C03.output_reencode_item
#print axioms Pyc.C03.body_reencode
#print axioms Pyc.C03.body_set_field_untagged
#print axioms Pyc.C03.body_set_field_tagged
