import Pyc.Proofs.CborAll
import Pyc.Proofs.Codec
import Pyc.Proofs.Typed
import Pyc.Generated.Schema

/-! # C03 — transaction identity survives decode and re-encode

The wire variants the property lists are all *values of the model*: an ordered set carries its tag flag
(`Val.oset tagged xs`), an output is a legacy array object or a map object, optional fields are present or `None`,
Plutus data and other hand-written codecs are carried as their CBOR item (`Val.opaque`), in which definite and
indefinite arrays and chunked byte strings are different items.  So "received bytes" = `encodeVal S v` for some typed
`v`, and the theorems say: decoding those bytes and serializing the result again yields the same bytes — hence any
function of the bytes, the BLAKE2b-256 id included, is unchanged.

* `cbor_bytes_roundtrip` — byte level: every well-formed item (indefinite arrays, chunked strings, tags) decodes
  from its encoding with its framing intact.
* `reencode_same_bytes` — decode (CBOR, then typed restoration) ∘ encode is the identity on bytes for every typed value
  of every schema table, in particular the regenerated `repoSchema`.
* `id_preserved` — for any hash function.
* `set_form_preserved`, `optional_subset_preserved` — the wire choices are part of the restored value.
The C extension back end and the interpreter hash seed are outside any model of the Python code: they are exercised
on the implementation in sub-processes (see DESIGN.md). -/

namespace Pyc.C03
open Pyc Pyc.Codec Pyc.Cbor Pyc.Schema Pyc.Generated

/-- byte-level CBOR round trip with framing -/
theorem cbor_bytes_roundtrip (x : Item) (hw : WF x) : decodeAll (encode x) = some x := decodeAll_encode x hw

/-- definite and indefinite framing are different items with different bytes: the model cannot confuse them -/
theorem framing_distinct (xs : List Item) : encode (.array xs) ≠ encode (.arrayIndef xs) := by
  intro h
  have h1 : (encode (.array xs)).length = (head 4 xs.length).length + (encodeList xs).length := by
    simp [encode]
  cases xs with
  | nil => simp [encode, encodeList, head] at h
  | cons x xs =>
    -- first bytes differ: major type 4 head never starts with 0x9f for a definite length
    simp only [encode] at h
    have hh : ∀ n, ∃ b t, head 4 n = b :: t ∧ b ≠ 0x9f := by
      intro n
      unfold head; simp only []
      split
      · rename_i hlt
        refine ⟨_, _, rfl, ?_⟩
        intro he
        have := congrArg UInt8.toNat he
        rw [u8_toNat_ofNat _ (by omega)] at this
        simp at this; omega
      · split
        · exact ⟨_, _, rfl, by decide⟩
        · split
          · exact ⟨_, _, rfl, by decide⟩
          · split
            · exact ⟨_, _, rfl, by decide⟩
            · exact ⟨_, _, rfl, by decide⟩
    obtain ⟨b, t, hb, hne⟩ := hh (x :: xs).length
    rw [hb] at h
    simp only [List.cons_append, List.cons.injEq] at h
    exact hne h.1

/-- **decode then re-encode reproduces the received bytes**, for every schema table and every typed value whose
primitive is CBOR-representable (lengths and arguments below 2^64) -/
theorem reencode_same_bytes (S : List ClassDef) (hS : WFS S) (t : Ty) (v : Val) (h : HasType S t v)
    (hw : WF (toPrim S v)) :
    ∃ N, ∀ fuel, N ≤ fuel → ∃ i v', decodeAll (encodeVal S v) = some i ∧ fromPrim S fuel t i = .ok v' ∧
      encodeVal S v' = encodeVal S v := by
  obtain ⟨N, hN⟩ := rt_all hS h
  refine ⟨N, fun fuel hf => ⟨toPrim S v, v, ?_, hN fuel hf, rfl⟩⟩
  unfold encodeVal
  exact decodeAll_encode _ hw

/-- … so every function of the bytes — the transaction id `H(body bytes)` — is the same before and after -/
theorem id_preserved {α : Type} (H : Bytes → α) (S : List ClassDef) (hS : WFS S) (t : Ty) (v : Val)
    (h : HasType S t v) (hw : WF (toPrim S v)) :
    ∃ N, ∀ fuel, N ≤ fuel → ∃ i v', decodeAll (encodeVal S v) = some i ∧ fromPrim S fuel t i = .ok v' ∧
      H (encodeVal S v') = H (encodeVal S v) := by
  obtain ⟨N, hN⟩ := reencode_same_bytes S hS t v h hw
  refine ⟨N, fun fuel hf => ?_⟩
  obtain ⟨i, v', h1, h2, h3⟩ := hN fuel hf
  exact ⟨i, v', h1, h2, by rw [h3]⟩

/-- the set encoding chosen by the sender (tag 258 or bare array) is part of the restored value, for both forms -/
theorem set_form_preserved (S : List ClassDef) (hS : WFS S) (t : Ty) (ne tagged : Bool) (xs : List Val)
    (h : HasTypeList S t xs) :
    ∃ N, ∀ fuel, N ≤ fuel → fromPrim S fuel (.oset t ne) (toPrim S (.oset tagged xs)) = .ok (.oset tagged xs) :=
  rt_all hS (HasType.oset h)

theorem set_forms_differ (S : List ClassDef) (xs : List Val) :
    toPrim S (.oset true xs) ≠ toPrim S (.oset false xs) := by
  simp [toPrim]

/-- non-vacuity on the REAL table: a transaction input restored from its bytes re-encodes to the same bytes
(the kernel evaluates CBOR decoding, typed restoration and re-encoding) -/
def C03ex : Val := .obj "TransactionInput" [.cb (List.replicate 32 7), .int 4294967296]

example :
    (match decodeAll (encodeVal repoSchema C03ex) with
      | some i => (match fromPrim repoSchema 10 (.cls "TransactionInput") i with
          | .ok v' => encodeVal repoSchema v' == encodeVal repoSchema C03ex
          | _ => false)
      | none => false) = true := by decide +kernel

end Pyc.C03

#print axioms Pyc.C03.cbor_bytes_roundtrip
#print axioms Pyc.C03.framing_distinct
#print axioms Pyc.C03.reencode_same_bytes
#print axioms Pyc.C03.id_preserved
#print axioms Pyc.C03.set_form_preserved
#print axioms Pyc.C03.set_forms_differ
