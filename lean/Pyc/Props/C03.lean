import Pyc.Model.Cbor
namespace Pyc.C03
end Pyc.C03
