import Pyc.Proofs.PackFit

/-! # C08 (extension PackFit) — the change outputs fit the maximum value size

C08 says of every change output the builder adds: "its value fits the maximum value size, with large token bundles split
across several outputs without losing or duplicating any token".  The main file proves the minimum-ADA half and
`pack_preserves` (under the hypothesis that the `break` of `_pack_tokens_for_change` is not taken); the size half was
only evaluated.  An earlier version of this file REFUTED it for the code as it was (a last change output of 2^32 lovelace or
more was measured with a 5-byte minimum ADA and emitted with a 9-byte coin, up to 4 bytes over the limit); the code was
repaired (8c81354) and the clause is now PROVED (`change_fit`, `final_changes_fit`).

How the code decides (txbuilder.py:792-898, model `Pyc.Builder.overflow / packAsset / packPolicies / packTokens`):

* every output under construction — the first one and each one opened after a chunk is closed — holds the WHOLE change coin;
* a chunk is closed BEFORE the asset that would overflow it is added; the probe measures `len(v.to_cbor())` of the value
  `v` = (assets already flushed into the output) + (buffered assets of the current policy) + (the new asset), whose coin has
  been REPLACED by the larger of `min_lovelace_post_alonzo` of that output and the change coin (`probe_measures`);
* after a chunk is closed, the asset that overflowed is put into the fresh buffer WITHOUT being measured on its own;
* at the end of each policy the flushed output is measured once more, the same way; on overflow the output is reset to
  `old_amount` and the loop `break`s: the buffered assets of that policy and ALL remaining policies are dropped.

Results (all quantify over every parameter set, address, change value; no size bound):

* `chunk_provenance`: every chunk returned is empty, or was measured and found to fit, or is ONE asset of the change on its
  own (one policy with one name) — so an oversized chunk can only be a single asset that alone exceeds the limit
  (`oversized_chunk_is_single`); the packing never loops and never raises (it is a pair of `for` loops: total functions).
* `pack_fit`: if no single asset alone exceeds the limit (measured like everything else: under the change coin), every
  chunk fits next to EVERY coin between 0 and the change coin (the width of a coin is monotone: `coinLen_mono`, bignums
  included); `pack_fit_own_min`: in particular with its own minimum ADA when that does not exceed the change coin.
* `change_fit`: every change output `_calc_change` returns fits `max_val_size` with the coin it finally carries, when the
  minimum-ADA requirement is on (each coin handed out then lies between 0 and the change coin: the refusal `change <
  minAda(bundle)` is what guarantees it) or the change is a single output; `final_changes_fit`: hence every change output
  `_add_change_and_fee` adds or merges fits (a relaxed requirement is only ever kept for a single change output).
  Hypotheses that remain: coins-per-byte ≥ 0 and no single asset alone over the limit.
* `pack_no_break`, `pack_preserves_of_fit`, `change_sum_of_fit`: with positive quantities (what `_calc_change` passes) and
  no single oversized asset the `break` is never taken, so nothing is lost; `pack_preserves_counterexample`: when the last
  asset of a policy alone exceeds the limit the `break` IS taken and tokens vanish from the packing (limit below 86 bytes).
* `pack_nonempty`, `pack_chunks_bounded`: progress and the bound on the number of chunks. -/

namespace Pyc.C08.PackFit
open Pyc Pyc.Builder Pyc.Cbor Pyc.PackFit

/-- **size of a value** = width of the coin, plus — for a non-empty bundle — the 1-byte head of `[coin, bundle]` and the
size of the bundle: the coin and the bundle contribute independently -/
theorem value_size_split (c : Int) (m : MultiAsset) :
    vlen ⟨c, m⟩ = if (MultiAsset.normalize m).isEmpty then coinLen c else 1 + coinLen c + bundleLen m :=
  vlen_split c m

/-- **canonical sorting does not change the size**: the size of a serialized value is a function of the bundle's content
(insertion order, zero entries, empty policies are irrelevant) — no key-length hypothesis -/
theorem size_order_independent (c : Int) (m₁ m₂ : MultiAsset) (h1 : MultiAsset.WF m₁) (h2 : MultiAsset.WF m₂)
    (h : ∀ p n, MultiAsset.qty m₁ p n = MultiAsset.qty m₂ p n) : vlen ⟨c, m₁⟩ = vlen ⟨c, m₂⟩ :=
  vlen_sizeEq c m₁ m₂ (sizeEq_of_content m₁ m₂ h1 h2 h)

/-- **what the overflow probe measures**: the value (new asset + buffered assets of the policy + output so far) with its
coin replaced by the larger of the minimum ADA of that output and the coin the output holds, against `max_val_size` with a strict `>` -/
theorem probe_measures (P : Params) (addr : Bytes) (out : Value) (cur : Asset) (pol n : Bytes) (q : Int) :
    overflow P addr out cur pol n q = true ↔
      P.maxValSize < probeLen P addr out.coin (MultiAsset.add [(pol, Asset.add cur [(n, q)])] out.ma) := by
  rw [overflow_eq]
  simp [fits]

/-- … and the value it measures has the same size as the value the flush later stores -/
theorem probe_is_stored_size (P : Params) (addr : Bytes) (out : Value) (pol : Bytes) (t : Asset)
    (ho : MultiAsset.WF out.ma) (ht : Dict.WF t) :
    probeLen P addr out.coin (MultiAsset.add [(pol, t)] out.ma) = probeLen P addr out.coin (flush out pol t).ma :=
  probeLen_sizeEq P addr out.coin _ _ (sizeEq_attempt_flush out pol t ho ht)

/-- what is known of a chunk (every output is built under the change coin) -/
def Known (P : Params) (addr : Bytes) (ch : Value) (m : MultiAsset) : Prop :=
  m = [] ∨ (∃ pa ∈ ch.ma, ∃ a ∈ pa.2, m = single pa.1 a) ∨ probeLen P addr ch.coin m ≤ P.maxValSize

/-- **provenance of every chunk, for all inputs**: each is empty, or a single asset of the change on its own, or
measured (under the change coin) and fitting -/
theorem chunk_provenance (P : Params) (addr : Bytes) (ch : Value) :
    (packTokens P addr ch).1 ≠ [] ∧ ∀ m ∈ (packTokens P addr ch).1, Known P addr ch m := by
  refine ⟨packTokens_ne_nil P addr ch, ?_⟩
  intro m hm
  rcases packTokens_arrOK P addr ch m hm with h | h | h
  · exact Or.inl h
  · exact Or.inr (Or.inl h)
  · exact Or.inr (Or.inr (by simpa [fits] using h))

/-- **what the code does with an asset that is too big on its own**: it emits it, alone — a chunk measured over the
limit is a single asset (one policy, one name) of the change -/
theorem oversized_chunk_is_single (P : Params) (addr : Bytes) (ch : Value) (m : MultiAsset)
    (hm : m ∈ (packTokens P addr ch).1) (hne : m ≠ []) (hover : P.maxValSize < probeLen P addr ch.coin m) :
    ∃ pa ∈ ch.ma, ∃ a ∈ pa.2, m = single pa.1 a := by
  rcases (chunk_provenance P addr ch).2 m hm with h | h | h
  · exact absurd h hne
  · exact h
  · omega

/-- **size invariant of packing** (no single asset alone over the limit): every chunk fits next to every coin between
0 and the change coin -/
theorem pack_fit (P : Params) (addr : Bytes) (ch : Value) (hs : noSingleOver P addr ch = true) :
    ∀ m ∈ (packTokens P addr ch).1, ∀ c : Int, 0 ≤ c → c ≤ ch.coin → m = [] ∨ vlen ⟨c, m⟩ ≤ P.maxValSize :=
  fun m hm c h0 hc => fitsX_coin P addr ch.coin m c (packTokens_arrFit P addr ch hs m hm) h0 hc

/-- … and next to ANY coin, up to the number of bytes by which it is wider than the coin the chunk was measured with -/
theorem pack_fit_any_coin (P : Params) (addr : Bytes) (ch : Value) (hs : noSingleOver P addr ch = true) :
    ∀ m ∈ (packTokens P addr ch).1,
      m = [] ∨ ∀ c : Int, vlen ⟨c, m⟩ + coinLen (probeCoin P addr ch.coin m) ≤ P.maxValSize + coinLen c :=
  packTokens_arrFit P addr ch hs

/-- in particular every chunk fits with its own minimum ADA — the coin `_calc_change` gives it unless it is the last —
whenever that minimum does not exceed the change coin (otherwise `_calc_change` refuses) -/
theorem pack_fit_own_min (P : Params) (addr : Bytes) (ch : Value) (hs : noSingleOver P addr ch = true)
    (hcpb : 0 ≤ P.cpb) (m : MultiAsset) (hm : m ∈ (packTokens P addr ch).1)
    (hle : minAda P addr ⟨0, m⟩ ≤ ch.coin) : m = [] ∨ vlen ⟨minAda P addr ⟨0, m⟩, m⟩ ≤ P.maxValSize :=
  pack_fit P addr ch hs m hm _ (minAda_nonneg P addr _ hcpb) hle

/-- **the `break` is never taken** when every quantity is positive (what `_calc_change` passes: `changeValue_pos`) and no
single asset alone exceeds the limit -/
theorem pack_no_break (P : Params) (addr : Bytes) (ch : Value) (hpos : MultiAsset.Pos ch.ma)
    (hs : noSingleOver P addr ch = true) : (packTokens P addr ch).2 = false :=
  packTokens_nobreak P addr ch hpos hs

/-- … hence **nothing is lost or duplicated**, now from hypotheses on the input alone (C08 `pack_preserves` assumes the
`break` away) -/
theorem pack_preserves_of_fit (P : Params) (addr : Bytes) (ch : Value) (hw : MultiAsset.WF ch.ma)
    (hpos : MultiAsset.Pos ch.ma) (hs : noSingleOver P addr ch = true) (p n : Bytes) :
    sumQty (packTokens P addr ch).1 p n = MultiAsset.qty ch.ma p n :=
  packTokens_preserves P addr ch hw (pack_no_break P addr ch hpos hs) p n

/-- the unconditional conservation claim -/
def pack_preserves_goal : Prop :=
  ∀ (P : Params) (addr : Bytes) (ch : Value), MultiAsset.WF ch.ma → MultiAsset.Pos ch.ma →
    ∀ p n, sumQty (packTokens P addr ch).1 p n = MultiAsset.qty ch.ma p n

def wP : Params := { cpb := 4310, maxValSize := 45, keyDeposit := 2000000, poolDeposit := 500000000 }
def wAddr : Bytes := 0x60 :: List.replicate 28 0x11
def wPol : Bytes := List.replicate 28 0xc0
def wName32 : Bytes := List.replicate 32 0xaa
/-- 7 units of one asset with a 32-byte name: 73 bytes on its own, over the 45-byte limit -/
def wBig : Value := ⟨5000000, [(wPol, [(wName32, 7)])]⟩

/-- **tokens vanish when the last asset of a policy alone exceeds the limit**: the probe closes an (empty) chunk, the
asset goes into the fresh buffer unmeasured, the end-of-policy re-check overflows, the output is reset and the loop
`break`s: the packing returns two empty bundles -/
theorem pack_preserves_counterexample : ¬ pack_preserves_goal := by
  intro h
  have h1 := h wP wAddr wBig
    (by refine ⟨by simp [Dict.WF, Dict.keys, wBig], ?_⟩; intro q hq; simp [wBig] at hq; subst hq; simp [Dict.WF, Dict.keys])
    (by intro q hq; simp [wBig] at hq; subst hq; simp)
    wPol wName32
  revert h1
  decide +kernel

/-- **progress**: with positive quantities and no single oversized asset no chunk is empty -/
theorem pack_nonempty (P : Params) (addr : Bytes) (ch : Value) (hpos : MultiAsset.Pos ch.ma)
    (hs : noSingleOver P addr ch = true) (hne : ch.ma ≠ []) : ∀ m ∈ (packTokens P addr ch).1, m ≠ [] :=
  packTokens_nonempty P addr ch hpos hs hne

/-- **number of chunks**: at most one per `(policy, name)` pair, plus the last — for all inputs -/
theorem pack_chunks_bounded (P : Params) (addr : Bytes) (ch : Value) :
    (packTokens P addr ch).1.length ≤ pairCount ch.ma + 1 :=
  packTokens_length P addr ch

/-! ## the change outputs of `_calc_change` -/

/-- **the fit clause of C08**: every change output `_calc_change` returns fits `max_val_size` with the coin it finally
carries — when the minimum-ADA requirement is on, or the change is a single output (the only case in which
`_add_change_and_fee` keeps a result computed without the requirement) -/
theorem change_fit (P : Params) (a : ChangeArgs) (cs : List Output) (h : calcChange P a = .ok cs)
    (hs : noSingleOver P a.addr (changeValue a) = true) (hcpb : 0 ≤ P.cpb)
    (hr : a.respect = true ∨ cs.length = 1) : allFit P cs = true := by
  have := calcChange_fit P a cs h hs hcpb hr
  simp only [allFit, List.all_eq_true, Bool.or_eq_true, decide_eq_true_eq, List.isEmpty_iff]
  exact this

/-- … hence **every change output `_add_change_and_fee` adds (or merges) fits**: `_calc_changes()` keeps a result computed
without the minimum-ADA requirement only when it is a single output -/
theorem final_changes_fit (P : Params) (outs cs : List Output) (a : ChangeArgs) (mc : Bool)
    (h : finalChanges P outs a mc = .ok cs)
    (hs : noSingleOver P a.addr (changeValue (finalArgs outs a mc)) = true) (hcpb : 0 ≤ P.cpb) :
    allFit P cs = true := by
  obtain ⟨r, hcalc, _, hlen⟩ := Builder.finalChanges_calc P outs cs a mc h
  have hr : (withRespect (finalArgs outs a mc) r).respect = true ∨ cs.length = 1 := by
    by_cases hl : cs.length = 1
    · exact Or.inr hl
    · exact Or.inl (by simp [withRespect, hlen hl])
  exact change_fit P (withRespect (finalArgs outs a mc) r) cs hcalc hs hcpb hr

/-- every change output but the last holds exactly the minimum ADA of its bundle (priced with coin 0), whatever the
flag; it fits whenever that minimum does not exceed the change coin -/
theorem change_fit_middle (P : Params) (a : ChangeArgs) (cs : List Output) (h : calcChange P a = .ok cs)
    (hs : noSingleOver P a.addr (changeValue a) = true) (hcpb : 0 ≤ P.cpb) :
    ∀ o ∈ cs.dropLast, o.amount.coin = minAda P a.addr ⟨0, o.amount.ma⟩ ∧
      (o.amount.coin ≤ (changeValue a).coin → o.amount.ma = [] ∨ vlen o.amount ≤ P.maxValSize) := by
  obtain ⟨_, hfit, hcoin⟩ := calcChange_arrFit P a cs h hs
  intro o ho
  refine ⟨hcoin o ho, fun hle => ?_⟩
  have hmem : o ∈ cs := List.dropLast_subset cs ho
  have h0 : 0 ≤ o.amount.coin := by rw [hcoin o ho]; exact minAda_nonneg P a.addr _ hcpb
  exact fitsX_coin P a.addr _ _ o.amount.coin
    (hfit o.amount.ma (by simp only [List.mem_map]; exact ⟨o, hmem, rfl⟩)) h0 hle

/-- with no single oversized asset the change outputs hold exactly `provided − requested`, for ADA and for every asset:
`calcChange_sum` (C06 / C08) without its hypothesis on the `break` -/
theorem change_sum_of_fit (P : Params) (a : ChangeArgs) (cs : List Output) (h : calcChange P a = .ok cs) (hw : ArgsWF a)
    (hs : noSingleOver P a.addr (changeValue a) = true) :
    sumCoin cs = (provided a).coin - (requested a).coin ∧
    ∀ p n, sumAsset cs p n = MultiAsset.qty (provided a).ma p n - MultiAsset.qty (requested a).ma p n :=
  calcChange_sum P a cs h hw (calcChange_nobreak P a hs)

/-- the input on which the clause used to fail (before 8c81354): one asset with a 4-byte name next to 2^32 lovelace under a
45-byte limit.  Measured with the 9-byte coin the asset alone now takes 48 bytes: it is a single asset over the limit
(outside `noSingleOver`), no longer an output that is emitted over the limit unnoticed -/
def wArgs : ChangeArgs :=
  { fee := 170000
    inputs := [⟨4294967296 + 170000, [(wPol, [([1, 2, 3, 4], 1)])]⟩]
    outputs := []
    mint := []
    withdrawals := []
    deposits := 0
    addr := wAddr
    respect := true }

example : noSingleOver wP wArgs.addr (changeValue wArgs) = false
    ∧ probeLen wP wArgs.addr 4294967296 (changeValue wArgs).ma = 48 := by decide +kernel

/-- … and under a limit of 48 bytes the same change is one output of exactly 48 bytes -/
def wP48 : Params := { cpb := 4310, maxValSize := 48, keyDeposit := 2000000, poolDeposit := 500000000 }
example : (match calcChange wP48 wArgs with
    | .ok cs => noSingleOver wP48 wArgs.addr (changeValue wArgs) && allFit wP48 cs && decide (cs.length = 1)
        && cs.all (fun o => decide (vlen o.amount = 48 ∧ o.amount.coin = 4294967296))
    | .error _ => false) = true := by decide +kernel

/-! ## non-vacuity, evaluated by the kernel -/

/-- the hypotheses of `change_fit` are met by a run that splits a bundle over three outputs, all of which fit (11 assets
over 3 policies, limit 60 bytes) -/
def exP : Params := { cpb := 4310, maxValSize := 60, keyDeposit := 2000000, poolDeposit := 500000000 }
def exPol (i : Nat) : Bytes := List.replicate 28 (UInt8.ofNat (0xd0 + i))
def exArgs : ChangeArgs :=
  { fee := 170000
    inputs := [⟨9000000, [(exPol 0, [([1], 3), ([2, 2], 4), ([3, 3, 3], 5), ([4, 4, 4, 4], 6)]),
                          (exPol 1, [([5], 70000), ([6, 6], 1), ([7, 7, 7], 2), ([8], 300)]),
                          (exPol 2, [([9], 1), ([10], 1), ([11], 1)])]⟩]
    outputs := []
    mint := []
    withdrawals := []
    deposits := 0
    addr := wAddr
    respect := true }

example : (match calcChange exP exArgs with
    | .ok cs => noSingleOver exP exArgs.addr (changeValue exArgs) && allFit exP cs && decide (cs.length = 3)
        && decide (0 ≤ exP.cpb) && exArgs.respect
    | .error _ => false) = true := by decide +kernel

/-- … and the remaining hypotheses (`ArgsWF`, positivity, a non-empty bundle) hold of the same run -/
example : ArgsWF exArgs := by
  unfold ArgsWF MultiAsset.WF Dict.WF
  decide +kernel
example : MultiAsset.Pos (changeValue exArgs).ma := changeValue_pos exArgs
example : (changeValue exArgs).ma ≠ [] := by decide +kernel

/-- an asset too big on its own that is NOT the last of its policy is emitted alone in an oversized chunk (73 > 45), after
an empty first chunk; nothing is lost -/
def wBig2 : Value := ⟨5000000, [(wPol, [(wName32, 7), ([0xbb], 1)])]⟩
example : (packTokens wP wAddr wBig2).1 = [[], [(wPol, [(wName32, 7)])], [(wPol, [([0xbb], 1)])]]
    ∧ (packTokens wP wAddr wBig2).2 = false ∧ probeLen wP wAddr 0 [(wPol, [(wName32, 7)])] = 73 := by decide +kernel

example : MultiAsset.WF wBig2.ma ∧ MultiAsset.Pos wBig2.ma := by
  unfold MultiAsset.WF Dict.WF MultiAsset.Pos
  decide +kernel

/-- … and when it IS the last of its policy the `break` drops it together with every remaining policy -/
example : (packTokens wP wAddr wBig).1 = [[], []] ∧ (packTokens wP wAddr wBig).2 = true := by decide +kernel

end Pyc.C08.PackFit

#print axioms Pyc.C08.PackFit.value_size_split
#print axioms Pyc.C08.PackFit.size_order_independent
#print axioms Pyc.C08.PackFit.probe_measures
#print axioms Pyc.C08.PackFit.probe_is_stored_size
#print axioms Pyc.C08.PackFit.chunk_provenance
#print axioms Pyc.C08.PackFit.oversized_chunk_is_single
#print axioms Pyc.C08.PackFit.pack_fit
#print axioms Pyc.C08.PackFit.pack_fit_any_coin
#print axioms Pyc.C08.PackFit.pack_fit_own_min
#print axioms Pyc.C08.PackFit.pack_no_break
#print axioms Pyc.C08.PackFit.pack_preserves_of_fit
#print axioms Pyc.C08.PackFit.pack_preserves_counterexample
#print axioms Pyc.C08.PackFit.pack_nonempty
#print axioms Pyc.C08.PackFit.pack_chunks_bounded
#print axioms Pyc.C08.PackFit.change_fit
#print axioms Pyc.C08.PackFit.final_changes_fit
#print axioms Pyc.C08.PackFit.change_fit_middle
#print axioms Pyc.C08.PackFit.change_sum_of_fit
