import Pyc.Proofs.PackFit

/-! # C08 (extension PackFit) — do the change outputs fit the maximum value size?

C08 says of every change output the builder adds: "its value fits the maximum value size, with large token bundles split
across several outputs without losing or duplicating any token".  The main file proves the minimum-ADA half and
`pack_preserves` (under the hypothesis that the `break` of `_pack_tokens_for_change` is not taken); the size half was
only evaluated.  Here it is proved as far as it is true, and refuted where it is not.

How the code decides (txbuilder.py:792-895, model `Pyc.Builder.overflow / packAsset / packPolicies / packTokens`):

* a chunk is closed BEFORE the asset that would overflow it is added; the probe measures `len(v.to_cbor())` of the value
  `v` = (assets already flushed into the output) + (buffered assets of the current policy) + (the new asset), whose coin has
  been REPLACED by `min_lovelace_post_alonzo` of that output (`probe_measures`).  The coin the output holds — the whole
  change coin for the first output, 0 for every later one — enters only through that minimum;
* after a chunk is closed, the asset that overflowed is put into the fresh buffer WITHOUT being measured on its own;
* at the end of each policy the flushed output is measured once more; on overflow the output is reset to `old_amount` and
  the loop `break`s: the buffered assets of that policy and ALL remaining policies are dropped.

Results (all quantify over every parameter set, address, change value; no size bound):

* `chunk_provenance`: every chunk returned is empty, or was measured and found to fit, or is ONE asset of the change on its
  own (one policy with one name) — so an oversized chunk can only be a single asset that alone exceeds the limit
  (`oversized_chunk_is_single`); the packing never loops and never raises (it is a pair of `for` loops: total functions).
* `pack_fit_partial`: if no single asset alone exceeds the limit, every chunk `m` fits with ANY coin `c` up to the
  difference of coin widths: `len(cbor(Value(c, m))) + width(probe coin) ≤ max_val_size + width(c)`.
* `_calc_change` funds every output but the last with exactly the coin the probe used when the output is not the first
  (`change_fit_middle`: those outputs fit, no side condition), and the last output with ALL the remaining ADA:
  `change_fit_partial`, and `change_fit_below_2pow32`: all change outputs fit whenever every one of them holds less than
  2^32 lovelace (4 294.967296 ADA) and coins-per-byte ≥ 410.
* `change_fit_counterexample`: the unconditional claim is FALSE — a change of exactly 2^32 lovelace next to a bundle whose
  value was measured at `max_val_size − 1` with a 5-byte minimum ADA is emitted 3 bytes over the limit (the code comment
  at txbuilder.py:697 anticipates it: "There may be rare cases where adding ADA causes size exceeds limit").  The harness
  (`checks/c08_ext_packfit.py`) replays the witness on the implementation, also at mainnet parameters through a whole
  `build()`: one input of 2^32 + 1 000 000 lovelace with 142 tokens of one policy gives a single change output whose value
  takes 5001 bytes under `max_val_size` 5000.
* `pack_no_break`, `pack_preserves_of_fit`, `change_sum_of_fit`: with positive quantities (what `_calc_change` passes) and
  no single oversized asset the `break` is never taken, so nothing is lost; `pack_preserves_counterexample`: when the last
  asset of a policy alone exceeds the limit the `break` IS taken and tokens vanish from the packing.
* `pack_nonempty`, `pack_chunks_bounded`: progress and the bound on the number of chunks. -/

namespace Pyc.C08.PackFit
open Pyc Pyc.Builder Pyc.Cbor Pyc.PackFit

/-- **size of a value** = width of the coin, plus — for a non-empty bundle — the 1-byte head of `[coin, bundle]` and the
size of the bundle: the coin and the bundle contribute independently -/
theorem value_size_split (c : Int) (m : MultiAsset) :
    vlen ⟨c, m⟩ = if (MultiAsset.normalize m).isEmpty then coinLen c else 1 + coinLen c + bundleLen m :=
  vlen_split c m

/-- **canonical sorting does not change the size**: the size of a serialized value is a function of the bundle's content
(insertion order, zero entries, empty policies are irrelevant) — no key-length hypothesis -/
theorem size_order_independent (c : Int) (m₁ m₂ : MultiAsset) (h1 : MultiAsset.WF m₁) (h2 : MultiAsset.WF m₂)
    (h : ∀ p n, MultiAsset.qty m₁ p n = MultiAsset.qty m₂ p n) : vlen ⟨c, m₁⟩ = vlen ⟨c, m₂⟩ :=
  vlen_sizeEq c m₁ m₂ (sizeEq_of_content m₁ m₂ h1 h2 h)

/-- **what the overflow probe measures**: the value (new asset + buffered assets of the policy + output so far) with its
coin replaced by the minimum ADA of that output, against `max_val_size` with a strict `>` -/
theorem probe_measures (P : Params) (addr : Bytes) (out : Value) (cur : Asset) (pol n : Bytes) (q : Int) :
    overflow P addr out cur pol n q = true ↔
      P.maxValSize < probeLen P addr out.coin (MultiAsset.add [(pol, Asset.add cur [(n, q)])] out.ma) := by
  rw [overflow_eq]
  simp [fits]

/-- … and the value it measures has the same size as the value the flush later stores -/
theorem probe_is_stored_size (P : Params) (addr : Bytes) (out : Value) (pol : Bytes) (t : Asset)
    (ho : MultiAsset.WF out.ma) (ht : Dict.WF t) :
    probeLen P addr out.coin (MultiAsset.add [(pol, t)] out.ma) = probeLen P addr out.coin (flush out pol t).ma :=
  probeLen_sizeEq P addr out.coin _ _ (sizeEq_attempt_flush out pol t ho ht)

/-- what is known of a chunk built while the output held coin `c` -/
def Known (P : Params) (addr : Bytes) (ch : Value) (c : Int) (m : MultiAsset) : Prop :=
  m = [] ∨ (∃ pa ∈ ch.ma, ∃ a ∈ pa.2, m = single pa.1 a) ∨ probeLen P addr c m ≤ P.maxValSize

/-- **provenance of every chunk, for all inputs**: there is at least one chunk; the first was measured under the change
coin, the later ones under coin 0; each is empty, or a single asset of the change on its own, or measured and fitting -/
theorem chunk_provenance (P : Params) (addr : Bytes) (ch : Value) :
    ∃ m0 rest, (packTokens P addr ch).1 = m0 :: rest ∧ Known P addr ch ch.coin m0 ∧ ∀ m ∈ rest, Known P addr ch 0 m := by
  have h := packTokens_arrOK P addr ch
  have conv : ∀ c m, ChunkOK P addr ch.ma c m → Known P addr ch c m := by
    intro c m hm
    rcases hm with hm | hm | hm
    · exact Or.inl hm
    · exact Or.inr (Or.inl hm)
    · exact Or.inr (Or.inr (by simpa [fits] using hm))
  cases hl : (packTokens P addr ch).1 with
  | nil => exact absurd hl (packTokens_ne_nil P addr ch)
  | cons m0 rest =>
    rw [hl] at h
    exact ⟨m0, rest, rfl, conv _ _ h.1, fun m hm => conv _ _ (h.2 m hm)⟩

/-- **what the code does with an asset that is too big on its own**: it emits it, alone — a chunk measured over the
limit (under either coin) is a single asset (one policy, one name) of the change -/
theorem oversized_chunk_is_single (P : Params) (addr : Bytes) (ch : Value) (m : MultiAsset)
    (hm : m ∈ (packTokens P addr ch).1) (hne : m ≠ [])
    (hover : P.maxValSize < probeLen P addr ch.coin m ∧ P.maxValSize < probeLen P addr 0 m) :
    ∃ pa ∈ ch.ma, ∃ a ∈ pa.2, m = single pa.1 a := by
  obtain ⟨m0, rest, hl, h0, hr⟩ := chunk_provenance P addr ch
  rw [hl] at hm
  simp only [List.mem_cons] at hm
  rcases hm with rfl | hm
  · rcases h0 with h | h | h
    · exact absurd h hne
    · exact h
    · omega
  · rcases hr m hm with h | h | h
    · exact absurd h hne
    · exact h
    · omega

/-- **size invariant of packing** (no single asset alone over the limit): every chunk fits next to ANY coin `c`, up to
the number of bytes by which `c` is wider than the coin the chunk was measured with — the minimum ADA of the chunk in an
output holding the change coin (first chunk) or nothing (later chunks) -/
theorem pack_fit_partial (P : Params) (addr : Bytes) (ch : Value) (hs : noSingleOver P addr ch = true) :
    ∃ m0 rest, (packTokens P addr ch).1 = m0 :: rest ∧
      (m0 = [] ∨ ∀ c : Int, vlen ⟨c, m0⟩ + coinLen (probeCoin P addr ch.coin m0) ≤ P.maxValSize + coinLen c) ∧
      ∀ m ∈ rest, m = [] ∨ ∀ c : Int, vlen ⟨c, m⟩ + coinLen (probeCoin P addr 0 m) ≤ P.maxValSize + coinLen c := by
  have h := packTokens_arrFit P addr ch hs
  cases hl : (packTokens P addr ch).1 with
  | nil => exact absurd hl (packTokens_ne_nil P addr ch)
  | cons m0 rest => rw [hl] at h; exact ⟨m0, rest, rfl, h.1, h.2⟩

/-- in particular every chunk but the first fits with its own minimum ADA — the coin `_calc_change` gives it unless it
is the last — with no side condition on widths -/
theorem pack_fit_own_min (P : Params) (addr : Bytes) (ch : Value) (hs : noSingleOver P addr ch = true)
    (m0 : MultiAsset) (rest : List MultiAsset) (hl : (packTokens P addr ch).1 = m0 :: rest) :
    ∀ m ∈ rest, m = [] ∨ vlen ⟨minAda P addr ⟨0, m⟩, m⟩ ≤ P.maxValSize := by
  obtain ⟨m0', rest', hl', _, hr⟩ := pack_fit_partial P addr ch hs
  rw [hl] at hl'
  obtain ⟨rfl, rfl⟩ : m0 = m0' ∧ rest = rest' := by simpa using hl'
  intro m hm
  rcases hr m hm with h | h
  · exact Or.inl h
  · right
    have := h (minAda P addr ⟨0, m⟩)
    unfold probeCoin at this
    omega

/-- **the `break` is never taken** when every quantity is positive (what `_calc_change` passes: `changeValue_pos`) and no
single asset alone exceeds the limit -/
theorem pack_no_break (P : Params) (addr : Bytes) (ch : Value) (hpos : MultiAsset.Pos ch.ma)
    (hs : noSingleOver P addr ch = true) : (packTokens P addr ch).2 = false :=
  packTokens_nobreak P addr ch hpos hs

/-- … hence **nothing is lost or duplicated**, now from hypotheses on the input alone (C08 `pack_preserves` assumes the
`break` away) -/
theorem pack_preserves_of_fit (P : Params) (addr : Bytes) (ch : Value) (hw : MultiAsset.WF ch.ma)
    (hpos : MultiAsset.Pos ch.ma) (hs : noSingleOver P addr ch = true) (p n : Bytes) :
    sumQty (packTokens P addr ch).1 p n = MultiAsset.qty ch.ma p n :=
  packTokens_preserves P addr ch hw (pack_no_break P addr ch hpos hs) p n

/-- the unconditional conservation claim -/
def pack_preserves_goal : Prop :=
  ∀ (P : Params) (addr : Bytes) (ch : Value), MultiAsset.WF ch.ma → MultiAsset.Pos ch.ma →
    ∀ p n, sumQty (packTokens P addr ch).1 p n = MultiAsset.qty ch.ma p n

def wP : Params := { cpb := 4310, maxValSize := 45, keyDeposit := 2000000, poolDeposit := 500000000 }
def wAddr : Bytes := 0x60 :: List.replicate 28 0x11
def wPol : Bytes := List.replicate 28 0xc0
def wName32 : Bytes := List.replicate 32 0xaa
/-- 7 units of one asset with a 32-byte name: 73 bytes on its own, over the 45-byte limit -/
def wBig : Value := ⟨5000000, [(wPol, [(wName32, 7)])]⟩

/-- **tokens vanish when the last asset of a policy alone exceeds the limit**: the probe closes an (empty) chunk, the
asset goes into the fresh buffer unmeasured, the end-of-policy re-check overflows, the output is reset and the loop
`break`s: the packing returns two empty bundles -/
theorem pack_preserves_counterexample : ¬ pack_preserves_goal := by
  intro h
  have h1 := h wP wAddr wBig
    (by refine ⟨by simp [Dict.WF, Dict.keys, wBig], ?_⟩; intro q hq; simp [wBig] at hq; subst hq; simp [Dict.WF, Dict.keys])
    (by intro q hq; simp [wBig] at hq; subst hq; simp)
    wPol wName32
  revert h1
  decide +kernel

/-- **progress**: with positive quantities and no single oversized asset no chunk is empty -/
theorem pack_nonempty (P : Params) (addr : Bytes) (ch : Value) (hpos : MultiAsset.Pos ch.ma)
    (hs : noSingleOver P addr ch = true) (hne : ch.ma ≠ []) : ∀ m ∈ (packTokens P addr ch).1, m ≠ [] :=
  packTokens_nonempty P addr ch hpos hs hne

/-- **number of chunks**: at most one per `(policy, name)` pair, plus the last — for all inputs -/
theorem pack_chunks_bounded (P : Params) (addr : Bytes) (ch : Value) :
    (packTokens P addr ch).1.length ≤ pairCount ch.ma + 1 :=
  packTokens_length P addr ch

/-! ## the change outputs of `_calc_change` -/

/-- the clause of C08 as one would like it (`allFit`: every change output that carries tokens fits `max_val_size`): whenever `_calc_change` returns (and no single asset alone exceeds the
limit), every change output fits -/
def change_fit_goal : Prop :=
  ∀ (P : Params) (a : ChangeArgs) (cs : List Output), calcChange P a = .ok cs →
    noSingleOver P a.addr (changeValue a) = true → allFit P cs = true

/-- **what holds**: a change output exceeds the limit by at most the number of bytes by which its final coin is wider than
the coin it was measured with (the minimum ADA of its bundle in an output holding the whole change coin, for the first
output; in an output holding nothing, for the later ones) -/
theorem change_fit_partial (P : Params) (a : ChangeArgs) (cs : List Output) (h : calcChange P a = .ok cs)
    (hs : noSingleOver P a.addr (changeValue a) = true) :
    ∃ o0 rest, cs = o0 :: rest ∧
      (o0.amount.ma = [] ∨ vlen o0.amount + coinLen (probeCoin P a.addr (changeValue a).coin o0.amount.ma)
          ≤ P.maxValSize + coinLen o0.amount.coin) ∧
      ∀ o ∈ rest, o.amount.ma = [] ∨
        vlen o.amount + coinLen (probeCoin P a.addr 0 o.amount.ma) ≤ P.maxValSize + coinLen o.amount.coin := by
  obtain ⟨hne, hfit, _⟩ := calcChange_arrFit P a cs h hs
  cases cs with
  | nil => exact absurd rfl hne
  | cons o0 rest =>
    refine ⟨o0, rest, rfl, ?_, ?_⟩
    · rcases hfit.1 with h1 | h1
      · exact Or.inl h1
      · exact Or.inr (h1 o0.amount.coin)
    · intro o ho
      rcases hfit.2 o.amount.ma (by simp only [List.mem_map]; exact ⟨o, ho, rfl⟩) with h1 | h1
      · exact Or.inl h1
      · exact Or.inr (h1 o.amount.coin)

/-- **every change output except the first and the last fits**, no side condition: it is funded with exactly the coin
it was measured with -/
theorem change_fit_middle (P : Params) (a : ChangeArgs) (cs : List Output) (h : calcChange P a = .ok cs)
    (hs : noSingleOver P a.addr (changeValue a) = true) (o0 ol : Output) (mid : List Output)
    (hcs : cs = o0 :: (mid ++ [ol])) : ∀ o ∈ mid, o.amount.ma = [] ∨ vlen o.amount ≤ P.maxValSize := by
  obtain ⟨_, _, hcoin⟩ := calcChange_arrFit P a cs h hs
  obtain ⟨o0', rest', hl, _, hr⟩ := change_fit_partial P a cs h hs
  rw [hcs] at hl hcoin
  obtain ⟨rfl, rfl⟩ : o0 = o0' ∧ mid ++ [ol] = rest' := by simpa using hl
  intro o ho
  have hdl : (o0 :: (mid ++ [ol])).dropLast = o0 :: mid := by
    rw [List.dropLast_cons_of_ne_nil (by simp)]; simp
  have hc := hcoin o (by rw [hdl]; simp [ho])
  rcases hr o (by simp [ho]) with h1 | h1
  · exact Or.inl h1
  · right
    unfold probeCoin at h1
    rw [← hc] at h1
    omega

/-- **all change outputs fit when each holds less than 2^32 lovelace** (4 294.967296 ADA) and coins-per-byte is at least
410 (mainnet: 4 310): the probe coin then takes at least 5 bytes and the final coin at most 5 -/
theorem change_fit_below_2pow32 (P : Params) (a : ChangeArgs) (cs : List Output) (h : calcChange P a = .ok cs)
    (hs : noSingleOver P a.addr (changeValue a) = true) (hcpb : 410 ≤ P.cpb)
    (hc : ∀ o ∈ cs, 0 ≤ o.amount.coin ∧ o.amount.coin < 4294967296) :
    ∀ o ∈ cs, o.amount.ma = [] ∨ vlen o.amount ≤ P.maxValSize := by
  obtain ⟨o0, rest, hl, h0, hr⟩ := change_fit_partial P a cs h hs
  have wide : ∀ c m, 5 ≤ coinLen (probeCoin P a.addr c m) := by
    intro c m
    apply coinLen_ge5
    have := minAda_ge P a.addr ⟨c, m⟩ (by omega)
    unfold probeCoin
    omega
  intro o ho
  have hn := coinLen_le5 o.amount.coin (hc o ho).1 (hc o ho).2
  rw [hl] at ho
  simp only [List.mem_cons] at ho
  rcases ho with rfl | ho
  · rcases h0 with h1 | h1
    · exact Or.inl h1
    · right; have := wide (changeValue a).coin o.amount.ma; omega
  · rcases hr o ho with h1 | h1
    · exact Or.inl h1
    · right; have := wide 0 o.amount.ma; omega

/-- with no single oversized asset the change outputs hold exactly `provided − requested`, for ADA and for every asset:
`calcChange_sum` (C06 / C08) without its hypothesis on the `break` -/
theorem change_sum_of_fit (P : Params) (a : ChangeArgs) (cs : List Output) (h : calcChange P a = .ok cs) (hw : ArgsWF a)
    (hs : noSingleOver P a.addr (changeValue a) = true) :
    sumCoin cs = (provided a).coin - (requested a).coin ∧
    ∀ p n, sumAsset cs p n = MultiAsset.qty (provided a).ma p n - MultiAsset.qty (requested a).ma p n :=
  calcChange_sum P a cs h hw (calcChange_nobreak P a hs)

/-- one asset with a 4-byte name, and 2^32 lovelace (+ the fee) of ADA: the change is one output -/
def wArgs : ChangeArgs :=
  { fee := 170000
    inputs := [⟨4294967296 + 170000, [(wPol, [([1, 2, 3, 4], 1)])]⟩]
    outputs := []
    mint := []
    withdrawals := []
    deposits := 0
    addr := wAddr
    respect := true }

/-- **the fit clause is false of the code as it is**: the bundle was measured at 44 ≤ 45 bytes with its 5-byte minimum
ADA (1 043 020 lovelace); the change output then receives ALL the ADA, 2^32 lovelace, a 9-byte coin: 48 bytes -/
theorem change_fit_counterexample : ¬ change_fit_goal := by
  intro h
  have key : (match calcChange wP wArgs with
      | .ok cs => noSingleOver wP wArgs.addr (changeValue wArgs) && !allFit wP cs
      | .error _ => false) = true := by decide +kernel
  cases hc : calcChange wP wArgs with
  | error e => rw [hc] at key; simp at key
  | ok cs =>
    rw [hc] at key
    simp only [Bool.and_eq_true, Bool.not_eq_true'] at key
    have := h wP wArgs cs hc key.1
    rw [key.2] at this
    simp at this

/-! ## non-vacuity, evaluated by the kernel -/

/-- the hypotheses of `change_fit_partial` / `change_fit_below_2pow32` are met by a run that splits a bundle over three
outputs, all of which fit (11 assets over 3 policies, limit 60 bytes: values of 56, 59 and 47 bytes) -/
def exP : Params := { cpb := 4310, maxValSize := 60, keyDeposit := 2000000, poolDeposit := 500000000 }
def exPol (i : Nat) : Bytes := List.replicate 28 (UInt8.ofNat (0xd0 + i))
def exArgs : ChangeArgs :=
  { fee := 170000
    inputs := [⟨9000000, [(exPol 0, [([1], 3), ([2, 2], 4), ([3, 3, 3], 5), ([4, 4, 4, 4], 6)]),
                          (exPol 1, [([5], 70000), ([6, 6], 1), ([7, 7, 7], 2), ([8], 300)]),
                          (exPol 2, [([9], 1), ([10], 1), ([11], 1)])]⟩]
    outputs := []
    mint := []
    withdrawals := []
    deposits := 0
    addr := wAddr
    respect := true }

example : (match calcChange exP exArgs with
    | .ok cs => noSingleOver exP exArgs.addr (changeValue exArgs) && allFit exP cs && decide (cs.length = 3)
        && cs.all (fun o => decide (0 ≤ o.amount.coin ∧ o.amount.coin < 4294967296))
    | .error _ => false) = true := by decide +kernel

/-- … and the remaining hypotheses (`ArgsWF`, positivity, a non-empty bundle) hold of the same run -/
example : ArgsWF exArgs := by
  unfold ArgsWF MultiAsset.WF Dict.WF
  decide +kernel
example : MultiAsset.Pos (changeValue exArgs).ma := changeValue_pos exArgs
example : (changeValue exArgs).ma ≠ [] := by decide +kernel

/-- an asset too big on its own that is NOT the last of its policy is emitted alone in an oversized chunk (73 > 45), after
an empty first chunk; nothing is lost -/
def wBig2 : Value := ⟨5000000, [(wPol, [(wName32, 7), ([0xbb], 1)])]⟩
example : (packTokens wP wAddr wBig2).1 = [[], [(wPol, [(wName32, 7)])], [(wPol, [([0xbb], 1)])]]
    ∧ (packTokens wP wAddr wBig2).2 = false ∧ probeLen wP wAddr 0 [(wPol, [(wName32, 7)])] = 73 := by decide +kernel

example : MultiAsset.WF wBig2.ma ∧ MultiAsset.Pos wBig2.ma := by
  unfold MultiAsset.WF Dict.WF MultiAsset.Pos
  decide +kernel

/-- … and when it IS the last of its policy the `break` drops it together with every remaining policy -/
example : (packTokens wP wAddr wBig).1 = [[], []] ∧ (packTokens wP wAddr wBig).2 = true := by decide +kernel

end Pyc.C08.PackFit

#print axioms Pyc.C08.PackFit.value_size_split
#print axioms Pyc.C08.PackFit.size_order_independent
#print axioms Pyc.C08.PackFit.probe_measures
#print axioms Pyc.C08.PackFit.probe_is_stored_size
#print axioms Pyc.C08.PackFit.chunk_provenance
#print axioms Pyc.C08.PackFit.oversized_chunk_is_single
#print axioms Pyc.C08.PackFit.pack_fit_partial
#print axioms Pyc.C08.PackFit.pack_fit_own_min
#print axioms Pyc.C08.PackFit.pack_no_break
#print axioms Pyc.C08.PackFit.pack_preserves_of_fit
#print axioms Pyc.C08.PackFit.pack_preserves_counterexample
#print axioms Pyc.C08.PackFit.pack_nonempty
#print axioms Pyc.C08.PackFit.pack_chunks_bounded
#print axioms Pyc.C08.PackFit.change_fit_partial
#print axioms Pyc.C08.PackFit.change_fit_middle
#print axioms Pyc.C08.PackFit.change_fit_below_2pow32
#print axioms Pyc.C08.PackFit.change_sum_of_fit
#print axioms Pyc.C08.PackFit.change_fit_counterexample
