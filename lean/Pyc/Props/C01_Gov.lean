import Pyc.Proofs.Gov

/-! # C01 (extension `Gov`) — credentials and governance items: decoding an encoded object returns an equal object

Model: `Model/Gov.lean` (transliteration of certificate.py `StakeCredential` / `DRepCredential`, `DRep`, `Anchor`;
governance.py `CommitteeColdCredential`, `GovActionId`, `VotingProcedure`, `Voter`, `GovActionIdToVotingProcedure`,
`VotingProcedures`, `HardForkInitiationAction`; pool_params.py `PoolId`).  In the generic codec model these classes are
opaque leaves; here they have their own round-trip theorems.  Every theorem is for ALL values; the hypotheses are the
decidable predicates `X.wf` ("what the constructors enforce of an object built from `bytes` / `int`": hash sizes, the
16-bit index, the staking-pool rule, major version 1..10) — for a `dict` class also its representation invariant (no
two equal keys).

Per class `X`:
* `X_roundtrip`        `X.fromItem x.toItem = ok x` (structural equality; for these classes it is Python's `==`, see below)
* `X_roundtrip_bytes`  the same through `to_cbor` / `from_cbor` (CBOR bytes, `serialization.loads`)
* `X_reencode`         for EVERY primitive `i` the decoder accepts — ill-typed payloads included — the decoded object is a
                       fixed point: it is written as an item that decodes to it again (so re-encoding a decoded object
                       is stable from the first re-encoding on)
* `X_injective`        different objects are written differently

Python equality.  The dataclass `__eq__` of these classes compares all fields, and `ConstrainedBytes.__eq__` compares the
PAYLOADS only, not the hash classes.  For `StakeCredential`, `Voter` the class of the hash object is determined by the
compared `_CODE`, so `==` is structural equality of the model.  For `DRep` it is weaker: `DRep(kind, ScriptHash(b)) ==
DRep(kind, VerificationKeyHash(b))`; `DRep.PyEq` is that relation and `drep_*_pyeq` say which theorem uses it.  The
`DRep` constructor relates `kind` and `credential` in no way: the full round-trip statement is FALSE of the code
(`drep_roundtrip_counterexample`), it holds for coherent objects (`drep_roundtrip_partial`) and up to `==` whenever kind
and arity agree (`drep_roundtrip_pyeq`).  `DictCBORSerializable.__eq__` is `dict` equality (order-free): `GovVotes.PyEq`,
`VotingProcedures.PyEq`. -/

namespace Pyc.C01.Gov
open Pyc Pyc.Cbor Pyc.Codec Pyc.Gov

/-! ## `StakeCredential` / `DRepCredential` / `CommitteeColdCredential` -/

theorem cred_roundtrip (c : Cred) (h : c.wf = true) : Cred.fromItem c.toItem = .ok c := cred_rt c h

theorem cred_roundtrip_bytes (c : Cred) (h : c.wf = true) : fromBytes Cred.fromItem (encode c.toItem) = .ok c := by
  simp [fromBytes, loads_encode _ (cred_item_wf c h) (cred_item_hashable c h), cred_rt c h]

theorem cred_reencode (i : Item) (c : Cred) (h : Cred.fromItem i = .ok c) : Cred.fromItem c.toItem = .ok c :=
  cred_stable i c h

theorem cred_injective (a b : Cred) (h : a.toItem = b.toItem) : a = b := cred_inj a b h

theorem cred_injective_bytes (a b : Cred) (ha : a.wf = true) (hb : b.wf = true) (h : encode a.toItem = encode b.toItem) :
    a = b :=
  cred_inj a b (encode_inj _ _ (cred_item_wf a ha) (cred_item_wf b hb) h)

/-- the kind code is the one the class of the hash object prescribes, in both directions -/
theorem cred_code (c : Cred) (h : c.wf = true) :
    ∃ b, c.toItem = .array [.uint (if c.isKey then 0 else 1), .bytes b] ∧ b.length = 28 := by
  obtain ⟨k, p⟩ := c
  obtain ⟨b, rfl, hb⟩ := (isHashB_iff 28 p).1 h
  exact ⟨b, rfl, hb⟩

/-! ## `DRep` -/

/-- the full statement: every `DRep` the constructor accepts (a kind, and `None` or a hash object) round-trips -/
def drep_roundtrip_goal : Prop := ∀ d : DRep, d.typed = true → DRep.fromItem d.toItem = .ok d

/-- … it does for the objects whose credential is the one the kind calls for -/
theorem drep_roundtrip_partial (d : DRep) (ht : d.typed = true) (hc : d.coherent = true) : DRep.fromItem d.toItem = .ok d :=
  drep_rt d ht hc

/-- `DRep(DRepKind.ALWAYS_ABSTAIN, VerificationKeyHash(bytes(28)))`: written as `[2, h]`, read back without credential -/
def exAbstainWithCred : DRep := ⟨.alwaysAbstain, some (true, .bytes (List.replicate 28 0))⟩
/-- `DRep(DRepKind.VERIFICATION_KEY_HASH)`: written as `[0]`, which the decoder cannot index -/
def exKeyWithoutCred : DRep := ⟨.keyHash, Option.none⟩

theorem drep_roundtrip_counterexample : ¬ drep_roundtrip_goal := by
  intro h
  have := h exAbstainWithCred rfl
  simp [exAbstainWithCred, DRep.toItem, DRep.fromItem, DRepKind.code, DRepKind.ofNum?] at this

/-- the other way the statement fails: `IndexError` -/
theorem drep_roundtrip_crash : exKeyWithoutCred.typed = true ∧ DRep.fromItem exKeyWithoutCred.toItem = .crash := by
  simp [exKeyWithoutCred, DRep.typed, DRep.toItem, DRep.fromItem, DRepKind.code, DRepKind.ofNum?]

/-- under Python's `==` (payloads compared, hash classes not): kind and arity agree ⇒ the decoded object equals the
original, and it is the coherent one -/
theorem drep_roundtrip_pyeq (d : DRep) (ht : d.typed = true) (ha : d.arityOk = true) :
    ∃ d', DRep.fromItem d.toItem = .ok d' ∧ DRep.PyEq d' d ∧ d'.coherent = true := drep_rt_arity d ht ha

theorem drep_roundtrip_bytes (d : DRep) (ht : d.typed = true) (hc : d.coherent = true) :
    fromBytes DRep.fromItem (encode d.toItem) = .ok d := by
  simp [fromBytes, loads_encode _ (drep_item_wf d ht) (drep_item_hashable d ht), drep_rt d ht hc]

theorem drep_reencode (i : Item) (d : DRep) (h : DRep.fromItem i = .ok d) : DRep.fromItem d.toItem = .ok d :=
  drep_stable i d h

/-- whatever the decoder returns is coherent -/
theorem drep_decoded_coherent (i : Item) (d : DRep) (h : DRep.fromItem i = .ok d) : d.coherent = true :=
  Pyc.Gov.drep_decoded_coherent i d h

/-- two `DRep`s are written alike exactly when they are `==` (for ALL objects, coherent or not) -/
theorem drep_injective_pyeq (a b : DRep) : a.toItem = b.toItem ↔ DRep.PyEq a b := drep_item_eq_iff a b

/-- … hence equal when both are coherent -/
theorem drep_injective (a b : DRep) (ha : a.coherent = true) (hb : b.coherent = true) (h : a.toItem = b.toItem) : a = b := by
  obtain ⟨h1, h2⟩ := (drep_item_eq_iff a b).1 h
  obtain ⟨ka, ca⟩ := a
  obtain ⟨kb, cb⟩ := b
  simp only at h1 h2
  subst h1
  cases ca with
  | none => cases cb with
    | none => rfl
    | some q => simp at h2
  | some p =>
    cases cb with
    | none => simp at h2
    | some q =>
      obtain ⟨x, px⟩ := p
      obtain ⟨y, py⟩ := q
      simp only [Option.map_some, Option.some.injEq] at h2
      subst h2
      cases ka <;> cases x <;> cases y <;> simp_all [DRep.coherent]

/-! ## `Voter` -/

theorem voter_roundtrip (v : Voter) (h : v.wf = true) : Voter.fromItem v.toItem = .ok v := voter_rt v h

theorem voter_roundtrip_bytes (v : Voter) (h : v.wf = true) : fromBytes Voter.fromItem (encode v.toItem) = .ok v := by
  simp [fromBytes, loads_encode _ (voter_item_wf v h) (voter_item_hashable v h), voter_rt v h]

theorem voter_reencode (i : Item) (v : Voter) (h : Voter.fromItem i = .ok v) : Voter.fromItem v.toItem = .ok v :=
  voter_stable i v h

/-- whatever the decoder returns is an object the constructor accepts (a staking-pool voter holds a key hash) -/
theorem voter_decoded_constructible (i : Item) (v : Voter) (h : Voter.fromItem i = .ok v) :
    (v.vtype != .stakingPool || v.isKey) = true := Pyc.Gov.voter_decoded_constructible i v h

theorem voter_injective (a b : Voter) (ha : a.wf = true) (hb : b.wf = true) (h : a.toItem = b.toItem) : a = b :=
  voter_inj a b ha hb h

/-- the five kinds are written with five different codes: the code table is a bijection on constructible voters -/
theorem voter_code_table (v : Voter) (h : v.wf = true) :
    v.code = (match v.vtype, v.isKey with
      | .committeeHot, true => 0 | .committeeHot, false => 1 | .drep, true => 2 | .drep, false => 3
      | .stakingPool, _ => 4) := by
  obtain ⟨t, k, p⟩ := v
  cases t <;> cases k <;> simp [Voter.code]

/-! ## `Anchor`, `VotingProcedure`, `GovActionId` -/

theorem anchor_roundtrip (a : Anchor) (h : a.wf = true) : Anchor.fromItem a.toItem = .ok a := anchor_rt a h

theorem anchor_roundtrip_bytes (a : Anchor) (h : a.wf = true) (hu : a.url.length < 2 ^ 64) :
    fromBytes Anchor.fromItem (encode a.toItem) = .ok a := by
  simp [fromBytes, loads_encode _ (anchor_item_wf a h hu) (anchor_item_hashable a), anchor_rt a h]

theorem anchor_reencode (i : Item) (a : Anchor) (h : Anchor.fromItem i = .ok a) : Anchor.fromItem a.toItem = .ok a :=
  anchor_stable i a h

theorem anchor_injective (a b : Anchor) (h : a.toItem = b.toItem) : a = b := anchor_inj a b h

theorem vp_roundtrip (p : VotingProcedure) (h : p.wf = true) : VotingProcedure.fromItem p.toItem = .ok p := vp_rt p h

theorem vp_roundtrip_bytes (p : VotingProcedure) (h : p.wf = true) (hu : ∀ a, p.anchor = some a → a.url.length < 2 ^ 64) :
    fromBytes VotingProcedure.fromItem (encode p.toItem) = .ok p := by
  simp [fromBytes, loads_encode _ (vp_item_wf p h hu) (vp_item_hashable p), vp_rt p h]

theorem vp_reencode (i : Item) (p : VotingProcedure) (h : VotingProcedure.fromItem i = .ok p) :
    VotingProcedure.fromItem p.toItem = .ok p := vp_stable i p h

theorem vp_injective (a b : VotingProcedure) (h : a.toItem = b.toItem) : a = b := vp_inj a b h

/-- the anchor is on the wire whatever the vote, `None` as null -/
theorem vp_anchor_kept (p : VotingProcedure) :
    p.toItem = .array [.uint p.vote.code, match p.anchor with | some a => a.toItem | Option.none => .simple 22] := rfl

theorem gaid_roundtrip (g : GovActionId) (h : g.wf = true) : GovActionId.fromItem g.toItem = .ok g := gaid_rt g h

theorem gaid_roundtrip_bytes (g : GovActionId) (h : g.wf = true) : fromBytes GovActionId.fromItem (encode g.toItem) = .ok g := by
  simp [fromBytes, loads_encode _ (gaid_item_wf g h) (gaid_item_hashable g h), gaid_rt g h]

theorem gaid_reencode (i : Item) (g : GovActionId) (h : GovActionId.fromItem i = .ok g) :
    GovActionId.fromItem g.toItem = .ok g := gaid_stable i g h

theorem gaid_injective (a b : GovActionId) (h : a.toItem = b.toItem) : a = b := gaid_inj a b h

/-! ## `HardForkInitiationAction` -/

theorem hardfork_roundtrip (x : HardFork) (h : x.wf = true) : HardFork.fromItem x.toItem = .ok x := hardfork_rt x h

/-- the minor version may be a Python int of any size or sign (cbor2 writes bignum tags beyond 64 bits): still a round trip -/
theorem hardfork_roundtrip_anyint (p : Option GovActionId) (n : Nat) (v : Int)
    (hp : ∀ g, p = some g → g.wf = true) (hn : 1 ≤ n ∧ n ≤ 10) :
    HardFork.fromItem (HardFork.toItem ⟨p, .uint n, ofInt v⟩) = .ok ⟨p, .uint n, ofInt v⟩ := hardfork_rt_int p n v hp hn

theorem hardfork_roundtrip_bytes (x : HardFork) (h : x.wf = true) : fromBytes HardFork.fromItem (encode x.toItem) = .ok x := by
  simp [fromBytes, loads_encode _ (hardfork_item_wf x h) (hardfork_item_hashable x h), hardfork_rt x h]

theorem hardfork_reencode (i : Item) (x : HardFork) (h : HardFork.fromItem i = .ok x) : HardFork.fromItem x.toItem = .ok x :=
  hardfork_stable i x h

theorem hardfork_injective (a b : HardFork) (h : a.toItem = b.toItem) : a = b := hardfork_inj a b h

/-! ## `GovActionIdToVotingProcedure`, `VotingProcedures` -/

/-- decoding the encoding of a dict returns its entries in canonical (wire) order -/
theorem votes_roundtrip (m : GovVotes) (hw : GovVotes.wf m = true) (hd : DistinctKeys GovActionId.toItem m) :
    GovVotes.fromItem (GovVotes.toItem m) = .ok (GovVotes.canon m) := votes_rt m hw hd

/-- **combined theorem**: a map voter → (map action id → procedure), every entry well-formed, the `dict` invariant at
both levels: decoding the encoding returns the canonical reordering at both levels … -/
theorem vps_roundtrip (m : VotingProcedures) (hw : VotingProcedures.wf m = true) (hd : VotingProcedures.Distinct m) :
    VotingProcedures.fromItem (VotingProcedures.toItem m) = .ok (VotingProcedures.canon m) := vps_rt m hw hd

/-- … which is equal to the original under the equality Python uses (`dict` equality at both levels) -/
theorem vps_roundtrip_pyeq (m : VotingProcedures) (hw : VotingProcedures.wf m = true) (hd : VotingProcedures.Distinct m) :
    ∃ m', VotingProcedures.fromItem (VotingProcedures.toItem m) = .ok m' ∧ VotingProcedures.PyEq m' m :=
  ⟨_, vps_rt m hw hd, vps_canon_pyeq m⟩

theorem vps_roundtrip_bytes (m : VotingProcedures) (hw : VotingProcedures.wf m = true) (hd : VotingProcedures.Distinct m)
    (hs : VotingProcedures.Sized m) :
    fromBytes VotingProcedures.fromItem (encode (VotingProcedures.toItem m)) = .ok (VotingProcedures.canon m) := by
  simp [fromBytes, loads_encode _ (vps_item_wf m hw hs) (vps_item_hashable m hw), vps_rt m hw hd]

/-- re-encoding the decoded dict gives the same item (hence the same bytes) -/
theorem vps_reencode (m : VotingProcedures) :
    VotingProcedures.toItem (VotingProcedures.canon m) = VotingProcedures.toItem m := Pyc.Gov.vps_reencode m

/-- the emitted item does not depend on insertion order, at either level: `==` dicts are written alike -/
theorem vps_order_independent (a b : VotingProcedures) (hd : VotingProcedures.Distinct a) (h : VotingProcedures.PyEq a b) :
    VotingProcedures.toItem a = VotingProcedures.toItem b := Pyc.Gov.vps_order_independent a b hd h

/-- canonical key order as the code emits it: the keys of the outer map, and of every inner map, are strictly
increasing in the order (length of the encoded key, encoded key) -/
theorem vps_canonical_order (m : VotingProcedures) (hd : VotingProcedures.Distinct m) :
    (∃ kvs, VotingProcedures.toItem m = .map kvs ∧ StrictlySorted kvs ∧ kvs.length = m.length) ∧
    ∀ p ∈ m, ∃ kvs, GovVotes.toItem p.2 = .map kvs ∧ StrictlySorted kvs ∧ kvs.length = p.2.length :=
  ⟨encDict_sorted _ _ m hd.1, fun p hp => encDict_sorted _ _ p.2 (hd.2 p hp)⟩

/-- dicts written alike have the same canonical form (so they are `==`) -/
theorem vps_injective (a b : VotingProcedures) (ha : VotingProcedures.wf a = true) (hb : VotingProcedures.wf b = true)
    (da : VotingProcedures.Distinct a) (db : VotingProcedures.Distinct b)
    (h : VotingProcedures.toItem a = VotingProcedures.toItem b) : VotingProcedures.canon a = VotingProcedures.canon b := by
  have h1 := vps_rt a ha da
  have h2 := vps_rt b hb db
  rw [h, h2] at h1
  exact (Res.ok.inj h1).symm

theorem votes_injective (a b : GovVotes) (ha : GovVotes.wf a = true) (hb : GovVotes.wf b = true)
    (da : DistinctKeys GovActionId.toItem a) (db : DistinctKeys GovActionId.toItem b)
    (h : GovVotes.toItem a = GovVotes.toItem b) : GovVotes.PyEq a b := by
  have h1 := votes_rt a ha da
  have h2 := votes_rt b hb db
  rw [h, h2] at h1
  have hc : GovVotes.canon b = GovVotes.canon a := Res.ok.inj h1
  exact ((votes_canon_pyeq a).symm.trans (hc ▸ List.Perm.refl _)).trans (votes_canon_pyeq b)

/-! ## `PoolId` (text form: a bech32 string with a prefix that starts with `pool`) -/

theorem poolid_roundtrip (p : PoolId) (h : p.wf = true) : PoolId.fromItem p.toItem = .ok p := poolid_rt p h

theorem poolid_roundtrip_bytes (p : PoolId) (h : p.wf = true) (hl : p.value.length < 2 ^ 64) :
    fromBytes PoolId.fromItem (encode p.toItem) = .ok p := by
  have hk : keysHashable p.toItem = true := by simp [PoolId.toItem, keysHashable]
  simp [fromBytes, loads_encode _ (poolid_item_wf p hl) hk, poolid_rt p h]

theorem poolid_injective (a b : PoolId) (ha : a.wf = true) (hb : b.wf = true) (h : a.toItem = b.toItem) : a = b := by
  obtain ⟨s⟩ := a
  obtain ⟨t⟩ := b
  simp only [PoolId.toItem, Item.text.injEq] at h
  have := bytes_of_chars_inj s t (fun c hc => (isPoolId_ascii s ha c hc).2) (fun c hc => (isPoolId_ascii t hb c hc).2) h
  simp [this]

/-- an accepted pool id is printable ASCII (one byte per character on the wire) -/
theorem poolid_ascii (p : PoolId) (h : p.wf = true) : ∀ c ∈ p.value, 33 ≤ c.toNat ∧ c.toNat ≤ 126 :=
  isPoolId_ascii p.value h

/-- text form of every key hash: the library's bech32 encoder with the prefix `pool` yields a string that `PoolId`
accepts, and that string decodes (bech32) to the bytes (`Bech32.decode_encode`, C15) -/
theorem poolid_of_bytes (bs : Bytes) (h2 : 2 ≤ bs.length) :
    ∃ s, Bech32.encode "pool".toList bs = some s ∧ (PoolId.mk s).wf = true ∧
      Bech32.decode s = .ok (bs.map UInt8.toNat) := by
  obtain ⟨s, he, hp⟩ := Pyc.Gov.poolid_of_bytes bs
  exact ⟨s, he, hp, Bech32.decode_encode _ bs hrpOk_pool h2 s he⟩

/-! ## non-vacuity: concrete values meeting the hypotheses -/

def exHash28 : Bytes := List.replicate 28 7
def exHash32 : Bytes := List.replicate 32 9
def exCredKey : Cred := ⟨true, .bytes exHash28⟩
def exCredScript : Cred := ⟨false, .bytes exHash28⟩
def exDRepScript : DRep := ⟨.scriptHash, some (false, .bytes exHash28)⟩
def exDRepMismatch : DRep := ⟨.scriptHash, some (true, .bytes exHash28)⟩       -- `DRep(SCRIPT_HASH, VerificationKeyHash(h))`
def exVoterPool : Voter := ⟨.stakingPool, true, .bytes exHash28⟩
def exVoterDrepScript : Voter := ⟨.drep, false, .bytes exHash28⟩
def exAnchor : Anchor := ⟨[104, 116, 116, 112], exHash32⟩
def exVP : VotingProcedure := ⟨.abstain, some exAnchor⟩
def exGaid : GovActionId := ⟨.bytes exHash32, .uint 65535⟩
def exGaid2 : GovActionId := ⟨.bytes exHash32, .uint 5⟩
def exHardFork : HardFork := ⟨some exGaid, .uint 10, .uint 4294967296⟩
def exVotes : GovVotes := [(exGaid, exVP), (exGaid2, ⟨.no, Option.none⟩)]
def exVPs : VotingProcedures := [(exVoterPool, exVotes), (exVoterDrepScript, [])]

example : exCredKey.wf = true ∧ exCredScript.wf = true := by decide
example : exCredKey.toItem ≠ exCredScript.toItem := by simp [exCredKey, exCredScript, Cred.toItem, Cred.code]
example : exDRepScript.typed = true ∧ exDRepScript.coherent = true := by decide
example : exDRepMismatch.typed = true ∧ exDRepMismatch.arityOk = true ∧ exDRepMismatch.coherent = false := by decide
example : exAbstainWithCred.typed = true ∧ exAbstainWithCred.arityOk = false := by decide
example : exVoterPool.wf = true ∧ exVoterDrepScript.wf = true := by decide
example : (⟨.stakingPool, false, .bytes exHash28⟩ : Voter).wf = false := by decide
example : exVP.wf = true ∧ exGaid.wf = true ∧ exHardFork.wf = true := by decide
example : (⟨.bytes exHash32, .uint 65536⟩ : GovActionId).wf = false := by decide
example : VotingProcedures.wf exVPs = true := by decide
example : VotingProcedures.Distinct exVPs := by
  refine ⟨by unfold DistinctKeys; decide, ?_⟩
  intro p hp
  simp only [exVPs, List.mem_cons, List.mem_nil_iff, or_false] at hp
  rcases hp with rfl | rfl <;> (unfold DistinctKeys; decide)
/-- the canonical order differs from the insertion order (index 5 is written before index 65535, the drep voter before
the pool voter): the round trip of this value is a genuine reordering -/
example : (VotingProcedures.canon exVPs).map (fun p => p.1.code) = [3, 4] ∧
    (GovVotes.canon exVotes).map (fun p => encode p.1.idx) = [[5], [0x19, 0xff, 0xff]] := by decide
example : (PoolId.mk "pool1ntausa".toList).wf = true := by decide +kernel

end Pyc.C01.Gov

#print axioms Pyc.C01.Gov.cred_roundtrip
#print axioms Pyc.C01.Gov.cred_roundtrip_bytes
#print axioms Pyc.C01.Gov.cred_reencode
#print axioms Pyc.C01.Gov.cred_injective
#print axioms Pyc.C01.Gov.cred_injective_bytes
#print axioms Pyc.C01.Gov.cred_code
#print axioms Pyc.C01.Gov.drep_roundtrip_partial
#print axioms Pyc.C01.Gov.drep_roundtrip_counterexample
#print axioms Pyc.C01.Gov.drep_roundtrip_crash
#print axioms Pyc.C01.Gov.drep_roundtrip_pyeq
#print axioms Pyc.C01.Gov.drep_roundtrip_bytes
#print axioms Pyc.C01.Gov.drep_reencode
#print axioms Pyc.C01.Gov.drep_decoded_coherent
#print axioms Pyc.C01.Gov.drep_injective_pyeq
#print axioms Pyc.C01.Gov.drep_injective
#print axioms Pyc.C01.Gov.voter_roundtrip
#print axioms Pyc.C01.Gov.voter_roundtrip_bytes
#print axioms Pyc.C01.Gov.voter_reencode
#print axioms Pyc.C01.Gov.voter_decoded_constructible
#print axioms Pyc.C01.Gov.voter_injective
#print axioms Pyc.C01.Gov.voter_code_table
#print axioms Pyc.C01.Gov.anchor_roundtrip
#print axioms Pyc.C01.Gov.anchor_roundtrip_bytes
#print axioms Pyc.C01.Gov.anchor_reencode
#print axioms Pyc.C01.Gov.anchor_injective
#print axioms Pyc.C01.Gov.vp_roundtrip
#print axioms Pyc.C01.Gov.vp_roundtrip_bytes
#print axioms Pyc.C01.Gov.vp_reencode
#print axioms Pyc.C01.Gov.vp_injective
#print axioms Pyc.C01.Gov.vp_anchor_kept
#print axioms Pyc.C01.Gov.gaid_roundtrip
#print axioms Pyc.C01.Gov.gaid_roundtrip_bytes
#print axioms Pyc.C01.Gov.gaid_reencode
#print axioms Pyc.C01.Gov.gaid_injective
#print axioms Pyc.C01.Gov.hardfork_roundtrip
#print axioms Pyc.C01.Gov.hardfork_roundtrip_anyint
#print axioms Pyc.C01.Gov.hardfork_roundtrip_bytes
#print axioms Pyc.C01.Gov.hardfork_reencode
#print axioms Pyc.C01.Gov.hardfork_injective
#print axioms Pyc.C01.Gov.votes_roundtrip
#print axioms Pyc.C01.Gov.vps_roundtrip
#print axioms Pyc.C01.Gov.vps_roundtrip_pyeq
#print axioms Pyc.C01.Gov.vps_roundtrip_bytes
#print axioms Pyc.C01.Gov.vps_reencode
#print axioms Pyc.C01.Gov.vps_order_independent
#print axioms Pyc.C01.Gov.vps_canonical_order
#print axioms Pyc.C01.Gov.vps_injective
#print axioms Pyc.C01.Gov.votes_injective
#print axioms Pyc.C01.Gov.poolid_roundtrip
#print axioms Pyc.C01.Gov.poolid_roundtrip_bytes
#print axioms Pyc.C01.Gov.poolid_injective
#print axioms Pyc.C01.Gov.poolid_ascii
#print axioms Pyc.C01.Gov.poolid_of_bytes
