import Pyc.Proofs.Value

/-! # C05 — value arithmetic is exact component-wise integer arithmetic

Property theorems only.  The model (`Pyc/Model/Value.lean`) transliterates `Asset`, `MultiAsset`, `Value`
of pycardano/transaction.py; `Value.qty v p n` / `v.coin` is the abstraction to "map from asset to integer".
`WF` is the representation invariant of Python dicts (unique keys) — every dict satisfies it. -/

namespace Pyc.C05
open Pyc Pyc.Value

/-- sums are exact per asset, over unbounded integers -/
theorem add_exact (a b : Value) (ha : WF a) (hb : WF b) :
    (add a b).coin = a.coin + b.coin ∧ ∀ p n, qty (add a b) p n = qty a p n + qty b p n :=
  ⟨rfl, fun p n => MultiAsset.qty_add a.ma b.ma p n ha hb⟩

/-- differences are exact per asset -/
theorem sub_exact (a b : Value) (ha : WF a) (hb : WF b) :
    (sub a b).coin = a.coin - b.coin ∧ ∀ p n, qty (sub a b) p n = qty a p n - qty b p n :=
  ⟨rfl, fun p n => MultiAsset.qty_sub a.ma b.ma p n ha hb⟩

/-- results never contain zero-quantity entries or empty policies, whatever the operands contain -/
theorem results_normal (a b : Value) : Normal (add a b) ∧ Normal (sub a b) :=
  ⟨MultiAsset.normal_add _ _, MultiAsset.normal_sub _ _⟩

/-- results are again well-formed dicts -/
theorem results_wf (a b : Value) (ha : WF a) : WF (add a b) ∧ WF (sub a b) :=
  ⟨MultiAsset.wf_add _ _ ha, MultiAsset.wf_sub _ _ ha⟩

/-- `==` is component-wise equality on normal values (what every arithmetic result and decode is) -/
theorem eq_componentwise (a b : Value) (ha : WF a) (hb : WF b) (na : Normal a) (nb : Normal b) :
    eq a b = true ↔ (a.coin = b.coin ∧ ∀ p n, qty a p n = qty b p n) := Value.eq_iff a b ha hb na nb

/-- GOAL (full strength): `<=` is the component-wise order. -/
def le_componentwise_goal : Prop :=
  ∀ a b : Value, WF a → WF b → Normal a → Normal b →
    (le a b = true ↔ (a.coin ≤ b.coin ∧ ∀ p n, qty a p n ≤ qty b p n))

/-- proved part: `<=` is component-wise when the left operand stores positive and the right
non-negative quantities (every value of the ledger; differences may leave this region) -/
theorem le_componentwise_partial (a b : Value) (ha : WF a) (hb : WF b)
    (pa : MultiAsset.Pos a.ma) (pb : MultiAsset.NonNeg b.ma) :
    le a b = true ↔ (a.coin ≤ b.coin ∧ ∀ p n, qty a p n ≤ qty b p n) := by
  unfold le qty
  simp only [Bool.and_eq_true, decide_eq_true_eq]
  rw [MultiAsset.le_iff_partial _ _ ha hb pa pb]

/-- the full-strength goal is false of the model (and of the pinned code): negative quantities -/
theorem le_componentwise_counterexample : ¬ le_componentwise_goal := by
  intro h
  have := (h ⟨0, [([1], [([2], -5)])]⟩ ⟨0, []⟩
    (by decide) (by decide) (by intro p hp; simp at hp; subst hp; simp [Asset.Normal]) (by intro p hp; simp at hp)).2
    ⟨by decide, by
      intro p n
      simp [qty, MultiAsset.qty, Dict.getD, Asset.qty]
      split <;> simp [Dict.getD] <;> split <;> simp⟩
  revert this; decide

private theorem same_eq (x y : Value) (hx : WF x) (hy : WF y) (nx : Normal x) (ny : Normal y)
    (h : Same x y) : eq x y = true := (Value.eq_iff x y hx hy nx ny).2 h

/-- a + b == b + a -/
theorem add_comm (a b : Value) (ha : WF a) (hb : WF b) : eq (add a b) (add b a) = true := by
  apply same_eq _ _ (results_wf a b ha).1 (results_wf b a hb).1 (results_normal a b).1 (results_normal b a).1
  refine ⟨?_, fun p n => ?_⟩
  · simp [add, Int.add_comm]
  · rw [(add_exact a b ha hb).2, (add_exact b a hb ha).2, Int.add_comm]

/-- (a + b) + c == a + (b + c) -/
theorem add_assoc (a b c : Value) (ha : WF a) (hb : WF b) (hc : WF c) :
    eq (add (add a b) c) (add a (add b c)) = true := by
  have hab := (results_wf a b ha).1
  have hbc := (results_wf b c hb).1
  apply same_eq _ _ (results_wf _ c hab).1 (results_wf a _ ha).1 (results_normal _ _).1 (results_normal _ _).1
  refine ⟨?_, fun p n => ?_⟩
  · simp [add, Int.add_assoc]
  · rw [(add_exact _ c hab hc).2, (add_exact a b ha hb).2, (add_exact a _ ha hbc).2, (add_exact b c hb hc).2,
      Int.add_assoc]

/-- a + b - b == a  (for normal `a`: `==` itself distinguishes a stored zero from an absent entry) -/
theorem add_sub_cancel (a b : Value) (ha : WF a) (hb : WF b) (na : Normal a) :
    eq (sub (add a b) b) a = true := by
  have hab := (results_wf a b ha).1
  apply same_eq _ _ (results_wf _ b hab).2 ha (results_normal _ _).2 na
  refine ⟨?_, fun p n => ?_⟩
  · simp [add, sub]
  · rw [(sub_exact _ b hab hb).2, (add_exact a b ha hb).2]; omega

/-- a - a == 0 -/
theorem sub_self (a : Value) (ha : WF a) : eq (sub a a) ⟨0, []⟩ = true := by
  apply same_eq _ ⟨0, []⟩ (results_wf a a ha).2 MultiAsset.wf_nil (results_normal _ _).2 (by intro p hp; simp at hp)
  refine ⟨?_, fun p n => ?_⟩
  · simp [sub]
  · rw [(sub_exact a a ha ha).2]; simp [qty, MultiAsset.qty, Dict.getD, Asset.qty]

/-- non-vacuity: a concrete well-formed, non-normal operand pair with overlapping policies and a
zero-crossing sum satisfies the hypotheses used above -/
example : WF ⟨5, [([1], [([2], 7), ([3], 0)]), ([4], [])]⟩ ∧ WF ⟨1, [([1], [([2], -7)])]⟩ ∧
    add ⟨5, [([1], [([2], 7), ([3], 0)]), ([4], [])]⟩ ⟨1, [([1], [([2], -7)])]⟩ = ⟨6, []⟩ := by decide

end Pyc.C05

#print axioms Pyc.C05.add_exact
#print axioms Pyc.C05.sub_exact
#print axioms Pyc.C05.results_normal
#print axioms Pyc.C05.results_wf
#print axioms Pyc.C05.eq_componentwise
#print axioms Pyc.C05.le_componentwise_partial
#print axioms Pyc.C05.le_componentwise_counterexample
#print axioms Pyc.C05.add_comm
#print axioms Pyc.C05.add_assoc
#print axioms Pyc.C05.add_sub_cancel
#print axioms Pyc.C05.sub_self
