import Pyc.Proofs.Value

/-! # C05 — value arithmetic is exact component-wise integer arithmetic

Property theorems only.  The model (`Pyc/Model/Value.lean`) transliterates `Asset`, `MultiAsset`, `Value`
of pycardano/transaction.py; `Value.qty v p n` / `v.coin` is the abstraction to "map from asset to integer".
`WF` is the representation invariant of Python dicts (unique keys) — every dict satisfies it. -/

namespace Pyc.C05
open Pyc Pyc.Value

/-- sums are exact per asset, over unbounded integers -/
theorem add_exact (a b : Value) (ha : WF a) (hb : WF b) :
    (add a b).coin = a.coin + b.coin ∧ ∀ p n, qty (add a b) p n = qty a p n + qty b p n :=
  ⟨rfl, fun p n => MultiAsset.qty_add a.ma b.ma p n ha hb⟩

/-- differences are exact per asset -/
theorem sub_exact (a b : Value) (ha : WF a) (hb : WF b) :
    (sub a b).coin = a.coin - b.coin ∧ ∀ p n, qty (sub a b) p n = qty a p n - qty b p n :=
  ⟨rfl, fun p n => MultiAsset.qty_sub a.ma b.ma p n ha hb⟩

/-- results never contain zero-quantity entries or empty policies, whatever the operands contain -/
theorem results_normal (a b : Value) : Normal (add a b) ∧ Normal (sub a b) :=
  ⟨MultiAsset.normal_add _ _, MultiAsset.normal_sub _ _⟩

/-- results are again well-formed dicts -/
theorem results_wf (a b : Value) (ha : WF a) : WF (add a b) ∧ WF (sub a b) :=
  ⟨MultiAsset.wf_add _ _ ha, MultiAsset.wf_sub _ _ ha⟩

/-- `==` is component-wise equality of contents (an asset absent on either side counts as 0, a policy absent on either
side as an empty `Asset`) — for ALL operands: no well-formedness or normality hypothesis; repeated keys, empty
policies, stored zeros and negative quantities on either side included.  (`Asset.__eq__` / `MultiAsset.__eq__` compare
over the union of the keys, like the repaired `<=`; before the repair they compared the stored dicts — length, then
entry by entry — so `Value(5, {p: {n: 0}}) != Value(5)`.) -/
theorem eq_iff (a b : Value) :
    eq a b = true ↔ (a.coin = b.coin ∧ ∀ p n, qty a p n = qty b p n) := Value.eq_iff a b

/-- (the name under which earlier revisions stated it, with hypotheses that are no longer needed) -/
theorem eq_componentwise (a b : Value) :
    eq a b = true ↔ (a.coin = b.coin ∧ ∀ p n, qty a p n = qty b p n) := Value.eq_iff a b

/-- `==` is an equivalence relation on all operands -/
theorem eq_refl (a : Value) : eq a a = true := (eq_iff a a).2 ⟨rfl, fun _ _ => rfl⟩
theorem eq_symm (a b : Value) (h : eq a b = true) : eq b a = true := by
  rw [eq_iff] at h ⊢; exact ⟨h.1.symm, fun p n => (h.2 p n).symm⟩
theorem eq_trans (a b c : Value) (h1 : eq a b = true) (h2 : eq b c = true) : eq a c = true := by
  rw [eq_iff] at h1 h2 ⊢; exact ⟨h1.1.trans h2.1, fun p n => (h1.2 p n).trans (h2.2 p n)⟩

/-- the inputs on which `==` was not component-wise before the repair, now answered by content: a stored zero, an empty
policy, both on either side; and a genuine difference is still a difference -/
example : eq ⟨5, [([1], [([2], 0)])]⟩ ⟨5, []⟩ = true ∧ eq ⟨5, []⟩ ⟨5, [([1], [([2], 0)])]⟩ = true := by decide
example : eq ⟨5, [([1], [])]⟩ ⟨5, []⟩ = true ∧ eq ⟨5, [([1], [([2], 3), ([3], 0)])]⟩ ⟨5, [([4], []), ([1], [([2], 3)])]⟩ = true := by
  decide
example : eq ⟨5, [([1], [([2], 3)])]⟩ ⟨5, [([1], [([2], 4)])]⟩ = false ∧ eq ⟨5, [([1], [([2], 3)])]⟩ ⟨5, []⟩ = false ∧
    eq ⟨5, []⟩ ⟨5, [([1], [([2], -1)])]⟩ = false ∧ eq ⟨5, []⟩ ⟨6, []⟩ = false := by decide

/-- `<=` is the component-wise order (an asset absent on either side counts as 0) — for ALL operands: no
well-formedness, normality or sign hypothesis; repeated keys, empty policies, stored zeros and negative quantities
on either side included.  (`Asset.__le__` / `MultiAsset.__le__` compare over the union of the keys; before the
repair they iterated over the keys of the left operand only: KF-C05-le-negative.) -/
theorem le_iff (a b : Value) :
    Value.le a b = true ↔ a.coin ≤ b.coin ∧ ∀ p n, qty a p n ≤ qty b p n := Value.le_iff a b

/-- `<` is `<=` and not `==` — for ALL operands (`Value.__lt__` is exactly that composition) -/
theorem lt_iff_le_ne (a b : Value) :
    Value.lt a b = true ↔ (a.coin ≤ b.coin ∧ ∀ p n, qty a p n ≤ qty b p n) ∧ Value.eq a b = false :=
  Value.lt_iff_le_ne a b

/-- `<` is the strict component-wise order — for ALL operands -/
theorem lt_iff (a b : Value) :
    Value.lt a b = true ↔
      (a.coin ≤ b.coin ∧ ∀ p n, qty a p n ≤ qty b p n) ∧ ¬ (a.coin = b.coin ∧ ∀ p n, qty a p n = qty b p n) :=
  Value.lt_iff a b

/-- … i.e. `≤` everywhere and `<` somewhere -/
theorem lt_iff_strict (a b : Value) :
    Value.lt a b = true ↔
      (a.coin ≤ b.coin ∧ ∀ p n, qty a p n ≤ qty b p n) ∧ (a.coin < b.coin ∨ ∃ p n, qty a p n < qty b p n) := by
  rw [lt_iff a b]
  constructor
  · rintro ⟨hle, hne⟩
    refine ⟨hle, ?_⟩
    by_cases hc : a.coin = b.coin
    · right
      apply Classical.byContradiction
      intro hex
      apply hne
      refine ⟨hc, fun p n => ?_⟩
      have h1 := hle.2 p n
      have h2 : ¬ qty a p n < qty b p n := fun h => hex ⟨p, n, h⟩
      omega
    · left; have := hle.1; omega
  · rintro ⟨hle, hlt⟩
    refine ⟨hle, ?_⟩
    rintro ⟨hc, hq⟩
    rcases hlt with h | ⟨p, n, h⟩
    · omega
    · have := hq p n; omega

/-- the order the selectors and the change calculation rely on: `<=` is reflexive and transitive on all operands -/
theorem le_refl (a : Value) : le a a = true := (le_iff a a).2 ⟨Int.le_refl _, fun _ _ => Int.le_refl _⟩

theorem le_trans (a b c : Value) (h1 : le a b = true) (h2 : le b c = true) : le a c = true := by
  rw [le_iff] at h1 h2 ⊢
  exact ⟨Int.le_trans h1.1 h2.1, fun p n => Int.le_trans (h1.2 p n) (h2.2 p n)⟩

/-- the inputs on which `<=` was not component-wise before the repair (KF-C05-le-negative), now answered correctly:
a negative / a zero quantity stored on the left under a key the right lacks (`Value(0,{p:{n:-5}}) <= Value(0)`,
`Value(0,{p:{n:0}}) <= Value(0)`: True), a negative quantity stored on the right under a key the left lacks
(`Value(0) <= Value(0,{p:{n:-5}})`: False), and the same one level up (an empty policy on the left) -/
example : le ⟨0, [([1], [([2], -5)])]⟩ ⟨0, []⟩ = true := by decide
example : le ⟨0, [([1], [([2], 0)])]⟩ ⟨0, []⟩ = true := by decide
example : le ⟨0, []⟩ ⟨0, [([1], [([2], -5)])]⟩ = false := by decide
example : le ⟨0, [([1], [])]⟩ ⟨0, []⟩ = true := by decide
example : le ⟨0, [([1], [([2], 3)])]⟩ ⟨0, [([1], [([3], -1), ([2], 3)])]⟩ = false := by decide
example : lt ⟨0, [([1], [([2], -5)])]⟩ ⟨0, []⟩ = true ∧ lt ⟨0, []⟩ ⟨0, [([1], [([2], -5)])]⟩ = false := by decide
/-- **the repair changes no answer where pycardano uses `<=` on valid inputs**: on legal dicts of which the left stores
only positive quantities (and no empty policy) and the right only non-negative ones — every value of the ledger, every
request and selected amount of the selectors and of the change calculation on valid inputs — `<=` returns exactly what
the key-directed code before the repair (`Value.leOld`, Proofs/Value.lean) returned -/
theorem le_unchanged_on_positive (a b : Value) (ha : WF a) (hb : WF b)
    (pa : MultiAsset.Pos a.ma) (pb : MultiAsset.NonNeg b.ma) : le a b = leOld a b :=
  Value.le_eq_leOld a b ha hb pa pb

/-- … and outside that region the code before the repair gave the answers recorded as KF-C05-le-negative -/
example : leOld ⟨0, [([1], [([2], -5)])]⟩ ⟨0, []⟩ = false ∧ leOld ⟨0, [([1], [([2], 0)])]⟩ ⟨0, []⟩ = false ∧
    leOld ⟨0, []⟩ ⟨0, [([1], [([2], -5)])]⟩ = true := by decide

/-- on operands that store only positive quantities the answers are those of the old code -/
example : le ⟨1, [([1], [([2], 3)])]⟩ ⟨1, [([1], [([2], 3), ([3], 1)]), ([4], [([2], 9)])]⟩ = true ∧
    le ⟨1, [([1], [([2], 3)])]⟩ ⟨1, [([4], [([2], 9)])]⟩ = false ∧
    le ⟨1, [([1], [([2], 4)])]⟩ ⟨1, [([1], [([2], 3)])]⟩ = false := by decide

private theorem same_eq (x y : Value) (h : Same x y) : eq x y = true := (Value.eq_iff x y).2 h

/-- a + b == b + a -/
theorem add_comm (a b : Value) (ha : WF a) (hb : WF b) : eq (add a b) (add b a) = true := by
  apply same_eq
  refine ⟨?_, fun p n => ?_⟩
  · simp [add, Int.add_comm]
  · rw [(add_exact a b ha hb).2, (add_exact b a hb ha).2, Int.add_comm]

/-- (a + b) + c == a + (b + c) -/
theorem add_assoc (a b c : Value) (ha : WF a) (hb : WF b) (hc : WF c) :
    eq (add (add a b) c) (add a (add b c)) = true := by
  have hab := (results_wf a b ha).1
  have hbc := (results_wf b c hb).1
  apply same_eq
  refine ⟨?_, fun p n => ?_⟩
  · simp [add, Int.add_assoc]
  · rw [(add_exact _ c hab hc).2, (add_exact a b ha hb).2, (add_exact a _ ha hbc).2, (add_exact b c hb hc).2,
      Int.add_assoc]

/-- a + b - b == a  (for every well-formed `a`, normal or not: `==` compares contents) -/
theorem add_sub_cancel (a b : Value) (ha : WF a) (hb : WF b) :
    eq (sub (add a b) b) a = true := by
  have hab := (results_wf a b ha).1
  apply same_eq
  refine ⟨?_, fun p n => ?_⟩
  · simp [add, sub]
  · rw [(sub_exact _ b hab hb).2, (add_exact a b ha hb).2]; omega

/-- a - a == 0 -/
theorem sub_self (a : Value) (ha : WF a) : eq (sub a a) ⟨0, []⟩ = true := by
  apply same_eq
  refine ⟨?_, fun p n => ?_⟩
  · simp [sub]
  · rw [(sub_exact a a ha ha).2]; simp [qty, MultiAsset.qty, Dict.getD, Asset.qty]

/-- non-vacuity: a concrete well-formed, non-normal operand pair with overlapping policies and a
zero-crossing sum satisfies the hypotheses used above -/
example : WF ⟨5, [([1], [([2], 7), ([3], 0)]), ([4], [])]⟩ ∧ WF ⟨1, [([1], [([2], -7)])]⟩ ∧
    add ⟨5, [([1], [([2], 7), ([3], 0)]), ([4], [])]⟩ ⟨1, [([1], [([2], -7)])]⟩ = ⟨6, []⟩ := by decide

end Pyc.C05

#print axioms Pyc.C05.add_exact
#print axioms Pyc.C05.sub_exact
#print axioms Pyc.C05.results_normal
#print axioms Pyc.C05.results_wf
#print axioms Pyc.C05.eq_iff
#print axioms Pyc.C05.eq_componentwise
#print axioms Pyc.C05.eq_refl
#print axioms Pyc.C05.eq_symm
#print axioms Pyc.C05.eq_trans
#print axioms Pyc.C05.le_iff
#print axioms Pyc.C05.lt_iff_le_ne
#print axioms Pyc.C05.lt_iff
#print axioms Pyc.C05.lt_iff_strict
#print axioms Pyc.C05.le_refl
#print axioms Pyc.C05.le_trans
#print axioms Pyc.C05.le_unchanged_on_positive
#print axioms Pyc.C05.add_comm
#print axioms Pyc.C05.add_assoc
#print axioms Pyc.C05.add_sub_cancel
#print axioms Pyc.C05.sub_self
