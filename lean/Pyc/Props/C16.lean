import Pyc.Proofs.Bip32

/-! # C16 — HD wallet derivation follows CIP-3 Icarus and BIP32-Ed25519

Property theorems only.  The model (`Pyc/Model/Bip32.lean`) transliterates `HDWallet` of pycardano/crypto/bip32.py
and the extended signing used by `ExtendedSigningKey` (key.py); the specification (`Pyc/Spec/Bip32Ed25519.lean`)
is the integer-level text of BIP32-Ed25519 and CIP-3.  HMAC-SHA512, PBKDF2, SHA-512 and the edwards25519 group are
the *fields* of `Prims`; what the theorems need of them is stated as the explicit hypotheses `HashLen` (output
lengths) and `GroupLaws` (commutative group action, faithful encoding, order of the base point below `2^255`).
They are hypotheses, not axioms; `toy_hashLen` / `toy_groupLaws` show that they are jointly satisfiable.

The Python raises `OverflowError` (model: `none`) where the reference C code would wrap `kL` modulo `2^256`, and
libsodium clears bit 255 of every scalar it multiplies the base point with; both are unreachable from an Icarus
root on paths of fewer than `2^25` steps (`no_overflow_on_paths`), which is how the "no overflow" hypothesis of
`child_refines` / `pub_priv_agree` is discharged for the paths the property quantifies over. -/

namespace Pyc.C16
open Pyc Pyc.Bip32 Pyc.Spec.Bip32Ed25519

variable {P : Type}

/-- `_tweak_bits` is the CIP-3 clamp of the first 32 bytes read as a little-endian integer: bits 0,1,2 cleared,
bit 255 cleared, bit 253 cleared, bit 254 set, all other bits and all bytes from 32 on untouched -/
theorem tweak_spec (seed s : Bytes) (h : tweakBits seed = some s) :
    s.length = seed.length ∧ s.drop 32 = seed.drop 32 ∧
    fromLE (s.take 32) = clamp (fromLE (seed.take 32)) ∧
    IsClampOf (fromLE (s.take 32)) (fromLE (seed.take 32)) ∧
    fromLE (s.take 32) % 8 = 0 ∧ 2 ^ 254 ≤ fromLE (s.take 32) ∧ fromLE (s.take 32) < 2 ^ 254 + 2 ^ 253 := by
  obtain ⟨a, b, c⟩ := tweak_take seed s h
  have r := clamp_range (fromLE (seed.take 32))
  refine ⟨a, b, c, ?_, ?_, ?_, ?_⟩
  · rw [c]; exact clamp_bits _
  · rw [c]; exact r.1
  · rw [c]; exact r.2.1
  · rw [c]; exact r.2.2

/-- `_tweak_bits` fails (IndexError) exactly on seeds shorter than 32 bytes -/
theorem tweak_defined (seed : Bytes) : tweakBits seed = none ↔ seed.length < 32 := by
  constructor
  · intro h
    by_cases hl : seed.length < 32
    · exact hl
    · rw [tweakBits_eq seed (by omega)] at h; contradiction
  · intro h; simp [tweakBits, h]

/-- the root derived from entropy and passphrase is the CIP-3 Icarus master key of the specification, it is a
well-formed node (public key = `kL·B`), and only entropies of 16/20/24/28/32 bytes are accepted -/
theorem root_refines (pr : Prims P) (hl : HashLen pr) (e p : Bytes) (root : Node)
    (h : fromEntropy pr e p = some root) :
    absPrv root = master (toSetting pr) e p ∧ WFNode pr root ∧ isEntropyLen e.length = true :=
  fromEntropy_refines pr hl e p root h

/-- the 4-byte little-endian child number is injective on `[0, 2^32)` -/
theorem index_le32_inj (i j : Nat) (hi : i < 2 ^ 32) (hj : j < 2 ^ 32) (h : leBytes 4 i = leBytes 4 j) : i = j :=
  le32_inj i j hi hj h

/-- `derive(i, hardened=True)` is child `i + 2^31`, and child `j` is derived the hardened way (tags 0/1 over
`kL ‖ kR`) exactly when `2^31 ≤ j`, the soft way (tags 2/3 over the public key) exactly when `j < 2^31` -/
theorem hardened_threshold (pr : Prims P) (w : Node) (i : Int) (priv : Bool) (j : Nat) :
    derive pr w i priv true = derive pr w (i + 2 ^ 31) priv false ∧
    (j < 2 ^ 31 → preimages w j =
      ((0x02 : UInt8) :: (w.pub ++ leBytes 4 j), (0x03 : UInt8) :: (w.pub ++ leBytes 4 j))) ∧
    (2 ^ 31 ≤ j → preimages w j =
      ((0x00 : UInt8) :: ((w.xprv.take 32 ++ w.xprv.drop 32) ++ leBytes 4 j),
       (0x01 : UInt8) :: ((w.xprv.take 32 ++ w.xprv.drop 32) ++ leBytes 4 j))) :=
  ⟨derive_hardened pr w i priv, (preimages_tags w j).1, (preimages_tags w j).2⟩

/-- what a successful private step computes, as integers, with no hypothesis on the primitives:
`kL' = 8·Z[0:28] + kL` (exactly: the Python refuses instead of wrapping), `kR' = (Z[32:64] + kR) mod 2^256`,
chain code = right half of the second HMAC -/
theorem child_arith (pr : Prims P) (w w' : Node) (i : Int) (h : derivePrivChild pr w i = some w') :
    0 ≤ i ∧ i < 2 ^ 32 ∧ w'.xprv.length = 64 ∧
    kLNat w' = 8 * zLNat pr w i.toNat + kLNat w ∧
    kRNat w' = (zRNat pr w i.toNat + kRNat w) % 2 ^ 256 ∧
    w'.cc = (pr.hmac512 w.cc (preimages w i.toNat).2).drop 32 :=
  let ⟨a, b, c, d, e, f, _⟩ := derivePrivChild_some pr w w' i h
  ⟨a, b, c, d, e, f⟩

/-- **refinement**: on a well-formed node, for every child number, if the child scalar stays below `2^255` the
byte-level private derivation of the model *is* the BIP32-Ed25519 derivation of the specification (including when
the child does not exist), and the child is again well-formed -/
theorem child_refines (pr : Prims P) (hl : HashLen pr) (gl : GroupLaws pr) (w : Node) (i : Nat)
    (hw : WFNode pr w) (hi : i < 2 ^ 32) (hno : 8 * zLNat pr w i + kLNat w < 2 ^ 255) :
    (derivePrivChild pr w (i : Int)).map absPrv = childPriv (toSetting pr) (absPrv w) i ∧
    ∀ w', derivePrivChild pr w (i : Int) = some w' → WFNode pr w' :=
  ⟨derivePrivChild_refines pr hl gl w i hw hi hno,
   fun w' h => derivePrivChild_wf pr w w' i h (by simpa using hno)⟩

/-- **public = private** for non-hardened children: if the private derivation of child `i < 2^31` succeeds then the
public-only derivation succeeds with the same public key and chain code.  Hypotheses forced by the code:
`kL' < 2^255` (libsodium clears bit 255 of the scalar) and `8·ZL ≢ 0 (mod L)` (libsodium refuses the zero scalar
and the neutral element; for edwards25519 this is `Z[0:28] ≠ 0`) -/
theorem pub_priv_agree (pr : Prims P) (gl : GroupLaws pr) (w w' : Node) (i : Nat)
    (hw : WFNode pr w) (hi : i < 2 ^ 31)
    (hno : 8 * zLNat pr w i + kLNat w < 2 ^ 255)
    (hz : (8 * zLNat pr w i) % pr.order ≠ 0)
    (h : derivePrivChild pr w (i : Int) = some w') :
    ∃ v, derivePubChild pr w (i : Int) = some v ∧ v.pub = w'.pub ∧ v.cc = w'.cc :=
  derivePub_agrees pr gl w w' i hw hi hno hz h

/-- hardened children are refused by public derivation: for every final index `≥ 2^31`, and for every
`derive(i, private=False, hardened=True)` with `i ≥ 0` -/
theorem pub_hardened_refused (pr : Prims P) (w : Node) (i : Int) :
    (2 ^ 31 ≤ i → derivePubChild pr w i = none) ∧ (0 ≤ i → derive pr w i false true = none) := by
  refine ⟨derivePubChild_hardened pr w i, fun h => ?_⟩
  simp only [derive, if_true]
  exact derivePubChild_hardened pr w _ (by omega)

/-- `kL ≡ 0 (mod 8)` is preserved by every private child derivation, and `kL` grows by less than `2^227` -/
theorem kL_mod8 (pr : Prims P) (w w' : Node) (i : Int) (h : derivePrivChild pr w i = some w') :
    kLNat w' % 8 = kLNat w % 8 ∧ kLNat w ≤ kLNat w' ∧ kLNat w' < kLNat w + 2 ^ 227 :=
  derivePrivChild_kL pr w w' i h

/-- along *any* private path from an Icarus root: `kL % 8 = 0` and `kL < 2^254 + 2^253 + |path|·2^227` -/
theorem kL_invariant (pr : Prims P) (hl : HashLen pr) (e p : Bytes) (root w : Node) (path : List (Int × Bool))
    (hroot : fromEntropy pr e p = some root) (h : deriveSteps pr true root path = some w) :
    kLNat w % 8 = 0 ∧ 2 ^ 254 ≤ kLNat w ∧ kLNat w < 2 ^ 254 + 2 ^ 253 + path.length * 2 ^ 227 := by
  obtain ⟨ha, _, _⟩ := fromEntropy_refines pr hl e p root hroot
  have hk : kLNat root = clamp (fromLE ((pr.pbkdf2 p e).take 32)) := by
    have := congrArg XPrv.kL ha
    simpa [absPrv, master, toSetting, kLNat] using this
  have r := clamp_range (fromLE ((pr.pbkdf2 p e).take 32))
  have s := deriveSteps_kL pr root w path h
  rw [← hk] at r
  simp only [Nat.reducePow] at *
  omega

/-- the "no overflow" hypothesis holds on every private path of fewer than `2^25` steps from an Icarus root: every
node on it is well-formed and its `kL` is below `2^255 - 2^227` -/
theorem no_overflow_on_paths (pr : Prims P) (hl : HashLen pr) (e p : Bytes) (root w : Node)
    (path : List (Int × Bool)) (hroot : fromEntropy pr e p = some root) (hlen : path.length < 2 ^ 25)
    (h : deriveSteps pr true root path = some w) :
    WFNode pr w ∧ ∀ z, z < 2 ^ 224 → 8 * z + kLNat w < 2 ^ 255 := by
  obtain ⟨ha, hw, _⟩ := fromEntropy_refines pr hl e p root hroot
  have inv := kL_invariant pr hl e p root w path hroot h
  have inv0 := kL_invariant pr hl e p root root [] hroot rfl
  constructor
  · refine deriveSteps_wf pr root w path hw ?_ h
    simp only [Nat.reducePow, List.length_nil] at *
    omega
  · intro z hz
    simp only [Nat.reducePow] at *
    omega

/-- public = private on the paths the property quantifies over, with the overflow hypothesis discharged -/
theorem pub_priv_agree_on_paths (pr : Prims P) (hl : HashLen pr) (gl : GroupLaws pr) (e p : Bytes)
    (root w w' : Node) (path : List (Int × Bool)) (i : Nat)
    (hroot : fromEntropy pr e p = some root) (hlen : path.length < 2 ^ 25)
    (hpath : deriveSteps pr true root path = some w) (hi : i < 2 ^ 31)
    (hz : (8 * zLNat pr w i) % pr.order ≠ 0)
    (h : derive pr w (i : Int) true false = some w') :
    ∃ v, derive pr w (i : Int) false false = some v ∧ v.pub = w'.pub ∧ v.cc = w'.cc := by
  obtain ⟨hw, hb⟩ := no_overflow_on_paths pr hl e p root w path hroot hlen hpath
  have := hb (zLNat pr w i) (zLNat_lt pr w i)
  simpa [derive] using pub_priv_agree pr gl w w' i hw hi this hz (by simpa [derive] using h)

/-- **path strings**: `derive_from_path("m/" + "/".join(str(i) + ("'" if h else "")))` is the step-by-step
derivation `derive(i₁, h₁) … derive(iₙ, hₙ)`, for every non-empty list of components and both derivation modes
(including every failure); `renderPath` uses Lean's own decimal rendering `Nat.toDigits 10` -/
theorem path_eq_fold (pr : Prims P) (w : Node) (idxs : List (Nat × Bool)) (priv : Bool) (hne : idxs ≠ []) :
    deriveFromPath pr w (renderPath idxs) priv = deriveSteps pr priv w (idxs.map fun x => ((x.1 : Int), x.2)) :=
  deriveFromPath_render pr w idxs priv hne

/-- the rendered component is what `toString` prints -/
theorem renderPath_toString (i : Nat) (h : Bool) :
    String.ofList (renderComponent (i, h)) = toString i ++ (if h then "'" else "") := by
  cases h <;> simp [renderComponent, Nat.repr, String.ofList_append]

/-- signatures made with any key derived on a path of fewer than `2^25` steps from an Icarus root verify under the
derived public key (RFC 8032 equation `S·B = R + H(R‖A‖M)·A`, `S < L`) -/
theorem derived_sig_valid [DecidableEq P] (pr : Prims P) (hl : HashLen pr) (gl : GroupLaws pr) (e p : Bytes)
    (root w : Node) (path : List (Int × Bool)) (msg sig : Bytes)
    (hroot : fromEntropy pr e p = some root) (hlen : path.length < 2 ^ 25)
    (hpath : deriveSteps pr true root path = some w) (hs : signWithNode pr w msg = some sig) :
    verify pr w.pub msg sig = true :=
  sign_verifies pr gl w (no_overflow_on_paths pr hl e p root w path hroot hlen hpath).1 msg sig hs

/-! ## non-vacuity -/

/-- the hypotheses on the primitives are jointly satisfiable -/
theorem hypotheses_satisfiable : HashLen toy ∧ GroupLaws toy := ⟨toy_hashLen, toy_groupLaws⟩

/-- in the toy instance: a root exists for a 16-byte entropy, the CIP-1852-shaped path `1852'/1815'/0'/0/7`
derives, the public derivation of the last (soft) step exists, and a signature with the derived key verifies -/
example :
    ((fromEntropy toy (leBytes 16 12347) [1, 2, 3]).bind fun r =>
      (deriveSteps toy true r [(1852, true), (1815, true), (0, true), (0, false)]).bind fun w =>
        (derive toy w 7 true false).bind fun w' =>
          (derive toy w 7 false false).bind fun v =>
            (signWithNode toy w' [9, 9]).map fun sig =>
              (decide (v.pub = w'.pub ∧ v.cc = w'.cc) && verify toy w'.pub [9, 9] sig)) = some true := by
  decide +kernel

/-- the rendered path of that example, and a few accepted / rejected path strings of the parser -/
example : renderPath [(1852, true), (1815, true), (0, true), (0, false), (7, false)] = "m/1852'/1815'/0'/0/7" := by
  decide +kernel
example : parsePath "m/1852'/ 0_1 /+7/-1'" = some [(1852, true), (1, false), (7, false), (-1, true)] := by
  decide +kernel
example : parsePath "m/m//0" = some [(0, false)] ∧ parsePath "m/" = none ∧ parsePath "m/0''" = none ∧
    parsePath "1/2" = none ∧ parsePath "m/0//1" = none := by decide +kernel

/-- `tweak_spec` on a concrete 96-byte seed of `0xFF` bytes -/
example : (tweakBits (List.replicate 96 0xFF)).map (fun s => (s.getD 0 0, s.getD 31 0, s.drop 32 == List.replicate 64 0xFF))
    = some (0xF8, 0x5F, true) := by decide +kernel

end Pyc.C16

#print axioms Pyc.C16.tweak_spec
#print axioms Pyc.C16.tweak_defined
#print axioms Pyc.C16.root_refines
#print axioms Pyc.C16.index_le32_inj
#print axioms Pyc.C16.hardened_threshold
#print axioms Pyc.C16.child_arith
#print axioms Pyc.C16.child_refines
#print axioms Pyc.C16.pub_priv_agree
#print axioms Pyc.C16.pub_hardened_refused
#print axioms Pyc.C16.kL_mod8
#print axioms Pyc.C16.kL_invariant
#print axioms Pyc.C16.no_overflow_on_paths
#print axioms Pyc.C16.pub_priv_agree_on_paths
#print axioms Pyc.C16.path_eq_fold
#print axioms Pyc.C16.renderPath_toString
#print axioms Pyc.C16.derived_sig_valid
#print axioms Pyc.C16.hypotheses_satisfiable
