import Pyc.Proofs.SizeDom
import Pyc.Proofs.SizeDomFee
import Pyc.Proofs.SizeDomWits
import Pyc.Props.C07

/-! # C07 (extension SizeDom) — the estimate is taken on a transaction that is at least as long as the signed one

`_estimate_fee` prices the bytes of the *fake* transaction (`_build_full_fake_tx`: placeholder witnesses, every script,
the fee in force or `max_tx_fee`); `build_and_sign` emits the *real* one. `Pyc.SizeDom.domB fake real` is a structural,
computable relation between the two CBOR item trees (see `Model/SizeDom.lean`); the harness evaluates it through the
driver on the two byte strings of every built and signed scenario (`checks/c07_ext_sizedom.py`).

* `dom_size`: structural dominance bounds the encoded size, for ALL items (mutual structural induction).
* `built_fee_sufficient` / `built_fee_covers_ledger`: a fee that covers the estimate on the fake bytes covers
  pycardano's fee formula — and, for integer coefficients, the ledger's minimum fee — of the real bytes.
* `fee_loop_tight`, `built_fee_tight_partial`: the counterpart from above. -/

namespace Pyc.C07.SizeDom
open Pyc Pyc.Cbor Pyc.SizeDom

/-! ## the relation -/

/-- **structural dominance bounds the size**: whenever `domB fake real` holds, the real item is not longer on the wire -/
theorem dom_size (fake real : Item) (h : domB fake real = true) : size real ≤ size fake :=
  domB_size fake real h

/-- the same for the elements of an array and the entries of a map, together with their number -/
theorem dom_size_list (fs rs : List Item) (h : domList fs rs = true) :
    rs.length ≤ fs.length ∧ (encodeList rs).length ≤ (encodeList fs).length := domList_size fs rs h

theorem dom_size_pairs (fs rs : List (Item × Item)) (h : domPairs fs rs = true) :
    rs.length ≤ fs.length ∧ (encodePairs rs).length ≤ (encodePairs fs).length := domPairs_size fs rs h

/-- every item dominates itself (the signed body IS the estimated body whenever the fee is not the placeholder) -/
theorem dom_refl (x : Item) : domB x x = true := domB_refl x

/-- integers are compared by the width of their head: exactly that, nothing else -/
theorem dom_uint_iff (a b : ℕ) : domB (.uint a) (.uint b) = true ↔ (head 0 b).length ≤ (head 0 a).length := by
  simp [domB, headDom]

/-- in particular a placeholder that is numerically at least the final value dominates it (`max_tx_fee` for the fee,
a preliminary change that only went down) -/
theorem dom_uint_of_le (a b : ℕ) (h : b ≤ a) : domB (.uint a) (.uint b) = true := by
  simpa [domB] using headDom_of_le 0 a b h

/-- byte strings: a payload that is not longer (a real 64-byte signature against the 64-byte placeholder) -/
theorem dom_bytes_iff (a b : Bytes) : domB (.bytes a) (.bytes b) = true ↔ b.length ≤ a.length := by
  simp [domB]

/-- unlike constructors are never dominated: there is no fall-back on encoded lengths -/
theorem dom_kind_mismatch (n : ℕ) (b : Bytes) (xs : List Item) :
    domB (.uint n) (.bytes b) = false ∧ domB (.bytes b) (.uint n) = false ∧ domB (.array xs) (.arrayIndef xs) = false
    ∧ domB (.uint n) (.nint n) = false := by
  simp [domB]

/-- **dropping elements**: the real array may be any order-preserving sub-list of the fake one (real witnesses among
the placeholders, scripts that `build_witness_set(True)` removes) -/
theorem dom_array_of_sublist (fs rs : List Item) (h : rs.Sublist fs) : domB (.array fs) (.array rs) = true := by
  simpa [domB] using domList_of_sublist fs rs h

/-- the same below the set tag 258 the witness set uses -/
theorem dom_set_of_sublist (t : ℕ) (fs rs : List Item) (h : rs.Sublist fs) :
    domB (.tag t (.array fs)) (.tag t (.array rs)) = true := by
  simpa [domB] using domList_of_sublist fs rs h

/-- **dropping map entries**: a witness-set key present in the fake and absent in the real transaction -/
theorem dom_map_of_sublist (fs rs : List (Item × Item)) (h : rs.Sublist fs) : domB (.map fs) (.map rs) = true := by
  simpa [domB] using domPairs_of_sublist fs rs h

/-- **element-wise**: a real array that is not longer and whose `i`-th element is dominated by the `i`-th fake one
(every real `[vkey, signature]` against a placeholder of the same shape) -/
theorem dom_array_pointwise (fs rs : List Item) (hl : rs.length ≤ fs.length)
    (h : ∀ i (hi : i < rs.length), domB (fs[i]'(by omega)) (rs[i]) = true) : domB (.array fs) (.array rs) = true := by
  simpa [domB] using domList_of_pointwise fs rs hl h

/-! ## composition with the fee formula and the builder's loop -/

/-- the fee formula of the real bytes is defined whenever that of the fake bytes is, and is not larger
(non-negative size coefficient) -/
theorem fee_dom (p : FeeParams) (fake real : Item) (steps mem ref eF : ℤ) (ha : 0 ≤ p.a.num)
    (hdom : domB fake real = true) (hF : fee p (size fake) steps mem ref = some eF) :
    ∃ eR, fee p (size real) steps mem ref = some eR ∧ eR ≤ eF := by
  obtain ⟨eR, hR⟩ := fee_some_of_some p (size fake) (size real) steps mem ref eF hF
  refine ⟨eR, hR, ?_⟩
  have hs : ((size real : ℕ) : ℤ) ≤ ((size fake : ℕ) : ℤ) := by exact_mod_cast dom_size fake real hdom
  have h1 := fee_sub p (size real) (size fake) steps mem ref eR eF hR hF
  have h2 := ceilMul_mono (size real) (size fake) p.a ha hs
  omega

/-- **sufficiency for the built transaction**: the body carries fee `f`; the last estimate was taken on `fake`
(`eF` = the fee formula on `len(fake)`, plus the fee buffer `buf`) and did not exceed `f`; the signed transaction
`real` is structurally dominated by `fake`. Then `f` covers the fee formula of the REAL signed bytes (plus the buffer) -/
theorem built_fee_sufficient (p : FeeParams) (fake real : Item) (steps mem ref buf eF f : ℤ) (ha : 0 ≤ p.a.num)
    (hF : fee p (size fake) steps mem ref = some eF) (hexit : eF + buf ≤ f) (hdom : domB fake real = true) :
    ∃ eR, fee p (size real) steps mem ref = some eR ∧ eR + buf ≤ f := by
  obtain ⟨eR, hR, hle⟩ := fee_dom p fake real steps mem ref eF ha hdom hF
  exact ⟨eR, hR, by omega⟩

open Pyc.FeeLoop in
/-- the same with the exit condition supplied by the builder's loop (`Pyc.C07.fee_loop_post`): `est f` is the estimate
taken on `fake`, the transaction whose fee field holds the fee `f` the loop ended at -/
theorem built_fee_sufficient_loop (p : FeeParams) (est : ℤ → ℤ) (fuel : ℕ) (f₀ f : ℤ) (fake real : Item)
    (steps mem ref buf eF : ℤ) (ha : 0 ≤ p.a.num) (hloop : loop est fuel f₀ = some f) (hest : est f = eF + buf)
    (hF : fee p (size fake) steps mem ref = some eF) (hdom : domB fake real = true) :
    ∃ eR, fee p (size real) steps mem ref = some eR ∧ eR + buf ≤ f := by
  have hpost := (Pyc.C07.fee_loop_post est fuel f₀ f hloop).1
  exact built_fee_sufficient p fake real steps mem ref buf eF f ha hF (by omega) hdom

/-- **the ledger's minimum fee of the signed bytes is covered**: integer fee coefficients `a ≥ 0`, `b` (as on every
Cardano network), a non-negative fee buffer, `T` the exact rational reference-script price whose ceiling pycardano
charges (`Pyc.C07.tier_eq_formula`; the ledger charges its floor). Conclusion about the Conway formula
`a·size + b + ⌈steps·pS + mem·pM⌉ + ⌊T⌋` on `size real` -/
theorem built_fee_covers_ledger (p : FeeParams) (a b : ℤ) (T : ℚ) (fake real : Item) (steps mem ref buf eF f : ℤ)
    (hpa : p.a = ⟨a, 1⟩) (hpb : p.b = ⟨b, 1⟩) (ha : 0 ≤ a) (hbuf : 0 ≤ buf) (hT : tierFee p ref = some ⌈T⌉)
    (hF : fee p (size fake) steps mem ref = some eF) (hexit : eF + buf ≤ f) (hdom : domB fake real = true) :
    Pyc.C07.ledgerMinFee a b (size real) steps mem p.priceStep.toRat p.priceMem.toRat T ≤ f := by
  have ha' : 0 ≤ p.a.num := by rw [hpa]; exact ha
  obtain ⟨eR, hR, hle⟩ := built_fee_sufficient p fake real steps mem ref buf eF f ha' hF hexit hdom
  have hform := Pyc.C07.fee_eq_formula p (size real) steps mem ref ⌈T⌉ hT
  rw [hR] at hform
  simp only [Option.some.injEq] at hform
  have hv := (Pyc.C07.fee_vs_ledger a b (size real) steps mem p.priceStep.toRat p.priceMem.toRat T).1
  have e1 : p.a.toRat = (a : ℚ) := by rw [hpa]; simp [Rat'.toRat]
  have e2 : ((1 : ℤ) : ℚ) * p.b.toRat = (b : ℚ) := by rw [hpb]; simp [Rat'.toRat]
  rw [e1] at hform
  have e3 : ⌈p.b.toRat⌉ = ⌈(b : ℚ)⌉ := by rw [hpb]; simp [Rat'.toRat]
  rw [e3] at hform
  omega

/-! ## from above -/

/-- `k` bytes of slack cost at most `⌈k·a⌉`: if the fake bytes exceed the real ones by at most `k`, the estimate
exceeds the fee formula of the real bytes by at most the price of `k` bytes -/
theorem fee_slack_bound (p : FeeParams) (fake real : Item) (steps mem ref eF eR k : ℤ) (ha : 0 ≤ p.a.num)
    (hslack : ((size fake : ℕ) : ℤ) ≤ size real + k) (hF : fee p (size fake) steps mem ref = some eF)
    (hR : fee p (size real) steps mem ref = some eR) : eF ≤ eR + ceilMul k p.a := by
  have h1 := fee_sub p (size real) (size fake) steps mem ref eR eF hR hF
  have h2 := ceilMul_mono (size fake) (size real + k) p.a ha hslack
  have h3 := ceilMul_add_le (size real) k p.a
  omega

/-- the slack `size fake - size real` itself is such a `k` under dominance -/
theorem slack_spec (fake real : Item) (hdom : domB fake real = true) : size fake = size real + slack fake real := by
  have := dom_size fake real hdom
  unfold slack; omega

open Pyc.FeeLoop in
/-- **the loop does not overshoot by more than the variation of the estimator**: if any two estimates differ by at
most `c` (the price of the few bytes by which fee and change widths can move) and the fee the loop starts from is
itself within `c` of every estimate, the fee it ends at exceeds the estimate of its own transaction by at most `c` -/
theorem fee_loop_tight (est : ℤ → ℤ) (c : ℤ) (hvar : ∀ g h, est g ≤ est h + c) (fuel : ℕ) (f₀ f : ℤ)
    (h0 : ∀ g, f₀ ≤ est g + c) (hloop : loop est fuel f₀ = some f) : f ≤ est f + c := by
  induction fuel generalizing f₀ with
  | zero => simp [loop] at hloop
  | succ n ih =>
    simp only [loop] at hloop
    split at hloop
    · cases hloop; exact h0 _
    · exact ih (est f₀) (fun g => hvar f₀ g) hloop

/-- **tightness, as far as it is a theorem**: integer coefficients; the fake bytes exceed the real ones by at most `k`
(`slack`, measured by the harness: placeholder witnesses nobody signed for and scripts omitted from the final witness
set); the fee exceeds the last estimate by at most `d` (`fee_loop_tight`; measured). Then the fee exceeds the ledger's
minimum for the signed bytes by at most `a·k + buf + d + 2`. PARTIAL: `k` and `d` are hypotheses here; bounding them
for every build needs a model of the builder's change computation under the fee, which this development does not have -/
theorem built_fee_tight_partial (p : FeeParams) (a b : ℤ) (T : ℚ) (fake real : Item) (steps mem ref buf eF f k d : ℤ)
    (hpa : p.a = ⟨a, 1⟩) (hpb : p.b = ⟨b, 1⟩) (ha : 0 ≤ a) (hT : tierFee p ref = some ⌈T⌉)
    (hF : fee p (size fake) steps mem ref = some eF) (hslack : ((size fake : ℕ) : ℤ) ≤ size real + k)
    (hover : f ≤ eF + buf + d) :
    f ≤ Pyc.C07.ledgerMinFee a b (size real) steps mem p.priceStep.toRat p.priceMem.toRat T + a * k + buf + d + 2 := by
  have ha' : 0 ≤ p.a.num := by rw [hpa]; exact ha
  obtain ⟨eR, hR⟩ := fee_some_of_some p (size fake) (size real) steps mem ref eF hF
  have hb := fee_slack_bound p fake real steps mem ref eF eR k ha' hslack hF hR
  have hk : ceilMul k p.a = a * k := by rw [hpa]; exact ceilMul_int k a
  have hform := Pyc.C07.fee_eq_formula p (size real) steps mem ref ⌈T⌉ hT
  rw [hR] at hform
  simp only [Option.some.injEq] at hform
  have hv := (Pyc.C07.fee_vs_ledger a b (size real) steps mem p.priceStep.toRat p.priceMem.toRat T).2
  have e1 : p.a.toRat = (a : ℚ) := by rw [hpa]; simp [Rat'.toRat]
  have e3 : ⌈p.b.toRat⌉ = ⌈(b : ℚ)⌉ := by rw [hpb]; simp [Rat'.toRat]
  rw [e1, e3] at hform
  omega

/-! ## the placeholder witnesses of `_build_fake_vkey_witnesses` (model: `fakeKey`, `fakeKeys`, `fakeWitnessSet`) -/

/-- **a witness count of `n` yields `n` pairwise distinct placeholders**, for every count the code can run
(`n ≤ 2^256`: every index `i < n` passes `i.to_bytes(32, "big")`): XOR with the constant masks is one-to-one, the
32-byte big-endian encoding is one-to-one below `2^256`, so the `OrderedSet` drops nothing and the placeholders are
`fakeKey 0, …, fakeKey (n-1)` in order -/
theorem fake_witness_count (n : ℕ) (h : n ≤ 2 ^ 256) :
    (fakeKeys n).length = n ∧ (fakeKeys n).Nodup ∧ fakeKeys n = (List.range n).map fakeKey := by
  obtain ⟨h1, h2⟩ := fakeKeys_eq n h
  exact ⟨fakeKeys_length n h, by rw [h1]; exact h2, h1⟩

/-- different indices below `2^256` give different placeholders -/
theorem fake_witness_inj (i j : ℕ) (hi : i < 2 ^ 256) (hj : j < 2 ^ 256) (h : fakeKey i = fakeKey j) : i = j :=
  fakeKey_inj i j hi hj h

/-- what the MODEL does at the bound (deviation note of `Model/SizeDom.lean`): index `2^256` wraps to index 0, where
`i.to_bytes(32, "big")` raises `OverflowError`; hence no statement is made for a count above `2^256` -/
theorem fake_witness_model_wraps_at_bound : fakeKey (2 ^ 256) = fakeKey 0 := fakeKey_wraps

/-- every placeholder has a 32-byte key and a 64-byte signature -/
theorem fake_witness_shape (n : ℕ) (w : Bytes × Bytes) (h : w ∈ fakeKeys n) : w.1.length = 32 ∧ w.2.length = 64 := by
  obtain ⟨i, _, rfl⟩ := mem_fakeKeys n w h
  exact fakeKey_lengths i

/-- **the placeholder set dominates every set of real witnesses that is not larger**: real `[vkey, signature]` pairs
with keys of at most 32 and signatures of at most 64 bytes (Ed25519: exactly 32 and 64), at most as many as placeholders -/
theorem fake_witnesses_dominate (n : ℕ) (real : List (Bytes × Bytes)) (hl : real.length ≤ (fakeKeys n).length)
    (hr : ∀ r ∈ real, r.1.length ≤ 32 ∧ r.2.length ≤ 64) :
    domB (fakeWitnessSet n) (.tag 258 (.array (real.map witItem))) = true := by
  have := witList_dom (fakeKeys n) real hl (fun f hf => fake_witness_shape n f hf) hr
  simpa [fakeWitnessSet, domB] using this

/-- with the count: `n` required keys (any `n` the code can run), any `k ≤ n` of them signing -/
theorem fake_witnesses_dominate_upto (n : ℕ) (hn : n ≤ 2 ^ 256) (real : List (Bytes × Bytes)) (hl : real.length ≤ n)
    (hr : ∀ r ∈ real, r.1.length ≤ 32 ∧ r.2.length ≤ 64) :
    domB (fakeWitnessSet n) (.tag 258 (.array (real.map witItem))) = true :=
  fake_witnesses_dominate n real (by rw [(fake_witness_count n hn).1]; exact hl) hr

/-! ## non-vacuity: a miniature fake / signed pair evaluated by the kernel -/

/-- body `{0: [[h'aa…', 0]], 1: [[h'01', 1500000]], 2: fee}` -/
def exBody (feeField : ℕ) : Item :=
  .map [(.uint 0, .array [.array [.bytes (List.replicate 32 0xaa), .uint 0]]),
        (.uint 1, .array [.array [.bytes [0x01], .uint 1500000]]),
        (.uint 2, .uint feeField)]

def exWit (v s : UInt8) : Item := .array [.bytes (List.replicate 32 v), .bytes (List.replicate 64 s)]

/-- fake: placeholder fee 1 000 000, two placeholder witnesses, a native script `[0, h'07…']`; real: fee 170 000, one
real witness, the script dropped (it sits on an input) so that key 1 disappears from the witness set -/
def exFake : Item :=
  .array [exBody 1000000, .map [(.uint 0, .tag 258 (.array [exWit 0 0, exWit 0 1])),
                                (.uint 1, .tag 258 (.array [.array [.uint 0, .bytes (List.replicate 28 7)]]))],
          .simple 21, .simple 22]

def exReal : Item :=
  .array [exBody 170000, .map [(.uint 0, .tag 258 (.array [exWit 0x5c 0x99]))], .simple 21, .simple 22]

example : domB exFake exReal = true ∧ domB exReal exFake = false ∧ size exFake = 303 ∧ size exReal = 165
    ∧ slack exFake exReal = 138 := by decide +kernel

/-- the hypotheses of `built_fee_covers_ledger` are met by mainnet-like parameters and this pair: the estimate on
the 303 fake bytes is 168 713 lovelace, the exit fee 170 000 covers it, the formula asks 162 641 for the 165 real bytes -/
example : fee Pyc.C07.exParams (size exFake) 0 0 0 = some 168713 ∧ fee Pyc.C07.exParams (size exReal) 0 0 0 = some 162641
    ∧ tierFee Pyc.C07.exParams 0 = some 0 ∧ (168713 : ℤ) + 0 ≤ 170000 := by decide +kernel

/-- a fee one byte too narrow is detected: the 3-byte placeholder 65 535 does not dominate the 5-byte fee 170 000 -/
example : domB (exBody 65535) (exBody 170000) = false ∧ domB (exBody 170000) (exBody 65536) = true := by decide +kernel

/-- the loop hypothesis of `fee_loop_tight` on the estimator of the C07 example: estimates vary by 1 -/
example : Pyc.FeeLoop.loop (fun f => 255 + (if f < 256 then 3 else 4)) 5 250 = some 259
    ∧ (259 : ℤ) ≤ (fun f : ℤ => 255 + (if f < 256 then 3 else 4)) 259 + 1 := by decide

/-- three placeholders, as `TransactionWitnessSet(vkey_witnesses=…)` writes them under key 0: 2 + 1 + 1 + 3·101 bytes;
placeholder 256 differs from placeholder 0 (the collision of the former AND masks is gone) -/
example : size (fakeWitnessSet 3) = 307 ∧ (fakeKey 256).1 ≠ (fakeKey 0).1 ∧ (fakeKey 0).1 = maskVkey := by decide +kernel

end Pyc.C07.SizeDom

#print axioms Pyc.C07.SizeDom.dom_size
#print axioms Pyc.C07.SizeDom.dom_size_list
#print axioms Pyc.C07.SizeDom.dom_size_pairs
#print axioms Pyc.C07.SizeDom.dom_refl
#print axioms Pyc.C07.SizeDom.dom_uint_iff
#print axioms Pyc.C07.SizeDom.dom_uint_of_le
#print axioms Pyc.C07.SizeDom.dom_bytes_iff
#print axioms Pyc.C07.SizeDom.dom_kind_mismatch
#print axioms Pyc.C07.SizeDom.dom_array_of_sublist
#print axioms Pyc.C07.SizeDom.dom_set_of_sublist
#print axioms Pyc.C07.SizeDom.dom_map_of_sublist
#print axioms Pyc.C07.SizeDom.dom_array_pointwise
#print axioms Pyc.C07.SizeDom.fee_dom
#print axioms Pyc.C07.SizeDom.built_fee_sufficient
#print axioms Pyc.C07.SizeDom.built_fee_sufficient_loop
#print axioms Pyc.C07.SizeDom.built_fee_covers_ledger
#print axioms Pyc.C07.SizeDom.fee_slack_bound
#print axioms Pyc.C07.SizeDom.slack_spec
#print axioms Pyc.C07.SizeDom.fee_loop_tight
#print axioms Pyc.C07.SizeDom.built_fee_tight_partial
#print axioms Pyc.C07.SizeDom.fake_witness_count
#print axioms Pyc.C07.SizeDom.fake_witness_inj
#print axioms Pyc.C07.SizeDom.fake_witness_model_wraps_at_bound
#print axioms Pyc.C07.SizeDom.fake_witness_shape
#print axioms Pyc.C07.SizeDom.fake_witnesses_dominate
#print axioms Pyc.C07.SizeDom.fake_witnesses_dominate_upto
