import Pyc.Proofs.Redeemers

/-! # C12 — the script integrity hash matches the witnesses actually shipped

Model: `Pyc/Model/Redeemers.lean` (`sdhPreimage` = what `TransactionBuilder.script_data_hash` /
`utils.script_data_hash` feed to BLAKE2b-256, `buildWitnessSet`, `encRedeemers` map / list form, `langViews` =
`CostModels.to_shallow_primitive`, `updateExUnits`, `build`).  Specification: `Pyc/Spec/Ranks.lean`
(`languageViews`: canonical map of per-language views).  BLAKE2b itself is not modelled: the statements are about the
preimage; the harness applies `hashlib.blake2b` to it. -/

namespace Pyc.C12
open Pyc Pyc.Cbor Pyc.Rd Pyc.Spec.Ranks

/-- the hash is absent precisely when there are neither redeemers nor datums -/
theorem sdh_absent_iff (st : St) (useMap : Bool) (pp : Nat → CostModel) (dflt : Bytes) :
    sdhPreimage st useMap pp dflt = none ↔ redeemerList st = [] ∧ st.datums = [] := by
  unfold sdhPreimage
  simp only
  split
  · rename_i h
    simp only [Bool.and_eq_true, List.isEmpty_iff] at h
    simp [h.1, h.2]
  · rename_i h
    simp only [Bool.and_eq_true, List.isEmpty_iff, not_and] at h
    simp only [reduceCtorEq, false_iff, not_and]
    intro h1 h2; exact h h2 h1

/-- the language-view part of the preimage -/
def viewsOf (st : St) (pp : Nat → CostModel) (dflt : Bytes) : Bytes :=
  if (redeemerList st).isEmpty then [0xa0]
  else if (sortLangs (usedLangs st)).isEmpty then dflt
  else langViews (usedLangs st) pp

/-- **the preimage is built from what the witness set ships**: for one and the same builder state, the redeemer bytes
and the datum bytes inside the hash preimage are the very byte strings `build_witness_set` puts under keys 5 and 4
(an absent key 5 stands for the empty map `a0`, an absent key 4 for nothing), followed by the language views -/
theorem sdh_preimage (st : St) (useMap removeDup : Bool) (carried : TxIn → Option Script) (pp : Nat → CostModel)
    (dflt : Bytes) :
    let w := buildWitnessSet st useMap removeDup carried
    sdhPreimage st useMap pp dflt =
      if w.redeemer.isNone && w.plutusData.isNone then none
      else some (w.redeemer.getD [0xa0] ++ w.plutusData.getD [] ++ viewsOf st pp dflt) := by
  simp only [buildWitnessSet, sdhPreimage, viewsOf]
  have ha0 : encRawMap [] = [0xa0] := by decide
  by_cases hr : redeemerList st = [] <;> by_cases hd : st.datums = []
  · simp [hr, hd]
  · simp [hr, hd, encRedeemers, redeemerMap, Dict.ofPairs, ha0]
  · simp [hr, hd]
  · simp [hr, hd]

/-- **after execution units have been replaced**: `build` produces one final state; in estimating mode every
redeemer of that state carries the evaluated units, and both the body's hash preimage and the witness set are
functions of that state (`sdh_preimage`) — the hash cannot see stale units -/
theorem sdh_after_units (net : Nat) (st st' : St) (sel : List TxIn) (ev : Nat → Nat → Option (Int × Int))
    (hb : build net st sel ev = some st') (he : st.estimate = some true) :
    ∀ r ∈ redeemerList st', ev r.tag r.index = some (r.mem, r.steps) := by
  obtain ⟨st1, h1, h2⟩ := build_steps net st st' sel ev hb
  have := (setRedeemerIndex_frame net _ st1 h1).2.2.2.1
  exact updateExUnits_units ev st1 st' h2 (by rw [this]; exact he)

/-- units supplied by the caller are left alone -/
theorem sdh_supplied_units (ev : Nat → Nat → Option (Int × Int)) (st : St) (he : st.estimate ≠ some true) :
    updateExUnits ev st = some st := by
  simp [updateExUnits, he]

/-- Plutus V1 view: model = specification (`{ h'00' : bytes(indefinite list of the values by ascending name) }`) -/
theorem views_v1 (cm : CostModel) (hn : (cm.map (·.1)).Nodup) : viewEntry 0 cm = viewV1 cm := viewEntry_v1 cm hn

/-- Plutus Vn (n ≥ 2) view: model = specification (`{ n-1 : [values] }`) -/
theorem views_vn (l : Nat) (hl : l ≠ 0) (cm : CostModel) : viewEntry l cm = viewVn l (cm.map (·.2)) :=
  viewEntry_vn l hl cm

/-- which languages enter: `l` is used iff some script of `all_scripts` has version `l + 1`
(`type(s) is bytes` counts as version 1, native scripts have none) -/
theorem used_langs (st : St) (l : Nat) :
    l ∈ usedLangs st ↔ ∃ p ∈ allScripts st, p.2.version = some (l + 1) := by
  simp only [usedLangs, List.mem_filterMap, Option.map_eq_some_iff]
  constructor
  · rintro ⟨p, hp, v, hv, rfl⟩
    refine ⟨p, hp, ?_⟩
    rw [hv]
    have : 1 ≤ v := by
      unfold Script.version at hv
      cases hk : p.2.kind <;> simp [hk] at hv <;> omega
    congr 1; omega
  · rintro ⟨p, hp, hv⟩
    exact ⟨p, hp, l + 1, hv, by simp⟩

/-- **the language views are canonical** (full strength, for the repaired iteration order of /repo 864980f): for every
set of languages — any list of ids below 256, in any order, with repetitions; the ledger knows 0, 1, 2 — the bytes
inside the hash preimage are the specification's language views: a definite map whose keys are in canonical order
(shortest encoding first, then bytewise), V1 under the key `41 00` last.  The only other hypothesis is that the V1
cost model is a dict (distinct parameter names), when V1 is used at all. -/
theorem views_canonical (langs : List Nat) (pp : Nat → CostModel) (hl : ∀ l ∈ langs, l < 256)
    (hn : 0 ∈ langs → ((pp 0).map (·.1)).Nodup) :
    langViews langs pp = languageViews (dedupNat langs) pp := langViews_canonical langs pp hl hn

/-- the keys of the emitted map are in canonical order: each emitted key is `lenLexLe` every later one -/
theorem views_keys_sorted (langs : List Nat) (hl : ∀ l ∈ langs, l < 256) :
    ((sortLangs langs).map viewKey).Pairwise (fun a b => lenLexLe a b = true) := by
  rw [List.pairwise_map]
  refine (sortLangs_strict langs).imp_of_mem ?_
  intro a b ha hb hab
  have m : ∀ x ∈ sortLangs langs, x < 256 := fun x hx =>
    hl x ((mem_dedupNat x langs).1 ((sortLangs_perm langs).subset hx))
  exact viewKey_order a b (m a ha) (m b hb) hab

/-- documentation of the repaired defect KF-C12-views-order: the PINNED tree iterated `sorted(self.keys())`, which
for Plutus V1 together with V2 puts the two-byte key `41 00` before the one-byte key `01` — not the canonical map -/
theorem views_pinned_order_noncanonical :
    langViewsPinned [0, 1] (fun _ => []) ≠ languageViews [0, 1] (fun _ => []) := by
  decide +kernel

/-- pinned: `a2 4100 42 9fff 01 80`; repaired model = specification: `a2 01 80 4100 42 9fff` -/
example : langViewsPinned [0, 1] (fun _ => []) = [0xa2, 0x41, 0x00, 0x42, 0x9f, 0xff, 0x01, 0x80] ∧
    langViews [1, 0, 1] (fun _ => []) = [0xa2, 0x01, 0x80, 0x41, 0x00, 0x42, 0x9f, 0xff] ∧
    languageViews [0, 1] (fun _ => []) = [0xa2, 0x01, 0x80, 0x41, 0x00, 0x42, 0x9f, 0xff] := by decide +kernel

/-- all three languages with non-empty tables (V1 names out of order, a negative and a > 64-bit value) -/
example :
    let pp : Nat → CostModel := fun l => if l = 0 then [([0x62], 2), ([0x61], -1)] else [([0x7a], 18446744073709551616)]
    langViews [0, 2, 1] pp = languageViews [0, 1, 2] pp ∧ (∀ l ∈ [0, 2, 1], l < 256) := by decide +kernel

/-- **redeemer map**: in map form the entries come out in canonical key order, and (for pairwise distinct
`(tag, index)`, as in every transaction the ledger accepts) the bytes are a function of the *set* of redeemers -/
theorem redeemer_map_order (l : List Rdm) :
    encRedeemers true l = head 5 (redeemerMap l).length ++ (canonSortRaw (redeemerMap l)).flatMap (fun p => p.1 ++ p.2) ∧
    (canonSortRaw (redeemerMap l)).Pairwise (fun a b => lenLexLe a.1 b.1 = true) := by
  refine ⟨by simp [encRedeemers, encRawMap], ?_⟩
  exact isort_pairwise (fun (a b : Bytes × Bytes) => lenLexLe a.1 b.1)
    (fun a b c h1 h2 => lenLexLe_trans _ _ _ h1 h2) (fun a b => lenLexLe_total _ _) _

theorem redeemer_map_set (l₁ l₂ : List Rdm) (hp : l₁.Perm l₂) (hn : (l₁.map mapKey).Nodup) :
    encRedeemers true l₁ = encRedeemers true l₂ := encRedeemers_map_perm l₁ l₂ hp hn

/-- list form: a definite array of the `[tag, index, data, [mem, steps]]` entries in `_redeemer_list` order; with no
redeemer at all the (empty) map form is used whatever the flag says -/
theorem redeemer_list_form (l : List Rdm) (hne : l ≠ []) :
    encRedeemers false l = head 4 l.length ++ l.flatMap encListEntry ∧ encRedeemers false [] = [0xa0] := by
  have : l.isEmpty = false := by cases l <;> simp_all
  refine ⟨by simp [encRedeemers, this], by decide⟩

/-! ## non-vacuity -/

/-- a state with one spending redeemer, one datum and a V2 script: the hash is present, its preimage is
`redeemers ‖ datums ‖ views` with the shipped byte strings -/
example :
    let st : St := { inputs := [⟨[1], 0⟩], inRedeemers := [(⟨[1], 0⟩, ⟨0, 0, [0x07], 1000, 2000⟩)],
                     inScripts := [(⟨[1], 0⟩, ⟨.v2, [9]⟩)], datums := [([5], [0x18, 0x2a])] }
    sdhPreimage st true (fun _ => [([0x61], 5), ([0x62], 6)]) [] =
      some ([0xa1, 0x82, 0x00, 0x00, 0x82, 0x07, 0x82, 0x19, 0x03, 0xe8, 0x19, 0x07, 0xd0] ++ [0x81, 0x18, 0x2a]
            ++ [0xa1, 0x01, 0x82, 0x05, 0x06]) ∧
    (buildWitnessSet st true true (fun _ => none)).redeemer =
      some [0xa1, 0x82, 0x00, 0x00, 0x82, 0x07, 0x82, 0x19, 0x03, 0xe8, 0x19, 0x07, 0xd0] ∧
    (buildWitnessSet st true true (fun _ => none)).plutusData = some [0x81, 0x18, 0x2a] := by
  decide +kernel

/-- datums only: `a0 ‖ datums ‖ a0` -/
example : sdhPreimage { datums := [([5], [0x18, 0x2a])] } true (fun _ => []) [] = some [0xa0, 0x81, 0x18, 0x2a, 0xa0] := by
  decide +kernel

end Pyc.C12

#print axioms Pyc.C12.sdh_absent_iff
#print axioms Pyc.C12.sdh_preimage
#print axioms Pyc.C12.sdh_after_units
#print axioms Pyc.C12.sdh_supplied_units
#print axioms Pyc.C12.views_v1
#print axioms Pyc.C12.views_vn
#print axioms Pyc.C12.used_langs
#print axioms Pyc.C12.views_canonical
#print axioms Pyc.C12.views_keys_sorted
#print axioms Pyc.C12.views_pinned_order_noncanonical
#print axioms Pyc.C12.redeemer_map_order
#print axioms Pyc.C12.redeemer_map_set
#print axioms Pyc.C12.redeemer_list_form
