import Pyc.Proofs.NativeScript

/-! # C02 (extension) — native scripts are written as the Conway CDDL rule `native_script` prescribes

Specification: `Pyc/Spec/NativeScript.lean` (`specNS`: the item the CDDL prescribes for a script, `matchNS`: a recogniser
of the rule on items, `inRangeB`: the ranges `hash28` / `int64` / `uint .size 8`), written from the CDDL without the
model's serializer; byte form: `Pyc.Spec.Ids.nativeBytes` (heads written out with `Cbor.head`, the shortest form, every
array with a definite length).  Model: `Pyc.Ids.NScript.item` (= `NativeScript.toItem`) and
`Pyc/Model/NativeScript.lean`, tied to /repo by `harness/checks/c02_ext_nativescript.py`.

The constructors of the library do not check the CDDL ranges (`InvalidBefore(-1)`, `ScriptNofK(2**63, [])` are built and
serialized), so conformance is stated for scripts within the ranges (`ns_cddl_item`), and the unrestricted statement is
refuted by a witness (`ns_cddl_all_counterexample`). -/

namespace Pyc.C02.NativeScript
open Pyc Pyc.Cbor Pyc.Codec Pyc.Ids Pyc.NativeScript Pyc.Spec.NativeScript

/-- **conformance, item level**: for every script within the CDDL ranges the primitive the code writes IS the item the
CDDL prescribes — type codes 0-5, the field order `[3, n, scripts]`, definite arrays, `n` / slots as plain integers -/
theorem ns_cddl_item (s : NScript) (h : inRangeB s = true) : toItem s = specNS s := toItem_spec s h

/-- **conformance, byte level**: the bytes are the CDDL bytes written out head by head (`Cbor.head` is the shortest
form; every array head carries its length, no break byte) -/
theorem ns_cddl_bytes (s : NScript) (h : inRangeB s = true) : toBytes s = Spec.Ids.nativeBytes s :=
  native_cbor_spec s (validNative_of_inRange s h)

/-- the prescribed item is recognised as a `native_script` by the recogniser written from the rule -/
theorem ns_cddl_recognised (s : NScript) (h : inRangeB s = true) (f : Nat) (hf : depth s ≤ f) :
    matchNS f (toItem s) = true := by
  rw [toItem_spec s h]; exact matchNS_spec s h f hf

/-- **definite lengths**, for EVERY script (no range hypothesis): no indefinite-length array or byte string occurs in
the primitive, at any depth -/
theorem ns_definite (s : NScript) : definiteB (toItem s) = true := toItem_definite s

/-- **the decoder accepts what the CDDL admits, and writes it back unchanged**: every item the recogniser admits is
decoded to a script whose primitive is that very item (so its bytes and its hash are those received) -/
theorem ns_cddl_accepted_reencode (f : Nat) (i : Item) (h : matchNS f i = true) :
    ∃ s, fromItem f i = .ok s ∧ toItem s = i := matchNS_accepts f i h

/-- "every script the constructors build is written in the CDDL form" is FALSE of the code: the int fields are not
range-checked.  Goal kept; `ns_cddl_item` / `ns_cddl_recognised` are the partial results under `inRangeB`. -/
def ns_cddl_all_goal : Prop := ∀ s : NScript, wfB s = true → matchNS (depth s) (toItem s) = true

theorem ns_cddl_all_counterexample : ¬ ns_cddl_all_goal := by
  intro h
  have := h (.before (-1)) rfl
  revert this
  decide

/-! ## non-vacuity -/

def kh1 : Bytes := List.replicate 28 0xab
def exInRange : NScript :=
  .any [.pubkey kh1, .nofk (-3) [.pubkey kh1, .all [], .before 24], .hereafter 18446744073709551615, .nofk 9223372036854775807 []]

example : inRangeB exInRange = true := by decide
example : toItem exInRange = specNS exInRange := ns_cddl_item exInRange (by decide)
example : matchNS 3 (toItem exInRange) = true := ns_cddl_recognised exInRange (by decide) 3 (by decide)
-- the recogniser is not trivially true: a swapped code / field order, a 27-byte hash, an int64 overflow are refused
example : matchNS 3 (.array [.uint 3, .array [], .uint 1]) = false := by decide
example : matchNS 3 (.array [.uint 0, .bytes (List.replicate 27 0)]) = false := by decide
example : matchNS 3 (.array [.uint 3, .uint 9223372036854775808, .array []]) = false := by decide
example : matchNS 3 (.array [.uint 6, .uint 0]) = false := by decide
example : matchNS 3 (.array [.uint 1, .arrayIndef []]) = false := by decide
-- the first bytes of a 2-of-k script: array(3), 3, 2, array(1), ...
example : (toBytes (.nofk 2 [.before 24])).take 6 = [0x83, 0x03, 0x02, 0x81, 0x82, 0x04] := by decide

end Pyc.C02.NativeScript

#print axioms Pyc.C02.NativeScript.ns_cddl_item
#print axioms Pyc.C02.NativeScript.ns_cddl_bytes
#print axioms Pyc.C02.NativeScript.ns_cddl_recognised
#print axioms Pyc.C02.NativeScript.ns_definite
#print axioms Pyc.C02.NativeScript.ns_cddl_accepted_reencode
#print axioms Pyc.C02.NativeScript.ns_cddl_all_counterexample
