import Pyc.Proofs.Backends

/-! # C20 — chain-context adapters report UTxOs faithfully

Property theorems only.  The model (`Pyc/Model/Backends.lean`) has, for each of Blockfrost, Ogmios v5, Ogmios v6,
Kupo and cardano-cli, `render_X` (the service's response for a UTxO — the specification side) and `parse_X`
(a transliteration of what the adapter does with that response).  `WellFormed` is the ledger's domain: 32-byte
transaction id, 28-byte policies, names of at most 32 bytes, unique (policy, name) pairs, no empty policy,
positive quantities, at most one of datum hash / inline datum.  Every theorem is for bundles with any number of
policies and names (induction over the asset lists), including the empty name and several names per policy. -/

namespace Pyc.C20
open Pyc Pyc.Backends

/-- all observables the property names agree; assets compared as the map (policy, name) ↦ quantity -/
def Same (u' u : UTxOModel) : Prop :=
  u'.txId = u.txId ∧ u'.index = u.index ∧ u'.address = u.address ∧ u'.coin = u.coin ∧
  (∀ p n, MultiAsset.qty u'.ma p n = MultiAsset.qty u.ma p n) ∧
  u'.datumHash = u.datumHash ∧ u'.datum = u.datum ∧ u'.script = u.script

theorem Same.refl (u : UTxOModel) : Same u u := ⟨rfl, rfl, rfl, rfl, fun _ _ => rfl, rfl, rfl, rfl⟩

/-- Splitting a Blockfrost `unit` — the hex of a 28-byte policy followed by the hex of the name — after 56 hex
characters returns the two parts; and what the adapter does (decode the hex, cut after 28 bytes) yields the
policy and the name, for every name including the empty one. -/
theorem hexSplit_spec (p n : Bytes) (hp : p.length = 28) :
    (hexChars p ++ hexChars n).take 56 = hexChars p ∧ (hexChars p ++ hexChars n).drop 56 = hexChars n ∧
    fromHex (bfUnit p n) = .ok (p ++ n) ∧ (p ++ n).take 28 = p ∧ (p ++ n).drop 28 = n := by
  have hl : (hexChars p).length = 56 := by rw [hexChars_length, hp]
  refine ⟨?_, ?_, ?_, ?_, ?_⟩
  · rw [← hl]; exact List.take_left
  · rw [← hl]; exact List.drop_left
  · simp [fromHex, bfUnit, ofHexList_hexChars_append p (hexChars n) n (ofHexList_hexChars n)]
  · rw [← hp]; exact List.take_left
  · rw [← hp]; exact List.drop_left

/-! ## the five adapters return exactly the reported UTxO -/

/-- Blockfrost: `amount` list with `unit` strings, `data_hash` (also shown for an inline datum), `inline_datum`,
reference script through `/scripts/{hash}`; native and Plutus v1–v3 scripts. -/
theorem parse_render_blockfrost (aux : Aux) (u : UTxOModel) (hw : WellFormed u) (hd : bytesPayload u.datum = true)
    (hs : scriptOK [0, 1, 2, 3] u.script = true) (ha : aux.scriptHash.length = 28) :
    parse_blockfrost u.address (render_blockfrost aux u).2 (render_blockfrost aux u).1 = .ok u := by
  have ht := txIn_render u.txId u.index hw.1
  have l1 : J.lookup (bfMembers aux u) "tx_hash" = some (.str (hexStr u.txId)) := by simp [bfMembers, J.lookup]
  have l2 : J.lookup (bfMembers aux u) "output_index" = some (.num u.index) := by simp [bfMembers, J.lookup]
  have l3 : J.lookup (bfMembers aux u) "amount" =
      some (.arr (.obj [("unit", .str "lovelace"), ("quantity", .str (intStr u.coin))]
                  :: (flatten u.ma).map bfEntry)) := by simp [bfMembers, J.lookup]
  simp [parse_blockfrost, render_blockfrost, J.field, l1, l2, l3, ht, J.asArr, bfAmount_render u hw,
    bfDatumHash_render aux u hw hd, bfDatum_render aux u hd, bfScriptRef_render aux u hs ha]

/-- Ogmios v5: `{"coins", "assets": {"policy.name" | "policy": q}}`, `datumHash`, `datum`, Plutus v1/v2 script. -/
theorem parse_render_ogmios_v5 (u : UTxOModel) (hw : WellFormed u) (hd : bytesPayload u.datum = true)
    (hs : scriptOK [1, 2] u.script = true) : parse_ogmios_v5 (render_ogmios_v5 u) = .ok u := by
  have hv := dotParseValue_render _ hw
  have ht := txIn_render u.txId u.index hw.1
  have hh := hashIfTruthy_optStr u.datumHash hw.2.2.2.2.2.1
  have hsc := v5Script_render u.script hs
  have hdt := v5Datum_render [("address", J.str u.address), ("value", dotValue u), ("datumHash", optStr u.datumHash),
                ("datum", datumHexJ u.datum), ("script", v5ScriptJ u.script)] u.datum u.datumHash
                (by simp [J.lookup]) (by simp [J.lookup]) hd hw.2.2.2.2.2.2
  simp [parse_ogmios_v5, render_ogmios_v5, v5Pair, J.field, J.lookup, J.getN, J.getD, ht, hv, hh, J.asStr, hsc, hdt]
  simp [dotValue, J.lookup]

/-- Ogmios v6: `{"ada": {"lovelace": c}, policy: {name: q}}`, optional `datumHash` / `datum` / `script`; every
script language the service reports: Plutus v1–v3 (`{"language": "plutus:vN", "cbor"}`) and native scripts
(`{"language": "native", "json", "cbor"}`, language `0`, carried as the reported CBOR whatever JSON notation
`aux.nativeJson` accompanies it). -/
theorem parse_render_ogmios_v6 (aux : Aux) (u : UTxOModel) (hw : WellFormed u) (hd : bytesPayload u.datum = true)
    (hs : scriptBytesOK [0, 1, 2, 3] u.script = true) : parse_ogmios_v6 (render_ogmios_v6 aux u) = .ok u := by
  have hv := v6Value_render u hw
  have ht := txIn_render u.txId u.index hw.1
  have hdt := v6Datum_render u.datum u.datumHash hd hw.2.2.2.2.2.2
  have hh := hashIfTruthy_optStr u.datumHash hw.2.2.2.2.2.1
  have hsc := v6Script_opt aux u.script hs
  simp [parse_ogmios_v6, render_ogmios_v6, J.getN, J.getD, J.lookup, lookup_append, lookup_optMember, ht, hv,
    J.asStr, optStr_eq, hdt, hh, hsc]
  simp [v6ValueJ, J.lookup]

/-- cardano-cli: `"txid#ix"` key, `{"lovelace": c, policy: {name: q}}`, `datumhash`, inline datum as JSON next to
`inlineDatumhash`, Plutus v1–v3 reference script envelope (`PlutusScriptV1` / `PlutusScriptV2` / `PlutusScriptV3`). -/
theorem parse_render_cardano_cli (aux : Aux) (u : UTxOModel) (hw : WellFormed u) (hd : jsonPayload u.datum = true)
    (hs : scriptOK [1, 2, 3] u.script = true) (ha : aux.inlineHash.length = 32) :
    parse_cardano_cli (render_cardano_cli aux u).1 (render_cardano_cli aux u).2 = .ok u := by
  have ht := cliTxIn_render u hw.1
  have hv := cliOuter_policies u.ma (.num u.coin) (.num 0, []) hw.sizes
  rw [hw.rebuild] at hv
  have h1 := cliDatumHash_render (cliMembers aux u) u.datumHash (by simp [cliMembers, J.lookup]) hw.2.2.2.2.2.1
  have h2 := cliDatum_render (cliMembers aux u) aux u.datum (by simp [cliMembers, J.lookup])
    (by simp [cliMembers, J.lookup]) (by simp [cliMembers, J.lookup]) hd ha
  have h3 := cliScriptRef_render (cliMembers aux u) u.script (by simp [cliMembers, J.lookup]) hs
  have h4 : J.lookup (cliMembers aux u) "value" =
      some (.obj (u.ma.map nestedPolicy ++ [("lovelace", .num u.coin)])) := by simp [cliMembers, J.lookup]
  have h5 : J.lookup (cliMembers aux u) "address" = some (.str u.address) := by simp [cliMembers, J.lookup]
  simp [parse_cardano_cli, render_cardano_cli, ht, J.field, h4, J.asObj, hv, h1, h2, h3, h5, J.asStr, J.asInt]

/-- Kupo: `{"coins", "assets": {"policy.name" | "policy": q}}`, `datum_hash` + `datum_type`, datum and script
through `/datums/{h}` and `/scripts/{h}` (Plutus v1–v3).  The returned UTxO is `kupoImage aux u`: everything as
reported, except that an inline datum additionally keeps the hash under which Kupo lists it as `datum_hash`
(`datum_type` is not consulted by the adapter). -/
theorem parse_render_kupo (aux : Aux) (u : UTxOModel) (hw : WellFormed u) (hd : bytesPayload u.datum = true)
    (hs : scriptOK [1, 2, 3] u.script = true) (ha : aux.scriptHash.length = 28)
    (hi : u.datum.isSome → aux.inlineHash.length = 32) (hne : u.datum ≠ some (.bytes aux.inlineHash)) :
    parse_kupo u.address (render_kupo aux u).2 (render_kupo aux u).1 = .ok (some (kupoImage aux u)) := by
  have ht := txIn_render u.txId u.index hw.1
  have hv := dotParseValue_render u hw
  have l1 : J.lookup (kupoMembers aux u) "transaction_id" = some (.str (hexStr u.txId)) := by
    simp [kupoMembers, J.lookup]
  have l2 : J.lookup (kupoMembers aux u) "output_index" = some (.num u.index) := by simp [kupoMembers, J.lookup]
  have l3 : J.lookup (kupoMembers aux u) "spent_at" = some .null := by simp [kupoMembers, J.lookup]
  have l4 : J.lookup (kupoMembers aux u) "value" = some (dotValue u) := by simp [kupoMembers, J.lookup]
  have l5 : J.lookup (kupoMembers aux u) "script_hash" = some (scriptHashJ aux u.script) := by
    simp [kupoMembers, J.lookup]
  have l6 : J.lookup (kupoMembers aux u) "datum_hash" = some (optStr (shownHash aux u)) := by
    simp [kupoMembers, J.lookup]
  have l7 : J.lookup (kupoMembers aux u) "datum_type" = some (kupoDatumTypeJ aux u) := by
    simp [kupoMembers, J.lookup]
  have hk := kupoDatums_render aux u hw hd hi hne
  simp [parse_kupo, render_kupo, J.field, J.getN, J.getD, l1, l2, l3, l4, l5, l6, l7, J.isNull, ht, hv,
    kupoScript_render aux u hs ha, hk, kupoImage]
  simp [dotValue, J.lookup]

/-- Kupo, UTxOs without an inline datum: exactly the reported UTxO. -/
theorem parse_render_kupo_no_inline (aux : Aux) (u : UTxOModel) (hw : WellFormed u) (hd : u.datum = none)
    (hs : scriptOK [1, 2, 3] u.script = true) (ha : aux.scriptHash.length = 28) :
    parse_kupo u.address (render_kupo aux u).2 (render_kupo aux u).1 = .ok (some u) := by
  have h := parse_render_kupo aux u hw (by simp [hd, bytesPayload]) hs ha (by simp [hd]) (by simp [hd])
  rw [h]
  have : kupoImage aux u = u := by
    obtain ⟨_, _, _, _, _, dh, d, _⟩ := u
    simp only at hd
    subst hd
    cases dh <;> simp [kupoImage, shownHash]
  rw [this]

/-- a whole Ogmios response (any number of UTxOs, each with what the service shows besides it — a native script's
JSON notation differs from entry to entry): the same UTxOs, in the same order, none dropped or merged; native and
Plutus v1–v3 reference scripts carried over -/
theorem ogmios_v6_response (us : List (Aux × UTxOModel))
    (h : ∀ au ∈ us, WellFormed au.2 ∧ bytesPayload au.2.datum = true ∧
      scriptBytesOK [0, 1, 2, 3] au.2.script = true) :
    parseList parse_ogmios_v6 (us.map fun au => render_ogmios_v6 au.1 au.2) = .ok (us.map fun au => au.2) :=
  parseList_map' _ _ _ us fun au hu => parse_render_ogmios_v6 au.1 au.2 (h au hu).1 (h au hu).2.1 (h au hu).2.2

theorem ogmios_v5_response (us : List UTxOModel)
    (h : ∀ u ∈ us, WellFormed u ∧ bytesPayload u.datum = true ∧ scriptOK [1, 2] u.script = true) :
    parseList parse_ogmios_v5 (us.map render_ogmios_v5) = .ok us :=
  parseList_map _ _ us fun u hu => parse_render_ogmios_v5 u (h u hu).1 (h u hu).2.1 (h u hu).2.2

/-! ## the statement of the property: same reference, address, lovelace, quantity of every asset, datum, script -/

theorem blockfrost_faithful (aux : Aux) (u : UTxOModel) (hw : WellFormed u) (hd : bytesPayload u.datum = true)
    (hs : scriptOK [0, 1, 2, 3] u.script = true) (ha : aux.scriptHash.length = 28) :
    ∃ u', parse_blockfrost u.address (render_blockfrost aux u).2 (render_blockfrost aux u).1 = .ok u' ∧ Same u' u :=
  ⟨u, parse_render_blockfrost aux u hw hd hs ha, Same.refl u⟩

theorem ogmios_v5_faithful (u : UTxOModel) (hw : WellFormed u) (hd : bytesPayload u.datum = true)
    (hs : scriptOK [1, 2] u.script = true) : ∃ u', parse_ogmios_v5 (render_ogmios_v5 u) = .ok u' ∧ Same u' u :=
  ⟨u, parse_render_ogmios_v5 u hw hd hs, Same.refl u⟩

theorem ogmios_v6_faithful (aux : Aux) (u : UTxOModel) (hw : WellFormed u) (hd : bytesPayload u.datum = true)
    (hs : scriptBytesOK [0, 1, 2, 3] u.script = true) :
    ∃ u', parse_ogmios_v6 (render_ogmios_v6 aux u) = .ok u' ∧ Same u' u :=
  ⟨u, parse_render_ogmios_v6 aux u hw hd hs, Same.refl u⟩

theorem cardano_cli_faithful (aux : Aux) (u : UTxOModel) (hw : WellFormed u) (hd : jsonPayload u.datum = true)
    (hs : scriptOK [1, 2, 3] u.script = true) (ha : aux.inlineHash.length = 32) :
    ∃ u', parse_cardano_cli (render_cardano_cli aux u).1 (render_cardano_cli aux u).2 = .ok u' ∧ Same u' u :=
  ⟨u, parse_render_cardano_cli aux u hw hd hs ha, Same.refl u⟩

/-- Kupo: reference, address, lovelace, every asset quantity, inline datum bytes and script are as reported, for
UTxOs with or without an inline datum (the `datum_hash` field is characterised by `parse_render_kupo`). -/
theorem kupo_faithful (aux : Aux) (u : UTxOModel) (hw : WellFormed u) (hd : bytesPayload u.datum = true)
    (hs : scriptOK [1, 2, 3] u.script = true) (ha : aux.scriptHash.length = 28)
    (hi : u.datum.isSome → aux.inlineHash.length = 32) (hne : u.datum ≠ some (.bytes aux.inlineHash)) :
    ∃ u', parse_kupo u.address (render_kupo aux u).2 (render_kupo aux u).1 = .ok (some u') ∧
      u'.txId = u.txId ∧ u'.index = u.index ∧ u'.address = u.address ∧ u'.coin = u.coin ∧
      (∀ p n, MultiAsset.qty u'.ma p n = MultiAsset.qty u.ma p n) ∧ u'.datum = u.datum ∧ u'.script = u.script ∧
      (u.datum = none → u'.datumHash = u.datumHash) :=
  ⟨kupoImage aux u, parse_render_kupo aux u hw hd hs ha hi hne, rfl, rfl, rfl, rfl, fun _ _ => rfl, rfl, rfl, by
    intro h
    cases hh : u.datumHash <;> simp [kupoImage, shownHash, h, hh]⟩

/-! ## nothing merged, dropped or re-attributed — for entries reported in any order -/

/-- Entries with pairwise distinct (policy, name) pairs, accumulated in ANY order (not necessarily grouped by
policy) by the `setdefault(policy, Asset())[name] = q` step all five adapters share: each pair keeps exactly its
own quantity, and no other pair receives anything. -/
theorem no_merge_no_drop (es : List (Bytes × Bytes × Int)) (hd : (es.map entryKey).Nodup) :
    (∀ p n q, (p, n, q) ∈ es → MultiAsset.qty (putAll es []) p n = q) ∧
    (∀ p n, (p, n) ∉ es.map entryKey → MultiAsset.qty (putAll es []) p n = 0) := by
  refine ⟨fun p n q hm => qty_putAll_mem es [] p n q hd hm, fun p n hn => ?_⟩
  rw [qty_putAll_absent es [] p n hn]
  simp [MultiAsset.qty, Dict.getD, Asset.qty]

/-- the Blockfrost `amount` loop on the lovelace item followed by ANY list of asset items (any order, policies
interleaved) accumulates exactly those entries -/
theorem blockfrost_amount_any_order (c : Int) (es : List (Bytes × Bytes × Int))
    (h : ∀ e ∈ es, e.1.length = 28 ∧ e.2.1.length ≤ 32) :
    bfAmount (.obj [("unit", .str "lovelace"), ("quantity", .str (intStr c))] :: es.map bfEntry) (0, [])
      = .ok (c, putAll es []) := by
  simp only [bfAmount, bfItem_lovelace, ok_bind]
  rw [bfAmount_entries _ _ h]

/-- the Kupo / Ogmios v5 `assets` loop on ANY list of `policy.name` / bare-`policy` members -/
theorem dot_assets_any_order (es : List (Bytes × Bytes × Int))
    (h : ∀ e ∈ es, e.1.length = 28 ∧ e.2.1.length ≤ 32) :
    dotAssets (es.map dotEntry) [] = .ok (putAll es []) := dotAssets_entries es [] h

/-- `policy.name` identifiers: the split at the separator returns policy and name; a bare policy is the empty name -/
theorem dotSplit_spec (p n : Bytes) (hp : p.length = 28) (hn : n.length ≤ 32) :
    extractAssetInfo (dotKey p n) = .ok (p, n) := extractAssetInfo_dotKey p n hp hn

/-! ## the two repaired adapters: reference scripts that used to fail the whole address query

Before the repairs (`fix: restore PlutusV3 reference scripts in the cardano-cli chain context`, `fix: carry native
reference scripts over in the Ogmios v6 chain context`) the Ogmios v6 path raised `ValueError` on a native script
and the cardano-cli path handed a Plutus v3 text envelope to `NativeScript.from_dict` (`KeyError`); the statements
below were recorded as counterexamples then.  They now hold for every UTxO. -/

/-- Ogmios v6, a native reference script (reported as `{"language": "native", "json": …, "cbor": …}`): the UTxO is
returned with every observable as reported and exactly that script, whatever JSON notation accompanies the CBOR. -/
theorem ogmios_v6_native_script_carried (aux : Aux) (u : UTxOModel) (hw : WellFormed u)
    (hd : bytesPayload u.datum = true) (b : Bytes) (hs : u.script = some ⟨0, .bytes b⟩) :
    ∃ u', parse_ogmios_v6 (render_ogmios_v6 aux u) = .ok u' ∧ Same u' u ∧ u'.script = some ⟨0, .bytes b⟩ :=
  ⟨u, parse_render_ogmios_v6 aux u hw hd (by simp [hs, scriptBytesOK]), Same.refl u, hs⟩

/-- cardano-cli, a Plutus v3 reference script (text envelope `"type": "PlutusScriptV3"`): the UTxO is returned with
every observable as reported and exactly that script. -/
theorem cardano_cli_plutus_v3_script_carried (aux : Aux) (u : UTxOModel) (hw : WellFormed u)
    (hd : jsonPayload u.datum = true) (ha : aux.inlineHash.length = 32) (b : Bytes)
    (hs : u.script = some ⟨3, .bytes b⟩) :
    ∃ u', parse_cardano_cli (render_cardano_cli aux u).1 (render_cardano_cli aux u).2 = .ok u' ∧ Same u' u ∧
      u'.script = some ⟨3, .bytes b⟩ :=
  ⟨u, parse_render_cardano_cli aux u hw hd (by simp [hs, scriptOK]) ha, Same.refl u, hs⟩

/-- the languages the Ogmios v6 path has no branch for are still refused (`ValueError`), not mistaken for a native
or a Plutus script -/
theorem ogmios_v6_unknown_language_refused (lang : String) (rest : List (String × J))
    (h1 : startsPlutusV lang = false) (h2 : lang ≠ "native") :
    v6Script (.obj (("language", .str lang) :: rest)) = .error .value := by
  simp [v6Script, J.truthy, J.field, J.lookup, J.asStr, h1, h2]

/-- an ADA-only UTxO carrying a native reference script: `ScriptPubkey` of the key hash `33…33`, as CBOR
`82 00 58 1c 33…33` (the witness of the former finding KF-C20-ogmios6-native-refscript) -/
def nativeWitness : UTxOModel :=
  { txId := List.replicate 32 0xab, index := 0, address := "addr_test1vqqszqgp", coin := 2000000, ma := [],
    datumHash := none, datum := none,
    script := some ⟨0, .bytes ([0x82, 0x00, 0x58, 0x1c] ++ List.replicate 28 0x33)⟩ }

/-- what Ogmios shows besides `nativeWitness`: the script in its own notation -/
def nativeAux : Aux :=
  { inlineHash := List.replicate 32 0, scriptHash := List.replicate 28 0,
    nativeJson := .obj [("clause", .str "signature"), ("from", .str (hexStr (List.replicate 28 0x33)))] }

/-- an ADA-only UTxO carrying a Plutus v3 reference script (the witness of the former finding
KF-C20-cli-plutusv3-refscript) -/
def v3Witness : UTxOModel :=
  { txId := List.replicate 32 0xab, index := 0, address := "addr_test1vqqszqgp", coin := 2000000, ma := [],
    datumHash := none, datum := none, script := some ⟨3, .bytes [0x46, 1, 0, 0, 0x22, 0x24, 0x99]⟩ }

example : parse_ogmios_v6 (render_ogmios_v6 nativeAux nativeWitness) = .ok nativeWitness :=
  parse_render_ogmios_v6 nativeAux nativeWitness (by decide) (by decide) (by decide)

example : parse_cardano_cli (render_cardano_cli nativeAux v3Witness).1 (render_cardano_cli nativeAux v3Witness).2
    = .ok v3Witness :=
  parse_render_cardano_cli nativeAux v3Witness (by decide) (by decide) (by decide) (by decide)

/-! ## where the full statement fails on the code as it is (recorded finding) -/

/-- Kupo lists an inline datum by its hash with `datum_type = "inline"`; the adapter does not consult
`datum_type`, so the UTxO it returns carries the inline datum AND that hash as `datum_hash`, which the reported
output does not have. -/
theorem kupo_inline_datum_gets_datum_hash (aux : Aux) (u : UTxOModel) (hw : WellFormed u)
    (hd : bytesPayload u.datum = true) (hs : scriptOK [1, 2, 3] u.script = true) (ha : aux.scriptHash.length = 28)
    (hi : u.datum.isSome → aux.inlineHash.length = 32) (hne : u.datum ≠ some (.bytes aux.inlineHash))
    (hin : u.datum.isSome) :
    ∃ u', parse_kupo u.address (render_kupo aux u).2 (render_kupo aux u).1 = .ok (some u') ∧
      u'.datum = u.datum ∧ u.datumHash = none ∧ u'.datumHash = some aux.inlineHash := by
  refine ⟨kupoImage aux u, parse_render_kupo aux u hw hd hs ha hi hne, rfl, ?_, ?_⟩
  · rcases hw.2.2.2.2.2.2 with h | h
    · simpa using h
    · rw [Option.isNone_iff_eq_none] at h; simp [h] at hin
  · have hdh : u.datumHash = none := by
      rcases hw.2.2.2.2.2.2 with h | h
      · simpa using h
      · rw [Option.isNone_iff_eq_none] at h; simp [h] at hin
    obtain ⟨d, hd'⟩ := Option.isSome_iff_exists.1 hin
    simp [kupoImage, shownHash, hdh, hd']

/-! ## non-vacuity -/

/-- a concrete UTxO with three assets over two policies — the empty name and two names under one policy — and a
datum hash -/
def sample : UTxOModel :=
  { txId := List.replicate 32 0xab, index := 1, address := "addr_test1vqqszqgp", coin := 1500000,
    ma := [(List.replicate 28 1, [([], 7), ([0x61, 0x62], 9223372036854775808)]), (List.replicate 28 2, [([0xff], 1)])],
    datumHash := some (List.replicate 32 0xcd), datum := none, script := none }

example : WellFormed sample := by decide

example : parse_ogmios_v6 (render_ogmios_v6 nativeAux sample) = .ok sample :=
  parse_render_ogmios_v6 nativeAux sample (by decide) (by decide) (by decide)

example : MultiAsset.qty sample.ma (List.replicate 28 1) [] = 7 ∧
    MultiAsset.qty sample.ma (List.replicate 28 1) [0x61, 0x62] = 9223372036854775808 ∧
    MultiAsset.qty sample.ma (List.replicate 28 2) [] = 0 := by decide

end Pyc.C20

#print axioms Pyc.C20.hexSplit_spec
#print axioms Pyc.C20.parse_render_blockfrost
#print axioms Pyc.C20.parse_render_ogmios_v5
#print axioms Pyc.C20.parse_render_ogmios_v6
#print axioms Pyc.C20.parse_render_cardano_cli
#print axioms Pyc.C20.parse_render_kupo
#print axioms Pyc.C20.parse_render_kupo_no_inline
#print axioms Pyc.C20.blockfrost_faithful
#print axioms Pyc.C20.ogmios_v5_faithful
#print axioms Pyc.C20.ogmios_v6_faithful
#print axioms Pyc.C20.cardano_cli_faithful
#print axioms Pyc.C20.kupo_faithful
#print axioms Pyc.C20.no_merge_no_drop
#print axioms Pyc.C20.blockfrost_amount_any_order
#print axioms Pyc.C20.dot_assets_any_order
#print axioms Pyc.C20.dotSplit_spec
#print axioms Pyc.C20.Same.refl
#print axioms Pyc.C20.ogmios_v6_response
#print axioms Pyc.C20.ogmios_v5_response
#print axioms Pyc.C20.ogmios_v6_native_script_carried
#print axioms Pyc.C20.cardano_cli_plutus_v3_script_carried
#print axioms Pyc.C20.ogmios_v6_unknown_language_refused
#print axioms Pyc.C20.kupo_inline_datum_gets_datum_hash
