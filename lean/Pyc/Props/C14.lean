import Pyc.Proofs.CoinSel

/-! # C14 — coin selection returns a covering subset or fails explicitly

Model: `Pyc/Model/CoinSel.lean` (`lfSelect` = `LargestFirstSelector.select`, `riSelect` =
`RandomImproveMultiAsset.select` with the injected index stream as an argument).  Every theorem is for every
pool, every request, every limit, both flags, every chain context (`Env`: maximum fee, minimum-change function,
fake address) and — for the randomized strategy — every index stream.

Hypotheses (exactly those the proofs use):
* `Distinct pool` — the inputs of the pool are pairwise distinct (what a UTxO set is);
* `PoolWF pool` — every amount is a legal dict (unique keys: true of every Python dict);
* `OutsWF outputs` — the requested amounts are legal dicts;
* for the coverage of the randomized strategy only (`ri_covers`), `PoolOK pool` — `PoolWF` and no negative quantity in
  the pool.  `Value.__le__` is the component-wise order for all operands (`Pyc.C05.le_iff`, after the repair of
  KF-C05-le-negative), so every loop that ends on `requested <= selected_amount` ends covering, whatever the pool
  holds: largest-first needs no sign hypothesis at all (`lf_covers`; its top-up ends on `<=` against an ADA-only
  request, which also demands that the added inputs hold no net negative quantity).  Random-improve covers the
  single-asset requests one after the other and then improves without testing `<=` again, so an input taken later
  that carries a negative quantity of an asset covered earlier leaves that asset under-covered (witness below);
  the ledger admits no such entry.

The input limit (`lf_limit`, `ri_limit`) needs none of these hypotheses: it holds for every pool, request, flags, index
stream and every limit `l ≥ 0`, the inputs added by the min-change top-up included.  `max_input_count` is tested with
`is not None` everywhere (repair of KF-C14-limit), so `0` is a limit — "no input may be selected" — and the top-up is
handed the remaining budget `l - len(selected)`, where `0` means "no further input".

Pool immutability is not a theorem: the model is pure (`pool` is an argument, never returned or rebound), and the
implementation's working copies (`sorted(utxos)`, `list(utxos)`) are checked by byte snapshot in the harness. -/

namespace Pyc.C14
open Pyc Pyc.CoinSel

def Distinct (pool : List UTxO) : Prop := (pool.map UTxO.ref).Nodup
def PoolWF (pool : List UTxO) : Prop := ∀ u ∈ pool, Value.WF u.amount
def OutsWF (outputs : List Output) : Prop := ∀ o ∈ outputs, Value.WF o.amount

/-- requested ADA: the fee in force plus the outputs -/
def reqCoin (fee : Int) (outputs : List Output) : Int := fee + (outputs.map (fun o => o.amount.coin)).sum
/-- requested quantity of asset `(p, n)` -/
def reqQty (outputs : List Output) (p n : Bytes) : Int := (outputs.map (fun o => Value.qty o.amount p n)).sum
/-- ADA / quantity of asset `(p, n)` held by a list of UTxOs -/
def heldCoin (l : List UTxO) : Int := sumBy coinOf l
def heldQty (l : List UTxO) (p n : Bytes) : Int := sumBy (qtyOf p n) l

private theorem good_covers {pool : List UTxO} {outputs : List Output} (ho : OutsWF outputs) {f : Int}
    {sel : List UTxO} {change : Value} (g : Good True pool (requestSum f outputs) sel change) :
    reqCoin f outputs ≤ heldCoin sel ∧ ∀ p n, reqQty outputs p n ≤ heldQty sel p n := by
  have hs := requestSum_spec f outputs ho
  refine ⟨?_, fun p n => ?_⟩
  · have := g.coverCoin trivial; rw [hs.2.2.1] at this; exact this
  · have := g.coverQty trivial p n; rw [hs.2.2.2] at this; exact this

private theorem good_change {nn : Prop} {pool : List UTxO} {outputs : List Output} (ho : OutsWF outputs) {f : Int}
    {sel : List UTxO} {change : Value} (g : Good nn pool (requestSum f outputs) sel change) :
    change.coin = heldCoin sel - reqCoin f outputs ∧
      ∀ p n, Value.qty change p n = heldQty sel p n - reqQty outputs p n := by
  have hs := requestSum_spec f outputs ho
  refine ⟨?_, fun p n => ?_⟩
  · have := g.changeCoin; rw [hs.2.2.1] at this; exact this
  · have := g.changeQty p n; rw [hs.2.2.2] at this; exact this

/-! ## LargestFirstSelector -/

/-- the selected inputs are pairwise distinct entries of the pool (a sub-multiset of it) -/
theorem lf_subset (env : Env) (pool : List UTxO) (outputs : List Output) (limit : Option Int)
    (includeFee respectMin : Bool) (sel : List UTxO) (change : Value)
    (hd : Distinct pool) (hp : PoolWF pool) (ho : OutsWF outputs)
    (h : lfSelect env pool outputs limit includeFee respectMin = .ok (sel, change)) :
    (sel.map UTxO.ref).Nodup ∧ (∀ u ∈ sel, u ∈ pool) ∧ ∃ rest, (sel ++ rest).Perm pool := by
  obtain ⟨f, _, g⟩ := lfSelect_ok hp hd env outputs ho limit includeFee respectMin sel change h
  exact ⟨g.nodup, g.sub, subperm_of_nodup_subset sel pool (nodup_of_map _ _ g.nodup) g.sub⟩

/-- request (plus the maximum fee when asked) ≤ Σ selected, in ADA and in every asset — for every pool of legal
dicts, negative quantities included (`PoolWF`; the hypothesis was `PoolOK` while `<=` was key-directed) -/
theorem lf_covers (env : Env) (pool : List UTxO) (outputs : List Output) (limit : Option Int)
    (includeFee respectMin : Bool) (sel : List UTxO) (change : Value)
    (hd : Distinct pool) (hp : PoolWF pool) (ho : OutsWF outputs)
    (h : lfSelect env pool outputs limit includeFee respectMin = .ok (sel, change)) :
    ∃ fee, feeOf env includeFee = some fee ∧ reqCoin fee outputs ≤ heldCoin sel ∧
      ∀ p n, reqQty outputs p n ≤ heldQty sel p n := by
  obtain ⟨f, hf, g⟩ := lfSelect_ok hp hd env outputs ho limit includeFee respectMin sel change h
  exact ⟨f, hf, good_covers ho g⟩

/-- change = Σ selected − request, in ADA and in every asset -/
theorem lf_change (env : Env) (pool : List UTxO) (outputs : List Output) (limit : Option Int)
    (includeFee respectMin : Bool) (sel : List UTxO) (change : Value)
    (hd : Distinct pool) (hp : PoolWF pool) (ho : OutsWF outputs)
    (h : lfSelect env pool outputs limit includeFee respectMin = .ok (sel, change)) :
    ∃ fee, feeOf env includeFee = some fee ∧ change.coin = heldCoin sel - reqCoin fee outputs ∧
      ∀ p n, Value.qty change p n = heldQty sel p n - reqQty outputs p n := by
  obtain ⟨f, hf, g⟩ := lfSelect_ok hp hd env outputs ho limit includeFee respectMin sel change h
  exact ⟨f, hf, good_change ho g⟩

/-- never more inputs than the stated limit: whenever a selection is returned and a limit `l ≥ 0` was given,
`len(selected) ≤ l` — the inputs added by the min-change top-up included (it is handed the remaining budget
`l - len(selected)`, and a remaining budget of 0 means "no further input") -/
theorem lf_limit (env : Env) (pool : List UTxO) (outputs : List Output) (l : Int)
    (includeFee respectMin : Bool) (sel : List UTxO) (change : Value) (hl : 0 ≤ l)
    (h : lfSelect env pool outputs (some l) includeFee respectMin = .ok (sel, change)) :
    (sel.length : Int) ≤ l :=
  lfSelect_limit env pool outputs l hl includeFee respectMin sel change h

/-- `max_input_count=0` is a limit ("no input may be selected"), not "no limit": a returned selection is empty -/
theorem lf_limit_zero (env : Env) (pool : List UTxO) (outputs : List Output)
    (includeFee respectMin : Bool) (sel : List UTxO) (change : Value)
    (h : lfSelect env pool outputs (some 0) includeFee respectMin = .ok (sel, change)) : sel = [] := by
  have := lf_limit env pool outputs 0 includeFee respectMin sel change (by decide) h
  exact List.eq_nil_of_length_eq_zero (by omega)

/-! ### witnesses (the inputs on which the limit was exceeded before the repair, KF-C14-limit) -/

def wFee : FeeParams :=
  { a := ⟨44, 1⟩, b := ⟨155381, 1⟩, priceStep := ⟨721, 10000000⟩, priceMem := ⟨577, 10000⟩,
    maxTxSize := 16384, maxTxExSteps := 10000000000, maxTxExMem := 10000000 }
/-- mainnet-like context: 4310 lovelace per byte, a 57-byte address -/
def wEnv : Env := Env.real wFee 4310 (List.replicate 57 0)
def wUtxo (i : Nat) (v : Value) : UTxO := ⟨[UInt8.ofNat i], 0, { addr := [0x61], amount := v }⟩
def wOut (v : Value) : Output := { addr := [0x61], amount := v }
/-- 3 ADA and 2 ADA; 2.9 ADA requested: the first input covers, its change (0.1 ADA) is below the minimum -/
def wPool : List UTxO := [wUtxo 1 ⟨3000000, []⟩, wUtxo 2 ⟨2000000, []⟩]
/-- 3 ADA and twice 0.5 ADA: the change of 0.1 ADA needs both small entries to reach the minimum (978 370) -/
def wPool1 : List UTxO := [wUtxo 1 ⟨3000000, []⟩, wUtxo 2 ⟨500000, []⟩, wUtxo 3 ⟨500000, []⟩]

/-- `LargestFirstSelector().select(pool, [2.9 ADA], ctx, max_input_count=1, include_max_fee=False)`: the first phase
ends exactly at the limit, the top-up runs with the remaining budget 0 and refuses the second input
(`MaxInputCountExceededException`; 2 inputs were returned before the repair); with `max_input_count=2` the same
call returns the 2 inputs.  On `wPool1` the top-up needs two more inputs: refused for the limits 1 and 2 (3 inputs
were returned for the limit 1 before the repair), 3 inputs for the limit 3. -/
example :
    errOf (lfSelect wEnv wPool [wOut ⟨2900000, []⟩] (some 1) false true) = some .maxInputs ∧
    selLen (lfSelect wEnv wPool [wOut ⟨2900000, []⟩] (some 2) false true) = 2 ∧
    errOf (lfSelect wEnv wPool1 [wOut ⟨2900000, []⟩] (some 1) false true) = some .maxInputs ∧
    errOf (lfSelect wEnv wPool1 [wOut ⟨2900000, []⟩] (some 2) false true) = some .maxInputs ∧
    selLen (lfSelect wEnv wPool1 [wOut ⟨2900000, []⟩] (some 3) false true) = 3 := by decide +kernel

/-- `max_input_count=0`: an empty request is served with no input; a request that needs an input is refused
(`MaxInputCountExceededException`, or `InsufficientUTxOBalanceException` when the pool is empty: that test comes
first); an empty request whose (zero) change is below the minimum is refused by the top-up -/
example :
    selLen (lfSelect wEnv wPool [] (some 0) false false) = 0 ∧
    errOf (lfSelect wEnv wPool [] (some 0) false false) = none ∧
    errOf (lfSelect wEnv wPool [wOut ⟨1000000, []⟩] (some 0) false false) = some .maxInputs ∧
    errOf (lfSelect wEnv [] [wOut ⟨1000000, []⟩] (some 0) false false) = some .insufficient ∧
    errOf (lfSelect wEnv wPool [] (some 0) false true) = some .maxInputs := by decide +kernel

/-- when largest-first reports an insufficient balance, the pool does not cover the request (plus fee) — or, in
min-change mode, what the first phase left (`s.avail`) does not cover the ADA-only top-up request: the pool's ADA is
below request + the minimum change of the first-phase selection, or `s.avail` holds a net negative quantity of some
asset (the top-up ends on the component-wise `<=`).  For every pool of legal dicts and every request of legal dicts
(the non-negativity of the requested quantities, needed while `<=` was key-directed, is dropped). -/
theorem lf_insufficient_genuine_wf (env : Env) (pool : List UTxO) (outputs : List Output) (limit : Option Int)
    (includeFee respectMin : Bool) (hd : Distinct pool) (hw : PoolWF pool) (ho : OutsWF outputs)
    (h : lfSelect env pool outputs limit includeFee respectMin = .error .insufficient) :
    ∃ fee, feeOf env includeFee = some fee ∧
      (¬ (reqCoin fee outputs ≤ heldCoin pool ∧ ∀ p n, reqQty outputs p n ≤ heldQty pool p n) ∨
       (respectMin = true ∧ ∃ s minChange, lfBase fee pool outputs limit = .ok s ∧
          env.minChange (Value.sub s.amt (requestSum fee outputs)) = some minChange ∧
          ¬ (reqCoin fee outputs + minChange ≤ heldCoin pool ∧ ∀ p n, 0 ≤ heldQty s.avail p n))) := by
  obtain ⟨f, hf, hh⟩ := lfSelect_insufficient hw hd env outputs limit includeFee respectMin h
  have hs := requestSum_spec f outputs ho
  refine ⟨f, hf, ?_⟩
  rcases hh with hh | ⟨hm, s, mc, h1, h2, h3⟩
  · left
    intro hc
    apply hh
    refine ⟨?_, fun p n => ?_⟩
    · rw [hs.2.2.1]; exact hc.1
    · rw [hs.2.2.2]; exact hc.2 p n
  · right
    refine ⟨hm, s, mc, h1, h2, ?_⟩
    rw [hs.2.2.1] at h3; exact h3

/-- when largest-first reports an insufficient balance, the pool does not cover the request (plus fee) — or, in
min-change mode, the pool's ADA is below request + the minimum change of the first-phase selection.  The pool holds
no negative quantity (`PoolOK`: the top-up's component-wise `<=` refuses a net negative quantity in what was left,
see `lf_insufficient_genuine_wf` for the statement without this hypothesis); the requested quantities are arbitrary
(their non-negativity, needed while `<=` was key-directed, is dropped). -/
theorem lf_insufficient_genuine (env : Env) (pool : List UTxO) (outputs : List Output) (limit : Option Int)
    (includeFee respectMin : Bool) (hd : Distinct pool) (hw : PoolOK pool) (ho : OutsWF outputs)
    (h : lfSelect env pool outputs limit includeFee respectMin = .error .insufficient) :
    ∃ fee, feeOf env includeFee = some fee ∧
      (¬ (reqCoin fee outputs ≤ heldCoin pool ∧ ∀ p n, reqQty outputs p n ≤ heldQty pool p n) ∨
       (respectMin = true ∧ ∃ s minChange, lfBase fee pool outputs limit = .ok s ∧
          env.minChange (Value.sub s.amt (requestSum fee outputs)) = some minChange ∧
          heldCoin pool < reqCoin fee outputs + minChange)) := by
  have hwf : PoolWF pool := fun u hu => (hw u hu).1
  obtain ⟨f, hf, hh⟩ := lf_insufficient_genuine_wf env pool outputs limit includeFee respectMin hd hwf ho h
  refine ⟨f, hf, ?_⟩
  rcases hh with hh | ⟨hm, s, mc, h1, h2, h3⟩
  · exact Or.inl hh
  · right
    refine ⟨hm, s, mc, h1, h2, ?_⟩
    obtain ⟨_, _, hperm⟩ := lfBase_inv hwf hd f outputs limit s h1
    have hnn : ∀ p n, 0 ≤ heldQty s.avail p n := fun p n =>
      sumBy_nonneg _ _ (fun u hu => (hw u (hperm.subset (List.mem_append_right _ hu))).2.2 p n)
    apply Int.not_le.1
    intro hc
    exact h3 ⟨hc, hnn⟩

/-! ## RandomImproveMultiAsset (`stream` = the injected random indices, universally quantified) -/

/-- the selected inputs are pairwise distinct entries of the pool (a sub-multiset of it) -/
theorem ri_subset (env : Env) (pool : List UTxO) (outputs : List Output) (limit : Option Int)
    (includeFee respectMin : Bool) (stream : List Nat) (sel : List UTxO) (change : Value)
    (hd : Distinct pool) (hp : PoolWF pool) (ho : OutsWF outputs)
    (h : riSelect env pool outputs limit includeFee respectMin stream = .ok (sel, change)) :
    (sel.map UTxO.ref).Nodup ∧ (∀ u ∈ sel, u ∈ pool) ∧ ∃ rest, (sel ++ rest).Perm pool := by
  obtain ⟨f, _, g⟩ := riSelect_ok (PoolN.ofWF hp) hd env outputs ho limit includeFee respectMin stream sel change h
  exact ⟨g.nodup, g.sub, subperm_of_nodup_subset sel pool (nodup_of_map _ _ g.nodup) g.sub⟩

/-- request (plus the maximum fee when asked) ≤ Σ selected, in ADA and in every asset -/
theorem ri_covers (env : Env) (pool : List UTxO) (outputs : List Output) (limit : Option Int)
    (includeFee respectMin : Bool) (stream : List Nat) (sel : List UTxO) (change : Value)
    (hd : Distinct pool) (hp : PoolOK pool) (ho : OutsWF outputs)
    (h : riSelect env pool outputs limit includeFee respectMin stream = .ok (sel, change)) :
    ∃ fee, feeOf env includeFee = some fee ∧ reqCoin fee outputs ≤ heldCoin sel ∧
      ∀ p n, reqQty outputs p n ≤ heldQty sel p n := by
  obtain ⟨f, hf, g⟩ := riSelect_ok (PoolN.ofOK hp) hd env outputs ho limit includeFee respectMin stream sel change h
  exact ⟨f, hf, good_covers ho g⟩

/-- change = Σ selected − request, in ADA and in every asset -/
theorem ri_change (env : Env) (pool : List UTxO) (outputs : List Output) (limit : Option Int)
    (includeFee respectMin : Bool) (stream : List Nat) (sel : List UTxO) (change : Value)
    (hd : Distinct pool) (hp : PoolWF pool) (ho : OutsWF outputs)
    (h : riSelect env pool outputs limit includeFee respectMin stream = .ok (sel, change)) :
    ∃ fee, feeOf env includeFee = some fee ∧ change.coin = heldCoin sel - reqCoin fee outputs ∧
      ∀ p n, Value.qty change p n = heldQty sel p n - reqQty outputs p n := by
  obtain ⟨f, hf, g⟩ := riSelect_ok (PoolN.ofWF hp) hd env outputs ho limit includeFee respectMin stream sel change h
  exact ⟨f, hf, good_change ho g⟩

/-- `_random_select_subset`, `_improve` and the recursive top-up terminate: the recursion budgets the model gives
them (`len(remaining) + 1`, one element leaves `remaining` per iteration / activation) are never exhausted -/
theorem ri_terminates (env : Env) (pool : List UTxO) (outputs : List Output) (limit : Option Int)
    (includeFee respectMin : Bool) (stream : List Nat) :
    riSelect env pool outputs limit includeFee respectMin stream ≠ .error .fuel :=
  riSelect_fuel env pool outputs limit includeFee respectMin stream

/-- never more inputs than the stated limit, whatever the random choices: whenever a selection is returned and a
limit `l ≥ 0` was given, `len(selected) ≤ l`.  Phase 1 tests the limit after each asset's subset, `_improve` returns
before appending when `len(selected) >= max_input_count`, and the recursive min-change top-up is handed the remaining
budget `l - len(selected)` (0 = "no further input"). -/
theorem ri_limit (env : Env) (pool : List UTxO) (outputs : List Output) (l : Int)
    (includeFee respectMin : Bool) (stream : List Nat) (sel : List UTxO) (change : Value) (hl : 0 ≤ l)
    (h : riSelect env pool outputs (some l) includeFee respectMin stream = .ok (sel, change)) :
    (sel.length : Int) ≤ l :=
  riSelect_limit env pool outputs l hl includeFee respectMin stream sel change h

/-- `max_input_count=0` is a limit ("no input may be selected"), not "no limit": a returned selection is empty -/
theorem ri_limit_zero (env : Env) (pool : List UTxO) (outputs : List Output)
    (includeFee respectMin : Bool) (stream : List Nat) (sel : List UTxO) (change : Value)
    (h : riSelect env pool outputs (some 0) includeFee respectMin stream = .ok (sel, change)) : sel = [] := by
  have := ri_limit env pool outputs 0 includeFee respectMin stream sel change (by decide) h
  exact List.eq_nil_of_length_eq_zero (by omega)

/-- three UTxOs of 1 ADA, 1 ADA requested, indices 0,0,0.  `max_input_count=1`: the first phase takes one input and
the improvement step (ideal 2 ADA) now returns without appending — 1 input (2 before the repair: the limit was tested
with `>` before appending).  `max_input_count=2`: the improvement step appends the second input; no limit: the same. -/
example :
    selLen (riSelect wEnv [wUtxo 1 ⟨1000000, []⟩, wUtxo 2 ⟨1000000, []⟩, wUtxo 3 ⟨1000000, []⟩]
      [wOut ⟨1000000, []⟩] (some 1) false false [0, 0, 0]) = 1 ∧
    selLen (riSelect wEnv [wUtxo 1 ⟨1000000, []⟩, wUtxo 2 ⟨1000000, []⟩, wUtxo 3 ⟨1000000, []⟩]
      [wOut ⟨1000000, []⟩] (some 2) false false [0, 0, 0]) = 2 ∧
    selLen (riSelect wEnv [wUtxo 1 ⟨1000000, []⟩, wUtxo 2 ⟨1000000, []⟩, wUtxo 3 ⟨1000000, []⟩]
      [wOut ⟨1000000, []⟩] none false false [0, 0, 0]) = 2 := by decide +kernel

/-- the top-up mechanism on the randomized strategy: on the largest-first witnesses the recursive top-up, run with the
remaining budget 0, refuses a further input (2 resp. 3 inputs were returned for the limit 1 before the repair).  At the
limit `_improve` returns before drawing an index, so the whole stream after phase 1 goes to the top-up; below the limit
(limits 2, 3 on `wPool1`) it draws the out-of-range index 5, which ends the improvement step.  With a sufficient limit
the inputs are returned. -/
example :
    errOf (riSelect wEnv wPool [wOut ⟨2900000, []⟩] (some 1) false true [0, 0, 0, 0]) = some .maxInputs ∧
    selLen (riSelect wEnv wPool [wOut ⟨2900000, []⟩] (some 2) false true [0, 0, 0, 0]) = 2 ∧
    errOf (riSelect wEnv wPool1 [wOut ⟨2900000, []⟩] (some 1) false true [0, 0, 0, 0]) = some .maxInputs ∧
    errOf (riSelect wEnv wPool1 [wOut ⟨2900000, []⟩] (some 2) false true [0, 5, 0, 0]) = some .maxInputs ∧
    selLen (riSelect wEnv wPool1 [wOut ⟨2900000, []⟩] (some 3) false true [0, 5, 0, 0]) = 3 := by decide +kernel

/-- `max_input_count=0`: an empty request is served with no input, a request that needs an input is refused
(`MaxInputCountExceededException` by phase 1; `InputUTxODepletedException` when the pool is empty: that test comes
first); an empty request whose (zero) change is below the minimum is refused by the top-up -/
example :
    selLen (riSelect wEnv wPool [] (some 0) false false [0]) = 0 ∧
    errOf (riSelect wEnv wPool [] (some 0) false false [0]) = none ∧
    errOf (riSelect wEnv wPool [wOut ⟨1000000, []⟩] (some 0) false false [0]) = some .maxInputs ∧
    errOf (riSelect wEnv [] [wOut ⟨1000000, []⟩] (some 0) false false [0]) = some .depleted ∧
    errOf (riSelect wEnv wPool [] (some 0) false true [0]) = some .maxInputs := by decide +kernel

/-! ## negative quantities in the pool -/

/-- quantity of asset `(p, n)` held by the inputs of a result -/
def resultQty (r : Except SelErr (List UTxO × Value)) (p n : Bytes) : Option Int :=
  match r with
  | .ok (s, _) => some (heldQty s p n)
  | .error _ => none

/-- a pool entry carrying −5 of a token, for a request that does not mention the token: while `<=` was key-directed
both strategies returned it (requested 0, held −5: KF-C05-le-negative); the component-wise `<=` is never satisfied
with −5 of the token selected, so both now refuse (`InsufficientUTxOBalanceException`, `InputUTxODepletedException`)
— the same on /repo -/
example :
    errOf (lfSelect wEnv [wUtxo 1 ⟨3000000, [([7, 7], [([1], -5)])]⟩, wUtxo 2 ⟨2000000, []⟩]
      [wOut ⟨2500000, []⟩] none false false) = some .insufficient ∧
    errOf (riSelect wEnv [wUtxo 1 ⟨3000000, [([7, 7], [([1], -5)])]⟩, wUtxo 2 ⟨2000000, []⟩]
      [wOut ⟨2500000, []⟩] none false false [0, 0, 0]) = some .depleted := by decide +kernel

/-- the largest-first top-up refuses an input that would bring a net negative quantity: 3 ADA cover the 2.9 ADA
requested, the change of 0.1 ADA is below the minimum, and the only other entry (2 ADA, −5 of a token) does not
satisfy `Value(min_change - change.coin) <= selected_amount` -/
example :
    errOf (lfSelect wEnv [wUtxo 1 ⟨3000000, []⟩, wUtxo 2 ⟨2000000, [([7, 7], [([1], -5)])]⟩]
      [wOut ⟨2900000, []⟩] none false true) = some .insufficient := by decide +kernel

/-- **the non-negativity hypothesis of `ri_covers` is needed**: 5 000 000 of a token and 1 ADA requested.  Phase 1
covers the token first (the larger single-asset request) with entry 1, then the ADA with entry 2, which carries −3 of
the token: `Value(1000000) <= selected_amount` holds (0 ≤ 4 999 997), the token request is not looked at again —
4 999 997 held for 5 000 000 requested.  The same on /repo.  No ledger UTxO looks like entry 2. -/
example :
    resultQty (riSelect wEnv [wUtxo 1 ⟨500000, [([7, 7], [([1], 5000000)])]⟩, wUtxo 2 ⟨2000000, [([7, 7], [([1], -3)])]⟩]
      [wOut ⟨1000000, [([7, 7], [([1], 5000000)])]⟩] none false false [0, 0, 0]) [7, 7] [1] = some 4999997 := by
  decide +kernel

/-! ## non-vacuity -/

def wToken : Value := ⟨2000000, [([7, 7], [([1], 10), ([2], 3)])]⟩
def wPool3 : List UTxO := [wUtxo 1 ⟨1500000, []⟩, wUtxo 2 wToken, wUtxo 3 ⟨4000000, []⟩, wUtxo 4 ⟨1500000, []⟩]
def wOuts3 : List Output := [wOut ⟨1000000, [([7, 7], [([1], 10)])]⟩, wOut ⟨300000, []⟩]

/-- the hypotheses are satisfiable by a pool with ties and a token-carrying entry, a two-output request with the
maximum fee (2 174 277 lovelace) and the minimum change in force; both strategies succeed on it (the randomized one
with indices 1, 1, 0, ...: token entry first), largest-first with 2 inputs and the top-up not needed -/
example : Distinct wPool3 ∧ PoolOK wPool3 ∧ OutsWF wOuts3 ∧
    selLen (lfSelect wEnv wPool3 wOuts3 (some 3) true true) = 2 ∧
    selLen (riSelect wEnv wPool3 wOuts3 (some 3) true true [1, 1, 0, 0, 0, 0]) = 3 ∧
    errOf (lfSelect wEnv wPool3 [wOut ⟨9000001, []⟩] none false true) = some .insufficient := by
  exact ⟨by unfold Distinct; decide, poolOK_of_stored (by decide), by unfold OutsWF; decide, by decide +kernel,
    by decide +kernel, by decide +kernel⟩

end Pyc.C14

#print axioms Pyc.C14.lf_subset
#print axioms Pyc.C14.lf_covers
#print axioms Pyc.C14.lf_change
#print axioms Pyc.C14.lf_limit
#print axioms Pyc.C14.lf_limit_zero
#print axioms Pyc.C14.lf_insufficient_genuine_wf
#print axioms Pyc.C14.lf_insufficient_genuine
#print axioms Pyc.C14.ri_subset
#print axioms Pyc.C14.ri_covers
#print axioms Pyc.C14.ri_change
#print axioms Pyc.C14.ri_terminates
#print axioms Pyc.C14.ri_limit
#print axioms Pyc.C14.ri_limit_zero
