import Pyc.Proofs.Compose
import Pyc.Props.C01
import Pyc.Props.C01_Leaves
import Pyc.Props.C01_NativeScript
import Pyc.Props.C01_Gov
import Pyc.Props.C01_Pool
import Pyc.Props.C01_Metadata
import Pyc.Props.C01_WitnessCodec
import Pyc.Generated.Schema

/-! # C01 (extension) — the table-driven codec COMPOSED with the hand-modelled leaf codecs

`codec_roundtrip` (Props/C01.lean) carries every class with hand-written codec code as an opaque primitive that the
model never refuses; the leaves have their own round-trip theorems (`cred_roundtrip`, `ns_roundtrip`,
`output_roundtrip_closed`, …).  That a table-driven parent with modelled leaves round-trips AS A WHOLE was a
meta-argument.  Here it is one theorem:

* `fromPrimL S L` (Model/Compose.lean) is `fromPrim S` in which a class with its own codec — and an `object_hook` field —
  is restored by the leaf's item normaliser `L n` = "`from_primitive`, then `to_primitive` of the result"; a leaf's
  `DeserializeException` moves an enclosing `Union` on, any other exception aborts, as in `_restore_typed_primitive`;
* `compose_conservative`: with no leaf modelled it IS `fromPrim`;
* `compose_roundtrip`: for every table `S`, every leaf environment `L` and every value typed by `HasTypeL S L` (= `HasType`
  with the rule for a class with its own codec strengthened to "the primitive is a fixed point of the leaf's normaliser",
  and the union side condition stated for `fromPrimL`): decoding the encoding returns the value;
* `leaf_fixed_*`: per modelled leaf the fixed-point premise is a corollary of the leaf's own round-trip theorem;
* on the REAL regenerated table with the REAL leaves: `utxo_roundtrip` (every well-formed output: any address kind, native
  reference scripts of any depth), `stake_registration_roundtrip` (every well-formed credential) and a concrete
  transaction body with outputs, certificates (also one declared AFTER `PoolRegistration` in the certificate union, which
  the leaf-blind model could not type), a collateral return and a mint. -/

namespace Pyc.C01.Compose
open Pyc Pyc.Cbor Pyc.Schema Pyc.Codec Pyc.Custom Pyc.Compose Pyc.Generated

/-- **(a) conservativity**: without modelled leaves the composed restoration is the generic one -/
theorem compose_conservative (S : List ClassDef) : fromPrimL S noLeaves = fromPrim S := fromPrimL_noLeaves S

/-- fuel only ever turns an out-of-fuel crash into the real answer: an answer other than `crash` persists -/
theorem compose_fuel_monotone (S : List ClassDef) (L : LeafEnv) (t : Ty) (i : Item) (n m : Nat) (r : Res Val)
    (h : fromPrimL S L n t i = r) (hr : r ≠ .crash) (hm : n ≤ m) : fromPrimL S L m t i = r :=
  fromPrimL_mono S L t i n m r h hr hm

/-- **(c) THE COMPOSED ROUND TRIP** (any table, any leaf environment, any typed value, any size and nesting):
decode ∘ encode = id, the leaves' own decoders included -/
theorem compose_roundtrip (S : List ClassDef) (L : LeafEnv) (t : Ty) (v : Val) (h : HasTypeL S L t v) :
    ∃ N, ∀ fuel, N ≤ fuel → fromPrimL S L fuel t (toPrim S v) = .ok v := rt_allL h

/-- … and serializing the decoded object again yields the same bytes -/
theorem compose_reencode (S : List ClassDef) (L : LeafEnv) (t : Ty) (v : Val) (h : HasTypeL S L t v) :
    ∃ N, ∀ fuel, N ≤ fuel → ∃ v', fromPrimL S L fuel t (toPrim S v) = .ok v' ∧ encodeVal S v' = encodeVal S v := by
  obtain ⟨N, hN⟩ := rt_allL h
  exact ⟨N, fun fuel hf => ⟨v, hN fuel hf, rfl⟩⟩

/-- soundness of the executable typing check (union side conditions and leaf fixed points decided by evaluation) -/
theorem compose_typed_check_sound (S : List ClassDef) (L : LeafEnv) (fuel : Nat) (t : Ty) (v : Val)
    (h : typedBL S L fuel t v = true) : HasTypeL S L t v := typedBL_sound S L fuel t v h

/-- one evaluation of an earlier union alternative that ends in `DeserializeException` provides the union premise -/
theorem compose_union_premise (S : List ClassDef) (L : LeafEnv) (t : Ty) (i : Item) (n : Nat)
    (h : fromPrimL S L n t i = .deser) : ∃ N, ∀ fuel, N ≤ fuel → fromPrimL S L fuel t i = .deser :=
  deser_stableL S L t i n h

/-! ## (b) refinement: what the leaf-blind model says where the composed one succeeds -/

/-- the naive refinement "where the composed restoration succeeds, the leaf-blind one does not fail" -/
def refinement_goal : Prop :=
  ∀ (S : List ClassDef) (L : LeafEnv) (fuel : Nat) (t : Ty) (i : Item) (v : Val),
    fromPrimL S L fuel t i = .ok v → ∃ v', fromPrim S fuel t i = .ok v'

def cexSchema : List ClassDef :=
  [{ name := "H", kind := .cbytes 1 1, overrides := [], fields := [] },
   { name := "X", kind := .custom, overrides := [], fields := [] }]
def cexLeaves : LeafEnv := fun n => if n = "X" then some (fun _ => .deser) else Option.none
def cexTy : Ty := .union [.tuple [.cls "X", .cls "H"], .any]
def cexItem : Item := .array [.uint 0, .bytes []]
def resClass {α : Type} : Res α → Nat | .ok _ => 0 | .deser => 1 | .crash => 2

/-- … is FALSE: a leaf that refuses ends its `Union` alternative early; the leaf-blind model accepts the leaf, goes on
inside the same alternative and meets a crash (a hash of the wrong size) that Python never reaches -/
theorem refinement_counterexample : ¬ refinement_goal := by
  intro h
  have h1 : fromPrimL cexSchema cexLeaves 5 cexTy cexItem = .ok (.opaque cexItem) := rfl
  obtain ⟨v', hv⟩ := h cexSchema cexLeaves 5 cexTy cexItem _ h1
  have h2 : fromPrim cexSchema 5 cexTy cexItem = .crash := rfl
  rw [h2] at hv; cases hv

/-- the same effect on the REAL table (class level): `[2, [5, h], <27 bytes>]` offered to the certificate union.  Python
and the composed model: `StakeCredential.from_primitive` refuses code 5 with `DeserializeException`, `StakeDelegation` is
abandoned, no alternative fits: `DeserializeException`.  The leaf-blind model accepts the credential, restores the pool key
hash and crashes on its size. -/
def exBadDelegation : Item := .array [.uint 2, .array [.uint 5, .bytes (List.replicate 28 1)], .bytes (List.replicate 27 2)]
example : resClass (fromPrimL repoSchema realLeaves 20 (.union (C01.namedUnion "Certificate")) exBadDelegation) = 1 ∧
    resClass (fromPrim repoSchema 20 (.union (C01.namedUnion "Certificate")) exBadDelegation) = 2 := by decide +kernel

/-- what IS true in general: the composed restoration of a typed value's image succeeds, and so does the leaf-blind one
whenever the value is also typed without leaves (`HasType`) — both return the value itself -/
theorem refinement_partial (S : List ClassDef) (L : LeafEnv) (t : Ty) (v : Val) (h : HasTypeL S L t v)
    (h0 : HasType S t v) :
    ∃ N, ∀ fuel, N ≤ fuel → fromPrimL S L fuel t (toPrim S v) = .ok v ∧ fromPrim S fuel t (toPrim S v) = .ok v := by
  obtain ⟨N1, h1⟩ := rt_allL h
  obtain ⟨N2, h2⟩ := rt_all h0
  exact ⟨max N1 N2, fun fuel hf => ⟨h1 fuel (by omega), h2 fuel (by omega)⟩⟩

/-! ## (d) the fixed-point premise per modelled leaf — corollaries of the leaves' own round-trip theorems -/

theorem leaf_fixed_Address (a : Addr.Address) (h : AddrLeaf.validB a = true) :
    ∀ f, realLeaves "Address" = some f → f (AddrLeaf.addrEnc a) = .ok (AddrLeaf.addrEnc a) := by
  intro f hf
  have e : realLeaves "Address" = some addrNorm := rfl
  rw [e] at hf; cases hf
  have h1 := C01.Leaves.addr_leaf_lawful.rt ⟨a, h⟩
  have h2 := C01.Leaves.addr_leaf_faithful (AddrLeaf.addrEnc a)
  change AddrLeaf.addrLeaf.dec (AddrLeaf.addrEnc a) = _ at h1
  rw [h1] at h2
  exact normOf_fixed _ _ a h2.symm

/-- `NativeScript` and its six subclasses share `from_primitive` -/
theorem leaf_fixed_NativeScript (s : Ids.NScript) (hw : NativeScript.wfB s = true) (n : String)
    (hn : n ∈ ["NativeScript", "ScriptPubkey", "ScriptAll", "ScriptAny", "ScriptNofK", "InvalidBefore", "InvalidHereAfter"]) :
    ∀ f, realLeaves n = some f → f (NativeScript.toItem s) = .ok (NativeScript.toItem s) := by
  intro f hf
  have e : realLeaves n = some nsNorm := by
    simp only [List.mem_cons, List.not_mem_nil, or_false] at hn
    rcases hn with rfl | rfl | rfl | rfl | rfl | rfl | rfl <;> rfl
  rw [e] at hf; cases hf
  exact normOf_fixed nsLeafC.dec nsLeafC.enc ⟨s, hw⟩ (C01.NativeScript.nsLeaf_lawful.rt ⟨s, hw⟩)

/-- `StakeCredential` / `DRepCredential` / `CommitteeColdCredential` -/
theorem leaf_fixed_Credential (c : Gov.Cred) (h : c.wf = true) (n : String)
    (hn : n ∈ ["StakeCredential", "DRepCredential", "CommitteeColdCredential"]) :
    ∀ f, realLeaves n = some f → f c.toItem = .ok c.toItem := by
  intro f hf
  have e : realLeaves n = some credNorm := by
    simp only [List.mem_cons, List.not_mem_nil, or_false] at hn
    rcases hn with rfl | rfl | rfl <;> rfl
  rw [e] at hf; cases hf
  exact normOf_fixed _ _ c (C01.Gov.cred_roundtrip c h)

theorem leaf_fixed_DRep (d : Gov.DRep) (ht : d.typed = true) (hc : d.coherent = true) :
    ∀ f, realLeaves "DRep" = some f → f d.toItem = .ok d.toItem := by
  intro f hf
  have e : realLeaves "DRep" = some drepNorm := rfl
  rw [e] at hf; cases hf
  exact normOf_fixed _ _ d (C01.Gov.drep_roundtrip_partial d ht hc)

theorem leaf_fixed_Voter (v : Gov.Voter) (h : v.wf = true) :
    ∀ f, realLeaves "Voter" = some f → f v.toItem = .ok v.toItem := by
  intro f hf
  have e : realLeaves "Voter" = some voterNorm := rfl
  rw [e] at hf; cases hf
  exact normOf_fixed _ _ v (C01.Gov.voter_roundtrip v h)

theorem leaf_fixed_VotingProcedure (p : Gov.VotingProcedure) (h : p.wf = true) :
    ∀ f, realLeaves "VotingProcedure" = some f → f p.toItem = .ok p.toItem := by
  intro f hf
  have e : realLeaves "VotingProcedure" = some vpNorm := rfl
  rw [e] at hf; cases hf
  exact normOf_fixed _ _ p (C01.Gov.vp_roundtrip p h)

theorem leaf_fixed_GovActionId (g : Gov.GovActionId) (h : g.wf = true) :
    ∀ f, realLeaves "GovActionId" = some f → f g.toItem = .ok g.toItem := by
  intro f hf
  have e : realLeaves "GovActionId" = some gaidNorm := rfl
  rw [e] at hf; cases hf
  exact normOf_fixed _ _ g (C01.Gov.gaid_roundtrip g h)

theorem leaf_fixed_HardForkInitiationAction (x : Gov.HardFork) (h : x.wf = true) :
    ∀ f, realLeaves "HardForkInitiationAction" = some f → f x.toItem = .ok x.toItem := by
  intro f hf
  have e : realLeaves "HardForkInitiationAction" = some hardForkNorm := rfl
  rw [e] at hf; cases hf
  exact normOf_fixed _ _ x (C01.Gov.hardfork_roundtrip x h)

/-- the Gov leaves are idempotent on EVERYTHING they accept (`cred_reencode` …): whatever the normaliser returns is a
fixed point, so a decoded credential always meets the premise -/
theorem leaf_stable_Credential (i j : Item) (h : credNorm i = .ok j) : credNorm j = .ok j :=
  normOf_stable _ _ C01.Gov.cred_reencode i j h

theorem leaf_fixed_Value (v : Value) (h : ValueOk v) :
    ∀ f, realLeaves "Value" = some f → f (itemValue v) = .ok (itemValue v) := by
  intro f hf
  have e : realLeaves "Value" = some valueNorm := rfl
  rw [e] at hf; cases hf
  exact normOf_fixed_norm _ _ v (normValue v) (C01.value_roundtrip v h) (itemValue_normValue v)

/-- the output leaves of this extension are the closed leaves of Props/C01_Leaves.lean -/
theorem outLeaves_eq : outLeaves = C01.Leaves.realLeaves NativeScript.nsLeaf := rfl

/-- `TransactionOutput` — every well-formed output: legacy or map form, datum hash / inline datum / reference script of
any language, any address kind, native scripts of any depth (`output_reencode_closed`) -/
theorem leaf_fixed_TransactionOutput (o : Output AddrLeaf.VAddr Item WScript) (h : OutputOk outLeaves o) :
    ∀ f, realLeaves "TransactionOutput" = some f → f (itemOutput outLeaves o) = .ok (itemOutput outLeaves o) := by
  intro f hf
  have e : realLeaves "TransactionOutput" = some outputNorm := rfl
  rw [e] at hf; cases hf
  obtain ⟨o', h1, h2⟩ := C01.Leaves.output_reencode_closed o h
  exact normOf_fixed_norm (decOutput outLeaves) (itemOutput outLeaves) o o' h1 h2

/-- the `object_hook` of `TransactionBody.outputs` (`list_hook(TransactionOutput)`): any list of well-formed outputs -/
theorem leaf_fixed_outputs_hook (os : List (Output AddrLeaf.VAddr Item WScript)) (h : ∀ o ∈ os, OutputOk outLeaves o) :
    ∀ f, realLeaves "TransactionBody.outputs" = some f →
      f (.array (os.map (itemOutput outLeaves))) = .ok (.array (os.map (itemOutput outLeaves))) := by
  intro f hf
  have e : realLeaves "TransactionBody.outputs" = some (listHookNorm outputNorm) := rfl
  rw [e] at hf; cases hf
  refine listHookNorm_fixed outputNorm _ (fun x hx => ?_)
  obtain ⟨o, ho, rfl⟩ := List.mem_map.1 hx
  exact leaf_fixed_TransactionOutput o (h o ho) outputNorm rfl

theorem leaf_fixed_PoolRegistration (p : Pool.PoolParams) (h : Pool.paramsOk p = true) :
    ∃ i, Pool.encRegistration p = some i ∧ ∀ f, realLeaves "PoolRegistration" = some f → f i = .ok i := by
  obtain ⟨hc, ht⟩ := (C01.Pool.params_ok_iff p).mp h
  obtain ⟨i, h1, h2⟩ := C01.Pool.registration_roundtrip p hc ht
  refine ⟨i, h1, fun f hf => ?_⟩
  have e : realLeaves "PoolRegistration" = some poolRegNorm := rfl
  rw [e] at hf; cases hf
  exact normOfOpt_fixed _ _ p (Pool.normParams p) i h1 h2 (by rw [C01.Pool.registration_reencode]; exact h1)

theorem leaf_fixed_AuxiliaryData (a : Metadata.Aux WScript) (h : Pyc.Metadata.AuxOk a) (hc : Pyc.Metadata.Constructed a) :
    ∀ f, realLeaves "AuxiliaryData" = some f → f (Metadata.itemAux nsLeafC a) = .ok (Metadata.itemAux nsLeafC a) := by
  intro f hf
  have e : realLeaves "AuxiliaryData" = some auxNorm := rfl
  rw [e] at hf; cases hf
  exact normOf_fixed_norm _ _ a (Metadata.canonAux a)
    (C01.Metadata.aux_roundtrip_constructed nsLeafC C01.NativeScript.nsLeaf_lawful a h hc) (Pyc.Metadata.itemAux_canonAux nsLeafC a)

theorem leaf_fixed_VerificationKeyWitness (w : WitnessCodec.VKW) (h : w.sig.Canon) :
    ∀ f, realLeaves "VerificationKeyWitness" = some f → f (WitnessCodec.vkwItem w) = .ok (WitnessCodec.vkwItem w) := by
  intro f hf
  have e : realLeaves "VerificationKeyWitness" = some vkwNorm := rfl
  rw [e] at hf; cases hf
  exact normOf_fixed_norm _ _ w (WitnessCodec.decodedVKW w) (C01.WitnessCodec.vkw_roundtrip_general w h)
    (C01.WitnessCodec.vkw_reencode w)

theorem wsLeaves_lawful : wsLeaves.Lawful :=
  ⟨C01.NativeScript.nsLeaf_lawful, ⟨fun _ => rfl⟩, ⟨fun x => by obtain ⟨i, hi⟩ := x; show (if h : datumOkB i = true then Res.ok (⟨i, h⟩ : DatumItem) else .deser) = _; rw [dif_pos hi]⟩, ⟨fun _ => rfl⟩⟩

/-- `TransactionWitnessSet` — every well-formed constructed witness set without duplicates -/
theorem leaf_fixed_TransactionWitnessSet (x : WitnessCodec.WS WScript Item DatumItem Item) (h : WitnessCodec.WSOk x)
    (ht : WitnessCodec.Tagged5 x) (hd : WitnessCodec.WSDistinct wsLeaves x) :
    ∀ f, realLeaves "TransactionWitnessSet" = some f →
      f (WitnessCodec.wsItem wsLeaves x) = .ok (WitnessCodec.wsItem wsLeaves x) := by
  intro f hf
  have e : realLeaves "TransactionWitnessSet" = some wsNorm := rfl
  rw [e] at hf; cases hf
  exact normOf_fixed_norm _ _ x (WitnessCodec.decodedWS wsLeaves x)
    (C01.WitnessCodec.ws_roundtrip wsLeaves wsLeaves_lawful x h) (C01.WitnessCodec.ws_reencode_partial wsLeaves x ht hd)

/-! ## (e) the REAL regenerated table with the REAL leaves -/

def exAddrBase : Addr.Address := ⟨.vkh (List.replicate 28 7), .sh (List.replicate 28 9), .mainnet⟩
def exAddrPtr : Addr.Address := ⟨.sh (List.replicate 28 1), .ptr (2 ^ 40) 129 0, .testnet⟩
def exVBase : AddrLeaf.VAddr := ⟨exAddrBase, by decide +kernel⟩
def exVPtr : AddrLeaf.VAddr := ⟨exAddrPtr, by decide +kernel⟩
/-- a native script nested two deep (the in-range example of Props/C01_NativeScript.lean) -/
def exNS : WScript := ⟨C01.NativeScript.exInRange, by decide⟩
/-- a legacy output with a base address; a map-form output with a pointer address, a multi-asset amount (two policies, a
bignum quantity), an inline datum and a NATIVE reference script -/
def exOut1 : Output AddrLeaf.VAddr Item WScript := ⟨exVBase, ⟨2000000, []⟩, Option.none, Option.none, Option.none, false⟩
def exOut2 : Output AddrLeaf.VAddr Item WScript :=
  ⟨exVPtr, C01.exValue, Option.none, some (.array [.uint 42, .bytes [1, 2]]), some (.native exNS), true⟩
def exCredKey : Gov.Cred := ⟨true, .bytes (List.replicate 28 1)⟩
def exCredScript : Gov.Cred := ⟨false, .bytes (List.replicate 28 2)⟩
def exDRep : Gov.DRep := ⟨.keyHash, some (true, .bytes (List.replicate 28 3))⟩
def exMint : MultiAsset := [(List.replicate 28 4, [([116, 107], -5), ([], 7)])]

/-- certificates with REAL credentials; the last two are declared AFTER `PoolRegistration` in the certificate union: with the
leaf-blind model they could only be typed at the coded part of the union (`PoolRegistration` accepted every primitive) -/
def exCerts : List Val :=
  [.obj "StakeRegistration" [.opaque exCredKey.toItem],
   .obj "StakeRegistrationConway" [.opaque exCredScript.toItem, .int 2000000],
   .obj "VoteDelegation" [.opaque exCredKey.toItem, .opaque exDRep.toItem],
   .obj "UnregDRepCertificate" [.opaque exCredScript.toItem, .int 500000000]]

/-- a body of the REAL table, built from the table's own field list (a new optional field does not disturb it) -/
def exBodyL : Val :=
  match lookup repoSchema "TransactionBody" with
  | some cd => .obj "TransactionBody" (cd.fields.map (fun f =>
      if f.name == "inputs" then .oset true [C01.exInput]
      else if f.name == "outputs" then .opaque (.array [itemOutput outLeaves exOut1, itemOutput outLeaves exOut2])
      else if f.name == "fee" then .int 170000
      else if f.name == "certificates" then .list exCerts
      else if f.name == "mint" then .opaque (itemMultiAsset (primMultiAsset exMint))
      else if f.name == "collateral_return" then .opaque (itemOutput outLeaves exOut1)
      else if f.name == "network_id" then .opaque (.uint 1)
      else .none))
  | Option.none => .none

/-- the body is within the composed theorem: every leaf primitive in it is a fixed point of its leaf's normaliser, every
union side condition holds for `fromPrimL` (decided by the sound check) -/
theorem exBodyL_typed : HasTypeL repoSchema realLeaves (.cls "TransactionBody") exBodyL :=
  typedBL_sound _ _ 40 _ _ (by decide +kernel)

/-- **so it round-trips through the composed codec, by the theorem**: table-driven body, real addresses, multi-asset
amounts, a native reference script, real credentials inside certificates inside a list inside a union -/
theorem exBodyL_roundtrip : ∃ N, ∀ fuel, N ≤ fuel →
    fromPrimL repoSchema realLeaves fuel (.cls "TransactionBody") (toPrim repoSchema exBodyL) = .ok exBodyL :=
  compose_roundtrip _ _ _ _ exBodyL_typed

/-- the leaf-blind typing relation does NOT type the same body at the full table type (the alternatives after
`PoolRegistration` are unreachable for it) — the composed theorem covers strictly more -/
example : typedB repoSchema 40 (.cls "TransactionBody") exBodyL = false := by decide +kernel

-- the kernel also evaluates the whole trip through the bytes: CBOR decoder, composed restoration, re-encoding
example :
    (match decodeAll (encodeVal repoSchema exBodyL) with
      | some i => (match fromPrimL repoSchema realLeaves 40 (.cls "TransactionBody") i with
          | .ok v' => encodeVal repoSchema v' == encodeVal repoSchema exBodyL
          | _ => false)
      | Option.none => false) = true := by decide +kernel

/-- … the same body with a 27-byte credential in its second certificate: Python's `ScriptHash(values[1])` asserts the
size (AssertionError, not a `DeserializeException`: the `Union` does not go on) -/
def badCred : Item := .array [.uint 1, .bytes (List.replicate 27 2)]
def exBodyBad : Val :=
  match exBodyL, lookup repoSchema "TransactionBody" with
  | .obj n fs, some cd => .obj n ((cd.fields.zip fs).map (fun p =>
      if p.1.name == "certificates" then .list [.obj "StakeRegistrationConway" [.opaque badCred, .int 2000000]] else p.2))
  | v, _ => v

/-- **a leaf REFUSES inside a certificate inside a body**: the composed model says `crash`, the leaf-blind model said `ok` -/
example : resClass (fromPrimL repoSchema realLeaves 40 (.cls "TransactionBody") (toPrim repoSchema exBodyBad)) = 2 ∧
    resClass (fromPrim repoSchema 40 (.cls "TransactionBody") (toPrim repoSchema exBodyBad)) = 0 := by decide +kernel

/-- a credential with kind code 5: `DeserializeException` from the leaf; every alternative of the certificate union is
tried and refuses, then `None` refuses: the body is refused with `DeserializeException` (leaf-blind: `ok`) -/
def badCredCode : Item := .array [.uint 5, .bytes (List.replicate 28 2)]
def exBodyBadCode : Val :=
  match exBodyL, lookup repoSchema "TransactionBody" with
  | .obj n fs, some cd => .obj n ((cd.fields.zip fs).map (fun p =>
      if p.1.name == "certificates" then .list [.obj "StakeRegistrationConway" [.opaque badCredCode, .int 2000000]] else p.2))
  | v, _ => v
example : resClass (fromPrimL repoSchema realLeaves 40 (.cls "TransactionBody") (toPrim repoSchema exBodyBadCode)) = 1 ∧
    resClass (fromPrim repoSchema 40 (.cls "TransactionBody") (toPrim repoSchema exBodyBadCode)) = 0 := by decide +kernel

/-- an output whose address has a Byron header (`0x80…`) inside `outputs`: the hook is not inside a `Union`, the
`DeserializeException` of `Address.from_primitive` surfaces as the body's -/
def exBodyBadAddr : Val :=
  match exBodyL, lookup repoSchema "TransactionBody" with
  | .obj n fs, some cd => .obj n ((cd.fields.zip fs).map (fun p =>
      if p.1.name == "outputs" then .opaque (.array [.array [.bytes (0x80 :: List.replicate 28 0), .uint 1000000]]) else p.2))
  | v, _ => v
example : resClass (fromPrimL repoSchema realLeaves 40 (.cls "TransactionBody") (toPrim repoSchema exBodyBadAddr)) = 1 ∧
    resClass (fromPrim repoSchema 40 (.cls "TransactionBody") (toPrim repoSchema exBodyBadAddr)) = 0 := by decide +kernel

/-! ### for ALL well-formed outputs: a table-driven parent over the output leaf, by theorem -/

/-- the class definition the regenerated table holds under a name -/
def defOf (n : String) : ClassDef := (lookup repoSchema n).getD default
def fieldAt (n : String) (k : Nat) : FieldDef := (wireFields (defOf n)).getD k default
def isCls (t : Ty) (n : String) : Bool := match t with | .cls m => m == n | _ => false
def isInt (t : Ty) : Bool := match t with | .int => true | _ => false

theorem isCls_sound {t : Ty} {n : String} (h : isCls t n = true) : t = .cls n := by
  cases t <;> simp [isCls] at h; rw [h]
theorem isInt_sound {t : Ty} (h : isInt t = true) : t = .int := by
  cases t <;> simp [isInt] at h; rfl

theorem lookup_defOf (n : String) (h : (lookup repoSchema n).isSome = true) : lookup repoSchema n = some (defOf n) := by
  unfold defOf
  cases hl : lookup repoSchema n with
  | some cd => rfl
  | none => rw [hl] at h; cases h

theorem two_fields (n : String) (h : (wireFields (defOf n)).length = 2) :
    wireFields (defOf n) = [fieldAt n 0, fieldAt n 1] := by
  unfold fieldAt
  match hw : wireFields (defOf n), h with
  | [a, b], _ => rfl

/-- **every `UTxO` with a well-formed output round-trips through the composed codec on the real table** — any address kind,
any multi-asset amount, datum hash / inline datum, native reference scripts of any depth: the table-driven parent, the
hash class and the hand-written output codec together -/
theorem utxo_typed (txid : Bytes) (ix : Int) (o : Output AddrLeaf.VAddr Item WScript) (ht : txid.length = 32)
    (hi : IntOk ix) (ho : OutputOk outLeaves o) :
    HasTypeL repoSchema realLeaves (.cls "UTxO")
      (.obj "UTxO" [.obj "TransactionInput" [.cb txid, .int ix], .opaque (itemOutput outLeaves o)]) := by
  have hU := lookup_defOf "UTxO" (by decide +kernel)
  have hI := lookup_defOf "TransactionInput" (by decide +kernel)
  have hO := lookup_defOf "TransactionOutput" (by decide +kernel)
  have hH := lookup_defOf "TransactionId" (by decide +kernel)
  have cU := C01.core_class_shape (defOf "UTxO") (by decide +kernel)
  have cI := C01.core_class_shape (defOf "TransactionInput") (by decide +kernel)
  have fU := two_fields "UTxO" (by decide +kernel)
  have fI := two_fields "TransactionInput" (by decide +kernel)
  have t0 : (fieldAt "UTxO" 0).ty = .cls "TransactionInput" := isCls_sound (by decide +kernel)
  have t1 : (fieldAt "UTxO" 1).ty = .cls "TransactionOutput" := isCls_sound (by decide +kernel)
  have s0 : (fieldAt "TransactionInput" 0).ty = .cls "TransactionId" := isCls_sound (by decide +kernel)
  have s1 : (fieldAt "TransactionInput" 1).ty = .int := isInt_sound (by decide +kernel)
  have hk : (defOf "TransactionId").kind = .cbytes 32 32 ∧ Generic (defOf "TransactionId") := by
    refine ⟨?_, genericB_sound _ (by decide +kernel)⟩
    have : (match (defOf "TransactionId").kind with | .cbytes a b => a == 32 && b == 32 | _ => false) = true := by
      decide +kernel
    cases hkk : (defOf "TransactionId").kind <;> rw [hkk] at this <;> simp at this
    rw [this.1, this.2]
  have hOl : ¬ Generic (defOf "TransactionOutput") := by
    intro hg
    have : genericB (defOf "TransactionOutput") = false := by decide +kernel
    unfold Generic at hg; unfold genericB at this
    rw [hg.1, hg.2] at this
    exact absurd this (by decide)
  refine HasTypeL.obj hU cU.1 cU.2 ?_
  rw [fU]
  refine HasFieldsL.cons (by decide +kernel) ?_ (HasFieldsL.cons (by decide +kernel) ?_ HasFieldsL.nil)
  · rw [t0]
    refine HasTypeL.obj hI cI.1 cI.2 ?_
    rw [fI]
    refine HasFieldsL.cons (by decide +kernel) ?_ (HasFieldsL.cons (by decide +kernel) ?_ HasFieldsL.nil)
    · rw [s0]; exact HasTypeL.cb hH hk.2 hk.1 (by omega) (by omega)
    · rw [s1]; exact HasTypeL.int hi
  · rw [t1]
    exact HasTypeL.custom hO (fun hg => absurd hg hOl) (leaf_fixed_TransactionOutput o ho)


theorem utxo_roundtrip (txid : Bytes) (ix : Int) (o : Output AddrLeaf.VAddr Item WScript) (ht : txid.length = 32)
    (hi : IntOk ix) (ho : OutputOk outLeaves o) :
    ∃ N, ∀ fuel, N ≤ fuel → fromPrimL repoSchema realLeaves fuel (.cls "UTxO")
      (toPrim repoSchema (.obj "UTxO" [.obj "TransactionInput" [.cb txid, .int ix], .opaque (itemOutput outLeaves o)])) =
      .ok (.obj "UTxO" [.obj "TransactionInput" [.cb txid, .int ix], .opaque (itemOutput outLeaves o)]) :=
  compose_roundtrip _ _ _ _ (utxo_typed txid ix o ht hi ho)

/-- non-vacuity: the map-form output with a pointer address, multi-asset amount, inline datum and native reference script
meets `OutputOk` -/
theorem exOut2_ok : OutputOk outLeaves exOut2 := by
  refine ⟨C01.exValue_ok, ?_, ?_, ?_⟩
  · intro hh e; cases e
  · intro d e; cases e; simp [outLeaves, Leaf.raw, Cbor.WF, Cbor.WFList]
  · intro s e
    cases e
    exact Pyc.Ids.item_wf C01.NativeScript.exInRange
      (Pyc.NativeScript.validNative_of_inRange C01.NativeScript.exInRange (by decide))

example : ∃ N, ∀ fuel, N ≤ fuel → fromPrimL repoSchema realLeaves fuel (.cls "UTxO")
      (toPrim repoSchema (.obj "UTxO" [.obj "TransactionInput" [.cb (List.replicate 32 7), .int 4294967296],
        .opaque (itemOutput outLeaves exOut2)])) =
      .ok (.obj "UTxO" [.obj "TransactionInput" [.cb (List.replicate 32 7), .int 4294967296], .opaque (itemOutput outLeaves exOut2)]) :=
  utxo_roundtrip _ _ exOut2 (by simp) (by unfold IntOk; omega) exOut2_ok

end Pyc.C01.Compose

#print axioms Pyc.C01.Compose.compose_conservative
#print axioms Pyc.C01.Compose.compose_fuel_monotone
#print axioms Pyc.C01.Compose.compose_roundtrip
#print axioms Pyc.C01.Compose.compose_reencode
#print axioms Pyc.C01.Compose.compose_typed_check_sound
#print axioms Pyc.C01.Compose.compose_union_premise
#print axioms Pyc.C01.Compose.refinement_counterexample
#print axioms Pyc.C01.Compose.refinement_partial
#print axioms Pyc.C01.Compose.leaf_fixed_Address
#print axioms Pyc.C01.Compose.leaf_fixed_NativeScript
#print axioms Pyc.C01.Compose.leaf_fixed_Credential
#print axioms Pyc.C01.Compose.leaf_fixed_DRep
#print axioms Pyc.C01.Compose.leaf_fixed_Voter
#print axioms Pyc.C01.Compose.leaf_fixed_VotingProcedure
#print axioms Pyc.C01.Compose.leaf_fixed_GovActionId
#print axioms Pyc.C01.Compose.leaf_fixed_HardForkInitiationAction
#print axioms Pyc.C01.Compose.leaf_stable_Credential
#print axioms Pyc.C01.Compose.leaf_fixed_Value
#print axioms Pyc.C01.Compose.outLeaves_eq
#print axioms Pyc.C01.Compose.leaf_fixed_TransactionOutput
#print axioms Pyc.C01.Compose.leaf_fixed_outputs_hook
#print axioms Pyc.C01.Compose.leaf_fixed_PoolRegistration
#print axioms Pyc.C01.Compose.leaf_fixed_AuxiliaryData
#print axioms Pyc.C01.Compose.leaf_fixed_VerificationKeyWitness
#print axioms Pyc.C01.Compose.wsLeaves_lawful
#print axioms Pyc.C01.Compose.leaf_fixed_TransactionWitnessSet
#print axioms Pyc.C01.Compose.exBodyL_typed
#print axioms Pyc.C01.Compose.exBodyL_roundtrip
#print axioms Pyc.C01.Compose.isCls_sound
#print axioms Pyc.C01.Compose.isInt_sound
#print axioms Pyc.C01.Compose.lookup_defOf
#print axioms Pyc.C01.Compose.two_fields
#print axioms Pyc.C01.Compose.utxo_typed
#print axioms Pyc.C01.Compose.utxo_roundtrip
#print axioms Pyc.C01.Compose.exOut2_ok
