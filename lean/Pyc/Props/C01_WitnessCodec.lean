import Pyc.Proofs.WitnessCodec

/-! # C01 (extension) — round trip of the witness-side codecs

`VerificationKeyWitness`, `Redeemer` / `RedeemerKey` / `RedeemerValue` / `RedeemerMap` / the `Redeemers` union,
`TransactionWitnessSet` (with `OrderedSet` / `NonEmptyOrderedSet` as its fields use them) and the text envelope of
`Key`: the model is `Model/WitnessCodec.lean` (a transliteration of witness.py, plutus.py, key.py and the parts of
serialization.py they go through), tied to /repo by `harness/checks/c01_ext_witnesscodec.py`.

Every theorem is for ALL values.  Native scripts, bootstrap witnesses, witness datums and redeemer data are leaves with
an abstract lawful codec (`Leaf.Lawful`: restoring what the class wrote returns it).  Where the round trip as the
property states it is FALSE of the code, the statement is kept as a `_goal`, refuted by a concrete witness
(`_counterexample`) and proved under the explicit extra hypothesis (`_partial`). -/

namespace Pyc.C01.WitnessCodec
open Pyc Pyc.Cbor Pyc.Codec Pyc.Custom Pyc.WitnessCodec

variable {N B D R : Type}

/-! ## `VerificationKeyWitness` -/

/-- decoding an encoded witness returns it with the key as a plain `VerificationKey`: `key_type` and `description`
are not on the wire.  For EVERY witness (whatever its signature field holds). -/
theorem vkw_roundtrip_general (w : VKW) (h : w.sig.Canon) : decVKW (vkwItem w) = .ok (decodedVKW w) :=
  decVKW_vkwItem w h

/-- re-encoding the decoded witness gives the same item -/
theorem vkw_reencode (w : VKW) : vkwItem (decodedVKW w) = vkwItem w := rfl

/-- **`from_cbor(to_cbor(w)) == w` for every constructed witness** — of every key class (`VerificationKey`, payment,
stake, pool, extended or not) and whatever envelope the key was handed over with: `__post_init__` reduces every
verification key to the plain key, which is what decoding returns.  The hypothesis is `validate` (what `to_cbor` asks:
a verification key class and a `bytes` signature; a witness holding a signing key cannot be serialized at all).  The
decoded witness is the very same object, hence `==` … -/
theorem vkw_roundtrip (k : KeyObj) (s : Prim) (h : vkwValid (mkVKW k s) = true) :
    decVKW (vkwItem (mkVKW k s)) = .ok (mkVKW k s) := decVKW_constructed k s h

/-- … under the library's own `Key.__eq__` (payload, description, type) -/
theorem vkw_roundtrip_pyeq (k : KeyObj) (s : Prim) (h : vkwValid (mkVKW k s) = true) :
    ∃ w', decVKW (vkwItem (mkVKW k s)) = .ok w' ∧ VKW.pyEq w' (mkVKW k s) = true :=
  ⟨_, decVKW_constructed k s h, pyEq_refl _⟩

/-- every serializable constructed witness holds a plain `VerificationKey` with the default envelope -/
theorem vkw_constructed_plain (k : KeyObj) (s : Prim) (h : vkwValid (mkVKW k s) = true) :
    (mkVKW k s).vkey = mkKey .verification (mkVKW k s).vkey.payload := mkVKW_plain k s h

/-- `__post_init__`: an `ExtendedVerificationKey` instance is cut to its first 32 bytes (and becomes a plain
`VerificationKey`) … -/
theorem vkw_extended_truncated (k : KeyObj) (s : Prim) (h : k.cls.isExtVerification = true) :
    (mkVKW k s).vkey = mkKey .verification (k.payload.take 32) := by
  simp [mkVKW, h, toNonExtended]

/-- … every other `VerificationKey` instance — role-specific class or not, typed envelope or not (the key
`SigningKey.to_verification_key()` returns is a `VerificationKey` carrying the signing key's envelope, renamed) —
becomes the plain key of the same payload, 64 bytes or not (the test is on the class) … -/
theorem vkw_verification_reduced (k : KeyObj) (s : Prim) (h1 : k.cls.isExtVerification = false)
    (h2 : k.cls.isVerification = true) : (mkVKW k s).vkey = mkKey .verification k.payload := by
  simp [mkVKW, h1, h2]

/-- … and anything that is not a verification key is kept as it is (`validate` refuses it) -/
theorem vkw_other_kept (k : KeyObj) (s : Prim) (h1 : k.cls.isExtVerification = false) (h2 : k.cls.isVerification = false) :
    (mkVKW k s).vkey = k ∧ vkwValid (mkVKW k s) = false := by
  simp [mkVKW, vkwValid, h1, h2]

/-- the witness `TransactionBuilder.build_and_sign` makes: the key is `signing_key.to_verification_key()`, a
`VerificationKey` (exact class) carrying the payment envelope -/
def exBuilderKey : KeyObj :=
  mkKey .verification (List.replicate 32 1) (some "PaymentVerificationKeyShelley_ed25519") (some "PaymentVerificationKeyShelley_ed25519")

def exBuilderWitness : VKW := mkVKW exBuilderKey (.bytes (List.replicate 64 2))

/-- a witness built from a `PaymentVerificationKey` -/
def exPaymentWitness : VKW :=
  mkVKW (mkKey .paymentVerification (List.replicate 32 1)) (.bytes (List.replicate 64 2))

/-- … and the DECODER never cuts: the key on the wire is restored as a `VerificationKey` of the same bytes, whatever
their number (and the signature as whatever item was there) -/
theorem vkw_decoder_keeps_payload (p : Bytes) (s : Item) (rest : List Item) :
    decVKW (.array (.bytes p :: s :: rest)) = .ok ⟨mkKey .verification p, Prim.ofItem s⟩ := by
  simp [decVKW, decKey, itemBytes?, Res.bind, mkVKW, mkKey, KeyClass.isExtVerification]

/-! ## redeemers -/

/-- list-form element: a redeemer whose tag has been assigned comes back unchanged … -/
theorem redeemer_roundtrip (L : Leaf R) (hL : L.Lawful) (r : Redeemer R) (ht : r.tag.isSome = true)
    (hc : r.index.Canon) : decRedeemer L (redeemerItem L r) = .ok r := by
  cases htag : r.tag with
  | none => simp [htag] at ht
  | some t => exact decRedeemer_item L hL r t htag hc

/-- … and a freshly constructed one (`Redeemer(data, ex_units)`: `tag` is an `init=False` field that defaults to
`None` and is written as `null`) serializes but cannot be decoded -/
theorem redeemer_untagged_not_decodable (L : Leaf R) (hL : L.Lawful) (r : Redeemer R) (ht : r.tag = Option.none) :
    decRedeemer L (redeemerItem L r) = .deser := decRedeemer_untagged L hL r ht

theorem redeemer_fresh_untagged (d : R) (e : Option ExUnits) : (mkRedeemer d e).tag = Option.none := rfl

/-- `RedeemerKey` and `RedeemerValue` -/
theorem redeemer_key_roundtrip (k : RKey) : decRKeyRaw (rkeyItem k) = .ok (k.tag, .int k.index) := decRKeyRaw_item k

theorem redeemer_value_roundtrip (L : Leaf R) (hL : L.Lawful) (v : RValue R) : decRValue L (rvalueItem L v) = .ok v :=
  decRValue_item L hL v

/-- map form (keys distinct, as in a Python dict): decoding returns the entries in the order they were written
(sorted by the encoded key) … -/
theorem redeemer_map_roundtrip (L : Leaf R) (hL : L.Lawful) (m : RMap R) (hn : (m.map (·.1)).Nodup) :
    decRMap L (rmapItem L m) = .ok (rmapSorted m) := decRMap_item L hL m hn

/-- … which are the same entries (`RedeemerMap.__eq__` compares the dicts) … -/
theorem redeemer_map_same_entries (m : RMap R) : (rmapSorted m).Perm m := rmapSorted_perm m

/-- … and re-encode to the same item -/
theorem redeemer_map_reencode (L : Leaf R) (m : RMap R) : rmapItem L (rmapSorted m) = rmapItem L m :=
  rmapItem_sorted L m

/-- duplicate keys on the wire: the later entry replaces the value of the earlier one, at the earlier one's place -/
theorem redeemer_map_duplicate_last_wins (L : Leaf R) (hL : L.Lawful) (k : RKey) (v1 v2 : RValue R) :
    decRMapLoop L [] [(rkeyItem k, rvalueItem L v1), (rkeyItem k, rvalueItem L v2)] = .ok [(k, v2)] :=
  decRMapLoop_duplicate L hL k v1 v2

/-- the `Redeemers` union, both forms -/
theorem redeemers_roundtrip (L : Leaf R) (hL : L.Lawful) (rs : Redeemers R) (h : RedeemersOk rs) :
    decRedeemersOpt L (redeemersItem L rs) = .ok (some (decodedRedeemers rs)) := decRedeemersOpt_item L hL rs h

theorem redeemers_reencode (L : Leaf R) (rs : Redeemers R) : redeemersItem L (decodedRedeemers rs) = redeemersItem L rs :=
  redeemersItem_decoded L rs

/-- the dispatch between the two forms is unambiguous: what is decoded as the list form was an array, what is decoded
as the map form was a map (and no item is both) -/
theorem redeemers_dispatch (L : Leaf R) (i : Item) :
    (∀ rs, decRedeemersOpt L i = .ok (some (.list rs)) → ∃ xs, listElems? i = some xs) ∧
    (∀ m, decRedeemersOpt L i = .ok (some (.map m)) → ∃ kvs, i = .map kvs) := by
  constructor
  · intro rs h
    unfold decRedeemersOpt at h
    cases hl : listElems? i with
    | some xs => exact ⟨xs, rfl⟩
    | none =>
      rw [hl] at h
      cases i <;> simp at h
      all_goals (split at h <;> simp at h)
  · intro m h
    unfold decRedeemersOpt at h
    cases i <;> simp [listElems?] at h ⊢
    all_goals (split at h <;> simp at h)

theorem redeemers_forms_apart (L : Leaf R) (rs : List (Redeemer R)) (m : RMap R) :
    redeemersItem L (.list rs) ≠ redeemersItem L (.map m) := by
  simp [redeemersItem, rmapItem]

/-! ## `TransactionWitnessSet` -/

/-- **round trip, every subset of the eight fields, every wire form of every set-valued field**: decoding the encoding
of a well-formed witness set returns `decodedWS` of it — the five fields `__post_init__` rebuilds as tagged sets, an
untagged set in `bootstrap_witness` / `plutus_data` as a list, vkey witnesses with plain keys, the redeemer map in wire
order -/
theorem ws_roundtrip (L : Leaves N B D R) (hL : L.Lawful) (x : WS N B D R) (h : WSOk x) :
    decWS L (wsItem L x) = .ok (decodedWS L x) := decWS_wsItem L hL x h

/-- … through the bytes -/
theorem ws_roundtrip_bytes (L : Leaves N B D R) (hL : L.Lawful) (x : WS N B D R) (h : WSOk x) (hw : Cbor.WF (wsItem L x)) :
    decWSBytes L (encWSBytes L x) = .ok (decodedWS L x) := by
  unfold decWSBytes encWSBytes
  rw [decodeAll_encode _ hw]
  exact decWS_wsItem L hL x h

/-- … in particular a witness set that is a fixed point of `decodedWS` comes back unchanged -/
theorem ws_roundtrip_fixed_point (L : Leaves N B D R) (hL : L.Lawful) (x : WS N B D R) (h : WSOk x)
    (hfix : decodedWS L x = x) : decWS L (wsItem L x) = .ok x := by
  have := decWS_wsItem L hL x h
  rw [hfix] at this
  exact this

/-- what is decoded is a constructed object (`__post_init__` has run) -/
theorem ws_decoded_constructed (L : Leaves N B D R) (x : WS N B D R) : mkWS L (decodedWS L x) = decodedWS L x :=
  mkWS_decodedWS L x

theorem ws_postinit_idempotent (L : Leaves N B D R) (a : WS N B D R) : mkWS L (mkWS L a) = mkWS L a := mkWS_idem L a

/-- every constructed witness set holds tagged sets in the five rebuilt fields — whatever was handed to the
constructor (`list`, `OrderedSet`, `NonEmptyOrderedSet` with or without the tag) -/
theorem ws_constructed_tagged (L : Leaves N B D R) (a : WS N B D R) : Tagged5 (mkWS L a) := mkWS_tagged5 L a

/-- **a constructed witness set equals its own round trip, vkey witnesses included** (`==` of the dataclass: the
five rebuilt fields come back as the very same sets, `bootstrap_witness` / `plutus_data` with the same elements, the
redeemer map with the same entries).  `hv`: the vkey witnesses are constructed ones (`vkw_constructed_plain`); no
hypothesis about witnesses that are written alike is needed any more: two witnesses that differ in the class or
envelope of their key are the same element of the set. -/
theorem ws_roundtrip_constructed (L : Leaves N B D R) (hL : L.Lawful) (a : WS N B D R) (h : WSOk (mkWS L a))
    (hv : ∀ c, (mkWS L a).vkeys = some c → ∀ w ∈ c.elems, w.Plain) (hd : PlainSetsDistinct L (mkWS L a)) :
    ∃ y, decWS L (wsItem L (mkWS L a)) = .ok y ∧ WS.PyEq y (mkWS L a) :=
  ⟨_, decWS_wsItem L hL _ h, decodedWS_pyEq L a hv hd⟩

/-- … and re-encodes to the same item -/
theorem ws_reencode_constructed (L : Leaves N B D R) (a : WS N B D R)
    (hv : ∀ c, (mkWS L a).vkeys = some c → ∀ w ∈ c.elems, w.Plain) (hd : PlainSetsDistinct L (mkWS L a)) :
    wsItem L (decodedWS L (mkWS L a)) = wsItem L (mkWS L a) := wsItem_decodedWS_constructed L a hv hd

/-- witnesses that differ only in the class / envelope of the key they were built from are ONE element of the set -/
theorem vkw_same_element (k k' : KeyObj) (s : Prim) (hp : k.payload = k'.payload)
    (h : vkwValid (mkVKW k s) = true) (h' : vkwValid (mkVKW k' s) = true)
    (hx : k.cls.isExtVerification = k'.cls.isExtVerification) : vkwKey (mkVKW k s) = vkwKey (mkVKW k' s) := by
  have e : (mkVKW k s).vkey.payload = (mkVKW k' s).vkey.payload := by
    by_cases h1 : k.cls.isExtVerification = true
    · have h1' : k'.cls.isExtVerification = true := hx ▸ h1
      simp [mkVKW, h1, h1', toNonExtended, mkKey, hp]
    · have h1' : ¬ k'.cls.isExtVerification = true := hx ▸ h1
      by_cases h2 : k.cls.isVerification = true <;> by_cases h2' : k'.cls.isVerification = true <;>
        simp [mkVKW, h1, h1', h2, h2', mkKey, hp]
  have p := mkVKW_plain k s h
  have p' := mkVKW_plain k' s h'
  unfold VKW.Plain at p p'
  simp only [vkwKey]
  rw [p, p', e]
  rfl

/-- the same elements as a tagged set -/
def retag {α : Type} (c : Coll α) : Coll α := .oset true c.elems

/-- **both wire forms of the five rebuilt fields decode to the same object**: whether vkey witnesses, native scripts
and Plutus scripts arrive as `#6.258([+ a])` or as `[+ a]` is forgotten … -/
theorem ws_rebuilt_fields_forget_form (L : Leaves N B D R) (x : WS N B D R) :
    decodedWS L { x with vkeys := x.vkeys.map retag, native := x.native.map retag, v1 := x.v1.map retag,
                         v2 := x.v2.map retag, v3 := x.v3.map retag } = decodedWS L x := by
  simp only [decodedWS, Option.map_map]
  rfl

/-- … while `bootstrap_witness` and `plutus_data` remember it: a tagged set comes back as a tagged set, an untagged
one (and a list) as a list -/
theorem ws_plain_fields_remember_form {α κ : Type} [DecidableEq κ] (key : α → κ) (xs : List α) (hn : (xs.map key).Nodup) :
    decodedPlain key (.oset true xs) = .oset true xs ∧ decodedPlain key (.oset false xs) = .list xs ∧
    decodedPlain key (.list xs) = .list xs := by
  simp [decodedPlain, dedupBy_of_nodup key xs hn]

/-- **re-encode**: the decoded witness set is written as the original was — provided the five rebuilt fields used the
tag (every constructed object: `ws_constructed_tagged`) … -/
theorem ws_reencode_partial (L : Leaves N B D R) (x : WS N B D R) (ht : Tagged5 x) (hd : WSDistinct L x) :
    wsItem L (decodedWS L x) = wsItem L x := wsItem_decodedWS L x ht hd

/-- … the statement for every wire form … -/
def ws_reencode_goal : Prop :=
  ∀ (x : WS Nat Nat Nat Nat) (L : Leaves Nat Nat Nat Nat), L.Lawful → WSOk x → WSDistinct L x →
    wsItem L (decodedWS L x) = wsItem L x

def natLeaf : Leaf Nat := ⟨fun n => .uint n, fun i => match i with | .uint n => .ok n | _ => .deser⟩
def exLeaves : Leaves Nat Nat Nat Nat := ⟨natLeaf, natLeaf, natLeaf, natLeaf⟩
theorem exLeaves_lawful : exLeaves.Lawful := ⟨⟨fun _ => rfl⟩, ⟨fun _ => rfl⟩, ⟨fun _ => rfl⟩, ⟨fun _ => rfl⟩⟩

def exPlainWitness : VKW := ⟨mkKey .verification (List.replicate 32 1), .bytes (List.replicate 64 2)⟩

/-- the wire form `[+ vkeywitness]` without the tag (pre-Conway writers; still legal): only reachable by assignment
after construction or — which is the point — by DECODING such bytes -/
def exUntagged : WS Nat Nat Nat Nat := { vkeys := some (.oset false [exPlainWitness]) }

theorem exUntagged_ok : WSOk exUntagged := by
  refine ⟨?_, ?_, ?_, ?_, ?_, ?_, ?_⟩
  · intro c hc
    cases hc
    refine ⟨?_, trivial⟩
    intro w hw
    simp only [Coll.elems, List.mem_cons, List.mem_nil_iff, or_false] at hw
    subst hw
    trivial
  all_goals (intro c hc; cases hc)

theorem exUntagged_distinct : WSDistinct exLeaves exUntagged := by
  refine ⟨?_, ?_, ?_, ?_, ?_, ?_, ?_⟩
  · intro c hc
    cases hc
    simp [CollDistinct, Coll.elems]
  · intro c hc; cases hc
  · intro t xs hc; cases hc
  · intro c hc; cases hc
  · intro t xs hc; cases hc
  · intro c hc; cases hc
  · intro c hc; cases hc

/-- … is FALSE: a witness set received with an untagged array in one of the five rebuilt fields is re-encoded with the
tag (`a1 00 81 …` becomes `a1 00 d9 0102 81 …`): the bytes of the witness set change (the transaction id does not) -/
theorem ws_reencode_counterexample : ¬ ws_reencode_goal := by
  intro h
  have := congrArg encode (h exUntagged exLeaves exLeaves_lawful exUntagged_ok exUntagged_distinct)
  revert this
  decide +kernel

/-! ## the key envelope -/

/-- `Key.from_primitive(k.to_primitive())`: the payload survives, type and description are those of the class -/
theorem key_prim_roundtrip (c : KeyClass) (k : KeyObj) : decKey c (keyItem k) = .ok (mkKey c k.payload) := rfl

/-- **`from_json(to_json(k)) == k`** for a key of every class, constructed with any `key_type` / `description`
arguments; with `validate_type=True` provided the key carries its class's type string -/
theorem key_json_roundtrip (c : KeyClass) (p : Bytes) (t d : Option String) (validate : Bool) (hp : p.length < 2 ^ 64)
    (hv : validate = true → (mkKey c p t d).keyType = c.keyType) :
    fromJson c validate (toJson (mkKey c p t d)) = .ok (mkKey c p t d) := by
  rw [fromJson_toJson c validate (mkKey c p t d) hp hv]
  exact congrArg KRes.ok (mkKey_idem c p t d)

/-- a key constructed without a `key_type` argument carries its class's type string: `validate_type=True` accepts it -/
theorem key_json_roundtrip_default (c : KeyClass) (p : Bytes) (d : Option String) (hp : p.length < 2 ^ 64) :
    fromJson c true (toJson (mkKey c p Option.none d)) = .ok (mkKey c p Option.none d) :=
  key_json_roundtrip c p Option.none d true hp (fun _ => rfl)

/-- **wrong `type` string is rejected** when `validate_type=True` … -/
theorem key_json_wrong_type_rejected (c : KeyClass) (k : KeyObj) (h : k.keyType ≠ c.keyType) :
    fromJson c true (toJson k) = .badType := fromJson_badType c k h

/-- … the type strings of the ten classes that define one are pairwise different … -/
theorem key_types_distinct :
    ∀ c ∈ KeyClass.concrete, ∀ c' ∈ KeyClass.concrete, c ≠ c' → c.keyType ≠ c'.keyType := by decide

/-- … so an envelope written by one of them is refused by every other one -/
theorem key_json_cross_class_rejected (c c' : KeyClass) (hc : c ∈ KeyClass.concrete) (hc' : c' ∈ KeyClass.concrete)
    (hne : c ≠ c') (p : Bytes) (d : Option String) :
    fromJson c' true (toJson (mkKey c p Option.none d)) = .badType :=
  fromJson_badType c' _ (key_types_distinct c hc c' hc' hne)

/-- without `validate_type` any class reads any envelope: the class is the reader's, type string and description are
the file's -/
theorem key_json_unvalidated (c' : KeyClass) (k : KeyObj) (hp : k.payload.length < 2 ^ 64) :
    fromJson c' false (toJson k) = .ok (mkKey c' k.payload (some k.keyType) (some k.description)) :=
  fromJson_toJson c' false k hp (by simp)

/-- `hash()` of an extended verification key is the hash of its first 32 bytes -/
theorem key_hash_extended (H : Bytes → Bytes) (k : KeyObj) (h : k.cls.isExtVerification = true) :
    keyHash H k = keyHash H (toNonExtended k) ∧ keyHash H k = H (k.payload.take 32) := by
  have h2 : (toNonExtended k).cls.isExtVerification = false := rfl
  have h3 : (toNonExtended k).payload = k.payload.take 32 := rfl
  simp only [keyHash, h, h2, h3, if_true, Bool.false_eq_true, if_false, and_self]

/-! ## non-vacuity -/

/-- constructor arguments for six of the eight fields: two vkey witnesses handed over as a list (one from an extended
key), a native script, an untagged bootstrap set, V1 scripts handed over as an untagged set (with a repetition),
redeemers in the map form with two keys whose canonical order is not the insertion order, V3 scripts as a list -/
def exArgs : WS Nat Nat Nat Nat :=
  { vkeys := some (.list [exPlainWitness, mkVKW (mkKey .paymentExtVerification (List.replicate 64 3)) (.bytes (List.replicate 64 4))])
    native := some (.oset true [7])
    bootstrap := some (.oset false [5, 6])
    v1 := some (.oset false [[1, 2, 3], [4], [1, 2, 3]])
    redeemers := some (.map [(⟨.spend, 256⟩, ⟨11, ⟨1, 2⟩⟩), (⟨.mint, 0⟩, ⟨12, ⟨3, 4⟩⟩)])
    v3 := some (.list [[9]]) }

/-- the object the constructor builds from them (`exWS_constructed` below) -/
def exWS : WS Nat Nat Nat Nat :=
  { vkeys := some (.oset true [exPlainWitness, ⟨mkKey .verification (List.replicate 32 3), .bytes (List.replicate 64 4)⟩])
    native := some (.oset true [7])
    bootstrap := some (.oset false [5, 6])
    v1 := some (.oset true [[1, 2, 3], [4]])
    redeemers := some (.map [(⟨.spend, 256⟩, ⟨11, ⟨1, 2⟩⟩), (⟨.mint, 0⟩, ⟨12, ⟨3, 4⟩⟩)])
    v3 := some (.oset true [[9]]) }

theorem exWS_ok : WSOk exWS := by
  refine ⟨?_, ?_, ?_, ?_, ?_, ?_, ?_⟩
  · intro c hc
    cases hc
    refine ⟨?_, by simp [NonemptyIfTagged]⟩
    intro w hw
    simp only [Coll.elems, List.mem_cons, List.mem_nil_iff, or_false] at hw
    rcases hw with rfl | rfl <;> trivial
  · intro c hc; cases hc; simp [NonemptyIfTagged]
  · intro c hc; cases hc; trivial
  · intro c hc; cases hc; simp [NonemptyIfTagged]
  · intro r hr; cases hr; show List.Nodup _; decide
  · intro c hc; cases hc
  · intro c hc; cases hc; simp [NonemptyIfTagged]

-- the constructor (`__post_init__`) turns the arguments into that object: same bytes, sets tagged, repetition gone
example : encWSBytes exLeaves (mkWS exLeaves exArgs) = encWSBytes exLeaves exWS := by decide +kernel
example : (match (mkWS exLeaves exArgs).v1 with | some (.oset true [[1, 2, 3], [4]]) => true | _ => false) = true := by
  decide +kernel

example : decWS exLeaves (wsItem exLeaves exWS) = .ok (decodedWS exLeaves exWS) :=
  ws_roundtrip exLeaves exLeaves_lawful exWS exWS_ok

-- the kernel evaluates encoder, CBOR decoder and typed restoration: six fields come back; the extended key was cut to
-- 32 bytes; the redeemer map is in canonical order (mint/0 before spend/256); re-encoding reproduces the bytes
example :
    (match decWSBytes exLeaves (encWSBytes exLeaves exWS) with
      | .ok y =>
        (match y.vkeys with
          | some (.oset true [a, b]) => a.vkey.payload.length == 32 && b.vkey.payload == List.replicate 32 3 &&
              b.vkey.cls == .verification
          | _ => false) &&
        (match y.bootstrap with | some (.list [5, 6]) => true | _ => false) &&
        (match y.v1 with | some (.oset true [[1, 2, 3], [4]]) => true | _ => false) &&
        (match y.redeemers with
          | some (.map [(k1, _), (k2, _)]) => k1 == ⟨.mint, 0⟩ && k2 == ⟨.spend, 256⟩
          | _ => false) &&
        y.datums.isNone && y.v2.isNone && y.v3.isSome &&
        encWSBytes exLeaves y == encWSBytes exLeaves exWS
      | _ => false) = true := by decide +kernel

-- the empty witness set (no field at all) is `a0` and comes back empty
example : encWSBytes exLeaves ({} : WS Nat Nat Nat Nat) = [0xa0] := by decide
example : (match decWSBytes exLeaves [0xa0] with | .ok y => y.vkeys.isNone && y.redeemers.isNone | _ => false) = true := by
  decide +kernel

-- the untagged wire form is re-encoded with the tag (the counterexample, as bytes)
example : (encWSBytes exLeaves exUntagged).take 3 = [0xa1, 0x00, 0x81] ∧
    (encWSBytes exLeaves (decodedWS exLeaves exUntagged)).take 6 = [0xa1, 0x00, 0xd9, 0x01, 0x02, 0x81] := by decide +kernel

-- a list-form redeemer with its tag assigned round-trips; the fresh one does not
def exRedeemer : Redeemer Nat := { mkRedeemer 42 (some ⟨1000, 2 ^ 64⟩) with tag := some .voting, index := .int 65536 }
example : decRedeemer natLeaf (redeemerItem natLeaf exRedeemer) = .ok exRedeemer :=
  redeemer_roundtrip natLeaf ⟨fun _ => rfl⟩ exRedeemer rfl trivial
example : decRedeemer natLeaf (redeemerItem natLeaf (mkRedeemer 42 Option.none)) = .deser :=
  redeemer_untagged_not_decodable natLeaf ⟨fun _ => rfl⟩ _ rfl

-- vkey witnesses: the builder's witness (typed envelope on a plain-class key), a payment-key witness and an extended one
-- all hold the plain key and come back as themselves; the first two are the same element of a set
example : exBuilderKey.keyType = "PaymentVerificationKeyShelley_ed25519" ∧ exBuilderWitness.vkey.keyType = "" ∧
    exBuilderWitness.vkey.cls = .verification := by decide
example : decVKW (vkwItem exBuilderWitness) = .ok exBuilderWitness := vkw_roundtrip _ _ (by decide)
example : decVKW (vkwItem exPaymentWitness) = .ok exPaymentWitness := vkw_roundtrip _ _ (by decide)
example : vkwKey exBuilderWitness = vkwKey exPaymentWitness := vkw_same_element _ _ _ rfl (by decide) (by decide) rfl
example : (match decVKW (vkwItem (mkVKW (mkKey .stakeExtVerification (List.replicate 64 5)) (.bytes (List.replicate 64 6)))) with
    | .ok w => w.vkey.payload == List.replicate 32 5 && w.vkey.cls == .verification && w.vkey.keyType == ""
    | _ => false) = true := by decide +kernel

-- the constructor turns `exArgs` into `exWS`, whose round trip is `==` it
theorem exArgs_constructed : mkWS exLeaves exArgs = exWS := by rfl

example : ∃ y, decWS exLeaves (wsItem exLeaves exWS) = .ok y ∧ WS.PyEq y exWS := by
  have h := ws_roundtrip_constructed exLeaves exLeaves_lawful exArgs (exArgs_constructed ▸ exWS_ok)
    (by
      rw [exArgs_constructed]
      intro c hc w hw
      cases hc
      simp only [Coll.elems, List.mem_cons, List.mem_nil_iff, or_false] at hw
      rcases hw with rfl | rfl <;> rfl)
    (by
      rw [exArgs_constructed]
      refine ⟨?_, ?_⟩
      · intro xs hx; cases hx
      · intro xs hx; cases hx)
  rw [exArgs_constructed] at h
  exact h

-- key envelopes: a payment signing key file is read back, checked, and refused by the stake class
example : fromJson .paymentSigning true (toJson (mkKey .paymentSigning (List.replicate 32 7))) =
    .ok (mkKey .paymentSigning (List.replicate 32 7)) :=
  key_json_roundtrip_default .paymentSigning _ Option.none (by decide)
example : fromJson .stakeSigning true (toJson (mkKey .paymentSigning (List.replicate 32 7))) = .badType :=
  key_json_cross_class_rejected .paymentSigning .stakeSigning (by decide) (by decide) (by decide) _ Option.none
example : (toJson (mkKey .paymentVerification [1, 2])).get? "cborHex" = some (.str "420102") := by decide +kernel
example : (mkKey .paymentVerification [1, 2]).description = "PaymentVerificationKeyShelley_ed25519" := by decide

end Pyc.C01.WitnessCodec

#print axioms Pyc.C01.WitnessCodec.vkw_roundtrip_general
#print axioms Pyc.C01.WitnessCodec.vkw_reencode
#print axioms Pyc.C01.WitnessCodec.vkw_roundtrip
#print axioms Pyc.C01.WitnessCodec.vkw_roundtrip_pyeq
#print axioms Pyc.C01.WitnessCodec.vkw_constructed_plain
#print axioms Pyc.C01.WitnessCodec.vkw_verification_reduced
#print axioms Pyc.C01.WitnessCodec.ws_roundtrip_constructed
#print axioms Pyc.C01.WitnessCodec.ws_reencode_constructed
#print axioms Pyc.C01.WitnessCodec.vkw_same_element
#print axioms Pyc.C01.WitnessCodec.vkw_extended_truncated
#print axioms Pyc.C01.WitnessCodec.vkw_other_kept
#print axioms Pyc.C01.WitnessCodec.vkw_decoder_keeps_payload
#print axioms Pyc.C01.WitnessCodec.redeemer_roundtrip
#print axioms Pyc.C01.WitnessCodec.redeemer_untagged_not_decodable
#print axioms Pyc.C01.WitnessCodec.redeemer_fresh_untagged
#print axioms Pyc.C01.WitnessCodec.redeemer_key_roundtrip
#print axioms Pyc.C01.WitnessCodec.redeemer_value_roundtrip
#print axioms Pyc.C01.WitnessCodec.redeemer_map_roundtrip
#print axioms Pyc.C01.WitnessCodec.redeemer_map_same_entries
#print axioms Pyc.C01.WitnessCodec.redeemer_map_reencode
#print axioms Pyc.C01.WitnessCodec.redeemer_map_duplicate_last_wins
#print axioms Pyc.C01.WitnessCodec.redeemers_roundtrip
#print axioms Pyc.C01.WitnessCodec.redeemers_reencode
#print axioms Pyc.C01.WitnessCodec.redeemers_dispatch
#print axioms Pyc.C01.WitnessCodec.redeemers_forms_apart
#print axioms Pyc.C01.WitnessCodec.ws_roundtrip
#print axioms Pyc.C01.WitnessCodec.ws_roundtrip_bytes
#print axioms Pyc.C01.WitnessCodec.ws_roundtrip_fixed_point
#print axioms Pyc.C01.WitnessCodec.ws_decoded_constructed
#print axioms Pyc.C01.WitnessCodec.ws_postinit_idempotent
#print axioms Pyc.C01.WitnessCodec.ws_constructed_tagged
#print axioms Pyc.C01.WitnessCodec.ws_rebuilt_fields_forget_form
#print axioms Pyc.C01.WitnessCodec.ws_plain_fields_remember_form
#print axioms Pyc.C01.WitnessCodec.ws_reencode_partial
#print axioms Pyc.C01.WitnessCodec.exLeaves_lawful
#print axioms Pyc.C01.WitnessCodec.exUntagged_ok
#print axioms Pyc.C01.WitnessCodec.exUntagged_distinct
#print axioms Pyc.C01.WitnessCodec.ws_reencode_counterexample
#print axioms Pyc.C01.WitnessCodec.key_prim_roundtrip
#print axioms Pyc.C01.WitnessCodec.key_json_roundtrip
#print axioms Pyc.C01.WitnessCodec.key_json_roundtrip_default
#print axioms Pyc.C01.WitnessCodec.key_json_wrong_type_rejected
#print axioms Pyc.C01.WitnessCodec.key_types_distinct
#print axioms Pyc.C01.WitnessCodec.key_json_cross_class_rejected
#print axioms Pyc.C01.WitnessCodec.key_json_unvalidated
#print axioms Pyc.C01.WitnessCodec.key_hash_extended
#print axioms Pyc.C01.WitnessCodec.exWS_ok
#print axioms Pyc.C01.WitnessCodec.exArgs_constructed
