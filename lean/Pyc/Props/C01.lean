import Pyc.Model.SchemaCheck
import Pyc.Proofs.Codec
import Pyc.Proofs.Typed
import Pyc.Generated.Schema

/-! # C01 — decoding an encoded ledger object returns an equal object

* **T1 obligations**: the table `repoSchema` is regenerated from /repo's live classes on every run; the kernel
  re-checks that it is well-formed and that the big unions dispatch unambiguously.
* **generic theorem**: for *every* schema table `S` and every value typed by `HasType S` (integers in the 64-bit
  ranges, bytes, text, bool, `None`, rationals, lists, ordered sets with their tag flag, ordered unions, hash
  classes, enums, array / coded / map classes restored by the generic code, classes with their own codec as opaque
  primitives), decoding the encoding returns the value and re-encoding returns the bytes — with no bound on size or
  nesting.  Its only hypothesis is the union side condition `WFS`, which `unionOK_coded` discharges for unions of
  coded classes with distinct codes (the certificate and governance-action unions).
Classes with a hand-written codec are opaque here: their own round trip is judged on the implementation. -/

namespace Pyc.C01
open Pyc Pyc.Codec Pyc.Cbor Pyc.Schema Pyc.Generated

/-- the regenerated table is well-formed: class names unique, map keys unique per class, optional positional fields
trailing, every referenced class defined -/
theorem repo_schema_wf : wf repoSchema = true := by decide +kernel

def namedUnion (n : String) : List Ty :=
  match repoUnions.find? (fun r => r.1 == n) with
  | some (_, .union ts) => ts
  | _ => []

/-- the certificate and governance-action unions consist of coded classes with pairwise distinct codes -/
theorem certificate_union_unambiguous : codedUnionOK repoSchema (namedUnion "Certificate") = true := by decide +kernel
theorem govaction_union_unambiguous : codedUnionOK repoSchema (namedUnion "GovAction") = true := by decide +kernel

/-- **generic round trip** (any schema, any typed value, any size): decode ∘ encode = id -/
theorem codec_roundtrip (S : List ClassDef) (hS : WFS S) (t : Ty) (v : Val) (h : HasType S t v) :
    ∃ N, ∀ fuel, N ≤ fuel → fromPrim S fuel t (toPrim S v) = .ok v := rt_all hS h

/-- … and serializing the decoded object again yields the same bytes -/
theorem codec_reencode (S : List ClassDef) (hS : WFS S) (t : Ty) (v : Val) (h : HasType S t v) :
    ∃ N, ∀ fuel, N ≤ fuel → ∃ v', fromPrim S fuel t (toPrim S v) = .ok v' ∧ encodeVal S v' = encodeVal S v := by
  obtain ⟨N, hN⟩ := rt_all hS h
  exact ⟨N, fun fuel hf => ⟨v, hN fuel hf, rfl⟩⟩

/-- unions of generic coded classes with pairwise distinct codes satisfy the union side condition, whatever the
declaration order of the alternatives -/
theorem union_side_condition_coded (S : List ClassDef) (ts : List Ty) (ks : List Nat) (hc : CodedAlts S ts ks)
    (hd : ks.Nodup) (pre : List Ty) (t : Ty) (post : List Ty) (he : ts = pre ++ t :: post) (v : Val)
    (hv : HasType S t v) : ∀ t' ∈ pre, ∃ N, ∀ fuel, N ≤ fuel → fromPrim S fuel t' (toPrim S v) = .deser :=
  unionOK_coded ts ks hc hd pre t post he v hv

/-- classes of the regenerated table the generic theorem covers as table-driven objects (a lower bound: classes added
later do not disturb it; a listed class that acquires its own codec or a shape outside the theorem does) -/
def coreNames : List String :=
    ["Anchor", "AuthCommitteeHotCertificate", "DRepVotingThresholds", "ExUnitPrices", "ExecutionUnits", "InfoAction",
     "NewConstitution", "NoConfidence", "ParameterChangeAction", "PoolMetadata", "PoolRetirement", "PoolVotingThresholds",
     "ProposalProcedure", "ProtocolParamUpdate", "RegDRepCert", "ResignCommitteeColdCertificate", "StakeAndVoteDelegation",
     "StakeDelegation", "StakeDeregistration", "StakeDeregistrationConway", "StakeRegistration",
     "StakeRegistrationAndDelegation", "StakeRegistrationAndDelegationAndVoteDelegation",
     "StakeRegistrationAndVoteDelegation", "StakeRegistrationConway", "Transaction", "TransactionInput",
     "TreasuryWithdrawalsAction", "UTxO", "UnregDRepCertificate", "UpdateCommittee", "UpdateDRepCertificate",
     "VoteDelegation", "_TransactionOutputPostAlonzo"]

theorem repo_core_classes : coreNames.all (fun n => match lookup repoSchema n with
    | some cd => coreClass cd | Option.none => false) = true := by decide +kernel

/-- every class the generic theorem covers has the shape the theorem needs (soundness of the Boolean check) -/
theorem core_class_shape (cd : ClassDef) (h : coreClass cd = true) : Generic cd ∧ ShapeOK cd := by
  unfold coreClass at h
  simp only [Bool.and_eq_true] at h
  exact ⟨genericB_sound cd h.1, shapeOK_sound cd h.2⟩

/-- the alternatives of a named union of the regenerated table that are generic coded classes (in the current tree:
all of Certificate but `PoolRegistration`, all of GovAction but `HardForkInitiationAction`, whose own codecs are
judged on the implementation) -/
def codedPart (n : String) : List Ty :=
  (namedUnion n).filter (fun t => match t with
    | .cls c => (match lookup repoSchema c with | some cd => coreClass cd | Option.none => false)
    | _ => false)

def nodupB : List Nat → Bool
  | [] => true
  | k :: ks => !ks.contains k && nodupB ks

theorem nodupB_sound (ks : List Nat) (h : nodupB ks = true) : ks.Nodup := by
  induction ks with
  | nil => simp
  | cons k ks ih =>
    simp only [nodupB, Bool.and_eq_true, Bool.not_eq_true'] at h
    rw [List.nodup_cons]
    refine ⟨fun hm => ?_, ih h.2⟩
    have := List.contains_iff_mem.2 hm
    rw [h.1] at this; exact absurd this (by decide)

/-- every such alternative is a generic coded class and the codes are pairwise distinct -/
def codedPartOK (n : String) : Bool :=
  match codedAltsB repoSchema (codedPart n) with
  | some ks => nodupB ks && decide (2 ≤ ks.length)
  | Option.none => false

theorem certificate_coded_part : codedPartOK "Certificate" = true := by decide +kernel
theorem govaction_coded_part : codedPartOK "GovAction" = true := by decide +kernel

theorem coded_dispatch (n : String) (hok : codedPartOK n = true) (pre : List Ty) (t : Ty) (post : List Ty)
    (he : codedPart n = pre ++ t :: post) (v : Val) (hv : HasType repoSchema t v) :
    ∀ t' ∈ pre, ∃ N, ∀ fuel, N ≤ fuel → fromPrim repoSchema fuel t' (toPrim repoSchema v) = .deser := by
  unfold codedPartOK at hok
  cases hc : codedAltsB repoSchema (codedPart n) with
  | none => rw [hc] at hok; simp at hok
  | some ks =>
    rw [hc] at hok; simp only [Bool.and_eq_true] at hok
    exact unionOK_coded _ _ (codedAltsB_sound _ _ _ hc) (nodupB_sound _ hok.1) pre t post he v hv

/-- **the union side condition holds on the REAL certificate table**: whichever generic alternative produced a typed
value, every earlier generic alternative answers `DeserializeException` on its image, so ordered dispatch reaches
the right class -/
theorem certificate_dispatch (pre : List Ty) (t : Ty) (post : List Ty) (he : codedPart "Certificate" = pre ++ t :: post)
    (v : Val) (hv : HasType repoSchema t v) :
    ∀ t' ∈ pre, ∃ N, ∀ fuel, N ≤ fuel → fromPrim repoSchema fuel t' (toPrim repoSchema v) = .deser :=
  coded_dispatch "Certificate" certificate_coded_part pre t post he v hv

theorem govaction_dispatch (pre : List Ty) (t : Ty) (post : List Ty) (he : codedPart "GovAction" = pre ++ t :: post)
    (v : Val) (hv : HasType repoSchema t v) :
    ∀ t' ∈ pre, ∃ N, ∀ fuel, N ≤ fuel → fromPrim repoSchema fuel t' (toPrim repoSchema v) = .deser :=
  coded_dispatch "GovAction" govaction_coded_part pre t post he v hv

/-- soundness of the executable typing check the driver runs on the harness's generated values -/
theorem typed_check_sound (S : List ClassDef) (fuel : Nat) (t : Ty) (v : Val) (h : typedB S fuel t v = true) :
    HasType S t v := typedB_sound S fuel t v h

/-! non-vacuity on the REAL table: a transaction input (hash class + boundary integer) and a stake registration
certificate inside the certificate union are typed, so the theorems apply to them; and the kernel evaluates the
round trip of that certificate through ordered dispatch -/
def exInput : Val := .obj "TransactionInput" [.cb (List.replicate 32 7), .int 4294967296]
def exCert : Val := .obj "StakeRegistrationConway" [.opaque (.array [.uint 0, .bytes (List.replicate 28 1)]), .int 2000000]

example : HasType repoSchema (.cls "TransactionInput") exInput := typedB_sound _ 10 _ _ (by decide +kernel)
example : HasType repoSchema (.union (codedPart "Certificate")) exCert := typedB_sound _ 10 _ _ (by decide +kernel)
example :
    (match fromPrim repoSchema 10 (.cls "TransactionInput") (toPrim repoSchema exInput) with
      | .ok (.obj n [.cb b, .int i]) => n == "TransactionInput" && b == List.replicate 32 7 && i == 4294967296
      | _ => false) = true := by decide +kernel
example :
    (match fromPrim repoSchema 50 (.union (codedPart "Certificate")) (toPrim repoSchema exCert) with
      | .ok (.obj n _) => n == "StakeRegistrationConway"
      | _ => false) = true := by decide +kernel

end Pyc.C01

#print axioms Pyc.C01.repo_schema_wf
#print axioms Pyc.C01.certificate_union_unambiguous
#print axioms Pyc.C01.govaction_union_unambiguous
#print axioms Pyc.C01.codec_roundtrip
#print axioms Pyc.C01.codec_reencode
#print axioms Pyc.C01.union_side_condition_coded
#print axioms Pyc.C01.repo_core_classes
#print axioms Pyc.C01.core_class_shape
#print axioms Pyc.C01.certificate_coded_part
#print axioms Pyc.C01.govaction_coded_part
#print axioms Pyc.C01.certificate_dispatch
#print axioms Pyc.C01.govaction_dispatch
#print axioms Pyc.C01.typed_check_sound
#print axioms Pyc.C01.nodupB_sound
#print axioms Pyc.C01.coded_dispatch
