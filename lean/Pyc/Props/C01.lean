import Pyc.Model.SchemaCheck
import Pyc.Proofs.Codec
import Pyc.Proofs.Typed
import Pyc.Proofs.CustomCodec
import Pyc.Generated.Schema

/-! # C01 — decoding an encoded ledger object returns an equal object

* **T1 obligations**: the table `repoSchema` is regenerated from /repo's live classes on every run; the kernel
  re-checks that it is well-formed and that the big unions dispatch unambiguously.
* **generic theorem**: for *every* schema table `S` and every value typed by `HasType S` (integers in the 64-bit
  ranges, bytes, text, bool, `None`, rationals, lists, ordered sets with their tag flag, ordered unions, hash
  classes, enums, array / coded / map classes restored by the generic code, classes with their own codec as opaque
  primitives), decoding the encoding returns the value and re-encoding returns the bytes — with no bound on size or
  nesting.  The side condition of an ordered union (every alternative before the typing one answers
  `DeserializeException` on the value's image) is a premise of the typing rule `HasType.union`, per value;
  `unionOK_coded` provides it for unions of coded classes with distinct codes (the certificate and governance-action
  unions) and the executable check `typedB` discharges it for any concrete value by running those alternatives.
Classes with a hand-written codec are opaque in the generic theorem; `Value` / `MultiAsset` / `Asset`,
`TransactionOutput` and the decode-time normalisation of `TransactionBody` have their own models and theorems below
(`Model/CustomCodec.lean`, `Proofs/CustomCodec.lean`). -/

namespace Pyc.C01
open Pyc Pyc.Codec Pyc.Cbor Pyc.Schema Pyc.Generated Pyc.Custom

/-- the regenerated table is well-formed: class names unique, map keys unique per class, optional positional fields
trailing, every referenced class defined -/
theorem repo_schema_wf : wf repoSchema = true := by decide +kernel

/-- names of non-codec types occurring in a type term -/
def namedIn : Ty → List String
  | .named n => [n]
  | .list t => namedIn t
  | .dict k v => namedIn k ++ namedIn v
  | .oset t _ => namedIn t
  | .tuple ts => namedInList ts
  | .union ts => namedInList ts
  | _ => []
where namedInList : List Ty → List String
  | [] => []
  | t :: ts => namedIn t ++ namedInList ts

/-- every type hint of the regenerated table is one the typed restorer understands: the only non-codec type names are
the three it special-cases. A hint it does not understand (e.g. a PEP 604 `X | None`, which has no `__origin__`) is
rendered by the translator as another `named` type — the field could then be written but never read back -/
theorem repo_hints_understood :
    (repoSchema.all fun cd => cd.fields.all fun f =>
      (namedIn f.ty).all fun n => ["CBORTag", "IndefiniteList", "RawCBOR", "ByteString"].contains n) = true := by
  decide +kernel

def namedUnion (n : String) : List Ty :=
  match repoUnions.find? (fun r => r.1 == n) with
  | some (_, .union ts) => ts
  | _ => []

/-- the certificate and governance-action unions consist of coded classes with pairwise distinct codes -/
theorem certificate_union_unambiguous : codedUnionOK repoSchema (namedUnion "Certificate") = true := by decide +kernel
theorem govaction_union_unambiguous : codedUnionOK repoSchema (namedUnion "GovAction") = true := by decide +kernel

/-- **generic round trip** (any schema, any typed value, any size): decode ∘ encode = id -/
theorem codec_roundtrip (S : List ClassDef) (t : Ty) (v : Val) (h : HasType S t v) :
    ∃ N, ∀ fuel, N ≤ fuel → fromPrim S fuel t (toPrim S v) = .ok v := rt_all h

/-- … and serializing the decoded object again yields the same bytes -/
theorem codec_reencode (S : List ClassDef) (t : Ty) (v : Val) (h : HasType S t v) :
    ∃ N, ∀ fuel, N ≤ fuel → ∃ v', fromPrim S fuel t (toPrim S v) = .ok v' ∧ encodeVal S v' = encodeVal S v := by
  obtain ⟨N, hN⟩ := rt_all h
  exact ⟨N, fun fuel hf => ⟨v, hN fuel hf, rfl⟩⟩

/-- the earlier formulation of the union side condition as ONE global hypothesis over all unions, all alternatives
and all values (`WFS S`, a hypothesis of `codec_roundtrip` until this revision) — kept for the record -/
def GlobalUnionCondition (S : List ClassDef) : Prop :=
  ∀ (pre : List Ty) (t : Ty) (_post : List Ty) (v : Val), HasType S t v →
    ∀ t' ∈ pre, ∃ N, ∀ fuel, N ≤ fuel → fromPrim S fuel t' (toPrim S v) = .deser

/-- … it is unsatisfiable for every table (`Any` rejects nothing), so a theorem that assumes it says nothing: the side
condition is now a premise of `HasType.union`, stated for the value and the union occurrence at hand -/
theorem global_union_condition_unsatisfiable (S : List ClassDef) : ¬ GlobalUnionCondition S := by
  intro h
  obtain ⟨N, hN⟩ := h [.any] .int [] (.int 0) (HasType.int (by unfold IntOk; omega)) .any (by simp)
  have := hN (N+1) (by omega)
  simp [fromPrim] at this

/-- unions of generic coded classes with pairwise distinct codes satisfy the union side condition, whatever the
declaration order of the alternatives: this PROVIDES the premise of `HasType.union` for such unions -/
theorem union_side_condition_coded (S : List ClassDef) (ts : List Ty) (ks : List Nat) (hc : CodedAlts S ts ks)
    (hd : ks.Nodup) (pre : List Ty) (t : Ty) (post : List Ty) (he : ts = pre ++ t :: post) (v : Val)
    (hv : HasType S t v) : ∀ t' ∈ pre, ∃ N, ∀ fuel, N ≤ fuel → fromPrim S fuel t' (toPrim S v) = .deser :=
  unionOK_coded ts ks hc hd pre t post he v hv

/-- classes of the regenerated table the generic theorem covers as table-driven objects (a lower bound: classes added
later do not disturb it; a listed class that acquires its own codec or a shape outside the theorem does) -/
def coreNames : List String :=
    ["Anchor", "AuthCommitteeHotCertificate", "DRepVotingThresholds", "ExUnitPrices", "ExecutionUnits", "InfoAction",
     "NewConstitution", "NoConfidence", "ParameterChangeAction", "PoolMetadata", "PoolRetirement", "PoolVotingThresholds",
     "ProposalProcedure", "ProtocolParamUpdate", "RegDRepCert", "ResignCommitteeColdCertificate", "StakeAndVoteDelegation",
     "StakeDelegation", "StakeDeregistration", "StakeDeregistrationConway", "StakeRegistration",
     "StakeRegistrationAndDelegation", "StakeRegistrationAndDelegationAndVoteDelegation",
     "StakeRegistrationAndVoteDelegation", "StakeRegistrationConway", "Transaction", "TransactionInput",
     "TreasuryWithdrawalsAction", "UTxO", "UnregDRepCertificate", "UpdateCommittee", "UpdateDRepCertificate",
     "VoteDelegation", "_TransactionOutputPostAlonzo"]

theorem repo_core_classes : coreNames.all (fun n => match lookup repoSchema n with
    | some cd => coreClass cd | Option.none => false) = true := by decide +kernel

/-- every class the generic theorem covers has the shape the theorem needs (soundness of the Boolean check) -/
theorem core_class_shape (cd : ClassDef) (h : coreClass cd = true) : Generic cd ∧ ShapeOK cd := by
  unfold coreClass at h
  simp only [Bool.and_eq_true] at h
  exact ⟨genericB_sound cd h.1, shapeOK_sound cd h.2⟩

/-- the alternatives of a named union of the regenerated table that are generic coded classes (in the current tree:
all of Certificate but `PoolRegistration`, all of GovAction but `HardForkInitiationAction`, whose own codecs are
judged on the implementation) -/
def codedPart (n : String) : List Ty :=
  (namedUnion n).filter (fun t => match t with
    | .cls c => (match lookup repoSchema c with | some cd => coreClass cd | Option.none => false)
    | _ => false)

def nodupB : List Nat → Bool
  | [] => true
  | k :: ks => !ks.contains k && nodupB ks

theorem nodupB_sound (ks : List Nat) (h : nodupB ks = true) : ks.Nodup := by
  induction ks with
  | nil => simp
  | cons k ks ih =>
    simp only [nodupB, Bool.and_eq_true, Bool.not_eq_true'] at h
    rw [List.nodup_cons]
    refine ⟨fun hm => ?_, ih h.2⟩
    have := List.contains_iff_mem.2 hm
    rw [h.1] at this; exact absurd this (by decide)

/-- every such alternative is a generic coded class and the codes are pairwise distinct -/
def codedPartOK (n : String) : Bool :=
  match codedAltsB repoSchema (codedPart n) with
  | some ks => nodupB ks && decide (2 ≤ ks.length)
  | Option.none => false

theorem certificate_coded_part : codedPartOK "Certificate" = true := by decide +kernel
theorem govaction_coded_part : codedPartOK "GovAction" = true := by decide +kernel

theorem coded_dispatch (n : String) (hok : codedPartOK n = true) (pre : List Ty) (t : Ty) (post : List Ty)
    (he : codedPart n = pre ++ t :: post) (v : Val) (hv : HasType repoSchema t v) :
    ∀ t' ∈ pre, ∃ N, ∀ fuel, N ≤ fuel → fromPrim repoSchema fuel t' (toPrim repoSchema v) = .deser := by
  unfold codedPartOK at hok
  cases hc : codedAltsB repoSchema (codedPart n) with
  | none => rw [hc] at hok; simp at hok
  | some ks =>
    rw [hc] at hok; simp only [Bool.and_eq_true] at hok
    exact unionOK_coded _ _ (codedAltsB_sound _ _ _ hc) (nodupB_sound _ hok.1) pre t post he v hv

/-- **the union side condition holds on the REAL certificate table**: whichever generic alternative produced a typed
value, every earlier generic alternative answers `DeserializeException` on its image, so ordered dispatch reaches
the right class -/
theorem certificate_dispatch (pre : List Ty) (t : Ty) (post : List Ty) (he : codedPart "Certificate" = pre ++ t :: post)
    (v : Val) (hv : HasType repoSchema t v) :
    ∀ t' ∈ pre, ∃ N, ∀ fuel, N ≤ fuel → fromPrim repoSchema fuel t' (toPrim repoSchema v) = .deser :=
  coded_dispatch "Certificate" certificate_coded_part pre t post he v hv

/-- … so a value typed by one of the generic coded alternatives is typed by the union (ordered dispatch reaches it):
the premise of `HasType.union` is provided by theorem, not assumed -/
theorem coded_union_typed (n : String) (hok : codedPartOK n = true) (pre : List Ty) (t : Ty) (post : List Ty)
    (he : codedPart n = pre ++ t :: post) (v : Val) (hv : HasType repoSchema t v) :
    HasType repoSchema (.union (codedPart n)) v := by
  rw [he]; exact HasType.union hv (coded_dispatch n hok pre t post he v hv)

theorem govaction_dispatch (pre : List Ty) (t : Ty) (post : List Ty) (he : codedPart "GovAction" = pre ++ t :: post)
    (v : Val) (hv : HasType repoSchema t v) :
    ∀ t' ∈ pre, ∃ N, ∀ fuel, N ≤ fuel → fromPrim repoSchema fuel t' (toPrim repoSchema v) = .deser :=
  coded_dispatch "GovAction" govaction_coded_part pre t post he v hv

/-- soundness of the executable typing check the driver runs on the harness's generated values -/
theorem typed_check_sound (S : List ClassDef) (fuel : Nat) (t : Ty) (v : Val) (h : typedB S fuel t v = true) :
    HasType S t v := typedB_sound S fuel t v h

/-! non-vacuity on the REAL table: a transaction input (hash class + boundary integer) and a stake registration
certificate inside the certificate union are typed, so the theorems apply to them; and the kernel evaluates the
round trip of that certificate through ordered dispatch -/
def exInput : Val := .obj "TransactionInput" [.cb (List.replicate 32 7), .int 4294967296]
def exCert : Val := .obj "StakeRegistrationConway" [.opaque (.array [.uint 0, .bytes (List.replicate 28 1)]), .int 2000000]

example : HasType repoSchema (.cls "TransactionInput") exInput := typedB_sound _ 10 _ _ (by decide +kernel)
example : HasType repoSchema (.union (codedPart "Certificate")) exCert := typedB_sound _ 10 _ _ (by decide +kernel)
-- (the example above is typed THROUGH a union of the real table: the executable check runs the alternatives that precede
-- `StakeRegistrationConway` on the image and sees each answer `DeserializeException`.  In the FULL certificate union the
-- alternative `PoolRegistration` has a hand-written `from_primitive`, which the generic model carries as an opaque leaf
-- that accepts every primitive: values of the alternatives declared after it are therefore typed at the coded part, not
-- at the full union — a limit of the generic model, visible in the evidence as `outside_theorem_scope`.)
-- an `Optional[int]` field type (`Union[int, None]`): `None` is typed by the second alternative because `int` rejects null
example : HasType repoSchema (.union [.int, .none]) .none := typedB_sound _ 5 _ _ (by decide +kernel)
example : HasType repoSchema (.union [.cls "Anchor", .none]) .none := typedB_sound _ 5 _ _ (by decide +kernel)
example :
    (match fromPrim repoSchema 10 (.cls "TransactionInput") (toPrim repoSchema exInput) with
      | .ok (.obj n [.cb b, .int i]) => n == "TransactionInput" && b == List.replicate 32 7 && i == 4294967296
      | _ => false) = true := by decide +kernel
example :
    (match fromPrim repoSchema 50 (.union (codedPart "Certificate")) (toPrim repoSchema exCert) with
      | .ok (.obj n _) => n == "StakeRegistrationConway"
      | _ => false) = true := by decide +kernel


/-! ## classes with a hand-written codec: `Value` / `MultiAsset` / `Asset`, `TransactionOutput`, and the decode-time
normalisation of `TransactionBody` (models: `Model/CustomCodec.lean`, tied to /repo by `harness/checks/c01_custom.py`) -/

/-- **`Value`: decode ∘ encode** for every well-formed value (`ValueOk`: 28-byte policy ids, names of at most 32 bytes,
distinct keys; coin and quantities ANY integers — negative, zero, beyond 64 bits, where cbor2 switches to bignum tags):
the result is the NORMALISED value (`normValue`: zero quantities and empty policies dropped, canonical order) —
bare-integer and `[coin, multiasset]` forms alike -/
theorem value_roundtrip (v : Value) (h : ValueOk v) : decValue (itemValue v) = .ok (normValue v) :=
  decValue_itemValue v h

/-- … at the byte level (`Value.from_cbor(v.to_cbor())`), for CBOR-representable sizes -/
theorem value_roundtrip_bytes (v : Value) (h : ValueOk v) (hw : Cbor.WF (itemValue v)) :
    decValueBytes (encValueBytes v) = .ok (normValue v) := decValueBytes_enc v h hw

/-- **Python `==`**: `Value.__eq__` / `MultiAsset.__eq__` / `Asset.__eq__` compare contents component-wise (an absent name
counts as 0, an absent policy as an empty `Asset`: `C05.eq_iff`), and normalising / sorting does not change the content:
the decoded value is `==` to the original — FULL, for every well-formed value, stored zeros and empty policies included.
(Before `==` was made component-wise this was false: `Value(5, {p: {n: 0}})` decodes to `Value(5)`, then unequal.) -/
theorem value_roundtrip_pyeq (v : Value) (h : ValueOk v) :
    ∃ v', decValue (itemValue v) = .ok v' ∧ Value.eq v' v = true :=
  ⟨normValue v, decValue_itemValue v h, value_eq_original v (maOk_wf v.ma h.ma)⟩

/-- the former counterexample (a stored zero quantity), as a regression example -/
def exZeroQty : Value := ⟨5, [(List.replicate 28 1, [([110], 0)])]⟩
example : (match decValueBytes (encValueBytes exZeroQty) with
    | .ok v => v.ma == [] && Value.eq v exZeroQty && Value.eq exZeroQty v
    | _ => false) = true := by decide +kernel

/-- **re-encoding the decoded value gives the same bytes** — for EVERY value (no hypothesis) -/
theorem value_reencode (v : Value) : encValueBytes (normValue v) = encValueBytes v := by
  unfold encValueBytes; rw [itemValue_normValue]

/-- **`TransactionOutput`: decode ∘ encode, FULL** — for every well-formed output whose datum is a hash or inline, not
both (`NotBoth`): decoding the encoding of the CONSTRUCTED output (`normOutput o`: `__post_init__` sets `post_alonzo`
when an inline datum or a script is present) returns an output equal to it in EVERY field, `post_alonzo` included; the
amount is the normalised amount, which is `==` to the original amount.  `L` are the leaf codecs (address, inline datum,
native script), assumed to restore what they wrote (`Leaves.Lawful`). -/
theorem output_roundtrip {A D N : Type} (L : Leaves A D N) (hL : L.Lawful) (o : Output A D N) (h : OutputOk L o)
    (hnb : NotBoth o) :
    ∃ o', decOutput L (itemOutput L (normOutput o)) = .ok o' ∧
      o'.address = (normOutput o).address ∧ o'.amount = normValue (normOutput o).amount ∧
      Value.eq o'.amount (normOutput o).amount = true ∧ o'.datumHash = (normOutput o).datumHash ∧
      o'.datum = (normOutput o).datum ∧ o'.script = (normOutput o).script ∧
      o'.postAlonzo = (normOutput o).postAlonzo := by
  refine ⟨decodedOutput (normOutput o), decOutput_itemOutput L hL _ (outputOk_normOutput L o h), ?_⟩
  rw [decodedOutput_constructed _ (constructed_normOutput o) (notBoth_normOutput o hnb)]
  exact ⟨rfl, rfl, value_eq_original _ (maOk_wf _ h.amount.ma), rfl, rfl, rfl, rfl⟩

/-- … the same for any output that IS constructed (its flag is set whenever it carries an inline datum or a script) -/
theorem output_roundtrip_constructed {A D N : Type} (L : Leaves A D N) (hL : L.Lawful) (o : Output A D N)
    (h : OutputOk L o) (hc : Constructed o) (hnb : NotBoth o) :
    decOutput L (itemOutput L o) = .ok { o with amount := normValue o.amount } := by
  rw [decOutput_itemOutput L hL o h, decodedOutput_constructed o hc hnb]

/-- … and for EVERY well-formed output, constructed or not, `NotBoth` or not: the result is `decodedOutput o` -/
theorem output_roundtrip_general {A D N : Type} (L : Leaves A D N) (hL : L.Lawful) (o : Output A D N) (h : OutputOk L o) :
    decOutput L (itemOutput L o) = .ok (decodedOutput o) := decOutput_itemOutput L hL o h

/-- the constructor's normalisation is idempotent, and the decoder returns constructed outputs -/
theorem output_norm_idempotent {A D N : Type} (o : Output A D N) : normOutput (normOutput o) = normOutput o :=
  normOutput_idem o
theorem output_decoded_constructed {A D N : Type} (o : Output A D N) : Constructed (decodedOutput o) := by
  obtain ⟨addr, amt, dh, dat, scr, pa⟩ := o
  cases dh <;> cases dat <;> cases scr <;> cases pa <;> simp [Constructed, normOutput, decodedOutput, mapForm]

/-- outside `NotBoth` (datum hash AND inline datum, which `TransactionOutput` does not refuse): the hash is written, the
inline datum is lost -/
theorem output_both_datums_drops_inline {A D N : Type} (o : Output A D N) (h : o.datumHash.isSome = true) :
    (decodedOutput o).datum = Option.none := decodedOutput_both o h

/-- the full statement "the inline datum survives, for every well-formed output" is FALSE of the code (recorded finding
KF-C01-both-datums; goal kept; `output_roundtrip` is the partial result under `NotBoth`) -/
def output_roundtrip_goal : Prop :=
  ∀ (L : Leaves Bytes Nat Nat), L.Lawful → ∀ o : Output Bytes Nat Nat, OutputOk L o →
    ∃ o', decOutput L (itemOutput L o) = .ok o' ∧ o'.datum = o.datum

/-- concrete lawful leaves for the examples: an address is its bytes, a datum / native script a natural number -/
def bytesLeaf : Leaf Bytes := ⟨fun b => .bytes b, fun i => match i with | .bytes b => .ok b | _ => .deser⟩
def natLeaf : Leaf Nat := ⟨fun n => .uint n, fun i => match i with | .uint n => .ok n | _ => .deser⟩
def exLeaves : Leaves Bytes Nat Nat := ⟨bytesLeaf, natLeaf, natLeaf⟩
theorem exLeaves_lawful : exLeaves.Lawful := ⟨⟨fun _ => rfl⟩, ⟨fun _ => rfl⟩, ⟨fun _ => rfl⟩⟩

def exAddr : Bytes := 0x61 :: List.replicate 28 9
def exBoth : Output Bytes Nat Nat := ⟨exAddr, ⟨2000000, []⟩, some (List.replicate 32 7), some 42, Option.none, false⟩

theorem output_roundtrip_counterexample : ¬ output_roundtrip_goal := by
  intro h
  have hok : OutputOk exLeaves exBoth := by
    refine ⟨valueOkB_sound _ (by decide), ?_, ?_, ?_⟩
    · intro hh e; cases e; decide
    · intro d e; cases e; simp [exLeaves, natLeaf, Cbor.WF]
    · intro s e; cases e
  obtain ⟨o', h1, h2⟩ := h exLeaves exLeaves_lawful exBoth hok
  rw [output_roundtrip_general exLeaves exLeaves_lawful exBoth hok] at h1
  cases h1
  revert h2
  decide

/-- **`TransactionBody`** has no `__post_init__` in this tree; what normalises a body is DECODING: a field annotated
`Union[List[T], OrderedSet[T]]` returns a plain list for an untagged array (`bodyNorm`, driven by the field types of the
regenerated table).  The normalisation is idempotent … -/
theorem body_norm_idempotent (S : List ClassDef) (v : Val) : bodyNorm S (bodyNorm S v) = bodyNorm S v :=
  bodyNorm_idem S v

/-- (the name under which the task lists it) -/
theorem body_postinit_idempotent (S : List ClassDef) (v : Val) : bodyNorm S (bodyNorm S v) = bodyNorm S v :=
  bodyNorm_idem S v

/-- … and **decode ∘ encode returns the normal form** of every body whose normal form is typed (`HasType`; the executable
check `typedB` decides it per value, union side conditions included) -/
theorem body_roundtrip_normalised (S : List ClassDef) (n : String) (v : Val) (h : HasType S (.cls n) (bodyNorm S v)) :
    ∃ N, ∀ fuel, N ≤ fuel → fromPrim S fuel (.cls n) (toPrim S v) = .ok (bodyNorm S v) :=
  decode_encode_bodyNorm S n v h

/-- … in particular a body that is a fixed point of the normalisation is returned unchanged -/
theorem body_roundtrip_fixed_point (S : List ClassDef) (n : String) (v : Val) (hfix : bodyNorm S v = v)
    (h : HasType S (.cls n) v) : ∃ N, ∀ fuel, N ≤ fuel → fromPrim S fuel (.cls n) (toPrim S v) = .ok v := by
  have := decode_encode_bodyNorm S n v (by rw [hfix]; exact h)
  rw [hfix] at this
  exact this

/-- what the normalisation does to one field: nothing, or an untagged `OrderedSet` becomes the `list` of the same
elements (equal under `OrderedSet.__eq__`, which compares `list(self)` with the other list) -/
theorem body_norm_field (f : FieldDef) (v : Val) :
    normField f v = v ∨ ∃ xs, v = .oset false xs ∧ normField f v = .list xs := normField_cases f v

/-! non-vacuity of the custom-codec theorems -/

/-- two policies with names whose length-first and bytewise orders differ, a zero quantity, an empty policy, a
quantity at the top of the 64-bit range and one beyond it (bignum) -/
def exValue : Value :=
  ⟨1500000, [(List.replicate 28 2, [([98, 98], 7), ([97, 97, 97], 4294967296), ([99], 0)]),
             (List.replicate 28 1, [([], 18446744073709551615), ([1], 3541774862152233910272)]),
             (List.replicate 28 3, [])]⟩

theorem exValue_ok : ValueOk exValue := valueOkB_sound _ (by decide +kernel)

example : decValue (itemValue exValue) = .ok (normValue exValue) := value_roundtrip exValue exValue_ok
-- the kernel evaluates encoder, CBOR decoder and typed restoration: two policies survive, in canonical order, the zero
-- entry is gone, and re-encoding reproduces the bytes
example :
    (match decValueBytes (encValueBytes exValue) with
      | .ok v => v.coin == 1500000 && v.ma.map (fun p => (p.1.head!, p.2.length)) == [(1, 2), (2, 2)] &&
          Dict.getD (Dict.getD v.ma (List.replicate 28 1) []) [1] 0 == 3541774862152233910272 &&
          encValueBytes v == encValueBytes exValue && Value.eq v exValue && Value.eq exValue v &&
          Value.eq v ⟨exValue.coin, MultiAsset.normalize exValue.ma⟩
      | _ => false) = true := by decide +kernel
example : ¬ (MultiAsset.normalize exValue.ma = exValue.ma) := by decide

/-- constructor arguments of a map-form output with an inline datum (flag not given): the constructed output has the flag -/
def exInline : Output Bytes Nat Nat := ⟨exAddr, exValue, Option.none, some 42, Option.none, false⟩
/-- … and the witness of the repaired finding KF-C01-post-alonzo-flag: a script with the flag set -/
def exFlag : Output Bytes Nat Nat := ⟨exAddr, ⟨2000000, []⟩, Option.none, Option.none, some (.plutus 2 [1, 2, 3]), true⟩

theorem exInline_ok : OutputOk exLeaves exInline := by
  refine ⟨exValue_ok, ?_, ?_, ?_⟩
  · intro hh e; cases e
  · intro d e; cases e; simp [exLeaves, natLeaf, Cbor.WF]
  · intro s e; cases e

example : (normOutput exInline).postAlonzo = true ∧ (normOutput exFlag).postAlonzo = exFlag.postAlonzo := by decide
example : Constructed exFlag := rfl
example : ∃ o', decOutput exLeaves (itemOutput exLeaves (normOutput exInline)) = .ok o' ∧ o'.datum = some 42 ∧
    o'.postAlonzo = true ∧ Value.eq o'.amount exValue = true := by
  obtain ⟨o', h1, _, _, h3, _, h5, _, h7⟩ := output_roundtrip exLeaves exLeaves_lawful exInline exInline_ok (by decide)
  exact ⟨o', h1, h5, h7, h3⟩
example :
    (match decOutputBytes exLeaves (encOutputBytes exLeaves (normOutput exInline)) with
      | .ok o => o.datum == some 42 && o.postAlonzo == true && o.datumHash == Option.none && o.address == exAddr &&
          Value.eq o.amount exValue &&
          encOutputBytes exLeaves o == encOutputBytes exLeaves exInline
      | _ => false) = true := by decide +kernel
-- regression example on the old witness of KF-C01-post-alonzo-flag (script, flag set): the flag now survives; and an
-- output whose flag was cleared after construction is written in the map form and comes back with the flag set
example : (decodedOutput exFlag).postAlonzo = exFlag.postAlonzo := by decide
example :
    (match decOutputBytes exLeaves (encOutputBytes exLeaves exFlag) with
      | .ok o => o.postAlonzo == true && o.script.isSome && encOutputBytes exLeaves o == encOutputBytes exLeaves exFlag
      | _ => false) = true := by decide +kernel
example : (decodedOutput ({ exFlag with postAlonzo := false } : Output Bytes Nat Nat)).postAlonzo = true := by decide

/-- a body of the REAL table, built from the table's own field list so that a new optional field does not disturb it:
tagged inputs, no outputs, a fee, untagged required signers, every other field `None` -/
def exBody : Val :=
  match lookup repoSchema "TransactionBody" with
  | some cd => .obj "TransactionBody" (cd.fields.map (fun f =>
      if f.name == "inputs" then .oset true [exInput]
      else if f.name == "outputs" then .opaque (.array [])
      else if f.name == "fee" then .int 170000
      else if f.name == "required_signers" then .oset false [.cb (List.replicate 28 5), .cb (List.replicate 28 6)]
      else .none))
  | Option.none => .none

def fieldOf (name : String) (v : Val) : Val :=
  match lookup repoSchema "TransactionBody", v with
  | some cd, .obj _ fs => ((cd.fields.map (·.name)).zip fs).foldr (fun p acc => if p.1 == name then p.2 else acc) .none
  | _, _ => .none

-- the normal form is typed on the real table (so `body_roundtrip_normalised` applies) …
example : HasType repoSchema (.cls "TransactionBody") (bodyNorm repoSchema exBody) :=
  typedB_sound _ 30 _ _ (by decide +kernel)
-- … the untagged required signers are normalised to a list, the tagged inputs stay a tagged set …
example :
    ((match fieldOf "required_signers" exBody with | .oset false xs => xs.length == 2 | _ => false) &&
     (match fieldOf "required_signers" (bodyNorm repoSchema exBody) with | .list xs => xs.length == 2 | _ => false) &&
     (match fieldOf "inputs" (bodyNorm repoSchema exBody) with | .oset true xs => xs.length == 1 | _ => false)) = true := by
  decide +kernel
-- … and the kernel evaluates the whole round trip: decoding the bytes returns the normal form, re-encoding the bytes
example :
    (match decodeAll (encodeVal repoSchema exBody) with
      | some i => (match fromPrim repoSchema 30 (.cls "TransactionBody") i with
          | .ok v' => encodeVal repoSchema v' == encodeVal repoSchema exBody &&
              (match fieldOf "required_signers" v' with | .list xs => xs.length == 2 | _ => false) &&
              (match fieldOf "inputs" v' with | .oset true xs => xs.length == 1 | _ => false)
          | _ => false)
      | Option.none => false) = true := by decide +kernel

end Pyc.C01

#print axioms Pyc.C01.repo_schema_wf
#print axioms Pyc.C01.certificate_union_unambiguous
#print axioms Pyc.C01.govaction_union_unambiguous
#print axioms Pyc.C01.codec_roundtrip
#print axioms Pyc.C01.codec_reencode
#print axioms Pyc.C01.union_side_condition_coded
#print axioms Pyc.C01.repo_core_classes
#print axioms Pyc.C01.core_class_shape
#print axioms Pyc.C01.certificate_coded_part
#print axioms Pyc.C01.govaction_coded_part
#print axioms Pyc.C01.certificate_dispatch
#print axioms Pyc.C01.govaction_dispatch
#print axioms Pyc.C01.typed_check_sound
#print axioms Pyc.C01.nodupB_sound
#print axioms Pyc.C01.coded_dispatch
#print axioms Pyc.C01.global_union_condition_unsatisfiable
#print axioms Pyc.C01.coded_union_typed
#print axioms Pyc.C01.value_roundtrip
#print axioms Pyc.C01.value_roundtrip_bytes
#print axioms Pyc.C01.value_roundtrip_pyeq
#print axioms Pyc.C01.value_reencode
#print axioms Pyc.C01.output_roundtrip
#print axioms Pyc.C01.output_roundtrip_general
#print axioms Pyc.C01.output_roundtrip_constructed
#print axioms Pyc.C01.output_norm_idempotent
#print axioms Pyc.C01.output_decoded_constructed
#print axioms Pyc.C01.output_both_datums_drops_inline
#print axioms Pyc.C01.exLeaves_lawful
#print axioms Pyc.C01.output_roundtrip_counterexample
#print axioms Pyc.C01.body_norm_idempotent
#print axioms Pyc.C01.body_postinit_idempotent
#print axioms Pyc.C01.body_roundtrip_normalised
#print axioms Pyc.C01.body_roundtrip_fixed_point
#print axioms Pyc.C01.body_norm_field
#print axioms Pyc.C01.exValue_ok
#print axioms Pyc.C01.exInline_ok
#print axioms Pyc.C01.repo_hints_understood
