import Pyc.Model.SchemaCheck
import Pyc.Model.Codec
import Pyc.Generated.Schema

/-! # C01 — decoding an encoded ledger object returns an equal object (table part; generic theorems below) -/

namespace Pyc.C01
open Pyc.Schema Pyc.Generated

/-- the regenerated table is well-formed: class names unique, map keys unique per class, optional positional fields
trailing, every referenced class defined -/
theorem repo_schema_wf : wf repoSchema = true := by decide +kernel

def namedUnion (n : String) : List Ty :=
  match repoUnions.find? (fun r => r.1 == n) with
  | some (_, .union ts) => ts
  | _ => []

/-- the certificate and governance-action unions consist of coded classes with pairwise distinct codes: whatever
the declaration order, at most one alternative accepts a given array, so dispatch is unambiguous -/
theorem certificate_union_unambiguous : codedUnionOK repoSchema (namedUnion "Certificate") = true := by decide +kernel
theorem govaction_union_unambiguous : codedUnionOK repoSchema (namedUnion "GovAction") = true := by decide +kernel

end Pyc.C01

#print axioms Pyc.C01.repo_schema_wf
#print axioms Pyc.C01.certificate_union_unambiguous
#print axioms Pyc.C01.govaction_union_unambiguous
