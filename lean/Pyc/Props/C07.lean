import Pyc.Proofs.Fee
import Pyc.Model.Cbor
import Pyc.Model.FeeLoop

/-! # C07 — the fee functions equal the ledger formula in exact rational arithmetic; fee ≥ ledger minimum

Model: `fee`, `maxTxFee`, `tierFee` in `Pyc/Model/Output.lean` (utils.py:30-116), over exact rationals `num/den`.
Specification: the Conway minimum fee `a·size + b + ⌈steps·pS + mem·pM⌉ + ⌊tier(refBytes)⌋`. -/

namespace Pyc.C07
open Pyc

/-- well-formed protocol parameters: positive denominators -/
structure ParamsOk (p : FeeParams) : Prop where
  a : 0 < p.a.den
  b : 0 < p.b.den
  ps : 0 < p.priceStep.den
  pm : 0 < p.priceMem.den

/-- **fee = formula**: `fee(context, length, steps, mem, ref)` is the sum of the exact ceilings -/
theorem fee_eq_formula (p : FeeParams) (len steps mem ref t : ℤ) (ht : tierFee p ref = some t) :
    fee p len steps mem ref
      = some (⌈(len : ℚ) * p.a.toRat⌉ + ⌈p.b.toRat⌉ + ⌈(steps : ℚ) * p.priceStep.toRat⌉
              + ⌈(mem : ℚ) * p.priceMem.toRat⌉ + t) := by
  unfold fee
  rw [ht]
  simp only [ceilMul_eq]
  congr 3
  · simp

/-- the maximum fee is the same formula at the protocol's maximum size and execution units -/
theorem maxfee_eq (p : FeeParams) (ref : ℤ) : maxTxFee p ref = fee p p.maxTxSize p.maxTxExSteps p.maxTxExMem ref := rfl

/-- **tiered reference-script fee = ⌈closed form⌉**: `k` full tiers of `r` bytes at prices `b, b·m, …, b·m^(k-1)`,
the remaining bytes at `b·m^k`; the loop terminates within the fuel the model gives it -/
theorem tier_eq_formula (p : FeeParams) (b m : Rat') (r : ℕ) (mx size : ℤ)
    (hp : p.refScript = some (b, r, m, mx)) (hb : 0 < b.den) (hm : 0 < m.den)
    (hr : 0 < r) (hs : 0 < size) (hmx : size ≤ mx) :
    tierFee p size = some ⌈tierClosed b.toRat m.toRat r size ((size - 1) / r).toNat⌉ := by
  unfold tierFee
  rw [hp]
  have h1 : ¬ size > mx := by omega
  have h2 : ¬ (size = 0 ∨ r = 0) := by omega
  simp only [h1, h2, if_false]
  congr 1
  have hr' : (0 : ℤ) < (r : ℤ) := by exact_mod_cast hr
  have hq0 : 0 ≤ (size - 1) / (r : ℤ) := Int.ediv_nonneg (by omega) (by omega)
  have hk : (((size - 1) / (r : ℤ)).toNat : ℤ) = (size - 1) / r := Int.toNat_of_nonneg hq0
  have hlo : ((size - 1) / (r : ℤ)) * r ≤ size - 1 := Int.ediv_mul_le _ (by omega)
  have hhi : size - 1 < ((size - 1) / (r : ℤ) + 1) * r := Int.lt_ediv_add_one_mul_self _ hr'
  have hfuel : ((size - 1) / (r : ℤ)).toNat < size.toNat / r + 2 := by
    have : (size - 1) / (r : ℤ) ≤ size / (r : ℤ) := Int.ediv_le_ediv hr' (by omega)
    have h3 : ((size.toNat / r : ℕ) : ℤ) = size / (r : ℤ) := by
      rw [Int.natCast_ediv, Int.toNat_of_nonneg (by omega)]
    omega
  have := tierLoop_spec (size.toNat / r + 2) size r b m ⟨0, 1⟩ ((size - 1) / (r : ℤ)).toNat hb hm (by decide)
    (by rw [hk]; omega) (by rw [hk]; omega) hfuel
  rw [ceilMul_eq, this.1]
  simp [Rat'.toRat]

/-- an oversized reference-script set is refused (the `ValueError`), never priced -/
theorem tier_oversize_refused (p : FeeParams) (b m : Rat') (r : ℕ) (mx size : ℤ)
    (hp : p.refScript = some (b, r, m, mx)) (h : mx < size) : tierFee p size = none := by
  unfold tierFee; rw [hp]; simp [h]

theorem tier_absent_zero (p : FeeParams) (size : ℤ) (hp : p.refScript = none) : tierFee p size = some 0 := by
  unfold tierFee; rw [hp]

/-- ledger minimum fee (Conway) for integer coefficients `a`, `b`: one ceiling for the script fee, floor for the
reference-script fee `T` -/
noncomputable def ledgerMinFee (a b len : ℤ) (steps mem : ℤ) (pS pM T : ℚ) : ℤ :=
  a * len + b + ⌈(steps : ℚ) * pS + (mem : ℚ) * pM⌉ + ⌊T⌋

/-- **sufficient and tight as a formula**: with integer fee coefficients (as on every Cardano network) pycardano's
fee is at least the ledger's minimum for the same size, units and reference bytes, and at most 2 lovelace above -/
theorem fee_vs_ledger (a b len steps mem : ℤ) (pS pM T : ℚ) :
    let f := ⌈((len : ℚ) * (a : ℚ))⌉ + ⌈(b : ℚ)⌉ + ⌈(steps : ℚ) * pS⌉ + ⌈(mem : ℚ) * pM⌉ + ⌈T⌉
    ledgerMinFee a b len steps mem pS pM T ≤ f ∧ f ≤ ledgerMinFee a b len steps mem pS pM T + 2 := by
  intro f
  have e1 : ⌈((len : ℚ) * (a : ℚ))⌉ = a * len := by
    have : ((len : ℚ) * (a : ℚ)) = ((a * len : ℤ) : ℚ) := by push_cast; ring
    rw [this, Int.ceil_intCast]
  have e2 : ⌈(b : ℚ)⌉ = b := Int.ceil_intCast b
  have h1 : ⌈(steps : ℚ) * pS + (mem : ℚ) * pM⌉ ≤ ⌈(steps : ℚ) * pS⌉ + ⌈(mem : ℚ) * pM⌉ := Int.ceil_add_le _ _
  have h2 : ⌈(steps : ℚ) * pS⌉ + ⌈(mem : ℚ) * pM⌉ ≤ ⌈(steps : ℚ) * pS + (mem : ℚ) * pM⌉ + 1 := Int.ceil_add_ceil_le _ _
  have h3 : ⌊T⌋ ≤ ⌈T⌉ := Int.floor_le_ceil T
  have h4 : ⌈T⌉ ≤ ⌊T⌋ + 1 := Int.ceil_le_floor_add_one T
  unfold ledgerMinFee
  simp only [f, e1, e2]
  constructor <;> linarith

/-- the fee grows with the size: one more byte never lowers it (non-negative coefficient) -/
theorem fee_mono_size (p : FeeParams) (l₁ l₂ steps mem ref f₁ f₂ : ℤ) (hp : ParamsOk p) (ha : 0 ≤ p.a.num)
    (hl : l₁ ≤ l₂) (h1 : fee p l₁ steps mem ref = some f₁) (h2 : fee p l₂ steps mem ref = some f₂) : f₁ ≤ f₂ := by
  unfold fee at h1 h2
  cases ht : tierFee p ref with
  | none => rw [ht] at h1; simp at h1
  | some t =>
    rw [ht] at h1 h2
    simp only [Option.some.injEq] at h1 h2
    subst h1; subst h2
    have : ceilMul l₁ p.a ≤ ceilMul l₂ p.a := by
      rw [ceilMul_eq, ceilMul_eq]
      apply Int.ceil_le_ceil
      have hq : (0 : ℚ) ≤ p.a.toRat := by
        unfold Rat'.toRat
        apply div_nonneg
        · exact_mod_cast ha
        · positivity
      have : (l₁ : ℚ) ≤ (l₂ : ℚ) := by exact_mod_cast hl
      nlinarith
    omega

/-- CBOR heads grow with their argument: a larger fee / change amount never takes fewer bytes -/
theorem head_len_mono (major a b : ℕ) (h : a ≤ b) : (Cbor.head major a).length ≤ (Cbor.head major b).length := by
  unfold Cbor.head
  simp only
  repeat' split
  all_goals simp [beBytes]
  all_goals omega

/-- non-vacuity: mainnet-like parameters, two and a half tiers of reference scripts — evaluated by the kernel -/
def exParams : FeeParams :=
  { a := ⟨44, 1⟩
    b := ⟨155381, 1⟩
    priceStep := ⟨721, 10000000⟩
    priceMem := ⟨577, 10000⟩
    maxTxSize := 16384
    maxTxExSteps := 10000000000
    maxTxExMem := 10000000
    refScript := some (⟨15, 1⟩, 25600, ⟨6, 5⟩, 204800) }

example : tierFee exParams 60000 = some 1034880 ∧ fee exParams 300 1000000 5000 60000 = some 1203823 := by
  decide +kernel

/-! ## the builder's final fee loop -/
open Pyc.FeeLoop in
/-- post-condition: when the loop ends, the fee covers the estimate of the transaction it is part of, and it never
went down -/
theorem fee_loop_post (est : ℤ → ℤ) (fuel : ℕ) (f f' : ℤ) (h : loop est fuel f = some f') : est f' ≤ f' ∧ f ≤ f' := by
  induction fuel generalizing f with
  | zero => simp [loop] at h
  | succ n ih =>
    simp only [loop] at h
    split at h
    · cases h; exact ⟨by assumption, le_refl _⟩
    · rename_i hlt
      obtain ⟨h1, h2⟩ := ih _ h
      exact ⟨h1, by omega⟩

open Pyc.FeeLoop in
/-- termination: every estimate is bounded by the maximum fee `M` (plus buffer), each pass raises the fee strictly, so
`M − f + 1` passes suffice -/
theorem fee_loop_terminates (est : ℤ → ℤ) (M : ℤ) (hM : ∀ f, est f ≤ M) (f : ℤ) :
    ∃ f', loop est ((M - f).toNat + 1) f = some f' := by
  have key : ∀ (n : ℕ) (f : ℤ), (M - f).toNat ≤ n → ∃ f', loop est (n + 1) f = some f' := by
    intro n
    induction n with
    | zero =>
      intro f hn
      refine ⟨f, ?_⟩
      have : est f ≤ f := by have := hM f; omega
      simp [loop, this]
    | succ n ih =>
      intro f hn
      simp only [loop]
      split
      · exact ⟨f, rfl⟩
      · rename_i hlt
        have h1 := hM f
        exact ih (est f) (by omega)
  exact key _ f (le_refl _)

open Pyc.FeeLoop in
/-- **sufficiency of the fee the loop leaves**: if for every fee value the estimate (taken on the fully populated
fake transaction: placeholder witnesses of the size of real ones) is at least the ledger's minimum fee of the final
signed transaction carrying that fee, then the fee in the body is at least the ledger's minimum fee -/
theorem fee_loop_sufficient (est minFee : ℤ → ℤ) (hest : ∀ f, minFee f ≤ est f) (fuel : ℕ) (f f' : ℤ)
    (h : loop est fuel f = some f') : minFee f' ≤ f' := by
  have := (fee_loop_post est fuel f f' h).1
  have := hest f'
  omega

/-- non-vacuity: an estimator whose result depends on the CBOR width of the fee (the situation of the repaired defect:
fee 283 priced with a 2-byte … the loop moves from 250 to 259 and stops) -/
example : Pyc.FeeLoop.loop (fun f => 255 + (if f < 256 then 3 else 4)) 5 250 = some 259 := by decide

end Pyc.C07

#print axioms Pyc.C07.fee_eq_formula
#print axioms Pyc.C07.maxfee_eq
#print axioms Pyc.C07.tier_eq_formula
#print axioms Pyc.C07.tier_oversize_refused
#print axioms Pyc.C07.tier_absent_zero
#print axioms Pyc.C07.fee_vs_ledger
#print axioms Pyc.C07.fee_mono_size
#print axioms Pyc.C07.head_len_mono
#print axioms Pyc.C07.fee_loop_post
#print axioms Pyc.C07.fee_loop_terminates
#print axioms Pyc.C07.fee_loop_sufficient
