import Pyc.Proofs.Pool

/-! # C01 (extension `Pool`) — decode ∘ encode = id on stake-pool registration data

Objects: relays (`SingleHostAddr` with its IPv4 / IPv6 text ↔ bytes conversion, `SingleHostName`, `MultiHostName`),
`PoolMetadata`, `PoolParams`, `PoolId`, the certificates `PoolRegistration` (hand-written flattening
`[3, *pool_params]`) and `PoolRetirement`.  Model: `Pyc/Model/Pool.lean` (a transliteration of
`pycardano/pool_params.py` and of the two certificate classes, plus the four libc address conversions the code
calls); helper lemmas: `Pyc/Proofs/Pool.lean`, `Pyc/Proofs/PoolIp.lean`.  The model is run next to the
implementation by `harness/checks/c01_ext_pool.py` (driver ops `pool.*`).

The theorems speak about CONSTRUCTED objects.  The constructors normalise: `SingleHostAddr.__init__` stores the canonical
text of the address it is given (`normRelay`; a text libc refuses raises there), `PoolParams.__post_init__` turns
`relays=None` into `[]` (`postInit`); both are idempotent, and whatever is decoded is constructed (the decoders call the
constructors).  For every constructed object the round trip is exact — there is no hypothesis about address texts: it
follows from `ipv4_text_roundtrip` / `ipv6_text_roundtrip` + `ip_accepted_length`.  What remains as a hypothesis is what
the constructors do NOT establish and `validate()` checks at `to_cbor`: a `port` that is an int or `None`, a `dns_name` that
is a text or `None` (`relayTyped`), and the class invariants of the component classes (`paramsTyped`: hash sizes, a
`Fraction` in lowest terms, an `OrderedSet` without duplicates, a valid `PoolId` — each established by its own
constructor: `fraction_constructor`, `owners_constructor`, `poolid_text_roundtrip`).  `relayOk` / `paramsOk` are the
executable forms of "constructed and well typed" (`relay_ok_iff`, `params_ok_iff`); the driver reports them per case. -/

namespace Pyc.C01.Pool
open Pyc Pyc.Cbor Pyc.Codec Pyc.Pool

/-! ## the address conversions -/

/-- `inet_aton(inet_ntoa(b)) = b` for EVERY 4-byte string: the text the constructor stores for IPv4 bytes is read back as
those bytes -/
theorem ipv4_text_roundtrip (b : Bytes) (h : b.length = 4) : ∃ t, ntoa b = some t ∧ aton t = some b :=
  aton_ntoa b h

/-- `inet_pton(AF_INET6, inet_ntop(AF_INET6, b)) = b` for EVERY 16-byte string — whatever the zero runs (`::` at the
start, inside, at the end, none), the IPv4-compatible and IPv4-mapped forms included -/
theorem ipv6_text_roundtrip (b : Bytes) (h : b.length = 16) : ∃ t, ntop6 b = some t ∧ pton6 t = some b :=
  pton6_ntop6 b h

/-- whatever text `inet_aton` / `inet_pton` accept (shorthand, octal, hexadecimal, upper case, leading zeros, …) stands for
exactly 4 / 16 bytes: `to_primitive` never writes an address of another length -/
theorem ip_accepted_length (t b : Bytes) : (aton t = some b → b.length = 4) ∧ (pton6 t = some b → b.length = 16) :=
  ⟨aton_length t b, pton6_length t b⟩

/-! ## relays -/

def asc (s : String) : Bytes := s.toList.map fun c => UInt8.ofNat c.toNat

/-- the constructor is a normalisation: applying it to the fields of what it returned changes nothing -/
theorem relay_norm_idempotent (r r' : Relay) (h : normRelay r = some r') : normRelay r' = some r' :=
  normRelay_idem r r' h

/-- whatever `SingleHostAddr(port, ipv4, ipv6)` returns — the addresses given as text in any form libc accepts, as bytes,
or not at all — is constructed -/
theorem relay_constructor_constructed (p : Port) (a4 a6 : IpArg) (r : Relay) (h : mkAddr p a4 a6 = some r) :
    normRelay r = some r := mkAddr_constructed p a4 a6 r h

/-- … and so is whatever the relay decoders return -/
theorem relay_decoded_constructed (i : Item) (r : Relay) (h : decRelay i = .ok r) : normRelay r = some r :=
  decRelay_constructed i r h

/-- "constructed and well typed" is the executable predicate `relayOk` (stored address texts canonical) -/
theorem relay_ok_iff (r : Relay) : relayOk r = true ↔ (normRelay r = some r ∧ relayTyped r = true) := relayOk_iff r

/-- **relay round trip, FULL**: for EVERY constructed relay with a well-typed port / DNS name,
`from_primitive(to_primitive(x)) = x` — all three kinds, every subset of optional port / IPv4 / IPv6 / DNS name, any
integer port, the addresses given to the constructor as bytes or as text in whatever form libc accepts -/
theorem relay_roundtrip (r : Relay) (hc : normRelay r = some r) (ht : relayTyped r = true) :
    ∃ i, encRelay r = some i ∧ decRelay i = .ok r :=
  decRelay_encRelay r ((relayOk_iff r).mpr ⟨hc, ht⟩)

/-- the same, from the constructor arguments: `x = SingleHostAddr(port, ipv4, ipv6)` did not raise ⟹ `x` round-trips -/
theorem relay_roundtrip_from_arguments (p : Port) (hp : portOk p = true) (a4 a6 : IpArg) (r : Relay)
    (h : mkAddr p a4 a6 = some r) : ∃ i, encRelay r = some i ∧ decRelay i = .ok r := by
  refine relay_roundtrip r (mkAddr_constructed p a4 a6 r h) ?_
  obtain ⟨a, b, rfl, _, _⟩ := mkAddr_some p a4 a6 r h
  exact hp

/-- the former counterexample `SingleHostAddr(port=1, ipv4="01.2.3.4")` (kept verbatim before 68e1e96): the constructor now
stores `1.2.3.4` -/
def exFromNonCanon : Option Relay := mkAddr (.int 1) (.text (asc "01.2.3.4")) (.text (asc "0:0:0:0:0:0:0:1"))

example : (match exFromNonCanon with
    | some (.addr (.int 1) (some t4) (some t6)) => t4 == asc "1.2.3.4" && t6 == asc "::1"
    | _ => false) = true := by decide +kernel

-- a text libc refuses: the constructor raises (nothing to round-trip)
example : (mkAddr (.int 1) (.text (asc "1.2.3.256")) .none).isNone = true ∧ (mkAddr .none .none (.text (asc "1::2::3"))).isNone = true ∧
    (mkAddr .none (.bytes [1, 2, 3]) .none).isNone = true := by decide +kernel

/-- an object whose address attribute was ASSIGNED after construction (`x.ipv4 = "01.2.3.4"`) is not constructed … -/
def exAssigned : Relay := .addr (.int 1) (some (asc "01.2.3.4")) Option.none

example : relayOk exAssigned = false := by decide +kernel

/-- … for those (any stored text the socket functions accept) re-encode equality still holds: it decodes to a constructed
relay that is written as the same item -/
theorem relay_reencode (r : Relay) (i : Item) (h : encRelay r = some i) :
    ∃ r', decRelay i = .ok r' ∧ normRelay r' = some r' ∧ relayTyped r' = true ∧ encRelay r' = some i := by
  obtain ⟨r', h1, h2, h3⟩ := decRelay_of_enc r i h
  exact ⟨r', h1, ((relayOk_iff r').mp h2).1, ((relayOk_iff r').mp h2).2, h3⟩

/-- `SingleHostAddr(port, ipv4=<4 bytes>, ipv6=<16 bytes>)` — the constructor accepts, and the object is written as
`[0, port, those 4 bytes, those 16 bytes]` -/
theorem relay_constructed_from_bytes (p : Port) (hp : portOk p = true) (b4 b6 : Bytes) (h4 : b4.length = 4) (h6 : b6.length = 16) :
    ∃ r pi, mkAddr p (.bytes b4) (.bytes b6) = some r ∧ relayOk r = true ∧ itemPort p = some pi ∧
      encRelay r = some (.array [.uint 0, pi, .bytes b4, .bytes b6]) :=
  mkAddr_bytes p hp b4 b6 h4 h6

/-- a list of relays of any length -/
theorem relays_roundtrip (rs : List Relay) (hc : ∀ r ∈ rs, normRelay r = some r) (ht : rs.all relayTyped = true) :
    ∃ is, encRelays rs = some is ∧ decRelayList is = .ok rs :=
  decRelayList_encRelays rs ((all_relayOk_iff rs).mpr ⟨hc, ht⟩)

/-! ## margin, owners -/

/-- `Fraction(n, d)` (any integers, `d ≠ 0`) holds the value in lowest terms with a positive denominator: `Fraction(2, 4)`
is `1/2`, and that is what is written -/
theorem fraction_constructor (n d : Int) (q : Frac) (h : mkFrac n d = some q) : fracOk q = true ∧ q.n * d = n * q.d :=
  mkFrac_spec n d q h

theorem fraction_roundtrip (q : Frac) (h : fracOk q = true) : decFrac (itemFrac q) = .ok q :=
  decFrac_itemFrac q h

/-- the owner field in all three holdings: a `list` stays a `list`; an `OrderedSet` with the tag comes back as an
`OrderedSet` with the tag; an `OrderedSet` written without the tag comes back as the `list` with the same elements -/
theorem owners_roundtrip (o : Owners) (h : ownersOk o = true) : decOwners (itemOwners o) = .ok (normOwners o) :=
  decOwners_itemOwners o h

/-- both wire forms of `set<addr_keyhash>` are accepted: `#6.258([…])` … -/
theorem owners_wire_tagged (xs : List Bytes) (h : ownersOk (.oset true xs) = true) :
    decOwners (.tag 258 (.array (xs.map .bytes))) = .ok (.oset true xs) :=
  decOwners_itemOwners (.oset true xs) h

/-- … and the bare array -/
theorem owners_wire_untagged (xs : List Bytes) (h : ownersOk (.list xs) = true) :
    decOwners (.array (xs.map .bytes)) = .ok (.list xs) :=
  decOwners_itemOwners (.list xs) h

/-- the normal form is `==` to the original under `OrderedSet.__eq__` / `list.__eq__`, and written identically -/
theorem owners_norm (o : Owners) : Owners.pyEq (normOwners o) o = true ∧ itemOwners (normOwners o) = itemOwners o :=
  ⟨normOwners_pyEq o, itemOwners_norm o⟩

/-- `OrderedSet(items)` never holds a duplicate -/
theorem owners_constructor (t : Bool) (xs : List Bytes) (h : xs.all (fun x => x.length == 28) = true) :
    ownersOk (mkOset t xs) = true := by
  have hsub : ∀ ys : List Bytes, ys.all (fun x => x.length == 28) = true → (dedup ys).all (fun x => x.length == 28) = true := by
    intro ys
    induction ys with
    | nil => intro _; rfl
    | cons y ys ih =>
      intro hy
      simp only [List.all_cons, Bool.and_eq_true] at hy
      simp only [dedup, List.all_cons, Bool.and_eq_true]
      refine ⟨hy.1, ?_⟩
      rw [List.all_eq_true]
      intro z hz
      exact (List.all_eq_true.mp (ih hy.2)) z (List.mem_filter.mp hz).1
  simp only [mkOset, ownersOk, Bool.and_eq_true]
  exact ⟨hsub xs h, nodupB_dedup xs⟩

/-! ## pool parameters and the registration certificate -/

/-- `PoolParams.__post_init__` is a normalisation, and what it returns holds a list of relays -/
theorem params_postinit_idempotent (p : PoolParams) :
    postInit (postInit p) = postInit p ∧ (postInit p).relays.isSome = true ∧ (p.relays = Option.none → (postInit p).relays = some []) := by
  refine ⟨postInit_idem p, postInit_isSome p, ?_⟩
  intro h
  simp [postInit, h]

/-- "constructed from constructed relays, with well-typed components" is the executable predicate `paramsOk` -/
theorem params_ok_iff (p : PoolParams) : paramsOk p = true ↔ (ParamsConstructed p ∧ paramsTyped p = true) := paramsOk_iff p

/-- **`PoolRegistration`: decode ∘ encode, FULL** — for EVERY constructed registration (`__post_init__` has run, the relays
are constructed relays) with well-typed components (operator / VRF / reward account / owner hashes of their sizes, any
integers as pledge and cost, a `Fraction` as margin, owners in any holding and number, any list of relays, metadata or
`None`, optional pool id): the flattened array `[3, operator, …, metadata, id?]` is un-flattened to the same parameters —
field for field equal, the owner container in its normal form (`owners_norm`) -/
theorem registration_roundtrip (p : PoolParams) (hc : ParamsConstructed p) (ht : paramsTyped p = true) :
    ∃ i, encRegistration p = some i ∧ decRegistration i = .ok (normParams p) := by
  have h : paramsOk p = true := (paramsOk_iff p).mpr ⟨hc, ht⟩
  obtain ⟨is, h1, h2, h3⟩ := decParamsItems_items p h
  refine ⟨.array (.uint 3 :: is), by simp [encRegistration, h1], ?_⟩
  rw [decRegistration_flat is (itemsParams_ne_nil p is h1) h3, h2]

/-- the constructor call with `relays` omitted or `None`: the constructed object holds `[]`, writes the empty array, and
round-trips (before daec0e4 it held `None` and wrote `null`) -/
theorem registration_roundtrip_default_relays (p : PoolParams) (hn : p.relays = Option.none) (ht : paramsTyped p = true) :
    (postInit p).relays = some [] ∧
      ∃ i, encRegistration (postInit p) = some i ∧ decRegistration i = .ok (normParams (postInit p)) := by
  have hr : (postInit p).relays = some [] := by simp [postInit, hn]
  refine ⟨hr, registration_roundtrip (postInit p) ⟨postInit_idem p, ?_⟩ ?_⟩
  · intro rs e r hm
    rw [hr] at e
    obtain rfl := Option.some.inj e
    simp at hm
  · simp only [paramsTyped, paramsOkW, Bool.and_eq_true] at ht ⊢
    refine ⟨?_, by rw [hr]; rfl⟩
    have e : ∀ q : PoolParams, q.relays = Option.none → (postInit q).operator = q.operator ∧ (postInit q).vrf = q.vrf ∧
        (postInit q).margin = q.margin ∧ (postInit q).rewardAccount = q.rewardAccount ∧ (postInit q).owners = q.owners ∧
        (postInit q).metadata = q.metadata ∧ (postInit q).id = q.id := by
      intro q hq; simp [postInit, hq]
    obtain ⟨e1, e2, e3, e4, e5, e6, e7⟩ := e p hn
    rw [e1, e2, e3, e4, e5, e6, e7]
    exact ht.1

/-- what `normParams` keeps: everything but the container class of an untagged owner set -/
theorem registration_norm_fields (p : PoolParams) :
    (normParams p).operator = p.operator ∧ (normParams p).vrf = p.vrf ∧ (normParams p).pledge = p.pledge ∧
    (normParams p).cost = p.cost ∧ (normParams p).margin = p.margin ∧ (normParams p).rewardAccount = p.rewardAccount ∧
    Owners.pyEq (normParams p).owners p.owners = true ∧ (normParams p).relays = p.relays ∧
    (normParams p).metadata = p.metadata ∧ (normParams p).id = p.id :=
  ⟨rfl, rfl, rfl, rfl, rfl, rfl, normOwners_pyEq p.owners, rfl, rfl, rfl⟩

/-- a decoded registration is a fixed point: decoding its encoding returns it exactly -/
theorem registration_roundtrip_fixed_point (p : PoolParams) (hc : ParamsConstructed p) (ht : paramsTyped p = true) :
    ∃ i, encRegistration (normParams p) = some i ∧ decRegistration i = .ok (normParams p) := by
  have hn := (paramsOk_iff _).mp (paramsOk_norm p ((paramsOk_iff p).mpr ⟨hc, ht⟩))
  have := registration_roundtrip (normParams p) hn.1 hn.2
  rwa [normParams_idem] at this

/-- whatever `PoolParams.from_primitive` returns went through `__post_init__`; the relays it holds are constructed -/
theorem registration_decoded_constructed (xs : List Item) (p : PoolParams) (h : decParamsItems xs = .ok p) :
    postInit p = p ∧ p.relays.isSome = true :=
  ⟨decParamsItems_postInit xs p h, isSome_of_postInit p (decParamsItems_postInit xs p h)⟩

theorem relays_decoded_constructed (is : List Item) (rs : List Relay) (h : decRelayList is = .ok rs) :
    ∀ r ∈ rs, normRelay r = some r := decRelayList_constructed is rs h

/-- the nested form `[3, [pool_params…]]` that `from_primitive` also accepts gives the same parameters -/
theorem registration_nested_form (p : PoolParams) (hc : ParamsConstructed p) (ht : paramsTyped p = true) :
    ∃ is, itemsParams p = some is ∧ decRegistration (.array [.uint 3, .array is]) = .ok (normParams p) := by
  obtain ⟨is, h1, h2, _⟩ := decParamsItems_items p ((paramsOk_iff p).mpr ⟨hc, ht⟩)
  exact ⟨is, h1, by rw [decRegistration_nested, h2]⟩

/-- **re-encode equality**, no hypothesis: the decoded form is written exactly as the original -/
theorem registration_reencode (p : PoolParams) : encRegistration (normParams p) = encRegistration p := by
  simp [encRegistration, itemsParams_norm]

/-- **re-encode equality for EVERY registration holding a list of relays that can be written** — also one whose relays had
address attributes assigned after construction (class invariants only): it decodes to a constructed registration that is
written as the same item -/
theorem registration_reencode_any (p : PoolParams) (hw : paramsOkW p = true) (hs : p.relays.isSome = true) (i : Item)
    (h : encRegistration p = some i) :
    ∃ p', decRegistration i = .ok p' ∧ ParamsConstructed p' ∧ paramsTyped p' = true ∧ encRegistration p' = some i := by
  unfold encRegistration at h
  cases his : itemsParams p with
  | none => simp [his] at h
  | some is =>
    simp only [his, Option.map_some, Option.some.injEq] at h
    subst h
    obtain ⟨p', h1, h2, h3, _, h5⟩ := decParamsItems_of_enc p hw hs is his
    exact ⟨p', by rw [decRegistration_flat is (itemsParams_ne_nil p is his) h5, h1], ((paramsOk_iff p').mp h2).1,
      ((paramsOk_iff p').mp h2).2, by simp [encRegistration, h3]⟩

/-- at the byte level (`PoolRegistration.from_cbor(x.to_cbor())`), for CBOR-representable sizes -/
theorem registration_roundtrip_bytes (p : PoolParams) (hc : ParamsConstructed p) (ht : paramsTyped p = true) (i : Item)
    (he : encRegistration p = some i) (hw : Cbor.WF i) : decodeWith decRegistration (encode i) = .ok (normParams p) := by
  obtain ⟨i', h1, h2⟩ := registration_roundtrip p hc ht
  rw [he] at h1
  obtain rfl := Option.some.inj h1
  rw [decodeWith_encode _ _ hw, h2]

/-- **the flattening is injective**: two constructed, well-typed registrations written as the same item are the same
registration (up to the container class of an untagged owner set, which is not on the wire) -/
theorem registration_injective (p q : PoolParams) (hpc : ParamsConstructed p) (hpt : paramsTyped p = true)
    (hqc : ParamsConstructed q) (hqt : paramsTyped q = true)
    (h : encRegistration p = encRegistration q) : normParams p = normParams q := by
  have hp : paramsOk p = true := (paramsOk_iff p).mpr ⟨hpc, hpt⟩
  have hq : paramsOk q = true := (paramsOk_iff q).mpr ⟨hqc, hqt⟩
  apply normParams_inj_of_enc p q hp hq
  unfold encRegistration at h
  cases h1 : itemsParams p with
  | none =>
    obtain ⟨is, e, _⟩ := decParamsItems_items p hp
    rw [h1] at e; simp at e
  | some is =>
    cases h2 : itemsParams q with
    | none =>
      obtain ⟨is', e, _⟩ := decParamsItems_items q hq
      rw [h2] at e; simp at e
    | some is' =>
      rw [h1, h2] at h
      simp only [Option.map_some, Option.some.injEq, Item.array.injEq, List.cons.injEq, true_and] at h
      rw [h]

/-- `PoolParams` on its own (`PoolParams.from_cbor(p.to_cbor())`) -/
theorem params_roundtrip (p : PoolParams) (hc : ParamsConstructed p) (ht : paramsTyped p = true) :
    ∃ i, encParams p = some i ∧ decParams i = .ok (normParams p) := by
  obtain ⟨is, h1, h2, _⟩ := decParamsItems_items p ((paramsOk_iff p).mpr ⟨hc, ht⟩)
  exact ⟨.array is, by simp [encParams, h1], by simp [decParams, listElems?, h2]⟩

/-! ## retirement, pool id -/

theorem retirement_roundtrip (r : Retirement) (h : retirementOk r = true) : decRetirement (itemRetirement r) = .ok r :=
  decRetirement_item r h

theorem retirement_roundtrip_bytes (r : Retirement) (h : retirementOk r = true) (hw : Cbor.WF (itemRetirement r)) :
    decodeWith decRetirement (encode (itemRetirement r)) = .ok r := by
  rw [decodeWith_encode _ _ hw, decRetirement_item r h]

theorem retirement_injective (r s : Retirement) (hr : retirementOk r = true) (hs : retirementOk s = true)
    (h : itemRetirement r = itemRetirement s) : r = s := by
  have h1 := decRetirement_item r hr
  rw [h, decRetirement_item s hs] at h1
  exact (Res.ok.inj h1).symm

/-- the two certificates cannot be taken for each other: each decoder refuses the other's array with
`DeserializeException` (so the `Certificate` union moves on to the next alternative) -/
theorem registration_retirement_disjoint (p : PoolParams) (r : Retirement) (i : Item) (h : encRegistration p = some i) :
    decRetirement i = .deser ∧ decRegistration (itemRetirement r) = .deser := by
  unfold encRegistration at h
  cases his : itemsParams p with
  | none => simp [his] at h
  | some is =>
    simp only [his, Option.map_some, Option.some.injEq] at h
    subst h
    exact ⟨by simp [decRetirement, codeIs_uint], by simp [decRegistration, itemRetirement, codeIs_uint]⟩

theorem poolid_roundtrip (s : Bytes) (h : isPoolId s = true) : decPoolId (itemPoolId s) = .ok s :=
  decPoolId_item s h

/-- **pool id text round trip**: for every key hash (any length ≥ 2, in particular 28 bytes) `bech32.encode("pool", kh)`
succeeds, is accepted by `is_bech32_cardano_pool_id` / `PoolId(...)`, and `bech32.decode` of it is `kh` -/
theorem poolid_text_roundtrip (kh : Bytes) (h2 : 2 ≤ kh.length) :
    ∃ s, poolIdText kh = some s ∧ isPoolId s = true ∧ Bech32.decode (asciiChars s) = .ok (kh.map UInt8.toNat) :=
  poolIdText_spec kh h2

/-! ## non-vacuity: concrete objects meeting the hypotheses, evaluated by the kernel -/

def exRelays : List Relay :=
  [.addr (.int 3001) (some (asc "192.168.0.1")) (some (asc "2001:db8::ff00:42:8329")),
   .addr .none Option.none (some (asc "::ffff:1.2.3.4")),
   .addr (.int 0) (some (asc "0.0.0.0")) Option.none,
   .name (.int 65535) (.text (asc "relay.example.com")),
   .name .none (.text (asc "")),
   .multi (.text (asc "pool.example"))]

def h28 (x : Nat) : Bytes := List.replicate 28 (UInt8.ofNat x)

def exParams : PoolParams :=
  ⟨h28 1, List.replicate 32 2, 500000000, 340000000, ⟨3, 100⟩, 0xe1 :: h28 3, .oset true [h28 4, h28 5],
    some exRelays, some ⟨asc "https://pool.example/m.json", List.replicate 32 7⟩, Option.none⟩

/-- the same with a plain list of owners, an untagged set, no relays, negative / bignum coins, and a pool id -/
def exParams2 : PoolParams :=
  { exParams with owners := .oset false [h28 9], relays := some [], pledge := -1, cost := 2^64, margin := ⟨0, 1⟩,
                  metadata := Option.none }

theorem exRelays_ok : exRelays.all relayOk = true := by decide +kernel
theorem exParams_ok : paramsOk exParams = true := by decide +kernel
theorem exParams2_ok : paramsOk exParams2 = true := by decide +kernel

/-- the constructor call with the relays left out: `__post_init__` of parameters holding `None` -/
def exDefault : PoolParams := postInit { exParams with relays := Option.none }

example : (match exDefault.relays with | some [] => true | _ => false) = true ∧ paramsOk exDefault = true := by decide +kernel
-- the relays position (item 8 of the flattened array) holds the empty array, not `null`
example : (match encRegistration exDefault with
    | some (Item.array xs) => (match xs[8]? with | some (Item.array []) => true | _ => false)
    | _ => false) = true := by decide +kernel

example : ∃ i, encRegistration exParams = some i ∧ decRegistration i = .ok (normParams exParams) :=
  registration_roundtrip exParams ((paramsOk_iff _).mp exParams_ok).1 ((paramsOk_iff _).mp exParams_ok).2

-- the kernel runs encoder, CBOR codec and decoder: 10 items, 6 relays back, same bytes again
example : (match encRegistration exParams with
    | some i => (match decodeWith decRegistration (encode i) with
      | .ok p => (match i with | .array xs => xs.length == 10 | _ => false) &&
          (p.relays.map List.length == some 6) && p.margin == ⟨3, 100⟩ && p.owners == .oset true [h28 4, h28 5] &&
          ((encRegistration p).map encode == some (encode i))
      | _ => false)
    | Option.none => false) = true := by decide +kernel

-- an untagged owner set comes back as a list (and is `==`), negative and bignum coins survive
example : (match encRegistration exParams2 with
    | some i => (match decodeWith decRegistration (encode i) with
      | .ok p => p.owners == .list [h28 9] && Owners.pyEq p.owners exParams2.owners && p.pledge == -1 && p.cost == 2^64 &&
          ((encRegistration p).map encode == some (encode i))
      | _ => false)
    | Option.none => false) = true := by decide +kernel

-- the address conversions on the forms that matter
example : ntop6 (List.replicate 15 0 ++ [1]) = some (asc "::1") ∧ ntop6 (List.replicate 16 0) = some (asc "::") ∧
    ntop6 ([0x20, 0x01, 0x0d, 0xb8] ++ List.replicate 12 0) = some (asc "2001:db8::") ∧
    ntop6 (List.replicate 12 0 ++ [1, 2, 3, 4]) = some (asc "::1.2.3.4") ∧
    ntop6 ([0, 1, 0, 0, 0, 0, 0, 2, 0, 0, 0, 0, 0, 0, 0, 3]) = some (asc "1:0:0:2::3") ∧
    pton6 (asc "1:0:0:2::3") = some [0, 1, 0, 0, 0, 0, 0, 2, 0, 0, 0, 0, 0, 0, 0, 3] ∧
    aton (asc "0x7f.1") = some [127, 0, 0, 1] ∧ aton (asc "1.2.3.256") = Option.none ∧ pton6 (asc "1::2::3") = Option.none := by
  decide +kernel

-- `Fraction(2, 4)`, `Fraction(3, -6)`, `Fraction(1, 0)`
example : mkFrac 2 4 = some ⟨1, 2⟩ ∧ mkFrac 3 (-6) = some ⟨-1, 2⟩ ∧ mkFrac 1 0 = Option.none := by decide +kernel

-- a tagged owner set with a duplicate on the wire is de-duplicated by the decoder
example : (match decOwners (.tag 258 (.array [.bytes (h28 1), .bytes (h28 2), .bytes (h28 1)])) with
    | .ok o => o == .oset true [h28 1, h28 2]
    | _ => false) = true := by decide +kernel

example : retirementOk ⟨h28 1, 300⟩ = true := by decide
example : decRetirement (itemRetirement ⟨h28 1, 300⟩) = .ok ⟨h28 1, 300⟩ := retirement_roundtrip _ (by decide)

-- a pool id: the text of the all-ones key hash
example : (match poolIdText (h28 1) with
    | some s => isPoolId s && (s.take 5 == asc "pool1") && s.length == 56
    | Option.none => false) = true := by decide +kernel

end Pyc.C01.Pool

#print axioms Pyc.C01.Pool.ipv4_text_roundtrip
#print axioms Pyc.C01.Pool.ipv6_text_roundtrip
#print axioms Pyc.C01.Pool.ip_accepted_length
#print axioms Pyc.C01.Pool.relay_norm_idempotent
#print axioms Pyc.C01.Pool.relay_constructor_constructed
#print axioms Pyc.C01.Pool.relay_decoded_constructed
#print axioms Pyc.C01.Pool.relay_ok_iff
#print axioms Pyc.C01.Pool.relay_roundtrip
#print axioms Pyc.C01.Pool.relay_roundtrip_from_arguments
#print axioms Pyc.C01.Pool.relay_reencode
#print axioms Pyc.C01.Pool.relay_constructed_from_bytes
#print axioms Pyc.C01.Pool.relays_roundtrip
#print axioms Pyc.C01.Pool.fraction_constructor
#print axioms Pyc.C01.Pool.fraction_roundtrip
#print axioms Pyc.C01.Pool.owners_roundtrip
#print axioms Pyc.C01.Pool.owners_wire_tagged
#print axioms Pyc.C01.Pool.owners_wire_untagged
#print axioms Pyc.C01.Pool.owners_norm
#print axioms Pyc.C01.Pool.owners_constructor
#print axioms Pyc.C01.Pool.params_postinit_idempotent
#print axioms Pyc.C01.Pool.params_ok_iff
#print axioms Pyc.C01.Pool.registration_roundtrip
#print axioms Pyc.C01.Pool.registration_roundtrip_default_relays
#print axioms Pyc.C01.Pool.registration_norm_fields
#print axioms Pyc.C01.Pool.registration_roundtrip_fixed_point
#print axioms Pyc.C01.Pool.registration_decoded_constructed
#print axioms Pyc.C01.Pool.relays_decoded_constructed
#print axioms Pyc.C01.Pool.registration_nested_form
#print axioms Pyc.C01.Pool.registration_reencode
#print axioms Pyc.C01.Pool.registration_reencode_any
#print axioms Pyc.C01.Pool.registration_roundtrip_bytes
#print axioms Pyc.C01.Pool.registration_injective
#print axioms Pyc.C01.Pool.params_roundtrip
#print axioms Pyc.C01.Pool.retirement_roundtrip
#print axioms Pyc.C01.Pool.retirement_roundtrip_bytes
#print axioms Pyc.C01.Pool.retirement_injective
#print axioms Pyc.C01.Pool.registration_retirement_disjoint
#print axioms Pyc.C01.Pool.poolid_roundtrip
#print axioms Pyc.C01.Pool.poolid_text_roundtrip
#print axioms Pyc.C01.Pool.exRelays_ok
#print axioms Pyc.C01.Pool.exParams_ok
#print axioms Pyc.C01.Pool.exParams2_ok
