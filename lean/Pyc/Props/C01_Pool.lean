import Pyc.Proofs.Pool

/-! # C01 (extension `Pool`) — decode ∘ encode = id on stake-pool registration data

Objects: relays (`SingleHostAddr` with its IPv4 / IPv6 text ↔ bytes conversion, `SingleHostName`, `MultiHostName`),
`PoolMetadata`, `PoolParams`, `PoolId`, the certificates `PoolRegistration` (hand-written flattening
`[3, *pool_params]`) and `PoolRetirement`.  Model: `Pyc/Model/Pool.lean` (a transliteration of
`pycardano/pool_params.py` and of the two certificate classes, plus the four libc address conversions the code
calls); helper lemmas: `Pyc/Proofs/Pool.lean`, `Pyc/Proofs/PoolIp.lean`.  The model is run next to the
implementation by `harness/checks/c01_ext_pool.py` (driver ops `pool.*`).

Hypotheses are executable predicates of the model (`relayOk`, `paramsOk`, `paramsOkW`, `retirementOk`, `fracOk`,
`ownersOk`): the class invariants the constructors establish (hash sizes, a `Fraction` in lowest terms, an
`OrderedSet` without duplicates, a valid `PoolId`) and, for the exact round trip, address texts in the form the
constructor itself writes.  The one statement that is false of the code as it is — an object constructed from a
non-canonical address TEXT does not come back equal — is kept as `relay_roundtrip_goal` with its counterexample. -/

namespace Pyc.C01.Pool
open Pyc Pyc.Cbor Pyc.Codec Pyc.Pool

/-! ## the address conversions -/

/-- `inet_aton(inet_ntoa(b)) = b` for EVERY 4-byte string: the text the constructor stores for IPv4 bytes is read back as
those bytes -/
theorem ipv4_text_roundtrip (b : Bytes) (h : b.length = 4) : ∃ t, ntoa b = some t ∧ aton t = some b :=
  aton_ntoa b h

/-- `inet_pton(AF_INET6, inet_ntop(AF_INET6, b)) = b` for EVERY 16-byte string — whatever the zero runs (`::` at the
start, inside, at the end, none), the IPv4-compatible and IPv4-mapped forms included -/
theorem ipv6_text_roundtrip (b : Bytes) (h : b.length = 16) : ∃ t, ntop6 b = some t ∧ pton6 t = some b :=
  pton6_ntop6 b h

/-- whatever text `inet_aton` / `inet_pton` accept (shorthand, octal, hexadecimal, upper case, leading zeros, …) stands for
exactly 4 / 16 bytes: `to_primitive` never writes an address of another length -/
theorem ip_accepted_length (t b : Bytes) : (aton t = some b → b.length = 4) ∧ (pton6 t = some b → b.length = 16) :=
  ⟨aton_length t b, pton6_length t b⟩

/-! ## relays -/

/-- **relay round trip**: for every well-typed relay whose address texts are canonical, `from_primitive(to_primitive(x)) = x`
— all three kinds, every subset of optional port / IPv4 / IPv6 / DNS name, any integer port -/
theorem relay_roundtrip_partial (r : Relay) (h : relayOk r = true) : ∃ i, encRelay r = some i ∧ decRelay i = .ok r :=
  decRelay_encRelay r h

/-- the full statement: every relay that can be written comes back equal -/
def relay_roundtrip_goal : Prop := ∀ r i, encRelay r = some i → decRelay i = .ok r

def asc (s : String) : Bytes := s.toList.map fun c => UInt8.ofNat c.toNat

/-- `SingleHostAddr(port=1, ipv4="01.2.3.4")`: the constructor keeps the text as given -/
def exNonCanon : Relay := .addr (.int 1) (some (asc "01.2.3.4")) Option.none

/-- … it is FALSE: the text `01.2.3.4` is written as the bytes `01 02 03 04`, which decode to the text `1.2.3.4`; the
dataclass `==` compares the texts.  (Same bytes again on re-encoding: `relay_reencode`.) -/
theorem relay_roundtrip_counterexample : ¬ relay_roundtrip_goal := by
  intro hg
  have hs : (encRelay exNonCanon).isSome = true := by decide +kernel
  obtain ⟨i, hi⟩ := Option.isSome_iff_exists.mp hs
  obtain ⟨r', h1, h2, _⟩ := decRelay_of_enc _ i hi
  have h3 := hg _ i hi
  rw [h1] at h3
  have : r' = exNonCanon := Res.ok.inj h3
  subst this
  have : relayOk exNonCanon = false := by decide +kernel
  rw [this] at h2
  exact absurd h2 (by simp)

-- what the witness decodes to, and that it is written the same way (kernel evaluation of the model)
example : (match encRelay exNonCanon with
    | some i => (match decRelay i with
      | .ok (.addr (.int 1) (some t) Option.none) => t == asc "1.2.3.4" && (encode i == [0x84, 0, 1, 0x44, 1, 2, 3, 4, 0xf6])
      | _ => false)
    | Option.none => false) = true := by decide +kernel

/-- **re-encode equality for EVERY relay that can be written** (any address text the socket functions accept): it
decodes to a canonical relay that is written as the same item — and from then on round-trips exactly -/
theorem relay_reencode (r : Relay) (i : Item) (h : encRelay r = some i) :
    ∃ r', decRelay i = .ok r' ∧ relayOk r' = true ∧ encRelay r' = some i :=
  decRelay_of_enc r i h

/-- `SingleHostAddr(port, ipv4=<4 bytes>, ipv6=<16 bytes>)` — the constructor accepts, the object is within
`relay_roundtrip_partial`, and it is written as `[0, port, those 4 bytes, those 16 bytes]` -/
theorem relay_constructed_from_bytes (p : Port) (hp : portOk p = true) (b4 b6 : Bytes) (h4 : b4.length = 4) (h6 : b6.length = 16) :
    ∃ r pi, mkAddr p (.bytes b4) (.bytes b6) = some r ∧ relayOk r = true ∧ itemPort p = some pi ∧
      encRelay r = some (.array [.uint 0, pi, .bytes b4, .bytes b6]) :=
  mkAddr_bytes p hp b4 b6 h4 h6

/-- a list of relays of any length -/
theorem relays_roundtrip (rs : List Relay) (h : rs.all relayOk = true) :
    ∃ is, encRelays rs = some is ∧ decRelayList is = .ok rs :=
  decRelayList_encRelays rs h

/-! ## margin, owners -/

/-- `Fraction(n, d)` (any integers, `d ≠ 0`) holds the value in lowest terms with a positive denominator: `Fraction(2, 4)`
is `1/2`, and that is what is written -/
theorem fraction_constructor (n d : Int) (q : Frac) (h : mkFrac n d = some q) : fracOk q = true ∧ q.n * d = n * q.d :=
  mkFrac_spec n d q h

theorem fraction_roundtrip (q : Frac) (h : fracOk q = true) : decFrac (itemFrac q) = .ok q :=
  decFrac_itemFrac q h

/-- the owner field in all three holdings: a `list` stays a `list`; an `OrderedSet` with the tag comes back as an
`OrderedSet` with the tag; an `OrderedSet` written without the tag comes back as the `list` with the same elements -/
theorem owners_roundtrip (o : Owners) (h : ownersOk o = true) : decOwners (itemOwners o) = .ok (normOwners o) :=
  decOwners_itemOwners o h

/-- both wire forms of `set<addr_keyhash>` are accepted: `#6.258([…])` … -/
theorem owners_wire_tagged (xs : List Bytes) (h : ownersOk (.oset true xs) = true) :
    decOwners (.tag 258 (.array (xs.map .bytes))) = .ok (.oset true xs) :=
  decOwners_itemOwners (.oset true xs) h

/-- … and the bare array -/
theorem owners_wire_untagged (xs : List Bytes) (h : ownersOk (.list xs) = true) :
    decOwners (.array (xs.map .bytes)) = .ok (.list xs) :=
  decOwners_itemOwners (.list xs) h

/-- the normal form is `==` to the original under `OrderedSet.__eq__` / `list.__eq__`, and written identically -/
theorem owners_norm (o : Owners) : Owners.pyEq (normOwners o) o = true ∧ itemOwners (normOwners o) = itemOwners o :=
  ⟨normOwners_pyEq o, itemOwners_norm o⟩

/-- `OrderedSet(items)` never holds a duplicate -/
theorem owners_constructor (t : Bool) (xs : List Bytes) (h : xs.all (fun x => x.length == 28) = true) :
    ownersOk (mkOset t xs) = true := by
  have hsub : ∀ ys : List Bytes, ys.all (fun x => x.length == 28) = true → (dedup ys).all (fun x => x.length == 28) = true := by
    intro ys
    induction ys with
    | nil => intro _; rfl
    | cons y ys ih =>
      intro hy
      simp only [List.all_cons, Bool.and_eq_true] at hy
      simp only [dedup, List.all_cons, Bool.and_eq_true]
      refine ⟨hy.1, ?_⟩
      rw [List.all_eq_true]
      intro z hz
      exact (List.all_eq_true.mp (ih hy.2)) z (List.mem_filter.mp hz).1
  simp only [mkOset, ownersOk, Bool.and_eq_true]
  exact ⟨hsub xs h, nodupB_dedup xs⟩

/-! ## pool parameters and the registration certificate -/

/-- **`PoolRegistration`: decode ∘ encode** — for every well-formed registration (operator / VRF / reward account / owner
hashes of their sizes, any integers as pledge and cost, any reduced margin, owners in any holding and number, relays
`None` or any list of canonical relays, metadata or `None`, optional pool id): the flattened array
`[3, operator, …, metadata, id?]` is un-flattened to the same parameters — field for field equal, the owner container
in its normal form (`owners_norm`) -/
theorem registration_roundtrip_partial (p : PoolParams) (h : paramsOk p = true) :
    ∃ i, encRegistration p = some i ∧ decRegistration i = .ok (normParams p) := by
  obtain ⟨is, h1, h2, h3⟩ := decParamsItems_items p h
  refine ⟨.array (.uint 3 :: is), by simp [encRegistration, h1], ?_⟩
  rw [decRegistration_flat is (itemsParams_ne_nil p is h1) h3, h2]


/-- the full statement: every registration that holds its class invariants and can be written comes back equal -/
def registration_roundtrip_goal : Prop :=
  ∀ p i, paramsOkW p = true → encRegistration p = some i → decRegistration i = .ok (normParams p)

/-- what `normParams` keeps: everything but the container class of an untagged owner set -/
theorem registration_norm_fields (p : PoolParams) :
    (normParams p).operator = p.operator ∧ (normParams p).vrf = p.vrf ∧ (normParams p).pledge = p.pledge ∧
    (normParams p).cost = p.cost ∧ (normParams p).margin = p.margin ∧ (normParams p).rewardAccount = p.rewardAccount ∧
    Owners.pyEq (normParams p).owners p.owners = true ∧ (normParams p).relays = p.relays ∧
    (normParams p).metadata = p.metadata ∧ (normParams p).id = p.id :=
  ⟨rfl, rfl, rfl, rfl, rfl, rfl, normOwners_pyEq p.owners, rfl, rfl, rfl⟩

/-- a decoded registration is a fixed point: decoding its encoding returns it exactly -/
theorem registration_roundtrip_fixed_point (p : PoolParams) (h : paramsOk p = true) :
    ∃ i, encRegistration (normParams p) = some i ∧ decRegistration i = .ok (normParams p) := by
  have := registration_roundtrip_partial (normParams p) (paramsOk_norm p h)
  rwa [normParams_idem] at this

/-- the nested form `[3, [pool_params…]]` that `from_primitive` also accepts gives the same parameters -/
theorem registration_nested_form (p : PoolParams) (h : paramsOk p = true) :
    ∃ is, itemsParams p = some is ∧ decRegistration (.array [.uint 3, .array is]) = .ok (normParams p) := by
  obtain ⟨is, h1, h2, _⟩ := decParamsItems_items p h
  exact ⟨is, h1, by rw [decRegistration_nested, h2]⟩

/-- **re-encode equality**, no hypothesis: the decoded form is written exactly as the original -/
theorem registration_reencode (p : PoolParams) : encRegistration (normParams p) = encRegistration p := by
  simp [encRegistration, itemsParams_norm]

/-- **re-encode equality for EVERY registration that can be written**, whatever the address texts of its relays (class
invariants only): it decodes to parameters inside `registration_roundtrip_partial` that are written as the same item -/
theorem registration_reencode_any (p : PoolParams) (hw : paramsOkW p = true) (i : Item) (h : encRegistration p = some i) :
    ∃ p', decRegistration i = .ok p' ∧ paramsOk p' = true ∧ encRegistration p' = some i := by
  unfold encRegistration at h
  cases his : itemsParams p with
  | none => simp [his] at h
  | some is =>
    simp only [his, Option.map_some, Option.some.injEq] at h
    subst h
    obtain ⟨p', h1, h2, h3, _, h5⟩ := decParamsItems_of_enc p hw is his
    exact ⟨p', by rw [decRegistration_flat is (itemsParams_ne_nil p is his) h5, h1], h2, by simp [encRegistration, h3]⟩

/-- at the byte level (`PoolRegistration.from_cbor(x.to_cbor())`), for CBOR-representable sizes -/
theorem registration_roundtrip_bytes (p : PoolParams) (h : paramsOk p = true) (i : Item) (he : encRegistration p = some i)
    (hw : Cbor.WF i) : decodeWith decRegistration (encode i) = .ok (normParams p) := by
  obtain ⟨i', h1, h2⟩ := registration_roundtrip_partial p h
  rw [he] at h1
  obtain rfl := Option.some.inj h1
  rw [decodeWith_encode _ _ hw, h2]

/-- **the flattening is injective**: two well-formed registrations written as the same item are the same registration
(up to the container class of an untagged owner set, which is not on the wire) -/
theorem registration_injective (p q : PoolParams) (hp : paramsOk p = true) (hq : paramsOk q = true)
    (h : encRegistration p = encRegistration q) : normParams p = normParams q := by
  apply normParams_inj_of_enc p q hp hq
  unfold encRegistration at h
  cases h1 : itemsParams p with
  | none =>
    obtain ⟨is, e, _⟩ := decParamsItems_items p hp
    rw [h1] at e; simp at e
  | some is =>
    cases h2 : itemsParams q with
    | none =>
      obtain ⟨is', e, _⟩ := decParamsItems_items q hq
      rw [h2] at e; simp at e
    | some is' =>
      rw [h1, h2] at h
      simp only [Option.map_some, Option.some.injEq, Item.array.injEq, List.cons.injEq, true_and] at h
      rw [h]

/-- `PoolParams` on its own (`PoolParams.from_cbor(p.to_cbor())`) -/
theorem params_roundtrip (p : PoolParams) (h : paramsOk p = true) :
    ∃ i, encParams p = some i ∧ decParams i = .ok (normParams p) := by
  obtain ⟨is, h1, h2, _⟩ := decParamsItems_items p h
  exact ⟨.array is, by simp [encParams, h1], by simp [decParams, listElems?, h2]⟩

/-! ## retirement, pool id -/

theorem retirement_roundtrip (r : Retirement) (h : retirementOk r = true) : decRetirement (itemRetirement r) = .ok r :=
  decRetirement_item r h

theorem retirement_roundtrip_bytes (r : Retirement) (h : retirementOk r = true) (hw : Cbor.WF (itemRetirement r)) :
    decodeWith decRetirement (encode (itemRetirement r)) = .ok r := by
  rw [decodeWith_encode _ _ hw, decRetirement_item r h]

theorem retirement_injective (r s : Retirement) (hr : retirementOk r = true) (hs : retirementOk s = true)
    (h : itemRetirement r = itemRetirement s) : r = s := by
  have h1 := decRetirement_item r hr
  rw [h, decRetirement_item s hs] at h1
  exact (Res.ok.inj h1).symm

/-- the two certificates cannot be taken for each other: each decoder refuses the other's array with
`DeserializeException` (so the `Certificate` union moves on to the next alternative) -/
theorem registration_retirement_disjoint (p : PoolParams) (r : Retirement) (i : Item) (h : encRegistration p = some i) :
    decRetirement i = .deser ∧ decRegistration (itemRetirement r) = .deser := by
  unfold encRegistration at h
  cases his : itemsParams p with
  | none => simp [his] at h
  | some is =>
    simp only [his, Option.map_some, Option.some.injEq] at h
    subst h
    exact ⟨by simp [decRetirement, codeIs_uint], by simp [decRegistration, itemRetirement, codeIs_uint]⟩

theorem poolid_roundtrip (s : Bytes) (h : isPoolId s = true) : decPoolId (itemPoolId s) = .ok s :=
  decPoolId_item s h

/-- **pool id text round trip**: for every key hash (any length ≥ 2, in particular 28 bytes) `bech32.encode("pool", kh)`
succeeds, is accepted by `is_bech32_cardano_pool_id` / `PoolId(...)`, and `bech32.decode` of it is `kh` -/
theorem poolid_text_roundtrip (kh : Bytes) (h2 : 2 ≤ kh.length) :
    ∃ s, poolIdText kh = some s ∧ isPoolId s = true ∧ Bech32.decode (asciiChars s) = .ok (kh.map UInt8.toNat) :=
  poolIdText_spec kh h2

/-! ## non-vacuity: concrete objects meeting the hypotheses, evaluated by the kernel -/

def exRelays : List Relay :=
  [.addr (.int 3001) (some (asc "192.168.0.1")) (some (asc "2001:db8::ff00:42:8329")),
   .addr .none Option.none (some (asc "::ffff:1.2.3.4")),
   .addr (.int 0) (some (asc "0.0.0.0")) Option.none,
   .name (.int 65535) (.text (asc "relay.example.com")),
   .name .none (.text (asc "")),
   .multi (.text (asc "pool.example"))]

def h28 (x : Nat) : Bytes := List.replicate 28 (UInt8.ofNat x)

def exParams : PoolParams :=
  ⟨h28 1, List.replicate 32 2, 500000000, 340000000, ⟨3, 100⟩, 0xe1 :: h28 3, .oset true [h28 4, h28 5],
    some exRelays, some ⟨asc "https://pool.example/m.json", List.replicate 32 7⟩, Option.none⟩

/-- the same with a plain list of owners, an untagged set, no relays, negative / bignum coins, and a pool id -/
def exParams2 : PoolParams :=
  { exParams with owners := .oset false [h28 9], relays := some [], pledge := -1, cost := 2^64, margin := ⟨0, 1⟩,
                  metadata := Option.none }

theorem exRelays_ok : exRelays.all relayOk = true := by decide +kernel
theorem exParams_ok : paramsOk exParams = true := by decide +kernel
theorem exParams2_ok : paramsOk exParams2 = true := by decide +kernel

/-- a registration whose only relay is `SingleHostAddr(port=1, ipv4="01.2.3.4")` -/
def exParamsNonCanon : PoolParams := { exParams with relays := some [exNonCanon] }

/-- … it is FALSE for the same reason as `relay_roundtrip_goal`: the relay comes back with the text `1.2.3.4`
(`registration_reencode_any`: the bytes are the same again) -/
theorem registration_roundtrip_counterexample : ¬ registration_roundtrip_goal := by
  intro hg
  have hw : paramsOkW exParamsNonCanon = true := by decide +kernel
  have hs : (encRegistration exParamsNonCanon).isSome = true := by decide +kernel
  obtain ⟨i, hi⟩ := Option.isSome_iff_exists.mp hs
  obtain ⟨p', h1, h2, _⟩ := registration_reencode_any _ hw i hi
  have h3 := hg _ i hw hi
  rw [h1] at h3
  have : p' = normParams exParamsNonCanon := Res.ok.inj h3
  subst this
  have : paramsOk (normParams exParamsNonCanon) = false := by decide +kernel
  rw [this] at h2
  exact absurd h2 (by simp)

example : ∃ i, encRegistration exParams = some i ∧ decRegistration i = .ok (normParams exParams) :=
  registration_roundtrip_partial exParams exParams_ok

-- the kernel runs encoder, CBOR codec and decoder: 10 items, 6 relays back, same bytes again
example : (match encRegistration exParams with
    | some i => (match decodeWith decRegistration (encode i) with
      | .ok p => (match i with | .array xs => xs.length == 10 | _ => false) &&
          (p.relays.map List.length == some 6) && p.margin == ⟨3, 100⟩ && p.owners == .oset true [h28 4, h28 5] &&
          ((encRegistration p).map encode == some (encode i))
      | _ => false)
    | Option.none => false) = true := by decide +kernel

-- an untagged owner set comes back as a list (and is `==`), negative and bignum coins survive
example : (match encRegistration exParams2 with
    | some i => (match decodeWith decRegistration (encode i) with
      | .ok p => p.owners == .list [h28 9] && Owners.pyEq p.owners exParams2.owners && p.pledge == -1 && p.cost == 2^64 &&
          ((encRegistration p).map encode == some (encode i))
      | _ => false)
    | Option.none => false) = true := by decide +kernel

-- the address conversions on the forms that matter
example : ntop6 (List.replicate 15 0 ++ [1]) = some (asc "::1") ∧ ntop6 (List.replicate 16 0) = some (asc "::") ∧
    ntop6 ([0x20, 0x01, 0x0d, 0xb8] ++ List.replicate 12 0) = some (asc "2001:db8::") ∧
    ntop6 (List.replicate 12 0 ++ [1, 2, 3, 4]) = some (asc "::1.2.3.4") ∧
    ntop6 ([0, 1, 0, 0, 0, 0, 0, 2, 0, 0, 0, 0, 0, 0, 0, 3]) = some (asc "1:0:0:2::3") ∧
    pton6 (asc "1:0:0:2::3") = some [0, 1, 0, 0, 0, 0, 0, 2, 0, 0, 0, 0, 0, 0, 0, 3] ∧
    aton (asc "0x7f.1") = some [127, 0, 0, 1] ∧ aton (asc "1.2.3.256") = Option.none ∧ pton6 (asc "1::2::3") = Option.none := by
  decide +kernel

-- `Fraction(2, 4)`, `Fraction(3, -6)`, `Fraction(1, 0)`
example : mkFrac 2 4 = some ⟨1, 2⟩ ∧ mkFrac 3 (-6) = some ⟨-1, 2⟩ ∧ mkFrac 1 0 = Option.none := by decide +kernel

-- a tagged owner set with a duplicate on the wire is de-duplicated by the decoder
example : (match decOwners (.tag 258 (.array [.bytes (h28 1), .bytes (h28 2), .bytes (h28 1)])) with
    | .ok o => o == .oset true [h28 1, h28 2]
    | _ => false) = true := by decide +kernel

example : retirementOk ⟨h28 1, 300⟩ = true := by decide
example : decRetirement (itemRetirement ⟨h28 1, 300⟩) = .ok ⟨h28 1, 300⟩ := retirement_roundtrip _ (by decide)

-- a pool id: the text of the all-ones key hash
example : (match poolIdText (h28 1) with
    | some s => isPoolId s && (s.take 5 == asc "pool1") && s.length == 56
    | Option.none => false) = true := by decide +kernel

end Pyc.C01.Pool

#print axioms Pyc.C01.Pool.ipv4_text_roundtrip
#print axioms Pyc.C01.Pool.ipv6_text_roundtrip
#print axioms Pyc.C01.Pool.ip_accepted_length
#print axioms Pyc.C01.Pool.relay_roundtrip_partial
#print axioms Pyc.C01.Pool.relay_roundtrip_counterexample
#print axioms Pyc.C01.Pool.relay_reencode
#print axioms Pyc.C01.Pool.relay_constructed_from_bytes
#print axioms Pyc.C01.Pool.relays_roundtrip
#print axioms Pyc.C01.Pool.fraction_constructor
#print axioms Pyc.C01.Pool.fraction_roundtrip
#print axioms Pyc.C01.Pool.owners_roundtrip
#print axioms Pyc.C01.Pool.owners_wire_tagged
#print axioms Pyc.C01.Pool.owners_wire_untagged
#print axioms Pyc.C01.Pool.owners_norm
#print axioms Pyc.C01.Pool.owners_constructor
#print axioms Pyc.C01.Pool.registration_roundtrip_partial
#print axioms Pyc.C01.Pool.registration_roundtrip_counterexample
#print axioms Pyc.C01.Pool.registration_norm_fields
#print axioms Pyc.C01.Pool.registration_roundtrip_fixed_point
#print axioms Pyc.C01.Pool.registration_nested_form
#print axioms Pyc.C01.Pool.registration_reencode
#print axioms Pyc.C01.Pool.registration_reencode_any
#print axioms Pyc.C01.Pool.registration_roundtrip_bytes
#print axioms Pyc.C01.Pool.registration_injective
#print axioms Pyc.C01.Pool.params_roundtrip
#print axioms Pyc.C01.Pool.retirement_roundtrip
#print axioms Pyc.C01.Pool.retirement_roundtrip_bytes
#print axioms Pyc.C01.Pool.retirement_injective
#print axioms Pyc.C01.Pool.registration_retirement_disjoint
#print axioms Pyc.C01.Pool.poolid_roundtrip
#print axioms Pyc.C01.Pool.poolid_text_roundtrip
#print axioms Pyc.C01.Pool.exRelays_ok
#print axioms Pyc.C01.Pool.exParams_ok
#print axioms Pyc.C01.Pool.exParams2_ok
