import Pyc.Proofs.Canonical

/-! # C04 — map-like values encode canonically, independent of construction history

Model: `Pyc/Model/Canonical.lean` (`DictCBORSerializable.to_shallow_primitive` sort, `Asset` / `MultiAsset`
normalisation on encode, `Value` bare-integer form) over `Pyc/Model/Value.lean`.  `qty` is the content. -/

namespace Pyc.C04
open Pyc Pyc.Cbor

/-- every dict the library can hold: unique keys, keys short enough for a CBOR head (hashes are 28 bytes, asset
names at most 32) -/
def Valid (v : Value) : Prop := MultiAsset.WF v.ma ∧ MultiAsset.KeysOk v.ma

/-- bundles with equal content encode to identical bytes, whatever their insertion orders, stored zeros or
empty policies -/
theorem content_multiasset (m₁ m₂ : MultiAsset) (h1 : MultiAsset.WF m₁) (h2 : MultiAsset.WF m₂)
    (k1 : MultiAsset.KeysOk m₁) (h : ∀ p n, MultiAsset.qty m₁ p n = MultiAsset.qty m₂ p n) :
    encMultiAsset m₁ = encMultiAsset m₂ := by
  unfold encMultiAsset; rw [primMultiAsset_content m₁ m₂ h1 h2 k1 h]

theorem content_asset (a b : Asset) (ha : Dict.WF a) (hb : Dict.WF b) (ka : KeysOk a)
    (h : ∀ n, Asset.qty a n = Asset.qty b n) : encAsset a = encAsset b := by
  unfold encAsset; rw [primAsset_content a b ha hb ka h]

theorem normalize_empty_iff (m : MultiAsset) (hw : MultiAsset.WF m) :
    (MultiAsset.normalize m).isEmpty = true ↔ ∀ p n, MultiAsset.qty m p n = 0 := by
  constructor
  · intro he p n
    rw [← MultiAsset.qty_normalize m p n hw]
    have : MultiAsset.normalize m = [] := by simpa using he
    rw [this]; simp [MultiAsset.qty, Dict.getD, Asset.qty]
  · intro h
    cases hn : MultiAsset.normalize m with
    | nil => rfl
    | cons q r =>
      exfalso
      have hw' := MultiAsset.wf_normalize m hw
      have hh : Dict.has (MultiAsset.normalize m) q.1 = true := by rw [hn]; simp [Dict.has]
      obtain ⟨n, hne⟩ := (MultiAsset.has_iff_qty _ q.1 hw' (MultiAsset.normal_normalize m)).1 hh
      rw [MultiAsset.qty_normalize m _ _ hw] at hne
      exact hne (h q.1 n)

/-- values with equal content encode to identical bytes (hence identical hashes and transaction ids) -/
theorem content_value (v₁ v₂ : Value) (h1 : Valid v₁) (h2 : Valid v₂) (h : Value.Same v₁ v₂) :
    encValue v₁ = encValue v₂ := by
  unfold encValue itemValue
  have hp := primMultiAsset_content v₁.ma v₂.ma h1.1 h2.1 h1.2 h.2
  have he : (MultiAsset.normalize v₁.ma).isEmpty = (MultiAsset.normalize v₂.ma).isEmpty := by
    rw [Bool.eq_iff_iff, normalize_empty_iff _ h1.1, normalize_empty_iff _ h2.1]
    constructor
    · intro hz p n; have := h.2 p n; simp only [Value.qty] at this; rw [← this]; exact hz p n
    · intro hz p n; have := h.2 p n; simp only [Value.qty] at this; rw [this]; exact hz p n
  rw [he, hp, h.1]

/-- keys are emitted shortest-encoding-first, then bytewise, each key once — policies and names -/
theorem keys_sorted (m : MultiAsset) (hw : MultiAsset.WF m) :
    (primMultiAsset m).Pairwise (fun a b => keyLe a.1 b.1 = true) ∧ ((primMultiAsset m).map (·.1)).Nodup ∧
    ∀ p ∈ primMultiAsset m, p.2.Pairwise (fun a b => keyLe a.1 b.1 = true) ∧ (p.2.map (·.1)).Nodup := by
  have hw' := MultiAsset.wf_normalize m hw
  refine ⟨?_, ?_, ?_⟩
  · rw [primMultiAsset_eq]; exact canonSort_sorted _
  · rw [primMultiAsset_eq]
    have hp := (canonSort_perm ((MultiAsset.normalize m).map MultiAsset.canonInner)).map (·.1)
    apply hp.symm.nodup
    have := MultiAsset.keys_canonInner (MultiAsset.normalize m)
    simp only [Dict.keys] at this
    rw [this]; exact hw'.1
  · intro p hp
    simp only [primMultiAsset, List.mem_map] at hp
    obtain ⟨q, hq, rfl⟩ := hp
    have hq' : q ∈ MultiAsset.normalize m := (canonSort_perm _).subset hq
    refine ⟨canonSort_sorted _, ?_⟩
    have hp := (canonSort_perm (Asset.normalize q.2)).map (·.1)
    apply hp.symm.nodup
    exact Asset.wf_normalize _ (hw'.2 _ hq')

/-- zero quantities and empty policies are never emitted -/
theorem no_zero_no_empty (m : MultiAsset) :
    ∀ p ∈ primMultiAsset m, p.2 ≠ [] ∧ ∀ q ∈ p.2, q.2 ≠ 0 := by
  intro p hp
  simp only [primMultiAsset, List.mem_map] at hp
  obtain ⟨q, hq, rfl⟩ := hp
  have hq' : q ∈ MultiAsset.normalize m := (canonSort_perm _).subset hq
  have hn := MultiAsset.normal_normalize m q hq'
  have hperm := canonSort_perm (Asset.normalize q.2)
  rw [Asset.normalize_of_normal _ hn.2] at hperm
  constructor
  · intro he
    simp only [primAsset, Asset.normalize_of_normal _ hn.2] at he
    rw [he] at hperm
    exact hn.1 hperm.symm.eq_nil
  · intro x hx
    simp only [primAsset, Asset.normalize_of_normal _ hn.2] at hx
    exact hn.2 x (hperm.subset hx)

theorem ofInt_ne_array (i : Int) (xs : List Item) : ofInt i ≠ .array xs := by
  unfold ofInt; split <;> (try simp only []) <;> split <;> simp

/-- a value is the bare integer exactly when it holds no asset -/
theorem bare_int_iff (v : Value) (hw : MultiAsset.WF v.ma) :
    itemValue v = ofInt v.coin ↔ ∀ p n, Value.qty v p n = 0 := by
  unfold itemValue Value.qty
  rw [← normalize_empty_iff v.ma hw]
  constructor
  · intro h
    cases he : (MultiAsset.normalize v.ma).isEmpty with
    | true => rfl
    | false => simp only [he, Bool.false_eq_true, if_false] at h; exact absurd h.symm (ofInt_ne_array _ _)
  · intro h; simp [h]

/-- GOAL as the pinned tree implemented it (`if self.multi_asset:` on the un-normalised dict). -/
def bare_int_pinned_goal : Prop :=
  ∀ v : Value, MultiAsset.WF v.ma → ((∀ p n, Value.qty v p n = 0) → itemValuePinned v = ofInt v.coin)

/-- the pinned tree's emptiness test violates the property: `Value(5, {p: {}})` is emitted as `[5, {}]`
(repaired in /repo by a `fix:` commit; `itemValue` models the repaired code) -/
theorem bare_int_pinned_counterexample : ¬ bare_int_pinned_goal := by
  intro h
  have := h ⟨5, [([1], [])]⟩ (by decide) (by
    intro p n; simp [Value.qty, MultiAsset.qty, Dict.getD, Asset.qty])
  simp [itemValuePinned] at this
  exact ofInt_ne_array _ _ this.symm

/-- withdrawals, metadata label maps, redeemer maps, vote maps (every `DictCBORSerializable`, keys and values
given by their encodings): the bytes depend only on the set of entries, not on insertion order, and the keys
come out shortest-encoding-first, then bytewise -/
theorem dict_order_independent (m₁ m₂ : List (Bytes × Bytes)) (hw : Dict.WF m₁) (hp : m₁.Perm m₂) :
    encRawMap m₁ = encRawMap m₂ := encRawMap_order_independent m₁ m₂ hw hp

theorem dict_keys_sorted (m : List (Bytes × Bytes)) :
    (canonSortRaw m).Pairwise (fun a b => lenLexLe a.1 b.1 = true) := by
  exact isort_pairwise (fun (a b : Bytes × Bytes) => lenLexLe a.1 b.1)
    (fun a b c h1 h2 => lenLexLe_trans _ _ _ h1 h2) (fun a b => lenLexLe_total _ _) m

/-! ## histories -/

/-- construction / arithmetic steps on a value -/
inductive Op where
  | setQty (p n : Bytes) (q : Int)     -- v.multi_asset[p][n] = q   (creating the policy when absent)
  | add (w : Value)                    -- v = v + w,  v += w,  v = v.union(w)
  | sub (w : Value)                    -- v = v - w
  | addSelf                            -- v += v
  | normalize                          -- v.multi_asset.normalize()

def step (v : Value) : Op → Value
  | .setQty p n q => ⟨v.coin, Dict.set v.ma p (Dict.set (Dict.getD v.ma p []) n q)⟩
  | .add w => Value.add v w
  | .sub w => Value.sub v w
  | .addSelf => Value.add v v
  | .normalize => ⟨v.coin, MultiAsset.normalize v.ma⟩

def run (init : Value) (ops : List Op) : Value := ops.foldl step init

/-- operands of the steps are themselves legal dicts with legal key lengths -/
def OpOk : Op → Prop
  | .setQty p n _ => p.length < 2^64 ∧ n.length < 2^64
  | .add w => Valid w
  | .sub w => Valid w
  | _ => True

theorem keysOk_set {ν : Type} (m : List (Bytes × ν)) (k : Bytes) (v : ν) (h : KeysOk m) (hk : k.length < 2^64) :
    KeysOk (Dict.set m k v) := by
  intro k' hk'
  rw [Dict.has_set] at hk'
  simp only [Bool.or_eq_true, decide_eq_true_eq] at hk'
  rcases hk' with rfl | h'
  · exact hk
  · exact h k' h'

theorem valid_set (m : MultiAsset) (p : Bytes) (a : Asset) (hm : MultiAsset.WF m ∧ MultiAsset.KeysOk m)
    (ha : Dict.WF a) (ka : KeysOk a) (hp : p.length < 2^64) :
    MultiAsset.WF (Dict.set m p a) ∧ MultiAsset.KeysOk (Dict.set m p a) := by
  have hw := Dict.wf_set m p a hm.1.1
  have hmem : ∀ q ∈ Dict.set m p a, q.2 = a ∨ q ∈ m := by
    intro q hq
    obtain ⟨k, x⟩ := q
    have := (Dict.mem_iff_getD _ k x [] hw).1 hq
    rw [Dict.getD_set, Dict.has_set] at this
    by_cases hk : p = k
    · simp [hk] at this; exact Or.inl this.symm
    · simp [hk] at this; exact Or.inr ((Dict.mem_iff_getD m k x [] hm.1.1).2 this)
  refine ⟨⟨hw, ?_⟩, ⟨keysOk_set m p a hm.2.1 hp, ?_⟩⟩
  · intro q hq; rcases hmem q hq with h | h
    · rw [h]; exact ha
    · exact hm.1.2 q h
  · intro q hq; rcases hmem q hq with h | h
    · rw [h]; exact ka
    · exact hm.2.2 q h

theorem keysOk_getD (m : MultiAsset) (p : Bytes) (hw : MultiAsset.WF m) (hk : MultiAsset.KeysOk m) :
    KeysOk (Dict.getD m p []) := by
  cases hh : Dict.has m p with
  | false => rw [Dict.has_false_getD _ _ _ hh]; intro k hk'; simp [Dict.has] at hk'
  | true => exact hk.2 _ (MultiAsset.mem_getD m p hw hh)

theorem keysOk_merge {ν : Type} (op : ν → ν → ν) (d : ν) (a b : List (Bytes × ν)) (ha : KeysOk a) (hb : KeysOk b) :
    KeysOk (Dict.merge op d a b) := by
  intro k hk
  rw [Dict.has_merge] at hk
  simp only [Bool.or_eq_true] at hk
  rcases hk with h | h
  · exact ha k h
  · exact hb k h

theorem asset_keysOk_op (x y : Asset) (hx : KeysOk x) (hy : KeysOk y) (hw : Dict.WF x) :
    KeysOk (Asset.add x y) ∧ KeysOk (Asset.sub x y) :=
  ⟨Asset.keysOk_normalize _ (keysOk_merge _ _ _ _ hx hy) (Dict.wf_merge _ _ _ _ hw),
   Asset.keysOk_normalize _ (keysOk_merge _ _ _ _ hx hy) (Dict.wf_merge _ _ _ _ hw)⟩

theorem ma_keysOk_merge (op : Asset → Asset → Asset)
    (hop : ∀ x y, Dict.WF x → KeysOk x → KeysOk y → KeysOk (op x y)) (hopw : ∀ x y, Dict.WF x → Dict.WF (op x y))
    (a b : MultiAsset) (ha : MultiAsset.WF a) (ka : MultiAsset.KeysOk a) (kb : MultiAsset.KeysOk b) :
    MultiAsset.WF (Dict.merge op [] a b) ∧ MultiAsset.KeysOk (Dict.merge op [] a b) := by
  unfold Dict.merge
  induction b generalizing a with
  | nil => exact ⟨ha, ka⟩
  | cons q r ih =>
    simp only [List.foldl_cons]
    have hq : q.1.length < 2^64 := kb.1 q.1 (by simp [Dict.has])
    have kq : KeysOk q.2 := kb.2 q (by simp)
    have kr : MultiAsset.KeysOk r := ⟨fun k hk => kb.1 k (by simp [Dict.has, hk]), fun x hx => kb.2 x (by simp [hx])⟩
    have hg := MultiAsset.wf_getD a q.1 ha
    have kg := keysOk_getD a q.1 ha ka
    have := valid_set a q.1 (op (Dict.getD a q.1 []) q.2) ⟨ha, ka⟩ (hopw _ _ hg) (hop _ _ hg kg kq) hq
    exact ih _ this.1 this.2 kr

/-- every state reachable by such steps from a valid value is valid -/
theorem run_valid (init : Value) (ops : List Op) (hi : Valid init) (ho : ∀ o ∈ ops, OpOk o) : Valid (run init ops) := by
  unfold run
  induction ops generalizing init with
  | nil => simpa
  | cons o r ih =>
    simp only [List.foldl_cons]
    apply ih _ _ (fun x hx => ho x (by simp [hx]))
    have hoo := ho o (by simp)
    have addv : ∀ w : Value, Valid w → Valid (Value.add init w) := by
      intro w hw
      have := ma_keysOk_merge Asset.add (fun x y hx kx ky => (asset_keysOk_op x y kx ky hx).1)
        (fun x y hx => Asset.wf_add x y hx) init.ma w.ma hi.1 hi.2 hw.2
      exact ⟨MultiAsset.wf_normalize _ this.1, MultiAsset.keysOk_normalize _ this.2 this.1⟩
    cases o with
    | setQty p n q =>
      simp only [OpOk] at hoo
      simp only [step]
      have hg := MultiAsset.wf_getD init.ma p hi.1
      have kg := keysOk_getD init.ma p hi.1 hi.2
      have := valid_set init.ma p (Dict.set (Dict.getD init.ma p []) n q) hi (Dict.wf_set _ _ _ hg)
        (keysOk_set _ _ _ kg hoo.2) hoo.1
      exact this
    | add w => exact addv w hoo
    | addSelf => exact addv init hi
    | sub w =>
      have := ma_keysOk_merge Asset.sub (fun x y hx kx ky => (asset_keysOk_op x y kx ky hx).2)
        (fun x y hx => Asset.wf_sub x y hx) init.ma w.ma hi.1 hi.2 hoo.2
      exact ⟨MultiAsset.wf_normalize _ this.1, MultiAsset.keysOk_normalize _ this.2 this.1⟩
    | normalize => exact ⟨MultiAsset.wf_normalize _ hi.1, MultiAsset.keysOk_normalize _ hi.2 hi.1⟩

/-- any two construction / arithmetic histories that arrive at the same content yield identical bytes -/
theorem history_independent (i₁ i₂ : Value) (h₁ h₂ : List Op) (v1 : Valid i₁) (v2 : Valid i₂)
    (o1 : ∀ o ∈ h₁, OpOk o) (o2 : ∀ o ∈ h₂, OpOk o) (same : Value.Same (run i₁ h₁) (run i₂ h₂)) :
    encValue (run i₁ h₁) = encValue (run i₂ h₂) :=
  content_value _ _ (run_valid i₁ h₁ v1 o1) (run_valid i₂ h₂ v2 o2) same

/-- non-vacuity: two values built in different insertion orders (so the stored dicts differ) are valid and
have the same content — the hypotheses of `content_value` / `history_independent` are satisfiable non-trivially -/
example :
    let a : Value := run ⟨3, []⟩ [.setQty [2] [9, 9] 4, .setQty [1] [7] 5, .setQty [2] [] 1]
    let b : Value := run ⟨1, []⟩ [.setQty [1] [7] 6, .setQty [2] [] 1, .setQty [2] [9, 9] 4,
                                  .sub ⟨-2, [([1], [([7], 1)])]⟩]
    a.ma ≠ b.ma ∧ Valid a ∧ Valid b ∧ Value.Same a b := by
  intro a b
  have hv : ∀ v : Value, MultiAsset.WF v.ma → (∀ k, Dict.has v.ma k = true → k.length < 2^64) →
      (∀ p ∈ v.ma, ∀ k, Dict.has p.2 k = true → k.length < 2^64) → Valid v := fun v h1 h2 h3 => ⟨h1, h2, h3⟩
  have va : Valid a := by
    apply hv a (by decide)
    · intro k hk; simp [a, run, step, Dict.set, Dict.getD, Dict.has] at hk; rcases hk with rfl | rfl <;> decide
    · intro p hp k hk
      simp [a, run, step, Dict.set, Dict.getD] at hp
      rcases hp with rfl | rfl <;> simp [Dict.has] at hk <;> (try rcases hk with rfl | rfl) <;> (try subst hk) <;> decide
  have vb : Valid b := by
    apply hv b (by decide)
    · intro k hk
      have : b.ma = [([1], [([7], 5)]), ([2], [([], 1), ([9, 9], 4)])] := by decide
      rw [this] at hk; simp [Dict.has] at hk; rcases hk with rfl | rfl <;> decide
    · intro p hp k hk
      have : b.ma = [([1], [([7], 5)]), ([2], [([], 1), ([9, 9], 4)])] := by decide
      rw [this] at hp; simp at hp
      rcases hp with rfl | rfl <;> simp [Dict.has] at hk <;> (try rcases hk with rfl | rfl) <;> (try subst hk) <;> decide
  refine ⟨by decide, va, vb, ?_⟩
  exact (Value.eq_iff a b).1 (by decide)

end Pyc.C04

#print axioms Pyc.C04.content_multiasset
#print axioms Pyc.C04.content_asset
#print axioms Pyc.C04.normalize_empty_iff
#print axioms Pyc.C04.content_value
#print axioms Pyc.C04.keys_sorted
#print axioms Pyc.C04.no_zero_no_empty
#print axioms Pyc.C04.ofInt_ne_array
#print axioms Pyc.C04.bare_int_iff
#print axioms Pyc.C04.bare_int_pinned_counterexample
#print axioms Pyc.C04.dict_order_independent
#print axioms Pyc.C04.dict_keys_sorted
#print axioms Pyc.C04.keysOk_set
#print axioms Pyc.C04.valid_set
#print axioms Pyc.C04.keysOk_getD
#print axioms Pyc.C04.keysOk_merge
#print axioms Pyc.C04.asset_keysOk_op
#print axioms Pyc.C04.ma_keysOk_merge
#print axioms Pyc.C04.run_valid
#print axioms Pyc.C04.history_independent
