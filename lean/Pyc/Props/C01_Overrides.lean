import Pyc.Model.SchemaCheck
import Pyc.Generated.Schema

/-! # C01 (extension) — the boundary between table-driven and hand-written codecs is pinned (tie T1)

The generic codec theorem (`codec_roundtrip`) covers table-driven classes; a class that overrides `to_primitive`,
`to_shallow_primitive`, `from_primitive`, `validate` or `__post_init__`, or whose codec is entirely its own, is an opaque
leaf of that theorem and needs a model of its own.  `repoSchema` is regenerated from /repo's live classes on every run,
so the kernel re-checks on every run that **every class with hand-written codec code is one of those listed here** —
either modelled by hand (with the Lean file that holds the model) or recorded as judged on the implementation only.
A change to /repo that gives a table-driven class its own `from_primitive` (and thereby moves it out of the generic
theorem's scope) breaks `repo_overrides_accounted`, and the failing-input search is then pointed at that class. -/

namespace Pyc.C01.Overrides
open Pyc.Schema Pyc.Generated

def codecOverrides : List String := ["to_primitive", "to_shallow_primitive", "from_primitive", "validate", "__post_init__"]

def isCustomKind : Kind → Bool
  | .custom => true
  | _ => false

/-- the class has hand-written codec code -/
def handWritten (c : ClassDef) : Bool := isCustomKind c.kind || c.overrides.any (fun o => codecOverrides.contains o)

/-- classes with a hand-written codec that have a Lean model, with the model file -/
def modelled : List (String × String) := [
  ("Address", "Model/Addr.lean, Model/AddrLeaf.lean"), ("PointerAddress", "Model/Addr.lean"),
  ("Value", "Model/CustomCodec.lean"), ("MultiAsset", "Model/CustomCodec.lean"), ("Asset", "Model/CustomCodec.lean"),
  ("TransactionOutput", "Model/CustomCodec.lean"), ("_DatumOption", "Model/CustomCodec.lean"),
  ("_Script", "Model/CustomCodec.lean"), ("_ScriptRef", "Model/CustomCodec.lean"),
  ("TransactionBody", "Model/CustomCodec.lean (bodyNorm) + generic table"),
  ("PlutusData", "Model/Plutus.lean"), ("RawPlutusData", "Model/Plutus.lean"), ("Unit", "Model/Plutus.lean"),
  ("NativeScript", "Model/NativeScript.lean"), ("ScriptPubkey", "Model/NativeScript.lean"),
  ("ScriptAll", "Model/NativeScript.lean"), ("ScriptAny", "Model/NativeScript.lean"),
  ("ScriptNofK", "Model/NativeScript.lean"), ("InvalidBefore", "Model/NativeScript.lean"),
  ("InvalidHereAfter", "Model/NativeScript.lean"),
  ("StakeCredential", "Model/Gov.lean"), ("DRepCredential", "Model/Gov.lean"),
  ("CommitteeColdCredential", "Model/Gov.lean"),
  ("DRep", "Model/Gov.lean"), ("Voter", "Model/Gov.lean"),
  ("VotingProcedure", "Model/Gov.lean"), ("GovActionId", "Model/Gov.lean"), ("PoolId", "Model/Pool.lean"),
  ("PoolRegistration", "Model/Pool.lean"), ("PoolParams", "Model/Pool.lean (postInit: relays None -> [])"),
  ("SingleHostAddr", "Model/Pool.lean"),
  ("SingleHostName", "Model/Pool.lean"), ("MultiHostName", "Model/Pool.lean"),
  ("AlonzoMetadata", "Model/Metadata.lean"), ("AuxiliaryData", "Model/Metadata.lean"),
  ("ShelleyMarryMetadata", "Model/Metadata.lean"),
  ("Redeemer", "Model/WitnessCodec.lean"), ("RedeemerKey", "Model/WitnessCodec.lean"),
  ("RedeemerValue", "Model/WitnessCodec.lean"), ("RedeemerTag", "Model/WitnessCodec.lean"),
  ("VerificationKeyWitness", "Model/WitnessCodec.lean"), ("TransactionWitnessSet", "Model/WitnessCodec.lean"),
  ("Network", "Model/Addr.lean"),
  ("PlutusScript", "Model/CustomCodec.lean (Script.plutus), Model/Ids.lean"),
  ("PlutusV1Script", "Model/CustomCodec.lean (Script.plutus), Model/Ids.lean"),
  ("PlutusV2Script", "Model/CustomCodec.lean (Script.plutus), Model/Ids.lean"),
  ("PlutusV3Script", "Model/CustomCodec.lean (Script.plutus), Model/Ids.lean")] ++
  -- key.py: one payload codec (`Key.to_primitive` / `from_primitive`) and one text envelope shared by every key class
  (["SigningKey", "VerificationKey", "ExtendedSigningKey", "ExtendedVerificationKey", "PaymentSigningKey",
    "PaymentVerificationKey", "PaymentExtendedSigningKey", "PaymentExtendedVerificationKey", "StakeSigningKey",
    "StakeVerificationKey", "StakeExtendedSigningKey", "StakeExtendedVerificationKey", "StakePoolSigningKey",
    "StakePoolVerificationKey"].map (fun n => (n, "Model/WitnessCodec.lean (key payload and text envelope)")))

/-- classes with hand-written codec code and NO Lean model: their round trip is judged on the implementation only -/
def implementationOnly : List String := ["CostModels", "HardForkInitiationAction"]

def accounted (n : String) : Bool := (modelled.map (·.1)).contains n || implementationOnly.contains n

/-- the names of the classes of the regenerated table with hand-written codec code that are not accounted for -/
def unaccounted (S : List ClassDef) : List String := ((S.filter handWritten).map (·.name)).filter (fun n => !accounted n)

/-- every class of /repo with hand-written codec code is modelled by hand or recorded as implementation-only -/
theorem repo_overrides_accounted : unaccounted repoSchema = [] := by decide +kernel

/-- … and the record does not rot: every class listed as modelled or implementation-only still exists in /repo -/
theorem accounted_classes_exist :
    ((modelled.map (·.1)) ++ implementationOnly).all (fun n => (lookup repoSchema n).isSome) = true := by decide +kernel

/-- how much of the hand-written codec code has a model (a lower bound that the kernel evaluates on the live table) -/
theorem modelled_share : 56 ≤ ((repoSchema.filter handWritten).filter (fun c => (modelled.map (·.1)).contains c.name)).length := by
  decide +kernel

/-- non-vacuity: a table-driven class that acquires its own `from_primitive` is flagged -/
example : unaccounted [{ name := "TransactionInput", kind := .array, overrides := ["from_primitive"], fields := [] }]
    = ["TransactionInput"] := by decide

end Pyc.C01.Overrides

#print axioms Pyc.C01.Overrides.repo_overrides_accounted
#print axioms Pyc.C01.Overrides.accounted_classes_exist
#print axioms Pyc.C01.Overrides.modelled_share
