import Pyc.Proofs.Metadata

/-! # C01 (extension) — transaction metadata and auxiliary data: decode ∘ encode, re-encoding, validation, dispatch

Property theorems only.  Model: `Pyc/Model/Metadata.lean` (`pycardano/metadata.py` with the parts of `serialization.py` it
runs through); lemmas: `Pyc/Proofs/Metadata.lean`; tied to /repo by `harness/checks/c01_ext_metadata.py` (driver ops `md.*`).
Native scripts inside auxiliary data are a leaf codec `L` assumed lawful (`L.dec (L.enc n) = ok n`), Plutus scripts are
byte strings.  No theorem bounds depth, width or the size of integers. -/

namespace Pyc.C01.Metadata
open Pyc Pyc.Cbor Pyc.Codec Pyc.Custom Pyc.Metadata

/-! ## metadatum values -/

/-- **every metadatum tree survives cbor2**: integers of either sign and ANY size (bignum tags beyond 64 bits), booleans,
byte and text strings of any length, lists and maps (keys of any metadatum kind) nested to any depth -/
theorem metadatum_roundtrip (v : Md) (h : plainV v = true) : mdOfItem (itemMd v) = v := mdOfItem_itemMd v h

/-! ## `Metadata._validate` -/

/-- **validation accepts exactly `Accepted`**: leaves reached through list items and map VALUES are integers / booleans or
strings of at most 64 bytes (text measured in UTF-8 bytes: `Md.text` holds the encoded string) -/
theorem validation_exact (v : Md) : validV v = true ↔ Accepted v := ⟨validV_sound v, validV_complete v⟩

/-- the constructor `Metadata(d)` succeeds iff every key of `d` is an `int` and every value is `Accepted` -/
theorem constructor_exact (kvs : List (Md × Md)) :
    (mkMetadata kvs).isSome = true ↔ ∀ p ∈ kvs, (∃ l, p.1 = .int l) ∧ Accepted p.2 := by
  rw [mkMetadata_some_iff, validateArgs_iff]

/-- **the keys of a nested map are never validated**: whatever the key, the verdict is that of the value -/
theorem validation_ignores_nested_keys (k v : Md) : validV (.map [(k, v)]) = validV v := by
  simp [validV, validP]

/-- what the ledger demands and the code does not: the goal "every accepted value is a `transaction_metadatum`" is FALSE -/
def validation_sound_goal : Prop := ∀ v : Md, validV v = true → specOkV v = true

/-- … but everything in the CDDL ranges is accepted (the check never refuses valid metadata) -/
theorem validation_complete_for_spec (v : Md) (h : specOkV v = true) : validV v = true := validV_of_spec v h

/-- the partial result: what is accepted is a `transaction_metadatum` as soon as the parts `_validate` does not look at are
in range (`extraV`: 64-bit integers, no booleans, every map key a `transaction_metadatum`) -/
theorem validation_sound_partial (v : Md) (h : validV v = true) (he : extraV v = true) : specOkV v = true :=
  specOkV_of_valid v h he

/-- witnesses: a `True` value, an integer beyond 64 bits, a 65-byte key of a nested map -/
theorem validation_sound_counterexample : ¬ validation_sound_goal := by
  intro h
  have := h (.map [(.text (List.replicate 65 120), .int 1)]) (by decide)
  revert this
  decide

/-- **decoding does not validate**: `Metadata.from_cbor` returns an object the constructor refuses (here: a 65-byte text) -/
theorem decode_skips_validation :
    ∃ b m, decMetadataBytes b = .ok m ∧ validate m = false := by
  have hb : (match decMetadataBytes (encMetadata [(1, .text (List.replicate 65 120))]) with
      | .ok m => !validate m
      | _ => false) = true := by decide +kernel
  cases h : decMetadataBytes (encMetadata [(1, .text (List.replicate 65 120))]) with
  | ok m => rw [h] at hb; exact ⟨_, m, h, by simpa using hb⟩
  | deser => rw [h] at hb; simp at hb
  | crash => rw [h] at hb; simp at hb

/-! ## `Metadata` -/

/-- **decode ∘ encode** for every label map a Python dict can hold (distinct labels — of either sign and any size) whose
values have no foreign leaves: the result is the map in canonical (wire) order -/
theorem metadata_roundtrip (m : Metadata) (h : MetaOk m) : decMetadata (itemMetadata m) = .ok (canonSortInt m) :=
  decMetadata_itemMetadata m h.1 h.2

/-- **Python `==`** on `DictCBORSerializable` compares the dicts, and dict equality ignores insertion order: the decoded
object holds exactly the entries of the original -/
theorem metadata_roundtrip_pyeq (m : Metadata) (h : MetaOk m) :
    ∃ m', decMetadata (itemMetadata m) = .ok m' ∧ m'.Perm m :=
  ⟨_, metadata_roundtrip m h, canonSortInt_perm m⟩

/-- … at the byte level (`Metadata.from_cbor(m.to_cbor())`), for CBOR-representable sizes -/
theorem metadata_roundtrip_bytes (m : Metadata) (h : MetaOk m) (hw : Cbor.WF (itemMetadata m)) :
    decMetadataBytes (encMetadata m) = .ok (canonSortInt m) := by
  simp only [decMetadataBytes, encMetadata, decodeAll_encode _ hw, metadata_roundtrip m h]

/-- **re-encoding the decoded object gives the same item** — for EVERY label map (no hypothesis) -/
theorem metadata_reencode (m : Metadata) : itemMetadata (canonSortInt m) = itemMetadata m := itemMetadata_canon m

/-- **the bytes do not depend on insertion order**: the same entries in another order are written identically -/
theorem metadata_order_independent (m₁ m₂ : Metadata) (hd : (labels m₁).Nodup) (hw : LabelsWF m₁) (hp : m₁.Perm m₂) :
    encMetadata m₁ = encMetadata m₂ := by
  simp only [encMetadata, itemMetadata_perm m₁ m₂ hd hw hp]

/-- … in particular for all labels of at most 64 bits -/
theorem metadata_order_independent_64 (m₁ m₂ : Metadata) (hd : (labels m₁).Nodup)
    (h64 : ∀ p ∈ m₁, -(2^64 : Int) ≤ p.1 ∧ p.1 < 2^64) (hp : m₁.Perm m₂) : encMetadata m₁ = encMetadata m₂ :=
  metadata_order_independent m₁ m₂ hd (labelsWF_of_64 m₁ h64) hp

/-- the emitted labels are sorted by `(len(cbor(label)), cbor(label))` -/
theorem metadata_sorted (m : Metadata) :
    ∃ l : Metadata, itemMetadata m = .map (l.map (fun p => (ofInt p.1, itemMd p.2))) ∧ l.Perm m ∧
      l.Pairwise (fun a b => lenLexLe (encode (ofInt a.1)) (encode (ofInt b.1)) = true) :=
  ⟨canonSortInt m, rfl, canonSortInt_perm m, canonSortInt_sorted m⟩

/-! ## the three eras -/

variable {N : Type}

/-- **`ShelleyMarryMetadata(metadata, native_scripts)`** with a script list (empty or not) -/
theorem shelley_ma_roundtrip (L : Leaf N) (hL : L.Lawful) (m : Metadata) (ns : List N) (h : MetaOk m) :
    decShelleyMa L (itemShelleyMa L ⟨m, some ns⟩) = .ok ⟨canonSortInt m, some ns⟩ :=
  decShelleyMa_item_some L hL m ns h

/-- **`ShelleyMarryMetadata(metadata)`** — `native_scripts` not given: `__post_init__` makes it the empty list, which is
written `[metadata, []]` and decodes to the constructed object -/
theorem shelley_ma_default_roundtrip (L : Leaf N) (hL : L.Lawful) (m : Metadata) (h : MetaOk m) :
    normShelleyMa ⟨m, Option.none⟩ = (⟨m, some []⟩ : ShelleyMa N) ∧
    itemShelleyMa L (normShelleyMa ⟨m, Option.none⟩) = .array [itemMetadata m, .array []] ∧
    decShelleyMa L (itemShelleyMa L (normShelleyMa ⟨m, Option.none⟩)) = .ok ⟨canonSortInt m, some []⟩ :=
  ⟨rfl, rfl, decShelleyMa_item_some L hL m [] h⟩

/-- the one-item array `[metadata]` (never written by the library) is accepted: the constructor fills in the empty list -/
theorem shelley_ma_one_item_decodes (L : Leaf N) (m : Metadata) (h : MetaOk m) :
    decShelleyMa L (.array [itemMetadata m]) = .ok ⟨canonSortInt m, some []⟩ := decShelleyMa_one_item L m h

/-- a FOREIGN `[metadata, null]` — which is also what an object whose `native_scripts` was set to `None` AFTER construction
writes — still raises (`TypeError`: the hook iterates `None`), as a class and through `AuxiliaryData`; no constructed or
decoded object reaches this (`aux_norm_constructed`, `aux_decoded_constructed`) -/
theorem shelley_ma_foreign_null_crashes (L : Leaf N) (m : Metadata) (h : MetaOk m) :
    itemShelleyMa L ⟨m, Option.none⟩ = .array [itemMetadata m, .simple 22] ∧
    decShelleyMa L (.array [itemMetadata m, .simple 22]) = .crash ∧
    decAux L (.array [itemMetadata m, .simple 22]) = .crash :=
  ⟨rfl, decShelleyMa_item_none L m h, decAux_shelleyMa_none L m h⟩

/-- **`AlonzoMetadata`** with EVERY subset of its five optional fields (the structure quantifies over all 32) -/
theorem alonzo_roundtrip (L : Leaf N) (hL : L.Lawful) (a : Alonzo N) (h : AlonzoOk a) :
    decAlonzo L (itemAlonzo L a) = .ok { a with metadata := a.metadata.map canonSortInt } :=
  decAlonzo_itemAlonzo L hL a h

/-- the wire form of the Alonzo era: tag 259 around a map whose keys are exactly the fields that are set, ascending -/
theorem alonzo_shape (L : Leaf N) (a : Alonzo N) :
    ∃ kvs, itemAlonzo L a = .tag 259 (.map kvs) ∧
      kvs.map (·.1) = ((if a.metadata.isSome then [Item.uint 0] else []) ++ (if a.native.isSome then [Item.uint 1] else []) ++
        (if a.v1.isSome then [Item.uint 2] else []) ++ (if a.v2.isSome then [Item.uint 3] else []) ++
        (if a.v3.isSome then [Item.uint 4] else [])) := by
  obtain ⟨md, nat, v1, v2, v3⟩ := a
  refine ⟨_, rfl, ?_⟩
  cases md <;> cases nat <;> cases v1 <;> cases v2 <;> cases v3 <;> simp [alonzoFields, optField]

/-! ## `AuxiliaryData` -/

/-- **decode ∘ encode, FULL** — for EVERY auxiliary data object the constructors can be asked for (`normAux a`: what they
make of their arguments; `AuxOk`: distinct labels, no foreign leaves): the three eras, every subset of the Alonzo fields, the
Shelley-MA form with or without a script list.  The result is the constructed object with every label map in canonical order -/
theorem aux_roundtrip (L : Leaf N) (hL : L.Lawful) (a : Aux N) (h : AuxOk a) :
    decAux L (itemAux L (normAux a)) = .ok (canonAux (normAux a)) := decAux_itemAux_norm L hL a h

/-- … the same for any object that IS constructed (the Shelley-MA form holds a list) -/
theorem aux_roundtrip_constructed (L : Leaf N) (hL : L.Lawful) (a : Aux N) (h : AuxOk a) (hc : Constructed a) :
    decAux L (itemAux L a) = .ok (canonAux a) := decAux_itemAux L hL a h hc

/-- the constructor's normalisation is idempotent, its results are constructed objects and fixed points, and so is what the
decoder returns -/
theorem aux_norm_idempotent (a : Aux N) : normAux (normAux a) = normAux a := normAux_idem a
theorem aux_norm_constructed (a : Aux N) : Constructed (normAux a) := constructed_normAux a
theorem aux_norm_fixed (a : Aux N) (h : Constructed a) : normAux a = a := normAux_of_constructed a h
theorem aux_decoded_constructed (a : Aux N) : Constructed (canonAux (normAux a)) :=
  constructed_canonAux _ (constructed_normAux a)

/-- a lawful leaf for the examples: a native script is a natural number -/
def natLeaf : Leaf Nat := ⟨fun n => .uint n, fun i => match i with | .uint n => .ok n | _ => .deser⟩
theorem natLeaf_lawful : natLeaf.Lawful := ⟨fun _ => rfl⟩

/-- … at the byte level -/
theorem aux_roundtrip_bytes (L : Leaf N) (hL : L.Lawful) (a : Aux N) (h : AuxOk a)
    (hw : Cbor.WF (itemAux L (normAux a))) : decAuxBytes L (encAux L (normAux a)) = .ok (canonAux (normAux a)) := by
  simp only [decAuxBytes, encAux, decodeAll_encode _ hw, aux_roundtrip L hL a h]

/-- **the dispatch is unambiguous**: on the image of the encoder each of the three decoders refuses
(`DeserializeException`) the forms of the other two eras, so the order in which `AuxiliaryData.from_primitive` tries them
does not matter, and each form decodes as itself -/
theorem aux_dispatch_exclusive (L : Leaf N) (m : Metadata) (s : ShelleyMa N) (a : Alonzo N) :
    decAlonzo L (itemMetadata m) = .deser ∧ decAlonzo L (itemShelleyMa L s) = .deser ∧
    decShelleyMa L (itemMetadata m) = .deser ∧ decShelleyMa L (itemAlonzo L a) = .deser ∧
    decMetadata (itemShelleyMa L s) = .deser ∧ decMetadata (itemAlonzo L a) = .deser :=
  ⟨rfl, rfl, rfl, rfl, rfl, rfl⟩

theorem aux_decodes_as_itself (L : Leaf N) (hL : L.Lawful) (a : Aux N) (h : AuxOk a) :
    ∃ a', decAux L (itemAux L (normAux a)) = .ok a' ∧
      (match a, a' with
        | .shelley _, .shelley _ => True
        | .shelleyMa _, .shelleyMa _ => True
        | .alonzo _, .alonzo _ => True
        | _, _ => False) := by
  refine ⟨canonAux (normAux a), aux_roundtrip L hL a h, ?_⟩
  cases a <;> simp [canonAux, normAux]

/-- **re-encoding the decoded object gives the same item** — for EVERY auxiliary data object -/
theorem aux_reencode (L : Leaf N) (a : Aux N) : encAux L (canonAux a) = encAux L a := by
  simp only [encAux, itemAux_canonAux]

/-- **same content ⇒ same bytes**: label maps that are permutations of each other -/
theorem aux_order_independent (L : Leaf N) (a₁ a₂ : Aux N) (h : AuxOk a₁) (hw : AuxLabelsWF a₁) (hp : PermAux a₁ a₂) :
    encAux L a₁ = encAux L a₂ := by
  simp only [encAux, itemAux_perm L a₁ a₂ h hw hp]

/-- the last field of a `Transaction` (`Optional[AuxiliaryData]`): `None` and every constructible object survive -/
theorem opt_aux_roundtrip (L : Leaf N) (hL : L.Lawful) (o : Option (Aux N)) (h : ∀ a, o = some a → AuxOk a) :
    decOptAux L (itemOptAux L (o.map normAux)) = .ok (o.map (fun a => canonAux (normAux a))) := by
  cases o with
  | none => rfl
  | some a => simp [itemOptAux, decOptAux, aux_roundtrip L hL a (h a rfl)]

/-! ## non-vacuity -/

/-- nesting, a bignum, a negative bignum, the 64-bit boundaries, 64-byte strings (32 two-byte characters), empty and
nested collections, map keys of several kinds -/
def exMd : Md :=
  .map [(.text [107], .list [.int 0, .int (-1), .int 18446744073709551615, .int 18446744073709551616,
           .int (-18446744073709551617), .int 3541774862152233910272]),
        (.int 7, .bytes (List.replicate 64 9)),
        (.bytes [1, 2], .text (List.replicate 32 195 |>.flatMap (fun c => [c, 169]))),
        (.list [.int 1, .int 2], .map [(.map [(.int 1, .int 2)], .list [])]),
        (.bool true, .bool false)]

/-- a value meeting the hypotheses of `validation_sound_partial` -/
def C02ex : Md := .map [(.text [107], .list [.int (-18446744073709551616), .bytes (List.replicate 64 1)]), (.list [.int 1], .text [])]

/-- labels whose length-first order differs from numeric insertion order, 0 / 23 / 24 / 2^32 / 2^64-1 / 2^64 / negative -/
def exMeta : Metadata :=
  [(4294967296, exMd), (24, .text []), (0, .int 5), (18446744073709551616, .list []), (23, .map []),
   (18446744073709551615, .bytes []), (-1, .int 0)]

theorem exMeta_ok : MetaOk exMeta := okM_sound _ (by decide +kernel)

example : plainV exMd = true ∧ validV exMd = true := by decide +kernel
example : validV C02ex = true ∧ extraV C02ex = true := by decide +kernel
example : decMetadata (itemMetadata exMeta) = .ok (canonSortInt exMeta) := metadata_roundtrip exMeta exMeta_ok
example : (canonSortInt exMeta).map (·.1) = [0, 23, -1, 24, 4294967296, 18446744073709551615, 18446744073709551616] := by
  decide +kernel
-- the kernel evaluates encoder, CBOR decoder and restoration: all seven labels come back in wire order, re-encoding
-- reproduces the bytes, and the reversed insertion order is written identically
example :
    (match decMetadataBytes (encMetadata exMeta) with
      | .ok m => m.map (·.1) == (canonSortInt exMeta).map (·.1) && encMetadata m == encMetadata exMeta &&
          encMetadata exMeta.reverse == encMetadata exMeta && validate m
      | _ => false) = true := by decide +kernel

def exAlonzo : Alonzo Nat := { metadata := some exMeta, native := some [3, 4], v2 := some [[1, 2, 3], []], v3 := some [] }
def exAuxes : List (Aux Nat) :=
  [.shelley exMeta, .shelleyMa ⟨exMeta, some [7]⟩, .shelleyMa ⟨[], some []⟩, .shelleyMa ⟨exMeta, Option.none⟩,
   .alonzo exAlonzo, .alonzo {}, .alonzo { v1 := some [[9]] }]

example : exAuxes.all auxOkB = true := by decide +kernel
example :
    exAuxes.all (fun a => match decAuxBytes natLeaf (encAux natLeaf (normAux a)) with
      | .ok a' => encAux natLeaf a' == encAux natLeaf (normAux a) && constructedB a' &&
          (match a, a' with
            | .shelley _, .shelley _ => true | .shelleyMa _, .shelleyMa _ => true | .alonzo _, .alonzo _ => true
            | _, _ => false)
      | _ => false) = true := by decide +kernel
-- the former counterexample (KF repaired by 68fc5c3), as a regression example: `ShelleyMarryMetadata(Metadata())` is `82 a0 80`
example : encAux natLeaf (normAux (.shelleyMa ⟨[], Option.none⟩)) = [0x82, 0xa0, 0x80] := by decide +kernel
-- the foreign stream `82 a0 f6` (null where the list is prescribed) still raises, `81 a0` is completed by the constructor
example : (match decAuxBytes natLeaf [0x82, 0xa0, 0xf6] with | .crash => true | _ => false) = true ∧
    (match decAuxBytes natLeaf [0x81, 0xa0] with | .ok (.shelleyMa ⟨[], some []⟩) => true | _ => false) = true := by
  decide +kernel
-- the empty-metadata / empty-list stream `82 a0 80` is the Shelley-MA form, not a label map
example : (match decAuxBytes natLeaf [0x82, 0xa0, 0x80] with | .ok (.shelleyMa ⟨[], some []⟩) => true | _ => false) = true := by
  decide +kernel
-- the two other witnesses of `validation_sound_counterexample`
example : validV (.bool true) = true ∧ specOkV (.bool true) = false ∧
    validV (.int 18446744073709551616) = true ∧ specOkV (.int 18446744073709551616) = false := by decide

end Pyc.C01.Metadata

#print axioms Pyc.C01.Metadata.metadatum_roundtrip
#print axioms Pyc.C01.Metadata.validation_exact
#print axioms Pyc.C01.Metadata.constructor_exact
#print axioms Pyc.C01.Metadata.validation_ignores_nested_keys
#print axioms Pyc.C01.Metadata.validation_complete_for_spec
#print axioms Pyc.C01.Metadata.validation_sound_partial
#print axioms Pyc.C01.Metadata.validation_sound_counterexample
#print axioms Pyc.C01.Metadata.decode_skips_validation
#print axioms Pyc.C01.Metadata.metadata_roundtrip
#print axioms Pyc.C01.Metadata.metadata_roundtrip_pyeq
#print axioms Pyc.C01.Metadata.metadata_roundtrip_bytes
#print axioms Pyc.C01.Metadata.metadata_reencode
#print axioms Pyc.C01.Metadata.metadata_order_independent
#print axioms Pyc.C01.Metadata.metadata_order_independent_64
#print axioms Pyc.C01.Metadata.metadata_sorted
#print axioms Pyc.C01.Metadata.shelley_ma_roundtrip
#print axioms Pyc.C01.Metadata.shelley_ma_default_roundtrip
#print axioms Pyc.C01.Metadata.shelley_ma_one_item_decodes
#print axioms Pyc.C01.Metadata.shelley_ma_foreign_null_crashes
#print axioms Pyc.C01.Metadata.alonzo_roundtrip
#print axioms Pyc.C01.Metadata.alonzo_shape
#print axioms Pyc.C01.Metadata.aux_roundtrip
#print axioms Pyc.C01.Metadata.aux_roundtrip_constructed
#print axioms Pyc.C01.Metadata.aux_norm_idempotent
#print axioms Pyc.C01.Metadata.aux_norm_constructed
#print axioms Pyc.C01.Metadata.aux_norm_fixed
#print axioms Pyc.C01.Metadata.aux_decoded_constructed
#print axioms Pyc.C01.Metadata.natLeaf_lawful
#print axioms Pyc.C01.Metadata.aux_roundtrip_bytes
#print axioms Pyc.C01.Metadata.aux_dispatch_exclusive
#print axioms Pyc.C01.Metadata.aux_decodes_as_itself
#print axioms Pyc.C01.Metadata.aux_reencode
#print axioms Pyc.C01.Metadata.aux_order_independent
#print axioms Pyc.C01.Metadata.opt_aux_roundtrip
#print axioms Pyc.C01.Metadata.exMeta_ok
