import Pyc.Proofs.WitnessCodec

/-! # C02 (extension) — the witness side is written as the Conway CDDL prescribes

`Spec/WitnessCodec.lean` transliterates the CDDL rules `transaction_witness_set`, `nonempty_set`, `vkeywitness`,
`redeemers`, `redeemer_tag`, `ex_units` as functions from spec-level content to CBOR items, independently of the
model.  `Conf.absWS` reads the spec-level content off a model value (which field is present, which wire form a set
uses, the elements in order); the theorems say that what `to_primitive` builds (`wsItem`, the model of the code) IS the
item the CDDL rule builds for that content, for every witness set whose content is within the CDDL (`WSCddl`: sets not
empty, 32-byte keys, 64-byte signatures, `index : uint .size 4`, execution units in `uint`, tag and units present).
The differential harness (`checks/c02_ext_witnesscodec.py`) compares the implementation with the model AND with the
independent reference encoder `ref/conway.py`, and the Lean transliteration with that reference. -/

namespace Pyc.C02.WitnessCodec
open Pyc Pyc.Cbor Pyc.Codec Pyc.Custom Pyc.WitnessCodec Pyc.WitnessCodec.Conf
open Pyc.Spec.WitnessCodec

variable {N B D R : Type}

/-- `vkeywitness = [vkey, signature]` -/
theorem vkeywitness_conforms (w : VKW) (s : Bytes) (h : w.sig = .bytes s) : vkwItem w = vkeywitness (absVKW w) :=
  vkwItem_spec w s h

/-- `ex_units = [mem : uint, steps : uint]` -/
theorem ex_units_conforms (e : WitnessCodec.ExUnits) (h : ExCddl e) : exItem e = exUnits ⟨e.mem.toNat, e.steps.toNat⟩ :=
  exItem_spec e h

/-- `redeemer_tag = 0 .. 5` in the order spend, mint, cert, reward, voting, proposing; nothing else is a tag -/
theorem redeemer_tag_conforms (t : RTag) :
    (Item.uint t.code) = redeemerTag (specTag t) ∧ t.code ≤ 5 ∧ decTag (.uint t.code) = .ok t := by
  cases t <;> exact ⟨rfl, by decide, rfl⟩

theorem redeemer_tag_six_refused : decTag (.uint 6) = .crash := rfl

/-- list-form element `[tag, index, data, ex_units]` -/
theorem redeemer_conforms (L : Leaf R) (r : Redeemer R) (h : RedeemerCddl r) :
    redeemerItem L r = redeemerArrayEntry (absRedeemer L r) := redeemerItem_spec L r h

/-- `redeemers`, both forms: `[+ [tag, index, data, ex_units]]` and `{+ [tag, index] => [data, ex_units]}` -/
theorem redeemers_conform (L : Leaf R) (rs : Redeemers R) (h : RedeemersCddl rs) :
    redeemersItem L rs = redeemers (absRedeemers L rs).1 (absRedeemers L rs).2 := redeemersItem_spec L rs h

/-- the entries of the map form are written in canonical order of their encoded keys (length first, then bytewise),
and they are the entries of the map -/
theorem redeemer_map_canonical (m : RMap R) :
    (rmapSorted m).Pairwise (fun a b => lenLexLe (encode (rkeyItem a.1)) (encode (rkeyItem b.1)) = true) ∧
    (rmapSorted m).Perm m := ⟨rmapSorted_sorted m, rmapSorted_perm m⟩

/-- **`transaction_witness_set`**: every subset of the keys 0 .. 7, every set in the wire form it holds -/
theorem witness_set_conforms (L : Leaves N B D R) (x : WS N B D R) (h : WSCddl x) :
    wsItem L x = transactionWitnessSet (absWS L x) ∧ (absWS L x).Ok := ⟨wsItem_spec L x h, absWS_ok L x h⟩

/-- the keys of the struct map are written in strictly ascending order (for EVERY witness set) -/
theorem witness_set_keys_ascending (L : Leaves N B D R) (x : WS N B D R) :
    ∃ ks : List Nat, wsItem L x = .map (wsPairs L x) ∧ (wsPairs L x).map (·.1) = ks.map Item.uint ∧
      ks.Pairwise (· < ·) := by
  obtain ⟨ks, h1, h2⟩ := wsPairs_ascending L x
  exact ⟨ks, rfl, h1, h2⟩

/-- every constructed witness set writes `#6.258([+ a])` for vkey witnesses, native scripts and Plutus scripts -/
theorem constructed_sets_tagged (L : Leaves N B D R) (a : WS N B D R) (c : Coll VKW) (h : (mkWS L a).vkeys = some c) :
    ((absWS L (mkWS L a)).vkeys.map (·.1)) = some SetForm.tagged := by
  obtain ⟨xs, hx⟩ := (mkWS_tagged5 L a).1 c h
  simp [absWS, h, hx, absColl]

/-! ## non-vacuity -/

def natLeaf : Leaf Nat := ⟨fun n => .uint n, fun i => match i with | .uint n => .ok n | _ => .deser⟩
def exLeaves : Leaves Nat Nat Nat Nat := ⟨natLeaf, natLeaf, natLeaf, natLeaf⟩

def exW (b : UInt8) : VKW := ⟨mkKey .verification (List.replicate 32 b), .bytes (List.replicate 64 b)⟩

/-- all eight keys; redeemers in the list form with every width boundary of the index -/
def exFull : WS Nat Nat Nat Nat :=
  { vkeys := some (.oset true [exW 1, exW 2])
    native := some (.oset true [7])
    bootstrap := some (.list [5])
    v1 := some (.oset true [[1, 2, 3]])
    datums := some (.oset false [8, 9])
    redeemers := some (.list [⟨some .spend, .int 0, 1, some ⟨0, 0⟩⟩, ⟨some .proposing, .int 4294967295, 2, some ⟨18446744073709551615, 24⟩⟩])
    v2 := some (.oset true [[4]])
    v3 := some (.oset true [[5], [6]]) }

theorem exFull_cddl : WSCddl exFull := by
  refine ⟨?_, ?_, ?_, ?_, ?_, ?_, ?_, ?_⟩
  · intro c hc
    cases hc
    refine ⟨by simp [Coll.elems], ?_⟩
    intro w hw
    simp only [Coll.elems, List.mem_cons, List.mem_nil_iff, or_false] at hw
    rcases hw with rfl | rfl <;> exact ⟨by simp [exW, mkKey], _, rfl, by simp⟩
  · intro c hc; cases hc; simp [Coll.elems]
  · intro c hc; cases hc; simp [Coll.elems]
  · intro c hc; cases hc; simp [Coll.elems]
  · intro c hc; cases hc; simp [Coll.elems]
  · intro r hr
    cases hr
    refine ⟨by simp, ?_⟩
    intro r hr
    simp only [List.mem_cons, List.mem_nil_iff, or_false] at hr
    rcases hr with rfl | rfl
    · exact ⟨rfl, ⟨0, rfl, by decide, by decide⟩, _, rfl, by simp [ExCddl]⟩
    · exact ⟨rfl, ⟨4294967295, rfl, by decide, by decide⟩, _, rfl, by simp [ExCddl]⟩
  · intro c hc; cases hc; simp [Coll.elems]
  · intro c hc; cases hc; simp [Coll.elems]

example : wsItem exLeaves exFull = transactionWitnessSet (absWS exLeaves exFull) :=
  (witness_set_conforms exLeaves exFull exFull_cddl).1

-- the kernel evaluates both sides to the same bytes, and those start a8 (eight keys) 00 d9 0102 82 (tagged, two witnesses)
example : encode (wsItem exLeaves exFull) = encode (transactionWitnessSet (absWS exLeaves exFull)) ∧
    (encode (wsItem exLeaves exFull)).take 6 = [0xa8, 0x00, 0xd9, 0x01, 0x02, 0x82] := by decide +kernel

/-- the map form -/
def exMap : WS Nat Nat Nat Nat :=
  { redeemers := some (.map [(⟨.spend, 256⟩, ⟨11, ⟨1, 2⟩⟩), (⟨.mint, 0⟩, ⟨12, ⟨3, 4⟩⟩), (⟨.cert, 23⟩, ⟨13, ⟨5, 6⟩⟩)]) }

example : encode (wsItem exLeaves exMap) = encode (transactionWitnessSet (absWS exLeaves exMap)) ∧
    encode (wsItem exLeaves exMap) =
      [0xa1, 0x05, 0xa3, 0x82, 0x01, 0x00, 0x82, 0x0c, 0x82, 0x03, 0x04, 0x82, 0x02, 0x17, 0x82, 0x0d, 0x82, 0x05, 0x06,
       0x82, 0x00, 0x19, 0x01, 0x00, 0x82, 0x0b, 0x82, 0x01, 0x02] := by decide +kernel

-- a changed key falsifies the conformance (non-vacuity of the comparison itself): key 6 and 7 swapped
example : encode (transactionWitnessSet { (absWS exLeaves exFull) with v2 := (absWS exLeaves exFull).v3, v3 := (absWS exLeaves exFull).v2 })
    ≠ encode (wsItem exLeaves exFull) := by decide +kernel

end Pyc.C02.WitnessCodec

#print axioms Pyc.C02.WitnessCodec.vkeywitness_conforms
#print axioms Pyc.C02.WitnessCodec.ex_units_conforms
#print axioms Pyc.C02.WitnessCodec.redeemer_tag_conforms
#print axioms Pyc.C02.WitnessCodec.redeemer_tag_six_refused
#print axioms Pyc.C02.WitnessCodec.redeemer_conforms
#print axioms Pyc.C02.WitnessCodec.redeemers_conform
#print axioms Pyc.C02.WitnessCodec.redeemer_map_canonical
#print axioms Pyc.C02.WitnessCodec.witness_set_conforms
#print axioms Pyc.C02.WitnessCodec.witness_set_keys_ascending
#print axioms Pyc.C02.WitnessCodec.constructed_sets_tagged
#print axioms Pyc.C02.WitnessCodec.exFull_cddl
