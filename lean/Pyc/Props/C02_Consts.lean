import Pyc.Model.SchemaCheck
import Pyc.Generated.Schema

/-! # C02 (extension) — the constants of the hand-written codec models are tied to the source (tie T1)

The models of the hand-written codecs (`Model/NativeScript.lean`, `Model/Pool.lean`, `Model/Gov.lean`,
`Model/WitnessCodec.lean`, `Model/Metadata.lean`) and their CDDL transliterations (`Spec/*.lean`) hard-code the type codes and map
keys the classes write: native-script constructors 0–5, relay kinds 0–2, the DRep / vote / redeemer-tag enumerations, the
witness-set keys 0–7, the Alonzo auxiliary-data keys 0–4.  The same constants are DATA of the classes (`_TYPE` / `_CODE`
field defaults, enum values, `metadata["key"]`) and so are part of the table regenerated from /repo on every run.  The kernel
re-checks here that the regenerated table still carries the values the models assume: a change of one of them in /repo breaks
an obligation deterministically (and is then exhibited concretely by the reference encoder of the differential run). -/

namespace Pyc.C02.Consts
open Pyc.Schema Pyc.Generated

/-- the default of an `init=False` field of a class (`_TYPE`, `_CODE`) -/
def constOf (S : List ClassDef) (cls fld : String) : Option Dflt :=
  (lookup S cls).bind fun c => (c.fields.find? (fun f => f.name == fld)).map (·.dflt)

def keyOf (S : List ClassDef) (cls fld : String) : Option Key :=
  (lookup S cls).bind fun c => (c.fields.find? (fun f => f.name == fld)).map (·.key)

def enumOf (S : List ClassDef) (cls : String) : Option (List Int) :=
  (lookup S cls).bind fun c => match c.kind with | .enum vs => some vs | _ => none

/-- `native_script = [0, keyhash] / [1, [*]] / [2, [*]] / [3, n, [*]] / [4, slot] / [5, slot]` -/
theorem native_script_codes :
    [("ScriptPubkey", 0), ("ScriptAll", 1), ("ScriptAny", 2), ("ScriptNofK", 3), ("InvalidBefore", 4), ("InvalidHereAfter", 5)].all
      (fun p => constOf repoSchema p.1 "_TYPE" == some (.int p.2)) = true := by decide +kernel

/-- `relay = [0, …] / [1, …] / [2, …]` -/
theorem relay_codes :
    [("SingleHostAddr", 0), ("SingleHostName", 1), ("MultiHostName", 2)].all
      (fun p => constOf repoSchema p.1 "_CODE" == some (.int p.2)) = true := by decide +kernel

/-- `drep` kinds 0–3, `vote` 0–2, `redeemer_tag` 0–5 (spend, mint, cert, reward, voting, proposing) -/
theorem enumerations :
    enumOf repoSchema "DRepKind" = some [0, 1, 2, 3] ∧ enumOf repoSchema "Vote" = some [0, 1, 2] ∧
      enumOf repoSchema "RedeemerTag" = some [0, 1, 2, 3, 4, 5] := by decide +kernel

/-- `transaction_witness_set` keys 0–7 in the order the models assume -/
theorem witness_set_keys :
    [("vkey_witnesses", 0), ("native_scripts", 1), ("bootstrap_witness", 2), ("plutus_v1_script", 3), ("plutus_data", 4),
     ("redeemer", 5), ("plutus_v2_script", 6), ("plutus_v3_script", 7)].all
      (fun p => keyOf repoSchema "TransactionWitnessSet" p.1 == some (.int p.2)) = true := by decide +kernel

/-- `#6.259({? 0 => metadata, ? 1 => [* native_script], ? 2 / 3 / 4 => [* plutus_vN_script]})` -/
theorem alonzo_metadata_keys :
    [("metadata", 0), ("native_scripts", 1), ("plutus_v1_scripts", 2), ("plutus_v2_scripts", 3), ("plutus_v3_scripts", 4)].all
      (fun p => keyOf repoSchema "AlonzoMetadata" p.1 == some (.int p.2)) = true := by decide +kernel

/-- non-vacuity: a swapped constructor code is noticed -/
example : constOf [{ name := "ScriptAll", kind := .array, overrides := [], fields :=
    [{ name := "_TYPE", key := .pos, optional := false, init := false, hook := false, ty := .int, dflt := .int 2 }] }] "ScriptAll" "_TYPE"
    ≠ some (.int 1) := by decide

end Pyc.C02.Consts

#print axioms Pyc.C02.Consts.native_script_codes
#print axioms Pyc.C02.Consts.relay_codes
#print axioms Pyc.C02.Consts.enumerations
#print axioms Pyc.C02.Consts.witness_set_keys
#print axioms Pyc.C02.Consts.alonzo_metadata_keys
