import Pyc.Proofs.NativeScript

/-! # C01 (extension) — native scripts: decoding an encoded script returns an equal script

Model: `Pyc/Model/NativeScript.lean` (`NativeScript.from_primitive` with the six subclasses, `to_dict` / `from_dict`,
`hash`; the serializer `to_primitive` is `Pyc.Ids.NScript.item` of `Model/Ids.lean`), tied to /repo by
`harness/checks/c01_ext_nativescript.py`.  Until now a native script was an opaque leaf of the generic codec model and of
the `TransactionOutput` model (`Leaves.native`); `nsLeaf_lawful` discharges that assumption with the real codec.

Every statement is for ALL scripts: any nesting depth, any list lengths, any integers (`n` and the slots are Python ints:
negative values and values beyond 64 bits are accepted and written back by the code, and are covered).  The only
hypothesis on a script is `wfB s`: every key hash has 28 bytes — which `VerificationKeyHash.__init__` asserts, so every
script built through the public constructors satisfies it.  Byte-level statements also need the primitive to be
CBOR-representable (`Cbor.WF`: lengths and integers that fit their heads), which `inRangeB` (the CDDL ranges) implies. -/

set_option linter.unusedSimpArgs false

namespace Pyc.C01.NativeScript
open Pyc Pyc.Cbor Pyc.Codec Pyc.Custom Pyc.Ids Pyc.NativeScript

/-! ## (a) `from_primitive ∘ to_primitive` -/

/-- **decode ∘ encode on primitives**: for every script with 28-byte key hashes and every fuel not below its nesting
depth, `NativeScript.from_primitive(s.to_primitive())` returns `s` -/
theorem ns_roundtrip (s : NScript) (hw : wfB s = true) (fuel : Nat) (hf : depth s ≤ fuel) :
    fromItem fuel (toItem s) = .ok s := fromItem_toItem s hw fuel hf

/-- the fuel is no restriction: on ANY item (well-formed or not) every fuel not below the depth of the item gives the
same answer, so the out-of-fuel crash is never what a sufficiently fuelled run reports -/
theorem ns_fuel_adequate (i : Item) (f g : Nat) (hf : Cbor.depth i ≤ f) (hg : Cbor.depth i ≤ g) :
    fromItem f i = fromItem g i := fromItem_fuel i f g hf hg

/-- the decoder returns scripts with 28-byte key hashes only, whatever it is given -/
theorem ns_decoded_wf (f : Nat) (i : Item) (s : NScript) (h : fromItem f i = .ok s) : wfB s = true := fromItem_wf f i s h

/-! ## (b) bytes -/

/-- **`NativeScript.from_cbor(s.to_cbor()) == s`** (composition with the CBOR round trip `Cbor.decodeAll_encode`) -/
theorem ns_roundtrip_bytes (s : NScript) (hw : wfB s = true) (hr : Cbor.WF (toItem s)) :
    fromBytes (toBytes s) = .ok s := fromBytes_toBytes s hw hr

/-- … in particular for every script within the ranges of the CDDL -/
theorem ns_roundtrip_bytes_inrange (s : NScript) (h : Spec.NativeScript.inRangeB s = true) :
    fromBytes (toBytes s) = .ok s :=
  fromBytes_toBytes s (wfB_of_inRange s h) (item_wf s (validNative_of_inRange s h))

/-! ## (c) re-encoding -/

/-- **re-encoding the decoded script gives the same bytes** -/
theorem ns_reencode (s : NScript) (hw : wfB s = true) (hr : Cbor.WF (toItem s)) :
    ∃ s', fromBytes (toBytes s) = .ok s' ∧ toBytes s' = toBytes s :=
  ⟨s, fromBytes_toBytes s hw hr, rfl⟩

/-- the same for bytes the library did not write: "whatever the decoder accepts is written back as received" is FALSE
of the code.  `ArrayCBORSerializable.from_primitive` keeps surplus array elements as `unknown_field<i>` attributes that
`to_cbor` does not write, so `[4, 0, 7]` is accepted as `InvalidBefore(0)` and written back as `[4, 0]` (a different
script hash).  Goal kept; the partial results are `ns_reencode` (bytes of the library) and
`Pyc.C02.NativeScript.ns_cddl_accepted_reencode` (every item the CDDL admits). -/
def ns_reencode_accepted_goal : Prop := ∀ (f : Nat) (i : Item) (s : NScript), fromItem f i = .ok s → toItem s = i

def exSurplus : Item := .array [.uint 4, .uint 0, .uint 7]

theorem ns_reencode_accepted_counterexample : ¬ ns_reencode_accepted_goal := by
  intro h
  have h1 : fromItem 1 exSurplus = .ok (.before 0) := by
    simp [exSurplus, fromItem, typeCode?, itemInt?, decSlot, decInt, Res.bind]
  have h2 := h 1 exSurplus (.before 0) h1
  simp [exSurplus, toItem, NScript.item, ofInt] at h2

/-! ## (d) injectivity: distinct scripts have distinct primitives, bytes and hash preimages -/

theorem ns_toItem_injective (s t : NScript) (hs : wfB s = true) (ht : wfB t = true) (h : toItem s = toItem t) : s = t :=
  toItem_injective s t hs ht h

theorem ns_bytes_injective (s t : NScript) (hs : wfB s = true) (ht : wfB t = true)
    (hrs : Cbor.WF (toItem s)) (hrt : Cbor.WF (toItem t)) (h : toBytes s = toBytes t) : s = t :=
  toBytes_injective s t hs ht hrs hrt h

/-- `NativeScript.hash` is `H(28, 0x00 ‖ to_cbor())`, the identifier C17 speaks about -/
theorem ns_hash_is_script_hash (H : Nat → Bytes → Bytes) (s : NScript) :
    NativeScript.scriptHash H s = Ids.scriptHash H (.native s) := rfl

/-- two scripts with the same hash either are the same script or exhibit a collision of the hash function -/
theorem ns_hash_injective (H : Nat → Bytes → Bytes) (s t : NScript) (hs : wfB s = true) (ht : wfB t = true)
    (hrs : Cbor.WF (toItem s)) (hrt : Cbor.WF (toItem t)) (h : NativeScript.scriptHash H s = NativeScript.scriptHash H t) :
    s = t ∨ (hashPreimage s ≠ hashPreimage t ∧ H 28 (hashPreimage s) = H 28 (hashPreimage t)) := by
  by_cases hp : hashPreimage s = hashPreimage t
  · left
    simp only [hashPreimage, List.cons.injEq, true_and] at hp
    exact toBytes_injective s t hs ht hrs hrt hp
  · right
    exact ⟨hp, h⟩

/-! ## (e) the JSON route -/

/-- **`NativeScript.from_dict(s.to_dict()) == s`** -/
theorem ns_json_roundtrip (s : NScript) (hw : wfB s = true) (fuel : Nat) (hf : depth s ≤ fuel) :
    fromDict fuel (toDict s) = .ok s := fromDict_toDict s hw fuel hf

/-- `from_dict` reads the dictionary in ITS key order (`for key, value in script_json.items()`): "the JSON form is read
whatever the order of its keys" is FALSE of the code.  The keys of `atLeast` written as `scripts`, `required`, `type` give
the primitive `[3, [...], n]`, which is refused.  Goal kept; `ns_json_roundtrip` is the partial result for the order
`to_dict` (and cardano-cli) writes. -/
def ns_json_key_order_goal : Prop :=
  ∀ (f : Nat) (n : Int) (xs : List NScript), wfBs xs = true → depth (.nofk n xs) ≤ f →
    fromDict f (.obj [("scripts", .arr (toDicts xs)), ("required", .num n), ("type", .str tAtLeast)]) = .ok (.nofk n xs)

theorem ns_json_key_order_counterexample : ¬ ns_json_key_order_goal := by
  intro h
  have h1 := h 1 1 [] rfl (by decide)
  simp [fromDict, jsonPrim, NativeScript.lookupKey, tagCode, tAtLeast, tSig, tAll, tAny, mapRes, rawItem, Res.bind, fromItem,
    typeCode?, decInt, itemInt?, toDicts, childItems] at h1

/-! ## (f) the native-script leaf of `TransactionOutput` -/

/-- the real native-script codec restores what it wrote: the assumption `Leaf.Lawful` of the output theorems holds of
it -/
theorem nsLeaf_lawful : nsLeaf.Lawful := ⟨nsLeaf_rt⟩

/-- `nsLeaf.dec` IS `NativeScript.from_primitive` (the well-formedness test it carries never fails) -/
theorem nsLeaf_is_fromItem (i : Item) :
    (match nsLeaf.dec i with
      | .ok x => Res.ok x.val
      | .deser => .deser
      | .crash => .crash) = fromItem (Cbor.depth i) i := nsLeaf_dec i

/-- **the output round trip with the real native-script codec**: for any lawful address and datum leaves, every
well-formed output that carries native scripts decodes to `decodedOutput o` — no assumption about scripts is left -/
theorem output_roundtrip_native {A D : Type} (La : Leaf A) (Ld : Leaf D) (ha : La.Lawful) (hd : Ld.Lawful)
    (o : Output A D WScript) (h : OutputOk ⟨La, Ld, nsLeaf⟩ o) :
    decOutput ⟨La, Ld, nsLeaf⟩ (itemOutput ⟨La, Ld, nsLeaf⟩ o) = .ok (decodedOutput o) :=
  decOutput_itemOutput ⟨La, Ld, nsLeaf⟩ ⟨ha, hd, nsLeaf_lawful⟩ o h

/-! ## non-vacuity -/

def kh1 : Bytes := List.replicate 28 0xab
def kh2 : Bytes := List.range 28 |>.map UInt8.ofNat

/-- nested three deep, an empty list, negative `n`, a slot beyond 64 bits -/
def exScript : NScript :=
  .all [.pubkey kh1, .nofk (-2) [.any [], .pubkey kh2, .before 4294967296], .hereafter 18446744073709551616, .nofk 1 [.pubkey kh2]]

/-- within the CDDL ranges -/
def exInRange : NScript := .any [.pubkey kh1, .nofk 2 [.pubkey kh1, .pubkey kh2, .before 24], .hereafter 18446744073709551615]

example : wfB exScript = true := by decide
example : depth exScript = 3 := by decide
example : fromItem 3 (toItem exScript) = .ok exScript := ns_roundtrip exScript (by decide) 3 (by decide)
example : fromDict 3 (toDict exScript) = .ok exScript := ns_json_roundtrip exScript (by decide) 3 (by decide)
example : Spec.NativeScript.inRangeB exInRange = true := by decide
example : fromBytes (toBytes exInRange) = .ok exInRange := ns_roundtrip_bytes_inrange exInRange (by decide)
-- the hypothesis `wfB` is needed: a 27-byte key hash is written but not read back (AssertionError)
example : (match fromItem 1 (toItem (.pubkey (List.replicate 27 0))) with | .crash => true | _ => false) = true := by decide
-- fuel below the depth: the out-of-fuel crash
example : (match fromItem 2 (toItem exScript) with | .crash => true | _ => false) = true := by decide

def bytesLeaf : Leaf Bytes := ⟨fun b => .bytes b, fun i => match i with | .bytes b => .ok b | _ => .deser⟩
def natLeaf : Leaf Nat := ⟨fun n => .uint n, fun i => match i with | .uint n => .ok n | _ => .deser⟩
def exW : WScript := ⟨exInRange, by decide⟩
def exOut : Output Bytes Nat WScript :=
  ⟨0x61 :: List.replicate 28 9, ⟨2000000, []⟩, Option.none, Option.none, some (.native exW), true⟩

theorem exOut_ok : OutputOk ⟨bytesLeaf, natLeaf, nsLeaf⟩ exOut := by
  refine ⟨valueOkB_sound _ (by decide), ?_, ?_, ?_⟩
  · intro hh e; cases e
  · intro d e; cases e
  · intro s e
    cases e
    exact item_wf exInRange (validNative_of_inRange exInRange (by decide))

example : decOutput ⟨bytesLeaf, natLeaf, nsLeaf⟩ (itemOutput ⟨bytesLeaf, natLeaf, nsLeaf⟩ exOut) = .ok (decodedOutput exOut) :=
  output_roundtrip_native bytesLeaf natLeaf ⟨fun _ => rfl⟩ ⟨fun _ => rfl⟩ exOut exOut_ok

end Pyc.C01.NativeScript

#print axioms Pyc.C01.NativeScript.ns_roundtrip
#print axioms Pyc.C01.NativeScript.ns_fuel_adequate
#print axioms Pyc.C01.NativeScript.ns_decoded_wf
#print axioms Pyc.C01.NativeScript.ns_roundtrip_bytes
#print axioms Pyc.C01.NativeScript.ns_roundtrip_bytes_inrange
#print axioms Pyc.C01.NativeScript.ns_reencode
#print axioms Pyc.C01.NativeScript.ns_reencode_accepted_counterexample
#print axioms Pyc.C01.NativeScript.ns_toItem_injective
#print axioms Pyc.C01.NativeScript.ns_bytes_injective
#print axioms Pyc.C01.NativeScript.ns_hash_is_script_hash
#print axioms Pyc.C01.NativeScript.ns_hash_injective
#print axioms Pyc.C01.NativeScript.ns_json_roundtrip
#print axioms Pyc.C01.NativeScript.ns_json_key_order_counterexample
#print axioms Pyc.C01.NativeScript.nsLeaf_lawful
#print axioms Pyc.C01.NativeScript.nsLeaf_is_fromItem
#print axioms Pyc.C01.NativeScript.output_roundtrip_native
#print axioms Pyc.C01.NativeScript.exOut_ok
